(* Proofs about C04's permit-holding overlay (Model/CopyHold.v): it only strengthens the guard of the
   transition system, permits held never exceed K, and the operations in flight are bounded by the
   permits held. *)
From Oras Require Import Base.Prelude Model.CopySpec Model.CopyTop Model.CopyOpt Model.CopyCancel Model.CopyHold
  Proofs.CopySpec Proofs.CopyAcct Proofs.CopyOpt.
From Oras Require Model.CopyImpl Proofs.CopyImplBase.
Local Open Scope nat_scope.

Ltac simp_st := cbn [set_ph ph dst cached tag returned] in *.

(* ------------------------------------------------------------------ the overlay refines the system *)

Lemma step_h_step g c st e st' : step_h g c st e = Some st' -> step g c st e = Some st'.
Proof. unfold step_h. destruct (acquires g st e && negb (holders g st <? c_K c)); [discriminate|auto]. Qed.

Lemma run_h_run g c tr : forall st st', run_h g c st tr = Some st' -> run g c st tr = Some st'.
Proof.
  induction tr as [|e tr IH]; simpl; intros st st' H; [exact H|].
  destruct (step_h g c st e) as [s1|] eqn:E; [|discriminate].
  rewrite (step_h_step _ _ _ _ _ E). auto.
Qed.

Lemma accepts_h_accepts g c d0 tr st : accepts_h g c d0 tr = Some st -> accepts g c d0 tr = Some st.
Proof. apply run_h_run. Qed.

Lemma step_opt_h_step_opt cs g c st e r : step_opt_h cs g c st e = Some r -> step_opt cs g c st e = Some r.
Proof.
  unfold step_opt_h, step_opt. destruct (nil_cb_event cs e); [discriminate|].
  destruct (run_h g c st (pre_events cs st e ++ [e])) as [s2|] eqn:E1; [|discriminate].
  rewrite (run_h_run _ _ _ _ _ E1).
  destruct (run_h g c s2 (post_events cs s2 e)) as [s3|] eqn:E2; [|discriminate].
  rewrite (run_h_run _ _ _ _ _ E2). auto.
Qed.

Lemma run_opt_h_run_opt cs g c tr : forall st r, run_opt_h cs g c st tr = Some r -> run_opt cs g c st tr = Some r.
Proof.
  induction tr as [|e tr IH]; simpl; intros st r H; [exact H|].
  destruct (step_opt_h cs g c st e) as [[s1 f1]|] eqn:E; [|discriminate].
  rewrite (step_opt_h_step_opt _ _ _ _ _ _ E).
  destruct (run_opt_h cs g c s1 tr) as [[s2 f2]|] eqn:E2; [|discriminate].
  rewrite (IH _ _ E2). exact H.
Qed.

Lemma accepts_opt_h_accepts_opt cs g c d0 tr st full :
  accepts_opt_h cs g c d0 tr = Some (st, full) -> accepts_opt cs g c d0 tr = Some (st, full).
Proof. apply run_opt_h_run_opt. Qed.

Lemma run_h_app g c tr1 : forall tr2 st st', run_h g c st (tr1 ++ tr2) = Some st' ->
  exists st1, run_h g c st tr1 = Some st1 /\ run_h g c st1 tr2 = Some st'.
Proof.
  induction tr1 as [|e tr1 IH]; simpl; intros tr2 st st' H.
  - eauto.
  - destruct (step_h g c st e) as [s1|]; [|discriminate]. eauto.
Qed.

Lemma run_h_cat g c a : forall b st s1 s2,
  run_h g c st a = Some s1 -> run_h g c s1 b = Some s2 -> run_h g c st (a ++ b) = Some s2.
Proof.
  induction a as [|e a IH]; simpl; intros b st s1 s2 H1 H2.
  - injection H1 as <-. exact H2.
  - destruct (step_h g c st e) as [s|]; [|discriminate]. eapply IH; eauto.
Qed.

(* the elaborated trace of the overlay's nil-callback run is itself a run of the overlay *)
Lemma step_opt_h_sound cs g c st e st' full :
  step_opt_h cs g c st e = Some (st', full) -> run_h g c st full = Some st'.
Proof.
  unfold step_opt_h. destruct (nil_cb_event cs e); [discriminate|].
  destruct (run_h g c st (pre_events cs st e ++ [e])) as [s2|] eqn:E1; [|discriminate].
  destruct (run_h g c s2 (post_events cs s2 e)) as [s3|] eqn:E2; [|discriminate].
  intro H. injection H as <- <-.
  pose proof (run_h_cat g c _ _ st s2 s3 E1 E2) as R. rewrite <- app_assoc in R. exact R.
Qed.

Lemma run_opt_h_sound cs g c tr : forall st st' full,
  run_opt_h cs g c st tr = Some (st', full) -> run_h g c st full = Some st'.
Proof.
  induction tr as [|e tr IH]; simpl; intros st st' full H.
  - injection H as <- <-. reflexivity.
  - destruct (step_opt_h cs g c st e) as [[s1 f1]|] eqn:E; [|discriminate].
    destruct (run_opt_h cs g c s1 tr) as [[s2 f2]|] eqn:E2; [|discriminate].
    injection H as <- <-. eapply run_h_cat; [eapply step_opt_h_sound; eauto | eapply IH; eauto].
Qed.

(* the cancellation layer (Model/CopyCancel.v) over the overlay: same answer as over CopySpec *)
Lemma step_opt_h_ret_false cs g c st :
  step_opt_h cs g c st (Ret false) = step_opt cs g c st (Ret false).
Proof.
  unfold step_opt_h, step_opt. simpl. destruct (nil_cb_event cs (Ret false)); [reflexivity|].
  unfold step_h. simpl.
  destruct (step g c st (Ret false)) as [s2|]; reflexivity.
Qed.

Lemma cstep_opt_h_cstep_opt cs g c s ce r :
  cstep_opt_h cs g c s ce = Some r -> cstep_opt cs g c s ce = Some r.
Proof.
  unfold cstep_opt_h, cstep_opt. destruct ce as [e|]; [|auto].
  destruct (step_opt_h cs g c (cs_st s) e) as [[st' full]|] eqn:E.
  - rewrite (step_opt_h_step_opt _ _ _ _ _ _ E). auto.
  - destruct e; try discriminate. destruct ok; try discriminate.
    rewrite step_opt_h_ret_false in E. rewrite E. auto.
Qed.

Lemma crun_opt_h_crun_opt cs g c tr : forall s r, crun_opt_h cs g c s tr = Some r -> crun_opt cs g c s tr = Some r.
Proof.
  induction tr as [|ce tr IH]; simpl; intros s r H; [exact H|].
  destruct (cstep_opt_h cs g c s ce) as [[s1 f1]|] eqn:E; [|discriminate].
  rewrite (cstep_opt_h_cstep_opt _ _ _ _ _ _ E).
  destruct (crun_opt_h cs g c s1 tr) as [[s2 f2]|] eqn:E2; [|discriminate].
  rewrite (IH _ _ E2). exact H.
Qed.

Lemma caccepts_opt_h_caccepts_opt cs g c d0 tr r :
  caccepts_opt_h cs g c d0 tr = Some r -> caccepts_opt cs g c d0 tr = Some r.
Proof. apply crun_opt_h_crun_opt. Qed.

(* ------------------------------------------------------------------ counting with a per-node predicate *)

Section HCount.
Variable h : node -> phase -> bool.

Lemma hcount_upd_le (phs : node -> phase) n p l : NoDup l ->
  length (filter (fun m => h m (upd phs n p m)) l) <=
  length (filter (fun m => h m (phs m)) l) + (if h n p then if h n (phs n) then 0 else 1 else 0).
Proof.
  induction l as [|a l IH]; intro ND; simpl; [lia|].
  inversion ND as [|? ? Hna ND']; subst. specialize (IH ND').
  destruct (Nat.eq_dec a n) as [->|Hne].
  - rewrite upd_same.
    assert (E : filter (fun m => h m (upd phs n p m)) l = filter (fun m => h m (phs m)) l).
    { apply filter_ext_in. intros m Hm. rewrite upd_other; auto. intro; subst; contradiction. }
    rewrite E. clear IH E. destruct (h n p), (h n (phs n)); simpl;
      rewrite ?Nat.add_0_r, ?Nat.add_1_r; auto.
  - rewrite upd_other by assumption. destruct (h a (phs a)); simpl; lia.
Qed.

Lemma hcount_le_impl (f : phase -> bool) (phs : node -> phase) l :
  (forall m p, f p = true -> h m p = true) ->
  length (filter (fun m => f (phs m)) l) <= length (filter (fun m => h m (phs m)) l).
Proof.
  intro Hi. induction l as [|a l IH]; simpl; [lia|].
  destruct (f (phs a)) eqn:E.
  - rewrite (Hi _ _ E). simpl. lia.
  - destruct (h a (phs a)); simpl; lia.
Qed.
End HCount.

(* ------------------------------------------------------------------ permits held never exceed K *)

Lemma holders_step g c st e st' : step_h g c st e = Some st' ->
  holders g st <= c_K c -> holders g st' <= c_K c.
Proof.
  unfold step_h. intros H Hle.
  destruct (acquires g st e && negb (holders g st <? c_K c)) eqn:G; [discriminate|].
  unfold holders in *.
  step_inv H; simp_st; try assumption;
  match goal with
  | |- length (filter (fun m => holds_ph g m (upd ?phs ?n ?p m)) ?l) <= _ =>
    pose proof (hcount_upd_le (holds_ph g) phs n p l (seq_NoDup _ _)) as CU
  end;
  match type of CU with ?a <= ?b + _ => set (A := a) in *; set (B := b) in * end;
  clearbody A B;
  unfold acquires in G;
  repeat match goal with Hp : ph st _ = _ |- _ => rewrite Hp in CU; try rewrite Hp in G end;
  unfold holds_ph, after_push, after_tag in CU;
  repeat match type of CU with context [if ?x then _ else _] => destruct x eqn:?Hi end;
  simpl in CU, G;
  try (destruct (leaf g n) eqn:?Hl; simpl in * );
  try (apply Bool.negb_false_iff in G; apply Nat.ltb_lt in G);
  simpl in *; try discriminate; try lia.
Qed.

Lemma holders_run g c tr : forall st st', run_h g c st tr = Some st' ->
  holders g st <= c_K c -> holders g st' <= c_K c.
Proof.
  induction tr as [|e tr IH]; simpl; intros st st' H Hle.
  - now injection H as <-.
  - destruct (step_h g c st e) as [s1|] eqn:E; [|discriminate].
    eapply IH; eauto using holders_step.
Qed.

Lemma init_holders g c d0 : holders g (init c d0) = 0.
Proof.
  unfold holders. simpl. induction (seq 0 (g_n g)); simpl; auto.
Qed.

(* operations in flight need a permit *)
Lemma inflight_le_holders g st :
  active g st <= holders g st /\ inflight_src g st <= holders g st /\ inflight_dst g st <= holders g st.
Proof.
  unfold active, inflight_src, inflight_dst, count, holders. repeat split;
  apply (hcount_le_impl (holds_ph g)); intros m p; destruct p; simpl; try discriminate; auto;
  unfold holds_ph; simpl; auto; destruct rd; simpl; auto; discriminate.
Qed.

(* at every instant: at most K permits are held, and the source reads / destination operations in
   flight are covered by them *)
Lemma holders_prefix_lemma g c d0 tr1 tr2 st : accepts_h g c d0 (tr1 ++ tr2) = Some st ->
  exists st1, accepts_h g c d0 tr1 = Some st1 /\ holders g st1 <= c_K c /\
              inflight_src g st1 <= holders g st1 /\ inflight_dst g st1 <= holders g st1.
Proof.
  intro Ha. unfold accepts_h in Ha. apply run_h_app in Ha as [st1 [H1 _]].
  exists st1. split; [exact H1|]. split.
  - eapply holders_run; eauto. rewrite init_holders. lia.
  - destruct (inflight_le_holders g st1) as [_ [A B]]. auto.
Qed.

Lemma holders_prefix_opt cs g c tr1 : forall tr2 s0 st full, holders g s0 <= c_K c ->
  run_opt_h cs g c s0 (tr1 ++ tr2) = Some (st, full) ->
  exists st1 f1, run_opt_h cs g c s0 tr1 = Some (st1, f1) /\ holders g st1 <= c_K c /\
                 inflight_src g st1 <= holders g st1 /\ inflight_dst g st1 <= holders g st1.
Proof.
  induction tr1 as [|e tr1 IH]; simpl; intros tr2 s0 st full H0 H.
  - exists s0, []. split; [reflexivity|]. split; [exact H0|].
    destruct (inflight_le_holders g s0) as [_ [A B]]. auto.
  - destruct (step_opt_h cs g c s0 e) as [[s1 f1]|] eqn:E; [|discriminate].
    destruct (run_opt_h cs g c s1 (tr1 ++ tr2)) as [[s2 f2]|] eqn:E2; [|discriminate].
    assert (H1 : holders g s1 <= c_K c).
    { eapply holders_run; [eapply step_opt_h_sound; eauto | exact H0]. }
    destruct (IH _ s1 _ _ H1 E2) as [st1 [f1' [R [A B]]]].
    rewrite R. exists st1, (f1 ++ f1'). auto.
Qed.

Lemma holders_prefix_opt_lemma cs g c d0 tr1 tr2 st full :
  accepts_opt_h cs g c d0 (tr1 ++ tr2) = Some (st, full) ->
  exists st1 f1, accepts_opt_h cs g c d0 tr1 = Some (st1, f1) /\ holders g st1 <= c_K c /\
                 inflight_src g st1 <= holders g st1 /\ inflight_dst g st1 <= holders g st1.
Proof.
  unfold accepts_opt_h. intro H. eapply holders_prefix_opt; [|exact H].
  rewrite init_holders. lia.
Qed.

(* after a successful return no task holds a permit (every node is idle or done) *)
Lemma no_holders_at_success g c d0 tr st : accepts_h g c d0 tr = Some st -> returned st = Some true ->
  holders g st = 0.
Proof.
  intros Ha Hr. apply accepts_h_accepts in Ha.
  destruct (run_ret_true g c tr _ _ Ha eq_refl Hr) as [_ Hall].
  unfold holders.
  assert (E : forall l, (forall n, In n l -> n < g_n g) ->
              filter (fun n => holds_ph g n (ph st n)) l = []).
  { induction l as [|a l IH]; intro Hl; simpl; [reflexivity|].
    specialize (Hall a (Hl a (or_introl eq_refl))).
    unfold holds_ph. destruct (ph st a); simpl in Hall; try discriminate; simpl;
      apply IH; intros n Hn; apply Hl; right; exact Hn. }
  rewrite E; [reflexivity|]. intros n Hn. apply in_seq in Hn. lia.
Qed.

(* ------------------------------------------------------------------ the same intervals as the protocol model *)

(* the program counter (class) of copyGraph.fn's task in the protocol model Model/CopyImpl.v that a
   phase of the visible-event system corresponds to; None = the task is not running (not yet
   spawned / finished).  [lf] = the node is a leaf. *)
Definition pc_of_phase (lf : bool) (p : phase) : option CopyImpl.pc :=
  match p with
  | Idle | Done | Dead => None
  | ExQ _ | SkipP => Some CopyImpl.TExists            (* dst.Exists .. OnCopySkipped *)
  | NeedFetch | MF1 | MF2 => Some CopyImpl.TFind      (* FindSuccessors through the proxy *)
  | Waiting => Some (if lf then CopyImpl.TPush else CopyImpl.TGo)
      (* leaf: straight on to the copy; non-leaf: region.End() done, successors running *)
  | _ => Some CopyImpl.TPush                          (* copyNode / mountOrCopyNode incl. callbacks, Tag *)
  end.

(* the overlay's "certainly holds a permit" is the protocol model's [must_hold] of that counter *)
Lemma overlay_holds_is_protocol_must_hold g n p :
  holds_ph g n p =
  match pc_of_phase (leaf g n) p with Some q => CopyImplBase.must_hold q | None => false end.
Proof. unfold holds_ph. destruct p, (leaf g n); reflexivity. Qed.

(* ------------------------------------------------------------------ witnesses *)

(* K = 1, manifest 2 -> blobs 0, 1.  While the leaf 0 waits for its PreCopy it HOLDS the only permit,
   so 1 cannot be probed in between: the transition system alone accepts this interleaving (its
   guard treats a waiting leaf as inactive), the overlay rejects it. *)
Definition g_leaf : graph :=
  mkGraph 3 (fun n => match n with 2 => [0; 1] | _ => [] end) (fun _ => false)
          (fun n => Nat.eqb n 2) (fun n => n).
Definition c_leaf : cfg := mkCfg 1 MGraph 2 false true [] [].
Definition tr_leaf_bad : list event :=
  [ExB 2; ExE 2 false; SFB 2; SFE 2; SFC 2;
   ExB 0; ExE 0 false;
   ExB 1; ExE 1 false].
Definition tr_leaf_ok : list event :=
  [ExB 2; ExE 2 false; SFB 2; SFE 2; SFC 2;
   ExB 0; ExE 0 false; Cb CPre 0; SFB 0; SFE 0; PuB 0 false; PuE 0 false POk; SFC 0; Cb CPost 0;
   ExB 1; ExE 1 false; Cb CPre 1; SFB 1; SFE 1; PuB 1 false; PuE 1 false POk; SFC 1; Cb CPost 1;
   Cb CPre 2; PuB 2 false; PuE 2 false POk; Cb CPost 2; Ret true].

Lemma overlay_is_tighter :
  (exists st, accepts g_leaf c_leaf [] tr_leaf_bad = Some st) /\
  accepts_h g_leaf c_leaf [] tr_leaf_bad = None /\
  (exists st, accepts_h g_leaf c_leaf [] tr_leaf_ok = Some st /\ returned st = Some true).
Proof.
  split; [eexists; vm_compute; reflexivity|].
  split; [vm_compute; reflexivity|].
  eexists. split; vm_compute; reflexivity.
Qed.
