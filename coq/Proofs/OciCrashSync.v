(* C10 -- concurrent callers, what indexLock is for: when all concurrent calls have returned,
   index.json is the index of the resolver (no completed Tag / Untag / Push is missing from it),
   whatever the schedule was.  Together with CInv this re-establishes the sequential model's
   invariant, so sequential histories and concurrent batches alternate freely. *)
From Oras Require Import Base.Prelude Model.OciCrash Model.OciCrashSpec Model.OciCrashConc Proofs.OciCrash Proofs.OciCrashConc.

Section Sync.
Variable H : list N -> N.
Variable shuffle : nat -> list entry -> list entry.
Hypothesis shuffle_In : forall c l e, In e (shuffle c l) <-> In e l.

Notation stepN := (sched_step shuffle).

Definition same_as (l : list entry) (tags : list (N * N)) (digs : list N) : Prop :=
  forall e, In e l <-> In e (save tags digs).
Definition fresh (tags : list (N * N)) (digs : list N) (t : thread) : Prop :=
  exists l, tsnap t = Some l /\ same_as l tags digs.
Definition synced (fs : FS) (tags : list (N * N)) (digs : list N) : Prop :=
  exists l, read_index fs = Some l /\ same_as l tags digs.

(* the shape of what a thread has left to do, given whether it holds indexLock: index.json is
   published only under the lock and before the lock is released, a resolver update is followed
   by a save, a finished thread holds nothing *)
Fixpoint shape (held : bool) (p : list act) : Prop :=
  match p with
  | [] => held = false
  | TLockSnap :: r => held = false /\ In TPublishIndex r /\ shape true r
  | TPublishIndex :: r => held = true /\ shape true r
  | TUnlock :: r => held = true /\ shape false r
  | TTagMem _ _ :: r => held = false /\ In TLockSnap r /\ shape false r
  | TUntagMem _ :: r => held = false /\ In TLockSnap r /\ shape false r
  | _ :: r => shape held r
  end.

Lemma shape_pub p : forall h, shape h p -> In TPublishIndex p -> h = true \/ In TLockSnap p.
Proof.
  induction p as [|a p IH]; intros h S Hin; [destruct Hin|].
  destruct a; cbn [shape] in S; destruct Hin as [E|Hin]; try discriminate E;
    try (destruct (IH h S Hin) as [X|X]; [now left|right; now right]).
  - right; right; apply S.
  - right; right; apply S.
  - right; now left.
  - left; apply S.
  - left; apply S.
  - left; apply S.
Qed.

Lemma locksnap_dec p : {In TLockSnap p} + {~ In TLockSnap p}.
Proof.
  induction p as [|a p IH]; [right; intros []|].
  destruct IH as [Y|Nn]; [left; now right|].
  destruct a; try (right; intros [E|Hin]; [discriminate|contradiction]).
  left; now left.
Qed.

(* ---------- lists with one element replaced ---------- *)
Lemma nth_set_same {A} (l : list A) : forall i t t', nth_error l i = Some t -> nth_error (set_nth i t' l) i = Some t'.
Proof.
  induction l as [|x l IH]; intros i t t' E; [destruct i; discriminate|].
  destruct i; cbn in *; [reflexivity|]. now apply (IH i t).
Qed.

Lemma nth_set_other {A} (l : list A) : forall i j t', i <> j -> nth_error (set_nth i t' l) j = nth_error l j.
Proof.
  induction l as [|x l IH]; intros i j t' Hn; [destruct i; reflexivity|].
  destruct i, j; cbn; try reflexivity; [congruence|]. apply IH. congruence.
Qed.

Lemma in_set_idx {A} (l : list A) i t t' u :
  nth_error l i = Some t -> In u (set_nth i t' l) -> u = t' \/ exists j, j <> i /\ nth_error l j = Some u.
Proof.
  intros E Hin. apply In_nth_error in Hin as (j & Ej).
  destruct (Nat.eq_dec j i) as [->|Hn].
  - rewrite (nth_set_same l i t t' E) in Ej. injection Ej as <-. now left.
  - right. exists j. split; [exact Hn|]. rewrite nth_set_other in Ej by congruence. exact Ej.
Qed.

Lemma in_keep {A} (l : list A) i t t' u :
  nth_error l i = Some t -> In u l -> u = t \/ In u (set_nth i t' l).
Proof.
  intros E Hin. apply In_nth_error in Hin as (j & Ej).
  destruct (Nat.eq_dec j i) as [->|Hn].
  - rewrite E in Ej. injection Ej as <-. now left.
  - right. apply (nth_error_In _ j). rewrite nth_set_other by congruence. exact Ej.
Qed.

Lemma in_new {A} (l : list A) i t t' : nth_error l i = Some t -> In t' (set_nth i t' l).
Proof. intro E. apply (nth_error_In _ i). now apply (nth_set_same l i t). Qed.

(* ---------- indexLock: mutual exclusion, and the programs' shape ---------- *)
Record LInv (c : conf) : Prop := {
  li_shape : forall t, In t (cthreads c) -> shape (tholds t) (tprog t);
  li_free : clock c = false -> forall t, In t (cthreads c) -> tholds t = false;
  li_one : forall i j ti tj, nth_error (cthreads c) i = Some ti -> nth_error (cthreads c) j = Some tj ->
                             tholds ti = true -> tholds tj = true -> i = j
}.

Lemma linv_update c i t t' fs' tags' digs' lk' cnt' :
  LInv c -> nth_error (cthreads c) i = Some t ->
  shape (tholds t') (tprog t') ->
  (tholds t' = true -> tholds t = true \/ clock c = false) ->
  (lk' = false -> tholds t' = false /\ (clock c = false \/ tholds t = true)) ->
  LInv (mkConf fs' tags' digs' lk' cnt' (set_nth i t' (cthreads c))).
Proof.
  intros [Sh Fr One] En St Hh Hl. constructor; cbn [cthreads clock].
  - intros u Hin. destruct (in_set_idx _ i t _ u En Hin) as [->|(j & _ & Ej)]; [exact St|].
    apply Sh. now apply (nth_error_In _ j).
  - intros E u Hin. destruct (Hl E) as [Ht' Hc].
    destruct (in_set_idx _ i t _ u En Hin) as [->|(j & Hn & Ej)]; [exact Ht'|].
    destruct Hc as [Hc|Hc]; [apply Fr; [exact Hc|now apply (nth_error_In _ j)]|].
    destruct (tholds u) eqn:Eu; [|reflexivity]. exfalso. apply Hn. exact (One j i u t Ej En Eu Hc).
  - intros a b ta tb Ea Eb Ha Hb.
    destruct (Nat.eq_dec a i) as [->|Na], (Nat.eq_dec b i) as [->|Nb]; [reflexivity| | |].
    + rewrite (nth_set_same _ i t t' En) in Ea. injection Ea as <-.
      rewrite nth_set_other in Eb by congruence.
      destruct (Hh Ha) as [Ht|Hc]; [symmetry; exact (One b i tb t Eb En Hb Ht)|].
      rewrite (Fr Hc tb (nth_error_In _ b Eb)) in Hb. discriminate.
    + rewrite (nth_set_same _ i t t' En) in Eb. injection Eb as <-.
      rewrite nth_set_other in Ea by congruence.
      destruct (Hh Hb) as [Ht|Hc]; [exact (One a i ta t Ea En Ha Ht)|].
      rewrite (Fr Hc ta (nth_error_In _ a Ea)) in Ha. discriminate.
    + rewrite nth_set_other in Ea by congruence. rewrite nth_set_other in Eb by congruence.
      exact (One a b ta tb Ea Eb Ha Hb).
Qed.

Lemma lstep_inv c i : LInv c -> LInv (stepN c i).
Proof.
  intro L. pose proof L as [Sh Fr One]. unfold sched_step.
  destruct (nth_error (cthreads c) i) as [t|] eqn:En; [|exact L].
  pose proof (Sh t (nth_error_In _ _ En)) as St. unfold fire.
  destruct (tprog t) as [|a rest] eqn:Ep; [exact L|].
  destruct a; cbn [shape] in St; cbv beta iota zeta; cbn [cfs ctags cdigs clock ccnt cthreads].
  - apply (linv_update c i t); auto; cbn [tholds tprog]; auto.
    intro E. split; [now apply Fr; [|apply (nth_error_In _ i)]|now left].
  - apply (linv_update c i t); auto; cbn [tholds tprog]; auto.
    intro E. split; [now apply Fr; [|apply (nth_error_In _ i)]|now left].
  - apply (linv_update c i t); auto; cbn [tholds tprog]; auto.
    intro E. split; [now apply Fr; [|apply (nth_error_In _ i)]|now left].
  - destruct St as (Hf & _ & S2). apply (linv_update c i t); auto; cbn [tholds tprog].
    now rewrite Hf.
  - destruct St as (Hf & _ & S2). apply (linv_update c i t); auto; cbn [tholds tprog].
    now rewrite Hf.
  - destruct (clock c) eqn:Ec; [exact L|]. cbn [cfs ctags cdigs clock ccnt cthreads].
    destruct St as (Hf & _ & S2). apply (linv_update c i t); auto; cbn [tholds tprog]; auto.
  - destruct St as (Ht & S2). destruct (tsnap t); cbn [cfs ctags cdigs clock ccnt cthreads];
      (apply (linv_update c i t); auto; cbn [tholds tprog]; [now rewrite Ht|]);
      intro E; rewrite (Fr E t (nth_error_In _ _ En)) in Ht; discriminate.
  - destruct St as (Ht & S2). rewrite Ht. apply (linv_update c i t); auto; cbn [tholds tprog]; auto.
Qed.

(* ---------- index.json against the resolver ---------- *)
Definition Apend (l : list thread) : Prop := exists t, In t l /\ In TLockSnap (tprog t).
Definition Epub (l : list thread) : Prop := exists t, In t l /\ tholds t = true /\ In TPublishIndex (tprog t).
Definition Fpub (tags : list (N * N)) (digs : list N) (l : list thread) : Prop :=
  forall t, In t l -> tholds t = true -> In TPublishIndex (tprog t) -> fresh tags digs t.
(* somebody will still take a snapshot; or the holder of the lock is about to publish the current
   resolver; or index.json is the current resolver *)
Definition Sy (c : conf) : Prop :=
  Apend (cthreads c) \/
  (Fpub (ctags c) (cdigs c) (cthreads c) /\ (Epub (cthreads c) \/ synced (cfs c) (ctags c) (cdigs c))).

Lemma apend_keep l i t t' :
  nth_error l i = Some t -> (In TLockSnap (tprog t) -> In TLockSnap (tprog t')) ->
  Apend l -> Apend (set_nth i t' l).
Proof.
  intros En Hk (u & Hin & Hl). destruct (in_keep l i t t' u En Hin) as [->|Hin'].
  - exists t'. split; [now apply (in_new l i t)|now apply Hk].
  - exists u. now split.
Qed.

Lemma apend_dec l : {Apend l} + {~ Apend l}.
Proof.
  destruct (Exists_dec (fun t => In TLockSnap (tprog t)) l (fun t => locksnap_dec (tprog t))) as [Y|Nn].
  - left. apply Exists_exists in Y. exact Y.
  - right. intro A. apply Nn. apply Exists_exists. exact A.
Qed.

(* a step that changes neither the resolver nor index.json nor who holds the lock *)
Lemma sy_frame c i t t1 a rest fs' lk cnt :
  nth_error (cthreads c) i = Some t -> tprog t = a :: rest ->
  a <> TLockSnap -> a <> TPublishIndex ->
  tprog t1 = rest -> tsnap t1 = tsnap t -> tholds t1 = tholds t ->
  read_index fs' = read_index (cfs c) ->
  Sy c -> Sy (mkConf fs' (ctags c) (cdigs c) lk cnt (set_nth i t1 (cthreads c))).
Proof.
  intros En Ep N1 N2 P1 P2 P3 Er [A|[F E]]; unfold Sy; cbn [cfs ctags cdigs cthreads].
  - left. apply (apend_keep _ i t t1 En); [|exact A]. rewrite Ep, P1. intros [X|X]; [congruence|exact X].
  - right. split.
    + intros u Hin Hu Hp. destruct (in_set_idx _ i t _ u En Hin) as [->|(j & _ & Ej)].
      * destruct (F t (nth_error_In _ _ En)) as (l & El & Hl); [congruence|rewrite Ep, <- P1; now right|].
        exists l. split; [congruence|exact Hl].
      * exact (F u (nth_error_In _ _ Ej) Hu Hp).
    + destruct E as [(u & Hin & Hu & Hp)|(l & El & Hl)].
      * left. destruct (in_keep _ i t t1 u En Hin) as [->|Hin'].
        -- exists t1. split; [now apply (in_new _ i t)|]. split; [congruence|].
           rewrite Ep in Hp. destruct Hp as [X|X]; [congruence|]. now rewrite P1.
        -- exists u. now split.
      * right. exists l. split; [congruence|exact Hl].
Qed.

Lemma sstep_inv c i : LInv c -> Sy c -> Sy (stepN c i).
Proof.
  intros [Sh Fr One] S. unfold sched_step.
  destruct (nth_error (cthreads c) i) as [t|] eqn:En; [|exact S].
  pose proof (Sh t (nth_error_In _ _ En)) as St. unfold fire.
  destruct (tprog t) as [|a rest] eqn:Ep; [exact S|].
  destruct a; cbn [shape] in St; cbv beta iota zeta; cbn [cfs ctags cdigs clock ccnt cthreads].
  - apply (sy_frame c i t _ (TWrite a) rest); auto; discriminate.
  - apply (sy_frame c i t _ (TPublishBlob d) rest); auto; discriminate.
  - apply (sy_frame c i t _ TDropTemp rest); auto; discriminate.
  - left. exists (mkThread rest (ttmp t) (tsnap t) (tholds t)). split; [now apply (in_new _ i t)|apply St].
  - left. exists (mkThread rest (ttmp t) (tsnap t) (tholds t)). split; [now apply (in_new _ i t)|apply St].
  - (* TLockSnap *)
    destruct (clock c) eqn:Ec; [exact S|]. cbn [cfs ctags cdigs clock ccnt cthreads].
    destruct St as (Hf & Hp & S2).
    set (t1 := mkThread rest (ttmp t) (Some (shuffle (ccnt c) (save (ctags c) (cdigs c)))) true).
    destruct (apend_dec (set_nth i t1 (cthreads c))) as [A|NA]; [now left|]. right.
    cbn [cfs ctags cdigs cthreads]. split.
    + intros u Hin Hu _. destruct (in_set_idx _ i t _ u En Hin) as [->|(j & _ & Ej)].
      * exists (shuffle (ccnt c) (save (ctags c) (cdigs c))). split; [reflexivity|]. intro e. apply shuffle_In.
      * rewrite (Fr eq_refl u (nth_error_In _ _ Ej)) in Hu. discriminate.
    + left. exists t1. split; [now apply (in_new _ i t)|]. split; [reflexivity|exact Hp].
  - (* TPublishIndex *)
    destruct St as (Ht & S2). destruct S as [A|[F E]].
    + destruct (tsnap t); cbn [cfs ctags cdigs clock ccnt cthreads]; left;
        (apply (apend_keep _ i t _ En); [|exact A]); rewrite Ep; cbn [tprog];
        (intros [X|X]; [discriminate|exact X]).
    + destruct (F t (nth_error_In _ _ En) Ht) as (l & El & Hl); [rewrite Ep; now left|].
      rewrite El. cbn [cfs ctags cdigs clock ccnt cthreads]. right. split.
      * intros u Hin Hu Hp. destruct (in_set_idx _ i t _ u En Hin) as [->|(j & _ & Ej)].
        -- exists l. split; [reflexivity|exact Hl].
        -- exact (F u (nth_error_In _ _ Ej) Hu Hp).
      * right. exists l. split; [|exact Hl].
        reflexivity.
  - (* TUnlock *)
    destruct St as (Ht & S2). destruct S as [A|[F E]].
    + left. apply (apend_keep _ i t _ En); [|exact A]. rewrite Ep. cbn [tprog].
      intros [X|X]; [discriminate|exact X].
    + destruct E as [(u & Hin & Hu & Hp)|Sn].
      * apply In_nth_error in Hin as (j & Ej). pose proof (One j i u t Ej En Hu Ht) as ->.
        rewrite En in Ej. injection Ej as <-. rewrite Ep in Hp. destruct Hp as [X|Hp]; [discriminate|].
        destruct (shape_pub rest false S2 Hp) as [X|X]; [discriminate|].
        left. exists (mkThread rest (ttmp t) None false). split; [now apply (in_new _ i t)|exact X].
      * right. split; [|now right].
        intros u Hin Hu Hp. destruct (in_set_idx _ i t _ u En Hin) as [->|(j & _ & Ej)]; [discriminate Hu|].
        exact (F u (nth_error_In _ _ Ej) Hu Hp).
Qed.

Lemma sync_sched is : forall c, LInv c -> Sy c -> LInv (sched shuffle c is) /\ Sy (sched shuffle c is).
Proof.
  induction is as [|i is IH]; intros c L S; [now split|].
  cbn [sched fold_left]. apply IH; [now apply lstep_inv|now apply sstep_inv].
Qed.

(* ---------- the calls' programs ---------- *)
Lemma shape_writes (cont : list N) rest : shape false rest -> shape false (map (fun x => TWrite (AChunk x)) cont ++ rest).
Proof. induction cont as [|x cont IH]; intro S; [exact S|]. cbn [map app shape]. now apply IH. Qed.

Lemma call_prog_shape fs tags x : shape false (call_prog H fs tags x).
Proof.
  destruct x as [d cont man|d r|r|]; cbn [call_prog].
  - destruct (exists_file fs (FBlob d)); [reflexivity|]. unfold push_prog. apply shape_writes.
    destruct (H cont =? d); [|cbn; reflexivity]. destruct man; cbn; intuition.
  - destruct (exists_file fs (FBlob d)); cbn; intuition.
  - destruct (tag_get r tags); cbn; intuition.
  - cbn; intuition.
Qed.

(* index.json is what saveIndex would write from the resolver *)
Definition quiet (c : conf) : Prop := forall t, In t (cthreads c) -> tprog t = [].

Lemma start_sync s calls : Agree s -> LInv (start H s calls) /\ Sy (start H s calls).
Proof.
  intro A.
  assert (Hh : forall t, In t (cthreads (start H s calls)) -> tholds t = false /\ shape false (tprog t)).
  { intros t Hin. cbn [start cthreads] in Hin. apply in_map_iff in Hin as (x & <- & _). cbn [tholds tprog].
    split; [reflexivity|apply call_prog_shape]. }
  split.
  - constructor.
    + intros t Hin. destruct (Hh t Hin) as [-> S]. exact S.
    + intros _ t Hin. now destruct (Hh t Hin).
    + intros i j ti tj Ei _ Hi _. destruct (Hh ti (nth_error_In _ _ Ei)) as [E _]. congruence.
  - destruct (apend_dec (cthreads (start H s calls))) as [Y|Nn]; [now left|]. right. split.
    + intros t Hin Ht. destruct (Hh t Hin) as [E _]. congruence.
    + right. exact A.
Qed.

Theorem quiet_synced s calls is :
  Agree s ->
  let c := sched shuffle (start H s calls) is in
  quiet c -> Agree (st_of c).
Proof.
  intros A c Q. destruct (start_sync s calls A) as [L0 S0].
  destruct (sync_sched is _ L0 S0) as [L S]. fold c in L, S.
  destruct S as [(t & Hin & Hl)|[_ [(t & Hin & _ & Hp)|Sn]]].
  - rewrite (Q t Hin) in Hl. destruct Hl.
  - rewrite (Q t Hin) in Hp. destruct Hp.
  - exact Sn.
Qed.

Lemma quietb_quiet c : quietb c = true -> quiet c.
Proof.
  unfold quietb, quiet. rewrite forallb_forall. intros Q t Hin. specialize (Q t Hin).
  destruct (tprog t); [reflexivity|discriminate].
Qed.

(* ---------- the sequential invariant is back when the batch is over ---------- *)
Record KInv (s : st) (c : conf) : Prop := {
  ki_temp : forall p, is_temp p = true -> files (cfs c) p = files (sfs s) p;
  ki_cnt : (sctr s <= ccnt c)%nat;
  ki_fun : forall r n n', In (r, n) (ctags c) -> In (r, n') (ctags c) -> n = n'
}.

Lemma kstep_inv s c i : KInv s c -> KInv s (stepN c i).
Proof.
  intros [T C F]. unfold sched_step.
  destruct (nth_error (cthreads c) i) as [t|]; [|constructor; assumption].
  unfold fire. destruct (tprog t) as [|a rest]; [constructor; assumption|].
  destruct a; cbv beta iota zeta; try (constructor; cbn [cfs ctags ccnt]; assumption).
  - constructor; cbn [cfs ctags ccnt]; try assumption.
    intros p Hp. unfold set_file. cbn [files]. rewrite upd_other; [now apply T|]. intros ->. discriminate.
  - constructor; cbn [cfs ctags ccnt]; try assumption.
    destruct r as [r|]; [|exact F]. now apply tag_set_fun.
  - constructor; cbn [cfs ctags ccnt]; try assumption.
    intros r0 n n' H1 H2. unfold tag_del in H1, H2. apply filter_In in H1 as [H1 _], H2 as [H2 _]. exact (F r0 n n' H1 H2).
  - destruct (clock c); constructor; cbn [cfs ctags ccnt]; try assumption. lia.
  - destruct (tsnap t); constructor; cbn [cfs ctags ccnt]; try assumption.
    intros p Hp. unfold set_file. cbn [files]. rewrite upd_other; [now apply T|]. intros ->. discriminate.
Qed.

Lemma ksched_inv s is : forall c, KInv s c -> KInv s (sched shuffle c is).
Proof. induction is as [|i is IH]; intros c K; [exact K|]. cbn [sched fold_left]. apply IH. now apply kstep_inv. Qed.

Lemma start_cinv s calls : Inv H s -> CInv H (start H s calls).
Proof.
  intro I. destruct (inv_good H s I) as (GL & GB & GI).
  constructor; cbn [start cfs ctags cdigs cthreads]; try assumption.
  - exact (inv_tagdig H s I).
  - exact (inv_digs H s I).
  - intros t Hin. apply in_map_iff in Hin as (x & <- & _). split; cbn [tsnap ttmp tprog].
    + intros l El. discriminate.
    + apply call_prog_safe.
Qed.

(* any state of the sequential model, any calls, any schedule, any prefix *)
Theorem conc_safe_from s calls is :
  Inv H s ->
  let c := sched shuffle (start H s calls) is in
  layout_ok (cfs c) /\ blob_ok H (cfs c) /\ index_ok (cfs c) /\
  (forall d, has (sfs s) (FBlob d) -> has (cfs c) (FBlob d)).
Proof.
  intros I c. destruct (sched_inv H shuffle shuffle_In is _ (start_cinv s calls I)) as [L B Ix _ _ _].
  fold c in L, B, Ix. split; [exact L|split; [exact B|split; [exact Ix|]]].
  intros d Hd. apply (sched_grows shuffle is (start H s calls)). exact Hd.
Qed.

Theorem quiet_inv s calls is :
  Inv H s -> Agree s ->
  let c := sched shuffle (start H s calls) is in
  quiet c -> Inv H (st_of c) /\ Agree (st_of c).
Proof.
  intros I A c Q. pose proof (quiet_synced s calls is A Q) as A'. fold c in A'.
  split; [|exact A'].
  destruct (sched_inv H shuffle shuffle_In is _ (start_cinv s calls I)) as [L B Ix TD D _]. fold c in L, B, Ix, TD, D.
  assert (K : KInv s c).
  { apply ksched_inv. constructor; cbn [start cfs ctags ccnt]; [reflexivity|lia|exact (inv_fun H s I)]. }
  destruct K as [KT KC KF]. destruct A' as (l & Hl & Hs). cbn [st_of sfs stags sdigs] in Hl, Hs.
  constructor; cbn [st_of sfs stags sdigs sctr]; try assumption.
  - intros p Hp Hq. rewrite KT by exact Hp. apply (inv_temp H s I p Hp). lia.
  - exists l. split; [exact Hl|]. intros e Hin. apply Hs in Hin. exact (save_in_digs _ _ TD e Hin).
  - exists l. split; [exact Hl|]. intros r n. rewrite Hs. apply save_tagged.
Qed.

(* ---------- crashes: the index a reopened store loads is well-formed, so it agrees again ---------- *)
Lemma save_untagged tags digs n : In (n, None) (save tags digs) <-> In n digs /\ forall r, ~ In (r, n) tags.
Proof.
  unfold save. rewrite in_app_iff. split.
  - intros [Hin|Hin].
    + apply in_map_iff in Hin as ([r' n'] & E & _). discriminate.
    + apply in_map_iff in Hin as (d & E & Hf). injection E as ->. apply filter_In in Hf as [Hd Hb].
      split; [exact Hd|]. intros r Hr. apply negb_true_iff in Hb.
      assert (X : existsb (fun e : N * N => snd e =? n) tags = true).
      { apply existsb_exists. exists (r, n). split; [exact Hr|]. cbn. apply N.eqb_refl. }
      congruence.
  - intros [Hd Hn]. right. apply in_map_iff. exists n. split; [reflexivity|]. apply filter_In. split; [exact Hd|].
    apply negb_true_iff. destruct (existsb (fun e : N * N => snd e =? n) tags) eqn:E; [|reflexivity].
    apply existsb_exists in E as ([r' n'] & Hin & He). cbn in He. apply N.eqb_eq in He. subst n'.
    exfalso. exact (Hn r' Hin).
Qed.

Definition wf (l : list entry) : Prop :=
  (forall r n n', In (n, Some r) l -> In (n', Some r) l -> n = n') /\
  (forall n r, In (n, None) l -> ~ In (n, Some r) l).

Lemma wf_same l tags digs :
  same_as l tags digs -> (forall r n n', In (r, n) tags -> In (r, n') tags -> n = n') -> wf l.
Proof.
  intros Hs Hf. split.
  - intros r n n' H1 H2. apply Hs in H1, H2. apply save_tagged in H1, H2. exact (Hf r n n' H1 H2).
  - intros n r H1 H2. apply Hs in H1, H2. apply save_untagged in H1 as [_ H1]. apply save_tagged in H2. exact (H1 r H2).
Qed.

Lemma agree_reopen fs cnt l : read_index fs = Some l -> wf l -> Agree (reopen fs cnt).
Proof.
  intros Hl [Hfl W2]. unfold reopen. rewrite Hl. exists l. split; [exact Hl|].
  destruct (load_spec H l [] []) as (A1 & A2 & _ & A4); [intros r n []|].
  intros [n [r|]]; cbn [sfs stags sdigs].
  - rewrite save_tagged. rewrite (load_named l [] [] Hfl r n). split; [intro X; now left|intros [X|[[] _]]; exact X].
  - rewrite save_untagged. split.
    + intro Hin. split; [exact (A4 (n, None) Hin)|]. intros r Hr.
      apply (load_named l [] [] Hfl r n) in Hr as [Hr|[[] _]]. exact (W2 n r Hin Hr).
    + intros [Hd Hn]. apply A2 in Hd as [[]|(x & Hx)]. destruct x as [r|]; [|exact Hx].
      exfalso. apply (Hn r). apply (load_named l [] [] Hfl r n). now left.
Qed.

Lemma agree_wf s : Inv H s -> Agree s -> forall l, read_index (sfs s) = Some l -> wf l.
Proof.
  intros I (l0 & Hl0 & Hs) l Hl. rewrite Hl0 in Hl. injection Hl as <-.
  exact (wf_same l0 _ _ Hs (inv_fun H s I)).
Qed.

Lemma agree_hop s x : Inv H s -> Agree s -> Agree (run_hop H shuffle false false true s x).
Proof.
  intros I A. destruct (op_safe H shuffle shuffle_In s (match x with Done o => o | Crashed o _ => o end) I) as (I1 & A1 & _ & R).
  destruct x as [o|o k]; cbn [run_hop]; [now apply A1|].
  destruct (R k) as (_ & _ & (l & Hl & _) & RI & _).
  apply (agree_reopen _ _ l Hl).
  destruct RI as [RI|RI]; rewrite Hl in RI; symmetry in RI.
  - exact (agree_wf s I A l RI).
  - exact (agree_wf _ I1 (A1 A) l RI).
Qed.

Lemma agree_runc h : forall s, Inv H s -> Agree s -> Agree (runc H shuffle false false true h s).
Proof.
  induction h as [|x h IH]; intros s I A; [exact A|].
  cbn [runc fold_left]. apply IH; [now apply inv_run_hop|now apply agree_hop].
Qed.

(* index.json and every snapshot, at every point of every schedule *)
Definition WInv (c : conf) : Prop :=
  (forall l, read_index (cfs c) = Some l -> wf l) /\
  forall t, In t (cthreads c) -> forall l, tsnap t = Some l -> wf l.

Lemma wstep_inv s c i : KInv s c -> WInv c -> WInv (stepN c i).
Proof.
  intros K [D T]. unfold sched_step.
  destruct (nth_error (cthreads c) i) as [t|] eqn:En; [|now split].
  pose proof (T t (nth_error_In _ _ En)) as Tt. unfold fire.
  destruct (tprog t) as [|a rest]; [now split|].
  assert (Others : forall t', (forall l, tsnap t' = Some l -> wf l) ->
            forall u, In u (set_nth i t' (cthreads c)) -> forall l, tsnap u = Some l -> wf l).
  { intros t' Ht' u Hin. apply In_set_nth in Hin as [->|Hin]; [exact Ht'|now apply T]. }
  destruct a; cbv beta iota zeta;
    try (split; cbn [cfs cthreads]; [exact D|apply Others; cbn [tsnap]; exact Tt]).
  - destruct (clock c); [now split|]. split; cbn [cfs cthreads]; [exact D|].
    apply Others. cbn [tsnap]. intros l E. injection E as <-.
    apply (wf_same _ (ctags c) (cdigs c)); [intro e; apply shuffle_In|exact (ki_fun _ _ K)].
  - destruct (tsnap t) as [l|] eqn:Es.
    + split; cbn [cfs cthreads].
      * intros l0 E. change (Some l = Some l0) in E. injection E as <-. exact (Tt l eq_refl).
      * apply Others. cbn [tsnap]. intros l0 E. injection E as <-. exact (Tt l eq_refl).
    + split; cbn [cfs cthreads]; [exact D|]. apply Others. cbn [tsnap]. intros l0 E. discriminate.
  - split; cbn [cfs cthreads]; [exact D|]. apply Others. cbn [tsnap]. intros l0 E. discriminate.
Qed.

Lemma wsched_inv s is : forall c, KInv s c -> WInv c -> WInv (sched shuffle c is).
Proof.
  induction is as [|i is IH]; intros c K W; [exact W|].
  cbn [sched fold_left]. apply IH; [now apply kstep_inv|now apply (wstep_inv s)].
Qed.

Lemma start_kinv s calls : Inv H s -> KInv s (start H s calls).
Proof. intro I. constructor; cbn [start cfs ctags ccnt]; [reflexivity|lia|exact (inv_fun H s I)]. Qed.

(* a batch killed after any prefix of any schedule, and the store reopened *)
Theorem conc_reopen s calls is :
  Inv H s -> Agree s ->
  let c := sched shuffle (start H s calls) is in
  Inv H (reopen (cfs c) (S (ccnt c))) /\ Agree (reopen (cfs c) (S (ccnt c))).
Proof.
  intros I A c.
  destruct (sched_inv H shuffle shuffle_In is _ (start_cinv s calls I)) as [L B (l & Hl & He) _ _ _]. fold c in L, B, Hl, He.
  pose proof (ksched_inv s is _ (start_kinv s calls I)) as K. fold c in K.
  assert (W0 : WInv (start H s calls)).
  { split; cbn [start cfs cthreads].
    - exact (agree_wf s I A).
    - intros t Hin l0 E. apply in_map_iff in Hin as (x & <- & _). discriminate. }
  destruct (wsched_inv s is _ (start_kinv s calls I) W0) as [WD _]. fold c in WD.
  pose proof (WD l Hl) as W. split; [|exact (agree_reopen _ _ l Hl W)].
  destruct W as [Hfl _]. destruct K as [KT KC KF].
  unfold reopen. rewrite Hl.
  destruct (load_spec H l [] []) as (A1 & A2 & _ & A4); [intros r n []|].
  constructor; cbn [sfs stags sdigs sctr].
  - exact L.
  - exact B.
  - exact A1.
  - intros n Hin. apply A2 in Hin as [[]|(r & Hin)]. exact (He (n, r) Hin).
  - intros p Hp Hq. rewrite KT by exact Hp. apply (inv_temp H s I p Hp). lia.
  - exists l. split; [exact Hl|exact A4].
  - apply load_fun. intros r n n' [].
  - exists l. split; [exact Hl|]. intros r n. rewrite (load_named l [] [] Hfl r n).
    split; [intro X; now left|intros [X|[[] _]]; exact X].
Qed.

(* ---------- completed effects of a batch ---------- *)
Ltac shp := right; eexists _, _, _, _; split; [reflexivity|]; split; [eassumption|];
  refine (conj _ (conj eq_refl _)); [reflexivity|split].

Lemma step_shape c j :
  stepN c j = c \/
  exists t a rest t', nth_error (cthreads c) j = Some t /\ tprog t = a :: rest /\ tprog t' = rest /\
    cthreads (stepN c j) = set_nth j t' (cthreads c) /\
    (forall d, a = TPublishBlob d -> has (cfs (stepN c j)) (FBlob d)) /\
    (forall d r, a = TTagMem d r -> In d (cdigs (stepN c j))).
Proof.
  unfold sched_step. destruct (nth_error (cthreads c) j) as [t|] eqn:En; [|now left].
  unfold fire. destruct (tprog t) as [|a rest] eqn:Ep; [now left|].
  destruct a; cbv beta iota zeta.
  - shp; intros; discriminate.
  - shp; [|intros; discriminate].
    intros d0 E. injection E as <-. unfold has, set_file. cbn [cfs files]. rewrite upd_same. discriminate.
  - shp; intros; discriminate.
  - shp; [intros; discriminate|].
    intros d0 r0 E. injection E as <- _. cbn [cdigs]. apply dig_add_self.
  - shp; intros; discriminate.
  - destruct (clock c); [now left|]. shp; intros; discriminate.
  - destruct (tsnap t); shp; intros; discriminate.
  - shp; intros; discriminate.
Qed.

Lemma step_digs c j d : In d (cdigs c) -> In d (cdigs (stepN c j)).
Proof.
  intro Hd. unfold sched_step. destruct (nth_error (cthreads c) j) as [t|]; [|exact Hd].
  unfold fire. destruct (tprog t) as [|a rest]; [exact Hd|].
  destruct a; cbv beta iota zeta; cbn [cdigs]; try exact Hd.
  - now apply (dig_add_incl H).
  - destruct (clock c); exact Hd.
  - destruct (tsnap t); exact Hd.
Qed.

(* what a thread's program was going to publish / enter is pending or done *)
Definition DoneInv (p0 : list (list act)) (c : conf) : Prop :=
  forall i q, nth_error p0 i = Some q ->
    (forall d, In (TPublishBlob d) q ->
       (exists t, nth_error (cthreads c) i = Some t /\ In (TPublishBlob d) (tprog t)) \/ has (cfs c) (FBlob d)) /\
    (forall d r, In (TTagMem d r) q ->
       (exists t, nth_error (cthreads c) i = Some t /\ In (TTagMem d r) (tprog t)) \/ In d (cdigs c)).

Lemma done_step p0 c j : DoneInv p0 c -> DoneInv p0 (stepN c j).
Proof.
  intros P i q Eq. destruct (P i q Eq) as [P1 P2]. split.
  - intros d Hd. destruct (P1 d Hd) as [(u & Eu & Hin)|Hh]; [|right; now apply step_grows].
    destruct (step_shape c j) as [->|(t & a & rest & t' & En & Ep & Ep' & Ec & Hp & _)]; [left; now exists u|].
    rewrite Ec. destruct (Nat.eq_dec j i) as [->|Hn].
    + rewrite En in Eu. injection Eu as <-. rewrite Ep in Hin. destruct Hin as [E|Hin].
      * right. now apply Hp.
      * left. exists t'. split; [now apply (nth_set_same _ i t)|now rewrite Ep'].
    + left. exists u. split; [rewrite nth_set_other by exact Hn; exact Eu|exact Hin].
  - intros d r Hd. destruct (P2 d r Hd) as [(u & Eu & Hin)|Hh]; [|right; now apply step_digs].
    destruct (step_shape c j) as [->|(t & a & rest & t' & En & Ep & Ep' & Ec & _ & Hp)]; [left; now exists u|].
    rewrite Ec. destruct (Nat.eq_dec j i) as [->|Hn].
    + rewrite En in Eu. injection Eu as <-. rewrite Ep in Hin. destruct Hin as [E|Hin].
      * right. now apply (Hp d r).
      * left. exists t'. split; [now apply (nth_set_same _ i t)|now rewrite Ep'].
    + left. exists u. split; [rewrite nth_set_other by exact Hn; exact Eu|exact Hin].
Qed.

Lemma done_sched p0 is : forall c, DoneInv p0 c -> DoneInv p0 (sched shuffle c is).
Proof. induction is as [|i is IH]; intros c P; [exact P|]. cbn [sched fold_left]. apply IH. now apply done_step. Qed.

Lemma save_has_dig tags digs d : In d digs -> exists r, In (d, r) (save tags digs).
Proof.
  intro Hd. destruct (existsb (fun e : N * N => snd e =? d) tags) eqn:E.
  - apply existsb_exists in E as ([r n] & Hin & He). cbn in He. apply N.eqb_eq in He. subst n.
    exists (Some r). now apply save_tagged.
  - exists None. apply save_untagged. split; [exact Hd|]. intros r Hr.
    assert (X : existsb (fun e : N * N => snd e =? d) tags = true).
    { apply existsb_exists. exists (r, d). split; [exact Hr|]. cbn. apply N.eqb_refl. }
    congruence.
Qed.

Lemma nth_map_inv {A B} (f : A -> B) l : forall i q, nth_error (map f l) i = Some q -> exists t, nth_error l i = Some t /\ f t = q.
Proof.
  induction l as [|x l IH]; intros i q E; [destruct i; discriminate|].
  destruct i; cbn in E; [injection E as <-; now exists x|]. now apply IH.
Qed.

(* a Push that has returned: the blob is there, and a manifest has its entry in index.json,
   whatever else ran at the same time *)
Theorem conc_completed_push s calls is i d cont man :
  Inv H s -> Agree s ->
  let c := sched shuffle (start H s calls) is in
  nth_error calls i = Some (CPush d cont man) -> H cont = d -> quiet c ->
  has (cfs c) (FBlob d) /\
  (exists_file (sfs s) (FBlob d) = false -> man = true ->
   exists l r, read_index (cfs c) = Some l /\ In (d, r) l).
Proof.
  intros I A c Ei Hc Q.
  set (p0 := map (fun t => tprog t) (cthreads (start H s calls))).
  assert (D0 : DoneInv p0 (start H s calls)).
  { intros j q Eq. unfold p0 in Eq. apply nth_map_inv in Eq as (t & Et & <-).
    split; [intros d0 Hd|intros d0 r0 Hd]; left; exists t; now split. }
  pose proof (done_sched p0 is _ D0) as D. fold c in D.
  assert (E0 : nth_error p0 i = Some (call_prog H (sfs s) (stags s) (CPush d cont man))).
  { unfold p0. cbn [start cthreads]. rewrite map_map. cbn [tprog]. now apply map_nth_error. }
  destruct (D i _ E0) as [D1 D2]. cbn [call_prog] in D1, D2.
  destruct (exists_file (sfs s) (FBlob d)) eqn:Ex.
  - split; [|discriminate]. apply (sched_grows shuffle is (start H s calls)). cbn [start cfs]. now apply exists_file_true.
  - apply N.eqb_eq in Hc. unfold push_prog in D1, D2. rewrite Hc in D1, D2. split.
    + destruct (D1 d) as [(t & Et & Hin)|Hh]; [apply in_or_app; right; now left| |exact Hh].
      rewrite (Q t (nth_error_In _ _ Et)) in Hin. destruct Hin.
    + intros _ ->. destruct (D2 d None) as [(t & Et & Hin)|Hd]; [apply in_or_app; right; right; now left| |].
      * rewrite (Q t (nth_error_In _ _ Et)) in Hin. destruct Hin.
      * destruct (quiet_synced s calls is A Q) as (l & Hl & Hs). fold c in Hl, Hs. cbn [st_of sfs stags sdigs] in Hl, Hs.
        destruct (save_has_dig (ctags c) (cdigs c) d Hd) as (r & Hr). exists l, r. split; [exact Hl|now apply Hs].
Qed.

(* ---------- completed Tag / Untag of a batch ---------- *)
Ltac shp2 := right; eexists _, _, _, _; split; [reflexivity|]; split; [eassumption|];
  refine (conj _ (conj eq_refl _)); [reflexivity|].

Lemma step_tags c j :
  stepN c j = c \/
  exists t a rest t', nth_error (cthreads c) j = Some t /\ tprog t = a :: rest /\ tprog t' = rest /\
    cthreads (stepN c j) = set_nth j t' (cthreads c) /\
    ctags (stepN c j) = match a with
                        | TTagMem d (Some r) => tag_set r d (ctags c)
                        | TUntagMem r => tag_del r (ctags c)
                        | _ => ctags c
                        end.
Proof.
  unfold sched_step. destruct (nth_error (cthreads c) j) as [t|] eqn:En; [|now left].
  unfold fire. destruct (tprog t) as [|a rest] eqn:Ep; [now left|].
  destruct a as [x|d0| |d0 r0|r0| | |]; cbv beta iota zeta; try (shp2; reflexivity).
  - destruct (clock c); [now left|]. shp2; reflexivity.
  - destruct (tsnap t); shp2; reflexivity.
Qed.

Definition touches (r : N) (a : act) : Prop := (exists d, a = TTagMem d (Some r)) \/ a = TUntagMem r.

(* the only action of the batch that touches reference r is A, in thread i *)
Definition Only (r : N) (i : nat) (A : act) (c : conf) : Prop :=
  forall j t a, nth_error (cthreads c) j = Some t -> In a (tprog t) -> touches r a -> j = i /\ a = A.

Lemma only_step r i A c j : Only r i A c -> Only r i A (stepN c j).
Proof.
  intro O. destruct (step_tags c j) as [->|(t & a & rest & t' & En & Ep & Ep' & Ec & _)]; [exact O|].
  intros k u b Eu Hin T. rewrite Ec in Eu. destruct (Nat.eq_dec j k) as [->|Hn].
  - rewrite (nth_set_same _ k t t' En) in Eu. injection Eu as <-. apply (O k t b En); [|exact T].
    rewrite Ep. right. now rewrite <- Ep'.
  - rewrite nth_set_other in Eu by exact Hn. exact (O k u b Eu Hin T).
Qed.

Definition TagDone (r d : N) (i : nat) (c : conf) : Prop :=
  (exists t, nth_error (cthreads c) i = Some t /\ In (TTagMem d (Some r)) (tprog t)) \/ In (r, d) (ctags c).

Lemma tagdone_step r d i c j :
  Only r i (TTagMem d (Some r)) c -> TagDone r d i c -> TagDone r d i (stepN c j).
Proof.
  intros O D. destruct (step_tags c j) as [->|(t & a & rest & t' & En & Ep & Ep' & Ec & Et)]; [exact D|].
  destruct D as [(u & Eu & Hin)|Hin].
  - destruct (Nat.eq_dec j i) as [->|Hn].
    + rewrite En in Eu. injection Eu as <-. rewrite Ep in Hin. destruct Hin as [E|Hin].
      * right. rewrite Et, E. now left.
      * left. exists t'. split; [rewrite Ec; now apply (nth_set_same _ i t)|now rewrite Ep'].
    + left. exists u. split; [rewrite Ec, nth_set_other by exact Hn; exact Eu|exact Hin].
  - right. rewrite Et.
    assert (Ha : In a (tprog t)) by (rewrite Ep; now left).
    destruct a; try exact Hin.
    + destruct r0 as [r0|]; [|exact Hin]. apply tag_set_iff. destruct (N.eq_dec r r0) as [<-|Hn].
      * destruct (O j t _ En Ha) as [_ E]; [left; now exists d0|]. injection E as ->. left. now split.
      * right. now split.
    + unfold tag_del. apply filter_In. split; [exact Hin|]. cbn [fst]. apply negb_true_iff. apply N.eqb_neq.
      intros <-. destruct (O j t _ En Ha) as [_ E]; [now right|]. discriminate.
Qed.

Definition UntagDone (r : N) (i : nat) (c : conf) : Prop :=
  (exists t, nth_error (cthreads c) i = Some t /\ In (TUntagMem r) (tprog t)) \/ forall n, ~ In (r, n) (ctags c).

Lemma untagdone_step r i c j :
  Only r i (TUntagMem r) c -> UntagDone r i c -> UntagDone r i (stepN c j).
Proof.
  intros O D. destruct (step_tags c j) as [->|(t & a & rest & t' & En & Ep & Ep' & Ec & Et)]; [exact D|].
  destruct D as [(u & Eu & Hin)|Hno].
  - destruct (Nat.eq_dec j i) as [->|Hn].
    + rewrite En in Eu. injection Eu as <-. rewrite Ep in Hin. destruct Hin as [E|Hin].
      * right. rewrite Et, E. intros n Hn. unfold tag_del in Hn. apply filter_In in Hn as [_ Hn].
        cbn [fst] in Hn. now rewrite N.eqb_refl in Hn.
      * left. exists t'. split; [rewrite Ec; now apply (nth_set_same _ i t)|now rewrite Ep'].
    + left. exists u. split; [rewrite Ec, nth_set_other by exact Hn; exact Eu|exact Hin].
  - right. rewrite Et.
    assert (Ha : In a (tprog t)) by (rewrite Ep; now left).
    destruct a; try exact Hno.
    + destruct r0 as [r0|]; [|exact Hno]. intros n Hin. apply tag_set_iff in Hin as [[<- _]|[_ Hin]]; [|exact (Hno n Hin)].
      destruct (O j t _ En Ha) as [_ E]; [left; now exists d|]. discriminate.
    + intros n Hin. unfold tag_del in Hin. apply filter_In in Hin as [Hin _]. exact (Hno n Hin).
Qed.

Lemma call_prog_untags fs tags x r : In (TUntagMem r) (call_prog H fs tags x) -> x = CUntag r.
Proof.
  destruct x as [d0 c man|d0 r0|r0|]; cbn [call_prog].
  - destruct (exists_file fs (FBlob d0)); [intros []|]. unfold push_prog. intro Hin.
    apply in_app_or in Hin as [Hin|Hin].
    + apply in_map_iff in Hin as (y & E & _). discriminate.
    + destruct (H c =? d0); [|destruct Hin as [E|[]]; discriminate].
      destruct Hin as [E|Hin]; [discriminate|]. destruct man; [|destruct Hin].
      cbn in Hin. destruct Hin as [E|[E|[E|[E|[]]]]]; discriminate.
  - destruct (exists_file fs (FBlob d0)); [|intros []]. cbn. intros [E|[E|[E|[E|[E|[]]]]]]; discriminate.
  - destruct (tag_get r0 tags); [|intros []]. cbn. intros [E|[E|[E|[E|[]]]]]; try discriminate.
    injection E as ->. reflexivity.
  - cbn. intros [E|[E|[E|[]]]]; discriminate.
Qed.

(* no other call of the batch names reference r *)
Definition alone_on (r : N) (i : nat) (calls : list ccall) : Prop :=
  forall j x, nth_error calls j = Some x -> j <> i -> (forall d, x <> CTag d r) /\ x <> CUntag r.

Lemma start_only s calls i r x A :
  nth_error calls i = Some x -> alone_on r i calls ->
  (forall a, In a (call_prog H (sfs s) (stags s) x) -> touches r a -> a = A) ->
  Only r i A (start H s calls).
Proof.
  intros Ei Ho Hx j t a Et Hin T. cbn [start cthreads] in Et.
  apply nth_map_inv in Et as (y & Ey & <-). cbn [tprog] in Hin.
  destruct (Nat.eq_dec j i) as [->|Hn].
  - split; [reflexivity|]. rewrite Ei in Ey. injection Ey as <-. now apply Hx.
  - exfalso. destruct (Ho j y Ey Hn) as [N1 N2]. destruct T as [[d E]|E]; subst a.
    + apply (N1 d). exact (call_prog_tags H (sfs s) (stags s) y d r Hin).
    + apply N2. exact (call_prog_untags (sfs s) (stags s) y r Hin).
Qed.

Lemma tag_sched r d i is : forall c,
  Only r i (TTagMem d (Some r)) c -> TagDone r d i c -> TagDone r d i (sched shuffle c is).
Proof.
  induction is as [|j is IH]; intros c O D; [exact D|].
  cbn [sched fold_left]. apply IH; [now apply only_step|now apply tagdone_step].
Qed.

Lemma untag_sched r i is : forall c,
  Only r i (TUntagMem r) c -> UntagDone r i c -> UntagDone r i (sched shuffle c is).
Proof.
  induction is as [|j is IH]; intros c O D; [exact D|].
  cbn [sched fold_left]. apply IH; [now apply only_step|now apply untagdone_step].
Qed.

(* a Tag that has returned, no other call of the batch naming its reference: index.json has it *)
Theorem conc_completed_tag s calls is i d r :
  Inv H s -> Agree s ->
  let c := sched shuffle (start H s calls) is in
  nth_error calls i = Some (CTag d r) -> exists_file (sfs s) (FBlob d) = true ->
  alone_on r i calls -> quiet c ->
  exists l, read_index (cfs c) = Some l /\ In (d, Some r) l.
Proof.
  intros I A c Ei Ex Ho Q.
  assert (O : Only r i (TTagMem d (Some r)) (start H s calls)).
  { apply (start_only s calls i r (CTag d r)); [exact Ei|exact Ho|].
    intros a Hin T. destruct T as [[d' E]|E]; subst a.
    - apply (call_prog_tags H) in Hin. now injection Hin as ->.
    - apply call_prog_untags in Hin. discriminate. }
  assert (D0 : TagDone r d i (start H s calls)).
  { left. eexists. split; [cbn [start cthreads]; apply map_nth_error; exact Ei|].
    cbn [tprog call_prog]. rewrite Ex. cbn. right. now left. }
  destruct (tag_sched r d i is _ O D0) as [(t & Et & Hin)|Hin].
  - rewrite (Q t (nth_error_In _ _ Et)) in Hin. destruct Hin.
  - destruct (quiet_synced s calls is A Q) as (l & Hl & Hs). fold c in Hl, Hs. cbn [st_of sfs stags sdigs] in Hl, Hs.
    exists l. split; [exact Hl|]. apply Hs. now apply save_tagged.
Qed.

(* an Untag that has returned, no other call of the batch naming its reference: index.json has not *)
Theorem conc_completed_untag s calls is i r :
  Inv H s -> Agree s ->
  let c := sched shuffle (start H s calls) is in
  nth_error calls i = Some (CUntag r) -> alone_on r i calls -> quiet c ->
  exists l, read_index (cfs c) = Some l /\ forall n, ~ In (n, Some r) l.
Proof.
  intros I A c Ei Ho Q.
  assert (O : Only r i (TUntagMem r) (start H s calls)).
  { apply (start_only s calls i r (CUntag r)); [exact Ei|exact Ho|].
    intros a Hin T. destruct T as [[d' E]|E]; subst a; [|reflexivity].
    apply (call_prog_tags H) in Hin. discriminate. }
  assert (D0 : UntagDone r i (start H s calls)).
  { cbn [start ctags cthreads]. destruct (tag_get r (stags s)) as [x|] eqn:Eg.
    - left. eexists. split; [apply map_nth_error; exact Ei|]. cbn [tprog call_prog]. rewrite Eg. now left.
    - right. intros n Hin. unfold tag_get in Eg.
      destruct (find (fun e : N * N => fst e =? r) (stags s)) eqn:Ef; [discriminate|].
      pose proof (find_none _ _ Ef (r, n) Hin) as X. cbn in X. now rewrite N.eqb_refl in X. }
  destruct (untag_sched r i is _ O D0) as [(t & Et & Hin)|Hno].
  - rewrite (Q t (nth_error_In _ _ Et)) in Hin. destruct Hin.
  - destruct (quiet_synced s calls is A Q) as (l & Hl & Hs). fold c in Hl, Hs. cbn [st_of sfs stags sdigs] in Hl, Hs.
    exists l. split; [exact Hl|]. intros n Hin. apply Hs in Hin. apply save_tagged in Hin. exact (Hno n Hin).
Qed.

(* ---------- alternating phases ---------- *)
Lemma phases_inv ps : forall s,
  Inv H s -> Agree s -> phases_quiet H shuffle false false s ps = true ->
  Inv H (run_phases H shuffle false false s ps) /\ Agree (run_phases H shuffle false false s ps).
Proof.
  induction ps as [|p ps IH]; intros s I A Q; [now split|].
  cbn [phases_quiet] in Q. apply andb_true_iff in Q as [Q1 Q2].
  cbn [run_phases fold_left]. destruct p as [h|calls is|calls is]; cbn [run_phase] in *.
  - apply IH; [now apply inv_runc|now apply agree_runc|exact Q2].
  - destruct (quiet_inv s calls is I A (quietb_quiet _ Q1)) as [I' A']. apply IH; assumption.
  - destruct (conc_reopen s calls is I A) as [I' A']. apply IH; assumption.
Qed.

Theorem phases_synced ps :
  phases_quiet H shuffle false false init ps = true ->
  Inv H (run_phases H shuffle false false init ps) /\ Agree (run_phases H shuffle false false init ps).
Proof. apply phases_inv; [apply inv_init|apply agree_init]. Qed.

End Sync.

(* ---------- with the configuration read off the source ---------- *)
Theorem conc_quiescent_synced_src :
  forall (H : list N -> N) (shuffle : nat -> list entry -> list entry),
    (forall c l e, In e (shuffle c l) <-> In e l) ->
    forall ps : list phase,
      phases_quiet H shuffle src_inplace src_unlink_first init ps = true ->
      let s := run_phases H shuffle src_inplace src_unlink_first init ps in
      exists l, read_index (sfs s) = Some l /\ forall e, In e l <-> In e (save (stags s) (sdigs s)).
Proof.
  rewrite src_inplace_false, src_unlink_first_false. intros H shuffle Hs ps Q s.
  exact (proj2 (phases_synced H shuffle Hs ps Q)).
Qed.

Theorem conc_phases_crash_safe_src :
  forall (H : list N -> N) (shuffle : nat -> list entry -> list entry),
    (forall c l e, In e (shuffle c l) <-> In e l) ->
    forall (ps : list phase) (h : list hop),
      phases_quiet H shuffle src_inplace src_unlink_first init ps = true ->
      let s := runc H shuffle src_inplace src_unlink_first true h
                    (run_phases H shuffle src_inplace src_unlink_first init ps) in
      (forall o k, Recoverable H (sfs s) (crash_fs H shuffle src_inplace src_unlink_first true s o k)
                               (sfs (run_op H shuffle src_inplace src_unlink_first true s o))) /\
      (forall calls is,
         let c := sched shuffle (start H s calls) is in
         layout_ok (cfs c) /\ blob_ok H (cfs c) /\ index_ok (cfs c) /\
         (forall d, has (sfs s) (FBlob d) -> has (cfs c) (FBlob d))).
Proof.
  rewrite src_inplace_false, src_unlink_first_false. intros H shuffle Hs ps h Q s.
  assert (I : Inv H s).
  { apply inv_runc; [exact Hs|]. exact (proj1 (phases_synced H shuffle Hs ps Q)). }
  split.
  - intros o k. apply op_safe; [exact Hs|exact I].
  - intros calls is. exact (conc_safe_from H shuffle Hs s calls is I).
Qed.

Theorem conc_completed_push_src :
  forall (H : list N -> N) (shuffle : nat -> list entry -> list entry),
    (forall c l e, In e (shuffle c l) <-> In e l) ->
    forall (ps : list phase) (calls : list ccall) (is : list nat) (i : nat) (d : N) (cont : list N) (man : bool),
      phases_quiet H shuffle src_inplace src_unlink_first init ps = true ->
      let s := run_phases H shuffle src_inplace src_unlink_first init ps in
      let c := sched shuffle (start H s calls) is in
      nth_error calls i = Some (CPush d cont man) -> H cont = d -> quietb c = true ->
      has (cfs c) (FBlob d) /\
      (exists_file (sfs s) (FBlob d) = false -> man = true ->
       exists l r, read_index (cfs c) = Some l /\ In (d, r) l).
Proof.
  rewrite src_inplace_false, src_unlink_first_false. intros H shuffle Hs ps calls is i d cont man Q s c Ei Hc Qc.
  destruct (phases_synced H shuffle Hs ps Q) as [I A].
  exact (conc_completed_push H shuffle Hs s calls is i d cont man I A Ei Hc (quietb_quiet c Qc)).
Qed.

Theorem conc_completed_tag_src :
  forall (H : list N -> N) (shuffle : nat -> list entry -> list entry),
    (forall c l e, In e (shuffle c l) <-> In e l) ->
    forall (ps : list phase) (calls : list ccall) (is : list nat) (i : nat) (d r : N),
      phases_quiet H shuffle src_inplace src_unlink_first init ps = true ->
      let s := run_phases H shuffle src_inplace src_unlink_first init ps in
      let c := sched shuffle (start H s calls) is in
      nth_error calls i = Some (CTag d r) -> exists_file (sfs s) (FBlob d) = true ->
      (forall j x, nth_error calls j = Some x -> j <> i -> (forall d', x <> CTag d' r) /\ x <> CUntag r) ->
      quietb c = true ->
      exists l, read_index (cfs c) = Some l /\ In (d, Some r) l.
Proof.
  rewrite src_inplace_false, src_unlink_first_false. intros H shuffle Hs ps calls is i d r Q s c Ei Ex Ho Qc.
  destruct (phases_synced H shuffle Hs ps Q) as [I A].
  exact (conc_completed_tag H shuffle Hs s calls is i d r I A Ei Ex Ho (quietb_quiet c Qc)).
Qed.

Theorem conc_completed_untag_src :
  forall (H : list N -> N) (shuffle : nat -> list entry -> list entry),
    (forall c l e, In e (shuffle c l) <-> In e l) ->
    forall (ps : list phase) (calls : list ccall) (is : list nat) (i : nat) (r : N),
      phases_quiet H shuffle src_inplace src_unlink_first init ps = true ->
      let s := run_phases H shuffle src_inplace src_unlink_first init ps in
      let c := sched shuffle (start H s calls) is in
      nth_error calls i = Some (CUntag r) ->
      (forall j x, nth_error calls j = Some x -> j <> i -> (forall d', x <> CTag d' r) /\ x <> CUntag r) ->
      quietb c = true ->
      exists l, read_index (cfs c) = Some l /\ forall n, ~ In (n, Some r) l.
Proof.
  rewrite src_inplace_false, src_unlink_first_false. intros H shuffle Hs ps calls is i r Q s c Ei Ho Qc.
  destruct (phases_synced H shuffle Hs ps Q) as [I A].
  exact (conc_completed_untag H shuffle Hs s calls is i r I A Ei Ho (quietb_quiet c Qc)).
Qed.

(* two Tag calls of the same reference: the hypothesis "no other call names r" is needed *)
Lemma conc_completed_tag_needs_alone :
  exists (H : list N -> N) (s : st) (calls : list ccall) (is : list nat),
    let c := sched (fun _ l => l) (start H s calls) is in
    nth_error calls 0 = Some (CTag 1 10) /\ quietb c = true /\ read_index (cfs c) = Some [(2, Some 10); (1, None)].
Proof.
  exists (fun c => match c with [5] => 1 | _ => 2 end),
         (run (fun c => match c with [5] => 1 | _ => 2 end) (fun _ l => l) false false true [Push 1 [5] true; Push 2 [6] true] init),
         [CTag 1 10; CTag 2 10], [0; 0; 0; 0; 0; 1; 1; 1; 1; 1]%nat.
  vm_compute. repeat split; reflexivity.
Qed.

(* without indexLock (two saveIndex calls interleave: the earlier snapshot is published last) the
   first statement is false: both Tag calls have returned, the resolver has both references,
   index.json has one *)
Lemma conc_unsynced_without_indexlock :
  exists (H : list N -> N) (s : st) (calls : list ccall) (is : list nat),
    let c := sched_nolock (fun _ l => l) (start H s calls) is in
    quietb c = true /\ In (11, 1) (ctags c) /\ read_index (cfs c) = Some [(1, Some 10)].
Proof.
  exists (fun _ => 1), (run (fun _ => 1) (fun _ l => l) false false true [Push 1 [5] true] init),
         [CTag 1 10; CTag 1 11], [0; 0; 0; 1; 1; 1; 1; 0; 0; 1]%nat.
  vm_compute. split; [reflexivity|split; [now left|reflexivity]].
Qed.

(* the hypotheses are satisfiable: a push, two concurrent Tag calls under some schedule that lets
   both return, an Untag, a concurrent SaveIndex and Push of the blob that exists *)
Lemma phases_example :
  let ps := [PSeq [Done (Push 1 [5] true)];
             PConc [CTag 1 10; CTag 1 11] [0; 1; 0; 1; 0; 0; 0; 1; 1; 1]%nat;
             PSeq [Crashed (Untag 10) 1; Done (Untag 10)];
             PConcCrash [CTag 1 12; CSaveIndex] [0; 1; 0]%nat;
             PConc [CPush 1 [6] false; CSaveIndex] [1; 0; 1; 0; 1; 0]%nat] in
  phases_quiet (fun _ => 1) (fun _ l => l) src_inplace src_unlink_first init ps = true /\
  read_index (sfs (run_phases (fun _ => 1) (fun _ l => l) src_inplace src_unlink_first init ps)) = Some [(1, Some 11)].
Proof. vm_compute. split; reflexivity. Qed.
