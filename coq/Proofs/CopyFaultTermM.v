(* CopyFaultTermM: fault-free completion for registry.Mounter destinations too.  The acceptor allows any number
   of Mount candidates (MtRdy -> MtB -> Mounting -> MtE MSkipped -> MtRdy ...), so fault-free runs are not bounded
   there; but every event OTHER than a further Mount attempt (MtB) moves one node strictly forward for the
   potential function below, and the no-stuck-state witnesses of CopyFaultLive never are MtB (at MtRdy the
   witness is PreCopy: "no candidate left, copy").  Hence: from every state reached by a fault-free accepted
   trace there is a finite fault-free continuation to the successful return -- with or without Mounter, when
   content keys are injective. *)
From Oras Require Import Base.Prelude Model.CopySpec Model.CopyTop Model.CopyOpt Model.CopyFault
  Model.CopyFaultOpt Proofs.CopySpec Proofs.CopyFault Proofs.CopyFaultOpt Proofs.CopyFaultLive Proofs.CopyFaultTerm.
Local Open Scope nat_scope.

Ltac simp_st := cbn [set_ph ph dst cached tag returned] in *.

Definition weight2 (p : phase) : nat :=
  match p with
  | Idle => 45 | ExQ _ => 42 | NeedFetch => 39 | MF1 => 36 | MF2 => 33 | Waiting => 30
  | Mounting => 29 | MtRdy => 28 | MountedP => 28
  | Rdy _ => 27 | F1 _ => 24 | F2 _ => 21 | Pushing _ true => 18 | Pushing _ false => 15
  | MtPre => 14 | MtF1 => 13 | MtF2 => 12 | MtC => 11
  | Closing _ => 10 | SkipP => 10 | TagP0 _ => 9 | TagP1 _ => 6 | PostP => 3
  | Done => 0 | Dead => 0
  end.

Fixpoint wsum2 (f : node -> phase) (l : list node) : nat :=
  match l with [] => 0 | n :: r => weight2 (f n) + wsum2 f r end.

Definition measure2 (g : graph) (st : state) : nat := wsum2 (ph st) (seq 0 (g_n g)).

Lemma wsum2_upd_notin f n p l : ~ In n l -> wsum2 (upd f n p) l = wsum2 f l.
Proof.
  induction l as [|a l IH]; simpl; intro H; [reflexivity|].
  rewrite IH by tauto. rewrite upd_other by (intro E; apply H; left; congruence). reflexivity.
Qed.

Lemma wsum2_upd_lt f n p l : NoDup l -> In n l -> weight2 p < weight2 (f n) -> wsum2 (upd f n p) l < wsum2 f l.
Proof.
  induction l as [|a l IH]; simpl; intros Hnd Hin Hw; [contradiction|].
  inversion Hnd as [|? ? Hna Hnd']; subst.
  destruct Hin as [->|Hin].
  - rewrite upd_same, wsum2_upd_notin by assumption. lia.
  - assert (a <> n) by (intro E; subst; contradiction).
    rewrite upd_other by assumption. specialize (IH Hnd' Hin Hw). lia.
Qed.

Lemma measure2_upd (g : graph) f n p : n < g_n g -> weight2 p < weight2 (f n) ->
  wsum2 (upd f n p) (seq 0 (g_n g)) < wsum2 f (seq 0 (g_n g)).
Proof. intros Hn Hw. apply wsum2_upd_lt; auto. apply seq_NoDup. apply in_seq. lia. Qed.

Section T.
Variable g : graph.
Variable c : cfg.
Variable d0 : list node.

Lemma step_measure2 st e st' : Inv g c d0 st -> step g c st e = Some st' ->
  (forall k m, e <> CbFail k m) -> (forall b, e <> Ret b) -> (forall k, e <> MtB k) ->
  measure2 g st' < measure2 g st.
Proof.
  intros I H Hcf Hrt Hmb. unfold measure2.
  pose proof (i_bound g c d0 st I) as IB.
  step_inv H; simp_st;
    try (exfalso; eapply Hcf; reflexivity); try (exfalso; eapply Hrt; reflexivity);
    try (exfalso; eapply Hmb; reflexivity).
  all: apply measure2_upd;
            [ first [ now apply Nat.ltb_lt | apply IB; congruence ]
            | match goal with Hp : ph _ ?n = _ |- context [weight2 (ph _ ?n)] => rewrite Hp end;
              unfold after_push, after_tag;
              repeat match goal with |- context [if ?b then _ else _] => destruct b end;
              simpl; lia ].
Qed.

Variable ext : bool.

Lemma nofault_fstep2 fs e fs' : Inv g c d0 (fb fs) -> plain fs -> fstep g c ext fs (Ev e) = Some fs' ->
  is_fault (Ev e) = false -> (forall k, e <> MtB k) ->
  plain fs' /\
  ((exists b, e = Ret b /\ returned (fb fs') = Some b) \/
   (returned (fb fs') = None /\ measure2 g (fb fs') < measure2 g (fb fs))).
Proof.
  intros I [Hc [Ha Hrd]] H Hf Hmb. apply fstep_inv in H as [Hr H].
  inversion H; subst; simpl in Hf; try discriminate.
  - split; [repeat split; assumption|]. left. exists true. split; reflexivity.
  - split; [repeat split; assumption|]. left. exists false. split; reflexivity.
  - match goal with Hm : memb _ (f_rd fs) = true |- _ => rewrite Hrd in Hm; discriminate end.
  - split; [repeat split; assumption|]. right. split.
    + cbn [fb with_base]. rewrite <- Hr. eapply step_returned; eauto.
    + cbn [fb with_base]. eapply step_measure2; eauto. intros k m ->. discriminate.
Qed.

End T.

Section C.
Variable g : graph.
Variable c : cfg.
Variable ext : bool.
Variable d0 : list node.
Variable rank : node -> nat.
Hypothesis rank_dec : forall n x, In x (succ' g n) -> rank x < rank n.
Hypothesis K_pos : 1 <= c_K c.
Hypothesis root_in : c_root c < g_n g.
Hypothesis xroots_in : forall x, In x (c_xroots c) -> x < g_n g.
Hypothesis succ_in : forall n x, n < g_n g -> In x (succ' g n) -> x < g_n g.
Hypothesis virt_nopred : ext = true -> forall n, ~ In (c_root c) (succ' g n).
Hypothesis dkey_inj : forall a b, g_dkey g a = g_dkey g b -> a = b.

Lemma fcompletes_state_m : forall m fs, measure2 g (fb fs) < m ->
  Inv g c d0 (fb fs) -> P1 g (fb fs) -> P2 (fb fs) -> P3 (fb fs) -> P4 g d0 (fb fs) -> Wv c ext (fb fs) -> plain fs ->
  tainted g fs = false -> returned (fb fs) = None ->
  exists tr fs', existsb is_fault tr = false /\ frun g c ext fs tr = Some fs' /\ returned (fb fs') = Some true.
Proof.
  induction m as [|m IH]; intros fs Hm I H1 H2 H3 H4 Hw Hp Ht Hr; [lia|].
  destruct (fprogress_state_m2 g c ext d0 rank rank_dec K_pos root_in xroots_in succ_in virt_nopred fs I H1 H2 H3 H4 Hw Hr)
    as [e [fs1 [Hf [Hmb E]]]].
  destruct (nofault_fstep2 g c d0 ext _ _ _ I Hp E Hf Hmb) as [Hp1 [[b [Hb Hrb]]|[Hn Hlt]]].
  - destruct b.
    + exists [Ev e]. exists fs1. split; [cbn [existsb]; rewrite Hf; reflexivity|]. split; [cbn [frun]; now rewrite E|assumption].
    + exfalso. subst e. apply fstep_inv in E as [_ E]. inversion E; subst; try congruence;
      match goal with Hx : forall b, Ret false <> Ret b |- _ => exact (Hx false eq_refl) end.
  - destruct (P12_fstep g c ext d0 _ _ _ I H1 H2 E) as [A B].
    destruct (P34_fstep g c ext d0 dkey_inj _ _ _ I H3 H4 E) as [A3 A4].
    destruct (IH fs1) as [tr [fs' [Hnf [Hrun Hret]]]]; auto.
    + lia.
    + eapply fstep_preserves_inv; eauto.
    + eapply Wv_fstep; eauto.
    + eapply untainted_step; eauto.
    + exists (Ev e :: tr). exists fs'. split; [cbn [existsb]; rewrite Hf, Hnf; reflexivity|]. split; [cbn [frun]; now rewrite E|assumption].
Qed.

Lemma plain_run tr : forall fs0 fs1, Inv g c d0 (fb fs0) -> plain fs0 -> frun g c ext fs0 tr = Some fs1 ->
  existsb is_fault tr = false -> plain fs1.
Proof.
  induction tr as [|fe tr IH]; simpl; intros fs0 fs1 I0 Hp0 H0 Hf0; [injection H0 as <-; auto|].
  destruct (fstep g c ext fs0 fe) as [fsx|] eqn:E; [|discriminate].
  apply orb_false_iff in Hf0 as [Hf1 Hf2].
  assert (Hpx : plain fsx).
  { destruct Hp0 as [Hc [Ha Hrd]]. pose proof E as E0. apply fstep_inv in E0 as [_ E0].
    inversion E0; subst; simpl in Hf1; try discriminate; cbn [set_ret with_base]; repeat split; auto.
    match goal with Hm : memb _ (f_rd fs0) = true |- _ => rewrite Hrd in Hm; discriminate end. }
  exact (IH fsx fs1 (fstep_preserves_inv g c ext d0 _ _ _ I0 E) Hpx H0 Hf2).
Qed.

Theorem fnofault_completes_m tr fs : ext_ok g c ext d0 ->
  faccepts g c ext d0 tr = Some fs -> existsb is_fault tr = false -> returned (fb fs) = None ->
  exists tr2 fs2, existsb is_fault tr2 = false /\
    faccepts g c ext d0 (tr ++ tr2) = Some fs2 /\ returned (fb fs2) = Some true.
Proof.
  intros Hx Ha Hf Hr.
  pose proof (fnofault_no_error g c ext d0 tr fs Ha Hf) as [Ht _].
  unfold faccepts in Ha.
  pose proof (frun_inv g c ext d0 tr _ _ (finit_inv g c ext d0 Hx) Ha) as I.
  destruct (P12_init g c ext d0) as [A B].
  destruct (P12_run g c ext d0 tr _ _ (finit_inv g c ext d0 Hx) A B Ha) as [H1 H2].
  pose proof (P34_init g c ext d0 virt_nopred) as HP34. destruct HP34 as [A3 A4].
  pose proof (P34_run g c ext d0 dkey_inj tr _ _ (finit_inv g c ext d0 Hx) A3 A4 Ha) as HP. destruct HP as [H3 H4].
  assert (Hw : Wv c ext (fb fs)) by (eapply Wv_run; eauto; apply Wv_init).
  assert (Hp : plain fs).
  { apply (plain_run tr (finit c ext d0) fs (finit_inv g c ext d0 Hx)); auto. unfold finit. repeat split; reflexivity. }
  destruct (fcompletes_state_m (S (measure2 g (fb fs))) fs (Nat.lt_succ_diag_r _) I H1 H2 H3 H4 Hw Hp Ht Hr)
    as [tr2 [fs2 [Hnf [Hrun Hret]]]].
  exists tr2. exists fs2. split; [exact Hnf|]. split; [|exact Hret].
  unfold faccepts. clear - Ha Hrun. revert Ha Hrun. generalize (finit c ext d0).
  induction tr as [|fe tr IH]; simpl; intros f0 Ha Hrun.
  - injection Ha as ->. exact Hrun.
  - destruct (fstep g c ext f0 fe) as [f1|]; [|discriminate]. eauto.
Qed.

End C.

(* the retry clause, Mounter destinations included *)
Theorem frerun_completes_m (g : graph) (c1 c2 : cfg) (ext1 ext2 : bool) (d0 : list node) (rank : node -> nat)
        tr1 fs1 tr2 fs2 :
  (forall n x, In x (succ' g n) -> rank x < rank n) ->
  1 <= c_K c2 -> c_root c2 < g_n g -> (forall x, In x (c_xroots c2) -> x < g_n g) ->
  (forall n x, n < g_n g -> In x (succ' g n) -> x < g_n g) ->
  (ext2 = true -> forall n, ~ In (c_root c2) (succ' g n)) ->
  (forall a b, g_dkey g a = g_dkey g b -> a = b) ->
  ext_ok g c1 ext1 d0 -> closed_nodes g d0 ->
  faccepts g c1 ext1 d0 tr1 = Some fs1 ->
  ext_ok g c2 ext2 (dst (fb fs1)) ->
  faccepts g c2 ext2 (dst (fb fs1)) tr2 = Some fs2 -> existsb is_fault tr2 = false -> returned (fb fs2) = None ->
  exists tr3 fs3, existsb is_fault tr3 = false /\
    faccepts g c2 ext2 (dst (fb fs1)) (tr2 ++ tr3) = Some fs3 /\ returned (fb fs3) = Some true /\
    forall r n, is_call_root g c2 ext2 r -> reach g r n -> has g (dst (fb fs3)) n = true.
Proof.
  intros Hrk HK Hroot Hxr Hsu Hvp Hinj Hx1 Hc Ha1 Hx2 Ha2 Hnf Hr.
  destruct (fnofault_completes_m g c2 ext2 (dst (fb fs1)) rank Hrk HK Hroot Hxr Hsu Hvp Hinj tr2 fs2 Hx2 Ha2 Hnf Hr)
    as [tr3 [fs3 [Hnf3 [Ha3 Hret]]]].
  exists tr3. exists fs3. split; [exact Hnf3|]. split; [exact Ha3|]. split; [exact Hret|].
  apply (fclosure g c2 ext2 (dst (fb fs1)) (tr2 ++ tr3) fs3 Hx2); auto.
  - exact (fclosed_always g c1 ext1 d0 tr1 fs1 Hx1 Hc Ha1).
  - apply mt_consistent_inj. exact Hinj.
Qed.

(* ... and for a trace recorded with any subset of the callbacks nil: its elaboration can be completed *)
Theorem fopt_nofault_completes (cs : Model.CopyOpt.cbset) (g : graph) (c : cfg) (ext : bool) (d0 : list node)
        (rank : node -> nat) tr fs full :
  (forall n x, In x (succ' g n) -> rank x < rank n) ->
  1 <= c_K c -> c_root c < g_n g -> (forall x, In x (c_xroots c) -> x < g_n g) ->
  (forall n x, n < g_n g -> In x (succ' g n) -> x < g_n g) ->
  (ext = true -> forall n, ~ In (c_root c) (succ' g n)) ->
  (forall a b, g_dkey g a = g_dkey g b -> a = b) ->
  ext_ok g c ext d0 ->
  Model.CopyFaultOpt.faccepts_opt cs g c ext d0 tr = Some (fs, full) -> existsb is_fault tr = false ->
  returned (fb fs) = None ->
  exists tr2 fs2, existsb is_fault tr2 = false /\
    faccepts g c ext d0 (full ++ tr2) = Some fs2 /\ returned (fb fs2) = Some true.
Proof.
  intros Hrk HK Hroot Hxr Hsu Hvp Hinj Hx Ha Hf Hr.
  destruct (Proofs.CopyFaultOpt.fopt_elaborates cs g c ext d0 tr fs full Ha) as [Hacc [_ He]].
  apply (fnofault_completes_m g c ext d0 rank Hrk HK Hroot Hxr Hsu Hvp Hinj full fs Hx Hacc); congruence.
Qed.
