(* C10 -- proofs about the crash model (Model/OciCrash.v, Model/OciCrashSpec.v). *)
From Oras Require Import Base.Prelude Model.OciCrash Model.OciCrashSpec.

(* ---------- paths ---------- *)
Lemma fpath_eqb_spec p q : fpath_eqb p q = true <-> p = q.
Proof.
  destruct p, q; simpl; split; intro E; try discriminate; try reflexivity.
  - apply Nat.eqb_eq in E. congruence.
  - injection E as ->. apply Nat.eqb_refl.
  - apply N.eqb_eq in E. congruence.
  - injection E as ->. apply N.eqb_refl.
  - apply andb_true_iff in E as [A B]. apply N.eqb_eq in A. apply Nat.eqb_eq in B. congruence.
  - injection E as -> ->. rewrite N.eqb_refl, Nat.eqb_refl. reflexivity.
  - apply Nat.eqb_eq in E. congruence.
  - injection E as ->. apply Nat.eqb_refl.
Qed.

Lemma fpath_eqb_refl p : fpath_eqb p p = true.
Proof. now apply fpath_eqb_spec. Qed.

Lemma fpath_eqb_neq p q : p <> q -> fpath_eqb p q = false.
Proof.
  intro Hn. destruct (fpath_eqb p q) eqn:E; [|reflexivity].
  apply fpath_eqb_spec in E. contradiction.
Qed.

Lemma upd_same f p v : upd f p v p = v.
Proof. unfold upd. now rewrite fpath_eqb_refl. Qed.

Lemma upd_other f p v q : q <> p -> upd f p v q = f q.
Proof. intro Hn. unfold upd. now rewrite (fpath_eqb_neq q p Hn). Qed.

(* ---------- which paths a step can change ---------- *)
Definition touches (m : mstep) (p : fpath) : Prop :=
  match m with
  | Mkdir _ | Close _ => False
  | Create q | OpenTrunc q | Write q _ | Chmod q | Unlink q => p = q
  | Rename a b => p = a \/ p = b
  end.

Lemma apply1_frame fs m p : ~ touches m p -> files (apply1 fs m) p = files fs p.
Proof.
  destruct m; simpl; intro Hn; try reflexivity.
  - destruct (files fs p0); simpl; [reflexivity|]. now apply upd_other.
  - now apply upd_other.
  - destruct (files fs p0); simpl; [|reflexivity]. now apply upd_other.
  - destruct (files fs p0); simpl; [|reflexivity]. now apply upd_other.
  - destruct (files fs p0); simpl; [|reflexivity].
    rewrite upd_other by tauto. now rewrite upd_other by tauto.
  - now apply upd_other.
Qed.

Lemma apply_app a c fs : apply (a ++ c) fs = apply c (apply a fs).
Proof. unfold apply. apply fold_left_app. Qed.

Lemma apply_cons m ms fs : apply (m :: ms) fs = apply ms (apply1 fs m).
Proof. reflexivity. Qed.

Lemma apply_frame ms : forall fs p,
  (forall m, In m ms -> ~ touches m p) -> files (apply ms fs) p = files fs p.
Proof.
  induction ms as [|m ms IH]; intros fs p Hn; [reflexivity|].
  rewrite apply_cons, IH.
  - apply apply1_frame. apply Hn. now left.
  - intros m' Hin. apply Hn. now right.
Qed.

Lemma In_firstn {A} (x : A) k l : In x (firstn k l) -> In x l.
Proof.
  revert l; induction k as [|k IH]; intros [|a l]; simpl; try tauto.
  intros [->|Hin]; [now left|right; now apply IH].
Qed.

(* cutting a list that is a concatenation *)
Lemma firstn_app_cases {A} k (a c : list A) :
  (firstn k (a ++ c) = firstn k a /\ (k <= length a)%nat) \/
  (exists k', firstn k (a ++ c) = a ++ firstn k' c).
Proof.
  destruct (Nat.le_gt_cases k (length a)) as [Hle|Hgt].
  - left. split; [|exact Hle]. rewrite firstn_app.
    replace (k - length a)%nat with 0%nat by lia. simpl. now rewrite app_nil_r.
  - right. exists (k - length a)%nat. rewrite firstn_app.
    rewrite firstn_all2 by lia. reflexivity.
Qed.

(* ---------- the two sequences that fill a temporary file ---------- *)
Lemma apply_writes t : forall cont fs pre ro,
  files fs t = Some (mkFile pre ro) ->
  files (apply (map (fun x => Write t (AChunk x)) cont) fs) t
    = Some (mkFile (pre ++ map AChunk cont) ro).
Proof.
  induction cont as [|x cont IH]; intros fs pre ro Hf; cbn [map].
  - cbn. now rewrite app_nil_r.
  - rewrite apply_cons. cbn [apply1]. rewrite Hf.
    erewrite IH; [|cbn [files]; apply upd_same]. cbn [fcontent fro].
    now rewrite <- app_assoc.
Qed.

(* ======================================================================= *)
Section Crash.
Variable H : list N -> N.
Variable shuffle : nat -> list entry -> list entry.
(* Go's map iteration order: saveIndex writes the entries in some order *)
Hypothesis shuffle_In : forall c l e, In e (shuffle c l) <-> In e l.

Notation idx_steps := (index_steps shuffle false).
Notation steps := (op_steps H shuffle false false true).
Notation runop := (run_op H shuffle false false true).

(* ---------- Recoverable only looks at oci-layout, index.json and blobs/ ---------- *)
Definition nt_eq (a c : FS) : Prop := forall p, is_temp p = false -> files a p = files c p.

Lemma nt_eq_refl a : nt_eq a a.
Proof. intros p _. reflexivity. Qed.

Lemma read_index_nt a c : nt_eq a c -> read_index a = read_index c.
Proof. intro E. unfold read_index. now rewrite (E FIndex eq_refl). Qed.

Lemma has_nt a c p : nt_eq a c -> is_temp p = false -> has a p -> has c p.
Proof. intros E Hp Hh. unfold has in *. now rewrite <- (E p Hp). Qed.

Definition Good (fs : FS) : Prop := layout_ok fs /\ blob_ok H fs /\ index_ok fs.

Lemma good_nt a c : nt_eq a c -> Good a -> Good c.
Proof.
  intros E (L & B & I). split; [|split].
  - destruct L as (f & Hf & Hc). exists f. split; [|exact Hc]. now rewrite <- (E FLayout eq_refl).
  - intros d f Hf. apply (B d f). now rewrite (E (FBlob d) eq_refl).
  - destruct I as (l & Hl & He). exists l. split.
    + now rewrite <- (read_index_nt a c E).
    + intros e Hin. apply (has_nt a c (FBlob (fst e)) E eq_refl). now apply He.
Qed.

Lemma rec_nt fs0 a c fs1 : nt_eq a c -> Recoverable H fs0 a fs1 -> Recoverable H fs0 c fs1.
Proof.
  intros E (L & B & I & R & P1 & P2).
  destruct (good_nt a c E (conj L (conj B I))) as (L' & B' & I').
  assert (E' : nt_eq c a) by (intros p Hp; symmetry; now apply E).
  repeat split; try assumption.
  - rewrite <- (read_index_nt a c E). exact R.
  - intros d H0 H1. apply (has_nt a c (FBlob d) E eq_refl). now apply P1.
  - intros d Hc. apply P2. now apply (has_nt c a (FBlob d) E' eq_refl).
Qed.

Lemma rec_start fs0 fs1 : Good fs0 -> Recoverable H fs0 fs0 fs1.
Proof. intros (L & B & I). repeat split; auto. Qed.

Lemma rec_end fs0 fs1 : Good fs1 -> Recoverable H fs0 fs1 fs1.
Proof. intros (L & B & I). repeat split; auto. Qed.

(* ---------- invariant of quiescent states ---------- *)
Definition temp_ctr (p : fpath) : nat :=
  match p with FIndexTmp c | FIngest _ c | FLayoutTmp c => c | _ => 0%nat end.

(* Holds after every completed operation AND after every crash + reopen:
   - every reference of the tag resolver is also held by digest, and every digest held
     names an existing blob;
   - every entry of index.json on disk is held by digest (so nothing the disk index names
     can be unlinked without the index being rewritten first);
   - temporaries that a future operation will create do not exist yet (leftovers of
     interrupted operations have older counters = other random names). *)
Record Inv (s : st) : Prop := {
  inv_layout : layout_ok (sfs s);
  inv_blob : blob_ok H (sfs s);
  inv_tagdig : forall r n, In (r, n) (stags s) -> In n (sdigs s);
  inv_digs : forall n, In n (sdigs s) -> has (sfs s) (FBlob n);
  inv_temp : forall p, is_temp p = true -> (sctr s <= temp_ctr p)%nat -> files (sfs s) p = None;
  inv_index : exists l, read_index (sfs s) = Some l /\
                        forall e, In e l -> In (fst e) (sdigs s);
  (* a reference names one blob, and the names on disk are the ones in memory *)
  inv_fun : forall r n n', In (r, n) (stags s) -> In (r, n') (stags s) -> n = n';
  inv_named : exists l, read_index (sfs s) = Some l /\
                        forall r n, In (n, Some r) l <-> In (r, n) (stags s)
}.

Lemma inv_tags s : Inv s -> forall r n, In (r, n) (stags s) -> has (sfs s) (FBlob n).
Proof. intros I r n Hin. apply (inv_digs s I). now apply (inv_tagdig s I r). Qed.

(* index.json on disk is what saveIndex would write now (true when no crash intervened) *)
Definition Agree (s : st) : Prop :=
  exists l, read_index (sfs s) = Some l /\
            forall e, In e l <-> In e (save (stags s) (sdigs s)).

Lemma save_In tags digs e :
  In e (save tags digs) ->
  (exists r, In (r, fst e) tags) \/ In (fst e) digs.
Proof.
  unfold save. intro Hin. apply in_app_or in Hin as [Hin|Hin].
  - apply in_map_iff in Hin as ([r n] & <- & Hin). left. exists r. exact Hin.
  - apply in_map_iff in Hin as (d & <- & Hin). apply filter_In in Hin as [Hin _]. now right.
Qed.

Lemma save_exist fs tags digs :
  (forall r n, In (r, n) tags -> has fs (FBlob n)) ->
  (forall n, In n digs -> has fs (FBlob n)) ->
  forall e, In e (save tags digs) -> has fs (FBlob (fst e)).
Proof.
  intros Ht Hd e Hin. apply save_In in Hin as [(r & Hr)|Hn]; [now apply (Ht r)|now apply Hd].
Qed.

Lemma save_in_digs tags digs :
  (forall r n, In (r, n) tags -> In n digs) ->
  forall e, In e (save tags digs) -> In (fst e) digs.
Proof.
  intros Ht e Hin. apply save_In in Hin as [(r & Hr)|Hn]; [now apply (Ht r)|exact Hn].
Qed.

Lemma save_tagged tags digs n r : In (n, Some r) (save tags digs) <-> In (r, n) tags.
Proof.
  unfold save. rewrite in_app_iff. split.
  - intros [Hin|Hin].
    + apply in_map_iff in Hin as ([r' n'] & E & Hin). cbn in E. injection E as -> ->. exact Hin.
    + apply in_map_iff in Hin as (d & E & _). discriminate.
  - intro Hin. left. apply in_map_iff. exists (r, n). split; [reflexivity|exact Hin].
Qed.

Lemma inv_good s : Inv s -> Good (sfs s).
Proof.
  intros [L B T D _ (l & Hl & Hs) _ _]. split; [exact L|split; [exact B|]].
  exists l. split; [exact Hl|]. intros e Hin. apply D. now apply Hs.
Qed.

(* ---------- writing index.json: temp file, then rename ---------- *)
Section IndexWrite.
Variables (c : nat) (tags : list (N * N)) (digs : list N) (fs : FS).
Let it := FIndexTmp c.
Let l := shuffle c (save tags digs).
Hypothesis Hnone : files fs it = None.

Lemma idx_steps_eq :
  idx_steps c tags digs = [Create it; Write it (AIndex l); Close it; Rename it FIndex].
Proof. reflexivity. Qed.

Lemma idx_final :
  let fs' := apply (idx_steps c tags digs) fs in
  files fs' FIndex = Some (mkFile [AIndex l] false) /\ files fs' it = None /\
  forall p, p <> FIndex -> p <> it -> files fs' p = files fs p.
Proof.
  rewrite idx_steps_eq. unfold apply. cbn [fold_left apply1]. rewrite Hnone.
  cbn [files]. rewrite upd_same. cbn [files fcontent fro app]. rewrite upd_same.
  cbn [files]. split; [|split].
  - rewrite upd_other by discriminate. apply upd_same.
  - apply upd_same.
  - intros p H1 H2. now rewrite !upd_other by assumption.
Qed.

Lemma idx_prefix k :
  let fsk := apply (firstn k (idx_steps c tags digs)) fs in
  (k < 4)%nat -> forall p, is_temp p = false -> files fsk p = files fs p.
Proof.
  intros fsk Hk p Hp. unfold fsk. apply apply_frame. intros m Hin.
  rewrite idx_steps_eq in Hin.
  assert (Hm : In m [Create it; Write it (AIndex l); Close it]).
  { destruct k as [|[|[|[|k]]]]; try lia; cbn in Hin; cbn; tauto. }
  cbn in Hm. intro Ht.
  destruct Hm as [<-|[<-|[<-|[]]]]; cbn in Ht; try contradiction; subst p; discriminate.
Qed.

Lemma idx_prefix_all k : (4 <= k)%nat ->
  firstn k (idx_steps c tags digs) = idx_steps c tags digs.
Proof. intro Hk. apply firstn_all2. rewrite idx_steps_eq. simpl. lia. Qed.
End IndexWrite.


(* ---------- small facts ---------- *)
Lemma exists_file_true fs p : exists_file fs p = true -> has fs p.
Proof. unfold exists_file, has. destruct (files fs p); [discriminate|discriminate]. Qed.

Lemma exists_file_false fs p : exists_file fs p = false -> files fs p = None.
Proof. unfold exists_file. destruct (files fs p); [discriminate|reflexivity]. Qed.

Lemma has_eq a c p : files a p = files c p -> has c p -> has a p.
Proof. unfold has. now intros ->. Qed.

Lemma filter_all_true {A} (f : A -> bool) l : (forall x, In x l -> f x = true) -> filter f l = l.
Proof.
  induction l as [|a l IH]; intro Hf; [reflexivity|]. simpl.
  rewrite (Hf a (or_introl eq_refl)). f_equal. apply IH. intros x Hx. apply Hf. now right.
Qed.

Lemma existsb_false {A} (f : A -> bool) l : existsb f l = false -> forall x, In x l -> f x = false.
Proof.
  induction l as [|a l IH]; simpl; intros E x Hx; [contradiction|].
  apply orb_false_iff in E as [E1 E2]. destruct Hx as [<-|Hx]; [exact E1|now apply IH].
Qed.

Lemma inv_ctr fs tags digs c c' : (c <= c')%nat ->
  Inv (mkSt fs tags digs c) -> Inv (mkSt fs tags digs c').
Proof.
  intros Hc [L B T D Tm I F Nm]. constructor; try assumption.
  cbn [sfs sctr] in *. intros p Hp Hq. apply Tm; [exact Hp|lia].
Qed.

Lemma prefix_temp_only fs0 fs1 (A : list mstep) base :
  (forall m, In m A -> forall p, touches m p -> is_temp p = true) ->
  Recoverable H fs0 base fs1 ->
  forall k, Recoverable H fs0 (apply (firstn k A) base) fs1.
Proof.
  intros HA HR k. apply (rec_nt fs0 base); [|exact HR].
  intros p Hp. symmetry. apply apply_frame. intros m Hin Ht.
  apply In_firstn in Hin. rewrite (HA m Hin p Ht) in Hp. discriminate.
Qed.

(* ---------- operations that only rewrite index.json ---------- *)
Lemma idx_only_safe s tags' digs' :
  Inv s ->
  (forall r n, In (r, n) tags' -> In n digs') ->
  (forall n, In n digs' -> has (sfs s) (FBlob n)) ->
  (forall r n n', In (r, n) tags' -> In (r, n') tags' -> n = n') ->
  let ms := idx_steps (sctr s) tags' digs' in
  let fs1 := apply ms (sfs s) in
  Inv (mkSt fs1 tags' digs' (S (sctr s))) /\
  Agree (mkSt fs1 tags' digs' (S (sctr s))) /\
  (forall p, p <> FIndex -> is_temp p = false -> files fs1 p = files (sfs s) p) /\
  forall k, Recoverable H (sfs s) (apply (firstn k ms) (sfs s)) fs1.
Proof.
  intros I Ht Hd Hfun ms fs1.
  pose proof (inv_temp s I (FIndexTmp (sctr s)) eq_refl (le_n _)) as Hnone.
  destruct (idx_final (sctr s) tags' digs' (sfs s) Hnone) as (F1 & F2 & F3).
  fold ms in F1, F2, F3. fold fs1 in F1, F2, F3.
  assert (Fnt : forall p, p <> FIndex -> is_temp p = false -> files fs1 p = files (sfs s) p).
  { intros p Hp Hn. apply F3; [exact Hp|]. intros ->. discriminate. }
  assert (RI : read_index fs1 = Some (shuffle (sctr s) (save tags' digs'))).
  { unfold read_index. rewrite F1. reflexivity. }
  assert (I1 : Inv (mkSt fs1 tags' digs' (S (sctr s)))).
  { destruct I as [L B T D Tm Ix Fu Nm]. constructor; cbn [sfs stags sdigs sctr].
    - destruct L as (f & Hf & Hc). exists f. split; [|exact Hc]. rewrite Fnt; [exact Hf|discriminate|reflexivity].
    - intros d f Hf. apply (B d f). rewrite <- Fnt; [exact Hf|discriminate|reflexivity].
    - exact Ht.
    - intros n Hin. apply (has_eq fs1 (sfs s)); [apply Fnt; [discriminate|reflexivity]|]. now apply Hd.
    - intros p Hp Hq. destruct (fpath_eqb p (FIndexTmp (sctr s))) eqn:E.
      + apply fpath_eqb_spec in E. subst p. exact F2.
      + rewrite F3; [apply Tm; [exact Hp|lia]| |].
        * intros ->. discriminate.
        * intros ->. rewrite fpath_eqb_refl in E. discriminate.
    - exists (shuffle (sctr s) (save tags' digs')). split; [exact RI|].
      intros e Hin. apply shuffle_In in Hin. now apply (save_in_digs tags' digs').
    - exact Hfun.
    - exists (shuffle (sctr s) (save tags' digs')). split; [exact RI|].
      intros r n. rewrite shuffle_In. apply save_tagged. }
  split; [exact I1|]. split.
  { exists (shuffle (sctr s) (save tags' digs')). split; [exact RI|]. intro e. apply shuffle_In. }
  split; [exact Fnt|].
  intro k. destruct (Nat.lt_ge_cases k 4) as [Hk|Hk].
  - apply (rec_nt (sfs s) (sfs s)); [|apply rec_start; now apply inv_good].
    intros p Hp. symmetry. now apply (idx_prefix (sctr s) tags' digs' (sfs s) k Hk p Hp).
  - unfold ms. rewrite idx_prefix_all by exact Hk. apply rec_end.
    apply (inv_good _ I1).
Qed.

(* ---------- ingest: create the temp file, write, (chmod), close ---------- *)
Definition ingest_pre (fs : FS) (d : N) (t : fpath) (cont : list N) : list mstep :=
  mkdirs fs d ++ [Create t] ++ map (fun x => Write t (AChunk x)) cont.

Lemma mkdirs_touch fs d m p : In m (mkdirs fs d) -> ~ touches m p.
Proof.
  unfold mkdirs. intro Hin. apply in_app_or in Hin.
  destruct (dirs fs (DAlg (alg_of d))), (dirs fs DIngest); cbn in Hin;
    destruct Hin as [Hin|Hin]; try contradiction;
    destruct Hin as [<-|[]]; cbn; tauto.
Qed.

Lemma ingest_pre_touch fs d t cont m p : In m (ingest_pre fs d t cont) -> touches m p -> p = t.
Proof.
  unfold ingest_pre. intros Hin Ht. apply in_app_or in Hin as [Hin|Hin].
  - exfalso. exact (mkdirs_touch fs d m p Hin Ht).
  - apply in_app_or in Hin as [[<-|[]]|Hin]; [exact Ht|].
    apply in_map_iff in Hin as (x & <- & _). exact Ht.
Qed.

Lemma ingest_pre_content fs d t cont :
  files fs t = None ->
  files (apply (ingest_pre fs d t cont) fs) t = Some (mkFile (map AChunk cont) false).
Proof.
  intro Hn. unfold ingest_pre. rewrite !apply_app.
  assert (H0 : files (apply (mkdirs fs d) fs) t = None).
  { rewrite apply_frame; [exact Hn|]. intros m Hin. now apply (mkdirs_touch fs d). }
  set (fa := apply (mkdirs fs d) fs) in *.
  assert (H1 : files (apply [Create t] fa) t = Some (mkFile [] false)).
  { unfold apply. cbn [fold_left apply1]. rewrite H0. cbn [files]. apply upd_same. }
  rewrite (apply_writes t cont _ [] false H1). reflexivity.
Qed.

(* a list whose steps only touch the temp file t *)
Definition only_touch (A : list mstep) (t : fpath) : Prop :=
  forall m, In m A -> forall p, touches m p -> p = t.

Lemma only_touch_temp A t : only_touch A t -> is_temp t = true ->
  forall m, In m A -> forall p, touches m p -> is_temp p = true.
Proof. intros HA Ht m Hin p Hp. now rewrite (HA m Hin p Hp). Qed.

Lemma only_touch_frame A t fs p : only_touch A t -> p <> t -> files (apply A fs) p = files fs p.
Proof. intros HA Hp. apply apply_frame. intros m Hin Ht. apply Hp. exact (HA m Hin p Ht). Qed.

Lemma only_touch_app A B t : only_touch A t -> only_touch B t -> only_touch (A ++ B) t.
Proof. intros HA HB m Hin. apply in_app_or in Hin as [Hin|Hin]; [now apply HA|now apply HB]. Qed.

(* ---------- Push whose content fails verification ---------- *)
Lemma push_bad_safe s d cont :
  Inv s ->
  let t := FIngest d (sctr s) in
  let ms := ingest_pre (sfs s) d t cont ++ [Close t; Unlink t] in
  let fs1 := apply ms (sfs s) in
  Inv (mkSt fs1 (stags s) (sdigs s) (S (sctr s))) /\
  (Agree s -> Agree (mkSt fs1 (stags s) (sdigs s) (S (sctr s)))) /\
  (forall p, files fs1 p = files (sfs s) p) /\
  forall k, Recoverable H (sfs s) (apply (firstn k ms) (sfs s)) fs1.
Proof.
  intros I t ms fs1.
  assert (HT : only_touch ms t).
  { apply only_touch_app; [intros m Hin p; now apply (ingest_pre_touch (sfs s) d t cont)|].
    intros m [<-|[<-|[]]] p Hp; cbn in Hp; [contradiction|exact Hp]. }
  assert (Ft : files fs1 t = None).
  { unfold fs1, ms. rewrite apply_app. unfold apply at 1. cbn [fold_left apply1 files]. apply upd_same. }
  assert (Fo : forall p, files fs1 p = files (sfs s) p).
  { intro p. destruct (fpath_eqb p t) eqn:E.
    - apply fpath_eqb_spec in E. subst p. rewrite Ft. symmetry.
      exact (inv_temp s I t eq_refl (le_n _)).
    - apply (only_touch_frame ms t); [exact HT|]. intros ->. rewrite fpath_eqb_refl in E. discriminate. }
  assert (RI : read_index fs1 = read_index (sfs s)) by (unfold read_index; now rewrite Fo).
  assert (I1 : Inv (mkSt fs1 (stags s) (sdigs s) (S (sctr s)))).
  { destruct I as [L B T D Tm Ix Fu Nm]. constructor; cbn [sfs stags sdigs sctr].
    - destruct L as (f & Hf & Hc). exists f. now rewrite Fo.
    - intros d' f Hf. apply (B d' f). now rewrite <- Fo.
    - exact T.
    - intros n Hin. apply (has_eq fs1 (sfs s)); [apply Fo|now apply D].
    - intros p Hp Hq. rewrite Fo. apply Tm; [exact Hp|lia].
    - rewrite RI. exact Ix.
    - exact Fu.
    - rewrite RI. exact Nm. }
  split; [exact I1|]. split.
  { intros (l & Hl & He). exists l. cbn [sfs stags sdigs]. rewrite RI. now split. }
  split; [exact Fo|]. intro k.
  apply prefix_temp_only; [now apply (only_touch_temp ms t)|].
  apply rec_start. now apply inv_good.
Qed.

Lemma dig_add_In d digs n : In n (dig_add d digs) -> n = d \/ In n digs.
Proof. unfold dig_add. destruct (memN d digs); simpl; intuition. Qed.

Lemma dig_add_incl d digs n : In n digs -> In n (dig_add d digs).
Proof. unfold dig_add. destruct (memN d digs); simpl; intuition. Qed.

Lemma dig_add_self d digs : In d (dig_add d digs).
Proof.
  unfold dig_add, memN. destruct (existsb (N.eqb d) digs) eqn:E; [|now left].
  apply existsb_exists in E as (x & Hin & E). apply N.eqb_eq in E. now subst x.
Qed.

(* ---------- Push of verified content (and, for a manifest, the index update) ---------- *)
Lemma push_good_safe s d cont (man : bool) :
  Inv s -> files (sfs s) (FBlob d) = None -> H cont = d ->
  let c := sctr s in
  let t := FIngest d c in
  let digs' := if man then dig_add d (sdigs s) else sdigs s in
  let A := ingest_pre (sfs s) d t cont ++ [Chmod t; Close t] in
  let IX := if man then idx_steps c (stags s) digs' else [] in
  let ms := A ++ Rename t (FBlob d) :: IX in
  let fs1 := apply ms (sfs s) in
  Inv (mkSt fs1 (stags s) digs' (S c)) /\
  (Agree s -> Agree (mkSt fs1 (stags s) digs' (S c))) /\
  (forall d', exists_file fs1 (FBlob d') = if d' =? d then true else exists_file (sfs s) (FBlob d')) /\
  forall k, Recoverable H (sfs s) (apply (firstn k ms) (sfs s)) fs1.
Proof.
  intros I Hnew HH c t digs' A IX ms fs1.
  set (fs0 := sfs s) in *.
  set (X := mkFile (map AChunk cont) true).
  assert (Htmp : files fs0 t = None) by (exact (inv_temp s I t eq_refl (le_n _))).
  assert (HT : only_touch A t).
  { apply only_touch_app; [intros m Hin p; now apply (ingest_pre_touch fs0 d t cont)|].
    intros m [<-|[<-|[]]] p Hp; cbn in Hp; [exact Hp|contradiction]. }
  set (fsA := apply A fs0).
  assert (FAt : files fsA t = Some X).
  { unfold fsA, A. rewrite apply_app. unfold apply at 1. cbn [fold_left apply1].
    rewrite (ingest_pre_content fs0 d t cont Htmp). cbn [files fcontent fro]. apply upd_same. }
  set (fsB := apply1 fsA (Rename t (FBlob d))).
  assert (FB : forall p, files fsB p = if fpath_eqb p (FBlob d) then Some X else files fs0 p).
  { intro p. unfold fsB. cbn [apply1]. rewrite FAt. cbn [files].
    destruct (fpath_eqb p t) eqn:Et.
    - apply fpath_eqb_spec in Et. subst p. rewrite upd_same. cbn. now rewrite Htmp.
    - assert (p <> t) by (intros ->; rewrite fpath_eqb_refl in Et; discriminate).
      rewrite upd_other by assumption. unfold upd at 1.
      destruct (fpath_eqb p (FBlob d)); [reflexivity|].
      now apply (only_touch_frame A t). }
  assert (FBb : forall d', files fsB (FBlob d') = if d' =? d then Some X else files fs0 (FBlob d')).
  { intro d'. now rewrite FB. }
  assert (IB : Inv (mkSt fsB (stags s) (sdigs s) c)).
  { destruct I as [L B T D Tm Ix Fu Nm]. fold fs0 in L, B, T, D, Tm, Ix, Nm. fold c in Tm.
    constructor; cbn [sfs stags sdigs sctr].
    - destruct L as (f & Hf & Hc). exists f. rewrite FB. cbn. now split.
    - intros d' f. rewrite FBb. destruct (d' =? d) eqn:E.
      + apply N.eqb_eq in E. subst d'. intro Hf. injection Hf as <-. exists cont. now split.
      + apply B.
    - exact T.
    - intros n Hin. unfold has. rewrite FBb. destruct (n =? d); [discriminate|]. now apply D.
    - intros p Hp Hq. rewrite FB. destruct p; try discriminate; cbn; now apply Tm.
    - destruct Ix as (l & Hl & He). exists l. split; [|exact He].
      unfold read_index. rewrite FB. cbn. exact Hl.
    - exact Fu.
    - destruct Nm as (l & Hl & He). exists l. split; [|exact He].
      unfold read_index. rewrite FB. cbn. exact Hl. }
  assert (Hsplit : forall k,
     (exists k', apply (firstn k ms) fs0 = apply (firstn k' A) fs0) \/
     (exists k', apply (firstn k ms) fs0 = apply (firstn k' IX) fsB)).
  { intro k. unfold ms. destruct (firstn_app_cases k A (Rename t (FBlob d) :: IX)) as [[E _]|(k' & E)].
    - left. exists k. now rewrite E.
    - destruct k' as [|k'].
      + left. exists (length A). rewrite E. cbn [firstn]. rewrite app_nil_r. now rewrite firstn_all.
      + right. exists k'. rewrite E. cbn [firstn]. rewrite apply_app, apply_cons. reflexivity. }
  assert (F1 : fs1 = apply IX fsB).
  { unfold fs1, ms. rewrite apply_app, apply_cons. reflexivity. }
  assert (Hstart : forall k', Recoverable H fs0 (apply (firstn k' A) fs0) fs1).
  { intro k'. apply prefix_temp_only; [now apply (only_touch_temp A t)|].
    apply rec_start. now apply inv_good. }
  destruct man.
  - (* manifest: the index is rewritten after the blob is in place *)
    assert (Hd' : forall n, In n digs' -> has fsB (FBlob n)).
    { intros n Hin. apply dig_add_In in Hin as [->|Hin].
      - unfold has. rewrite FBb, N.eqb_refl. discriminate.
      - exact (inv_digs _ IB n Hin). }
    assert (Htd' : forall r n, In (r, n) (stags s) -> In n digs').
    { intros r n Hin. apply dig_add_incl. exact (inv_tagdig s I r n Hin). }
    destruct (idx_only_safe (mkSt fsB (stags s) (sdigs s) c) (stags s) digs' IB Htd' Hd' (inv_fun s I))
      as (I1 & A1 & Fnt & _).
    cbn [sfs sctr] in I1, A1, Fnt. fold IX in I1, A1, Fnt. rewrite <- F1 in I1, A1, Fnt.
    split; [exact I1|]. split; [intros _; exact A1|]. split.
    { intro d'. unfold exists_file. rewrite Fnt; [|discriminate|reflexivity]. rewrite FBb.
      now destruct (d' =? d). }
    intro k.
    destruct (Hsplit k) as [(k' & ->)|(k' & ->)]; [apply Hstart|].
    destruct (Nat.lt_ge_cases k' 4) as [Hk|Hk].
    + (* blob in place, index.json still the old one *)
      apply (rec_nt fs0 fsB).
      { intros p Hp. symmetry.
        exact (idx_prefix c (stags s) digs' fsB k' Hk p Hp). }
      destruct (inv_good _ IB) as (GL & GB & GI). cbn [sfs] in GL, GB, GI.
      repeat split; try assumption.
      * left. unfold read_index. rewrite FB. reflexivity.
      * intros d' H0 _. unfold has. rewrite FBb. destruct (d' =? d); [discriminate|exact H0].
      * intros d'. unfold has. rewrite FBb. destruct (d' =? d) eqn:E; [|now left].
        intros _. right. apply N.eqb_eq in E. subst d'.
        rewrite Fnt; [|discriminate|reflexivity]. rewrite FBb, N.eqb_refl. discriminate.
    + unfold IX. rewrite idx_prefix_all by exact Hk. fold IX. rewrite <- F1.
      apply rec_end. exact (inv_good _ I1).
  - (* plain blob *)
    assert (F1' : fs1 = fsB) by (rewrite F1; reflexivity).
    assert (I1 : Inv (mkSt fs1 (stags s) (sdigs s) (S c))).
    { rewrite F1'. exact (inv_ctr _ _ _ c (S c) (Nat.le_succ_diag_r c) IB). }
    split; [exact I1|]. split.
    { intros (l & Hl & He). exists l. cbn [sfs stags sdigs]. split; [|exact He].
      unfold read_index. rewrite F1', FB. cbn. exact Hl. }
    split.
    { intro d'. unfold exists_file. rewrite F1', FBb. now destruct (d' =? d). }
    intro k.
    destruct (Hsplit k) as [(k' & ->)|(k' & ->)]; [apply Hstart|].
    unfold IX. rewrite firstn_nil. cbn [apply fold_left]. rewrite <- F1'.
    apply rec_end. exact (inv_good _ I1).
Qed.

(* ---------- Delete: index first, then the blob ---------- *)
Lemma unlink_inv fs tags digs c c' d :
  (c <= c')%nat ->
  Inv (mkSt fs tags digs c) -> ~ In d digs ->
  Inv (mkSt (apply1 fs (Unlink (FBlob d))) tags digs c').
Proof.
  intros Hc [L B T D Tm Ix Fu Nm] Hd. cbn [sfs stags sdigs sctr] in *.
  assert (FU : forall p, files (apply1 fs (Unlink (FBlob d))) p = upd (files fs) (FBlob d) None p)
    by reflexivity.
  constructor; cbn [sfs stags sdigs sctr].
  - destruct L as (f & Hf & Hc'). exists f. rewrite FU, upd_other by discriminate. now split.
  - intros d' f. rewrite FU. destruct (N.eq_dec d' d) as [->|Hn].
    + rewrite upd_same. discriminate.
    + rewrite upd_other by congruence. apply B.
  - exact T.
  - intros n Hin. unfold has. rewrite FU, upd_other.
    + now apply D.
    + intro E. injection E as E. subst n. contradiction.
  - intros p Hp Hq. rewrite FU, upd_other; [apply Tm; [exact Hp|lia]|]. intros ->. discriminate.
  - destruct Ix as (l & Hl & He). exists l. split; [|exact He].
    unfold read_index. rewrite FU, upd_other by discriminate. exact Hl.
  - exact Fu.
  - destruct Nm as (l & Hl & He). exists l. split; [|exact He].
    unfold read_index. rewrite FU, upd_other by discriminate. exact Hl.
Qed.

Lemma noop_safe s tags digs :
  Inv s -> tags = stags s -> digs = sdigs s ->
  Inv (mkSt (apply [] (sfs s)) tags digs (S (sctr s))) /\
  (Agree s -> Agree (mkSt (apply [] (sfs s)) tags digs (S (sctr s)))) /\
  (forall p, files (apply [] (sfs s)) p = files (sfs s) p) /\
  forall k, Recoverable H (sfs s) (apply (firstn k []) (sfs s)) (apply [] (sfs s)).
Proof.
  intros I -> ->. split; [|split; [|split]].
  - apply (inv_ctr _ _ _ (sctr s)); [lia|]. destruct s; exact I.
  - intro A. exact A.
  - reflexivity.
  - intro k. rewrite firstn_nil. apply rec_start. now apply inv_good.
Qed.

Lemma delete_safe s d :
  Inv s ->
  let tags' := filter (fun e => negb (snd e =? d)) (stags s) in
  let digs' := filter (fun x => negb (x =? d)) (sdigs s) in
  let IX := if existsb (fun e => snd e =? d) (stags s) || memN d (sdigs s)
            then idx_steps (sctr s) tags' digs' else [] in
  let UN := if exists_file (sfs s) (FBlob d) then [Unlink (FBlob d)] else [] in
  let ms := IX ++ UN in
  let fs1 := apply ms (sfs s) in
  Inv (mkSt fs1 tags' digs' (S (sctr s))) /\
  (Agree s -> Agree (mkSt fs1 tags' digs' (S (sctr s)))) /\
  (forall d', exists_file fs1 (FBlob d') = if d' =? d then false else exists_file (sfs s) (FBlob d')) /\
  forall k, Recoverable H (sfs s) (apply (firstn k ms) (sfs s)) fs1.
Proof.
  intros I tags' digs' IX UN ms fs1.
  assert (EU : forall fs d', exists_file (apply1 fs (Unlink (FBlob d))) (FBlob d')
                             = if d' =? d then false else exists_file fs (FBlob d')).
  { intros fs d'. unfold exists_file. cbn [apply1 files]. destruct (d' =? d) eqn:E.
    - apply N.eqb_eq in E. subst d'. now rewrite upd_same.
    - apply N.eqb_neq in E. rewrite upd_other; [reflexivity|congruence]. }
  assert (RU : forall fs, read_index (apply1 fs (Unlink (FBlob d))) = read_index fs).
  { intro fs. unfold read_index. cbn [apply1 files]. now rewrite upd_other by discriminate. }
  assert (Ht' : forall r n, In (r, n) tags' -> In (r, n) (stags s) /\ n <> d).
  { intros r n Hin. apply filter_In in Hin as [Hin E]. split; [exact Hin|].
    cbn in E. apply negb_true_iff in E. now apply N.eqb_neq in E. }
  assert (Hd' : forall n, In n digs' -> In n (sdigs s) /\ n <> d).
  { intros n Hin. apply filter_In in Hin as [Hin E]. split; [exact Hin|].
    apply negb_true_iff in E. now apply N.eqb_neq in E. }
  assert (Hnd : ~ In d digs').
  { intro Hin. apply Hd' in Hin as [_ Hn]. now apply Hn. }
  destruct (existsb (fun e => snd e =? d) (stags s) || memN d (sdigs s)) eqn:Eu.
  - (* some reference names d: the index is rewritten first *)
    destruct (idx_only_safe s tags' digs' I) as (IM & AM & Fnt & RM).
    { intros r n Hin. apply Ht' in Hin as [Hin Hn]. apply filter_In. split.
      - exact (inv_tagdig s I r n Hin).
      - apply negb_true_iff. now apply N.eqb_neq. }
    { intros n Hin. apply (inv_digs s I). now apply Hd'. }
    { intros r n n' H1 H2. apply Ht' in H1 as [H1 _]. apply Ht' in H2 as [H2 _].
      exact (inv_fun s I r n n' H1 H2). }
    fold IX in IM, AM, Fnt, RM. set (fsM := apply IX (sfs s)) in *.
    destruct (exists_file (sfs s) (FBlob d)) eqn:Ex.
    + assert (F1 : fs1 = apply1 fsM (Unlink (FBlob d))).
      { unfold fs1, ms, UN. now rewrite apply_app. }
      assert (I1 : Inv (mkSt fs1 tags' digs' (S (sctr s)))).
      { rewrite F1. exact (unlink_inv fsM tags' digs' (S (sctr s)) (S (sctr s)) d (le_n _) IM Hnd). }
      split; [exact I1|]. split.
      { intros _. destruct AM as (l & Hl & He). exists l. cbn [sfs stags sdigs] in *.
        rewrite F1, RU. now split. }
      split.
      { intro d'. rewrite F1, EU. unfold exists_file. rewrite Fnt; [reflexivity|discriminate|reflexivity]. }
      assert (Mid : Recoverable H (sfs s) fsM fs1).
      { destruct (inv_good _ IM) as (GL & GB & GI). cbn [sfs] in GL, GB, GI.
        repeat split; try assumption.
        - right. now rewrite F1, RU.
        - intros d' H0 _. apply (has_eq fsM (sfs s)); [|exact H0].
          apply Fnt; [discriminate|reflexivity].
        - intros d' Hh. left. apply (has_eq (sfs s) fsM); [|exact Hh].
          symmetry. apply Fnt; [discriminate|reflexivity]. }
      intro k. unfold ms.
      destruct (firstn_app_cases k IX UN) as [[E _]|(k' & E)]; rewrite E.
      * destruct (Nat.lt_ge_cases k 4) as [Hk|Hk].
        -- apply (rec_nt (sfs s) (sfs s)); [|apply rec_start; now apply inv_good].
           intros p Hp. symmetry. unfold IX.
           exact (idx_prefix (sctr s) tags' digs' (sfs s) k Hk p Hp).
        -- unfold IX. rewrite idx_prefix_all by exact Hk. exact Mid.
      * rewrite apply_app. fold fsM. unfold UN. destruct k' as [|k'].
        -- cbn [firstn apply fold_left]. exact Mid.
        -- cbn [firstn]. rewrite firstn_nil. change (apply [Unlink (FBlob d)] fsM) with (apply1 fsM (Unlink (FBlob d))).
           rewrite <- F1. apply rec_end. exact (inv_good _ I1).
    + assert (F1 : fs1 = fsM).
      { unfold fs1, ms, UN. now rewrite app_nil_r. }
      rewrite F1. split; [exact IM|]. split; [intros _; exact AM|]. split.
      { intro d'. unfold exists_file. rewrite Fnt; [|discriminate|reflexivity].
        destruct (d' =? d) eqn:E; [|reflexivity]. apply N.eqb_eq in E. subst d'.
        now rewrite (exists_file_false _ _ Ex). }
      intro k. unfold ms, UN. rewrite app_nil_r. apply RM.
  - (* nothing names d: only the blob file goes *)
    apply orb_false_iff in Eu as [Eu1 Eu2].
    assert (Et : tags' = stags s).
    { apply filter_all_true. intros e Hin.
      now rewrite (existsb_false _ _ Eu1 e Hin). }
    assert (Ed : digs' = sdigs s).
    { apply filter_all_true. intros x Hin. unfold memN in Eu2.
      pose proof (existsb_false _ _ Eu2 x Hin) as E. rewrite N.eqb_sym in E. now rewrite E. }
    destruct (exists_file (sfs s) (FBlob d)) eqn:Ex.
    + assert (F1 : fs1 = apply1 (sfs s) (Unlink (FBlob d))) by reflexivity.
      assert (I1 : Inv (mkSt fs1 tags' digs' (S (sctr s)))).
      { rewrite F1, Et, Ed. apply (unlink_inv (sfs s) (stags s) (sdigs s) (sctr s)).
        - lia.
        - destruct s; exact I.
        - rewrite <- Ed. exact Hnd. }
      split; [exact I1|]. split.
      { intros (l & Hl & He). exists l. cbn [sfs stags sdigs]. rewrite F1, RU, Et, Ed. now split. }
      split; [intro d'; rewrite F1; apply EU|].
      intro k. unfold ms, IX, UN. cbn [app]. destruct k as [|k].
      * cbn [firstn apply fold_left]. apply rec_start. now apply inv_good.
      * cbn [firstn]. rewrite firstn_nil. change (apply [Unlink (FBlob d)] (sfs s)) with fs1.
        apply rec_end. exact (inv_good _ I1).
    + destruct (noop_safe s tags' digs' I Et Ed) as (N1 & NA & N2 & N3).
      split; [exact N1|split; [exact NA|split; [|exact N3]]].
      intro d'. unfold exists_file. rewrite N2.
      destruct (d' =? d) eqn:E; [|reflexivity]. apply N.eqb_eq in E. subst d'.
      now rewrite (exists_file_false _ _ Ex).
Qed.

(* ---------- every operation, every cut ---------- *)
Lemma tag_set_In r d tags r' n :
  In (r', n) (tag_set r d tags) -> (r', n) = (r, d) \/ In (r', n) tags.
Proof.
  unfold tag_set. intros [E|Hin]; [left; now symmetry|right].
  now apply filter_In in Hin as [Hin _].
Qed.

Lemma tag_set_fun r d tags :
  (forall r0 n n', In (r0, n) tags -> In (r0, n') tags -> n = n') ->
  forall r0 n n', In (r0, n) (tag_set r d tags) -> In (r0, n') (tag_set r d tags) -> n = n'.
Proof.
  intros Hf r0 n n' H1 H2. unfold tag_set in H1, H2. cbn [In] in H1, H2. rewrite filter_In in H1, H2.
  destruct H1 as [E1|[H1 N1]], H2 as [E2|[H2 N2]].
  - congruence.
  - injection E1 as <- <-. cbn in N2. rewrite N.eqb_refl in N2. discriminate.
  - injection E2 as <- <-. cbn in N1. rewrite N.eqb_refl in N1. discriminate.
  - exact (Hf r0 n n' H1 H2).
Qed.

Lemma op_safe s o :
  Inv s ->
  Inv (runop s o) /\
  (Agree s -> Agree (runop s o)) /\
  (forall d', exists_file (sfs (runop s o)) (FBlob d')
              = spec_blobs_step H (fun x => exists_file (sfs s) (FBlob x)) o d') /\
  forall k, Recoverable H (sfs s) (crash_fs H shuffle false false true s o k) (sfs (runop s o)).
Proof.
  intro I. unfold run_op, crash_fs, op_steps. destruct o as [d cont man|d r|r|d| |dd|live].
  - (* Push *)
    cbn [op_mem spec_blobs_step]. destruct (exists_file (sfs s) (FBlob d)) eqn:Ex.
    + destruct (noop_safe s _ _ I eq_refl eq_refl) as (N1 & NA & N2 & N3).
      split; [exact N1|split; [exact NA|split; [|exact N3]]].
      intro d'. cbn [sfs]. unfold exists_file. now rewrite N2.
    + apply exists_file_false in Ex. destruct (H cont =? d) eqn:EH; cbn [negb].
      * apply N.eqb_eq in EH.
        pose proof (push_good_safe s d cont man I Ex EH) as P. cbn zeta in P.
        unfold ingest_pre in P. rewrite <- !app_assoc in P. cbn [app] in P.
        destruct man; cbn [sfs]; exact P.
      * pose proof (push_bad_safe s d cont I) as P. cbn zeta in P.
        unfold ingest_pre in P. rewrite <- !app_assoc in P. cbn [app] in P.
        destruct P as (P1 & PA & P2 & P3).
        destruct man; cbn [sfs]; (split; [exact P1|split; [exact PA|split; [|exact P3]]]);
          intro d'; unfold exists_file; now rewrite P2.
  - (* Tag *)
    cbn [op_mem spec_blobs_step]. destruct (exists_file (sfs s) (FBlob d)) eqn:Ex.
    + apply exists_file_true in Ex.
      destruct (idx_only_safe s (tag_set r d (stags s)) (dig_add d (sdigs s)) I) as (I1 & A1 & F1 & R1).
      * intros r' n Hin. apply tag_set_In in Hin as [E|Hin]; [injection E as -> ->; apply dig_add_self|].
        apply dig_add_incl. exact (inv_tagdig s I r' n Hin).
      * intros n Hin. apply dig_add_In in Hin as [->|Hin]; [exact Ex|now apply (inv_digs s I)].
      * apply tag_set_fun. exact (inv_fun s I).
      * split; [exact I1|split; [intros _; exact A1|split; [|exact R1]]]. intro d'. cbn [sfs]. unfold exists_file.
        rewrite F1; [reflexivity|discriminate|reflexivity].
    + destruct (noop_safe s _ _ I eq_refl eq_refl) as (N1 & NA & N2 & N3).
      split; [exact N1|split; [exact NA|split; [|exact N3]]].
      intro d'. cbn [sfs]. unfold exists_file. now rewrite N2.
  - (* Untag *)
    cbn [op_mem spec_blobs_step]. destruct (tag_get r (stags s)) as [x|] eqn:Eg.
    + destruct (idx_only_safe s (tag_del r (stags s)) (sdigs s) I) as (I1 & A1 & F1 & R1).
      * intros r' n Hin. unfold tag_del in Hin. apply filter_In in Hin as [Hin _].
        exact (inv_tagdig s I r' n Hin).
      * apply (inv_digs s I).
      * intros r' n n' H1 H2. unfold tag_del in H1, H2.
        apply filter_In in H1 as [H1 _]. apply filter_In in H2 as [H2 _].
        exact (inv_fun s I r' n n' H1 H2).
      * split; [exact I1|split; [intros _; exact A1|split; [|exact R1]]]. intro d'. cbn [sfs]. unfold exists_file.
        rewrite F1; [reflexivity|discriminate|reflexivity].
    + destruct (noop_safe s _ _ I eq_refl eq_refl) as (N1 & NA & N2 & N3).
      split; [exact N1|split; [exact NA|split; [|exact N3]]].
      intro d'. cbn [sfs]. unfold exists_file. now rewrite N2.
  - (* Delete *)
    cbn [op_mem spec_blobs_step]. exact (delete_safe s d I).
  - (* SaveIndex *)
    cbn [op_mem spec_blobs_step].
    destruct (idx_only_safe s (stags s) (sdigs s) I (inv_tagdig s I) (inv_digs s I) (inv_fun s I)) as (I1 & A1 & F1 & R1).
    split; [exact I1|split; [intros _; exact A1|split; [|exact R1]]]. intro d'. cbn [sfs]. unfold exists_file.
    rewrite F1; [reflexivity|discriminate|reflexivity].
  - (* TagDig *)
    cbn [op_mem spec_blobs_step]. destruct (exists_file (sfs s) (FBlob dd)) eqn:Ex.
    + apply exists_file_true in Ex.
      destruct (idx_only_safe s (stags s) (dig_add dd (sdigs s)) I) as (I1 & A1 & F1 & R1).
      * intros r' n Hin. apply dig_add_incl. exact (inv_tagdig s I r' n Hin).
      * intros n Hin. apply dig_add_In in Hin as [->|Hin]; [exact Ex|now apply (inv_digs s I)].
      * exact (inv_fun s I).
      * split; [exact I1|split; [intros _; exact A1|split; [|exact R1]]]. intro d'. cbn [sfs]. unfold exists_file.
        rewrite F1; [reflexivity|discriminate|reflexivity].
    + destruct (noop_safe s _ _ I eq_refl eq_refl) as (N1 & NA & N2 & N3).
      split; [exact N1|split; [exact NA|split; [|exact N3]]].
      intro d'. cbn [sfs]. unfold exists_file. now rewrite N2.
  - (* Forget *)
    cbn [op_mem spec_blobs_step].
    set (digs' := filter (fun x => memN x live || existsb (fun e => snd e =? x) (stags s)) (sdigs s)).
    destruct (idx_only_safe s (stags s) digs' I) as (I1 & A1 & F1 & R1).
    + intros r n Hin. apply filter_In. split; [exact (inv_tagdig s I r n Hin)|].
      apply orb_true_iff. right. apply existsb_exists. exists (r, n). split; [exact Hin|apply N.eqb_refl].
    + intros n Hin. apply filter_In in Hin as [Hin _]. now apply (inv_digs s I).
    + exact (inv_fun s I).
    + split; [exact I1|split; [intros _; exact A1|split; [|exact R1]]]. intro d'. cbn [sfs]. unfold exists_file.
      rewrite F1; [reflexivity|discriminate|reflexivity].
Qed.

Lemma inv_init : Inv init.
Proof.
  constructor; cbn.
  - eexists. split; reflexivity.
  - intros d f Hf. discriminate.
  - intros r n [].
  - intros n [].
  - intros p Hp _. destruct p; try discriminate; reflexivity.
  - exists []. split; [reflexivity|]. intros e [].
  - intros r n n' [].
  - exists []. split; [reflexivity|]. intros r n. cbn. tauto.
Qed.

Lemma agree_init : Agree init.
Proof. exists []. split; [reflexivity|]. intro e. cbn. tauto. Qed.

Lemma inv_run h : forall s, Inv s -> Inv (run H shuffle false false true h s).
Proof.
  induction h as [|o h IH]; intros s I; [exact I|].
  cbn [run fold_left]. apply IH. now apply op_safe.
Qed.

Lemma agree_run h : forall s, Inv s -> Agree s -> Agree (run H shuffle false false true h s).
Proof.
  induction h as [|o h IH]; intros s I A; [exact A|].
  cbn [run fold_left]. destruct (op_safe s o I) as (I1 & A1 & _). apply IH; [exact I1|now apply A1].
Qed.

Theorem crash_safe h o k :
  let s := run H shuffle false false true h init in
  Recoverable H (sfs s) (crash_fs H shuffle false false true s o k) (sfs (run_op H shuffle false false true s o)).
Proof. intro s. apply op_safe. apply inv_run. apply inv_init. Qed.

(* what the statement says in words, as corollaries *)
Lemma rec_same_tags fs0 fsk fs1 :
  Recoverable H fs0 fsk fs1 -> same_tags fsk fs0 \/ same_tags fsk fs1.
Proof.
  intros (_ & _ & (l & Hl & _) & R & _). destruct R as [R|R]; [left|right];
    exists l, l; rewrite <- R; repeat split; auto.
Qed.

Corollary crash_tags_before_or_after h o k :
  let s := run H shuffle false false true h init in
  let fsk := crash_fs H shuffle false false true s o k in
  same_tags fsk (sfs s) \/ same_tags fsk (sfs (run_op H shuffle false false true s o)).
Proof. intros s fsk. apply rec_same_tags. apply crash_safe. Qed.

(* ---------- completed operations: the directory refines the sequential specification ---------- *)
Lemma tag_get_none r tags : tag_get r tags = None -> forall n, ~ In (r, n) tags.
Proof.
  unfold tag_get. destruct (find (fun e => fst e =? r) tags) eqn:E; [discriminate|].
  intros _ n Hin. pose proof (find_none _ _ E (r, n) Hin) as X. cbn in X.
  rewrite N.eqb_refl in X. discriminate.
Qed.

Definition Rel (s : st) (bs : N -> bool) (tg : N -> option N) : Prop :=
  (forall d, exists_file (sfs s) (FBlob d) = bs d) /\
  (forall r n, In (r, n) (stags s) <-> tg r = Some n).

Lemma spec_blobs_ext f g o d' :
  (forall x, f x = g x) -> spec_blobs_step H f o d' = spec_blobs_step H g o d'.
Proof.
  intro E. destruct o; cbn; try apply E.
  - rewrite (E d). destruct (g d); [apply E|]. destruct (H c =? d); [|apply E].
    destruct (d' =? d); [reflexivity|apply E].
  - destruct (d' =? d); [reflexivity|apply E].
Qed.

Lemma rel_step s o bs tg :
  Inv s -> Rel s bs tg -> Rel (runop s o) (spec_blobs_step H bs o) (spec_tags_step bs tg o).
Proof.
  intros I [Rb Rt]. split.
  - intro d'. destruct (op_safe s o I) as (_ & _ & E & _). rewrite E.
    apply spec_blobs_ext. exact Rb.
  - unfold run_op. destruct o as [d cont man|d r|r|d| |dd|live]; cbn [op_mem spec_tags_step].
    + (* Push: the tag map does not change *)
      destruct (exists_file (sfs s) (FBlob d)); [exact Rt|].
      destruct (negb (H cont =? d)); [exact Rt|]. destruct man; exact Rt.
    + rewrite <- (Rb d). destruct (exists_file (sfs s) (FBlob d)); cbn [stags]; [|exact Rt].
      intros r' n. unfold tag_set. cbn [In]. rewrite filter_In. cbn [fst].
      destruct (r' =? r) eqn:E.
      * apply N.eqb_eq in E. subst r'. cbn. split.
        -- intros [Eq|[_ F]]; [injection Eq as <-; reflexivity|discriminate].
        -- intro Eq. injection Eq as <-. now left.
      * cbn. rewrite <- Rt. split.
        -- intros [Eq|[Hin _]]; [|exact Hin]. injection Eq as <- _. rewrite N.eqb_refl in E. discriminate.
        -- intro Hin. right. now split.
    + destruct (tag_get r (stags s)) as [x|] eqn:Eg; cbn [stags].
      * intros r' n. unfold tag_del. rewrite filter_In. cbn [fst].
        destruct (r' =? r) eqn:E; cbn.
        -- split; [intros [_ F]; discriminate|discriminate].
        -- rewrite <- Rt. tauto.
      * intros r' n. destruct (r' =? r) eqn:E.
        -- apply N.eqb_eq in E. subst r'. split; [|discriminate].
           intro Hin. exfalso. exact (tag_get_none r _ Eg n Hin).
        -- apply Rt.
    + cbn [stags]. intros r n. rewrite filter_In. cbn [snd]. rewrite Rt.
      destruct (tg r) as [m|]; [|split; [intros [F _]; discriminate|discriminate]].
      destruct (m =? d) eqn:E.
      * apply N.eqb_eq in E. subst m. split; [|discriminate].
        intros [Eq F]. injection Eq as <-. rewrite N.eqb_refl in F. discriminate.
      * split.
        -- intros [Eq _]. exact Eq.
        -- intro Eq. injection Eq as <-. split; [reflexivity|now rewrite E].
    + exact Rt.
    + destruct (exists_file (sfs s) (FBlob dd)); exact Rt.
    + exact Rt.
Qed.

Lemma rel_run h : forall s bs tg,
  Inv s -> Rel s bs tg ->
  Rel (run H shuffle false false true h s) (fst (spec_run H h bs tg)) (snd (spec_run H h bs tg)).
Proof.
  induction h as [|o h IH]; intros s bs tg I R; [exact R|].
  cbn [run fold_left spec_run]. apply IH; [now apply op_safe|now apply rel_step].
Qed.

Theorem completed_effects h :
  let s := run H shuffle false false true h init in
  let bs := fst (spec_run H h (fun _ => false) (fun _ => None)) in
  let tg := snd (spec_run H h (fun _ => false) (fun _ => None)) in
  (forall d, exists_file (sfs s) (FBlob d) = bs d) /\
  exists l, read_index (sfs s) = Some l /\ forall r n, tag_of l r n <-> tg r = Some n.
Proof.
  intros s bs tg.
  assert (R0 : Rel init (fun _ => false) (fun _ => None)).
  { split; [reflexivity|]. intros r n. cbn. split; [contradiction|discriminate]. }
  destruct (rel_run h init _ _ inv_init R0) as [Rb Rt]. fold s in Rb, Rt. fold bs in Rb. fold tg in Rt.
  split; [exact Rb|].
  destruct (agree_run h init inv_init agree_init) as (l & Hl & He). fold s in Hl, He.
  exists l. split; [exact Hl|]. intros r n. unfold tag_of. rewrite He, save_tagged. apply Rt.
Qed.

(* ---------- crash, reopen, carry on: the invariant survives ---------- *)
Definition tc_ok (c : nat) (m : mstep) : Prop :=
  forall p, touches m p -> is_temp p = true -> temp_ctr p = c.
Definition all_tc (c : nat) (ms : list mstep) : Prop := forall m, In m ms -> tc_ok c m.

Lemma all_tc_nil c : all_tc c [].
Proof. intros m []. Qed.

Lemma all_tc_cons c m ms : tc_ok c m -> all_tc c ms -> all_tc c (m :: ms).
Proof. intros Hm Hms x [<-|Hin]; [exact Hm|now apply Hms]. Qed.

Lemma all_tc_app c a e : all_tc c a -> all_tc c e -> all_tc c (a ++ e).
Proof. intros Ha He m Hin. apply in_app_or in Hin as [Hin|Hin]; [now apply Ha|now apply He]. Qed.

Lemma all_tc_mkdirs c fs d : all_tc c (mkdirs fs d).
Proof. intros m Hin p Hp. exfalso. exact (mkdirs_touch fs d m p Hin Hp). Qed.

Lemma all_tc_writes c t cont : temp_ctr t = c -> all_tc c (map (fun x => Write t (AChunk x)) cont).
Proof. intros Ht m Hin. apply in_map_iff in Hin as (x & <- & _). intros p Hp _. cbn in Hp. now subst p. Qed.

Ltac tc_step :=
  let p := fresh "p" in let Hp := fresh "Hp" in let Ht := fresh "Ht" in
  intros p Hp Ht; cbn in Hp;
  repeat match goal with Hx : _ \/ _ |- _ => destruct Hx end;
  subst; try discriminate; try contradiction; reflexivity.

Lemma all_tc_idx c tags digs : all_tc c (idx_steps c tags digs).
Proof.
  cbv beta iota delta [index_steps].
  apply all_tc_cons; [unfold tc_ok; tc_step|].
  apply all_tc_cons; [unfold tc_ok; tc_step|].
  apply all_tc_cons; [unfold tc_ok; tc_step|].
  apply all_tc_cons; [unfold tc_ok; tc_step|].
  apply all_tc_nil.
Qed.

Ltac tc_solve :=
  repeat match goal with
  | |- all_tc _ [] => apply all_tc_nil
  | |- all_tc _ (index_steps _ _ _ _ _) => apply all_tc_idx
  | |- all_tc _ (mkdirs _ _) => apply all_tc_mkdirs
  | |- all_tc _ (map _ _) => apply all_tc_writes; reflexivity
  | |- all_tc _ (_ ++ _) => apply all_tc_app
  | |- all_tc _ (_ :: _) => apply all_tc_cons
  | |- tc_ok _ _ => unfold tc_ok; tc_step
  end.

Lemma op_steps_tc s o : all_tc (sctr s) (steps s o).
Proof.
  unfold op_steps. cbv beta iota delta [auto_idx]. destruct o as [d cont man|d r|r|d| |dd|live]; cbn [op_mem].
  - destruct (exists_file (sfs s) (FBlob d)); [apply all_tc_nil|].
    destruct (H cont =? d); cbn [negb]; destruct man; tc_solve.
  - destruct (exists_file (sfs s) (FBlob d)); tc_solve.
  - destruct (tag_get r (stags s)); tc_solve.
  - destruct (existsb (fun e => snd e =? d) (stags s) || memN d (sdigs s));
      destruct (exists_file (sfs s) (FBlob d)); tc_solve.
  - tc_solve.
  - destruct (exists_file (sfs s) (FBlob dd)); tc_solve.
  - tc_solve.
Qed.

Lemma load_spec l : forall tags digs,
  (forall r n, In (r, n) tags -> In n digs) ->
  (forall r n, In (r, n) (fst (load l tags digs)) -> In n (snd (load l tags digs))) /\
  (forall n, In n (snd (load l tags digs)) -> In n digs \/ exists r, In (n, r) l) /\
  (forall n, In n digs -> In n (snd (load l tags digs))) /\
  (forall e, In e l -> In (fst e) (snd (load l tags digs))).
Proof.
  induction l as [|[n [r|]] l IH]; intros tags digs Hpre.
  - cbn. repeat split; auto. intros e [].
  - cbn [load].
    destruct (IH (tag_set r n tags) (dig_add n digs)) as (A1 & A2 & A3 & A4).
    { intros r' n' Hin. apply tag_set_In in Hin as [E|Hin].
      - injection E as -> ->. apply dig_add_self.
      - apply dig_add_incl. now apply (Hpre r'). }
    split; [exact A1|]. split; [|split].
    + intros n' Hin. apply A2 in Hin as [Hin|(r' & Hin)].
      * apply dig_add_In in Hin as [->|Hin]; [right; exists (Some r); now left|now left].
      * right. exists r'. now right.
    + intros n' Hin. apply A3. now apply dig_add_incl.
    + intros e [<-|Hin]; [apply A3; apply dig_add_self|now apply A4].
  - cbn [load].
    destruct (IH tags (dig_add n digs)) as (A1 & A2 & A3 & A4).
    { intros r' n' Hin. apply dig_add_incl. now apply (Hpre r'). }
    split; [exact A1|]. split; [|split].
    + intros n' Hin. apply A2 in Hin as [Hin|(r' & Hin)].
      * apply dig_add_In in Hin as [->|Hin]; [right; exists None; now left|now left].
      * right. exists r'. now right.
    + intros n' Hin. apply A3. now apply dig_add_incl.
    + intros e [<-|Hin]; [apply A3; apply dig_add_self|now apply A4].
Qed.

Lemma tag_set_iff r d tags r' n :
  In (r', n) (tag_set r d tags) <-> (r' = r /\ n = d) \/ (r' <> r /\ In (r', n) tags).
Proof.
  unfold tag_set. cbn [In]. rewrite filter_In. cbn [fst]. split.
  - intros [E|[Hin Hn]]; [left; injection E as <- <-; now split|right].
    apply negb_true_iff in Hn. apply N.eqb_neq in Hn. now split.
  - intros [[-> ->]|[Hn Hin]]; [now left|right]. split; [exact Hin|].
    apply negb_true_iff. now apply N.eqb_neq.
Qed.

Lemma load_fun l : forall tags digs,
  (forall r n n', In (r, n) tags -> In (r, n') tags -> n = n') ->
  forall r n n', In (r, n) (fst (load l tags digs)) -> In (r, n') (fst (load l tags digs)) -> n = n'.
Proof.
  induction l as [|[x [r0|]] l IH]; intros tags digs Hf; cbn [load]; [exact Hf| |].
  - apply IH. now apply tag_set_fun.
  - now apply IH.
Qed.

Definition hasref (r : N) (l : list entry) : bool :=
  existsb (fun e => match snd e with Some x => x =? r | None => false end) l.

Lemma hasref_true r l : hasref r l = true -> exists n, In (n, Some r) l.
Proof.
  unfold hasref. intro E. apply existsb_exists in E as ([n [x|]] & Hin & E); [|discriminate].
  cbn in E. apply N.eqb_eq in E. subst x. now exists n.
Qed.

Lemma hasref_false r l : hasref r l = false -> forall n, ~ In (n, Some r) l.
Proof.
  unfold hasref. intros E n Hin. pose proof (existsb_false _ _ E (n, Some r) Hin) as X.
  cbn in X. rewrite N.eqb_refl in X. discriminate.
Qed.

(* with one blob per reference name in the index, loadIndex yields exactly its named entries *)
Lemma load_named l : forall tags digs,
  (forall r n n', In (n, Some r) l -> In (n', Some r) l -> n = n') ->
  forall r n, In (r, n) (fst (load l tags digs)) <->
              In (n, Some r) l \/ (In (r, n) tags /\ forall n', ~ In (n', Some r) l).
Proof.
  induction l as [|[x [r0|]] l IH]; intros tags digs Hf r n; cbn [load].
  - cbn. split; [intro Hin; right; split; [exact Hin|intros n' []]|intros [[]|[Hin _]]; exact Hin].
  - assert (Hf' : forall r n n', In (n, Some r) l -> In (n', Some r) l -> n = n').
    { intros r1 n1 n2 H1 H2. apply (Hf r1); now right. }
    rewrite (IH (tag_set r0 x tags) (dig_add x digs) Hf' r n). rewrite tag_set_iff. split.
    + intros [Hin|[[[-> ->]|[Hn Hin]] Hno]].
      * left. now right.
      * left. now left.
      * right. split; [exact Hin|]. intros n' [E|Hin']; [injection E as _ E; congruence|exact (Hno n' Hin')].
    + intros [[E|Hin]|[Hin Hno]].
      * injection E as <- <-. destruct (hasref r0 l) eqn:Hr.
        -- apply hasref_true in Hr as (n' & Hin'). left.
           assert (n' = x) by (apply (Hf r0); [now right|now left]). now subst n'.
        -- right. split; [left; now split|]. now apply hasref_false.
      * left. exact Hin.
      * right. split.
        -- right. split; [|exact Hin]. intros ->. apply (Hno x). now left.
        -- intros n' Hin'. apply (Hno n'). now right.
  - assert (Hf' : forall r n n', In (n, Some r) l -> In (n', Some r) l -> n = n').
    { intros r1 n1 n2 H1 H2. apply (Hf r1); now right. }
    rewrite (IH tags (dig_add x digs) Hf' r n). split.
    + intros [Hin|[Hin Hno]]; [left; now right|right; split; [exact Hin|]].
      intros n' [E|Hin']; [discriminate|exact (Hno n' Hin')].
    + intros [[E|Hin]|[Hin Hno]]; [discriminate|now left|right; split; [exact Hin|]].
      intros n' Hin'. apply (Hno n'). now right.
Qed.

Lemma reopen_inv s o k :
  Inv s -> Inv (reopen (crash_fs H shuffle false false true s o k) (S (sctr s))).
Proof.
  intro I. destruct (op_safe s o I) as (I1 & _ & _ & R).
  destruct (R k) as (L & B & (l & Hl & He) & RI & _).
  assert (Hfl : forall r n n', In (n, Some r) l -> In (n', Some r) l -> n = n').
  { destruct RI as [RI|RI]; rewrite Hl in RI.
    - destruct (inv_named s I) as (l0 & Hl0 & Hn0). rewrite Hl0 in RI. injection RI as <-.
      intros r n n' H1 H2. apply Hn0 in H1, H2. exact (inv_fun s I r n n' H1 H2).
    - destruct (inv_named _ I1) as (l1 & Hl1 & Hn1). rewrite Hl1 in RI. injection RI as <-.
      intros r n n' H1 H2. apply Hn1 in H1, H2. exact (inv_fun _ I1 r n n' H1 H2). }
  set (fsk := crash_fs H shuffle false false true s o k) in *.
  unfold reopen. rewrite Hl.
  destruct (load_spec l [] []) as (A1 & A2 & _ & A4); [intros r n []|].
  constructor; cbn [sfs stags sdigs sctr].
  - exact L.
  - exact B.
  - exact A1.
  - intros n Hin. apply A2 in Hin as [[]|(r & Hin)]. exact (He (n, r) Hin).
  - intros p Hp Hq. unfold fsk, crash_fs. rewrite apply_frame.
    + apply (inv_temp s I p Hp). lia.
    + intros m Hin Ht. apply In_firstn in Hin.
      pose proof (op_steps_tc s o m Hin p Ht Hp) as E. lia.
  - exists l. split; [exact Hl|exact A4].
  - apply load_fun. intros r n n' [].
  - exists l. split; [exact Hl|]. intros r n. rewrite (load_named l [] [] Hfl r n).
    split; [intro Hin; now left|intros [Hin|[[] _]]; exact Hin].
Qed.

Lemma inv_run_hop s x : Inv s -> Inv (run_hop H shuffle false false true s x).
Proof. intro I. destruct x as [o|o k]; cbn [run_hop]; [now apply op_safe|now apply reopen_inv]. Qed.

Lemma inv_runc h : forall s, Inv s -> Inv (runc H shuffle false false true h s).
Proof.
  induction h as [|x h IH]; intros s I; [exact I|].
  cbn [runc fold_left]. apply IH. now apply inv_run_hop.
Qed.

(* after any history in which operations completed or were interrupted at any cut (the
   store being reopened after each crash), the next operation is crash-safe again *)
Theorem crash_safe_recovered (h : list hop) o k :
  let s := runc H shuffle false false true h init in
  Recoverable H (sfs s) (crash_fs H shuffle false false true s o k) (sfs (run_op H shuffle false false true s o)).
Proof. intro s. apply op_safe. apply inv_runc. apply inv_init. Qed.

(* ---------- nothing that stays is ever written in place ---------- *)
(* create / truncate / write / chmod only ever target temporaries: the files a reader
   looks at (oci-layout, index.json, blobs/) change by rename or unlink alone, so the
   granularity of write(2) (torn or partial writes) cannot matter *)
Definition in_place_free (m : mstep) : Prop :=
  match m with
  | Create p | OpenTrunc p | Write p _ | Chmod p => is_temp p = true
  | _ => True
  end.
Definition all_ipf (ms : list mstep) : Prop := forall m, In m ms -> in_place_free m.

Lemma all_ipf_nil : all_ipf [].
Proof. intros m []. Qed.
Lemma all_ipf_cons m ms : in_place_free m -> all_ipf ms -> all_ipf (m :: ms).
Proof. intros Hm Hms x [<-|Hin]; [exact Hm|now apply Hms]. Qed.
Lemma all_ipf_app a e : all_ipf a -> all_ipf e -> all_ipf (a ++ e).
Proof. intros Ha He m Hin. apply in_app_or in Hin as [Hin|Hin]; [now apply Ha|now apply He]. Qed.
Lemma all_ipf_mkdirs fs d : all_ipf (mkdirs fs d).
Proof.
  unfold mkdirs. intros m Hin. apply in_app_or in Hin.
  destruct (dirs fs (DAlg (alg_of d))), (dirs fs DIngest); cbn in Hin;
    destruct Hin as [Hin|Hin]; try contradiction; destruct Hin as [<-|[]]; exact I.
Qed.
Lemma all_ipf_writes t cont : is_temp t = true -> all_ipf (map (fun x => Write t (AChunk x)) cont).
Proof. intros Ht m Hin. apply in_map_iff in Hin as (x & <- & _). exact Ht. Qed.
Lemma all_ipf_idx c tags digs : all_ipf (idx_steps c tags digs).
Proof.
  cbv beta iota delta [index_steps].
  repeat (apply all_ipf_cons; [cbn; auto|]). apply all_ipf_nil.
Qed.

Ltac ipf_solve :=
  repeat match goal with
  | |- all_ipf [] => apply all_ipf_nil
  | |- all_ipf (index_steps _ _ _ _ _) => apply all_ipf_idx
  | |- all_ipf (mkdirs _ _) => apply all_ipf_mkdirs
  | |- all_ipf (map _ _) => apply all_ipf_writes; reflexivity
  | |- all_ipf (_ ++ _) => apply all_ipf_app
  | |- all_ipf (_ :: _) => apply all_ipf_cons
  | |- in_place_free _ => cbn; auto
  end.

Theorem no_in_place_write s o : all_ipf (steps s o).
Proof.
  unfold op_steps. cbv beta iota delta [auto_idx]. destruct o as [d cont man|d r|r|d| |dd|live]; cbn [op_mem].
  - destruct (exists_file (sfs s) (FBlob d)); [apply all_ipf_nil|].
    destruct (H cont =? d); cbn [negb]; destruct man; ipf_solve.
  - destruct (exists_file (sfs s) (FBlob d)); ipf_solve.
  - destruct (tag_get r (stags s)); ipf_solve.
  - destruct (existsb (fun e => snd e =? d) (stags s) || memN d (sdigs s));
      destruct (exists_file (sfs s) (FBlob d)); ipf_solve.
  - ipf_solve.
  - destruct (exists_file (sfs s) (FBlob dd)); ipf_solve.
  - ipf_solve.
Qed.

(* ---------- one API call = several primitive operations in a row (Delete+AutoGC, GC) ---------- *)
(* a cut of the concatenated micro-steps is a cut of ONE of the primitives, taken in the
   quiescent state the earlier primitives of the same call left behind *)
Lemma sfs_run_op s o : sfs (runop s o) = apply (steps s o) (sfs s).
Proof. unfold run_op. destruct (op_mem H s o). reflexivity. Qed.

Lemma seq_cut os : forall s k,
  (exists pre o post k',
     os = pre ++ o :: post /\
     crash_seq H shuffle false false true s os k
       = crash_fs H shuffle false false true (run H shuffle false false true pre s) o k') \/
  crash_seq H shuffle false false true s os k = sfs (run H shuffle false false true os s).
Proof.
  induction os as [|o os IH]; intros s k.
  - right. unfold crash_seq. cbn. now rewrite firstn_nil.
  - unfold crash_seq. cbn [steps_seq].
    destruct (firstn_app_cases k (steps s o) (steps_seq H shuffle false false true (runop s o) os)) as [[E _]|(k' & E)].
    + left. exists [], o, os, k. split; [reflexivity|]. rewrite E. reflexivity.
    + rewrite E, apply_app.
      rewrite <- sfs_run_op.
      destruct (IH (runop s o) k') as [(pre & o' & post & k'' & Eq & Ec)|Ef].
      * left. exists (o :: pre), o', post, k''. split; [now rewrite Eq|].
        unfold crash_seq in Ec. rewrite Ec. reflexivity.
      * right. unfold crash_seq in Ef. rewrite Ef. reflexivity.
Qed.

Lemma inv_runc_app (h : list hop) pre :
  Inv (run H shuffle false false true pre (runc H shuffle false false true h init)).
Proof. apply inv_run. apply inv_runc. apply inv_init. Qed.

(* every cut of a composite call, after any history with earlier crashes: the directory is
   a crash state of one primitive [o] of the call, between the quiescent states before and
   after [o]; both are reached by completed primitives only *)
Theorem crash_safe_composite (h : list hop) (os : list op) k :
  let s := runc H shuffle false false true h init in
  let fsk := crash_seq H shuffle false false true s os k in
  (exists pre o post,
     os = pre ++ o :: post /\
     let sj := run H shuffle false false true pre s in
     Recoverable H (sfs sj) fsk (sfs (run_op H shuffle false false true sj o))) \/
  (fsk = sfs (run H shuffle false false true os s) /\ Good fsk).
Proof.
  intros s fsk. destruct (seq_cut os s k) as [(pre & o & post & k' & Eq & Ec)|Ef].
  - left. exists pre, o, post. split; [exact Eq|]. cbn zeta. unfold fsk. rewrite Ec.
    apply op_safe. apply inv_runc_app.
  - right. split; [exact Ef|]. unfold fsk. rewrite Ef. apply inv_good.
    exact (inv_runc_app h os).
Qed.

(* whatever the cut of a composite call: the static part of the property *)
Corollary crash_composite_good (h : list hop) (os : list op) k :
  Good (crash_seq H shuffle false false true (runc H shuffle false false true h init) os k).
Proof.
  destruct (crash_safe_composite h os k) as [(pre & o & post & _ & (L & B & Ix & _))|[_ G]].
  - exact (conj L (conj B Ix)).
  - exact G.
Qed.

(* ---------- initialisation: a crash during the first oci.New is repaired by the next one ---------- *)
Lemma shuffle_nil c : shuffle c [] = [].
Proof.
  destruct (shuffle c []) as [|e l] eqn:E; [reflexivity|]. exfalso.
  apply (shuffle_In c [] e). rewrite E. now left.
Qed.

Lemma new_steps_eq li fs c :
  new_steps shuffle false li fs c =
  (if dirs fs DBlobs then [] else [Mkdir DBlobs]) ++
  (if exists_file fs FLayout then [] else layout_steps li c) ++
  (if exists_file fs FIndex then []
   else [Create (FIndexTmp c); Write (FIndexTmp c) (AIndex []); Close (FIndexTmp c);
         Rename (FIndexTmp c) FIndex]).
Proof. unfold new_steps, index_steps. cbn [save map filter app]. now rewrite shuffle_nil. Qed.

(* ---------- initialisation interrupted any number of times ---------- *)
Section AtomicWrite.
Variables (t q : fpath) (a : atom) (fs : FS).
Hypothesis Htq : t <> q.
Hypothesis Hnone : files fs t = None.
Let aw := [Create t; Write t a; Close t; Rename t q].

Lemma aw_final :
  files (apply aw fs) q = Some (mkFile [a] false) /\ files (apply aw fs) t = None /\
  forall p, p <> q -> p <> t -> files (apply aw fs) p = files fs p.
Proof.
  unfold aw, apply. cbn [fold_left apply1]. rewrite Hnone.
  cbn [files]. rewrite upd_same. cbn [files fcontent fro app]. rewrite upd_same.
  cbn [files]. split; [|split].
  - rewrite upd_other by (intro E; apply Htq; now symmetry). apply upd_same.
  - apply upd_same.
  - intros p H1 H2. now rewrite !upd_other by assumption.
Qed.

Lemma aw_prefix k p : (k < 4)%nat -> p <> t -> files (apply (firstn k aw) fs) p = files fs p.
Proof.
  intros Hk Hp. apply apply_frame. intros m Hin.
  assert (Hm : In m [Create t; Write t a; Close t]).
  { unfold aw in Hin. destruct k as [|[|[|[|k]]]]; try lia; cbn in Hin; cbn; tauto. }
  cbn in Hm. intro Ht.
  destruct Hm as [<-|[<-|[<-|[]]]]; cbn in Ht; try contradiction; now subst p.
Qed.

Lemma aw_all k : (4 <= k)%nat -> firstn k aw = aw.
Proof. intro Hk. apply firstn_all2. unfold aw. simpl. lia. Qed.
End AtomicWrite.

(* a directory in the middle of (re-)initialisation: no blobs yet; oci-layout and index.json
   each absent or complete; temporaries of future attempts do not exist *)
Definition InitOK (fs : FS) (c : nat) : Prop :=
  (forall d, files fs (FBlob d) = None) /\
  (files fs FLayout = None \/ files fs FLayout = Some (mkFile [ALayout] false)) /\
  (files fs FIndex = None \/ files fs FIndex = Some (mkFile [AIndex []] false)) /\
  (forall p, is_temp p = true -> (c <= temp_ctr p)%nat -> files fs p = None).

Lemma initok_new_ok fs c : InitOK fs c -> new_okb fs = true.
Proof.
  intros (_ & [L|L] & [X|X] & _); unfold new_okb, exists_file, layout_okb, read_index; rewrite L, X; reflexivity.
Qed.

Definition lay_part (fs : FS) (c : nat) : list mstep :=
  if exists_file fs FLayout then [] else layout_steps false c.
Definition idx_part (fs : FS) (c : nat) : list mstep :=
  if exists_file fs FIndex then []
  else [Create (FIndexTmp c); Write (FIndexTmp c) (AIndex []); Close (FIndexTmp c); Rename (FIndexTmp c) FIndex].

(* one attempt, cut anywhere (or completed): still a directory in the middle of initialisation *)
Lemma initok_piece fs c (t q : fpath) (a : atom) (piece : list mstep) k :
  InitOK fs c -> is_temp t = true -> temp_ctr t = c -> (q = FLayout /\ a = ALayout \/ q = FIndex /\ a = AIndex []) ->
  (piece = [] /\ files fs q <> None \/ piece = [Create t; Write t a; Close t; Rename t q] /\ files fs q = None) ->
  let fs' := apply (firstn k piece) fs in
  (forall d, files fs' (FBlob d) = None) /\
  (files fs' FLayout = None \/ files fs' FLayout = Some (mkFile [ALayout] false)) /\
  (files fs' FIndex = None \/ files fs' FIndex = Some (mkFile [AIndex []] false)) /\
  (forall p, is_temp p = true -> (S c <= temp_ctr p)%nat -> files fs' p = None) /\
  ((4 <= k)%nat -> files fs' q <> None) /\
  (forall p, is_temp p = true -> (c <= temp_ctr p)%nat -> p <> t -> files fs' p = None) /\
  ((4 <= k)%nat -> files fs' t = None) /\
  (forall p, p <> q -> p <> t -> files fs' p = files fs p).
Proof.
  intros (B & L & X & T) Ht Hc Hq [[-> Hex]|[-> Hn]] fs'.
  - unfold fs'. rewrite firstn_nil. cbn [apply fold_left].
    repeat split; auto. intros p Hp Hk. apply T; [exact Hp|lia].
    intros _. apply T; [exact Ht|lia].
  - assert (Htq : t <> q) by (destruct Hq as [[-> _]|[-> _]]; intros ->; discriminate).
    assert (Hnt : files fs t = None) by (apply T; [exact Ht|lia]).
    assert (NT : forall p, is_temp p = false -> p <> t) by (intros p Hp ->; rewrite Ht in Hp; discriminate).
    destruct (Nat.lt_ge_cases k 4) as [Hk|Hk].
    + assert (F : forall p, p <> t -> files fs' p = files fs p) by (intros p Hp; now apply aw_prefix).
      repeat split.
      * intro d. rewrite F by (now apply NT). apply B.
      * rewrite F by (now apply NT). exact L.
      * rewrite F by (now apply NT). exact X.
      * intros p Hp Hk'. rewrite F; [apply T; [exact Hp|lia]|]. intros ->. lia.
      * lia.
      * intros p Hp Hk' Hne. rewrite F by exact Hne. now apply T.
      * lia.
      * intros p _ Hne. now apply F.
    + unfold fs'. rewrite aw_all by exact Hk.
      destruct (aw_final t q a fs Htq Hnt) as (F1 & F2 & F3).
      repeat split.
      * intro d. rewrite F3; [apply B| |now apply NT]. destruct Hq as [[-> _]|[-> _]]; discriminate.
      * destruct Hq as [[-> ->]|[-> _]]; [right; exact F1|]. rewrite F3; [exact L|discriminate|now apply NT].
      * destruct Hq as [[-> _]|[-> ->]]; [|right; exact F1]. rewrite F3; [exact X|discriminate|now apply NT].
      * intros p Hp Hk'. rewrite F3; [apply T; [exact Hp|lia]| |].
        -- destruct Hq as [[-> _]|[-> _]]; intros ->; discriminate.
        -- intros ->. lia.
      * intros _. rewrite F1. discriminate.
      * intros p Hp Hk' Hne. rewrite F3; [now apply T| |exact Hne].
        destruct Hq as [[-> _]|[-> _]]; intros ->; discriminate.
      * intros _. exact F2.
      * exact F3.
Qed.

Lemma initok_files_eq fs fs' c : (forall p, files fs' p = files fs p) -> InitOK fs c -> InitOK fs' c.
Proof.
  intros E (B & L & X & T). unfold InitOK. rewrite !E. repeat split; auto.
  - intro d. rewrite E. apply B.
  - intros p Hp Hk. rewrite E. now apply T.
Qed.

Lemma mkdir_part_files fs k p :
  files (apply (firstn k (if dirs fs DBlobs then [] else [Mkdir DBlobs])) fs) p = files fs p.
Proof.
  apply apply_frame. intros m Hin Ht. apply In_firstn in Hin.
  destruct (dirs fs DBlobs); [destruct Hin|]. destruct Hin as [<-|[]]. exact Ht.
Qed.

(* one attempt of oci.New on a directory in the middle of initialisation, cut anywhere *)
Theorem init_attempt fs c k :
  InitOK fs c -> InitOK (apply (firstn k (new_steps shuffle false false fs c)) fs) (S c).
Proof.
  intro I0. rewrite new_steps_eq.
  set (A := if dirs fs DBlobs then [] else [Mkdir DBlobs]).
  set (Lp := if exists_file fs FLayout then [] else layout_steps false c).
  set (Xp := if exists_file fs FIndex then []
             else [Create (FIndexTmp c); Write (FIndexTmp c) (AIndex []); Close (FIndexTmp c);
                   Rename (FIndexTmp c) FIndex]).
  assert (Up : forall fs0 c0, InitOK fs0 c0 -> InitOK fs0 (S c0)).
  { intros fs0 c0 (B & L & X & T). repeat split; auto. intros p Hp Hk. apply T; [exact Hp|lia]. }
  destruct (firstn_app_cases k A (Lp ++ Xp)) as [[E _]|(k1 & E)]; rewrite E.
  - apply Up. apply (initok_files_eq fs); [|exact I0]. intro p. apply mkdir_part_files.
  - rewrite apply_app. set (fsA := apply A fs).
    assert (FA : forall p, files fsA p = files fs p).
    { intro p. unfold fsA, A. rewrite <- (firstn_all (if dirs fs DBlobs then [] else [Mkdir DBlobs])).
      apply mkdir_part_files. }
    assert (IA : InitOK fsA c) by (apply (initok_files_eq fs); assumption).
    assert (HL : Lp = [] /\ files fsA FLayout <> None \/
                 Lp = [Create (FLayoutTmp c); Write (FLayoutTmp c) ALayout; Close (FLayoutTmp c);
                       Rename (FLayoutTmp c) FLayout] /\ files fsA FLayout = None).
    { unfold Lp, exists_file. rewrite FA. destruct (files fs FLayout); [left; split; [reflexivity|discriminate]|right; now split]. }
    assert (HX0 : forall fsL, files fsL FIndex = files fs FIndex ->
                 Xp = [] /\ files fsL FIndex <> None \/
                 Xp = [Create (FIndexTmp c); Write (FIndexTmp c) (AIndex []); Close (FIndexTmp c);
                       Rename (FIndexTmp c) FIndex] /\ files fsL FIndex = None).
    { intros fsL EL. unfold Xp, exists_file. rewrite EL.
      destruct (files fs FIndex); [left; split; [reflexivity|discriminate]|right; now split]. }
    destruct (firstn_app_cases k1 Lp Xp) as [[E1 Hle]|(k2 & E1)]; rewrite E1.
    + (* inside the write of oci-layout *)
      destruct (initok_piece fsA c (FLayoutTmp c) FLayout ALayout Lp k1 IA eq_refl eq_refl
                  (or_introl (conj eq_refl eq_refl)) HL) as (P1 & P2 & P3 & P4 & _).
      repeat split; assumption.
    + (* oci-layout is in place; inside the write of index.json *)
      rewrite apply_app. set (fsL := apply Lp fsA).
      destruct (initok_piece fsA c (FLayoutTmp c) FLayout ALayout Lp (length Lp + 4) IA eq_refl eq_refl
                  (or_introl (conj eq_refl eq_refl)) HL) as (P1 & P2 & P3 & _ & _ & P6 & P7 & P8).
      rewrite firstn_all2 in P1, P2, P3, P6, P7, P8 by lia. fold fsL in P1, P2, P3, P6, P7, P8.
      assert (IL : InitOK fsL c).
      { repeat split; try assumption. intros p Hp Hk.
        destruct (fpath_eqb p (FLayoutTmp c)) eqn:Ep.
        - apply fpath_eqb_spec in Ep. subst p. apply P7. lia.
        - apply P6; [exact Hp|exact Hk|]. intros ->. rewrite fpath_eqb_refl in Ep. discriminate. }
      assert (EL : files fsL FIndex = files fs FIndex).
      { rewrite P8 by discriminate. apply FA. }
      destruct (initok_piece fsL c (FIndexTmp c) FIndex (AIndex []) Xp k2 IL eq_refl eq_refl
                  (or_intror (conj eq_refl eq_refl)) (HX0 fsL EL)) as (Q1 & Q2 & Q3 & Q4 & _).
      repeat split; assumption.
Qed.

(* ... and an attempt that runs to completion gives the initialised layout *)
Theorem init_complete fs c :
  InitOK fs c ->
  let fs' := apply (new_steps shuffle false false fs c) fs in
  files fs' FLayout = Some (mkFile [ALayout] false) /\
  files fs' FIndex = Some (mkFile [AIndex []] false) /\
  (forall d, files fs' (FBlob d) = None) /\ dirs fs' DBlobs = true.
Proof.
  intros I0 fs'.
  (* the completed attempt is the cut at the end *)
  pose proof (init_attempt fs c (length (new_steps shuffle false false fs c)) I0) as IE.
  rewrite firstn_all in IE. fold fs' in IE. destruct IE as (B & _ & _ & _).
  unfold fs'. rewrite new_steps_eq.
  set (A := if dirs fs DBlobs then [] else [Mkdir DBlobs]).
  set (Lp := if exists_file fs FLayout then [] else layout_steps false c).
  set (Xp := if exists_file fs FIndex then []
             else [Create (FIndexTmp c); Write (FIndexTmp c) (AIndex []); Close (FIndexTmp c);
                   Rename (FIndexTmp c) FIndex]).
  rewrite !apply_app. set (fsA := apply A fs).
  assert (FA : forall p, files fsA p = files fs p).
  { intro p. unfold fsA, A. rewrite <- (firstn_all (if dirs fs DBlobs then [] else [Mkdir DBlobs])).
    apply mkdir_part_files. }
  assert (DA : dirs fsA DBlobs = true).
  { unfold fsA, A. destruct (dirs fs DBlobs) eqn:Ed; [exact Ed|reflexivity]. }
  assert (IA : InitOK fsA c) by (apply (initok_files_eq fs); assumption).
  assert (HL : Lp = [] /\ files fsA FLayout <> None \/
               Lp = [Create (FLayoutTmp c); Write (FLayoutTmp c) ALayout; Close (FLayoutTmp c);
                     Rename (FLayoutTmp c) FLayout] /\ files fsA FLayout = None).
  { unfold Lp, exists_file. rewrite FA. destruct (files fs FLayout); [left; split; [reflexivity|discriminate]|right; now split]. }
  destruct (initok_piece fsA c (FLayoutTmp c) FLayout ALayout Lp (length Lp + 4) IA eq_refl eq_refl
              (or_introl (conj eq_refl eq_refl)) HL) as (P1 & P2 & P3 & _ & P5 & P6 & P7 & P8).
  rewrite firstn_all2 in P1, P2, P3, P5, P6, P7, P8 by lia. set (fsL := apply Lp fsA) in *.
  assert (IL : InitOK fsL c).
  { repeat split; try assumption. intros p Hp Hk.
    destruct (fpath_eqb p (FLayoutTmp c)) eqn:Ep.
    - apply fpath_eqb_spec in Ep. subst p. apply P7. lia.
    - apply P6; [exact Hp|exact Hk|]. intros ->. rewrite fpath_eqb_refl in Ep. discriminate. }
  assert (HX : Xp = [] /\ files fsL FIndex <> None \/
               Xp = [Create (FIndexTmp c); Write (FIndexTmp c) (AIndex []); Close (FIndexTmp c);
                     Rename (FIndexTmp c) FIndex] /\ files fsL FIndex = None).
  { unfold Xp, exists_file. assert (EL : files fsL FIndex = files fs FIndex) by (rewrite P8 by discriminate; apply FA).
    rewrite EL. destruct (files fs FIndex); [left; split; [reflexivity|discriminate]|right; now split]. }
  destruct (initok_piece fsL c (FIndexTmp c) FIndex (AIndex []) Xp (length Xp + 4) IL eq_refl eq_refl
              (or_intror (conj eq_refl eq_refl)) HX) as (Q1 & Q2 & Q3 & _ & Q5 & _ & _ & Q8).
  rewrite firstn_all2 in Q1, Q2, Q3, Q5, Q8 by lia. set (fsX := apply Xp fsL) in *.
  assert (LL : files fsL FLayout <> None) by (apply P5; lia).
  assert (XX : files fsX FIndex <> None) by (apply Q5; lia).
  split; [|split; [|split]].
  - rewrite Q8 by discriminate. destruct P2 as [P2|P2]; [contradiction|exact P2].
  - destruct Q3 as [Q3|Q3]; [contradiction|exact Q3].
  - exact Q1.
  - (* directories: only Mkdir changes them *)
    assert (DD : forall ms fs0, (forall m, In m ms -> forall d, m <> Mkdir d) -> dirs (apply ms fs0) = dirs fs0).
    { induction ms as [|m ms IH]; intros fs0 Hm; [reflexivity|].
      rewrite apply_cons, IH by (intros m' Hin; apply Hm; now right).
      assert (Hm0 := Hm m (or_introl eq_refl)).
      destruct m; cbn; try reflexivity; try (destruct (files fs0 _); reflexivity).
      exfalso. exact (Hm0 d eq_refl). }
    unfold fsX, fsL. rewrite !DD; [exact DA| |].
    + intros m Hin d. destruct HL as [[-> _]|[-> _]]; [destruct Hin|].
      destruct Hin as [<-|[<-|[<-|[<-|[]]]]]; discriminate.
    + intros m Hin d. destruct HX as [[-> _]|[-> _]]; [destruct Hin|].
      destruct Hin as [<-|[<-|[<-|[<-|[]]]]]; discriminate.
Qed.

(* any number of interrupted attempts: the directory never makes oci.New fail, and the first
   attempt that completes gives the initialised layout *)
Lemma initok_empty : InitOK empty_fs 0.
Proof. repeat split; auto. Qed.

Theorem init_restartable_many ks :
  let fs := fst (init_attempts shuffle false false ks empty_fs 0) in
  let c := snd (init_attempts shuffle false false ks empty_fs 0) in
  let fs' := apply (new_steps shuffle false false fs c) fs in
  new_okb fs = true /\
  files fs' FLayout = Some (mkFile [ALayout] false) /\
  files fs' FIndex = Some (mkFile [AIndex []] false) /\
  (forall d, files fs' (FBlob d) = None) /\ dirs fs' DBlobs = true.
Proof.
  assert (G : forall ks fs c, InitOK fs c ->
              InitOK (fst (init_attempts shuffle false false ks fs c)) (snd (init_attempts shuffle false false ks fs c))).
  { induction ks0 as [|k ks0 IH]; intros fs c I0; [exact I0|].
    cbn [init_attempts]. apply IH. now apply init_attempt. }
  intros fs c fs'. pose proof (G ks empty_fs 0%nat initok_empty) as IK. fold fs c in IK.
  split; [exact (initok_new_ok fs c IK)|]. exact (init_complete fs c IK).
Qed.

(* the first New is cut anywhere; the second New runs to completion *)
Theorem init_restartable k :
  let fsk := apply (firstn k (new_steps shuffle false false empty_fs 0)) empty_fs in
  let fs2 := apply (new_steps shuffle false false fsk 1) fsk in
  new_okb fsk = true /\
  layout_okb fs2 = true /\ read_index fs2 = Some [] /\ dirs fs2 DBlobs = true /\
  forall d, files fs2 (FBlob d) = None.
Proof.
  cbn zeta. rewrite !new_steps_eq.
  do 9 (destruct k as [|k]; [vm_compute; repeat split; reflexivity|]).
  destruct k; vm_compute; repeat split; reflexivity.
Qed.

(* ---------- calls that only remove (Delete cascades, GC): blobs lie between start and end ---------- *)
Definition shrinking (o : op) : Prop :=
  match o with Delete _ | Forget _ | SaveIndex => True | _ => False end.

Lemma shrinking_step s o d :
  Inv s -> shrinking o -> has (sfs (runop s o)) (FBlob d) -> has (sfs s) (FBlob d).
Proof.
  intros I Ho Hh. destruct (op_safe s o I) as (_ & _ & E & _).
  assert (X : exists_file (sfs (runop s o)) (FBlob d) = true).
  { unfold exists_file, has in *. destruct (files (sfs (runop s o)) (FBlob d)); [reflexivity|contradiction]. }
  rewrite E in X. apply exists_file_true.
  destruct o; try contradiction; cbn in X; try exact X.
  destruct (d =? d0); [discriminate|exact X].
Qed.

Lemma shrinking_run os : forall s d,
  Inv s -> (forall o, In o os -> shrinking o) ->
  has (sfs (run H shuffle false false true os s)) (FBlob d) -> has (sfs s) (FBlob d).
Proof.
  induction os as [|o os IH]; intros s d I Hs Hh; [exact Hh|].
  cbn [run fold_left] in Hh.
  apply (shrinking_step s o d I (Hs o (or_introl eq_refl))).
  apply IH; [now apply op_safe|intros o' Hin; apply Hs; now right|exact Hh].
Qed.

Theorem crash_shrinking_between (h : list hop) (os : list op) k :
  (forall o, In o os -> shrinking o) ->
  let s := runc H shuffle false false true h init in
  let fsk := crash_seq H shuffle false false true s os k in
  let fs1 := sfs (run H shuffle false false true os s) in
  (forall d, has (sfs s) (FBlob d) -> has fs1 (FBlob d) -> has fsk (FBlob d)) /\
  (forall d, has fsk (FBlob d) -> has (sfs s) (FBlob d)).
Proof.
  intros Hs s fsk fs1. subst fsk fs1.
  assert (I : Inv s) by (apply inv_runc; apply inv_init).
  pose proof (crash_safe_composite h os k) as C. cbn zeta in C. fold s in C.
  set (fsk := crash_seq H shuffle false false true s os k) in *.
  set (fs1 := sfs (run H shuffle false false true os s)) in *.
  destruct C as [(pre & o & post & Eq & R)|[Ef _]].
  - cbn zeta in R.
    set (sj := run H shuffle false false true pre s) in *.
    assert (Ij : Inv sj) by (apply inv_run; exact I).
    assert (Hpre : forall o', In o' pre -> shrinking o').
    { intros o' Hin. apply Hs. rewrite Eq. apply in_or_app. now left. }
    assert (Ho : shrinking o). { apply Hs. rewrite Eq. apply in_or_app. right. now left. }
    assert (Hpost : forall o', In o' post -> shrinking o').
    { intros o' Hin. apply Hs. rewrite Eq. apply in_or_app. right. now right. }
    assert (E1 : fs1 = sfs (run H shuffle false false true post (runop sj o))).
    { unfold fs1. rewrite Eq. unfold run. rewrite fold_left_app. reflexivity. }
    destruct R as (_ & _ & _ & _ & P1 & P2). split.
    + intros d H0 H1. apply P1.
      * (* present at the end => present at every earlier quiescent state *)
        rewrite E1 in H1.
        apply (shrinking_step sj o d Ij Ho).
        apply (shrinking_run post (runop sj o) d); [now apply op_safe|exact Hpost|exact H1].
      * rewrite E1 in H1.
        apply (shrinking_run post (runop sj o) d); [now apply op_safe|exact Hpost|exact H1].
    + intros d Hk. apply P2 in Hk as [Hk|Hk].
      * apply (shrinking_run pre s d I Hpre Hk).
      * apply (shrinking_run pre s d I Hpre). apply (shrinking_step sj o d Ij Ho Hk).
  - split.
    + intros d _ H1. rewrite Ef. exact H1.
    + intros d Hk. rewrite Ef in Hk. apply (shrinking_run os s d I Hs Hk).
Qed.

(* ---------- Delete with AutoGC: the tag mapping is the one before or the one after the call ---------- *)
Lemma same_tags_of_inv s s' :
  Inv s -> Inv s' -> (forall r n, In (r, n) (stags s) <-> In (r, n) (stags s')) ->
  same_tags (sfs s) (sfs s').
Proof.
  intros I I' E. destruct (inv_named s I) as (l & Hl & Hn). destruct (inv_named s' I') as (l' & Hl' & Hn').
  exists l, l'. split; [exact Hl|split; [exact Hl'|]]. intros r n. unfold tag_of.
  rewrite Hn, Hn'. apply E.
Qed.

Lemma same_tags_trans a c e : same_tags a c -> same_tags c e -> same_tags a e.
Proof.
  intros (l1 & l2 & H1 & H2 & E1) (l2' & l3 & H2' & H3 & E2).
  rewrite H2 in H2'. injection H2' as <-.
  exists l1, l3. split; [exact H1|split; [exact H3|]]. intros r n. rewrite E1. apply E2.
Qed.

Definition untagged_delete (tags : list (N * N)) (o : op) : Prop :=
  exists x, o = Delete x /\ forall r, ~ In (r, x) tags.

Lemma untagged_delete_tags s o : untagged_delete (stags s) o -> stags (runop s o) = stags s.
Proof.
  intros (x & -> & Hx). unfold run_op. cbn [op_mem stags].
  apply filter_all_true. intros [r n] Hin. cbn. apply negb_true_iff. apply N.eqb_neq.
  intros ->. exact (Hx r Hin).
Qed.

Lemma untagged_deletes_tags os : forall s,
  (forall o, In o os -> untagged_delete (stags s) o) ->
  stags (run H shuffle false false true os s) = stags s.
Proof.
  induction os as [|o os IH]; intros s Ho; [reflexivity|].
  change (run H shuffle false false true (o :: os) s) with (run H shuffle false false true os (runop s o)).
  assert (E : stags (runop s o) = stags s) by (apply untagged_delete_tags; apply Ho; now left).
  rewrite IH; [exact E|]. intros o' Hin. rewrite E. apply Ho. now right.
Qed.

Theorem cascade_tags (h : list hop) d xs k :
  let s := runc H shuffle false false true h init in
  (forall l, read_index (sfs s) = Some l -> forall x r, In x xs -> ~ tag_of l r x) ->
  let os := Delete d :: map Delete xs in
  let fsk := crash_seq H shuffle false false true s os k in
  same_tags fsk (sfs s) \/ same_tags fsk (sfs (run H shuffle false false true os s)).
Proof.
  intros s Hun os fsk.
  assert (I : Inv s) by (apply inv_runc; apply inv_init).
  set (s1 := runop s (Delete d)).
  assert (I1 : Inv s1) by (now apply op_safe).
  (* nothing in the tail of the cascade carries a name, before and after the head is deleted *)
  assert (Hun0 : forall x r, In x xs -> ~ In (r, x) (stags s)).
  { intros x r Hin Ht. destruct (inv_named s I) as (l & Hl & Hn).
    apply (Hun l Hl x r Hin). unfold tag_of. now apply Hn. }
  assert (Hun1 : forall o, In o (map Delete xs) -> untagged_delete (stags s1) o).
  { intros o Hin. apply in_map_iff in Hin as (x & <- & Hin). exists x. split; [reflexivity|].
    intros r Ht. unfold s1, run_op in Ht. cbn [op_mem stags] in Ht.
    apply filter_In in Ht as [Ht _]. exact (Hun0 x r Hin Ht). }
  assert (Hsub : forall ps, (forall o, In o ps -> In o (map Delete xs)) ->
                  stags (run H shuffle false false true ps s1) = stags s1).
  { intros ps Hps. apply untagged_deletes_tags. intros o Hin. apply Hun1. now apply Hps. }
  set (sn := run H shuffle false false true os s).
  assert (En : stags sn = stags s1).
  { unfold sn, os. cbn [run fold_left]. apply Hsub. auto. }
  assert (In_ : Inv sn) by (unfold sn; apply inv_run; exact I).
  assert (S1n : forall sj, Inv sj -> stags sj = stags s1 -> same_tags (sfs sj) (sfs sn)).
  { intros sj Ij Ej. apply same_tags_of_inv; [exact Ij|exact In_|]. intros r n. now rewrite Ej, En. }
  pose proof (crash_safe_composite h os k) as C. cbn zeta in C. fold s in C. fold fsk in C. fold sn in C.
  destruct C as [(pre & o & post & Eq & R)|[Ef G]].
  - cbn zeta in R. apply rec_same_tags in R.
    destruct pre as [|p0 pre].
    + cbn [app] in Eq. unfold os in Eq. injection Eq as <- _. cbn [run fold_left] in R. fold s1 in R.
      destruct R as [R|R]; [now left|right].
      apply (same_tags_trans _ _ _ R). apply S1n; [exact I1|reflexivity].
    + right. cbn [app] in Eq. unfold os in Eq. injection Eq as <- Eq.
      cbn [run fold_left] in R. fold s1 in R.
      assert (Hpre : forall o', In o' pre -> In o' (map Delete xs)).
      { intros o' Hin. rewrite Eq. apply in_or_app. now left. }
      assert (Ho : In o (map Delete xs)) by (rewrite Eq; apply in_or_app; right; now left).
      set (sj := run H shuffle false false true pre s1) in *.
      assert (Ij : Inv sj) by (apply inv_run; exact I1).
      assert (Ej : stags sj = stags s1) by (apply Hsub; exact Hpre).
      destruct R as [R|R]; apply (same_tags_trans _ _ _ R).
      * apply S1n; [exact Ij|exact Ej].
      * apply S1n; [now apply op_safe|].
        assert (Eo : stags (runop sj o) = stags sj).
        { apply untagged_delete_tags. rewrite Ej. now apply Hun1. }
        exact (eq_trans Eo Ej).
  - right. rewrite Ef. destruct G as (_ & _ & (l & Hl & _)). fold sn in Hl. rewrite Ef in Hl.
    exists l, l. repeat split; auto.
Qed.

(* ---------- GC: Forget, then bare removals of blob files ---------- *)
(* Go's sweep is os.Remove, not Store.delete.  Whenever the swept blob is not held by the
   tag resolver, the model's plain Delete IS that bare removal: no index write, memory
   unchanged. *)
Lemma delete_unheld_is_unlink s x :
  Inv s -> ~ In x (sdigs s) ->
  steps s (Delete x) = (if exists_file (sfs s) (FBlob x) then [Unlink (FBlob x)] else []) /\
  stags (runop s (Delete x)) = stags s /\ sdigs (runop s (Delete x)) = sdigs s.
Proof.
  intros I Hx.
  assert (Ht : forall r, ~ In (r, x) (stags s)).
  { intros r Hin. apply Hx. exact (inv_tagdig s I r x Hin). }
  assert (E1 : existsb (fun e => snd e =? x) (stags s) = false).
  { destruct (existsb (fun e => snd e =? x) (stags s)) eqn:E; [|reflexivity].
    apply existsb_exists in E as ([r n] & Hin & E). cbn in E. apply N.eqb_eq in E. subst n.
    exfalso. exact (Ht r Hin). }
  assert (E2 : memN x (sdigs s) = false).
  { unfold memN. destruct (existsb (N.eqb x) (sdigs s)) eqn:E; [|reflexivity].
    apply existsb_exists in E as (y & Hin & E). apply N.eqb_eq in E. subst y. contradiction. }
  split; [|split].
  - unfold op_steps. cbn [op_mem]. rewrite E1, E2. reflexivity.
  - unfold run_op. cbn [op_mem stags]. apply filter_all_true. intros [r n] Hin. cbn.
    apply negb_true_iff, N.eqb_neq. intros ->. exact (Ht r Hin).
  - unfold run_op. cbn [op_mem sdigs]. apply filter_all_true. intros y Hin.
    apply negb_true_iff, N.eqb_neq. intros ->. contradiction.
Qed.

Definition gc_ops (live xs : list N) : list op := Forget live :: map Delete xs.

(* the state after Forget and any number of the sweep's removals: same tags, and no
   swept blob is held by digest *)
Lemma gc_prefix_mem s live xs :
  Inv s ->
  (forall x, In x xs -> ~ In x live /\ forall r, ~ In (r, x) (stags s)) ->
  forall pre, (forall o, In o pre -> In o (map Delete xs)) ->
  let sj := run H shuffle false false true pre (runop s (Forget live)) in
  Inv sj /\ stags sj = stags s /\ forall x, In x xs -> ~ In x (sdigs sj).
Proof.
  intros I Hxs.
  set (s1 := runop s (Forget live)).
  assert (I1 : Inv s1) by (now apply op_safe).
  assert (T1 : stags s1 = stags s) by (unfold s1, run_op; reflexivity).
  assert (D1 : forall x, In x xs -> ~ In x (sdigs s1)).
  { intros x Hin Hd. unfold s1, run_op in Hd. cbn [op_mem sdigs] in Hd.
    apply filter_In in Hd as [_ Hk]. destruct (Hxs x Hin) as [Hl Ht].
    apply orb_true_iff in Hk as [Hk|Hk].
    - apply Hl. unfold memN in Hk. apply existsb_exists in Hk as (y & Hy & E).
      apply N.eqb_eq in E. now subst y.
    - apply existsb_exists in Hk as ([r n] & Hr & E). cbn in E. apply N.eqb_eq in E. subst n.
      exact (Ht r Hr). }
  intro pre. induction pre as [|o pre IH] using rev_ind; intros Hpre.
  - split; [exact I1|split; [exact T1|exact D1]].
  - cbn zeta. unfold run. rewrite fold_left_app. cbn [fold_left].
    fold (run H shuffle false false true pre s1).
    destruct IH as (Ij & Tj & Dj).
    { intros o' Hin. apply Hpre. apply in_or_app. now left. }
    set (sj := run H shuffle false false true pre s1) in *.
    assert (Ho : In o (map Delete xs)) by (apply Hpre; apply in_or_app; right; now left).
    apply in_map_iff in Ho as (x & <- & Hx).
    destruct (delete_unheld_is_unlink sj x Ij (Dj x Hx)) as (_ & Et & Ed).
    split; [now apply op_safe|]. split; [now rewrite Et|]. intros y Hy. rewrite Ed. now apply Dj.
Qed.

Theorem gc_crash_safe (h : list hop) live xs k :
  let s := runc H shuffle false false true h init in
  (forall l, read_index (sfs s) = Some l ->
     forall x, In x xs -> ~ In x live /\ forall r, ~ tag_of l r x) ->
  let os := gc_ops live xs in
  let fsk := crash_seq H shuffle false false true s os k in
  (* every removal of the sweep is a bare unlink *)
  (forall pre x post, map Delete xs = pre ++ Delete x :: post ->
     let sj := run H shuffle false false true pre (runop s (Forget live)) in
     steps sj (Delete x) = if exists_file (sfs sj) (FBlob x) then [Unlink (FBlob x)] else []) /\
  (* the tag mapping never changes *)
  same_tags fsk (sfs s) /\
  (* index.json is the one before the call or the one Forget saved *)
  (read_index fsk = read_index (sfs s) \/ read_index fsk = read_index (sfs (runop s (Forget live)))).
Proof.
  intros s Hd os fsk.
  assert (I : Inv s) by (apply inv_runc; apply inv_init).
  assert (Hxs : forall x, In x xs -> ~ In x live /\ forall r, ~ In (r, x) (stags s)).
  { intros x Hin. destruct (inv_named s I) as (l & Hl & Hn). destruct (Hd l Hl x Hin) as [A B].
    split; [exact A|]. intros r Ht. apply (B r). unfold tag_of. now apply Hn. }
  pose proof (gc_prefix_mem s live xs I Hxs) as G.
  set (s1 := runop s (Forget live)) in *.
  assert (T1 : stags s1 = stags s) by (unfold s1, run_op; reflexivity).
  split; [|split].
  - intros pre x post Eq sj.
    destruct (G pre) as (Ij & _ & Dj).
    { intros o Hin. rewrite Eq. apply in_or_app. now left. }
    apply delete_unheld_is_unlink; [exact Ij|]. apply Dj.
    assert (Hin : In (Delete x) (map Delete xs)) by (rewrite Eq; apply in_or_app; right; now left).
    apply in_map_iff in Hin as (y & Ey & Hy). injection Ey as ->. exact Hy.
  - pose proof (crash_safe_composite h os k) as C. cbn zeta in C. fold s in C. fold fsk in C.
    destruct C as [(pre & o & post & Eq & R)|[Ef Gd]].
    + cbn zeta in R. apply rec_same_tags in R.
      destruct pre as [|p0 pre].
      * cbn [app] in Eq. unfold os, gc_ops in Eq. injection Eq as <- _. cbn [run fold_left] in R. fold s1 in R.
        destruct R as [R|R]; [exact R|].
        apply (same_tags_trans _ _ _ R). apply same_tags_of_inv; [now apply op_safe|exact I|].
        intros r n. now rewrite T1.
      * cbn [app] in Eq. unfold os, gc_ops in Eq. injection Eq as <- Eq.
        cbn [run fold_left] in R. fold s1 in R.
        destruct (G pre) as (Ij & Tj & Dj).
        { intros o' Hin. rewrite Eq. apply in_or_app. now left. }
        set (sj := run H shuffle false false true pre s1) in *.
        assert (Ho : In o (map Delete xs)) by (rewrite Eq; apply in_or_app; right; now left).
        apply in_map_iff in Ho as (x & <- & Hx).
        destruct (delete_unheld_is_unlink sj x Ij (Dj x Hx)) as (_ & Et & _).
        destruct R as [R|R]; apply (same_tags_trans _ _ _ R); apply same_tags_of_inv;
          try exact I; try exact Ij; try (now apply op_safe); intros r n.
        -- change (In (r, n) (stags sj) <-> In (r, n) (stags s)). now rewrite Tj.
        -- change (In (r, n) (stags (runop sj (Delete x))) <-> In (r, n) (stags s)). now rewrite Et, Tj.
    + rewrite Ef. apply same_tags_of_inv; [apply inv_run; exact I|exact I|].
      destruct (G (map Delete xs)) as (_ & Tn & _); [auto|].
      intros r n.
      change (In (r, n) (stags (run H shuffle false false true (map Delete xs) s1)) <-> In (r, n) (stags s)).
      now rewrite Tn.
  - (* index.json changes exactly once, in Forget *)
    pose proof (crash_safe_composite h os k) as C. cbn zeta in C. fold s in C. fold fsk in C.
    assert (RI : forall pre, (forall o, In o pre -> In o (map Delete xs)) ->
                 read_index (sfs (run H shuffle false false true pre s1)) = read_index (sfs s1)).
    { intro pre. induction pre as [|o pre IH] using rev_ind; intro Hpre; [reflexivity|].
      unfold run. rewrite fold_left_app. cbn [fold_left]. fold (run H shuffle false false true pre s1).
      destruct (G pre) as (Ij & _ & Dj); [intros o' Hin; apply Hpre; apply in_or_app; now left|].
      set (sj := run H shuffle false false true pre s1) in *.
      assert (Ho : In o (map Delete xs)) by (apply Hpre; apply in_or_app; right; now left).
      apply in_map_iff in Ho as (x & <- & Hx).
      destruct (delete_unheld_is_unlink sj x Ij (Dj x Hx)) as (Es & _ & _).
      rewrite sfs_run_op, Es. rewrite <- IH by (intros o' Hin; apply Hpre; apply in_or_app; now left).
      destruct (exists_file (sfs sj) (FBlob x)); [|reflexivity].
      unfold read_index, apply. cbn [fold_left apply1 files]. now rewrite upd_other by discriminate. }
    destruct C as [(pre & o & post & Eq & R)|[Ef _]].
    + cbn zeta in R. destruct R as (_ & _ & _ & R & _).
      destruct pre as [|p0 pre].
      * cbn [app] in Eq. unfold os, gc_ops in Eq. injection Eq as <- _. cbn [run fold_left] in R. exact R.
      * right. cbn [app] in Eq. unfold os, gc_ops in Eq. injection Eq as <- Eq.
        cbn [run fold_left] in R. fold s1 in R.
        assert (Hpre : forall o', In o' pre -> In o' (map Delete xs)).
        { intros o' Hin. rewrite Eq. apply in_or_app. now left. }
        assert (Hpo : forall o', In o' (pre ++ [o]) -> In o' (map Delete xs)).
        { intros o' Hin. rewrite Eq. apply in_app_or in Hin as [Hin|[<-|[]]]; apply in_or_app; [now left|right; now left]. }
        pose proof (RI pre Hpre) as E0. pose proof (RI (pre ++ [o]) Hpo) as E1.
        unfold run in E1. rewrite fold_left_app in E1. cbn [fold_left] in E1.
        fold (run H shuffle false false true pre s1) in E1.
        destruct R as [R|R]; rewrite R; [exact E0|exact E1].
    + right. rewrite Ef. unfold os, gc_ops. cbn [run fold_left]. fold s1. apply RI. auto.
Qed.

(* ---------- a completed push survives every later crash (until a Delete of that blob) ---------- *)
Lemma sfs_reopen fs c : sfs (reopen fs c) = fs.
Proof. unfold reopen. destruct (read_index fs); reflexivity. Qed.

Lemma blob_kept_by_op s o d :
  Inv s -> exists_file (sfs s) (FBlob d) = true ->
  (forall d', o = Delete d' -> d' <> d) ->
  exists_file (sfs (runop s o)) (FBlob d) = true.
Proof.
  intros I Hx Hn. destruct (op_safe s o I) as (_ & _ & E & _). rewrite E.
  destruct o; cbn; try exact Hx.
  - destruct (exists_file (sfs s) (FBlob d0)); [exact Hx|].
    destruct (H c =? d0); [|exact Hx]. destruct (d =? d0); [reflexivity|exact Hx].
  - destruct (d =? d0) eqn:Ed; [|exact Hx]. apply N.eqb_eq in Ed. subst d0.
    exfalso. exact (Hn d eq_refl eq_refl).
Qed.

Lemma stored_step_sound s x d acc :
  Inv s -> (acc = true -> exists_file (sfs s) (FBlob d) = true) ->
  stored_step H d acc x = true ->
  exists_file (sfs (run_hop H shuffle false false true s x)) (FBlob d) = true.
Proof.
  intros I Ha Hs. destruct x as [o|o k]; cbn [run_hop].
  - (* completed *)
    destruct o as [d' c m|d' r|r|d'| |dd|live]; cbn [stored_step] in Hs;
      try (apply blob_kept_by_op; [exact I|now apply Ha|intros ? E; discriminate]).
    + destruct ((d' =? d) && (H c =? d)) eqn:E.
      * apply andb_true_iff in E as [E1 E2]. apply N.eqb_eq in E1. subst d'.
        destruct (op_safe s (Push d c m) I) as (_ & _ & Eb & _). rewrite Eb. cbn.
        destruct (exists_file (sfs s) (FBlob d)) eqn:Ex; [exact Ex|]. rewrite E2. now rewrite N.eqb_refl.
      * apply blob_kept_by_op; [exact I|now apply Ha|intros ? E'; discriminate].
    + destruct (d' =? d) eqn:E; [discriminate|]. apply N.eqb_neq in E.
      apply blob_kept_by_op; [exact I|now apply Ha|]. intros d0 E0. injection E0 as <-. exact E.
  - (* interrupted: present before and after the operation, hence at the cut *)
    rewrite sfs_reopen.
    assert (Hacc : acc = true /\ forall d', o = Delete d' -> d' <> d).
    { destruct o as [d' c m|d' r|r|d'| |dd|live]; cbn [stored_step] in Hs; try (split; [exact Hs|intros ? E; discriminate]).
      destruct (d' =? d) eqn:E; [discriminate|]. apply N.eqb_neq in E.
      split; [exact Hs|]. intros d0 E0. injection E0 as <-. exact E. }
    destruct Hacc as [Hacc Hn].
    pose proof (Ha Hacc) as H0.
    pose proof (blob_kept_by_op s o d I H0 Hn) as H1.
    destruct (op_safe s o I) as (_ & _ & _ & R). destruct (R k) as (_ & _ & _ & _ & P1 & _).
    assert (X : has (crash_fs H shuffle false false true s o k) (FBlob d)).
    { apply P1; now apply exists_file_true. }
    unfold has in X. unfold exists_file.
    destruct (files (crash_fs H shuffle false false true s o k) (FBlob d)); [reflexivity|contradiction].
Qed.

Theorem completed_push_survives (h : list hop) d :
  stored_since H d h = true ->
  exists_file (sfs (runc H shuffle false false true h init)) (FBlob d) = true.
Proof.
  unfold stored_since, runc.
  assert (G : forall h s acc, Inv s -> (acc = true -> exists_file (sfs s) (FBlob d) = true) ->
              fold_left (stored_step H d) h acc = true ->
              exists_file (sfs (fold_left (run_hop H shuffle false false true) h s)) (FBlob d) = true).
  { induction h0 as [|x h0 IH]; intros s acc I Ha Hf; cbn [fold_left] in *.
    - now apply Ha.
    - apply (IH _ (stored_step H d acc x)); [now apply inv_run_hop| |exact Hf].
      intro Hs. now apply (stored_step_sound s x d acc). }
  intro Hf. apply (G h init false inv_init); [discriminate|exact Hf].
Qed.

(* ---------- ... and so does a completed Tag (until a Tag/Untag of that name or a Delete of the blob) ---------- *)
Definition on_disk (s : st) (d r : N) : Prop :=
  exists l, read_index (sfs s) = Some l /\ In (d, Some r) l.

Lemma on_disk_mem s d r : Inv s -> (on_disk s d r <-> In (r, d) (stags s)).
Proof.
  intro I. destruct (inv_named s I) as (l & Hl & Hn). unfold on_disk. split.
  - intros (l' & Hl' & Hin). rewrite Hl in Hl'. injection Hl' as <-. now apply Hn.
  - intro Hin. exists l. split; [exact Hl|now apply Hn].
Qed.

Lemma tag_kept_by_op s o d r :
  In (r, d) (stags s) ->
  (forall d' r', o = Tag d' r' -> r' <> r) -> (forall r', o = Untag r' -> r' <> r) ->
  (forall d', o = Delete d' -> d' <> d) ->
  In (r, d) (stags (runop s o)).
Proof.
  intros Hin HT HU HD. unfold run_op. destruct o as [d' c m|d' r'|r'|d'| |dd|live]; cbn [op_mem].
  - destruct (exists_file (sfs s) (FBlob d')); [exact Hin|].
    destruct (negb (H c =? d')); [exact Hin|]. destruct m; exact Hin.
  - destruct (exists_file (sfs s) (FBlob d')); cbn [stags]; [|exact Hin].
    apply tag_set_iff. right. split; [|exact Hin]. intro E. exact (HT d' r' eq_refl (eq_sym E)).
  - destruct (tag_get r' (stags s)); cbn [stags]; [|exact Hin].
    unfold tag_del. apply filter_In. split; [exact Hin|]. cbn.
    apply negb_true_iff, N.eqb_neq. intro E. exact (HU r' eq_refl (eq_sym E)).
  - cbn [stags]. apply filter_In. split; [exact Hin|]. cbn.
    apply negb_true_iff, N.eqb_neq. intro E. exact (HD d' eq_refl (eq_sym E)).
  - exact Hin.
  - destruct (exists_file (sfs s) (FBlob dd)); exact Hin.
  - exact Hin.
Qed.

Lemma tagged_step_sound s x d r st tg :
  Inv s -> (st = true -> exists_file (sfs s) (FBlob d) = true) -> (tg = true -> In (r, d) (stags s)) ->
  snd (tagged_step H d r (st, tg) x) = true ->
  on_disk (run_hop H shuffle false false true s x) d r.
Proof.
  intros I Hst Htg Hs.
  assert (Ihop : Inv (run_hop H shuffle false false true s x)) by (now apply inv_run_hop).
  destruct x as [o|o k]; cbn [run_hop] in *.
  - (* completed: read the memory of the state after *)
    apply (on_disk_mem _ d r Ihop).
    destruct o as [d' c m|d' r'|r'|d'| |dd|live]; cbn [tagged_step fst snd] in Hs;
      try (apply tag_kept_by_op; [now apply Htg|intros; discriminate|intros; discriminate|intros; discriminate]).
    + destruct (r' =? r) eqn:Er; cbn [snd] in Hs.
      * apply N.eqb_eq in Er. subst r'. apply andb_true_iff in Hs as [Ed Hs]. apply N.eqb_eq in Ed. subst d'.
        unfold run_op. cbn [op_mem]. rewrite (Hst Hs). cbn [stags]. apply tag_set_iff. left. now split.
      * apply N.eqb_neq in Er. apply tag_kept_by_op; [now apply Htg| |intros; discriminate|intros; discriminate].
        intros d0 r0 E. injection E as _ <-. exact Er.
    + destruct (r' =? r) eqn:Er; cbn [snd] in Hs; [discriminate|]. apply N.eqb_neq in Er.
      apply tag_kept_by_op; [now apply Htg|intros; discriminate| |intros; discriminate].
      intros r0 E. injection E as <-. exact Er.
    + destruct (d' =? d) eqn:Ed; cbn [snd] in Hs; [discriminate|]. apply N.eqb_neq in Ed.
      apply tag_kept_by_op; [now apply Htg|intros; discriminate|intros; discriminate|].
      intros d0 E. injection E as <-. exact Ed.
  - (* interrupted: the entry is in index.json before and after the operation, and the file
       found is one of the two *)
    assert (Hk : tg = true /\ (forall d' r', o = Tag d' r' -> r' <> r) /\ (forall r', o = Untag r' -> r' <> r) /\
                 (forall d', o = Delete d' -> d' <> d)).
    { destruct o as [d' c m|d' r'|r'|d'| |dd|live]; cbn [tagged_step fst snd] in Hs;
        try (split; [exact Hs|repeat split; intros; discriminate]).
      - destruct (r' =? r) eqn:Er; cbn [snd] in Hs; [discriminate|]. apply N.eqb_neq in Er.
        split; [exact Hs|]. split; [|split; intros; discriminate]. intros d0 r0 E. injection E as _ <-. exact Er.
      - destruct (r' =? r) eqn:Er; cbn [snd] in Hs; [discriminate|]. apply N.eqb_neq in Er.
        split; [exact Hs|]. split; [intros; discriminate|split; [|intros; discriminate]].
        intros r0 E. injection E as <-. exact Er.
      - destruct (d' =? d) eqn:Ed; cbn [snd] in Hs; [discriminate|]. apply N.eqb_neq in Ed.
        split; [exact Hs|]. split; [intros; discriminate|split; [intros; discriminate|]].
        intros d0 E. injection E as <-. exact Ed. }
    destruct Hk as (Ht & HT & HU & HD).
    pose proof (Htg Ht) as Hin0.
    pose proof (tag_kept_by_op s o d r Hin0 HT HU HD) as Hin1.
    destruct (op_safe s o I) as (I1 & _ & _ & R). destruct (R k) as (_ & _ & _ & RI & _).
    unfold on_disk. rewrite sfs_reopen.
    destruct RI as [RI|RI]; rewrite RI.
    + now apply (on_disk_mem s d r I).
    + now apply (on_disk_mem _ d r I1).
Qed.

Theorem completed_tag_survives (h : list hop) d r :
  tagged_since H d r h = true ->
  exists l, read_index (sfs (runc H shuffle false false true h init)) = Some l /\ tag_of l r d.
Proof.
  unfold tagged_since, runc.
  assert (G : forall h s st tg, Inv s ->
              (st = true -> exists_file (sfs s) (FBlob d) = true) -> (tg = true -> In (r, d) (stags s)) ->
              snd (fold_left (tagged_step H d r) h (st, tg)) = true ->
              on_disk (fold_left (run_hop H shuffle false false true) h s) d r).
  { induction h0 as [|x h0 IH]; intros s st tg I Hst Htg Hf; cbn [fold_left] in *.
    - apply (on_disk_mem s d r I). now apply Htg.
    - destruct (tagged_step H d r (st, tg) x) as [st' tg'] eqn:E.
      assert (Ix : Inv (run_hop H shuffle false false true s x)) by (now apply inv_run_hop).
      apply (IH _ st' tg' Ix); [| |exact Hf].
      + intro Hs. apply (stored_step_sound s x d st I Hst).
        assert (E1 : fst (tagged_step H d r (st, tg) x) = stored_step H d st x).
        { unfold tagged_step. cbn [fst].
          destruct x as [[| | | | | |]|[| | | | | |] ?]; cbn [fst]; try reflexivity;
            match goal with |- fst (if ?c then _ else _) = _ => destruct c; reflexivity end. }
        rewrite E in E1. cbn [fst] in E1. now rewrite <- E1.
      + intro Ht. apply (on_disk_mem _ d r Ix).
        apply (tagged_step_sound s x d r st tg I Hst Htg). rewrite E. exact Ht. }
  intro Hf. apply (G h init false false inv_init); [discriminate|discriminate|exact Hf].
Qed.

(* ---------- ... and nothing is invented: what is on disk was put there by an operation ---------- *)
Lemma blob_from_op s o d :
  Inv s -> exists_file (sfs (runop s o)) (FBlob d) = true ->
  exists_file (sfs s) (FBlob d) = true \/ (exists c m, o = Push d c m /\ H c = d).
Proof.
  intros I Hx. destruct (op_safe s o I) as (_ & _ & E & _). rewrite E in Hx.
  destruct o as [d' c m|d' r|r|d'| |dd|live]; cbn in Hx; try (now left).
  - destruct (exists_file (sfs s) (FBlob d')) eqn:Ex; [now left|].
    destruct (H c =? d') eqn:Eh; [|now left].
    destruct (d =? d') eqn:Ed; [|now left].
    apply N.eqb_eq in Ed. subst d'. apply N.eqb_eq in Eh. right. now exists c, m.
  - destruct (d =? d'); [discriminate|now left].
Qed.

Lemma tag_from_op s o d r :
  In (r, d) (stags (runop s o)) -> In (r, d) (stags s) \/ o = Tag d r.
Proof.
  unfold run_op. destruct o as [d' c m|d' r'|r'|d'| |dd|live]; cbn [op_mem].
  - destruct (exists_file (sfs s) (FBlob d')); [now left|].
    destruct (negb (H c =? d')); [now left|]. destruct m; now left.
  - destruct (exists_file (sfs s) (FBlob d')); cbn [stags]; [|now left].
    intro Hin. apply tag_set_iff in Hin as [[-> ->]|[_ Hin]]; [now right|now left].
  - destruct (tag_get r' (stags s)); cbn [stags]; [|now left].
    intro Hin. unfold tag_del in Hin. apply filter_In in Hin as [Hin _]. now left.
  - cbn [stags]. intro Hin. apply filter_In in Hin as [Hin _]. now left.
  - now left.
  - destruct (exists_file (sfs s) (FBlob dd)); now left.
  - now left.
Qed.

Theorem nothing_invented (h : list hop) :
  let s := runc H shuffle false false true h init in
  (forall d, exists_file (sfs s) (FBlob d) = true -> pushed_in H d h) /\
  (forall d r, In (r, d) (stags s) -> tagged_in d r h).
Proof.
  (* generalised over the prefix already executed *)
  assert (G : forall h2 h1 s, Inv s ->
              (forall d, exists_file (sfs s) (FBlob d) = true -> pushed_in H d h1) ->
              (forall d r, In (r, d) (stags s) -> tagged_in d r h1) ->
              let s' := runc H shuffle false false true h2 s in
              (forall d, exists_file (sfs s') (FBlob d) = true -> pushed_in H d (h1 ++ h2)) /\
              (forall d r, In (r, d) (stags s') -> tagged_in d r (h1 ++ h2))).
  { induction h2 as [|x h2 IH]; intros h1 s I PB PT.
    - cbn. rewrite app_nil_r. now split.
    - cbn [runc fold_left]. replace (h1 ++ x :: h2) with ((h1 ++ [x]) ++ h2) by (now rewrite <- app_assoc).
      apply IH; [now apply inv_run_hop| |].
      + (* blobs *)
        intros d Hx.
        assert (Old : exists_file (sfs s) (FBlob d) = true -> pushed_in H d (h1 ++ [x])).
        { intro Hs. destruct (PB d Hs) as (y & c & m & Hy & E1 & E2). exists y, c, m.
          split; [apply in_or_app; now left|now split]. }
        assert (New : forall c m, hop_op x = Push d c m -> H c = d -> pushed_in H d (h1 ++ [x])).
        { intros c m E1 E2. exists x, c, m. split; [apply in_or_app; right; now left|now split]. }
        destruct x as [o|o k]; cbn [run_hop] in Hx.
        * destruct (blob_from_op s o d I Hx) as [Hs|(c & m & -> & Hc)]; [now apply Old|now apply (New c m)].
        * rewrite sfs_reopen in Hx.
          destruct (op_safe s o I) as (_ & _ & _ & R). destruct (R k) as (_ & _ & _ & _ & _ & P2).
          destruct (P2 d) as [H0|H1].
          { unfold has, exists_file in *. destruct (files _ (FBlob d)); [discriminate|discriminate]. }
          { apply Old. unfold has, exists_file in *. destruct (files (sfs s) (FBlob d)); [reflexivity|contradiction]. }
          { assert (E : exists_file (sfs (runop s o)) (FBlob d) = true).
            { unfold has, exists_file in *. destruct (files (sfs (runop s o)) (FBlob d)); [reflexivity|contradiction]. }
            destruct (blob_from_op s o d I E) as [Hs|(c & m & -> & Hc)]; [now apply Old|now apply (New c m)]. }
      + (* tags *)
        intros d r Hin.
        assert (Old : In (r, d) (stags s) -> tagged_in d r (h1 ++ [x])).
        { intro Hs. destruct (PT d r Hs) as (y & Hy & E). exists y. split; [apply in_or_app; now left|exact E]. }
        assert (New : hop_op x = Tag d r -> tagged_in d r (h1 ++ [x])).
        { intro E. exists x. split; [apply in_or_app; right; now left|exact E]. }
        destruct x as [o|o k]; cbn [run_hop] in Hin.
        * destruct (tag_from_op s o d r Hin) as [Hs| ->]; [now apply Old|now apply New].
        * (* the resolver reloaded from the index.json found: the one before or the one after *)
          assert (Ir : Inv (reopen (crash_fs H shuffle false false true s o k) (S (sctr s)))) by (now apply reopen_inv).
          apply (on_disk_mem _ d r Ir) in Hin. destruct Hin as (l & Hl & Hd). rewrite sfs_reopen in Hl.
          destruct (op_safe s o I) as (I1 & _ & _ & R). destruct (R k) as (_ & _ & _ & RI & _).
          rewrite Hl in RI. destruct RI as [RI|RI].
          { apply Old. apply (on_disk_mem s d r I). exists l. split; [now symmetry|exact Hd]. }
          { assert (Hm : In (r, d) (stags (runop s o))).
            { apply (on_disk_mem _ d r I1). exists l. split; [now symmetry|exact Hd]. }
            destruct (tag_from_op s o d r Hm) as [Hs| ->]; [now apply Old|now apply New]. } }
  intro s. destruct (G h [] init inv_init) as [A B].
  - intros d Hx. cbn in Hx. destruct d; discriminate.
  - intros d r [].
  - split; [exact A|exact B].
Qed.

Corollary nothing_invented_disk (h : list hop) :
  let s := runc H shuffle false false true h init in
  (forall d, exists_file (sfs s) (FBlob d) = true -> pushed_in H d h) /\
  (forall l d r, read_index (sfs s) = Some l -> tag_of l r d -> tagged_in d r h).
Proof.
  intro s. destruct (nothing_invented h) as [A B]. fold s in A, B. split; [exact A|].
  intros l d r Hl Ht. apply B.
  assert (I : Inv s) by (apply inv_runc; apply inv_init).
  apply (on_disk_mem s d r I). now exists l.
Qed.

(* ======================================================================= *)
(* The API layer: calls expanded to primitives (Model expand), histories of completed and
   interrupted CALLS (runa), and "loadIndex succeeds" including decoding of manifests. *)
Section Api.
Variable mt : N -> bool.
Variable dec : N -> bool.

Notation expd := (expand H mt dec).
Notation crops := (crash_ops H shuffle false false true).
Notation runA := (runa H shuffle false false true mt dec).
Notation runcall := (run_acall H shuffle false false true mt dec).
Notation loadok := (load_okb mt dec).

Lemma crash_fs_zero s o : crash_fs H shuffle false false true s o 0 = sfs s.
Proof. reflexivity. Qed.

Lemma inv_reopen_here s : Inv s -> Inv (reopen (sfs s) (S (sctr s))).
Proof. intro I. rewrite <- (crash_fs_zero s SaveIndex). now apply reopen_inv. Qed.

Lemma inv_crash_ops os : forall s k, Inv s -> Inv (crops s os k).
Proof.
  induction os as [|o os IH]; intros s k I; cbn [crash_ops].
  - now apply inv_reopen_here.
  - destruct (Nat.leb k (length (steps s o))).
    + cbn [run_hop]. now apply reopen_inv.
    + apply IH. now apply op_safe.
Qed.

Lemma inv_run_acall s x : Inv s -> Inv (runcall s x).
Proof.
  intro I. destruct x as [a|a k]; cbn [run_acall]; [now apply inv_run|now apply inv_crash_ops].
Qed.

Lemma inv_runa h : forall s, Inv s -> Inv (runA h s).
Proof.
  induction h as [|x h IH]; intros s I; [exact I|].
  cbn [runa fold_left]. apply IH. now apply inv_run_acall.
Qed.

(* ---------- every entry the resolver holds by digest decodes if it is manifest-typed ---------- *)
Definition DecInv (s : st) : Prop := forall n, In n (sdigs s) -> mt n = true -> dec n = true.

Definition ok_at (s : st) (o : op) : Prop :=
  match o with
  | Push d _ true => dec d = true
  | Tag d _ | TagDig d => exists_file (sfs s) (FBlob d) = true -> mt d = true -> dec d = true
  | _ => True
  end.

Fixpoint all_ok (s : st) (os : list op) : Prop :=
  match os with
  | [] => True
  | o :: r => ok_at s o /\ all_ok (runop s o) r
  end.

Lemma digs_step s o n :
  In n (sdigs (runop s o)) ->
  In n (sdigs s) \/ (exists c, o = Push n c true) \/
  ((exists r, o = Tag n r) \/ o = TagDig n) /\ exists_file (sfs s) (FBlob n) = true.
Proof.
  unfold run_op. destruct o as [d c m|d r|r|d| |dd|live]; cbn [op_mem].
  - destruct (exists_file (sfs s) (FBlob d)); cbn [sdigs]; [now left|].
    destruct (negb (H c =? d)); cbn [sdigs]; [now left|].
    destruct m; cbn [sdigs]; [|now left].
    intro Hin. apply dig_add_In in Hin as [->|Hin]; [right; left; now exists c|now left].
  - destruct (exists_file (sfs s) (FBlob d)) eqn:Ex; cbn [sdigs]; [|now left].
    intro Hin. apply dig_add_In in Hin as [->|Hin]; [right; right; split; [left; now exists r|exact Ex]|now left].
  - destruct (tag_get r (stags s)); cbn [sdigs]; now left.
  - cbn [sdigs]. intro Hin. apply filter_In in Hin as [Hin _]. now left.
  - now left.
  - destruct (exists_file (sfs s) (FBlob dd)) eqn:Ex; cbn [sdigs]; [|now left].
    intro Hin. apply dig_add_In in Hin as [->|Hin]; [right; right; split; [now right|exact Ex]|now left].
  - cbn [sdigs]. intro Hin. apply filter_In in Hin as [Hin _]. now left.
Qed.

Lemma decinv_step s o : DecInv s -> ok_at s o -> DecInv (runop s o).
Proof.
  intros D Ho n Hin Hm. apply digs_step in Hin as [Hin|[(c & ->)|[[(r & ->)| ->] Ex]]].
  - now apply D.
  - exact Ho.
  - now apply Ho.
  - now apply Ho.
Qed.

Lemma decinv_run os : forall s, DecInv s -> all_ok s os -> DecInv (run H shuffle false false true os s).
Proof.
  induction os as [|o os IH]; intros s D A; [exact D|].
  destruct A as [Ao Ar]. cbn [run fold_left]. apply IH; [now apply decinv_step|exact Ar].
Qed.

Lemma all_ok_split pre : forall s o post,
  all_ok s (pre ++ o :: post) -> DecInv s ->
  DecInv (run H shuffle false false true pre s) /\ ok_at (run H shuffle false false true pre s) o.
Proof.
  induction pre as [|p pre IH]; intros s o post A D.
  - cbn in *. now split; [|destruct A].
  - cbn [app all_ok] in A. destruct A as [Ap Ar]. cbn [run fold_left].
    apply (IH _ o post Ar). now apply decinv_step.
Qed.

Lemma all_ok_trivial os : (forall o, In o os -> forall s, ok_at s o) -> forall s, all_ok s os.
Proof.
  induction os as [|o os IH]; intros Ho s; [exact I|].
  split; [apply Ho; now left|]. apply IH. intros o' Hin. apply Ho. now right.
Qed.

Lemma expand_all_ok s a : all_ok s (expd s a).
Proof.
  destruct a as [d c|d r|r|d|d|d cas| |live sw|]; cbn [expand].
  - destruct (mt d) eqn:Em; [|cbn; auto].
    destruct (dec d) eqn:Ed; [cbn; auto|].
    destruct (exists_file (sfs s) (FBlob d)); [cbn; auto|].
    destruct (H c =? d); cbn; auto.
  - destruct (exists_file (sfs s) (FBlob d) && mt d && negb (dec d)) eqn:E; [exact I|].
    cbn. split; [|exact I]. intros Ex Hm. rewrite Ex, Hm in E. cbn in E.
    destruct (dec d); [reflexivity|discriminate].
  - cbn. auto.
  - destruct (exists_file (sfs s) (FBlob d) && mt d && negb (dec d)) eqn:E; [exact I|].
    cbn. split; [|exact I]. intros Ex Hm. rewrite Ex, Hm in E. cbn in E.
    destruct (dec d); [reflexivity|discriminate].
  - exact I.
  - apply all_ok_trivial. intros o [<-|Hin] s'; [exact I|].
    apply in_map_iff in Hin as (x & <- & _). exact I.
  - cbn. auto.
  - apply all_ok_trivial. intros o [<-|Hin] s'; [exact I|].
    apply in_map_iff in Hin as (x & <- & _). exact I.
  - exact I.
Qed.

(* the resolver reloaded from index.json holds only names the file lists *)
Lemma reopen_digs fs c n :
  In n (sdigs (reopen fs c)) -> exists l r, read_index fs = Some l /\ In (n, r) l.
Proof.
  unfold reopen. destruct (read_index fs) as [l|]; cbn [sdigs]; [|intros []].
  intro Hin. destruct (load_spec l [] []) as (_ & A2 & _); [intros r0 n0 []|].
  apply A2 in Hin as [[]|(r & Hr)]. now exists l, r.
Qed.

Lemma decinv_reopen_cut s o k :
  Inv s -> DecInv s -> ok_at s o ->
  DecInv (reopen (crash_fs H shuffle false false true s o k) (S (sctr s))).
Proof.
  intros I D Ho n Hin Hm.
  apply reopen_digs in Hin as (l & r & Hl & Hr).
  destruct (op_safe s o I) as (I1 & _ & _ & R). destruct (R k) as (_ & _ & _ & RI & _).
  rewrite Hl in RI. destruct RI as [RI|RI].
  - destruct (inv_index s I) as (l0 & Hl0 & He). rewrite Hl0 in RI. injection RI as <-.
    apply D; [exact (He (n, r) Hr)|exact Hm].
  - destruct (inv_index _ I1) as (l1 & Hl1 & He). rewrite Hl1 in RI. injection RI as <-.
    apply (decinv_step s o D Ho); [exact (He (n, r) Hr)|exact Hm].
Qed.

Lemma decinv_crash_ops os : forall s k, Inv s -> DecInv s -> all_ok s os -> DecInv (crops s os k).
Proof.
  induction os as [|o os IH]; intros s k I D A; cbn [crash_ops].
  - rewrite <- (crash_fs_zero s SaveIndex). apply decinv_reopen_cut; [exact I|exact D|exact Logic.I].
  - destruct A as [Ao Ar]. destruct (Nat.leb k (length (steps s o))).
    + cbn [run_hop]. now apply decinv_reopen_cut.
    + apply IH; [now apply op_safe|now apply decinv_step|exact Ar].
Qed.

Lemma decinv_runa h : forall s, Inv s -> DecInv s -> DecInv (runA h s).
Proof.
  induction h as [|x h IH]; intros s I D; [exact D|].
  cbn [runa fold_left]. apply IH; [now apply inv_run_acall|].
  destruct x as [a|a k]; cbn [run_acall].
  - apply decinv_run; [exact D|apply expand_all_ok].
  - apply decinv_crash_ops; [exact I|exact D|apply expand_all_ok].
Qed.

Lemma decinv_init : DecInv init.
Proof. intros n []. Qed.

(* loadIndex succeeds on a quiescent state ... *)
Lemma load_ok_state s : Inv s -> DecInv s -> loadok (sfs s) = true.
Proof.
  intros I D. unfold load_okb. destruct (inv_index s I) as (l & Hl & He). rewrite Hl.
  apply forallb_forall. intros e Hin. apply andb_true_iff. split.
  - pose proof (inv_digs s I _ (He e Hin)) as Hh. unfold has in Hh. unfold exists_file.
    destruct (files (sfs s) (FBlob (fst e))); [reflexivity|contradiction].
  - destruct (mt (fst e)) eqn:Em; [|reflexivity]. cbn. exact (D _ (He e Hin) Em).
Qed.

(* ... and on the directory found after any cut of any call, after any history of completed
   and interrupted calls *)
Theorem api_crash_load_ok (h : list acall) (a : api) k :
  let s := runA h init in
  loadok (crash_seq H shuffle false false true s (expd s a) k) = true.
Proof.
  intro s.
  assert (I : Inv s) by (apply inv_runa; apply inv_init).
  assert (D : DecInv s) by (apply decinv_runa; [apply inv_init|apply decinv_init]).
  pose proof (expand_all_ok s a) as A.
  destruct (seq_cut (expd s a) s k) as [(pre & o & post & k' & Eq & Ec)|Ef].
  - rewrite Ec. rewrite Eq in A. destruct (all_ok_split pre s o post A D) as [Dj Oj].
    set (sj := run H shuffle false false true pre s) in *.
    assert (Ij : Inv sj) by (apply inv_run; exact I).
    destruct (op_safe sj o Ij) as (I1 & _ & _ & R).
    destruct (R k') as (_ & _ & (l & Hl & Hx) & RI & _).
    unfold load_okb. rewrite Hl. apply forallb_forall. intros e Hin. apply andb_true_iff. split.
    + pose proof (Hx e Hin) as Hh. unfold has in Hh. unfold exists_file.
      destruct (files (crash_fs H shuffle false false true sj o k') (FBlob (fst e))); [reflexivity|contradiction].
    + destruct (mt (fst e)) eqn:Em; [|reflexivity]. cbn. rewrite Hl in RI. destruct RI as [RI|RI].
      * destruct (inv_index sj Ij) as (l0 & Hl0 & He). rewrite Hl0 in RI. injection RI as <-.
        exact (Dj _ (He e Hin) Em).
      * destruct (inv_index _ I1) as (l1 & Hl1 & He). rewrite Hl1 in RI. injection RI as <-.
        exact (decinv_step sj o Dj Oj _ (He e Hin) Em).
  - rewrite Ef. apply load_ok_state; [apply inv_run; exact I|apply decinv_run; [exact D|exact A]].
Qed.

(* every theorem about primitives applies to the calls of an API history: the cut of a call is
   a crash state of one primitive of its expansion, between quiescent states *)
Theorem api_crash_safe (h : list acall) (a : api) k :
  let s := runA h init in
  let os := expd s a in
  let fsk := crash_seq H shuffle false false true s os k in
  (exists pre o post,
     os = pre ++ o :: post /\
     let sj := run H shuffle false false true pre s in
     Recoverable H (sfs sj) fsk (sfs (run_op H shuffle false false true sj o))) \/
  (fsk = sfs (run H shuffle false false true os s) /\ Good fsk).
Proof.
  intros s os fsk.
  assert (I : Inv s) by (apply inv_runa; apply inv_init).
  destruct (seq_cut os s k) as [(pre & o & post & k' & Eq & Ec)|Ef].
  - left. exists pre, o, post. split; [exact Eq|]. cbn zeta. unfold fsk. rewrite Ec.
    apply op_safe. apply inv_run. exact I.
  - right. split; [exact Ef|]. unfold fsk. rewrite Ef. apply inv_good. apply inv_run. exact I.
Qed.

(* ---------- a history of calls IS a history of primitives ---------- *)
(* so every theorem about histories of primitives with crashes (C10_completed_*_survives_crashes,
   C10_nothing_invented, ...) speaks about histories of API calls *)
Lemma run_is_runc os : forall s, run H shuffle false false true os s = runc H shuffle false false true (map Done os) s.
Proof. induction os as [|o os IH]; intro s; [reflexivity|]. cbn [run runc map fold_left]. apply IH. Qed.

Lemma runc_app h1 h2 s :
  runc H shuffle false false true (h1 ++ h2) s = runc H shuffle false false true h2 (runc H shuffle false false true h1 s).
Proof. unfold runc. apply fold_left_app. Qed.

Lemma crash_ops_is_runc os : forall s k,
  exists hs, crops s os k = runc H shuffle false false true hs s /\
             (forall x, In x hs -> In (hop_op x) os \/ x = Crashed SaveIndex 0).
Proof.
  induction os as [|o os IH]; intros s k; cbn [crash_ops].
  - exists [Crashed SaveIndex 0]. split; [reflexivity|]. intros x [<-|[]]. now right.
  - destruct (Nat.leb k (length (steps s o))).
    + exists [Crashed o k]. split; [reflexivity|]. intros x [<-|[]]. left. now left.
    + destruct (IH (runop s o) (k - length (steps s o))%nat) as (hs & E & Hh).
      exists (Done o :: hs). split; [cbn [runc fold_left run_hop]; exact E|].
      intros x [<-|Hin]; [left; now left|]. destruct (Hh x Hin) as [Hx|Hx]; [left; now right|now right].
Qed.

Theorem runa_is_runc h : forall s, exists hs, runA h s = runc H shuffle false false true hs s.
Proof.
  induction h as [|x h IH]; intro s; [now exists []|].
  cbn [runa fold_left]. destruct (IH (runcall s x)) as (hs2 & E2).
  destruct x as [a|a k]; cbn [run_acall] in *.
  - exists (map Done (expd s a) ++ hs2). rewrite runc_app, <- run_is_runc. exact E2.
  - destruct (crash_ops_is_runc (expd s a) s k) as (hs1 & E1 & _).
    exists (hs1 ++ hs2). rewrite runc_app, <- E1. exact E2.
Qed.

End Api.

End Crash.

(* ---------- the code before the repair: index.json written in place ---------- *)
Lemma crash_unsafe_inplace (H : list N -> N) :
  exists h o k,
    let s := run H (fun _ l => l) true false true h init in
    ~ Recoverable H (sfs s) (crash_fs H (fun _ l => l) true false true s o k)
        (sfs (run_op H (fun _ l => l) true false true s o)).
Proof.
  exists [], SaveIndex, 1%nat. cbn zeta. intros (_ & _ & (l & Hl & _) & _).
  cbn in Hl. discriminate.
Qed.

(* after the cut between open(O_TRUNC) and write, index.json is empty: a reader cannot parse it *)
Lemma crash_inplace_index_unreadable (H : list N -> N) :
  read_index (crash_fs H (fun _ l => l) true false true init SaveIndex 1) = None.
Proof. reflexivity. Qed.

(* Store.delete with the two effects swapped (blob unlinked before index.json is rewritten):
   a cut between them leaves an index entry that names a missing blob *)
Lemma crash_unsafe_unlink_first :
  exists H h o k,
    let s := run H (fun _ l => l) false true true h init in
    ~ Recoverable H (sfs s) (crash_fs H (fun _ l => l) false true true s o k)
        (sfs (run_op H (fun _ l => l) false true true s o)).
Proof.
  exists (fun _ => 2), [Push 2 [9] true], (Delete 2), 1%nat. cbn zeta.
  intros (_ & _ & (l & Hl & He) & _).
  vm_compute in Hl. injection Hl as <-.
  specialize (He (2, None) (or_introl eq_refl)). apply He. vm_compute. reflexivity.
Qed.

(* ---------- the configuration read off the Go source is the proved one ---------- *)
Lemma src_inplace_false : src_inplace = false.
Proof. vm_compute. reflexivity. Qed.

Lemma src_unlink_first_false : src_unlink_first = false.
Proof. vm_compute. reflexivity. Qed.

Lemma src_push_order : src_push_order_ok = true.
Proof. vm_compute. reflexivity. Qed.

Lemma src_gc_order : src_gc_order_ok = true.
Proof. vm_compute. reflexivity. Qed.

Lemma src_guards : src_guards_ok = true.
Proof. vm_compute. reflexivity. Qed.
Lemma src_locks : src_locks_ok = true.
Proof. vm_compute. reflexivity. Qed.

Lemma src_init : src_init_ok = true.
Proof. vm_compute. reflexivity. Qed.


Theorem crash_safe_src :
  forall (H : list N -> N) (shuffle : nat -> list entry -> list entry),
    (forall c l e, In e (shuffle c l) <-> In e l) ->
    forall (h : list op) (o : op) (k : nat),
      let s := run H shuffle src_inplace src_unlink_first true h init in
      Recoverable H (sfs s) (crash_fs H shuffle src_inplace src_unlink_first true s o k)
        (sfs (run_op H shuffle src_inplace src_unlink_first true s o)).
Proof. rewrite src_inplace_false, src_unlink_first_false. exact crash_safe. Qed.

Theorem crash_tags_src :
  forall (H : list N -> N) (shuffle : nat -> list entry -> list entry),
    (forall c l e, In e (shuffle c l) <-> In e l) ->
    forall (h : list op) (o : op) (k : nat),
      let s := run H shuffle src_inplace src_unlink_first true h init in
      let fsk := crash_fs H shuffle src_inplace src_unlink_first true s o k in
      same_tags fsk (sfs s) \/
      same_tags fsk (sfs (run_op H shuffle src_inplace src_unlink_first true s o)).
Proof. rewrite src_inplace_false, src_unlink_first_false. exact crash_tags_before_or_after. Qed.

Theorem completed_effects_src :
  forall (H : list N -> N) (shuffle : nat -> list entry -> list entry),
    (forall c l e, In e (shuffle c l) <-> In e l) ->
    forall (h : list op),
      let s := run H shuffle src_inplace src_unlink_first true h init in
      let bs := fst (spec_run H h (fun _ => false) (fun _ => None)) in
      let tg := snd (spec_run H h (fun _ => false) (fun _ => None)) in
      (forall d, exists_file (sfs s) (FBlob d) = bs d) /\
      exists l, read_index (sfs s) = Some l /\ forall r n, tag_of l r n <-> tg r = Some n.
Proof. rewrite src_inplace_false, src_unlink_first_false. exact completed_effects. Qed.

Theorem crash_safe_recovered_src :
  forall (H : list N -> N) (shuffle : nat -> list entry -> list entry),
    (forall c l e, In e (shuffle c l) <-> In e l) ->
    forall (h : list hop) (o : op) (k : nat),
      let s := runc H shuffle src_inplace src_unlink_first true h init in
      Recoverable H (sfs s) (crash_fs H shuffle src_inplace src_unlink_first true s o k)
        (sfs (run_op H shuffle src_inplace src_unlink_first true s o)).
Proof. rewrite src_inplace_false, src_unlink_first_false. exact crash_safe_recovered. Qed.

Theorem no_in_place_write_src :
  forall (H : list N -> N) (shuffle : nat -> list entry -> list entry) (s : st) (o : op) (m : mstep),
    In m (op_steps H shuffle src_inplace src_unlink_first true s o) ->
    match m with
    | Create p | OpenTrunc p | Write p _ | Chmod p => is_temp p = true
    | _ => True
    end.
Proof.
  rewrite src_inplace_false, src_unlink_first_false.
  intros H shuffle s o m Hin. exact (no_in_place_write H shuffle s o m Hin).
Qed.

Theorem crash_safe_composite_src :
  forall (H : list N -> N) (shuffle : nat -> list entry -> list entry),
    (forall c l e, In e (shuffle c l) <-> In e l) ->
    forall (h : list hop) (os : list op) (k : nat),
      let s := runc H shuffle src_inplace src_unlink_first true h init in
      let fsk := crash_seq H shuffle src_inplace src_unlink_first true s os k in
      (exists pre o post,
         os = pre ++ o :: post /\
         let sj := run H shuffle src_inplace src_unlink_first true pre s in
         Recoverable H (sfs sj) fsk (sfs (run_op H shuffle src_inplace src_unlink_first true sj o))) \/
      (fsk = sfs (run H shuffle src_inplace src_unlink_first true os s) /\
       layout_ok fsk /\ blob_ok H fsk /\ index_ok fsk).
Proof. rewrite src_inplace_false, src_unlink_first_false. exact crash_safe_composite. Qed.

(* oci-layout written in place (the code before the repair): cut after open(O_TRUNC) and
   every later New fails on the empty oci-layout *)
Lemma init_unrestartable_inplace (shuffle : nat -> list entry -> list entry) :
  exists k, new_okb (apply (firstn k (new_steps shuffle false true empty_fs 0)) empty_fs) = false.
Proof. exists 2%nat. reflexivity. Qed.

Lemma src_layout_inplace_false : src_layout_inplace = false.
Proof. vm_compute. reflexivity. Qed.

Theorem init_restartable_src :
  forall (shuffle : nat -> list entry -> list entry),
    (forall c l e, In e (shuffle c l) <-> In e l) ->
    forall k,
      let fsk := apply (firstn k (new_steps shuffle src_inplace src_layout_inplace empty_fs 0)) empty_fs in
      let fs2 := apply (new_steps shuffle src_inplace src_layout_inplace fsk 1) fsk in
      new_okb fsk = true /\
      layout_okb fs2 = true /\ read_index fs2 = Some [] /\ dirs fs2 DBlobs = true /\
      forall d, files fs2 (FBlob d) = None.
Proof. rewrite src_inplace_false, src_layout_inplace_false. exact init_restartable. Qed.

Theorem crash_shrinking_between_src :
  forall (H : list N -> N) (shuffle : nat -> list entry -> list entry),
    (forall c l e, In e (shuffle c l) <-> In e l) ->
    forall (h : list hop) (os : list op) (k : nat),
      (forall o, In o os -> match o with Delete _ | Forget _ | SaveIndex => True | _ => False end) ->
      let s := runc H shuffle src_inplace src_unlink_first true h init in
      let fsk := crash_seq H shuffle src_inplace src_unlink_first true s os k in
      let fs1 := sfs (run H shuffle src_inplace src_unlink_first true os s) in
      (forall d, has (sfs s) (FBlob d) -> has fs1 (FBlob d) -> has fsk (FBlob d)) /\
      (forall d, has fsk (FBlob d) -> has (sfs s) (FBlob d)).
Proof. rewrite src_inplace_false, src_unlink_first_false. exact crash_shrinking_between. Qed.

Theorem cascade_tags_src :
  forall (H : list N -> N) (shuffle : nat -> list entry -> list entry),
    (forall c l e, In e (shuffle c l) <-> In e l) ->
    forall (h : list hop) (d : N) (xs : list N) (k : nat),
      let s := runc H shuffle src_inplace src_unlink_first true h init in
      (forall l, read_index (sfs s) = Some l -> forall x r, In x xs -> ~ tag_of l r x) ->
      let os := Delete d :: map Delete xs in
      let fsk := crash_seq H shuffle src_inplace src_unlink_first true s os k in
      same_tags fsk (sfs s) \/ same_tags fsk (sfs (run H shuffle src_inplace src_unlink_first true os s)).
Proof. rewrite src_inplace_false, src_unlink_first_false. exact cascade_tags. Qed.

(* AutoSaveIndex = false: Delete unlinks the blob although the index.json saved earlier still
   names it -- already the completed Delete (and every cut after its unlink) leaves an
   index entry without a blob, until the caller's next SaveIndex *)
Lemma crash_unsafe_autosave_off :
  exists H h o k,
    let s := run H (fun _ l => l) false false false h init in
    ~ Recoverable H (sfs s) (crash_fs H (fun _ l => l) false false false s o k)
        (sfs (run_op H (fun _ l => l) false false false s o)).
Proof.
  exists (fun _ => 2), [Push 2 [9] true; Tag 2 5; SaveIndex], (Delete 2), 1%nat. cbn zeta.
  intros (_ & _ & (l & Hl & He) & _).
  vm_compute in Hl. injection Hl as <-.
  specialize (He (2, Some 5) (or_introl eq_refl)). apply He. vm_compute. reflexivity.
Qed.

Theorem gc_crash_safe_src :
  forall (H : list N -> N) (shuffle : nat -> list entry -> list entry),
    (forall c l e, In e (shuffle c l) <-> In e l) ->
    forall (h : list hop) (live xs : list N) (k : nat),
      let s := runc H shuffle src_inplace src_unlink_first true h init in
      (forall l, read_index (sfs s) = Some l ->
         forall x, In x xs -> ~ In x live /\ forall r, ~ tag_of l r x) ->
      let os := gc_ops live xs in
      let fsk := crash_seq H shuffle src_inplace src_unlink_first true s os k in
      (forall pre x post, map Delete xs = pre ++ Delete x :: post ->
         let sj := run H shuffle src_inplace src_unlink_first true pre
                     (run_op H shuffle src_inplace src_unlink_first true s (Forget live)) in
         op_steps H shuffle src_inplace src_unlink_first true sj (Delete x)
           = if exists_file (sfs sj) (FBlob x) then [Unlink (FBlob x)] else []) /\
      same_tags fsk (sfs s) /\
      (read_index fsk = read_index (sfs s) \/
       read_index fsk = read_index (sfs (run_op H shuffle src_inplace src_unlink_first true s (Forget live)))).
Proof. rewrite src_inplace_false, src_unlink_first_false. exact gc_crash_safe. Qed.

Theorem completed_push_survives_src :
  forall (H : list N -> N) (shuffle : nat -> list entry -> list entry),
    (forall c l e, In e (shuffle c l) <-> In e l) ->
    forall (h : list hop) (d : N),
      stored_since H d h = true ->
      exists_file (sfs (runc H shuffle src_inplace src_unlink_first true h init)) (FBlob d) = true.
Proof. rewrite src_inplace_false, src_unlink_first_false. exact completed_push_survives. Qed.

Theorem completed_tag_survives_src :
  forall (H : list N -> N) (shuffle : nat -> list entry -> list entry),
    (forall c l e, In e (shuffle c l) <-> In e l) ->
    forall (h : list hop) (d r : N),
      tagged_since H d r h = true ->
      exists l, read_index (sfs (runc H shuffle src_inplace src_unlink_first true h init)) = Some l /\
                tag_of l r d.
Proof. rewrite src_inplace_false, src_unlink_first_false. exact completed_tag_survives. Qed.

Theorem api_crash_load_ok_src :
  forall (H : list N -> N) (shuffle : nat -> list entry -> list entry),
    (forall c l e, In e (shuffle c l) <-> In e l) ->
    forall (mt dec : N -> bool) (h : list acall) (a : api) (k : nat),
      let s := runa H shuffle src_inplace src_unlink_first true mt dec h init in
      load_okb mt dec (crash_seq H shuffle src_inplace src_unlink_first true s (expand H mt dec s a) k) = true.
Proof. rewrite src_inplace_false, src_unlink_first_false. exact api_crash_load_ok. Qed.

Theorem api_crash_safe_src :
  forall (H : list N -> N) (shuffle : nat -> list entry -> list entry),
    (forall c l e, In e (shuffle c l) <-> In e l) ->
    forall (mt dec : N -> bool) (h : list acall) (a : api) (k : nat),
      let s := runa H shuffle src_inplace src_unlink_first true mt dec h init in
      let os := expand H mt dec s a in
      let fsk := crash_seq H shuffle src_inplace src_unlink_first true s os k in
      (exists pre o post,
         os = pre ++ o :: post /\
         let sj := run H shuffle src_inplace src_unlink_first true pre s in
         Recoverable H (sfs sj) fsk (sfs (run_op H shuffle src_inplace src_unlink_first true sj o))) \/
      (fsk = sfs (run H shuffle src_inplace src_unlink_first true os s) /\
       layout_ok fsk /\ blob_ok H fsk /\ index_ok fsk).
Proof. rewrite src_inplace_false, src_unlink_first_false. exact api_crash_safe. Qed.

Theorem init_restartable_many_src :
  forall (shuffle : nat -> list entry -> list entry),
    (forall c l e, In e (shuffle c l) <-> In e l) ->
    forall (ks : list nat),
      let fs := fst (init_attempts shuffle src_inplace src_layout_inplace ks empty_fs 0) in
      let c := snd (init_attempts shuffle src_inplace src_layout_inplace ks empty_fs 0) in
      let fs' := apply (new_steps shuffle src_inplace src_layout_inplace fs c) fs in
      new_okb fs = true /\
      files fs' FLayout = Some (mkFile [ALayout] false) /\
      files fs' FIndex = Some (mkFile [AIndex []] false) /\
      (forall d, files fs' (FBlob d) = None) /\ dirs fs' DBlobs = true.
Proof. rewrite src_inplace_false, src_layout_inplace_false. exact init_restartable_many. Qed.

Theorem nothing_invented_src :
  forall (H : list N -> N) (shuffle : nat -> list entry -> list entry),
    (forall c l e, In e (shuffle c l) <-> In e l) ->
    forall (h : list hop),
      let s := runc H shuffle src_inplace src_unlink_first true h init in
      (forall d, exists_file (sfs s) (FBlob d) = true -> pushed_in H d h) /\
      (forall l d r, read_index (sfs s) = Some l -> tag_of l r d -> tagged_in d r h).
Proof. rewrite src_inplace_false, src_unlink_first_false. exact nothing_invented_disk. Qed.

Theorem runa_is_runc_src :
  forall (H : list N -> N) (shuffle : nat -> list entry -> list entry),
    (forall c l e, In e (shuffle c l) <-> In e l) ->
    forall (mt dec : N -> bool) (h : list acall),
    exists hs, runa H shuffle src_inplace src_unlink_first true mt dec h init
               = runc H shuffle src_inplace src_unlink_first true hs init.
Proof.
  rewrite src_inplace_false, src_unlink_first_false.
  intros H shuffle _ mt dec h. exact (runa_is_runc H shuffle mt dec h init).
Qed.

(* audit F2 before the repairs: Push left the undecodable manifest behind and Tag accepted it
   (the primitives [Push d c false; Tag d r] on a manifest-typed, undecodable d): the index
   names content on which loadIndex fails *)
Lemma reopen_refuted_undecodable :
  exists (mt dec : N -> bool) (H : list N -> N) (os : list op),
    load_okb mt dec (sfs (run H (fun _ l => l) false false true os init)) = false.
Proof.
  exists (fun d => d =? 7), (fun d => negb (d =? 7)), (fun _ => 7), [Push 7 [9] false; Tag 7 8].
  vm_compute. reflexivity.
Qed.

