(* Proofs/Location.v -- where step 2 of a blob upload is sent (the C13_location theorems). *)
From Oras Require Import Base.Prelude Model.Location.
From Coq Require Import Permutation.

Lemma insert_sorted_perm kv q : Permutation (insert_sorted kv q) (kv :: q).
Proof.
  induction q as [|kv' r IH]; cbn; [reflexivity|].
  destruct (str_ltb (fst kv') (fst kv)); [|reflexivity].
  rewrite IH. apply perm_swap.
Qed.

Lemma sort_query_perm q : Permutation (sort_query q) q.
Proof.
  induction q as [|kv r IH]; cbn; [reflexivity|].
  rewrite insert_sorted_perm. now constructor.
Qed.

(* the query of the PUT: digest=<dg> exactly, every other parameter of the Location kept *)
Theorem set_digest_spec dg q k v :
  In (k, v) (set_digest dg q) <->
  (k = k_digest /\ v = dg) \/ (k <> k_digest /\ In (k, v) q).
Proof.
  unfold set_digest. split.
  - intro Hin. apply (Permutation_in _ (sort_query_perm _)) in Hin. destruct Hin as [E|Hin].
    + injection E as <- <-. auto.
    + apply filter_In in Hin as [Hin Hk]. cbn in Hk. right. split; auto.
      intros ->. now rewrite str_eqb_refl in Hk.
  - intro Hc. apply (Permutation_in _ (Permutation_sym (sort_query_perm _))).
    destruct Hc as [[-> ->]|[Hk Hin]]; [now left|right].
    apply filter_In. split; auto. cbn.
    destruct (str_eqb k k_digest) eqn:E; [apply str_eqb_spec in E; contradiction|].
    change (negb (str_eqb k k_digest) = true). now rewrite E.
Qed.

Lemma needs_repair_spec req l :
  needs_repair req l = true <-> u_port req = port443 /\ u_host l = u_host req /\ u_port l = [].
Proof.
  unfold needs_repair. rewrite !andb_true_iff, !str_eqb_spec. tauto.
Qed.

(* the authority of the PUT: the Location's (the POST's for an absolute-path Location),
   except that a missing port is restored when the POST went to the same host on 443 *)
Theorem put_url_authority req l dg :
  let t := resolve req l in
  let u := put_url req l dg in
  u_scheme u = u_scheme t /\ u_host u = u_host t /\ u_path u = u_path t /\
  u_port u = (if needs_repair req t then port443 else u_port t).
Proof.
  cbn. unfold put_url, repair. destruct (needs_repair req (resolve req l)); cbn; auto.
Qed.

(* an absolute-path Location: the PUT goes to the registry the POST went to *)
Theorem put_url_relative req p q dg :
  let u := put_url req (LPath p q) dg in
  u_scheme u = u_scheme req /\ u_host u = u_host req /\ u_port u = u_port req /\ u_path u = p.
Proof.
  assert (E : needs_repair req (resolve req (LPath p q)) = false).
  { destruct (needs_repair req (resolve req (LPath p q))) eqn:E; auto.
    apply needs_repair_spec in E as (A & _ & C). cbn [resolve u_port] in C. rewrite A in C. discriminate. }
  unfold put_url, repair. rewrite E. cbn. auto.
Qed.

(* issue 177: registry reached as host:443 answers with an absolute Location on the same
   host without the port -> the PUT goes to host:443 again *)
Theorem put_url_repaired req sch pa q dg :
  u_port req = port443 ->
  let u := put_url req (LAbs (mkUrl sch (u_host req) [] pa q)) dg in
  u_host u = u_host req /\ u_port u = port443 /\ u_path u = pa.
Proof.
  intro Hp.
  assert (E : needs_repair req (resolve req (LAbs (mkUrl sch (u_host req) [] pa q))) = true)
    by (apply needs_repair_spec; cbn; auto).
  unfold put_url, repair. rewrite E. cbn. auto.
Qed.

(* any other absolute Location is followed as it is *)
Theorem put_url_followed req t dg :
  (u_port req <> port443 \/ u_host t <> u_host req \/ u_port t <> []) ->
  let u := put_url req (LAbs t) dg in
  u_scheme u = u_scheme t /\ u_host u = u_host t /\ u_port u = u_port t /\ u_path u = u_path t.
Proof.
  intro Hn. cbn. unfold put_url, repair. cbn [resolve].
  destruct (needs_repair req t) eqn:E; cbn; auto.
  apply needs_repair_spec in E as (A & B & C). destruct Hn as [X|[X|X]]; contradiction.
Qed.

Theorem put_url_query req l dg k v :
  In (k, v) (u_query (put_url req l dg)) <->
  (k = k_digest /\ v = dg) \/ (k <> k_digest /\ In (k, v) (u_query (resolve req l))).
Proof.
  unfold put_url. cbn [u_query]. rewrite set_digest_spec.
  unfold repair. destruct (needs_repair req (resolve req l)); cbn [u_query]; reflexivity.
Qed.
