(* CopyImplDstLive: liveness and end-to-end statements for the protocol LTS WITH destination
   (Model/CopyImplDst.v; its safety theorems are in Proofs/CopyImplDst.v): the combined system never
   deadlocks although dst.Exists is now answered by the destination, its executions are bounded by the
   bound of the protocol model, content enters the destination only through a push of the call, and
   one call summarised: closed throughout, nothing lost, fault/cancel => error, no fault => nil and
   the closure of the roots stored. *)
From Coq Require Import List Arith Bool Lia.
From Oras Require Import Model.CopyImpl Model.CopyImplDst Proofs.CopyImplBase Proofs.CopyImplInv Proofs.CopyImplInv2
  Proofs.CopyImplLive Proofs.CopyImplDeadlock Proofs.CopyImplFault Proofs.CopyImplTerm Proofs.CopyImplSucc
  Proofs.CopyImplSucc2 Proofs.CopyImplOrder Proofs.CopyImplNoFault Proofs.CopyImplDst.
Import ListNotations.

Section Proofs.
Variable succ : nat -> list nat.
Variable K : nat.
Variable ext : bool.
Variable roots : list nat.
Variable d0 : list nat.
Hypothesis succ_dec : forall n m, In m (succ n) -> m < n.
Local Notation DReachable := (DReachable succ K ext roots d0).

(* dst.Exists can fail or answer; whatever the protocol allows for one answer it allows for the others *)
Lemma exists_any s t r s' : step succ s (LExists t r) = Some s' ->
  forall r', exists s'', step succ s (LExists t r') = Some s''.
Proof.
  cbn. intros H r'. destruct (t_pc (tasks s t)); try discriminate. destruct r'; eexists; reflexivity.
Qed.

(* a protocol step that is not an Exists answer is a step of the combined system *)
Lemma dstep_of_step x l s' : step succ (ds x) l = Some s' ->
  (forall t, l <> LExists t ExTrue) -> (forall t, l <> LExists t ExFalse) ->
  exists x', dstep succ x (DL l) = Some x'.
Proof.
  intros Hs H1 H2. unfold dstep. cbn [dlab]. rewrite Hs.
  destruct l; try (eexists; reflexivity).
  - destruct r; try (eexists; reflexivity).
    + exfalso. eapply H1; eauto.
    + exfalso. eapply H2; eauto.
  - destruct ok; eexists; reflexivity.
Qed.

(* every reachable state in which the top-level syncutil.Go has not returned has an enabled step of
   the protocol itself (not a fault / cancellation choice) *)
Theorem dno_deadlock x : 1 <= K -> DReachable x -> is_final (ds x) = false ->
  exists dl x', progress_label (dlab dl) = true /\ dstep succ x dl = Some x'.
Proof.
  intros HK Hr Hnf.
  destruct (no_deadlock succ K ext roots succ_dec (ds x) HK (dreach_proj succ K ext roots d0 x Hr) Hnf)
    as [l [s' [Hp [Hs _]]]].
  destruct l; try (destruct (dstep_of_step x _ s' Hs) as [x' Hx]; [intros; discriminate | intros; discriminate |];
                   eexists (DL _), x'; split; [exact Hp | exact Hx]).
  (* LExists: answer what the destination holds *)
  destruct (dmem (t_node (tasks (ds x) t)) (dd x)) eqn:Hd.
  - destruct (exists_any _ _ _ _ Hs ExTrue) as [s1 Hs1].
    exists (DL (LExists t ExTrue)). eexists. split; [reflexivity|].
    unfold dstep. cbn [dlab]. rewrite Hs1, Hd. reflexivity.
  - destruct (exists_any _ _ _ _ Hs ExFalse) as [s1 Hs1].
    exists (DL (LExists t ExFalse)). eexists. split; [reflexivity|].
    unfold dstep. cbn [dlab]. rewrite Hs1, Hd. reflexivity.
Qed.

(* content enters the destination only through a push of the call *)
Theorem dst_written_only_by_push x dl x' n : dstep succ x dl = Some x' -> In n (dd x') ->
  In n (dd x) \/
  (exists t, (dl = DL (LPush t true) \/ dl = DPushFailStored t) /\ n = t_node (tasks (ds x) t)).
Proof.
  unfold dstep. intros H Hn. destruct (step succ (ds x) (dlab dl)) as [s'|]; [|discriminate].
  destruct dl as [l|t].
  - destruct l; try (inversion H; subst; cbn in Hn; auto; fail).
    + destruct r; try (inversion H; subst; cbn in Hn; auto; fail);
        destruct (dmem _ _); inversion H; subst; cbn in Hn; auto.
    + destruct ok; inversion H; subst; cbn in Hn; auto.
      destruct Hn as [<-|Hn]; auto. right. exists t. auto.
  - inversion H; subst. cbn in Hn. destruct Hn as [<-|Hn]; auto. right. exists t. auto.
Qed.

Section Bounded.
Variable N : nat.
Hypothesis roots_lt : forall r, In r roots -> r < N.

(* every execution of the combined system has at most bound(graph) steps *)
Theorem dterminates ls x : drun succ (dinit K ext roots d0) ls = Some x -> length ls <= bound succ ext roots N.
Proof.
  intros H. pose proof (drun_run succ ls _ _ H) as Hb. cbn in Hb.
  pose proof (terminates succ K ext roots N succ_dec roots_lt _ _ Hb) as Ht. rewrite map_length in Ht. auto.
Qed.
End Bounded.

Lemma drun_mono ls : forall y x, drun succ y ls = Some x -> forall n, In n (dd y) -> In n (dd x).
Proof.
  induction ls as [|l ls IH]; cbn; intros y x H n Hn.
  - inversion H; subst; auto.
  - destruct (dstep succ y l) as [y1|] eqn:E; [|discriminate]. eapply IH; eauto. eapply dstep_mono; eauto.
Qed.

(* one call on a closed destination, end to end *)
Theorem call_summary ls x : dclosed succ d0 -> drun succ (dinit K ext roots d0) ls = Some x ->
  dclosed succ (dd x) /\
  (forall n, In n d0 -> In n (dd x)) /\
  (is_final (ds x) = true ->
     (existsb is_fault (map dlab ls) = true -> result (ds x) = Some true) /\
     (existsb is_fault (map dlab ls) = false -> result (ds x) = Some false /\
        forall r n, In r roots -> dreach succ r n -> In n (dd x))).
Proof.
  intros Hc Hrun.
  assert (Hr : DReachable x) by (eapply drun_reach; eauto; constructor).
  split; [eapply dclosed_always; eauto|]. split.
  - intros n Hn. eapply (drun_mono ls (dinit K ext roots d0)); eauto.
  - intros Hfin. pose proof (drun_run succ ls _ _ Hrun) as Hb. cbn in Hb. split; intros Hf.
    + eapply fault_surfaces; eauto.
    + destruct (nofault_returns_nil succ K ext roots succ_dec _ _ Hb Hf Hfin) as [_ Hres].
      split; auto. intros r n Hin Hn. eapply dsuccess_complete; eauto.
Qed.

End Proofs.
