(* Cancellation (Model/CopyCancel.v): a run that returns success is, after dropping the Cancel
   marks, a run of the transition system -- so success means closure and tag even when the
   caller's context ended during (or before) the call. *)
From Oras Require Import Base.Prelude Model.CopySpec Model.CopyTop Model.CopyOpt Model.CopyCancel
  Proofs.CopySpec Proofs.CopyAcct Proofs.CopyOpt.
Local Open Scope nat_scope.

Ltac simp_st := cbn [set_ph ph dst cached tag returned] in *.

Lemma phase_eq_idle (p : phase) : p = Idle \/ p <> Idle.
Proof. destruct p; auto; right; discriminate. Qed.

Lemma phase_eq_dec (p q : phase) : {p = q} + {p <> q}.
Proof. decide equality; apply Bool.bool_dec. Qed.

(* an event moves only its own node *)
Lemma step_only_node g c st e st' x : step g c st e = Some st' -> ph st' x <> ph st x ->
  ev_node e = Some x.
Proof.
  intros H Hd. step_inv H; simp_st; try congruence;
  (destruct (Nat.eq_dec x n) as [->|Hne]; [reflexivity | rewrite upd_other in Hd by assumption; congruence]).
Qed.

Lemma run_only_nodes g c l : forall st st' x, run g c st l = Some st' -> ph st' x <> ph st x ->
  exists e, In e l /\ ev_node e = Some x.
Proof.
  induction l as [|e l IH]; simpl; intros st st' x H Hd.
  - injection H as <-. congruence.
  - destruct (step g c st e) as [s1|] eqn:E; [|discriminate].
    destruct (phase_eq_dec (ph s1 x) (ph st x)) as [Heq|Hne].
    + rewrite <- Heq in Hd. destruct (IH _ _ _ H Hd) as [e' [Hi He]]. exists e'. split; [now right|exact He].
    + exists e. split; [now left|]. eapply step_only_node; eauto.
Qed.

Lemma pre_events_node cs st e x : In x (pre_events cs st e) -> ev_node x = ev_node e.
Proof.
  unfold pre_events. destruct e; simpl; try contradiction;
  (destruct (negb (cs CPre) && awaits_pre (ph st n)); simpl; [|contradiction]); intros [<-|[]]; reflexivity.
Qed.

Lemma post_events_node cs st e x : In x (post_events cs st e) -> ev_node x = ev_node e.
Proof.
  unfold post_events. destruct (ev_node e) as [n|] eqn:En; [|contradiction].
  destruct (ph st n); simpl; try contradiction;
  match goal with |- context [if ?b then _ else _] => destruct b end; simpl; try contradiction;
  intros [<-|[]]; reflexivity.
Qed.

Lemma step_opt_moves_only_its_node cs g c st e st' full x :
  step_opt cs g c st e = Some (st', full) -> ph st' x <> ph st x -> ev_node e = Some x.
Proof.
  intros H Hd. pose proof (step_opt_sound cs g c st e st' full H) as Hs.
  destruct (run_only_nodes g c full st st' x Hs Hd) as [e' [Hin He]].
  unfold step_opt in H. destruct (nil_cb_event cs e); [discriminate|].
  destruct (run g c st (pre_events cs st e ++ [e])) as [s2|]; [|discriminate].
  destruct (run g c s2 (post_events cs s2 e)) as [s3|]; [|discriminate].
  injection H as _ <-.
  apply in_app_iff in Hin as [Hin|[<-|Hin]]; [|exact He|].
  - rewrite <- (pre_events_node cs st e e' Hin). exact He.
  - rewrite <- (post_events_node cs s2 e e' Hin). exact He.
Qed.

Lemma cstep_after_ret cs g c s ce b : returned (cs_st s) = Some b -> cstep_opt cs g c s ce = None.
Proof.
  intro H. destruct ce as [e|]; simpl.
  - unfold step_opt. destruct (nil_cb_event cs e); [rewrite H; destruct e; try reflexivity; destruct ok; reflexivity|].
    assert (R : forall l, l <> [] -> run g c (cs_st s) l = None).
    { intros [|x l] Hl; [congruence|]. simpl. now rewrite (step_after_ret g c (cs_st s) x b H). }
    rewrite R by (destruct (pre_events cs (cs_st s) e); discriminate).
    rewrite H. destruct e; try reflexivity. destruct ok; reflexivity.
  - now rewrite H.
Qed.

Lemma crun_after_ret cs g c tr : forall s s' full b, returned (cs_st s) = Some b ->
  crun_opt cs g c s tr = Some (s', full) -> s' = s /\ full = [].
Proof.
  destruct tr as [|ce tr]; simpl; intros s s' full b H R.
  - injection R as <- <-. auto.
  - rewrite (cstep_after_ret cs g c s ce b H) in R. discriminate.
Qed.

(* a successful run is a run of the transition system on the elaborated events *)
Lemma crun_sound cs g c tr : forall s s' full,
  crun_opt cs g c s tr = Some (s', full) -> returned (cs_st s') = Some true ->
  run g c (cs_st s) full = Some (cs_st s').
Proof.
  induction tr as [|ce tr IH]; simpl; intros s s' full R Hr.
  - injection R as <- <-. reflexivity.
  - destruct (cstep_opt cs g c s ce) as [[s1 f1]|] eqn:E; [|discriminate].
    destruct (crun_opt cs g c s1 tr) as [[s2 f2]|] eqn:E2; [|discriminate].
    injection R as <- <-.
    destruct ce as [e|]; simpl in E.
    + destruct (step_opt cs g c (cs_st s) e) as [[st' fl]|] eqn:ES.
      * injection E as <- <-. simpl in *.
        eapply run_cat; [eapply step_opt_sound; eauto | eapply (IH _ _ _ E2 Hr)].
      * (* the error return after cancellation: the run ends there with Some false *)
        exfalso.
        destruct e; try discriminate E. destruct ok; [discriminate E|].
        destruct (returned (cs_st s)); [discriminate E|].
        destruct (cs_cancelled s); [|discriminate E]. injection E as <- <-.
        destruct (crun_after_ret cs g c tr (mkCState (ret_false (cs_st s)) true) s2 f2 false eq_refl E2) as [-> _].
        simpl in Hr. discriminate.
    + destruct (returned (cs_st s)); [discriminate|]. injection E as <- <-. simpl in *.
      exact (IH _ _ _ E2 Hr).
Qed.

Lemma closure_under_cancellation cs g c d0 tr s full :
  closed_nodes g d0 -> mt_consistent g ->
  caccepts_opt cs g c d0 tr = Some (s, full) -> returned (cs_st s) = Some true ->
  forall n, reach g (c_root c) n -> has g (dst (cs_st s)) n = true.
Proof.
  intros Hc Hm Ha Hr. apply (closure_lemma g c d0 full (cs_st s) Hc Hm); [|exact Hr].
  exact (crun_sound cs g c tr _ _ _ Ha Hr).
Qed.

Lemma tagged_under_cancellation cs g c d0 tr s full :
  caccepts_opt cs g c d0 tr = Some (s, full) -> returned (cs_st s) = Some true ->
  c_mode c <> MGraph -> tag_ok g c = true -> tag (cs_st s) = Some (c_root c).
Proof.
  intros Ha Hr. apply (tagged_lemma g c d0 full (cs_st s)); [|exact Hr].
  exact (crun_sound cs g c tr _ _ _ Ha Hr).
Qed.

(* the seeded defect as a statement about the model: if nothing at all was scheduled (no store or
   callback event), the call cannot have returned success -- whatever the cancellation did *)
Lemma no_success_without_work cs g c d0 tr s full :
  caccepts_opt cs g c d0 tr = Some (s, full) -> returned (cs_st s) = Some true ->
  exists e, In (Ev e) tr /\ ev_node e = Some (c_root c).
Proof.
  intros Ha Hr. unfold caccepts_opt in Ha.
  assert (G : forall tr s0 s' full, crun_opt cs g c s0 tr = Some (s', full) ->
            ph (cs_st s0) (c_root c) = Idle -> ph (cs_st s') (c_root c) <> Idle ->
            exists e, In (Ev e) tr /\ ev_node e = Some (c_root c)).
  { clear. induction tr as [|ce tr IH]; simpl; intros s0 s' full R Hi Hn.
    - injection R as <- <-. contradiction.
    - destruct (cstep_opt cs g c s0 ce) as [[s1 f1]|] eqn:E; [|discriminate].
      destruct (crun_opt cs g c s1 tr) as [[s2 f2]|] eqn:E2; [|discriminate].
      injection R as <- <-.
      destruct (phase_eq_idle (ph (cs_st s1) (c_root c))) as [Hi1|Hn1].
      + destruct (IH _ _ _ E2 Hi1 Hn) as [e [He Hr']]. exists e. split; [now right|exact Hr'].
      + destruct ce as [e|]; simpl in E.
        * exists e. split; [now left|].
          destruct (step_opt cs g c (cs_st s0) e) as [[st' fl]|] eqn:ES.
          -- injection E as <- <-. simpl in Hn1.
             eapply step_opt_moves_only_its_node; [exact ES|]. rewrite Hi. exact Hn1.
          -- destruct e; try discriminate E. destruct ok; [discriminate E|].
             destruct (returned (cs_st s0)); [discriminate E|].
             destruct (cs_cancelled s0); [|discriminate E]. injection E as <- <-.
             simpl in Hn1. contradiction.
        * destruct (returned (cs_st s0)); [discriminate|]. injection E as <- <-. simpl in Hn1. contradiction. }
  apply (G tr _ _ _ Ha); [reflexivity|].
  pose proof (crun_sound cs g c tr _ _ _ Ha Hr) as Hs. simpl in Hs.
  destruct (run_ret_true g c full _ _ Hs eq_refl Hr) as [Hd _]. rewrite Hd. discriminate.
Qed.

Lemma examples_cancellation :
  (exists s, caccepts_opt all_set g_ex c_ex [1] [Cancel; Ev (Ret false)] = Some (s, []) /\
             returned (cs_st s) = Some false) /\
  (exists s full, caccepts_opt (fun _ => false) g_ex c_ex [0; 1; 2; 3]
                    [Ev (ExB 3); Ev (ExE 3 true); Ev (TagB 3); Cancel; Ev (TagE 3); Ev (Ret true)] = Some (s, full) /\
                  returned (cs_st s) = Some true /\ tag (cs_st s) = Some 3).
Proof.
  split.
  - eexists. split; [vm_compute; reflexivity|reflexivity].
  - eexists. eexists. split; [vm_compute; reflexivity|]. split; reflexivity.
Qed.
