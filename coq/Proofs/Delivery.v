(* C14 — the channel-level delivery of a batch result (Model/Delivery.v) delivers the
   batch result to every waiting member exactly once, in every interleaving, also to
   receivers that come after the main caller has moved on; its maximal runs have exactly
   the effect of the atomic EComplete of Model/Merge.v. *)
From Oras Require Import Base.Prelude Model.Referrers Model.Merge Proofs.Merge Model.Delivery.
From Coq Require Import Lia.

Lemma remove_tid_In t l x : In x (remove_tid t l) <-> In x l /\ x <> t.
Proof.
  unfold remove_tid. rewrite filter_In, negb_true_iff, Nat.eqb_neq. tauto.
Qed.

Lemma remove_tid_NoDup t l : NoDup l -> NoDup (remove_tid t l).
Proof. unfold remove_tid. apply NoDup_filter. Qed.

Lemma remove_tid_notin t l : ~ In t l -> remove_tid t l = l.
Proof.
  induction l as [|h l IH]; simpl; intro H; auto.
  destruct (Nat.eqb_spec h t) as [->|Hne]; simpl; [tauto|]. f_equal. apply IH. tauto.
Qed.

Lemma remove_tid_length t l : NoDup l -> In t l -> S (length (remove_tid t l)) = length l.
Proof.
  induction l as [|h l IH]; intros N H; [destruct H|].
  inversion N as [|? ? Hn Hd]; subst. simpl.
  destruct (Nat.eqb_spec h t) as [->|Hne]; simpl.
  - f_equal. fold (remove_tid t l). now rewrite remove_tid_notin.
  - destruct H as [H|H]; [congruence|]. f_equal. now apply IH.
Qed.

Definition bufn (d : dstate) : nat := match d_buf d with Some _ => 1 | None => 0 end.

Record DInv (r : result) (ws : list tid) (d : dstate) : Prop := {
  dv_recv : forall t x, In (t, x) (d_received d) -> x = r;
  dv_buf : forall x, d_buf d = Some x -> x = r /\ is_ok r = false;
  dv_nd_w : NoDup (d_waiting d);
  dv_nd_r : NoDup (map fst (d_received d));
  dv_disj : forall t, In t (d_waiting d) -> ~ In t (map fst (d_received d));
  dv_set : forall t, In t ws <-> In t (d_waiting d) \/ In t (map fst (d_received d));
  dv_err : is_ok r = false -> d_closed d = false /\ length (d_waiting d) = (d_remaining d + bufn d)%nat;
  dv_done : d_main_done d = true -> if is_ok r then d_closed d = true else d_remaining d = 0%nat
}.

Lemma dinv_init r ws : NoDup ws -> DInv r ws (dinit ws).
Proof.
  intro N. constructor; simpl; intros; try discriminate; try tauto; auto; try constructor.
  all: try (unfold bufn; simpl; auto; lia).
Qed.

Lemma dstep_inv r ws d e d' : DInv r ws d -> dstep r d e = Some d' -> DInv r ws d'.
Proof.
  intros I H. destruct e; simpl in H.
  - (* DClose *)
    destruct (d_main_done d) eqn:Em; simpl in H; [discriminate|].
    destruct (is_ok r) eqn:Eo; simpl in H; [|discriminate].
    destruct (d_closed d) eqn:Ec; [discriminate|]. injection H as <-.
    destruct I. constructor; simpl; auto; try discriminate. congruence.
  - (* DSend *)
    destruct (d_main_done d) eqn:Em; simpl in H; [discriminate|].
    destruct (is_ok r) eqn:Eo; [discriminate|].
    destruct (d_remaining d) as [|k] eqn:Er; [discriminate|].
    destruct (d_buf d) eqn:Eb; [discriminate|]. injection H as <-.
    destruct I. constructor; simpl; auto; try discriminate.
    + intros x Hx. injection Hx as <-. split; [reflexivity|exact Eo].
    + intros _. destruct (dv_err0 Eo) as [A B]. split; auto.
      unfold bufn in *. simpl. rewrite Eb in B. lia.
  - (* DFinish *)
    destruct (d_main_done d) eqn:Em; [discriminate|].
    destruct (is_ok r) eqn:Eo.
    + destruct (d_closed d) eqn:Ec; [|discriminate]. injection H as <-.
      destruct I. constructor; simpl; auto. all: try (intros _; rewrite Eo; auto). all: try (intro Hq; congruence). all: try (intro Hq; exact (dv_err0 Hq)).
    + destruct (Nat.eqb_spec (d_remaining d) 0) as [Er|]; [|discriminate]. injection H as <-.
      destruct I. constructor; simpl; auto. all: try (intros _; rewrite Eo; auto). all: try (intro Hq; congruence). all: try (intro Hq; exact (dv_err0 Hq)).
  - (* DRecv *)
    destruct (mem t (d_waiting d)) eqn:Ew; [|discriminate]. apply mem_In in Ew.
    destruct I.
    assert (Common : forall x (buf' : option result) cl,
      (x = r) -> (forall y, buf' = Some y -> y = r /\ is_ok r = false) ->
      (is_ok r = false -> cl = false /\ length (remove_tid t (d_waiting d)) = (d_remaining d + match buf' with Some _ => 1 | None => 0 end)%nat) ->
      (d_main_done d = true -> if is_ok r then cl = true else d_remaining d = 0%nat) ->
      DInv r ws (mkD buf' cl (d_remaining d) (d_main_done d) (remove_tid t (d_waiting d)) ((t, x) :: d_received d))).
    { intros x buf' cl Hx Hb He Hd. constructor; simpl; auto.
      - intros t0 x0 [E|E]; [congruence|eauto].
      - now apply remove_tid_NoDup.
      - constructor; auto.
      - intros t0 H0 [E|E]; apply remove_tid_In in H0 as [H0 H1]; [congruence|]. eapply dv_disj0; eauto.
      - intro t0. rewrite dv_set0, remove_tid_In. destruct (Nat.eq_dec t0 t) as [->|Hne]; [tauto|].
        split; [intros [A|A]; auto|intros [[A _]|[A|A]]; auto; congruence]. }
    destruct (d_buf d) as [x|] eqn:Eb.
    + injection H as <-. destruct (dv_buf0 x eq_refl) as [Hx Ho].
      apply Common; auto; try discriminate.
      * intros _. destruct (dv_err0 Ho) as [A B]. split; auto.
        pose proof (remove_tid_length t _ dv_nd_w0 Ew). unfold bufn in B. rewrite Eb in B. lia.
    + destruct (d_closed d) eqn:Ec; [|discriminate]. injection H as <-.
      assert (Ho : is_ok r = true).
      { destruct (is_ok r) eqn:E; auto. destruct (dv_err0 eq_refl). congruence. }
      apply Common; auto; try discriminate.
      all: try solve [destruct r; simpl in Ho; congruence].
      all: try solve [intro E; congruence].
      all: try solve [intros Hm; rewrite Ho; reflexivity].
Qed.

Lemma drun_inv r ws tr : forall d d', DInv r ws d -> drun r d tr = Some d' -> DInv r ws d'.
Proof.
  induction tr as [|e tr IH]; intros d d' I H; simpl in H.
  - now injection H as <-.
  - destruct (dstep r d e) as [d1|] eqn:E; [|discriminate].
    apply (IH d1 d'); [eapply dstep_inv; eauto|exact H].
Qed.

(* a state in which nothing can happen any more: everybody has received, the main caller has left *)
Lemma stuck_done r ws d : DInv r ws d -> dstuck r d -> d_waiting d = [] /\ d_main_done d = true.
Proof.
  intros I S.
  assert (Hw : d_waiting d = []).
  { destruct (d_waiting d) as [|t l] eqn:Ew; auto. exfalso.
    assert (Hm : mem t (d_waiting d) = true) by (apply mem_In; rewrite Ew; now left).
    pose proof (S (DRecv t)) as S1. simpl in S1. rewrite Hm in S1.
    destruct (d_buf d) eqn:Eb; [discriminate|].
    destruct (d_closed d) eqn:Ec; [discriminate|].
    destruct (is_ok r) eqn:Eo.
    - pose proof (S DClose) as S2. simpl in S2. rewrite Eo, Ec in S2.
      destruct (d_main_done d) eqn:Em; [|discriminate].
      pose proof (dv_done _ _ _ I Em) as Hd. rewrite Eo in Hd. congruence.
    - destruct (dv_err _ _ _ I Eo) as [_ Hl]. unfold bufn in Hl. rewrite Eb, Ew in Hl. simpl in Hl.
      pose proof (S DSend) as S2. simpl in S2. rewrite Eo, Eb in S2.
      destruct (d_main_done d) eqn:Em.
      + pose proof (dv_done _ _ _ I Em) as Hd. rewrite Eo in Hd. lia.
      + simpl in S2. destruct (d_remaining d); [lia|discriminate]. }
  split; auto.
  destruct (d_main_done d) eqn:Em; auto. exfalso.
  pose proof (S DFinish) as S1. simpl in S1. rewrite Em in S1.
  destruct (is_ok r) eqn:Eo.
  - destruct (d_closed d) eqn:Ec; [discriminate|].
    pose proof (S DClose) as S2. simpl in S2. rewrite Em, Eo, Ec in S2. discriminate.
  - destruct (dv_err _ _ _ I Eo) as [_ Hl]. rewrite Hw in Hl. simpl in Hl.
    assert (d_remaining d = 0%nat) by lia. rewrite H in S1. discriminate.
Qed.

(* exactly once, with the batch result *)
Lemma delivery_exactly_once r ws tr d :
  NoDup ws -> drun r (dinit ws) tr = Some d ->
  (forall t x, In (t, x) (d_received d) -> In t ws /\ x = r) /\
  NoDup (map fst (d_received d)) /\
  (dstuck r d -> forall t, In t ws -> In (t, r) (d_received d)).
Proof.
  intros N H. pose proof (drun_inv r ws tr _ _ (dinv_init r ws N) H) as I.
  split; [|split; [apply (dv_nd_r _ _ _ I)|]].
  - intros t x Hin. split; [|eapply dv_recv; eauto].
    apply (dv_set _ _ _ I). right. apply in_map_iff. exists (t, x). auto.
  - intros S t Ht. destruct (stuck_done r ws d I S) as [Hw _].
    apply (dv_set _ _ _ I) in Ht. rewrite Hw in Ht. destruct Ht as [[]|Ht].
    apply in_map_iff in Ht as ((t', x) & E & Hin). simpl in E. subst t'.
    now rewrite <- (dv_recv _ _ _ I t x Hin).
Qed.

(* late receivers: when the main caller has moved on to the swap on the error path at most
   one member has not received yet, and its value is waiting in the buffer *)
Lemma late_receiver r ws tr d :
  NoDup ws -> drun r (dinit ws) tr = Some d -> d_main_done d = true -> is_ok r = false ->
  (length (d_waiting d) <= 1)%nat /\ (d_waiting d <> [] -> d_buf d = Some r).
Proof.
  intros N H Hm Ho. pose proof (drun_inv r ws tr _ _ (dinv_init r ws N) H) as I.
  destruct (dv_err _ _ _ I Ho) as [_ Hl]. pose proof (dv_done _ _ _ I Hm) as Hd. rewrite Ho in Hd.
  unfold bufn in Hl. destruct (d_buf d) as [x|] eqn:Eb.
  - split; [lia|]. intros _. now destruct (dv_buf _ _ _ I x Eb) as [-> _].
  - split; [lia|]. intro Hne. destruct (d_waiting d); [congruence|simpl in Hl; lia].
Qed.

(* every run is finite *)
Definition dmu (d : dstate) : nat :=
  (3 * length (d_waiting d) + d_remaining d + (if d_main_done d then 0 else 2) + (if d_closed d then 0 else 1))%nat.

Lemma dstep_decreases r ws d e d' : DInv r ws d -> dstep r d e = Some d' -> (dmu d' < dmu d)%nat.
Proof.
  intros I H. unfold dmu. destruct e; simpl in H.
  - destruct (d_main_done d) eqn:Em; simpl in H; [discriminate|].
    destruct (is_ok r); simpl in H; [|discriminate].
    destruct (d_closed d) eqn:Ec; [discriminate|]. injection H as <-. simpl. rewrite ?Em, ?Ec. lia.
  - destruct (d_main_done d) eqn:Em; simpl in H; [discriminate|].
    destruct (is_ok r); [discriminate|].
    destruct (d_remaining d) as [|k] eqn:Er; [discriminate|].
    destruct (d_buf d); [discriminate|]. injection H as <-. simpl. lia.
  - destruct (d_main_done d) eqn:Em; [discriminate|].
    destruct (if is_ok r then d_closed d else Nat.eqb (d_remaining d) 0); [|discriminate].
    injection H as <-. simpl. lia.
  - destruct (mem t (d_waiting d)) eqn:Ew; [|discriminate]. apply mem_In in Ew.
    pose proof (remove_tid_length t _ (dv_nd_w _ _ _ I) Ew) as Hl.
    destruct (d_buf d).
    + injection H as <-. simpl. lia.
    + destruct (d_closed d) eqn:Ec; [|discriminate]. injection H as <-. simpl. lia.
Qed.

Lemma delivery_bounded r ws tr : forall d d',
  DInv r ws d -> drun r d tr = Some d' -> (length tr + dmu d' <= dmu d)%nat.
Proof.
  induction tr as [|e tr IH]; intros d d' I H; simpl in H.
  - injection H as <-. simpl. lia.
  - destruct (dstep r d e) as [d1|] eqn:E; [|discriminate].
    pose proof (dstep_decreases _ _ _ _ _ I E). pose proof (IH d1 d' (dstep_inv _ _ _ _ _ I E) H). simpl. lia.
Qed.

(* refinement of the delivery step: for a state of the Merge system in which the main
   caller t is about to complete with result r, every maximal run of the channel-level
   delivery to the other members of the batch hands out exactly what the atomic
   EComplete writes into their program counters *)
Lemma delivery_refines_complete s t r tr d :
  InvS s -> pcs s t = Completing r ->
  drun r (dinit (waiters s t)) tr = Some d -> dstuck r d ->
  forall x, x <> t -> In x (batch s) ->
    (forall rr, In (x, rr) (d_received d) <-> complete_pcs s t r x = Ret rr).
Proof.
  intros I Hpc H S x Hne Hin rr.
  assert (N : NoDup (waiters s t)) by (apply remove_tid_NoDup, (i_items_nd s I)).
  destruct (delivery_exactly_once r _ tr d N H) as (A & B & C).
  assert (Hw : In x (waiters s t)) by (apply remove_tid_In; auto).
  assert (Hc : complete_pcs s t r x = Ret r).
  { destruct (complete_pcs_cases s t r x) as [[_ E]|(_ & E & _)]; [exact E|tauto]. }
  rewrite Hc. split.
  - intro Hr. destruct (A x rr Hr) as [_ ->]. reflexivity.
  - intro E. injection E as <-. apply C; auto.
Qed.
