(* C12: unpacking into a set-group-ID working directory.  mkdir(2) makes every new directory
   set-group-ID there; the extraction is otherwise the same run: its file system is the one of
   the ordinary run with the bit added to every directory (simulation), restoreDirModes keeps
   the inherited bit without PreservePermissions and sets the recorded mode exactly with it. *)
From Oras Require Import Base.Prelude Generated.GC12 Model.TarRoundTrip Proofs.TarRoundTrip Proofs.TarModeSweep
  Proofs.TarWalkOrder Proofs.TarRootMode Proofs.TarUnprivileged.

Definition add_sg (n : node) : node :=
  match n with NDir m => NDir (N.lor m sgid) | _ => n end.

Definition Fsg (f : fs) : fs := map (fun pn => (fst pn, add_sg (snd pn))) f.

Lemma lookup_Fsg f p : fs_lookup (Fsg f) p = option_map add_sg (fs_lookup f p).
Proof.
  induction f as [|[q n] f IH]; simpl; [reflexivity|]. destruct (path_eqb q p); [reflexivity|exact IH].
Qed.

Lemma Fsg_set f p n : Fsg (fs_set f p n) = fs_set (Fsg f) p (add_sg n).
Proof. reflexivity. Qed.

Definition no_sgid (f : fs) : Prop := forall p m, fs_lookup f p = Some (NDir m) -> N.land m sgid = 0.
Definition has_base (f : fs) : Prop := exists m, fs_lookup f [] = Some (NDir m).

Lemma is_link_Fsg f p : is_link (fs_lookup (Fsg f) p) = is_link (fs_lookup f p).
Proof. rewrite lookup_Fsg. destruct (fs_lookup f p) as [[| |]|]; reflexivity. Qed.

Lemma check_dirs_Fsg f : forall rest acc, check_dirs (Fsg f) acc rest = check_dirs f acc rest.
Proof.
  induction rest as [|x rest IH]; intro acc; simpl; [reflexivity|].
  destruct rest; [reflexivity|]. now rewrite is_link_Fsg, IH.
Qed.

Lemma parent_is_dir_Fsg f rel : parent_is_dir (Fsg f) rel = parent_is_dir f rel.
Proof.
  unfold parent_is_dir. destruct rel; [reflexivity|]. rewrite lookup_Fsg.
  destruct (fs_lookup f (parent (n :: rel))) as [[| |]|]; reflexivity.
Qed.

Lemma has_children_Fsg f p : has_children (Fsg f) p = has_children f p.
Proof.
  unfold has_children, Fsg. induction f as [|[q n] f IH]; simpl; [reflexivity|]. now rewrite IH.
Qed.

Lemma link_ok_Fsg pre f rel tg : link_ok pre (Fsg f) rel tg = link_ok pre f rel tg.
Proof.
  unfold link_ok. destruct (is_abs tg); [reflexivity|].
  destruct (link_target_path pre rel tg); [|reflexivity]. now rewrite check_dirs_Fsg.
Qed.

Definition map_res (r : res fs) : res fs := match r with Ok f => Ok (Fsg f) | Err x => Err x end.

Lemma land_lor_sgid pm : N.land pm sgid = 0 -> N.land (N.lor pm sgid) sgid = sgid.
Proof.
  intro Hp. rewrite N.land_lor_distr_l, Hp, N.lor_0_l. apply N.land_diag.
Qed.

(* MkdirAll: below an existing base every new directory inherits the bit *)
Lemma mkdir_all_Fsg umask m : forall rp f,
  no_sgid f -> has_base f ->
  mkdir_all umask m (Fsg f) rp = map_res (mkdir_all umask m f rp) /\
  (forall f', mkdir_all umask m f rp = Ok f' -> no_sgid f' /\ has_base f').
Proof.
  induction rp as [|x rp IH]; intros f Hn Hb.
  - simpl. rewrite lookup_Fsg. destruct Hb as [mb Hb]. rewrite Hb. simpl. split; [reflexivity|].
    intros f' E. injection E as <-. split; [exact Hn|now exists mb].
  - simpl. rewrite lookup_Fsg.
    destruct (fs_lookup f (rev rp ++ [x])) as [[c m0|m0|g]|] eqn:E; simpl.
    + split; [reflexivity|discriminate].
    + split; [reflexivity|]. intros f' E'. injection E' as <-. now split.
    + split; [reflexivity|discriminate].
    + destruct (IH f Hn Hb) as [IH1 IH2]. rewrite IH1.
      destruct (mkdir_all umask m f rp) as [f1|e] eqn:E1; simpl; [|split; [reflexivity|discriminate]].
      destruct (IH2 f1 eq_refl) as [Hn1 Hb1].
      assert (Hinh : inherited_sgid (Fsg f1) (rev rp) = match fs_lookup f1 (rev rp) with Some (NDir _) => sgid | _ => 0 end
                     /\ inherited_sgid f1 (rev rp) = 0).
      { unfold inherited_sgid. rewrite lookup_Fsg. destruct (fs_lookup f1 (rev rp)) as [[| pm |]|] eqn:Ep; simpl; try (split; reflexivity).
        split; [apply land_lor_sgid; exact (Hn1 _ _ Ep)|exact (Hn1 _ _ Ep)]. }
      destruct Hinh as [Hi1 Hi2]. rewrite Hi1, Hi2, N.lor_0_r.
      (* the parent exists as a directory after MkdirAll of the parent path *)
      assert (Hpar : exists pm, fs_lookup f1 (rev rp) = Some (NDir pm)).
      { clear - E1. revert f f1 E1. destruct rp as [|y rp]; intros f f1 E1; simpl in *.
        - destruct (fs_lookup f []) as [[| pm |]|] eqn:E0; try discriminate; injection E1 as <-; [now exists pm|].
          eexists. apply lookup_set_same.
        - destruct (fs_lookup f (rev rp ++ [y])) as [[| pm |]|] eqn:E0; try discriminate.
          + injection E1 as <-. now exists pm.
          + destruct (mkdir_all umask m f rp); [|discriminate]. injection E1 as <-. eexists. apply lookup_set_same. }
      destruct Hpar as [pm Hpm]. rewrite Hpm. split; [reflexivity|].
      intros f' E'. injection E' as <-. split.
      * intros p m1. rewrite lookup_set. destruct (path_eqb (rev rp ++ [x]) p); [|apply Hn1].
        intro E2. injection E2 as <-. apply create_dir_no_sgid.
      * destruct Hb1 as [mb Hb1]. exists mb. rewrite lookup_set_other; [exact Hb1|].
        intro E2. apply (f_equal (@length _)) in E2. rewrite app_length in E2. simpl in E2. lia.
Qed.

Lemma set_no_sgid f0 p n :
  match n with NDir _ => False | _ => True end -> no_sgid f0 -> no_sgid (fs_set f0 p n).
Proof.
  intros Hnd Hn0 q m. rewrite lookup_set. destruct (path_eqb p q); [|apply Hn0].
  intro E. injection E as ->. destruct Hnd.
Qed.

Ltac split_all :=
  repeat match goal with
  | |- context [if ?c then _ else _] => destruct c eqn:?
  | |- context [match ?x with _ => _ end] => destruct x eqn:?
  end.

(* one entry: same verdict, file system with the bit added; the invariants are kept *)
Lemma extract_entry_Fsg pre umask preserve f e :
  no_sgid f -> has_base f ->
  extract_entry pre umask preserve (Fsg f) e = map_res (extract_entry pre umask preserve f e) /\
  (forall f', extract_entry pre umask preserve f e = Ok f' -> no_sgid f' /\ has_base f').
Proof.
  intros Hn Hb. unfold extract_entry.
  destruct (strip_prefix pre (e_name e)) as [rel|]; [|split; [reflexivity|discriminate]].
  rewrite check_dirs_Fsg. destruct (check_dirs f [] rel); simpl; [|split; [reflexivity|discriminate]].
  destruct (e_kind e) as [c| |tg].
  - (* regular file *)
    rewrite lookup_Fsg, parent_is_dir_Fsg.
    destruct (fs_lookup f rel) as [[c0 m0|m0|g]|] eqn:El; simpl.
    + split; [destruct preserve; reflexivity|]. intros f' E. injection E as <-.
      destruct Hb as [mb Hb]. split.
      * destruct preserve; repeat (apply set_no_sgid; [exact I|]); exact Hn.
      * exists mb. destruct preserve; repeat rewrite lookup_set; destruct (path_eqb rel []) eqn:Er; try exact Hb;
          apply path_eqb_spec in Er; subst rel; rewrite Hb in El; discriminate.
    + split; [reflexivity|discriminate].
    + destruct (parent_is_dir f rel); [|split; [reflexivity|discriminate]].
      split; [destruct preserve; reflexivity|]. intros f' E. injection E as <-.
      destruct Hb as [mb Hb]. split.
      * destruct preserve; repeat (apply set_no_sgid; [exact I|]); exact Hn.
      * exists mb. destruct preserve; repeat rewrite lookup_set; destruct (path_eqb rel []) eqn:Er; try exact Hb;
          apply path_eqb_spec in Er; subst rel; rewrite Hb in El; discriminate.
    + destruct (parent_is_dir f rel); [|split; [reflexivity|discriminate]].
      split; [destruct preserve; reflexivity|]. intros f' E. injection E as <-.
      destruct Hb as [mb Hb]. split.
      * destruct preserve; repeat (apply set_no_sgid; [exact I|]); exact Hn.
      * exists mb. destruct preserve; repeat rewrite lookup_set; destruct (path_eqb rel []) eqn:Er; try exact Hb;
          apply path_eqb_spec in Er; subst rel; rewrite Hb in El; discriminate.
  - (* directory *)
    exact (mkdir_all_Fsg umask (N.lor (e_mode e) owner_rwx) (rev rel) f Hn Hb).
  - (* symbolic link *)
    destruct (is_root rel) eqn:Er; [split; [reflexivity|discriminate]|].
    rewrite link_ok_Fsg. destruct (link_ok pre f rel tg); [|split; [reflexivity|discriminate]].
    rewrite lookup_Fsg, parent_is_dir_Fsg, has_children_Fsg.
    assert (Hrel : rel <> []) by (intro E; subst rel; discriminate).
    assert (Hfin : no_sgid (fs_set f rel (NLink tg)) /\ has_base (fs_set f rel (NLink tg))).
    { split; [apply set_no_sgid; [exact I|exact Hn]|]. destruct Hb as [mb Hb]. exists mb.
      rewrite lookup_set_other; [exact Hb|exact Hrel]. }
    destruct (fs_lookup f rel) as [[c0 m0|m0|g]|] eqn:El; simpl.
    + split; [reflexivity|]. intros f' E. injection E as <-. exact Hfin.
    + destruct (has_children f rel); [split; [reflexivity|discriminate]|].
      split; [reflexivity|]. intros f' E. injection E as <-. exact Hfin.
    + split; [reflexivity|]. intros f' E. injection E as <-. exact Hfin.
    + destruct (parent_is_dir f rel); [|split; [reflexivity|discriminate]].
      split; [reflexivity|]. intros f' E. injection E as <-. exact Hfin.
Qed.

Lemma extract_list_Fsg pre umask preserve : forall es f,
  no_sgid f -> has_base f ->
  extract_list pre umask preserve (Fsg f) es = map_res (extract_list pre umask preserve f es).
Proof.
  induction es as [|e es IH]; intros f Hn Hb; simpl; [reflexivity|].
  destruct (extract_entry_Fsg pre umask preserve f e Hn Hb) as [E1 E2]. rewrite E1.
  destruct (extract_entry pre umask preserve f e) as [f1|x]; simpl; [|reflexivity].
  destruct (E2 f1 eq_refl) as [Hn1 Hb1]. now apply IH.
Qed.

(* ---------- restoreDirModes keeps the inherited bit ---------- *)
Lemma narrow_lor_sgid cur m : narrow_mode (N.lor cur sgid) m = N.lor (narrow_mode cur m) sgid.
Proof.
  apply N.bits_inj. intro i. unfold narrow_mode, perm_bits, sgid. bit_specs.
  destruct (N.lt_ge_cases i 12) as [Hi|Hi].
  - assert (Hc : i = 0 \/ i = 1 \/ i = 2 \/ i = 3 \/ i = 4 \/ i = 5 \/ i = 6 \/ i = 7 \/
                 i = 8 \/ i = 9 \/ i = 10 \/ i = 11) by lia.
    repeat (destruct Hc as [Hc|Hc]; [subst i; const_bits; var_bits; reflexivity|]).
    subst i; const_bits; var_bits; reflexivity.
  - rewrite (testbit_small 3584 12 i), (testbit_small 511 12 i), (testbit_small 1024 12 i)
      by (first [reflexivity|exact Hi]).
    now rewrite !andb_false_r, !orb_false_r.
Qed.

Lemma fs_init_sg_Fsg umask : fs_init_sg umask sgid = Fsg (fs_init umask).
Proof. reflexivity. Qed.

Lemma no_sgid_init umask : no_sgid (fs_init umask) /\ has_base (fs_init umask).
Proof.
  split.
  - intros p m E. unfold fs_init in E. destruct p; simpl in E; [|discriminate].
    injection E as <-. apply create_dir_no_sgid.
  - eexists. reflexivity.
Qed.

(* any archive: the run into a set-group-ID working directory is the ordinary run with the bit
   added to every directory, up to restoreDirModes *)
Theorem extract_list_setgid pre umask preserve es :
  extract_list pre umask preserve (fs_init_sg umask sgid) es
  = map_res (extract_list pre umask preserve (fs_init umask) es).
Proof.
  rewrite fs_init_sg_Fsg. destruct (no_sgid_init umask) as [Hn Hb]. now apply extract_list_Fsg.
Qed.

(* ---------- the round trip into a set-group-ID working directory ---------- *)
Theorem roundtrip_setgid_entries pre umask preserve repro T :
  (preserve = false -> umask <= 511) ->
  is_dir T = true -> wf_treeb T = true -> modes_okb T = true -> benign_tree pre T = true ->
  exists f', extract_sg sgid pre umask preserve (entries pre repro [] T) = Ok f' /\
    forall p, fs_lookup f' p = expected_sg sgid umask preserve T p.
Proof.
  intros Hu Hd Hwf Hmo Hbe.
  destruct (extract_list_mid pre umask preserve repro T Hd Hwf Hmo Hbe) as (f' & E & L).
  unfold extract_sg. rewrite extract_list_setgid, E. simpl. eexists. split; [reflexivity|]. intro p.
  unfold finish_dirs. rewrite finish_lookup.
  pose proof (last_dir_mode_tree pre repro T [] p Hwf) as Hl. simpl in Hl. rewrite Hl, lookup_Fsg, L.
  unfold expected_sg, expected_mid_top, expected_mid.
  destruct (tree_get T p) as [[c m mt|tg mt|m mt ch]|] eqn:Eg; simpl.
  - destruct p; [destruct T; try discriminate; simpl in Eg; discriminate|reflexivity].
  - destruct p; [destruct T; try discriminate; simpl in Eg; discriminate|reflexivity].
  - pose proof (modes_get p T m mt ch Hmo Eg) as Hm.
    assert (Hfin : forall cur, cur = mid_dir_mode umask m \/ cur = N.ldiff 511 umask ->
              final_dir_mode preserve (N.lor cur sgid) m = (if preserve then m else N.lor (N.ldiff m umask) sgid)).
    { intros cur Hc. unfold final_dir_mode. destruct preserve.
      - unfold chmod_mode, file_create_bits. change 4095 with (N.ones 12).
        apply land_small. change (2 ^ 12) with 4096. lia.
      - rewrite narrow_lor_sgid. f_equal.
        destruct (narrow_ok umask m Hm (Hu eq_refl)) as [H1 H2]. destruct Hc as [-> | ->]; assumption. }
    destruct p as [|n p].
    + destruct T as [| |m0 mt0 ch0]; try discriminate. simpl in Eg. injection Eg as -> -> ->.
      simpl. f_equal. f_equal. apply Hfin. now right.
    + try rewrite Eg. simpl. f_equal. f_equal. apply Hfin. now left.
  - destruct p; [destruct T; discriminate|]. try rewrite Eg. reflexivity.
Qed.

Lemma expected_sg_sort sg umask preserve T p :
  wf_treeb T = true -> expected_sg sg umask preserve (sort_tree T) p = expected_sg sg umask preserve T p.
Proof.
  intro Hwf. unfold expected_sg. rewrite (tree_get_sort p T Hwf).
  destruct (tree_get T p) as [[| |]|]; reflexivity.
Qed.

Theorem roundtrip_setgid pre umask preserve repro T :
  (preserve = false -> umask <= 511) ->
  is_dir T = true -> wf_treeb T = true -> modes_okb T = true -> benign_tree pre T = true ->
  exists f', extract_sg sgid pre umask preserve (tar_entries pre repro T) = Ok f' /\
    forall p, fs_lookup f' p = expected_sg sgid umask preserve T p.
Proof.
  intros Hu Hd Hwf Hmo Hbe.
  destruct (roundtrip_setgid_entries pre umask preserve repro (sort_tree T) Hu) as (f' & E & L).
  - destruct T; try discriminate; reflexivity.
  - now rewrite wf_sort.
  - now rewrite modes_sort.
  - now rewrite benign_tree_sort.
  - exists f'. split; [exact E|]. intro p. rewrite L. now apply expected_sg_sort.
Qed.

(* an ordinary working directory is the case sg = 0 *)
Lemma extract_sg_0 pre umask preserve es : extract_sg 0 pre umask preserve es = extract pre umask preserve es.
Proof. unfold extract_sg, extract, fs_init_sg, fs_init. now rewrite N.lor_0_r. Qed.
