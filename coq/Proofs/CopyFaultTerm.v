(* CopyFaultTerm: a potential function for the spec-level system without Mounter.  Every event of CopySpec
   other than a return and a failing callback moves exactly one node strictly forward through its phases, so a
   fault-free run has a bounded number of operation events; with the no-stuck-state theorem: from every state
   reached by a fault-free accepted trace there is a finite fault-free continuation to the successful return. *)
From Oras Require Import Base.Prelude Model.CopySpec Model.CopyTop Model.CopyOpt Model.CopyFault
  Proofs.CopySpec Proofs.CopyFault Proofs.CopyFaultLive.
Local Open Scope nat_scope.

Ltac simp_st := cbn [set_ph ph dst cached tag returned] in *.

Definition weight (p : phase) : nat :=
  match p with
  | Idle => 15 | ExQ _ => 14 | NeedFetch => 13 | MF1 => 12 | MF2 => 11 | Waiting => 10
  | Rdy _ => 9 | F1 _ => 8 | F2 _ => 7 | Pushing _ true => 6 | Pushing _ false => 5
  | Closing _ => 4 | SkipP => 4 | TagP0 _ => 3 | TagP1 _ => 2 | PostP => 1
  | Done => 0 | Dead => 0
  | MtRdy | Mounting | MtPre | MtF1 | MtF2 | MtC | MountedP => 0
  end.

Fixpoint wsum (f : node -> phase) (l : list node) : nat :=
  match l with [] => 0 | n :: r => weight (f n) + wsum f r end.

Definition measure (g : graph) (st : state) : nat := wsum (ph st) (seq 0 (g_n g)).

Lemma wsum_upd_notin f n p l : ~ In n l -> wsum (upd f n p) l = wsum f l.
Proof.
  induction l as [|a l IH]; simpl; intro H; [reflexivity|].
  rewrite IH by tauto. rewrite upd_other by (intro E; apply H; left; congruence). reflexivity.
Qed.

Lemma wsum_upd_lt f n p l : NoDup l -> In n l -> weight p < weight (f n) -> wsum (upd f n p) l < wsum f l.
Proof.
  induction l as [|a l IH]; simpl; intros Hnd Hin Hw; [contradiction|].
  inversion Hnd as [|? ? Hna Hnd']; subst.
  destruct Hin as [->|Hin].
  - rewrite upd_same, wsum_upd_notin by assumption. lia.
  - assert (a <> n) by (intro E; subst; contradiction).
    rewrite upd_other by assumption. specialize (IH Hnd' Hin Hw). lia.
Qed.

Lemma measure_upd (g : graph) f n p : n < g_n g -> weight p < weight (f n) ->
  wsum (upd f n p) (seq 0 (g_n g)) < wsum f (seq 0 (g_n g)).
Proof. intros Hn Hw. apply wsum_upd_lt; auto. apply seq_NoDup. apply in_seq. lia. Qed.

Section T.
Variable g : graph.
Variable c : cfg.
Variable d0 : list node.
Hypothesis nomount : c_mount c = false.

Lemma step_measure st e st' : Inv g c d0 st -> step g c st e = Some st' ->
  (forall k m, e <> CbFail k m) -> (forall b, e <> Ret b) ->
  measure g st' < measure g st.
Proof.
  intros I H Hcf Hrt. unfold measure.
  pose proof (i_bound g c d0 st I) as IB. pose proof (i_mt g c d0 st I) as IM.
  step_inv H; simp_st;
    try (exfalso; eapply Hcf; reflexivity); try (exfalso; eapply Hrt; reflexivity).
  all: try (apply measure_upd;
            [ first [ now apply Nat.ltb_lt | apply IB; congruence ]
            | match goal with Hp : ph _ ?n = _ |- context [weight (ph _ ?n)] => rewrite Hp end;
              unfold after_push, after_tag;
              repeat match goal with |- context [if ?b then _ else _] => destruct b end;
              simpl; lia ]).
  all: exfalso.
  all: try (match goal with Hp : ph _ ?n = _ |- _ =>
              destruct (IM n) as [Hc _]; [rewrite Hp; reflexivity | congruence] end).
  all: try (match goal with Hm : mount_applies g c _ _ = true |- _ =>
              unfold mount_applies in Hm; rewrite nomount in Hm; discriminate end).
Qed.

Variable ext : bool.

Definition is_ev (fe : fevent) : bool := match fe with Ev _ => true | _ => false end.
Definition count_ev (tr : list fevent) : nat := length (filter is_ev tr).

(* what a fault-free step does to a plain state *)
Lemma nofault_fstep fs fe fs' : Inv g c d0 (fb fs) -> plain fs -> fstep g c ext fs fe = Some fs' ->
  is_fault fe = false ->
  plain fs' /\
  ((fe = ProOk /\ fs' = fs) \/
   (exists b, fe = Ev (Ret b) /\ returned (fb fs') = Some b) \/
   (exists e, fe = Ev e /\ returned (fb fs') = None /\ measure g (fb fs') < measure g (fb fs))).
Proof.
  intros I [Hc [Ha Hrd]] H Hf. apply fstep_inv in H as [Hr H].
  destruct H; simpl in Hf; try discriminate.
  - split; [repeat split; assumption|]. right. left. exists true. split; reflexivity.
  - split; [repeat split; assumption|]. right. left. exists false. split; reflexivity.
  - rewrite Hrd in H1. discriminate.
  - split; [repeat split; assumption|]. right. right. exists e. split; [reflexivity|]. split.
    + cbn [fb with_base]. rewrite <- Hr. eapply step_returned; eauto.
    + cbn [fb with_base]. eapply step_measure; eauto. intros k m ->. discriminate.
  - split; [repeat split; assumption|]. left. split; reflexivity.
Qed.

Lemma nofault_ev_bound tr : forall fs fs', Inv g c d0 (fb fs) -> plain fs -> returned (fb fs) = None ->
  frun g c ext fs tr = Some fs' -> existsb is_fault tr = false ->
  count_ev tr <= measure g (fb fs) + 1.
Proof.
  induction tr as [|fe tr IH]; intros fs fs' I Hp Hr H Hf; [unfold count_ev; simpl; lia|].
  simpl in H. destruct (fstep g c ext fs fe) as [fs1|] eqn:E; [|discriminate].
  simpl in Hf. apply orb_false_iff in Hf as [Hf1 Hf2].
  destruct (nofault_fstep _ _ _ I Hp E Hf1) as [Hp1 [[-> ->]|[[b [-> Hb]]|[e [-> [Hn Hm]]]]]].
  - unfold count_ev in *. simpl. eapply IH; eauto.
  - destruct tr as [|fe2 tr2].
    + unfold count_ev. simpl. lia.
    + simpl in H. rewrite (fstep_after_ret g c ext fs1 fe2 b Hb) in H. discriminate.
  - pose proof (fstep_preserves_inv g c ext d0 _ _ _ I E) as I1.
    specialize (IH fs1 fs' I1 Hp1 Hn H Hf2). unfold count_ev in *. simpl. lia.
Qed.

End T.

(* ---- a fault-free continuation to the successful return always exists ---- *)
Section C.
Variable g : graph.
Variable c : cfg.
Variable ext : bool.
Variable d0 : list node.
Variable rank : node -> nat.
Hypothesis rank_dec : forall n x, In x (succ' g n) -> rank x < rank n.
Hypothesis K_pos : 1 <= c_K c.
Hypothesis root_in : c_root c < g_n g.
Hypothesis xroots_in : forall x, In x (c_xroots c) -> x < g_n g.
Hypothesis succ_in : forall n x, n < g_n g -> In x (succ' g n) -> x < g_n g.
Hypothesis nomount : c_mount c = false.
Hypothesis virt_nopred : ext = true -> forall n, ~ In (c_root c) (succ' g n).

Lemma fcompletes_state : forall m fs, measure g (fb fs) < m ->
  Inv g c d0 (fb fs) -> P1 g (fb fs) -> P2 (fb fs) -> Wv c ext (fb fs) -> plain fs -> tainted g fs = false ->
  returned (fb fs) = None ->
  exists tr fs', existsb is_fault tr = false /\ frun g c ext fs tr = Some fs' /\ returned (fb fs') = Some true.
Proof.
  induction m as [|m IH]; intros fs Hm I H1 H2 Hw Hp Ht Hr; [lia|].
  destruct (fprogress_state g c ext d0 rank rank_dec K_pos root_in xroots_in succ_in nomount virt_nopred fs I H1 H2 Hw Hr)
    as [e [fs1 [Hf E]]].
  destruct (nofault_fstep g c d0 nomount ext _ _ _ I Hp E Hf) as [Hp1 [[Hx _]|[[b [Hb Hrb]]|[e' [He [Hn Hlt]]]]]].
  - discriminate.
  - destruct b.
    + exists [Ev e]. exists fs1. split; [cbn [existsb]; rewrite Hf; reflexivity|]. split; [cbn [frun]; now rewrite E|assumption].
    + exfalso. injection Hb as ->. apply fstep_inv in E as [_ E]. inversion E; subst; try congruence;
      match goal with Hx : forall b, Ret false <> Ret b |- _ => exact (Hx false eq_refl) end.
  - destruct (P12_fstep g c ext d0 _ _ _ I H1 H2 E) as [A B].
    destruct (IH fs1) as [tr [fs' [Hnf [Hrun Hret]]]]; auto.
    + lia.
    + eapply fstep_preserves_inv; eauto.
    + eapply Wv_fstep; eauto.
    + eapply untainted_step; eauto.
    + exists (Ev e :: tr). exists fs'. split; [cbn [existsb]; rewrite Hf, Hnf; reflexivity|]. split; [cbn [frun]; now rewrite E|assumption].
Qed.

(* from every state reached by a FAULT-FREE accepted trace that has not returned: a finite fault-free
   continuation reaches the successful return, and every fault-free run has at most measure + 1 events *)
Theorem fnofault_completes tr fs : ext_ok g c ext d0 ->
  faccepts g c ext d0 tr = Some fs -> existsb is_fault tr = false -> returned (fb fs) = None ->
  exists tr2 fs2, existsb is_fault tr2 = false /\
    faccepts g c ext d0 (tr ++ tr2) = Some fs2 /\ returned (fb fs2) = Some true.
Proof.
  intros Hx Ha Hf Hr.
  pose proof (fnofault_no_error g c ext d0 tr fs Ha Hf) as [Ht _].
  unfold faccepts in Ha.
  pose proof (frun_inv g c ext d0 tr _ _ (finit_inv g c ext d0 Hx) Ha) as I.
  destruct (P12_init g c ext d0) as [A B].
  destruct (P12_run g c ext d0 tr _ _ (finit_inv g c ext d0 Hx) A B Ha) as [H1 H2].
  assert (Hw : Wv c ext (fb fs)) by (eapply Wv_run; eauto; apply Wv_init).
  assert (Hp : plain fs).
  { clear - Ha Hf Hx nomount. revert Ha.
    assert (G : forall tr fs0 fs1, Inv g c d0 (fb fs0) -> plain fs0 -> frun g c ext fs0 tr = Some fs1 ->
                existsb is_fault tr = false -> plain fs1).
    { induction tr0 as [|fe tr0 IH]; simpl; intros fs0 fs1 I0 Hp0 H0 Hf0; [injection H0 as <-; auto|].
      destruct (fstep g c ext fs0 fe) as [fsx|] eqn:E; [|discriminate].
      apply orb_false_iff in Hf0 as [Hf1 Hf2].
      destruct (nofault_fstep g c d0 nomount ext _ _ _ I0 Hp0 E Hf1) as [Hpx _].
      exact (IH fsx fs1 (fstep_preserves_inv g c ext d0 _ _ _ I0 E) Hpx H0 Hf2). }
    intro Ha. eapply G; eauto.
    - apply finit_inv; auto.
    - unfold finit. repeat split; reflexivity. }
  destruct (fcompletes_state (S (measure g (fb fs))) fs (Nat.lt_succ_diag_r _) I H1 H2 Hw Hp Ht Hr)
    as [tr2 [fs2 [Hnf [Hrun Hret]]]].
  exists tr2. exists fs2. split; [exact Hnf|]. split; [|exact Hret].
  unfold faccepts. clear - Ha Hrun. revert Ha Hrun. generalize (finit c ext d0).
  induction tr as [|fe tr IH]; simpl; intros f0 Ha Hrun.
  - injection Ha as ->. exact Hrun.
  - destruct (fstep g c ext f0 fe) as [f1|]; [|discriminate]. eauto.
Qed.

End C.

Lemma weight_le p : weight p <= 15.
Proof. destruct p; simpl; try lia; destruct rd; lia. Qed.

Lemma wsum_le f l : wsum f l <= 15 * length l.
Proof. induction l as [|a l IH]; simpl; [lia|]. pose proof (weight_le (f a)). lia. Qed.

(* a fault-free accepted trace has at most 15 * |universe| + 1 operation / callback / return events *)
Theorem fnofault_bounded (g : graph) (c : cfg) (ext : bool) (d0 : list node) tr fs :
  ext_ok g c ext d0 -> c_mount c = false ->
  faccepts g c ext d0 tr = Some fs -> existsb is_fault tr = false ->
  count_ev tr <= 15 * g_n g + 1.
Proof.
  intros Hx Hnm Ha Hf. unfold faccepts in Ha.
  pose proof (nofault_ev_bound g c d0 Hnm ext tr (finit c ext d0) fs (finit_inv g c ext d0 Hx)) as H.
  assert (Hp : plain (finit c ext d0)) by (unfold finit; repeat split; reflexivity).
  assert (Hr : returned (fb (finit c ext d0)) = None) by (unfold finit; cbn [fb]; destruct ext; reflexivity).
  specialize (H Hp Hr Ha Hf).
  pose proof (wsum_le (ph (fb (finit c ext d0))) (seq 0 (g_n g))) as Hw. rewrite seq_length in Hw.
  unfold measure in H. lia.
Qed.

(* the retry clause in one statement at the level of the spec system: whatever a first call left (any accepted
   trace: failed, cancelled, abandoned), a fault-free second call that has not returned yet can be continued,
   fault-free and finitely, to the successful return, and then everything reachable from its roots is there *)
Theorem frerun_completes (g : graph) (c1 c2 : cfg) (ext1 ext2 : bool) (d0 : list node) (rank : node -> nat)
        tr1 fs1 tr2 fs2 :
  (forall n x, In x (succ' g n) -> rank x < rank n) ->
  1 <= c_K c2 -> c_root c2 < g_n g -> (forall x, In x (c_xroots c2) -> x < g_n g) ->
  (forall n x, n < g_n g -> In x (succ' g n) -> x < g_n g) ->
  c_mount c2 = false -> (ext2 = true -> forall n, ~ In (c_root c2) (succ' g n)) ->
  ext_ok g c1 ext1 d0 -> closed_nodes g d0 -> mt_consistent g ->
  faccepts g c1 ext1 d0 tr1 = Some fs1 ->
  ext_ok g c2 ext2 (dst (fb fs1)) ->
  faccepts g c2 ext2 (dst (fb fs1)) tr2 = Some fs2 -> existsb is_fault tr2 = false -> returned (fb fs2) = None ->
  exists tr3 fs3, existsb is_fault tr3 = false /\
    faccepts g c2 ext2 (dst (fb fs1)) (tr2 ++ tr3) = Some fs3 /\ returned (fb fs3) = Some true /\
    forall r n, is_call_root g c2 ext2 r -> reach g r n -> has g (dst (fb fs3)) n = true.
Proof.
  intros Hrk HK Hroot Hxr Hsu Hnm Hvp Hx1 Hc Hmt Ha1 Hx2 Ha2 Hnf Hr.
  destruct (fnofault_completes g c2 ext2 (dst (fb fs1)) rank Hrk HK Hroot Hxr Hsu Hnm Hvp tr2 fs2 Hx2 Ha2 Hnf Hr)
    as [tr3 [fs3 [Hnf3 [Ha3 Hret]]]].
  exists tr3. exists fs3. split; [exact Hnf3|]. split; [exact Ha3|]. split; [exact Hret|].
  apply (fclosure g c2 ext2 (dst (fb fs1)) (tr2 ++ tr3) fs3 Hx2); auto.
  exact (fclosed_always g c1 ext1 d0 tr1 fs1 Hx1 Hc Ha1).
Qed.
