(* Lemmas about Model/Verify.v (property C05). *)
From Oras Require Import Base.Prelude Generated.GC05 Model.Verify.
From Coq Require Import Lia ZArith.

Local Open Scope nat_scope.

Ltac fin := repeat split; auto; try (simpl; lia); try discriminate.

(* ------------------------------------------------------------------ scripted reader *)
Lemma script_read_spec comb evs k bs e evs' :
  script_read comb evs k = ((bs, e), evs') ->
  stream evs = bs ++ stream evs' /\ length bs <= k /\ (e = Some EEof -> evs' = []).
Proof.
  destruct evs as [|[d| |] r]; simpl; intro E.
  - inversion E; subst. fin.
  - destruct (length d <=? k) eqn:L.
    + apply Nat.leb_le in L. destruct comb.
      * destruct r as [|[d'| |] r']; inversion E; subst; simpl; repeat split; auto; try discriminate.
      * inversion E; subst. fin.
    + inversion E; subst. simpl. rewrite app_assoc, firstn_skipn. repeat split; auto.
      * apply firstn_le_length.
      * discriminate.
  - inversion E; subst. fin.
  - inversion E; subst. fin.
Qed.

Definition lim_none (s : base) : bool := match b_lim s with None => true | Some _ => false end.

Lemma clamp_le k n : (0 < n)%Z -> clamp k n <= k /\ (Z.of_nat (clamp k n) <= n)%Z.
Proof. unfold clamp. intro Hn. destruct (Z.of_nat k >? n)%Z eqn:E; lia. Qed.

Lemma base_read_spec comb s k bs e s' :
  base_read comb s k = ((bs, e), s') ->
  stream (b_evs s) = bs ++ stream (b_evs s') /\ length bs <= k /\
  lim_none s' = lim_none s /\
  (lim_none s = true -> e = Some EEof -> b_evs s' = []).
Proof.
  unfold base_read, lim_none. destruct s as [evs [n|]]; simpl.
  - destruct (n <=? 0)%Z eqn:En.
    + intro E; inversion E; subst; simpl. fin.
    + destruct (script_read comb evs (clamp k n)) as [[bs0 e0] evs0] eqn:Es.
      intro E; inversion E; subst; simpl. apply script_read_spec in Es as (A & B & C).
      assert (0 < n)%Z by lia. pose proof (clamp_le k n H).
      fin.
  - destruct (script_read comb evs k) as [[bs0 e0] evs0] eqn:Es.
    intro E; inversion E; subst; simpl. apply script_read_spec in Es as (A & B & C).
    repeat split; auto.
Qed.

Section Proofs.
  Variable H : str -> str -> str.
  Variable comb : bool.

  Notation vr_read := (vr_read comb).
  Notation vr_verify := (vr_verify H comb).
  Notation tee_read := (tee_read comb).

  (* ---------------------------------------------------------------- ensureEOF *)
  Lemma read_full_tee fuel : forall b h want acc acc' e b' h',
    read_full tee_read fuel (b, h) want acc = ((acc', e), (b', h')) ->
    exists d, acc' = acc ++ d /\ h' = h ++ d /\ stream (b_evs b) = d ++ stream (b_evs b') /\
              lim_none b' = lim_none b /\
              (e = Some EEof -> length acc' < want /\ (lim_none b = true -> b_evs b' = [])).
  Proof.
    induction fuel as [|f IH]; intros b h want acc acc' e b' h'; simpl.
    - destruct (want <=? length acc) eqn:W; intro E; inversion E; subst;
        exists []; rewrite !app_nil_r; repeat split; auto; discriminate.
    - destruct (want <=? length acc) eqn:W.
      { intro E; inversion E; subst. exists []; rewrite !app_nil_r; repeat split; auto; discriminate. }
      unfold tee_read at 1. simpl.
      destruct (base_read comb b (want - length acc)) as [[bs e0] b1] eqn:Eb.
      apply base_read_spec in Eb as (A & B & C & D).
      destruct e0 as [e0|].
      + destruct (want <=? length (acc ++ bs)) eqn:W2.
        { intro E; inversion E; subst. exists bs. repeat split; auto; discriminate. }
        apply Nat.leb_gt in W2.
        destruct ((0 <? length (acc ++ bs)) && is_eof e0) eqn:G; intro E; inversion E; subst;
          exists bs; repeat split; auto; try discriminate.
      + intro E. apply IH in E as (d & E1 & E2 & E3 & E4 & E5).
        exists (bs ++ d). subst acc' h'. rewrite A, E3, !app_assoc.
        split; [reflexivity|]. split; [reflexivity|]. split; [reflexivity|]. split; [congruence|].
        intro Ee. destruct (E5 Ee) as [P Q]. split; [exact P|]. intro L. apply Q. congruence.
  Qed.

  Lemma ensure_eof_spec fuel b h ok b' h' :
    ensure_eof comb fuel (b, h) = (ok, (b', h')) ->
    lim_none b' = lim_none b /\
    exists d, h' = h ++ d /\ stream (b_evs b) = d ++ stream (b_evs b') /\
      (ok = true -> d = [] /\ (lim_none b = true -> b_evs b' = [])).
  Proof.
    unfold ensure_eof.
    destruct (read_full tee_read fuel (b, h) 1 []) as [[acc e] [b1 h1]] eqn:E.
    intro X; inversion X; subst. apply read_full_tee in E as (d & E1 & E2 & E3 & E4 & E5).
    split; auto. exists d. repeat split; auto;
      destruct e as [[]|]; try discriminate; destruct (E5 eq_refl) as [L1 L2]; auto.
    simpl in E1. subst acc. destruct d; auto. simpl in L1; lia.
  Qed.

  (* ---------------------------------------------------------------- VerifyReader invariant *)
  (* S0: the whole byte stream of the source; out: the bytes Read has returned so far *)
  Definition same (a b : str) : Prop := a = b.

  Definition live (S0 dg : str) (sz : Z) (v : vrd) (out : str) : Prop :=
    v_verified v = false /\ (v_err v = None \/ v_err v = Some EEof) /\
    v_hashed v = out /\ v_N v = (sz - Z.of_nat (length out))%Z /\ (0 <= v_N v)%Z /\
    (v_err v = Some EEof -> (v_N v <= 0)%Z) /\
    same S0 (out ++ stream (b_evs (v_base v))) /\ valid_digest dg = true.

  Definition dead (v : vrd) : Prop :=
    v_verified v = false /\ exists e, v_err v = Some e /\ e <> EEof.

  Definition done (S0 dg : str) (sz : Z) (v : vrd) (out : str) : Prop :=
    v_verified v = true /\ v_err v = Some EEof /\ Z.of_nat (length out) = sz /\
    verified H dg out = true /\ same S0 (out ++ stream (b_evs (v_base v))) /\
    (lim_none (v_base v) = true -> b_evs (v_base v) = []) /\ valid_digest dg = true.

  Definition st3 S0 dg sz v out := live S0 dg sz v out \/ dead v \/ done S0 dg sz v out.

  Lemma vr_read_st3 S0 dg sz v out k bs e v' :
    st3 S0 dg sz v out -> vr_read v k = ((bs, e), v') ->
    st3 S0 dg sz v' (out ++ bs) /\ lim_none (v_base v') = lim_none (v_base v) /\
    (done S0 dg sz v out -> bs = [] /\ v' = v) /\ length bs <= k.
  Proof.
    intros [L|[D|F]] E; unfold Verify.vr_read in E.
    - destruct L as (L1 & L2 & L3 & L4 & L5 & L6 & L7 & L8).
      destruct L2 as [L2|L2]; rewrite L2 in E.
      + destruct (v_N v <=? 0)%Z eqn:EN.
        * inversion E; subst. rewrite app_nil_r. split; [|split; [reflexivity|split; [|simpl; lia]]].
          -- left. unfold live, set_err; simpl. repeat split; auto. lia.
          -- intros (F1 & _). congruence.
        * destruct (base_read comb (v_base v) (clamp k (v_N v))) as [[bs0 e0] b1] eqn:Eb.
          apply base_read_spec in Eb as (A & B & C & D).
          assert (PN : (0 < v_N v)%Z) by lia. pose proof (clamp_le k _ PN) as [CL1 CL2].
          destruct e0 as [e0|]; inversion E; subst; clear E; simpl.
          -- split; [|split; [exact C|split; [|lia]]].
             2:{ intros (F1 & _). congruence. }
             destruct (is_eof e0 && (v_N v - Z.of_nat (length bs) >? 0)%Z) eqn:G.
             ++ right; left. unfold dead, set_err; simpl. split; auto. exists EUnexpEof. split; auto. discriminate.
             ++ destruct e0; simpl in G;
                  try (right; left; unfold dead, set_err; simpl; split; auto; eexists; split; [reflexivity|discriminate]).
                left. unfold live, set_err; simpl. repeat split; auto.
                ** rewrite app_length, Nat2Z.inj_add. lia.
                ** lia.
                ** intros _. lia.
                ** unfold same in *. rewrite <- app_assoc. rewrite <- A. exact L7.
          -- split; [|split; [exact C|split; [|lia]]].
             2:{ intros (F1 & _). congruence. }
             left. unfold live; simpl. repeat split; auto.
             ++ rewrite app_length, Nat2Z.inj_add. lia.
             ++ lia.
             ++ discriminate.
             ++ unfold same in *. rewrite <- app_assoc. rewrite <- A. exact L7.
      + inversion E; subst. rewrite app_nil_r. split; [|split; [reflexivity|split; [|simpl; lia]]].
        * left. unfold live. repeat split; auto.
        * intros _. auto.
    - destruct D as (D1 & e0 & D2 & D3). rewrite D2 in E. inversion E; subst. rewrite app_nil_r.
      split; [|split; [reflexivity|split; [|simpl; lia]]].
      + right; left. split; auto. exists e0; auto.
      + auto.
    - destruct F as (F1 & F2 & F3). rewrite F2 in E. inversion E; subst. rewrite app_nil_r.
      split; [|split; [reflexivity|split; [|simpl; lia]]].
      + right; right. split; auto.
      + auto.
  Qed.

  Lemma vr_verify_st3 S0 dg sz v out fuel r v' :
    st3 S0 dg sz v out -> vr_verify fuel dg v = (r, v') ->
    st3 S0 dg sz v' out /\ lim_none (v_base v') = lim_none (v_base v) /\
    (r = None -> done S0 dg sz v' out).
  Proof.
    intros [L|[D|F]] E; unfold Verify.vr_verify in E.
    - destruct L as (L1 & L2 & L3 & L4 & L5 & L6 & L7 & L8). rewrite L1 in E.
      destruct (ensure_eof comb fuel (v_base v, v_hashed v)) as [ok [b1 h1]] eqn:Ee.
      assert (P : (v_err v = None /\ r = Some EEarly /\ v' = v) \/
                  ((v_N v <= 0)%Z /\
                   (if negb ok then (Some ETrailing, set_err (mkVr b1 (v_N v) h1 (v_err v) false) ETrailing)
                    else if verified H dg h1 then (None, mkVr b1 (v_N v) h1 (Some EEof) true)
                         else (Some EMismatch, set_err (mkVr b1 (v_N v) h1 (v_err v) false) EMismatch)) = (r, v'))).
      { destruct L2 as [L2|L2]; rewrite L2 in E |- *.
        - destruct (v_N v >? 0)%Z eqn:G.
          + left. inversion E; subst. auto.
          + right. split; [lia|exact E].
        - right. split; [auto|exact E]. }
      clear E. destruct P as [(P1 & P3 & P4)|(PN & P)].
      + subst. split; [|split; [reflexivity|discriminate]].
        left. unfold live. repeat split; auto.
      + 
        apply ensure_eof_spec in Ee as (C & d & E1 & E2 & E3).
        destruct ok; simpl in P.
        * destruct (E3 eq_refl) as [Dn Dl]. subst d. rewrite app_nil_r in E1. subst h1.
          simpl in E2. destruct (verified H dg (v_hashed v)) eqn:V; inversion P; subst; clear P; simpl.
          -- assert (DN : done S0 dg sz (mkVr b1 (v_N v) (v_hashed v) (Some EEof) true) (v_hashed v)).
             { unfold done; simpl. repeat split; auto.
               - lia.
               - unfold same in *. rewrite <- E2. exact L7.
               - intro X. apply Dl. congruence. }
             split; [right; right; exact DN|split; [exact C|intros _; exact DN]].
          -- split; [|split; [exact C|discriminate]].
             right; left. unfold dead, set_err; simpl. split; auto. eexists; split; [reflexivity|discriminate].
        * inversion P; subst; clear P; simpl. split; [|split; [exact C|discriminate]].
          right; left. unfold dead, set_err; simpl. split; auto. eexists; split; [reflexivity|discriminate].
    - destruct D as (D1 & e0 & D2 & D3). rewrite D1, D2 in E.
      destruct e0; try congruence; inversion E; subst;
        (split; [right; left; split; auto; eexists; split; [eassumption|auto]|split; [reflexivity|discriminate]]).
    - destruct F as (F1 & F2 & F3). rewrite F1 in E. inversion E; subst.
      split; [right; right; split; auto|split; [reflexivity|intros _; split; auto]].
  Qed.

  Lemma done_facts S0 dg sz v out :
    done S0 dg sz v out ->
    Z.of_nat (length out) = sz /\ dg = digest_of H (alg_of dg) out /\ valid_digest dg = true /\
    S0 = out ++ stream (b_evs (v_base v)) /\ (lim_none (v_base v) = true -> S0 = out).
  Proof.
    intros (F1 & F2 & F3 & F4 & F5 & F6 & F7). unfold same in F5. repeat split; auto.
    - unfold verified in F4. apply str_eqb_spec in F4. exact F4.
    - intro L. rewrite F5, (F6 L). simpl. apply app_nil_r.
  Qed.

  (* NewVerifyReader *)
  Lemma new_vr_st3 fixed src dg sz :
    (fixed = true \/ (0 <= sz)%Z) ->
    st3 (stream (b_evs src)) dg sz (new_vr_gen fixed src dg sz) [].
  Proof.
    intro Hs. unfold new_vr_gen. destruct (valid_digest dg) eqn:V; simpl.
    - destruct (fixed && (sz <? 0)%Z) eqn:G.
      + right; left. split; auto. eexists; split; [reflexivity|discriminate].
      + left. unfold live; simpl. repeat split; auto; try lia; try discriminate.
        destruct Hs as [->|]; [|lia]. simpl in G. lia.
    - right; left. split; auto. eexists; split; [reflexivity|discriminate].
  Qed.

  Lemma new_vr_lim fixed src dg sz : v_base (new_vr_gen fixed src dg sz) = src.
  Proof. unfold new_vr_gen. destruct (negb (valid_digest dg)); [reflexivity|]. destruct (fixed && _); reflexivity. Qed.

  (* ---------------------------------------------------------------- io.ReadFull over the VerifyReader *)
  Lemma read_full_vr S0 dg sz fuel : forall v out want acc acc' e v',
    st3 S0 dg sz v out ->
    read_full vr_read fuel v want acc = ((acc', e), v') ->
    exists d, acc' = acc ++ d /\ st3 S0 dg sz v' (out ++ d) /\ lim_none (v_base v') = lim_none (v_base v).
  Proof.
    induction fuel as [|f IH]; intros v out want acc acc' e v' S; simpl.
    - destruct (want <=? length acc); intro E; inversion E; subst; exists []; rewrite !app_nil_r; auto.
    - destruct (want <=? length acc).
      { intro E; inversion E; subst; exists []; rewrite !app_nil_r; auto. }
      destruct (vr_read v (want - length acc)) as [[bs e0] v1] eqn:Er.
      destruct (vr_read_st3 _ _ _ _ _ _ _ _ _ S Er) as (S1 & C1 & _ & _).
      destruct e0 as [e0|].
      + destruct (want <=? length (acc ++ bs)).
        { intro E; inversion E; subst. exists bs; auto. }
        destruct ((0 <? length (acc ++ bs)) && is_eof e0); intro E; inversion E; subst; exists bs; auto.
      + intro E. destruct (IH _ _ _ _ _ _ _ S1 E) as (d & E1 & E2 & E3).
        exists (bs ++ d). subst acc'. rewrite !app_assoc.
        split; [reflexivity|]. split; [exact E2|congruence].
  Qed.

  (* ---------------------------------------------------------------- ReadAll *)
  Definition matches_desc (dg : str) (sz : Z) (bs : str) : Prop :=
    Z.of_nat (length bs) = sz /\ dg = digest_of H (alg_of dg) bs /\ valid_digest dg = true.

  Lemma read_all_sound fixed fuel src dg sz buf v :
    read_all H comb fixed fuel src dg sz = ((None, buf), v) ->
    matches_desc dg sz buf /\
    (exists rest, stream (b_evs src) = buf ++ rest) /\
    (b_lim src = None -> stream (b_evs src) = buf).
  Proof.
    unfold read_all. destruct (sz <? 0)%Z eqn:Z0; [discriminate|].
    assert (S : st3 (stream (b_evs src)) dg sz (new_vr fixed src dg sz) []).
    { apply new_vr_st3. right. lia. }
    destruct (read_full vr_read fuel (new_vr fixed src dg sz) (Z.to_nat sz) []) as [[b0 e] v0] eqn:Er.
    destruct (read_full_vr _ _ _ _ _ _ _ _ _ _ _ S Er) as (d & E1 & E2 & E3). simpl in E1, E2. subst b0.
    destruct e as [e|]; [discriminate|].
    destruct (vr_verify fuel dg v0) as [r v1] eqn:Ev.
    intro X; inversion X; subst; clear X.
    destruct (vr_verify_st3 _ _ _ _ _ _ _ _ E2 Ev) as (_ & C & Dn).
    apply done_facts in Dn as (F1 & F2 & F3 & F4 & F5); auto.
    split; [split; auto|]. split; [eexists; exact F4|].
    intro L. apply F5. rewrite C, E3. unfold new_vr. rewrite new_vr_lim. unfold lim_none. rewrite L. reflexivity.
  Qed.

  (* ---------------------------------------------------------------- CopyBuffer *)
  Lemma copy_loop_st3 S0 dg sz bufsz fuel : forall v out e out' v',
    st3 S0 dg sz v out ->
    copy_loop comb fuel v bufsz out = ((e, out'), v') ->
    st3 S0 dg sz v' out' /\ lim_none (v_base v') = lim_none (v_base v).
  Proof.
    induction fuel as [|f IH]; intros v out e out' v' S; simpl.
    - intro E; inversion E; subst; auto.
    - destruct (vr_read v bufsz) as [[bs e0] v1] eqn:Er.
      destruct (vr_read_st3 _ _ _ _ _ _ _ _ _ S Er) as (S1 & C1 & _ & _).
      destruct e0 as [e0|].
      + destruct e0; intro E; inversion E; subst; auto.
      + intro E. destruct (IH _ _ _ _ _ S1 E) as (E2 & E3). split; auto. congruence.
  Qed.

  Lemma copy_buffer_sound fuel src bufsz dg sz out v :
    copy_buffer H comb true fuel src bufsz dg sz = ((None, out), v) ->
    matches_desc dg sz out /\
    (exists rest, stream (b_evs src) = out ++ rest) /\
    (b_lim src = None -> stream (b_evs src) = out).
  Proof.
    unfold copy_buffer.
    assert (S : st3 (stream (b_evs src)) dg sz (new_vr true src dg sz) []).
    { apply new_vr_st3. left; reflexivity. }
    destruct (copy_loop comb fuel (new_vr true src dg sz) bufsz []) as [[e o] v0] eqn:Ec.
    destruct (copy_loop_st3 _ _ _ _ _ _ _ _ _ _ S Ec) as (E2 & E3).
    destruct e as [e|]; [discriminate|].
    destruct (vr_verify fuel dg v0) as [r v1] eqn:Ev.
    intro X; inversion X; subst; clear X.
    destruct (vr_verify_st3 _ _ _ _ _ _ _ _ E2 Ev) as (_ & C & Dn).
    apply done_facts in Dn as (F1 & F2 & F3 & F4 & F5); auto.
    split; [split; auto|]. split; [eexists; exact F4|].
    intro L. apply F5. rewrite C, E3. unfold new_vr. rewrite new_vr_lim. unfold lim_none. rewrite L. reflexivity.
  Qed.

End Proofs.
