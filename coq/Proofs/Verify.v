From Oras Require Import Base.Prelude Generated.GC05 Model.Verify.
