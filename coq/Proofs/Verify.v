(* Lemmas about Model/Verify.v (property C05). *)
From Oras Require Import Base.Prelude Generated.GC05 Model.Verify.
From Coq Require Import Lia ZArith.

Local Open Scope nat_scope.

Ltac fin := repeat split; auto; try (simpl; lia); try discriminate.

(* ------------------------------------------------------------------ scripted reader *)
Lemma script_read_spec comb evs k bs e evs' :
  script_read comb evs k = ((bs, e), evs') ->
  stream evs = bs ++ stream evs' /\ length bs <= k /\
  (e = Some EEof -> neof evs = 0 -> evs' = []) /\ neof evs' <= neof evs.
Proof.
  destruct evs as [|[d| | |] r]; simpl; intro E.
  - inversion E; subst. fin.
  - destruct (length d <=? k) eqn:L.
    + apply Nat.leb_le in L. destruct comb.
      * destruct r as [|[d'| | |] r']; inversion E; subst; simpl; repeat split; auto; try discriminate; try lia.
      * inversion E; subst. fin.
    + inversion E; subst. simpl. rewrite app_assoc, firstn_skipn. repeat split; auto.
      * apply firstn_le_length.
      * discriminate.
  - inversion E; subst. fin.
  - inversion E; subst. fin.
  - inversion E; subst. fin.
Qed.

Definition lim_none (s : base) : bool := match b_lim s with None => true | Some _ => false end.

Lemma zlt_nat_spec k : forall n, if zlt_nat n k then Z.to_nat n < k else k <= Z.to_nat n.
Proof.
  induction k as [|k IH]; intro n; simpl; [lia|].
  destruct (n <=? 0)%Z eqn:E; [lia|]. specialize (IH (n - 1)%Z).
  destruct (zlt_nat (n - 1) k); lia.
Qed.

Lemma clamp_min k n : clamp k n = Nat.min k (Z.to_nat n).
Proof. unfold clamp. pose proof (zlt_nat_spec k n). destruct (zlt_nat n k); lia. Qed.

Lemma clamp_le k n : (0 < n)%Z -> clamp k n <= k /\ (Z.of_nat (clamp k n) <= n)%Z.
Proof. rewrite clamp_min. lia. Qed.

Lemma base_read_spec comb s k bs e s' :
  base_read comb s k = ((bs, e), s') ->
  stream (b_evs s) = bs ++ stream (b_evs s') /\ length bs <= k /\
  lim_none s' = lim_none s /\
  (lim_none s = true -> neof (b_evs s) = 0 -> e = Some EEof -> b_evs s' = []) /\
  neof (b_evs s') <= neof (b_evs s).
Proof.
  unfold base_read, lim_none. destruct s as [evs [n|]]; simpl.
  - destruct (n <=? 0)%Z eqn:En.
    + intro E; inversion E; subst; simpl. fin.
    + destruct (script_read comb evs (clamp k n)) as [[bs0 e0] evs0] eqn:Es.
      intro E; inversion E; subst; simpl. apply script_read_spec in Es as (A & B & C & D).
      assert (0 < n)%Z by lia. pose proof (clamp_le k n H).
      fin.
  - destruct (script_read comb evs k) as [[bs0 e0] evs0] eqn:Es.
    intro E; inversion E; subst; simpl. apply script_read_spec in Es as (A & B & C & D).
    repeat split; auto.
Qed.

Section Proofs.
  Variable H : str -> str -> str.
  Variable comb : bool.

  (* ghost: "the source script contains no Eof event" (instantiated below); only the
     full-consumption clauses depend on it *)
  Variable NE0 : Prop.

  Notation vr_read := (vr_read comb).
  Notation vr_verify := (vr_verify H comb).
  Notation tee_read := (tee_read comb).

  (* ---------------------------------------------------------------- ensureEOF *)
  Lemma read_full_tee fuel : forall b h want acc acc' e b' h',
    read_full tee_read fuel (b, h) want acc = ((acc', e), (b', h')) ->
    exists d, acc' = acc ++ d /\ h' = h ++ d /\ stream (b_evs b) = d ++ stream (b_evs b') /\
              lim_none b' = lim_none b /\
              (e = Some EEof -> length acc' < want /\
                                (lim_none b = true -> neof (b_evs b) = 0 -> b_evs b' = [])) /\
              neof (b_evs b') <= neof (b_evs b).
  Proof.
    induction fuel as [|f IH]; intros b h want acc acc' e b' h'; simpl.
    - destruct (want <=? length acc) eqn:W; intro E; inversion E; subst;
        exists []; rewrite !app_nil_r; repeat split; auto; discriminate.
    - destruct (want <=? length acc) eqn:W.
      { intro E; inversion E; subst. exists []; rewrite !app_nil_r; repeat split; auto; discriminate. }
      unfold tee_read at 1. simpl.
      destruct (base_read comb b (want - length acc)) as [[bs e0] b1] eqn:Eb.
      apply base_read_spec in Eb as (A & B & C & D & D2).
      destruct e0 as [e0|].
      + destruct (want <=? length (acc ++ bs)) eqn:W2.
        { intro E; inversion E; subst. exists bs. repeat split; auto; discriminate. }
        apply Nat.leb_gt in W2.
        destruct ((0 <? length (acc ++ bs)) && is_eof e0) eqn:G; intro E; inversion E; subst;
          exists bs; repeat split; auto; try discriminate.
      + intro E. apply IH in E as (d & E1 & E2 & E3 & E4 & E5 & E6).
        exists (bs ++ d). subst acc' h'. rewrite A, E3, !app_assoc.
        split; [reflexivity|]. split; [reflexivity|]. split; [reflexivity|]. split; [congruence|].
        split; [|lia].
        intro Ee. destruct (E5 Ee) as [P Q]. split; [exact P|]. intros L Nz. apply Q; [congruence|lia].
  Qed.

  Lemma ensure_eof_spec fuel b h ok b' h' :
    ensure_eof comb fuel (b, h) = (ok, (b', h')) ->
    lim_none b' = lim_none b /\
    exists d, h' = h ++ d /\ stream (b_evs b) = d ++ stream (b_evs b') /\
      (ok = true -> d = [] /\ (lim_none b = true -> neof (b_evs b) = 0 -> b_evs b' = [])) /\
      neof (b_evs b') <= neof (b_evs b).
  Proof.
    unfold ensure_eof.
    destruct (read_full tee_read fuel (b, h) 1 []) as [[acc e] [b1 h1]] eqn:E.
    intro X; inversion X; subst. apply read_full_tee in E as (d & E1 & E2 & E3 & E4 & E5 & E6).
    split; auto. exists d. repeat split; auto;
      destruct e as [[]|]; try discriminate; destruct (E5 eq_refl) as [L1 L2]; auto.
    simpl in E1. subst acc. destruct d; auto. simpl in L1; lia.
  Qed.

  (* ---------------------------------------------------------------- VerifyReader invariant *)
  (* S0: the whole byte stream of the source; out: the bytes Read has returned so far *)
  Definition same (a b : str) : Prop := a = b.

  Definition live (S0 dg : str) (sz : Z) (v : vrd) (out : str) : Prop :=
    v_verified v = false /\ (v_err v = None \/ v_err v = Some EEof) /\
    v_hashed v = out /\ v_N v = (sz - Z.of_nat (length out))%Z /\ (0 <= v_N v)%Z /\
    (v_err v = Some EEof -> (v_N v <= 0)%Z) /\
    same S0 (out ++ stream (b_evs (v_base v))) /\ valid_digest dg = true /\
    (NE0 -> neof (b_evs (v_base v)) = 0).

  Definition dead (v : vrd) : Prop :=
    v_verified v = false /\ exists e, v_err v = Some e /\ e <> EEof.

  Definition done (S0 dg : str) (sz : Z) (v : vrd) (out : str) : Prop :=
    v_verified v = true /\ v_err v = Some EEof /\ Z.of_nat (length out) = sz /\
    verified H dg out = true /\ same S0 (out ++ stream (b_evs (v_base v))) /\
    (lim_none (v_base v) = true -> NE0 -> b_evs (v_base v) = []) /\ valid_digest dg = true.

  Definition st3 S0 dg sz v out := live S0 dg sz v out \/ dead v \/ done S0 dg sz v out.

  Lemma vr_read_st3 S0 dg sz v out k bs e v' :
    st3 S0 dg sz v out -> vr_read v k = ((bs, e), v') ->
    st3 S0 dg sz v' (out ++ bs) /\ lim_none (v_base v') = lim_none (v_base v) /\
    (done S0 dg sz v out -> bs = [] /\ v' = v) /\ length bs <= k.
  Proof.
    intros [L|[D|F]] E; unfold Verify.vr_read in E.
    - destruct L as (L1 & L2 & L3 & L4 & L5 & L6 & L7 & L8 & L9).
      destruct L2 as [L2|L2]; rewrite L2 in E.
      + destruct (v_N v <=? 0)%Z eqn:EN.
        * inversion E; subst. rewrite app_nil_r. split; [|split; [reflexivity|split; [|simpl; lia]]].
          -- left. unfold live, set_err; simpl. repeat split; auto; lia.
          -- intros (F1 & _). congruence.
        * destruct (base_read comb (v_base v) (clamp k (v_N v))) as [[bs0 e0] b1] eqn:Eb.
          apply base_read_spec in Eb as (A & B & C & D & D2).
          assert (L9' : NE0 -> neof (b_evs b1) = 0) by (intro Ne; specialize (L9 Ne); lia).
          assert (PN : (0 < v_N v)%Z) by lia. pose proof (clamp_le k _ PN) as [CL1 CL2].
          destruct e0 as [e0|]; inversion E; subst; clear E; simpl.
          -- split; [|split; [exact C|split; [|lia]]].
             2:{ intros (F1 & _). congruence. }
             destruct (is_eof e0 && (v_N v - Z.of_nat (length bs) >? 0)%Z) eqn:G.
             ++ right; left. unfold dead, set_err; simpl. split; auto. exists EUnexpEof. split; auto. discriminate.
             ++ destruct e0; simpl in G;
                  try (right; left; unfold dead, set_err; simpl; split; auto; eexists; split; [reflexivity|discriminate]).
                left. unfold live, set_err; simpl. repeat split; auto.
                ** rewrite app_length, Nat2Z.inj_add. lia.
                ** lia.
                ** intros _. lia.
                ** unfold same in *. rewrite <- app_assoc. rewrite <- A. exact L7.
          -- split; [|split; [exact C|split; [|lia]]].
             2:{ intros (F1 & _). congruence. }
             left. unfold live; simpl. repeat split; auto.
             ++ rewrite app_length, Nat2Z.inj_add. lia.
             ++ lia.
             ++ discriminate.
             ++ unfold same in *. rewrite <- app_assoc. rewrite <- A. exact L7.
      + inversion E; subst. rewrite app_nil_r. split; [|split; [reflexivity|split; [|simpl; lia]]].
        * left. unfold live. repeat split; auto.
        * intros _. auto.
    - destruct D as (D1 & e0 & D2 & D3). rewrite D2 in E. inversion E; subst. rewrite app_nil_r.
      split; [|split; [reflexivity|split; [|simpl; lia]]].
      + right; left. split; auto. exists e0; auto.
      + auto.
    - destruct F as (F1 & F2 & F3). rewrite F2 in E. inversion E; subst. rewrite app_nil_r.
      split; [|split; [reflexivity|split; [|simpl; lia]]].
      + right; right. split; auto.
      + auto.
  Qed.

  Lemma vr_verify_st3 S0 dg sz v out fuel r v' :
    st3 S0 dg sz v out -> vr_verify fuel dg v = (r, v') ->
    st3 S0 dg sz v' out /\ lim_none (v_base v') = lim_none (v_base v) /\
    (r = None -> done S0 dg sz v' out).
  Proof.
    intros [L|[D|F]] E; unfold Verify.vr_verify in E.
    - destruct L as (L1 & L2 & L3 & L4 & L5 & L6 & L7 & L8 & L9). rewrite L1 in E.
      destruct (ensure_eof comb fuel (v_base v, v_hashed v)) as [ok [b1 h1]] eqn:Ee.
      assert (P : (v_err v = None /\ r = Some EEarly /\ v' = v) \/
                  ((v_N v <= 0)%Z /\
                   (if negb ok then (Some ETrailing, set_err (mkVr b1 (v_N v) h1 (v_err v) false) ETrailing)
                    else if verified H dg h1 then (None, mkVr b1 (v_N v) h1 (Some EEof) true)
                         else (Some EMismatch, set_err (mkVr b1 (v_N v) h1 (v_err v) false) EMismatch)) = (r, v'))).
      { destruct L2 as [L2|L2]; rewrite L2 in E |- *.
        - destruct (v_N v >? 0)%Z eqn:G.
          + left. inversion E; subst. auto.
          + right. split; [lia|exact E].
        - right. split; [auto|exact E]. }
      clear E. destruct P as [(P1 & P3 & P4)|(PN & P)].
      + subst. split; [|split; [reflexivity|discriminate]].
        left. unfold live. repeat split; auto.
      + 
        apply ensure_eof_spec in Ee as (C & d & E1 & E2 & E3 & E4).
        destruct ok; simpl in P.
        * destruct (E3 eq_refl) as [Dn Dl]. subst d. rewrite app_nil_r in E1. subst h1.
          simpl in E2. destruct (verified H dg (v_hashed v)) eqn:V; inversion P; subst; clear P; simpl.
          -- assert (DN : done S0 dg sz (mkVr b1 (v_N v) (v_hashed v) (Some EEof) true) (v_hashed v)).
             { unfold done; simpl. repeat split; auto.
               - lia.
               - unfold same in *. rewrite <- E2. exact L7.
               - intros X Ne. apply Dl; [congruence|exact (L9 Ne)]. }
             split; [right; right; exact DN|split; [exact C|intros _; exact DN]].
          -- split; [|split; [exact C|discriminate]].
             right; left. unfold dead, set_err; simpl. split; auto. eexists; split; [reflexivity|discriminate].
        * inversion P; subst; clear P; simpl. split; [|split; [exact C|discriminate]].
          right; left. unfold dead, set_err; simpl. split; auto. eexists; split; [reflexivity|discriminate].
    - destruct D as (D1 & e0 & D2 & D3). rewrite D1, D2 in E.
      destruct e0; try congruence; inversion E; subst;
        (split; [right; left; split; auto; eexists; split; [eassumption|auto]|split; [reflexivity|discriminate]]).
    - destruct F as (F1 & F2 & F3). rewrite F1 in E. inversion E; subst.
      split; [right; right; split; auto|split; [reflexivity|intros _; split; auto]].
  Qed.

  Lemma done_facts S0 dg sz v out :
    done S0 dg sz v out ->
    Z.of_nat (length out) = sz /\ dg = digest_of H (alg_of dg) out /\ valid_digest dg = true /\
    S0 = out ++ stream (b_evs (v_base v)) /\ (lim_none (v_base v) = true -> NE0 -> S0 = out).
  Proof.
    intros (F1 & F2 & F3 & F4 & F5 & F6 & F7). unfold same in F5. repeat split; auto.
    - unfold verified in F4. apply str_eqb_spec in F4. exact F4.
    - intros L Ne. rewrite F5, (F6 L Ne). simpl. apply app_nil_r.
  Qed.

  (* NewVerifyReader *)
  Lemma new_vr_st3 fixed src dg sz :
    (fixed = true \/ (0 <= sz)%Z) -> (NE0 -> neof (b_evs src) = 0) ->
    st3 (stream (b_evs src)) dg sz (new_vr_gen fixed src dg sz) [].
  Proof.
    intros Hs Hne. unfold new_vr_gen. destruct (valid_digest dg) eqn:V; simpl.
    - destruct (fixed && (sz <? 0)%Z) eqn:G.
      + right; left. split; auto. eexists; split; [reflexivity|discriminate].
      + left. unfold live; simpl. repeat split; auto; try lia; try discriminate.
        destruct Hs as [->|]; [|lia]. simpl in G. lia.
    - right; left. split; auto. eexists; split; [reflexivity|discriminate].
  Qed.

  Lemma new_vr_lim fixed src dg sz : v_base (new_vr_gen fixed src dg sz) = src.
  Proof. unfold new_vr_gen. destruct (negb (valid_digest dg)); [reflexivity|]. destruct (fixed && _); reflexivity. Qed.

  (* ---------------------------------------------------------------- io.ReadFull over the VerifyReader *)
  Lemma read_full_vr S0 dg sz fuel : forall v out want acc acc' e v',
    st3 S0 dg sz v out ->
    read_full vr_read fuel v want acc = ((acc', e), v') ->
    exists d, acc' = acc ++ d /\ st3 S0 dg sz v' (out ++ d) /\ lim_none (v_base v') = lim_none (v_base v).
  Proof.
    induction fuel as [|f IH]; intros v out want acc acc' e v' S; simpl.
    - destruct (want <=? length acc); intro E; inversion E; subst; exists []; rewrite !app_nil_r; auto.
    - destruct (want <=? length acc).
      { intro E; inversion E; subst; exists []; rewrite !app_nil_r; auto. }
      destruct (vr_read v (want - length acc)) as [[bs e0] v1] eqn:Er.
      destruct (vr_read_st3 _ _ _ _ _ _ _ _ _ S Er) as (S1 & C1 & _ & _).
      destruct e0 as [e0|].
      + destruct (want <=? length (acc ++ bs)).
        { intro E; inversion E; subst. exists bs; auto. }
        destruct ((0 <? length (acc ++ bs)) && is_eof e0); intro E; inversion E; subst; exists bs; auto.
      + intro E. destruct (IH _ _ _ _ _ _ _ S1 E) as (d & E1 & E2 & E3).
        exists (bs ++ d). subst acc'. rewrite !app_assoc.
        split; [reflexivity|]. split; [exact E2|congruence].
  Qed.

  (* ---------------------------------------------------------------- ReadAll *)
  Notation matches_desc := (matches_desc H).

  Lemma read_all_sound_g fixed fuel src dg sz buf v :
    (NE0 -> neof (b_evs src) = 0) ->
    read_all H comb fixed fuel src dg sz = ((None, buf), v) ->
    matches_desc dg sz buf /\
    (exists rest, stream (b_evs src) = buf ++ rest) /\
    (b_lim src = None -> NE0 -> stream (b_evs src) = buf).
  Proof.
    intro Hne. unfold read_all. destruct (sz <? 0)%Z eqn:Z0; [discriminate|].
    assert (S : st3 (stream (b_evs src)) dg sz (new_vr fixed src dg sz) []).
    { apply new_vr_st3; auto. right. lia. }
    destruct (read_full vr_read fuel (new_vr fixed src dg sz) (Z.to_nat sz) []) as [[b0 e] v0] eqn:Er.
    destruct (read_full_vr _ _ _ _ _ _ _ _ _ _ _ S Er) as (d & E1 & E2 & E3). simpl in E1, E2. subst b0.
    destruct e as [e|]; [discriminate|].
    destruct (vr_verify fuel dg v0) as [r v1] eqn:Ev.
    intro X; inversion X; subst; clear X.
    destruct (vr_verify_st3 _ _ _ _ _ _ _ _ E2 Ev) as (_ & C & Dn).
    apply done_facts in Dn as (F1 & F2 & F3 & F4 & F5); auto.
    split; [split; auto|]. split; [eexists; exact F4|].
    intros L Ne. apply F5; auto. rewrite C, E3. unfold new_vr. rewrite new_vr_lim. unfold lim_none. rewrite L. reflexivity.
  Qed.

  (* ---------------------------------------------------------------- CopyBuffer *)
  Lemma copy_loop_st3 S0 dg sz bufsz fuel : forall v out e out' v',
    st3 S0 dg sz v out ->
    copy_loop comb fuel v bufsz out = ((e, out'), v') ->
    st3 S0 dg sz v' out' /\ lim_none (v_base v') = lim_none (v_base v).
  Proof.
    induction fuel as [|f IH]; intros v out e out' v' S; simpl.
    - intro E; inversion E; subst; auto.
    - destruct (vr_read v bufsz) as [[bs e0] v1] eqn:Er.
      destruct (vr_read_st3 _ _ _ _ _ _ _ _ _ S Er) as (S1 & C1 & _ & _).
      destruct e0 as [e0|].
      + destruct e0; intro E; inversion E; subst; auto.
      + intro E. destruct (IH _ _ _ _ _ S1 E) as (E2 & E3). split; auto. congruence.
  Qed.

  Lemma copy_buffer_sound_g fuel src bufsz dg sz out v :
    (NE0 -> neof (b_evs src) = 0) ->
    copy_buffer H comb true fuel src bufsz dg sz = ((None, out), v) ->
    matches_desc dg sz out /\
    (exists rest, stream (b_evs src) = out ++ rest) /\
    (b_lim src = None -> NE0 -> stream (b_evs src) = out).
  Proof.
    intro Hne. unfold copy_buffer.
    assert (S : st3 (stream (b_evs src)) dg sz (new_vr true src dg sz) []).
    { apply new_vr_st3; auto. }
    destruct (copy_loop comb fuel (new_vr true src dg sz) bufsz []) as [[e o] v0] eqn:Ec.
    destruct (copy_loop_st3 _ _ _ _ _ _ _ _ _ _ S Ec) as (E2 & E3).
    destruct e as [e|]; [discriminate|].
    destruct (vr_verify fuel dg v0) as [r v1] eqn:Ev.
    intro X; inversion X; subst; clear X.
    destruct (vr_verify_st3 _ _ _ _ _ _ _ _ E2 Ev) as (_ & C & Dn).
    apply done_facts in Dn as (F1 & F2 & F3 & F4 & F5); auto.
    split; [split; auto|]. split; [eexists; exact F4|].
    intros L Ne. apply F5; auto. rewrite C, E3. unfold new_vr. rewrite new_vr_lim. unfold lim_none. rewrite L. reflexivity.
  Qed.


  (* ---------------------------------------------------------------- arbitrary use of a VerifyReader *)
  Lemma vr_run_st3 S0 dg sz fuel ops : forall v out v' out',
    st3 S0 dg sz v out -> vr_run H comb fuel dg ops v out = (v', out') ->
    st3 S0 dg sz v' out' /\ lim_none (v_base v') = lim_none (v_base v).
  Proof.
    induction ops as [|[k|] r IH]; intros v out v' out' S; simpl.
    - intro E; inversion E; subst; auto.
    - destruct (vr_read v k) as [[bs e] v1] eqn:Er.
      destruct (vr_read_st3 _ _ _ _ _ _ _ _ _ S Er) as (S1 & C1 & _ & _).
      intro E. destruct (IH _ _ _ _ S1 E). split; auto. congruence.
    - destruct (vr_verify fuel dg v) as [e v1] eqn:Ev.
      destruct (vr_verify_st3 _ _ _ _ _ _ _ _ S Ev) as (S1 & C1 & _).
      intro E. destruct (IH _ _ _ _ S1 E). split; auto. congruence.
  Qed.

  Lemma verify_reader_sound_g fuel src dg sz ops v out v' :
    (NE0 -> neof (b_evs src) = 0) ->
    vr_run H comb fuel dg ops (new_vr true src dg sz) [] = (v, out) ->
    vr_verify fuel dg v = (None, v') ->
    matches_desc dg sz out /\
    (exists rest, stream (b_evs src) = out ++ rest) /\
    (b_lim src = None -> NE0 -> stream (b_evs src) = out) /\
    (* afterwards the reader is at EOF and Verify stays nil *)
    (forall k, vr_read v' k = (([], Some EEof), v')) /\ vr_verify fuel dg v' = (None, v').
  Proof.
    intros Hne Er Ev.
    assert (S : st3 (stream (b_evs src)) dg sz (new_vr true src dg sz) []).
    { apply new_vr_st3; auto. }
    destruct (vr_run_st3 _ _ _ _ _ _ _ _ _ S Er) as (S1 & C1).
    destruct (vr_verify_st3 _ _ _ _ _ _ _ _ S1 Ev) as (_ & C & Dn).
    specialize (Dn eq_refl). pose proof Dn as (G1 & G2 & _).
    apply done_facts in Dn as (F1 & F2 & F3 & F4 & F5).
    split; [split; auto|]. split; [eexists; exact F4|]. split.
    - intros L Ne. apply F5; auto. rewrite C, C1. unfold new_vr. rewrite new_vr_lim. unfold lim_none. rewrite L. reflexivity.
    - split.
      + intro k. unfold Verify.vr_read. rewrite G2. reflexivity.
      + unfold Verify.vr_verify. rewrite G1. reflexivity.
  Qed.

End Proofs.

(* the ghost instantiated: "no Eof event in the source script" *)
Section Sound.
  Variable H : str -> str -> str.
  Variable comb : bool.

  Lemma read_all_sound fixed fuel src dg sz buf v :
    read_all H comb fixed fuel src dg sz = ((None, buf), v) ->
    matches_desc H dg sz buf /\
    (exists rest, stream (b_evs src) = buf ++ rest) /\
    (b_lim src = None -> neof (b_evs src) = 0 -> stream (b_evs src) = buf).
  Proof. apply (read_all_sound_g H comb (neof (b_evs src) = 0)). auto. Qed.

  Lemma copy_buffer_sound fuel src bufsz dg sz out v :
    copy_buffer H comb true fuel src bufsz dg sz = ((None, out), v) ->
    matches_desc H dg sz out /\
    (exists rest, stream (b_evs src) = out ++ rest) /\
    (b_lim src = None -> neof (b_evs src) = 0 -> stream (b_evs src) = out).
  Proof. apply (copy_buffer_sound_g H comb (neof (b_evs src) = 0)). auto. Qed.

  Lemma verify_reader_sound fuel src dg sz ops v out v' :
    vr_run H comb fuel dg ops (new_vr true src dg sz) [] = (v, out) ->
    vr_verify H comb fuel dg v = (None, v') ->
    matches_desc H dg sz out /\
    (exists rest, stream (b_evs src) = out ++ rest) /\
    (b_lim src = None -> neof (b_evs src) = 0 -> stream (b_evs src) = out) /\
    (forall k, vr_read comb v' k = (([], Some EEof), v')) /\ vr_verify H comb fuel dg v' = (None, v').
  Proof. apply (verify_reader_sound_g H comb (neof (b_evs src) = 0)). auto. Qed.
End Sound.

Section Stores.
  Variable H : str -> str -> str.
  Variable comb : bool.
  Notation matches_desc := (matches_desc H).

  (* ---------------------------------------------------------------- descriptors, assoc lists *)
  Lemma desc_eqb_spec x y : desc_eqb x y = true <-> x = y.
  Proof.
    destruct x as [m1 d1 s1], y as [m2 d2 s2]. unfold desc_eqb; simpl.
    rewrite !andb_true_iff, !str_eqb_spec, Z.eqb_eq. split.
    - intros [[-> ->] ->]. reflexivity.
    - intro E; inversion E; auto.
  Qed.

  Lemma assoc_get_set l k v k' :
    assoc_get (assoc_set l k v) k' = if str_eqb k k' then Some v else assoc_get l k'.
  Proof.
    unfold assoc_set; simpl. destruct (str_eqb k k') eqn:E; [reflexivity|].
    induction l as [|[k0 v0] l IH]; simpl; [reflexivity|].
    destruct (str_eqb k0 k) eqn:E0; simpl.
    - apply str_eqb_spec in E0. subst k0. rewrite E. exact IH.
    - destruct (str_eqb k0 k'); [reflexivity|exact IH].
  Qed.

  Lemma assoc_get_del l k k' :
    assoc_get (assoc_del l k) k' = if str_eqb k k' then None else assoc_get l k'.
  Proof.
    unfold assoc_del. induction l as [|[k0 v0] l IH]; simpl.
    - destruct (str_eqb k k'); reflexivity.
    - destruct (str_eqb k0 k) eqn:E0; simpl.
      + apply str_eqb_spec in E0. subst k0. rewrite IH. destruct (str_eqb k k'); reflexivity.
      + rewrite IH. destruct (str_eqb k k') eqn:E.
        * apply str_eqb_spec in E. subst k'. rewrite E0. reflexivity.
        * reflexivity.
  Qed.

  Arguments assoc_set : simpl never.
  Arguments assoc_del : simpl never.

  Definition desc_ok (d : desc) (bs : str) : Prop := matches_desc (d_dg d) (d_sz d) bs.

  (* ---------------------------------------------------------------- cas.Memory *)
  Definition mem_ok (m : mem) : Prop := forall d bs, mem_get m d = Some bs -> desc_ok d bs.

  Lemma mem_push_spec fixed fuel m d src e m' :
    mem_push H comb fixed fuel m d src = (e, m') ->
    (e = None /\ mem_get m d = None /\
     exists buf, m' = (d, buf) :: m /\ desc_ok d buf /\
                 (exists rest, stream (b_evs src) = buf ++ rest) /\
                 (b_lim src = None -> neof (b_evs src) = 0 -> stream (b_evs src) = buf))
    \/ (e <> None /\ m' = m).
  Proof.
    unfold mem_push. destruct (mem_get m d) eqn:G.
    - intro E; inversion E; subst. right. split; [discriminate|reflexivity].
    - destruct (read_all H comb fixed fuel src (d_dg d) (d_sz d)) as [[[e0|] buf] v] eqn:Er;
        intro E; inversion E; subst.
      + right. split; [discriminate|reflexivity].
      + left. apply read_all_sound in Er as (A & B & C).
        split; auto. split; auto. exists buf. repeat split; auto; apply A.
  Qed.

  Lemma mem_get_cons d buf m d' :
    mem_get ((d, buf) :: m) d' = if desc_eqb d d' then Some buf else mem_get m d'.
  Proof. reflexivity. Qed.

  Lemma mem_push_ok fixed fuel m d src e m' :
    mem_ok m -> mem_push H comb fixed fuel m d src = (e, m') -> mem_ok m'.
  Proof.
    intros Ok E. apply mem_push_spec in E as [(E1 & E2 & buf & -> & A & _)|(E1 & ->)]; auto.
    intros d' bs. rewrite mem_get_cons. destruct (desc_eqb d d') eqn:Q.
    - apply desc_eqb_spec in Q. subst d'. intro X; inversion X; subst. exact A.
    - apply Ok.
  Qed.

  (* ---------------------------------------------------------------- LimitedStorage *)
  Lemma limited_push_spec {St} (push : St -> desc -> base -> option rerr * St) limit st d evs e st' :
    limited_push push limit st d evs = (e, st') ->
    (e = Some ETooBig /\ st' = st) \/
    ((d_sz d <= limit)%Z /\ push st d (mkBase evs (Some (d_sz d))) = (e, st')).
  Proof.
    unfold limited_push. destruct (d_sz d >? limit)%Z eqn:G.
    - intro E; inversion E; auto.
    - intro E. right. split; [lia|exact E].
  Qed.

  (* ---------------------------------------------------------------- oci.Storage *)
  Definition oci_ok (s : oci) : Prop :=
    forall dg bs, oci_get s dg = Some bs -> dg = digest_of H (alg_of dg) bs /\ valid_digest dg = true.

  Lemma oci_push_spec fuel s d src e s' :
    oci_push H comb true fuel s d src = (e, s') ->
    (e = None /\ oci_get s (d_dg d) = None /\
     exists out, s' = (d_dg d, out) :: s /\ desc_ok d out /\
                 (exists rest, stream (b_evs src) = out ++ rest) /\
                 (b_lim src = None -> neof (b_evs src) = 0 -> stream (b_evs src) = out))
    \/ (e <> None /\ s' = s).
  Proof.
    unfold oci_push. destruct (negb (valid_digest (d_dg d))).
    { intro E; inversion E; subst. right. split; [discriminate|reflexivity]. }
    destruct (oci_get s (d_dg d)) eqn:G.
    - intro E; inversion E; subst. right. split; [discriminate|reflexivity].
    - destruct (copy_buffer H comb true fuel src oci_bufsz (d_dg d) (d_sz d)) as [[[e0|] out] v] eqn:Er;
        intro E; inversion E; subst.
      + right. split; [discriminate|reflexivity].
      + left. apply copy_buffer_sound in Er as (A & B & C).
        split; auto. split; auto. exists out. repeat split; auto; apply A.
  Qed.

  Lemma oci_push_ok fuel s d src e s' :
    oci_ok s -> oci_push H comb true fuel s d src = (e, s') -> oci_ok s'.
  Proof.
    intros Ok E. apply oci_push_spec in E as [(E1 & E2 & out & -> & A & _)|(E1 & ->)]; auto.
    intros dg bs. simpl. destruct (str_eqb (d_dg d) dg) eqn:Q.
    - apply str_eqb_spec in Q. subst dg. intro X; inversion X; subst. destruct A as (A1 & A2 & A3). auto.
    - apply Ok.
  Qed.

  (* ---------------------------------------------------------------- file.Store *)
  Definition file_ok (s : fstore) : Prop :=
    (forall dg p, assoc_get (f_d2p s) dg = Some p ->
       exists bs, assoc_get (f_files s) p = Some bs /\ dg = digest_of H (alg_of dg) bs /\ valid_digest dg = true)
    /\ mem_ok (f_fb s).

  Lemma name_in_neq name p l : name_in name l = false -> name_in p l = true -> str_eqb name p = false.
  Proof.
    intros A B. destruct (str_eqb name p) eqn:E; auto. apply str_eqb_spec in E. subst. congruence.
  Qed.

  Lemma file_push_spec fuel s name path d evs e s' :
    file_ok s -> (name <> [] -> path_free s path) -> file_push H comb true fuel s name path d evs = (e, s') ->
    file_ok s' /\
    (e = None ->
       exists bs, file_fetch s' name d = Some bs /\ file_exists s' name d = true /\
                  d_dg d = digest_of H (alg_of (d_dg d)) bs /\ valid_digest (d_dg d) = true /\
                  (* unless the digest was already served from a named file, these are
                     the pushed bytes, of the announced size *)
                  ((name <> [] \/ assoc_get (f_d2p s) (d_dg d) = None) ->
                   desc_ok d bs /\ exists rest, stream evs = bs ++ rest)) /\
    (e <> None -> forall name' d', file_exists s' name' d' = file_exists s name' d' /\
                                   file_fetch s' name' d' = file_fetch s name' d').
  Proof.
    intros [Ok1 Ok2] Pf0. unfold file_push. destruct name as [|c name0].
    - (* fallback: LimitedStorage over cas.Memory *)
      destruct (limited_push (mem_push H comb true fuel) defaultFallbackPushSizeLimit (f_fb s) d evs) as [e0 fb'] eqn:El.
      intro E; inversion E; subst; clear E.
      apply limited_push_spec in El as [(-> & ->)|(Lm & Ep)].
      + split; [split; auto|]. split; [discriminate|]. intros _ name' d'. destruct s; auto.
      + pose proof (mem_push_ok _ _ _ _ _ _ _ Ok2 Ep) as Ok2'.
        apply mem_push_spec in Ep as [(-> & G & buf & -> & A & (rest & B) & _)|(Ne & ->)].
        * split; [split; auto|]. split; [|intro X; congruence].
          intros _. unfold file_fetch, file_exists; simpl.
          destruct (assoc_get (f_d2p s) (d_dg d)) as [p|] eqn:Gp.
          -- destruct (Ok1 _ _ Gp) as (bs & Fb & Db & Vb).
             exists bs. rewrite Fb. split; [reflexivity|]. split; [reflexivity|].
             split; [exact Db|]. split; [exact Vb|]. intros [X|X]; congruence.
          -- exists buf. try rewrite mem_get_cons.
             assert (Q : desc_eqb d d = true) by (apply desc_eqb_spec; reflexivity). rewrite Q.
             destruct A as (A1 & A2 & A3). repeat split; auto. exists rest; exact B.
        * split; [split; auto|]. split; [congruence|]. intros _ name' d'. destruct s; auto.
    - remember (c :: name0) as name eqn:Hn.
      assert (Pf : path_free s path) by (apply Pf0; rewrite Hn; discriminate).
      destruct (name_in name (f_names s)) eqn:Nin.
      { intro E; inversion E; subst e s'. split; [split; auto|]. split; [discriminate|]. auto. }
      destruct (copy_buffer H comb true fuel (mkBase evs None) file_bufsz (d_dg d) (d_sz d)) as [[[e0|] out] v] eqn:Ec;
        intro E; inversion E; subst e s'; clear E.
      + (* failed: the partial file is removed, nothing is recorded *)
        assert (Fk : forall dg p, assoc_get (f_d2p s) dg = Some p ->
                       assoc_get (assoc_del (f_files s) path) p = assoc_get (f_files s) p).
        { intros dg p Gp. rewrite assoc_get_del, (Pf _ _ Gp). reflexivity. }
        split; [|split; [discriminate|]].
        * split; auto. cbn [f_d2p f_files f_names f_fb name_in existsb]. intros dg p Gp. destruct (Ok1 _ _ Gp) as (bs & Fb & Db).
          exists bs. rewrite (Fk _ _ Gp). auto.
        * intros _ name' d'. split; [reflexivity|]. unfold file_fetch; cbn [f_d2p f_files f_names f_fb name_in existsb].
          destruct (negb _); auto.
          destruct (assoc_get (f_d2p s) (d_dg d')) as [p|] eqn:Gp; auto. apply (Fk _ _ Gp).
      + apply copy_buffer_sound in Ec as (A & (rest & B) & _). simpl in B.
        split; [|split; [|congruence]].
        * split; auto. cbn [f_d2p f_files f_names f_fb name_in existsb]. intros dg p. rewrite assoc_get_set.
          destruct (str_eqb (d_dg d) dg) eqn:Q.
          -- apply str_eqb_spec in Q. subst dg. intro X; inversion X; subst p.
             exists out. rewrite assoc_get_set, str_eqb_refl. destruct A as (A1 & A2 & A3). auto.
          -- intro Gp. destruct (Ok1 _ _ Gp) as (bs & Fb & Db).
             exists bs. rewrite assoc_get_set, (Pf _ _ Gp). auto.
        * intros _. exists out. unfold file_fetch, file_exists; cbn [f_d2p f_files f_names f_fb name_in existsb].
          rewrite !assoc_get_set, !str_eqb_refl.
          destruct name as [|c' n']; [discriminate Hn|]. cbn [orb negb].
          rewrite !assoc_get_set, !str_eqb_refl. destruct A as (A1 & A2 & A3).
          repeat split; auto. exists rest; exact B.
  Qed.

  (* what Fetch serves always hashes to the digest asked for *)
  Lemma file_fetch_ok s name d bs :
    file_ok s -> file_fetch s name d = Some bs ->
    d_dg d = digest_of H (alg_of (d_dg d)) bs /\ valid_digest (d_dg d) = true.
  Proof.
    intros [Ok1 Ok2]. unfold file_fetch. destruct (negb _); [discriminate|].
    destruct (assoc_get (f_d2p s) (d_dg d)) as [p|] eqn:Gp.
    - destruct (Ok1 _ _ Gp) as (bs' & Fb & Db & Vb). intro X. rewrite Fb in X. inversion X; subst. auto.
    - intro G. apply Ok2 in G. destruct G as (A1 & A2 & A3). auto.
  Qed.
End Stores.

(* ------------------------------------------------------------------ histories *)
Section HistoryProofs.
  Variable H : str -> str -> str.

  Lemma mem_reach_ok m : mem_reach H m -> mem_ok H m.
  Proof.
    induction 1 as [|comb fuel m d src e m' R IH E|comb fuel limit m d evs e m' R IH E].
    - intros d bs; discriminate.
    - eapply mem_push_ok; eauto.
    - apply limited_push_spec in E as [(_ & ->)|(_ & E)]; auto. eapply mem_push_ok; eauto.
  Qed.

  Lemma oci_reach_ok s : oci_reach H s -> oci_ok H s.
  Proof.
    induction 1 as [|comb fuel s d src e s' R IH E|comb fuel limit s d evs e s' R IH E].
    - intros d bs; discriminate.
    - eapply oci_push_ok; eauto.
    - apply limited_push_spec in E as [(_ & ->)|(_ & E)]; auto. eapply oci_push_ok; eauto.
  Qed.

  Lemma file_reach_ok s : file_reach H s -> file_ok H s.
  Proof.
    induction 1 as [|comb fuel s name path d evs e s' R IH Pf E].
    - split; intros d bs; discriminate.
    - eapply file_push_spec in E; eauto. apply E.
  Qed.

  (* ---------------------------------------------------------------- concurrency *)
  Definition thr_ok (t : thr) : Prop :=
    match t_pc t with
    | PIngest w todo e =>
        exists v, copy_buffer H (t_comb t) true (t_fuel t) (mkBase (t_evs t) None) oci_bufsz
                              (d_dg (t_d t)) (d_sz (t_d t)) = ((e, w ++ todo), v)
    | _ => True
    end.

  Definition cinv (st : cstate) : Prop := oci_ok H (c_blobs st) /\ Forall thr_ok (c_thr st).

  Lemma Forall_set_nth {A} (P : A -> Prop) l i x : Forall P l -> P x -> Forall P (set_nth l i x).
  Proof.
    intros F Px. revert i. induction F as [|y l Py F IH]; intros [|i]; simpl; auto.
  Qed.

  Lemma Forall_nth_error {A} (P : A -> Prop) l i x : Forall P l -> nth_error l i = Some x -> P x.
  Proof.
    intros F. revert i. induction F as [|y l Py F IH]; intros [|i]; simpl; try discriminate.
    - intro E; inversion E; subst; auto.
    - apply IH.
  Qed.

  Lemma cstep_inv st i n st' : cinv st -> cstep H st i n = Some st' -> cinv st'.
  Proof.
    intros [Ob Ft]. unfold cstep. destruct (nth_error (c_thr st) i) as [t|] eqn:Ei; [|discriminate].
    pose proof (Forall_nth_error _ _ _ _ Ft Ei) as Pt. unfold thr_ok in Pt.
    destruct (t_pc t) as [|w todo e|r] eqn:Epc; [| |discriminate].
    - destruct (negb (valid_digest (d_dg (t_d t)))).
      { intro E; inversion E; subst. split; auto. apply Forall_set_nth; auto; try exact I. }
      destruct (oci_get (c_blobs st) (d_dg (t_d t))).
      { intro E; inversion E; subst. split; auto. apply Forall_set_nth; auto; try exact I. }
      destruct (copy_buffer H (t_comb t) true (t_fuel t) (mkBase (t_evs t) None) oci_bufsz
                            (d_dg (t_d t)) (d_sz (t_d t))) as [[e out] v] eqn:Ec.
      intro E; inversion E; subst. split; auto. apply Forall_set_nth; auto.
      unfold thr_ok; simpl. exists v. exact Ec.
    - destruct Pt as [v Ec]. destruct todo as [|c todo].
      + destruct e as [er|]; intro E; inversion E; subst; (split; [|apply Forall_set_nth; auto; try exact I]); auto.
        simpl. rewrite app_nil_r in Ec. apply copy_buffer_sound in Ec as ((A1 & A2 & A3) & _).
        intros dg bs. simpl. destruct (str_eqb (d_dg (t_d t)) dg) eqn:Q.
        * apply str_eqb_spec in Q. subst dg. intro X; inversion X; subst. auto.
        * apply Ob.
      + intro E; inversion E; subst. split; auto. apply Forall_set_nth; auto.
        unfold thr_ok; simpl. exists v. rewrite <- app_assoc.
        change (c :: firstn (Nat.min n (length (c :: todo) - 1)) todo) with
               (firstn (S (Nat.min n (length (c :: todo) - 1))) (c :: todo)).
        change (skipn (S (Nat.min n (length (c :: todo) - 1))) (c :: todo)) with
               (skipn (Nat.min n (length (c :: todo) - 1)) todo).
        simpl firstn. simpl app. rewrite firstn_skipn. exact Ec.
  Qed.

  Lemma crun_inv sched : forall st st', cinv st -> crun H st sched = Some st' -> cinv st'.
  Proof.
    induction sched as [|[i n] r IH]; intros st st' Iv; simpl.
    - intro E; inversion E; subst; auto.
    - destruct (cstep H st i n) as [st1|] eqn:Es; [|discriminate].
      apply IH. eapply cstep_inv; eauto.
  Qed.

  Lemma cinv_start blobs ts :
    oci_ok H blobs -> Forall (fun t => t_pc t = PStart) ts -> cinv (mkC blobs ts).
  Proof.
    intros Ob F. split; auto. simpl. eapply Forall_impl; [|exact F].
    intros t E. unfold thr_ok. rewrite E. exact I.
  Qed.

  (* a thread that reports success has, at that step, put its verified bytes under its digest *)
  Lemma cstep_success st i n st' t :
    cinv st -> cstep H st i n = Some st' ->
    nth_error (c_thr st) i = Some t -> (exists w, t_pc t = PIngest w [] None) ->
    exists w, oci_get (c_blobs st') (d_dg (t_d t)) = Some w /\
              matches_desc H (d_dg (t_d t)) (d_sz (t_d t)) w /\ (neof (t_evs t) = 0 -> stream (t_evs t) = w).
  Proof.
    intros [Ob Ft] Es Ei [w Epc]. unfold cstep in Es. rewrite Ei, Epc in Es. inversion Es; subst; clear Es.
    pose proof (Forall_nth_error _ _ _ _ Ft Ei) as Pt. unfold thr_ok in Pt. rewrite Epc in Pt.
    destruct Pt as [v Ec]. rewrite app_nil_r in Ec. apply copy_buffer_sound in Ec as (A & _ & C).
    exists w. simpl. rewrite str_eqb_refl. split; [reflexivity|]. split; [exact A|]. intro Ne. apply C; auto.
  Qed.

  (* ---------------------------------------------------------------- the pre-fix behaviour *)
  Definition sha256_name : str := b "sha256".
  Definition empty_digest : str := digest_of H sha256_name [].

  Lemma alg_of_empty_digest : alg_of empty_digest = sha256_name.
  Proof. reflexivity. Qed.

  Lemma copy_loop_neg comb bufsz :
    copy_loop comb 1 (mkVr (mkBase [] None) (-1) [] None false) bufsz []
    = ((None, []), mkVr (mkBase [] None) (-1) [] (Some EEof) false).
  Proof. reflexivity. Qed.

  Lemma ensure_eof_empty comb : ensure_eof comb 1 (mkBase [] None, []) = (true, (mkBase [] None, [])).
  Proof. reflexivity. Qed.

  Lemma vr_verify_neg comb dg :
    verified H dg [] = true ->
    vr_verify H comb 1 dg (mkVr (mkBase [] None) (-1) [] (Some EEof) false)
    = (None, mkVr (mkBase [] None) (-1) [] (Some EEof) true).
  Proof.
    intro V. unfold vr_verify. cbn [v_verified v_err v_base v_hashed v_N].
    rewrite ensure_eof_empty. cbn [negb]. rewrite V. reflexivity.
  Qed.

  Lemma verified_empty_digest : verified H empty_digest [] = true.
  Proof. unfold verified. rewrite alg_of_empty_digest. apply str_eqb_refl. Qed.

  (* before the repair: CopyBuffer (hence oci.Storage.Push and file.Store) accepts a
     negative Size with empty content and stores the empty blob under it *)
  Lemma copy_buffer_prefix_negative_size comb bufsz :
    valid_digest empty_digest = true ->
    copy_buffer H comb false 1 (mkBase [] None) bufsz empty_digest (-1)
    = ((None, []), mkVr (mkBase [] None) (-1) [] (Some EEof) true).
  Proof.
    intro V. unfold copy_buffer, new_vr, new_vr_gen. rewrite V. cbn [negb andb].
    rewrite copy_loop_neg. rewrite (vr_verify_neg comb _ verified_empty_digest). reflexivity.
  Qed.

  Lemma oci_push_prefix_negative_size comb mt :
    valid_digest empty_digest = true ->
    oci_push H comb false 1 [] (mkDesc mt empty_digest (-1)) (mkBase [] None)
    = (None, [(empty_digest, [])]).
  Proof.
    intro V. unfold oci_push. cbn [d_dg d_sz]. rewrite V. cbn [negb oci_get].
    rewrite (copy_buffer_prefix_negative_size comb _ V). reflexivity.
  Qed.
End HistoryProofs.

(* ------------------------------------------------------------------ what is rejected *)
Section Rejects.
  Variable H : str -> str -> str.

  (* the reasons for which (reader, descriptor) is not "exactly the bytes the
     descriptor names": malformed / unsupported digest, negative size, fewer than
     Size bytes in the reader, first Size bytes hashing to something else, and --
     when the reader is not cut by a LimitReader and never answers EOF before its end --
     bytes beyond Size *)
  Definition bad_input (src : base) (dg : str) (sz : Z) : Prop :=
    valid_digest dg = false \/ (sz < 0)%Z \/
    (Z.of_nat (length (stream (b_evs src))) < sz)%Z \/
    dg <> digest_of H (alg_of dg) (firstn (Z.to_nat sz) (stream (b_evs src))) \/
    (b_lim src = None /\ neof (b_evs src) = 0 /\ (sz < Z.of_nat (length (stream (b_evs src))))%Z).

  Lemma good_not_bad src dg sz out :
    matches_desc H dg sz out -> (exists rest, stream (b_evs src) = out ++ rest) ->
    (b_lim src = None -> neof (b_evs src) = 0 -> stream (b_evs src) = out) -> ~ bad_input src dg sz.
  Proof.
    intros (A1 & A2 & A3) (rest & B) C [X|[X|[X|[X|[X1 [X3 X2]]]]]].
    - congruence.
    - lia.
    - rewrite B, app_length in X. lia.
    - apply X. rewrite B. replace (Z.to_nat sz) with (length out) by lia.
      rewrite firstn_app_exact. exact A2.
    - rewrite (C X1 X3) in X2. lia.
  Qed.

  Lemma read_all_rejects comb fixed fuel src dg sz buf v :
    bad_input src dg sz -> read_all H comb fixed fuel src dg sz <> ((None, buf), v).
  Proof.
    intros B E. apply read_all_sound in E as (A1 & A2 & A3). eapply good_not_bad; eauto.
  Qed.

  Lemma copy_buffer_rejects comb fuel src bufsz dg sz out v :
    bad_input src dg sz -> copy_buffer H comb true fuel src bufsz dg sz <> ((None, out), v).
  Proof.
    intros B E. apply copy_buffer_sound in E as (A1 & A2 & A3). eapply good_not_bad; eauto.
  Qed.

  Lemma mem_push_rejects comb fixed fuel m d src e m' :
    bad_input src (d_dg d) (d_sz d) -> mem_push H comb fixed fuel m d src = (e, m') -> e <> None /\ m' = m.
  Proof.
    intros B E. apply mem_push_spec in E as [(-> & _ & buf & _ & A & A2 & A3)|X]; auto.
    exfalso. eapply good_not_bad; eauto.
  Qed.

  Lemma oci_push_rejects comb fuel s d src e s' :
    bad_input src (d_dg d) (d_sz d) -> oci_push H comb true fuel s d src = (e, s') -> e <> None /\ s' = s.
  Proof.
    intros B E. apply oci_push_spec in E as [(-> & _ & buf & _ & A & A2 & A3)|X]; auto.
    exfalso. eapply good_not_bad; eauto.
  Qed.

  Lemma limited_mem_push_rejects comb fixed fuel limit m d evs e m' :
    bad_input (mkBase evs (Some (d_sz d))) (d_dg d) (d_sz d) ->
    limited_push (mem_push H comb fixed fuel) limit m d evs = (e, m') -> e <> None /\ m' = m.
  Proof.
    intros B E. apply limited_push_spec in E as [(-> & ->)|(_ & E)].
    - split; [discriminate|reflexivity].
    - eapply mem_push_rejects; eauto.
  Qed.

  Lemma file_push_rejects comb fuel s name path d evs e s' :
    bad_input (mkBase evs (match name with [] => Some (d_sz d) | _ => None end)) (d_dg d) (d_sz d) ->
    file_push H comb true fuel s name path d evs = (e, s') -> e <> None.
  Proof.
    unfold file_push. destruct name as [|c n0]; intro B.
    - destruct (limited_push _ _ _ _ _) as [e0 fb'] eqn:El. intro E; inversion E; subst.
      eapply limited_mem_push_rejects in El; eauto. apply El.
    - destruct (name_in (c :: n0) (f_names s)); [intro E; inversion E; discriminate|].
      destruct (copy_buffer H comb true fuel (mkBase evs None) file_bufsz (d_dg d) (d_sz d)) as [[[e0|] out] v] eqn:Ec;
        intro E; inversion E; subst; [discriminate|].
      exfalso. eapply copy_buffer_rejects; eauto.
  Qed.
End Rejects.

(* ------------------------------------------------------------------ a failing reader is never accepted *)
Section FailingReader.
  Variable H : str -> str -> str.
  Variable comb : bool.

  Definition quiet (e : option rerr) : Prop := e = None \/ e = Some EEof.

  Lemma script_read_nfail evs k bs e evs' :
    script_read comb evs k = ((bs, e), evs') -> quiet e -> nfail evs' = nfail evs.
  Proof.
    destruct evs as [|[d| | |] r]; simpl; intros E Q.
    - inversion E; subst. reflexivity.
    - destruct (length d <=? k).
      + destruct comb.
        * destruct r as [|[d'| | |] r']; inversion E; subst; simpl; auto.
          destruct Q as [Q|Q]; discriminate.
        * inversion E; subst. reflexivity.
      + inversion E; subst. reflexivity.
    - inversion E; subst. reflexivity.
    - inversion E; subst. destruct Q as [Q|Q]; discriminate.
    - inversion E; subst. reflexivity.
  Qed.

  Lemma base_read_nfail s k bs e s' :
    base_read comb s k = ((bs, e), s') -> quiet e -> nfail (b_evs s') = nfail (b_evs s).
  Proof.
    unfold base_read. destruct s as [evs [n|]]; simpl.
    - destruct (n <=? 0)%Z.
      + intro E; inversion E; subst. reflexivity.
      + destruct (script_read comb evs (clamp k n)) as [[bs0 e0] evs0] eqn:Es.
        intro E; inversion E; subst; simpl. eapply script_read_nfail; eauto.
    - destruct (script_read comb evs k) as [[bs0 e0] evs0] eqn:Es.
      intro E; inversion E; subst; simpl. eapply script_read_nfail; eauto.
  Qed.

  Lemma read_full_tee_nfail fuel : forall b h want acc acc' b' h',
    read_full (tee_read comb) fuel (b, h) want acc = ((acc', Some EEof), (b', h')) ->
    nfail (b_evs b') = nfail (b_evs b).
  Proof.
    induction fuel as [|f IH]; intros b h want acc acc' b' h'; simpl.
    - destruct (want <=? length acc); intro E; inversion E.
    - destruct (want <=? length acc); [intro E; inversion E|].
      unfold tee_read at 1. simpl.
      destruct (base_read comb b (want - length acc)) as [[bs e0] b1] eqn:Eb.
      destruct e0 as [e0|].
      + destruct (want <=? length (acc ++ bs)); [intro E; inversion E|].
        destruct ((0 <? length (acc ++ bs)) && is_eof e0); intro E; inversion E; subst.
        eapply base_read_nfail; eauto. right; reflexivity.
      + intro E. apply IH in E. rewrite E. eapply base_read_nfail; eauto. left; reflexivity.
  Qed.

  (* while the VerifyReader is not in an error state no failure has been consumed *)
  Definition inv2 (NF : nat) (v : vrd) : Prop :=
    v_verified v = false /\ neof (b_evs (v_base v)) = 0 /\ (quiet (v_err v) -> nfail (b_evs (v_base v)) = NF).

  Lemma vr_read_inv2 NF v k bs e v' :
    inv2 NF v -> vr_read comb v k = ((bs, e), v') -> inv2 NF v'.
  Proof.
    intros (I1 & I0 & I2) E. unfold vr_read in E. destruct (v_err v) as [e0|] eqn:Ee.
    - inversion E; subst. split; auto. split; auto. rewrite Ee. exact I2.
    - destruct (v_N v <=? 0)%Z.
      + inversion E; subst. split; auto. split; auto. simpl. intros _. apply I2. left; reflexivity.
      + destruct (base_read comb (v_base v) (clamp k (v_N v))) as [[bs0 e1] b1] eqn:Eb.
        pose proof (base_read_spec _ _ _ _ _ _ Eb) as (_ & _ & _ & _ & Dz).
        assert (Z1 : neof (b_evs b1) = 0) by lia.
        destruct e1 as [e1|]; inversion E; subst; clear E; (split; [exact I1|split; [exact Z1|]]); simpl.
        * intro Q. rewrite <- (I2 (or_introl eq_refl)). eapply base_read_nfail; eauto.
          destruct e1; simpl in Q; try (destruct Q as [Q|Q]; discriminate). right; reflexivity.
        * intros _. rewrite <- (I2 (or_introl eq_refl)). eapply base_read_nfail; eauto. left; reflexivity.
  Qed.

  Lemma read_full_inv2 NF fuel : forall v want acc acc' e v',
    inv2 NF v -> read_full (vr_read comb) fuel v want acc = ((acc', e), v') -> inv2 NF v'.
  Proof.
    induction fuel as [|f IH]; intros v want acc acc' e v' I; simpl.
    - destruct (want <=? length acc); intro E; inversion E; subst; auto.
    - destruct (want <=? length acc); [intro E; inversion E; subst; auto|].
      destruct (vr_read comb v (want - length acc)) as [[bs e0] v1] eqn:Er.
      pose proof (vr_read_inv2 _ _ _ _ _ _ I Er) as I1.
      destruct e0 as [e0|].
      + destruct (want <=? length (acc ++ bs)); [intro E; inversion E; subst; auto|].
        destruct ((0 <? length (acc ++ bs)) && is_eof e0); intro E; inversion E; subst; auto.
      + apply IH; auto.
  Qed.

  Lemma copy_loop_inv2 NF bufsz fuel : forall v out e out' v',
    inv2 NF v -> copy_loop comb fuel v bufsz out = ((e, out'), v') -> inv2 NF v'.
  Proof.
    induction fuel as [|f IH]; intros v out e out' v' I; simpl.
    - intro E; inversion E; subst; auto.
    - destruct (vr_read comb v bufsz) as [[bs e0] v1] eqn:Er.
      pose proof (vr_read_inv2 _ _ _ _ _ _ I Er) as I1.
      destruct e0 as [e0|]; [destruct e0; intro E; inversion E; subst; auto|apply IH; auto].
  Qed.

  Lemma vr_verify_inv2 NF fuel dg v v' :
    inv2 NF v -> lim_none (v_base v) = true -> vr_verify H comb fuel dg v = (None, v') -> NF = 0.
  Proof.
    intros (I1 & I0 & I2) L. unfold vr_verify. rewrite I1.
    destruct (ensure_eof comb fuel (v_base v, v_hashed v)) as [ok [b1 h1]] eqn:Ee.
    assert (P : quiet (v_err v) ->
                (if negb ok then (Some ETrailing, set_err (mkVr b1 (v_N v) h1 (v_err v) false) ETrailing)
                 else if verified H dg h1 then (None, mkVr b1 (v_N v) h1 (Some EEof) true)
                      else (Some EMismatch, set_err (mkVr b1 (v_N v) h1 (v_err v) false) EMismatch)) = (None, v') ->
                NF = 0).
    { intros Q X. destruct ok; [|discriminate]. rewrite <- (I2 Q).
      pose proof Ee as Ee'. apply ensure_eof_spec in Ee' as (_ & d & _ & _ & E3 & _).
      destruct (E3 eq_refl) as [_ Z]. unfold ensure_eof in Ee.
      destruct (read_full (tee_read comb) fuel (v_base v, v_hashed v) 1 []) as [[acc e] [b2 h2]] eqn:Er.
      inversion Ee; subst. destruct e as [[]|]; try discriminate.
      apply read_full_tee_nfail in Er. rewrite <- Er, (Z L I0). reflexivity. }
    destruct (v_err v) as [e0|] eqn:Ee0.
    - destruct e0; try discriminate. apply P. right; reflexivity.
    - destruct (v_N v >? 0)%Z; [discriminate|]. apply P. left; reflexivity.
  Qed.

  Lemma new_vr_inv2 fixed src dg sz : neof (b_evs src) = 0 -> inv2 (nfail (b_evs src)) (new_vr_gen fixed src dg sz).
  Proof.
    intro Z0. unfold new_vr_gen. destruct (negb (valid_digest dg)); [split; auto|].
    destruct (fixed && (sz <? 0)%Z); split; auto.
  Qed.

  Lemma read_all_failing fixed fuel evs dg sz buf v :
    neof evs = 0 ->
    read_all H comb fixed fuel (mkBase evs None) dg sz = ((None, buf), v) -> nfail evs = 0.
  Proof.
    intro Ne. unfold read_all. destruct (sz <? 0)%Z eqn:Z0; [discriminate|].
    pose proof (new_vr_inv2 fixed (mkBase evs None) dg sz Ne) as I. simpl in I.
    destruct (read_full (vr_read comb) fuel (new_vr fixed (mkBase evs None) dg sz) (Z.to_nat sz) []) as [[b0 e] v0] eqn:Er.
    pose proof (read_full_inv2 _ _ _ _ _ _ _ _ I Er) as I0.
    assert (L : lim_none (v_base v0) = true).
    { assert (S : st3 H False (stream evs) dg sz (new_vr fixed (mkBase evs None) dg sz) []).
      { apply (new_vr_st3 H False fixed (mkBase evs None)); [right; lia|intros []]. }
      destruct (read_full_vr H comb False _ _ _ _ _ _ _ _ _ _ _ S Er) as (d & _ & _ & E3).
      rewrite E3. unfold new_vr. rewrite new_vr_lim. reflexivity. }
    destruct e as [e|]; [discriminate|].
    destruct (vr_verify H comb fuel dg v0) as [r v1] eqn:Ev.
    intro X; inversion X; subst. eapply vr_verify_inv2; eauto.
  Qed.

  Lemma copy_buffer_failing fuel evs bufsz dg sz out v :
    neof evs = 0 ->
    copy_buffer H comb true fuel (mkBase evs None) bufsz dg sz = ((None, out), v) -> nfail evs = 0.
  Proof.
    intro Ne. unfold copy_buffer.
    pose proof (new_vr_inv2 true (mkBase evs None) dg sz Ne) as I. simpl in I.
    destruct (copy_loop comb fuel (new_vr true (mkBase evs None) dg sz) bufsz []) as [[e o] v0] eqn:Ec.
    pose proof (copy_loop_inv2 _ _ _ _ _ _ _ _ I Ec) as I0.
    assert (L : lim_none (v_base v0) = true).
    { assert (S : st3 H False (stream evs) dg sz (new_vr true (mkBase evs None) dg sz) []).
      { apply (new_vr_st3 H False true (mkBase evs None)); [left; reflexivity|intros []]. }
      destruct (copy_loop_st3 H comb False _ _ _ _ _ _ _ _ _ _ S Ec) as (_ & E3).
      rewrite E3. unfold new_vr. rewrite new_vr_lim. reflexivity. }
    destruct e as [e|]; [discriminate|].
    destruct (vr_verify H comb fuel dg v0) as [r v1] eqn:Ev.
    intro X; inversion X; subst. eapply vr_verify_inv2; eauto.
  Qed.

  Lemma nfail_in evs : In Fail evs -> nfail evs <> 0.
  Proof.
    induction evs as [|e r IH]; simpl; [intros []|].
    intros [X|X]; [subst e; simpl; discriminate|destruct e; simpl; auto].
  Qed.

  (* a reader that reports an error at any point before it is exhausted (and does not
     answer EOF before the end of its script: what lies behind an EOF is never read) *)
  Lemma failing_reader_rejected fuel evs d :
    In Fail evs -> neof evs = 0 ->
    (forall fixed buf v, read_all H comb fixed fuel (mkBase evs None) (d_dg d) (d_sz d) <> ((None, buf), v)) /\
    (forall bufsz out v, copy_buffer H comb true fuel (mkBase evs None) bufsz (d_dg d) (d_sz d) <> ((None, out), v)) /\
    (forall fixed m e m', mem_push H comb fixed fuel m d (mkBase evs None) = (e, m') -> e <> None /\ m' = m) /\
    (forall s e s', oci_push H comb true fuel s d (mkBase evs None) = (e, s') -> e <> None /\ s' = s) /\
    (forall s name path e s', name <> [] -> file_push H comb true fuel s name path d evs = (e, s') -> e <> None).
  Proof.
    intros F Ne. apply nfail_in in F. split; [|split; [|split; [|split]]].
    - intros fixed buf v E. apply F. eapply read_all_failing; eauto.
    - intros bufsz out v E. apply F. eapply copy_buffer_failing; eauto.
    - intros fixed m e m'. unfold mem_push. destruct (mem_get m d).
      + intro E; inversion E; subst. split; [discriminate|reflexivity].
      + destruct (read_all H comb fixed fuel (mkBase evs None) (d_dg d) (d_sz d)) as [[[e0|] buf] v] eqn:Er;
          intro E; inversion E; subst.
        * split; [discriminate|reflexivity].
        * exfalso. apply F. eapply read_all_failing; eauto.
    - intros s e s'. unfold oci_push. destruct (negb (valid_digest (d_dg d))).
      { intro E; inversion E; subst. split; [discriminate|reflexivity]. }
      destruct (oci_get s (d_dg d)).
      + intro E; inversion E; subst. split; [discriminate|reflexivity].
      + destruct (copy_buffer H comb true fuel (mkBase evs None) oci_bufsz (d_dg d) (d_sz d)) as [[[e0|] out] v] eqn:Ec;
          intro E; inversion E; subst.
        * split; [discriminate|reflexivity].
        * exfalso. apply F. eapply copy_buffer_failing; eauto.
    - intros s name path e s' Nn. unfold file_push. destruct name as [|c n0]; [congruence|].
      destruct (name_in (c :: n0) (f_names s)); [intro E; inversion E; discriminate|].
      destruct (copy_buffer H comb true fuel (mkBase evs None) file_bufsz (d_dg d) (d_sz d)) as [[[e0|] out] v] eqn:Ec;
        intro E; inversion E; subst; [discriminate|].
      exfalso. apply F. eapply copy_buffer_failing; eauto.
  Qed.
End FailingReader.

(* ------------------------------------------------------------------ a reader that fails or ends before Size bytes *)
Section EarlyFailure.
  Variable H : str -> str -> str.
  Variable comb : bool.

  (* a Read that returns no error delivers bytes counted by [avail]; one that returns EOF
     delivers at most what was available (what lies behind an EOF does not count) *)
  Lemma script_read_avail evs k bs e evs' :
    script_read comb evs k = ((bs, e), evs') ->
    (e = None -> avail evs = length bs + avail evs') /\ (e = Some EEof -> length bs <= avail evs).
  Proof.
    destruct evs as [|[d| | |] r]; simpl; intros E.
    - inversion E; subst. split; [discriminate|simpl; lia].
    - destruct (length d <=? k) eqn:L.
      + destruct comb.
        * destruct r as [|[d'| | |] r']; inversion E; subst; simpl; split; try discriminate; intros _; lia.
        * inversion E; subst. split; [reflexivity|discriminate].
      + apply Nat.leb_gt in L. inversion E; subst. simpl. split; [|discriminate]. intros _.
        rewrite firstn_length_le, skipn_length by lia. lia.
    - inversion E; subst. split; [reflexivity|discriminate].
    - inversion E; subst. split; discriminate.
    - inversion E; subst. split; [discriminate|simpl; lia].
  Qed.

  Lemma base_read_avail s k bs e s' :
    base_read comb s k = ((bs, e), s') ->
    (e = None -> avail (b_evs s) = length bs + avail (b_evs s')) /\ (e = Some EEof -> length bs <= avail (b_evs s)).
  Proof.
    unfold base_read. destruct s as [evs [n|]]; simpl.
    - destruct (n <=? 0)%Z.
      + intro E; inversion E; subst. split; [discriminate|simpl; lia].
      + destruct (script_read comb evs (clamp k n)) as [[bs0 e0] evs0] eqn:Es.
        intro E; inversion E; subst; simpl. eapply script_read_avail; eauto.
    - destruct (script_read comb evs k) as [[bs0 e0] evs0] eqn:Es.
      intro E; inversion E; subst; simpl. eapply script_read_avail; eauto.
  Qed.

  (* while the VerifyReader has seen no error: bytes handed out + bytes still deliverable
     before the first failure / EOF = what the script could deliver at the start; once it
     has seen EOF: at most that much was handed out *)
  Definition inv3 (A : nat) (v : vrd) (out : str) : Prop :=
    v_verified v = false /\ (v_err v = None -> length out + avail (b_evs (v_base v)) = A) /\
    (quiet (v_err v) -> length out <= A).

  Lemma vr_read_inv3 A v out k bs e v' :
    inv3 A v out -> vr_read comb v k = ((bs, e), v') -> inv3 A v' (out ++ bs).
  Proof.
    intros (I1 & I2 & I3) E. unfold vr_read in E. destruct (v_err v) as [e0|] eqn:Ee.
    - inversion E; subst. rewrite app_nil_r. split; auto. rewrite Ee. split; auto.
    - specialize (I2 eq_refl). destruct (v_N v <=? 0)%Z.
      + inversion E; subst. rewrite app_nil_r. split; auto. simpl. split; [discriminate|]. intros _. lia.
      + destruct (base_read comb (v_base v) (clamp k (v_N v))) as [[bs0 e1] b1] eqn:Eb.
        apply base_read_avail in Eb as [Bn Be].
        destruct e1 as [e1|]; inversion E; subst; clear E; (split; [exact I1|]); simpl; rewrite app_length.
        * split; [destruct (is_eof e1 && _); discriminate|].
          intro Q. destruct e1; simpl in Q; try (destruct Q as [Q|Q]; discriminate).
          specialize (Be eq_refl). lia.
        * specialize (Bn eq_refl). split; intros _; lia.
  Qed.

  Lemma read_full_inv3 A fuel : forall v out want acc acc' e v',
    inv3 A v out -> read_full (vr_read comb) fuel v want acc = ((acc', e), v') ->
    exists d, acc' = acc ++ d /\ inv3 A v' (out ++ d).
  Proof.
    induction fuel as [|f IH]; intros v out want acc acc' e v' I; simpl.
    - destruct (want <=? length acc); intro E; inversion E; subst; exists []; rewrite !app_nil_r; auto.
    - destruct (want <=? length acc); [intro E; inversion E; subst; exists []; rewrite !app_nil_r; auto|].
      destruct (vr_read comb v (want - length acc)) as [[bs e0] v1] eqn:Er.
      pose proof (vr_read_inv3 _ _ _ _ _ _ _ I Er) as I1.
      destruct e0 as [e0|].
      + destruct (want <=? length (acc ++ bs)); [intro E; inversion E; subst; exists bs; auto|].
        destruct ((0 <? length (acc ++ bs)) && is_eof e0); intro E; inversion E; subst; exists bs; auto.
      + intro E. destruct (IH _ _ _ _ _ _ _ I1 E) as (d & E1 & E2).
        exists (bs ++ d). subst acc'. rewrite !app_assoc. auto.
  Qed.

  Lemma copy_loop_inv3 A bufsz fuel : forall v out e out' v',
    inv3 A v out -> copy_loop comb fuel v bufsz out = ((e, out'), v') -> inv3 A v' out'.
  Proof.
    induction fuel as [|f IH]; intros v out e out' v' I; simpl.
    - intro E; inversion E; subst; auto.
    - destruct (vr_read comb v bufsz) as [[bs e0] v1] eqn:Er.
      pose proof (vr_read_inv3 _ _ _ _ _ _ _ I Er) as I1.
      destruct e0 as [e0|]; [destruct e0; intro E; inversion E; subst; auto|apply IH; auto].
  Qed.

  Lemma vr_verify_inv3 A fuel dg v out v' :
    inv3 A v out -> vr_verify H comb fuel dg v = (None, v') -> length out <= A.
  Proof.
    intros (I1 & I2 & I3). unfold vr_verify. rewrite I1.
    destruct (ensure_eof comb fuel (v_base v, v_hashed v)) as [ok [b1 h1]] eqn:Ee.
    destruct (v_err v) as [e0|] eqn:Ee0.
    - destruct e0; try discriminate. intros _. apply I3. right; reflexivity.
    - destruct (v_N v >? 0)%Z; [discriminate|]. intros _. apply I3. left; reflexivity.
  Qed.

  Lemma new_vr_inv3 fixed src dg sz : inv3 (avail (b_evs src)) (new_vr_gen fixed src dg sz) [].
  Proof.
    unfold new_vr_gen, inv3, quiet.
    destruct (negb (valid_digest dg)); [simpl; repeat split; auto; try discriminate; intros [X|X]; discriminate|].
    destruct (fixed && (sz <? 0)%Z); simpl; repeat split; auto; try discriminate; try lia; intros [X|X]; discriminate.
  Qed.

  Lemma read_all_early fixed fuel src dg sz buf v :
    read_all H comb fixed fuel src dg sz = ((None, buf), v) -> (sz <= Z.of_nat (avail (b_evs src)))%Z.
  Proof.
    intro E. pose proof (read_all_sound H comb fixed fuel src dg sz buf v E) as ((A1 & _) & _).
    revert E. unfold read_all. destruct (sz <? 0)%Z; [discriminate|].
    pose proof (new_vr_inv3 fixed src dg sz) as I.
    destruct (read_full (vr_read comb) fuel (new_vr fixed src dg sz) (Z.to_nat sz) []) as [[b0 e] v0] eqn:Er.
    destruct (read_full_inv3 _ _ _ _ _ _ _ _ _ I Er) as (d & E1 & I0). simpl in E1, I0. subst b0.
    destruct e as [e|]; [discriminate|].
    destruct (vr_verify H comb fuel dg v0) as [r v1] eqn:Ev.
    intro X; inversion X; subst. pose proof (vr_verify_inv3 _ _ _ _ _ _ I0 Ev). lia.
  Qed.

  Lemma copy_buffer_early fuel src bufsz dg sz out v :
    copy_buffer H comb true fuel src bufsz dg sz = ((None, out), v) -> (sz <= Z.of_nat (avail (b_evs src)))%Z.
  Proof.
    intro E. pose proof (copy_buffer_sound H comb fuel src bufsz dg sz out v E) as ((A1 & _) & _).
    revert E. unfold copy_buffer.
    pose proof (new_vr_inv3 true src dg sz) as I.
    destruct (copy_loop comb fuel (new_vr true src dg sz) bufsz []) as [[e o] v0] eqn:Ec.
    pose proof (copy_loop_inv3 _ _ _ _ _ _ _ _ I Ec) as I0.
    destruct e as [e|]; [discriminate|].
    destruct (vr_verify H comb fuel dg v0) as [r v1] eqn:Ev.
    intro X; inversion X; subst. pose proof (vr_verify_inv3 _ _ _ _ _ _ I0 Ev). lia.
  Qed.

  (* every push path, limited or not *)
  Lemma early_failure_rejected fuel evs d :
    (Z.of_nat (avail evs) < d_sz d)%Z ->
    (forall fixed lim buf v, read_all H comb fixed fuel (mkBase evs lim) (d_dg d) (d_sz d) <> ((None, buf), v)) /\
    (forall lim bufsz out v, copy_buffer H comb true fuel (mkBase evs lim) bufsz (d_dg d) (d_sz d) <> ((None, out), v)) /\
    (forall fixed lim m e m', mem_push H comb fixed fuel m d (mkBase evs lim) = (e, m') -> e <> None /\ m' = m) /\
    (forall lim s e s', oci_push H comb true fuel s d (mkBase evs lim) = (e, s') -> e <> None /\ s' = s) /\
    (forall s name path e s', file_push H comb true fuel s name path d evs = (e, s') -> e <> None).
  Proof.
    intro A.
    assert (RA : forall fixed lim buf v, read_all H comb fixed fuel (mkBase evs lim) (d_dg d) (d_sz d) <> ((None, buf), v)).
    { intros fixed lim buf v E. apply read_all_early in E. simpl in E. lia. }
    assert (CB : forall lim bufsz out v, copy_buffer H comb true fuel (mkBase evs lim) bufsz (d_dg d) (d_sz d) <> ((None, out), v)).
    { intros lim bufsz out v E. apply copy_buffer_early in E. simpl in E. lia. }
    assert (MP : forall fixed lim m e m', mem_push H comb fixed fuel m d (mkBase evs lim) = (e, m') -> e <> None /\ m' = m).
    { intros fixed lim m e m'. unfold mem_push. destruct (mem_get m d).
      - intro E; inversion E; subst. split; [discriminate|reflexivity].
      - destruct (read_all H comb fixed fuel (mkBase evs lim) (d_dg d) (d_sz d)) as [[[e0|] buf] v] eqn:Er;
          intro E; inversion E; subst.
        + split; [discriminate|reflexivity].
        + exfalso. eapply RA; eauto. }
    split; [exact RA|]. split; [exact CB|]. split; [exact MP|]. split.
    - intros lim s e s'. unfold oci_push. destruct (negb (valid_digest (d_dg d))).
      { intro E; inversion E; subst. split; [discriminate|reflexivity]. }
      destruct (oci_get s (d_dg d)).
      + intro E; inversion E; subst. split; [discriminate|reflexivity].
      + destruct (copy_buffer H comb true fuel (mkBase evs lim) oci_bufsz (d_dg d) (d_sz d)) as [[[e0|] out] v] eqn:Ec;
          intro E; inversion E; subst.
        * split; [discriminate|reflexivity].
        * exfalso. eapply CB; eauto.
    - intros s name path e s'. unfold file_push. destruct name as [|c n0].
      + destruct (limited_push _ _ _ _ _) as [e0 fb'] eqn:El. intro E; inversion E; subst.
        apply limited_push_spec in El as [(-> & _)|(_ & El)]; [discriminate|].
        apply MP in El. apply El.
      + destruct (name_in (c :: n0) (f_names s)); [intro E; inversion E; discriminate|].
        destruct (copy_buffer H comb true fuel (mkBase evs None) file_bufsz (d_dg d) (d_sz d)) as [[[e0|] out] v] eqn:Ec;
          intro E; inversion E; subst; [discriminate|].
        exfalso. eapply CB; eauto.
  Qed.
End EarlyFailure.
