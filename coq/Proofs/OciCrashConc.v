(* C10 -- concurrent callers: every configuration reachable by any schedule is a directory the
   property accepts (Model/OciCrashConc.v). *)
From Oras Require Import Base.Prelude Model.OciCrash Model.OciCrashSpec Model.OciCrashConc Proofs.OciCrash.

Section ConcProofs.
Variable H : list N -> N.
Variable shuffle : nat -> list entry -> list entry.
Hypothesis shuffle_In : forall c l e, In e (shuffle c l) <-> In e l.

Notation fireN := (fire shuffle).
Notation stepN := (sched_step shuffle).

(* the rest of a thread's program is safe: a blob is published only when the ingest file holds
   verified content, a resolver entry is made only for a blob that exists (or that the thread
   itself has published earlier in the same call: [extra]) *)
Fixpoint safe (fs : FS) (extra : list N) (tmp : list atom) (p : list act) : Prop :=
  match p with
  | [] => True
  | TWrite a :: r => safe fs extra (tmp ++ [a]) r
  | TPublishBlob d :: r => (exists c, tmp = map AChunk c /\ H c = d) /\ safe fs (d :: extra) [] r
  | TDropTemp :: r => safe fs extra [] r
  | TTagMem d _ :: r => (has fs (FBlob d) \/ In d extra) /\ safe fs extra tmp r
  | _ :: r => safe fs extra tmp r
  end.

Definition grows (fs fs' : FS) : Prop := forall d, has fs (FBlob d) -> has fs' (FBlob d).

Lemma safe_mono fs fs' p : grows fs fs' -> forall extra tmp, safe fs extra tmp p -> safe fs' extra tmp p.
Proof.
  intro G. induction p as [|a p IH]; intros extra tmp S; [exact I|].
  destruct a; cbn [safe] in *; try (now apply IH).
  - destruct S as [E S]. split; [exact E|now apply IH].
  - destruct S as [[E|E] S]; (split; [|now apply IH]); [left; now apply G|now right].
Qed.

Lemma safe_absorb fs p : forall d extra tmp,
  has fs (FBlob d) -> safe fs (d :: extra) tmp p -> safe fs extra tmp p.
Proof.
  induction p as [|a p IH]; intros d extra tmp Hd S; [exact I|].
  destruct a; cbn [safe] in *; try (now apply (IH d)).
  - destruct S as [E S]. split; [exact E|].
    (* the order of the extras does not matter: generalise *)
    clear E. revert S. generalize (@nil atom). intros tmp0 S.
    assert (Perm : forall q e1 e2 tm, (forall x, In x e1 -> In x e2 \/ has fs (FBlob x)) -> safe fs e1 tm q -> safe fs e2 tm q).
    { induction q as [|b q IHq]; intros e1 e2 tm He Sq; [exact I|].
      destruct b; cbn [safe] in *; try (now apply (IHq e1)).
      - destruct Sq as [E Sq]. split; [exact E|]. apply (IHq (d1 :: e1)); [|exact Sq].
        intros x [<-|Hx]; [left; now left|]. destruct (He x Hx) as [Hy|Hy]; [left; now right|now right].
      - destruct Sq as [[E|E] Sq]; (split; [|now apply (IHq e1)]); [now left|].
        destruct (He _ E) as [Hy|Hy]; [now right|now left]. }
    apply (Perm p (d0 :: d :: extra)); [|exact S].
    intros x [<-|[<-|Hx]]; [left; now left|now right|left; now right].
  - destruct S as [[E|[<-|E]] S]; (split; [|now apply (IH d)]); [now left|now left|now right].
Qed.

Lemma safe_writes fs extra c : forall tmp rest,
  safe fs extra (tmp ++ map AChunk c) rest -> safe fs extra tmp (map (fun x => TWrite (AChunk x)) c ++ rest).
Proof.
  induction c as [|x c IH]; intros tmp rest S; cbn [map app safe].
  - now rewrite app_nil_r in S.
  - apply IH. now rewrite <- app_assoc.
Qed.

Definition TOK (fs : FS) (t : thread) : Prop :=
  (forall l, tsnap t = Some l -> forall e, In e l -> has fs (FBlob (fst e))) /\
  safe fs [] (ttmp t) (tprog t).

Record CInv (c : conf) : Prop := {
  ci_layout : layout_ok (cfs c);
  ci_blob : blob_ok H (cfs c);
  ci_index : index_ok (cfs c);
  ci_tagdig : forall r n, In (r, n) (ctags c) -> In n (cdigs c);
  ci_digs : forall n, In n (cdigs c) -> has (cfs c) (FBlob n);
  ci_threads : forall t, In t (cthreads c) -> TOK (cfs c) t
}.

Lemma tok_mono fs fs' t : grows fs fs' -> TOK fs t -> TOK fs' t.
Proof.
  intros G [A B]. split; [|now apply (safe_mono fs)].
  intros l Hl e Hin. apply G. now apply (A l).
Qed.

Lemma In_set_nth {A} (x y : A) l : forall i, In y (set_nth i x l) -> y = x \/ In y l.
Proof.
  induction l as [|z l IH]; intros i Hin; [destruct i; destruct Hin|].
  destruct i; cbn in Hin.
  - destruct Hin as [<-|Hin]; [now left|right; now right].
  - destruct Hin as [<-|Hin]; [right; now left|]. destruct (IH i Hin); [now left|right; now right].
Qed.

Lemma has_set_blob fs d f x : has fs (FBlob x) -> has (set_file fs (FBlob d) f) (FBlob x).
Proof.
  unfold has, set_file. cbn [files]. unfold upd. destruct (fpath_eqb (FBlob x) (FBlob d)); [discriminate|auto].
Qed.

(* one scheduler step preserves the invariant *)
Lemma step_inv c i : CInv c -> CInv (stepN c i).
Proof.
  intros [L B Ix TD D T]. unfold sched_step.
  destruct (nth_error (cthreads c) i) as [t|] eqn:En; [|constructor; assumption].
  pose proof (T t (nth_error_In _ _ En)) as [Tsnap Tsafe].
  unfold fire. destruct (tprog t) as [|a rest] eqn:Ep; [constructor; assumption|].
  assert (Others : forall fs', grows (cfs c) fs' -> forall t' u,
            TOK fs' t' -> In u (set_nth i t' (cthreads c)) -> TOK fs' u).
  { intros fs' G t' u Ht' Hin. apply In_set_nth in Hin as [->|Hin]; [exact Ht'|].
    apply (tok_mono (cfs c)); [exact G|now apply T]. }
  assert (Same : grows (cfs c) (cfs c)) by (intros d Hd; exact Hd).
  destruct a; cbn [safe] in Tsafe.
  - (* TWrite *)
    constructor; cbn [cfs ctags cdigs cthreads]; try assumption.
    intros u Hin. refine (Others (cfs c) Same _ u _ Hin). split; [exact Tsnap|exact Tsafe].
  - (* TPublishBlob *)
    destruct Tsafe as [(cn & Ec & Hc) Tsafe].
    set (fs' := set_file (cfs c) (FBlob d) (mkFile (ttmp t) true)).
    assert (G : grows (cfs c) fs') by (intros x Hx; now apply has_set_blob).
    assert (Hd : has fs' (FBlob d)).
    { unfold has, fs', set_file. cbn [files]. rewrite upd_same. discriminate. }
    constructor; cbn [cfs ctags cdigs cthreads]; fold fs'.
    + destruct L as (f & Hf & Hcn). exists f. unfold fs', set_file. cbn [files]. rewrite upd_other by discriminate. now split.
    + intros x f. unfold fs', set_file. cbn [files]. destruct (N.eq_dec x d) as [->|Hn].
      * rewrite upd_same. intro E. injection E as <-. exists cn. now split.
      * rewrite upd_other by congruence. apply B.
    + destruct Ix as (l & Hl & He). exists l. split.
      * unfold read_index, fs', set_file. cbn [files]. rewrite upd_other by discriminate. exact Hl.
      * intros e Hin. apply G. now apply He.
    + exact TD.
    + intros n Hin. apply G. now apply D.
    + intros u Hin. refine (Others fs' G _ u _ Hin). split; cbn [tsnap ttmp tprog].
      * intros l Hl e Hin'. apply G. now apply (Tsnap l).
      * apply (safe_absorb fs' rest d); [exact Hd|]. now apply (safe_mono (cfs c)).
  - (* TDropTemp *)
    constructor; cbn [cfs ctags cdigs cthreads]; try assumption.
    intros u Hin. refine (Others (cfs c) Same _ u _ Hin). split; [exact Tsnap|exact Tsafe].
  - (* TTagMem *)
    destruct Tsafe as [[Hd|[]] Tsafe].
    constructor; cbn [cfs ctags cdigs cthreads]; try assumption.
    + intros r0 n Hin. destruct r as [r|].
      * apply tag_set_iff in Hin as [[-> ->]|[_ Hin]]; [apply dig_add_self|].
        exact (dig_add_incl H d (cdigs c) n (TD r0 n Hin)).
      * exact (dig_add_incl H d (cdigs c) n (TD r0 n Hin)).
    + intros n Hin. apply (dig_add_In H) in Hin as [->|Hin]; [exact Hd|now apply D].
    + intros u Hin. refine (Others (cfs c) Same _ u _ Hin). split; [exact Tsnap|exact Tsafe].
  - (* TUntagMem *)
    constructor; cbn [cfs ctags cdigs cthreads]; try assumption.
    + intros r0 n Hin. unfold tag_del in Hin. apply filter_In in Hin as [Hin _]. now apply (TD r0).
    + intros u Hin. refine (Others (cfs c) Same _ u _ Hin). split; [exact Tsnap|exact Tsafe].
  - (* TLockSnap *)
    destruct (clock c); [constructor; assumption|].
    constructor; cbn [cfs ctags cdigs cthreads]; try assumption.
    intros u Hin. refine (Others (cfs c) Same _ u _ Hin). split; cbn [tsnap ttmp tprog]; [|exact Tsafe].
    intros l El e Hin'. injection El as <-. apply shuffle_In in Hin'.
    apply D. now apply (save_in_digs (ctags c) (cdigs c) TD).
  - (* TPublishIndex *)
    destruct (tsnap t) as [l|] eqn:Es.
    + set (fs' := set_file (cfs c) FIndex (mkFile [AIndex l] false)).
      assert (G : grows (cfs c) fs').
      { intros x Hx. unfold has, fs', set_file in *. cbn [files]. now rewrite upd_other by discriminate. }
      constructor; cbn [cfs ctags cdigs cthreads]; fold fs'.
      * destruct L as (f & Hf & Hcn). exists f. unfold fs', set_file. cbn [files]. rewrite upd_other by discriminate. now split.
      * intros x f. unfold fs', set_file. cbn [files]. rewrite upd_other by discriminate. apply B.
      * exists l. split; [unfold read_index, fs', set_file; cbn [files]; now rewrite upd_same|].
        intros e Hin. apply G. now apply (Tsnap l).
      * exact TD.
      * intros n Hin. apply G. now apply D.
      * intros u Hin. refine (Others fs' G _ u _ Hin). split; cbn [tsnap ttmp tprog].
        -- intros l0 Hl0 e Hin'. apply G. now apply (Tsnap l0).
        -- now apply (safe_mono (cfs c)).
    + constructor; cbn [cfs ctags cdigs cthreads]; try assumption.
      intros u Hin. refine (Others (cfs c) Same _ u _ Hin). split; cbn [tsnap ttmp tprog]; [|exact Tsafe].
      intros l El. first [discriminate|rewrite Es in El; discriminate].
  - (* TUnlock *)
    constructor; cbn [cfs ctags cdigs cthreads]; try assumption.
    intros u Hin. refine (Others (cfs c) Same _ u _ Hin). split; cbn [tsnap ttmp tprog]; [|exact Tsafe].
    intros l El. discriminate.
Qed.

Lemma sched_inv is : forall c, CInv c -> CInv (sched shuffle c is).
Proof. induction is as [|i is IH]; intros c Hc; [exact Hc|]. cbn [sched fold_left]. apply IH. now apply step_inv. Qed.

(* blobs only appear during the concurrent phase *)
Lemma step_grows c i : grows (cfs c) (cfs (stepN c i)).
Proof.
  unfold sched_step. destruct (nth_error (cthreads c) i) as [t|]; [|intros d Hd; exact Hd].
  unfold fire. destruct (tprog t) as [|a rest]; [intros d Hd; exact Hd|].
  destruct a; cbn [cfs]; try (intros x Hx; exact Hx).
  - intros x Hx. now apply has_set_blob.
  - destruct (clock c); intros x Hx; exact Hx.
  - destruct (tsnap t); cbn [cfs]; intros x Hx; [|exact Hx].
    unfold has, set_file in *. cbn [files]. now rewrite upd_other by discriminate.
Qed.

Lemma sched_grows is : forall c, grows (cfs c) (cfs (sched shuffle c is)).
Proof.
  induction is as [|i is IH]; intros c d Hd; [exact Hd|].
  cbn [sched fold_left]. apply IH. now apply step_grows.
Qed.

(* the programs of the calls are safe *)
Lemma call_prog_safe fs tags x : safe fs [] [] (call_prog H fs tags x).
Proof.
  destruct x as [d c man|d r|r|]; cbn [call_prog].
  - destruct (exists_file fs (FBlob d)); [exact I|]. unfold push_prog.
    apply safe_writes. cbn [app]. destruct (H c =? d) eqn:E.
    + apply N.eqb_eq in E. cbn [safe]. split; [exists c; now split|].
      destruct man; cbn [safe save_prog]; auto. split; [right; now left|exact I].
    + cbn. exact I.
  - destruct (exists_file fs (FBlob d)) eqn:E; [|exact I]. cbn [tag_prog safe save_prog].
    split; [left; now apply exists_file_true|]. split; [left; now apply exists_file_true|exact I].
  - destruct (tag_get r tags); cbn; exact I.
  - cbn. exact I.
Qed.

Theorem conc_crash_safe (h : list hop) (calls : list ccall) (is : list nat) :
  let s := runc H shuffle false false true h init in
  let c := sched shuffle (start H s calls) is in
  layout_ok (cfs c) /\ blob_ok H (cfs c) /\ index_ok (cfs c) /\
  (forall d, has (sfs s) (FBlob d) -> has (cfs c) (FBlob d)).
Proof.
  intros s c.
  assert (I : Inv H s) by (apply inv_runc; [exact shuffle_In|apply inv_init]).
  assert (C0 : CInv (start H s calls)).
  { destruct (inv_good H s I) as (GL & GB & GI).
    constructor; cbn [start cfs ctags cdigs cthreads]; try assumption.
    - exact (inv_tagdig H s I).
    - exact (inv_digs H s I).
    - intros t Hin. apply in_map_iff in Hin as (x & <- & _). split; cbn [tsnap ttmp tprog].
      + intros l El. discriminate.
      + apply call_prog_safe. }
  destruct (sched_inv is _ C0) as [L B Ix _ _ _]. fold c in L, B, Ix.
  split; [exact L|split; [exact B|split; [exact Ix|]]].
  intros d Hd. apply (sched_grows is (start H s calls)). exact Hd.
Qed.

(* ---------- the tag mapping under concurrency: nothing is invented ---------- *)
Section Origin.
Variable s0 : st.
Variable calls : list ccall.

Definition origin (r n : N) : Prop := In (r, n) (stags s0) \/ In (CTag n r) calls.

Record TInv (c : conf) : Prop := {
  ti_tags : forall r n, In (r, n) (ctags c) -> origin r n;
  ti_snap : forall t l, In t (cthreads c) -> tsnap t = Some l -> forall r n, In (n, Some r) l -> origin r n;
  ti_index : forall l, read_index (cfs c) = Some l -> forall r n, In (n, Some r) l -> origin r n;
  ti_prog : forall t d r, In t (cthreads c) -> In (TTagMem d (Some r)) (tprog t) -> In (CTag d r) calls
}.

Lemma tstep_inv c i : TInv c -> TInv (stepN c i).
Proof.
  intros [Tg Sn Ix Pg]. unfold sched_step.
  destruct (nth_error (cthreads c) i) as [t|] eqn:En; [|constructor; assumption].
  pose proof (nth_error_In _ _ En) as Ht.
  unfold fire. destruct (tprog t) as [|a rest] eqn:Ep; [constructor; assumption|].
  assert (Prest : forall d r, In (TTagMem d (Some r)) rest -> In (CTag d r) calls).
  { intros d r Hin. apply (Pg t d r Ht). rewrite Ep. now right. }
  assert (Keep : forall (snap' : option (list entry)) tmp' hold' c',
            cthreads c' = cthreads c ->
            (forall l, snap' = Some l -> forall r n, In (n, Some r) l -> origin r n) ->
            forall u, In u (set_nth i (mkThread rest tmp' snap' hold') (cthreads c')) ->
            (forall l, tsnap u = Some l -> forall r n, In (n, Some r) l -> origin r n) /\
            (forall d r, In (TTagMem d (Some r)) (tprog u) -> In (CTag d r) calls)).
  { intros snap' tmp' hold' c' Ec Hs u Hin. rewrite Ec in Hin. apply In_set_nth in Hin as [->|Hin].
    - split; [exact Hs|exact Prest].
    - split; [intros l Hl; now apply (Sn u l)|intros d r; now apply (Pg u d r)]. }
  assert (SnapT : forall l, tsnap t = Some l -> forall r n, In (n, Some r) l -> origin r n)
    by (intros l Hl; now apply (Sn t l)).
  destruct a.
  - constructor; cbn [cfs ctags cdigs cthreads]; try assumption.
    + intros u l Hin. now apply (Keep (tsnap t) _ _ c eq_refl SnapT u Hin).
    + intros u d r Hin. now apply (Keep (tsnap t) _ _ c eq_refl SnapT u Hin).
  - constructor; cbn [cfs ctags cdigs cthreads]; try assumption.
    + intros u l Hin. now apply (Keep (tsnap t) _ _ c eq_refl SnapT u Hin).
    + intros u d0 r Hin. now apply (Keep (tsnap t) _ _ c eq_refl SnapT u Hin).
  - constructor; cbn [cfs ctags cdigs cthreads]; try assumption.
    + intros u l Hin. now apply (Keep (tsnap t) _ _ c eq_refl SnapT u Hin).
    + intros u d r Hin. now apply (Keep (tsnap t) _ _ c eq_refl SnapT u Hin).
  - (* TTagMem *)
    constructor; cbn [cfs ctags cdigs cthreads]; try assumption.
    + intros r0 n Hin. destruct r as [r|]; [|now apply Tg].
      apply tag_set_iff in Hin as [[-> ->]|[_ Hin]]; [|now apply Tg].
      right. apply (Pg t d r Ht). rewrite Ep. now left.
    + intros u l Hin. now apply (Keep (tsnap t) _ _ c eq_refl SnapT u Hin).
    + intros u d0 r0 Hin. now apply (Keep (tsnap t) _ _ c eq_refl SnapT u Hin).
  - (* TUntagMem *)
    constructor; cbn [cfs ctags cdigs cthreads]; try assumption.
    + intros r0 n Hin. unfold tag_del in Hin. apply filter_In in Hin as [Hin _]. now apply Tg.
    + intros u l Hin. now apply (Keep (tsnap t) _ _ c eq_refl SnapT u Hin).
    + intros u d r0 Hin. now apply (Keep (tsnap t) _ _ c eq_refl SnapT u Hin).
  - (* TLockSnap *)
    destruct (clock c); [constructor; assumption|].
    assert (NewSnap : forall l, Some (shuffle (ccnt c) (save (ctags c) (cdigs c))) = Some l ->
                      forall r n, In (n, Some r) l -> origin r n).
    { intros l El r n Hin. injection El as <-. apply shuffle_In in Hin.
      apply save_tagged in Hin. now apply Tg. }
    constructor; cbn [cfs ctags cdigs cthreads]; try assumption.
    + intros u l Hin. now apply (Keep _ _ _ c eq_refl NewSnap u Hin).
    + intros u d r Hin. now apply (Keep _ _ _ c eq_refl NewSnap u Hin).
  - (* TPublishIndex *)
    destruct (tsnap t) as [l|] eqn:Es.
    + constructor; cbn [cfs ctags cdigs cthreads]; try assumption.
      * intros u l0 Hin. now apply (Keep (Some l) _ _ c eq_refl SnapT u Hin).
      * intros u d r Hin. now apply (Keep (Some l) _ _ c eq_refl SnapT u Hin).
    + constructor; cbn [cfs ctags cdigs cthreads]; try assumption.
      * intros u l0 Hin. now apply (Keep None _ _ c eq_refl SnapT u Hin).
      * intros u d r Hin. now apply (Keep None _ _ c eq_refl SnapT u Hin).
  - (* TUnlock *)
    assert (NoSnap : forall l, @None (list entry) = Some l -> forall r n, In (n, Some r) l -> origin r n)
      by (intros l El; discriminate).
    constructor; cbn [cfs ctags cdigs cthreads]; try assumption.
    + intros u l Hin. now apply (Keep None _ _ c eq_refl NoSnap u Hin).
    + intros u d r Hin. now apply (Keep None _ _ c eq_refl NoSnap u Hin).
Qed.

Lemma tsched_inv is : forall c, TInv c -> TInv (sched shuffle c is).
Proof. induction is as [|i is IH]; intros c Hc; [exact Hc|]. cbn [sched fold_left]. apply IH. now apply tstep_inv. Qed.

End Origin.

Lemma call_prog_tags fs tags x d r : In (TTagMem d (Some r)) (call_prog H fs tags x) -> x = CTag d r.
Proof.
  destruct x as [d0 c man|d0 r0|r0|]; cbn [call_prog].
  - destruct (exists_file fs (FBlob d0)); [intros []|]. unfold push_prog. intro Hin.
    apply in_app_or in Hin as [Hin|Hin].
    + apply in_map_iff in Hin as (y & E & _). discriminate.
    + destruct (H c =? d0); [|destruct Hin as [E|[]]; discriminate].
      destruct Hin as [E|Hin]; [discriminate|]. destruct man; [|destruct Hin].
      cbn in Hin. destruct Hin as [E|[E|[E|[E|[]]]]]; discriminate.
  - destruct (exists_file fs (FBlob d0)); [|intros []]. cbn. intros [E|[E|[E|[E|[E|[]]]]]]; try discriminate.
    injection E as -> ->. reflexivity.
  - destruct (tag_get r0 tags); [|intros []]. cbn. intros [E|[E|[E|[E|[]]]]]; discriminate.
  - cbn. intros [E|[E|[E|[]]]]; discriminate.
Qed.

(* at every point of every schedule: a reference name in index.json was there before the calls
   started, or one of the concurrent calls is the Tag that sets it *)
Theorem conc_tags_origin (h : list hop) (calls : list ccall) (is : list nat) :
  let s := runc H shuffle false false true h init in
  let c := sched shuffle (start H s calls) is in
  forall l r n, read_index (cfs c) = Some l -> tag_of l r n ->
    (exists l0, read_index (sfs s) = Some l0 /\ tag_of l0 r n) \/ In (CTag n r) calls.
Proof.
  intros s c l r n Hl Ht.
  assert (I : Inv H s) by (apply inv_runc; [exact shuffle_In|apply inv_init]).
  assert (T0 : TInv s calls (start H s calls)).
  { constructor; cbn [start cfs ctags cdigs cthreads].
    - intros r0 n0 Hin. now left.
    - intros t l0 Hin. apply in_map_iff in Hin as (x & <- & _). cbn. discriminate.
    - intros l0 Hl0 r0 n0 Hin. left. destruct (inv_named H s I) as (l1 & Hl1 & Hn).
      rewrite Hl1 in Hl0. injection Hl0 as <-. now apply Hn.
    - intros t d r0 Hin Hp. apply in_map_iff in Hin as (x & <- & Hx). cbn [tprog] in Hp.
      apply call_prog_tags in Hp. now subst x. }
  destruct (tsched_inv s calls is _ T0) as [_ _ Ix _]. fold c in Ix.
  destruct (Ix l Hl r n Ht) as [Ho|Ho]; [left|now right].
  destruct (inv_named H s I) as (l1 & Hl1 & Hn). exists l1. split; [exact Hl1|]. unfold tag_of. now apply Hn.
Qed.

(* ---------- a call that runs alone = the sequential operation ---------- *)
(* the concurrent model scheduled with one thread to completion leaves the same shared
   directory (all non-temporary paths) and the same resolver as Model/OciCrash.v's run_op *)
Definition nt_same (fs fs' : FS) : Prop := forall p, is_temp p = false -> files fs p = files fs' p.

Definition alone (s : st) (x : ccall) (n : nat) : conf := sched shuffle (start H s [x]) (repeat 0%nat n).

Definition refines (s : st) (x : ccall) (n : nat) : Prop :=
  let c := alone s x n in
  let s1 := run_op H shuffle false false true s (op_of_call x) in
  ctags c = stags s1 /\ cdigs c = sdigs s1 /\ nt_same (cfs c) (sfs s1) /\ clock c = false.

(* the index write of the sequential model, seen on non-temporary paths *)
Lemma idx_view s tags digs :
  Inv H s ->
  nt_same (set_file (sfs s) FIndex (mkFile [AIndex (shuffle (sctr s) (save tags digs))] false))
          (apply (index_steps shuffle false (sctr s) tags digs) (sfs s)).
Proof.
  intros I p Hp.
  destruct (idx_final shuffle (sctr s) tags digs (sfs s) (inv_temp H s I (FIndexTmp (sctr s)) eq_refl (le_n _)))
    as (F1 & _ & F3).
  unfold set_file. cbn [files]. destruct (fpath_eqb p FIndex) eqn:E.
  - apply fpath_eqb_spec in E. subst p. rewrite upd_same. now rewrite F1.
  - assert (p <> FIndex) by (intros ->; rewrite fpath_eqb_refl in E; discriminate).
    rewrite upd_other by assumption. symmetry. apply F3; [assumption|]. intros ->. discriminate.
Qed.

Lemma refines_saveindex s : Inv H s -> refines s CSaveIndex 3.
Proof.
  intro I. unfold refines, alone. cbn zeta. cbn [op_of_call].
  unfold run_op. cbn [op_mem]. repeat split; try reflexivity.
  cbn [sfs]. intros p Hp.
  change (files (set_file (sfs s) FIndex (mkFile [AIndex (shuffle (sctr s) (save (stags s) (sdigs s)))] false)) p =
          files (apply (op_steps H shuffle false false true s SaveIndex) (sfs s)) p).
  unfold op_steps. cbn [op_mem]. now apply idx_view.
Qed.

Lemma dig_add_idem d l : dig_add d (dig_add d l) = dig_add d l.
Proof.
  unfold dig_add at 2 3. destruct (memN d l) eqn:E; unfold dig_add; [now rewrite E|].
  unfold memN. cbn [existsb]. now rewrite N.eqb_refl.
Qed.

Lemma refines_tag s d r : Inv H s -> refines s (CTag d r) 5.
Proof.
  intro I. unfold refines, alone. cbn zeta. cbn [op_of_call].
  unfold run_op, start. cbn [map call_prog op_mem].
  destruct (exists_file (sfs s) (FBlob d)) eqn:Ex.
  - repeat split; try reflexivity.
    { change (dig_add d (dig_add d (sdigs s)) = dig_add d (sdigs s)). apply dig_add_idem. }
    cbn [sfs]. intros p Hp.
    change (files (set_file (sfs s) FIndex
                     (mkFile [AIndex (shuffle (sctr s) (save (tag_set r d (stags s)) (dig_add d (dig_add d (sdigs s)))))] false)) p =
            files (apply (op_steps H shuffle false false true s (Tag d r)) (sfs s)) p).
    rewrite dig_add_idem.
    unfold op_steps. cbn [op_mem]. rewrite Ex. cbv beta iota delta [auto_idx]. now apply idx_view.
  - repeat split; try reflexivity. cbn [sfs]. intros p Hp. unfold op_steps. cbn [op_mem]. rewrite Ex. reflexivity.
Qed.

Lemma refines_untag s r : Inv H s -> refines s (CUntag r) 4.
Proof.
  intro I. unfold refines, alone. cbn zeta. cbn [op_of_call].
  unfold run_op, start. cbn [map call_prog op_mem].
  destruct (tag_get r (stags s)) as [x|] eqn:Eg.
  - repeat split; try reflexivity. cbn [sfs]. intros p Hp.
    change (files (set_file (sfs s) FIndex
                     (mkFile [AIndex (shuffle (sctr s) (save (tag_del r (stags s)) (sdigs s)))] false)) p =
            files (apply (op_steps H shuffle false false true s (Untag r)) (sfs s)) p).
    unfold op_steps. cbn [op_mem]. rewrite Eg. cbv beta iota delta [auto_idx]. now apply idx_view.
  - repeat split; try reflexivity. cbn [sfs]. intros p Hp. unfold op_steps. cbn [op_mem]. rewrite Eg. reflexivity.
Qed.

Lemma alone_writes cont : forall fs tags digs lk cnt tmp rest sn hd,
  sched shuffle (mkConf fs tags digs lk cnt [mkThread (map (fun x => TWrite (AChunk x)) cont ++ rest) tmp sn hd])
        (repeat 0%nat (length cont))
  = mkConf fs tags digs lk cnt [mkThread rest (tmp ++ map AChunk cont) sn hd].
Proof.
  induction cont as [|x cont IH]; intros fs tags digs lk cnt tmp rest sn hd.
  - cbn. now rewrite app_nil_r.
  - cbn [length repeat sched fold_left map app]. unfold sched_step at 2. cbn [cthreads nth_error fire tprog ttmp tsnap tholds].
    cbn [cfs ctags cdigs clock ccnt set_nth].
    change (fold_left (sched_step shuffle) (repeat 0%nat (length cont)) ?c) with (sched shuffle c (repeat 0%nat (length cont))).
    rewrite IH. now rewrite <- app_assoc.
Qed.

Lemma sched_app c is1 is2 : sched shuffle c (is1 ++ is2) = sched shuffle (sched shuffle c is1) is2.
Proof. unfold sched. apply fold_left_app. Qed.

Lemma repeat_plus (n m : nat) : repeat 0%nat (n + m) = repeat 0%nat n ++ repeat 0%nat m.
Proof. induction n; cbn; congruence. Qed.

Lemma refines_push s d cont man : Inv H s -> refines s (CPush d cont man) (length cont + 5).
Proof.
  intro I. unfold refines, alone. cbn zeta. cbn [op_of_call].
  unfold start. cbn [map call_prog].
  destruct (exists_file (sfs s) (FBlob d)) eqn:Ex.
  - (* AlreadyExists: nothing happens in either model *)
    assert (E : forall n, sched shuffle (mkConf (sfs s) (stags s) (sdigs s) false (sctr s) [mkThread [] [] None false]) (repeat 0%nat n)
                = mkConf (sfs s) (stags s) (sdigs s) false (sctr s) [mkThread [] [] None false]).
    { induction n as [|n IHn]; [reflexivity|]. cbn [repeat sched fold_left]. unfold sched_step at 2. cbn. exact IHn. }
    rewrite E. unfold run_op. cbn [op_mem]. rewrite Ex. cbn [cfs ctags cdigs clock stags sdigs sfs].
    repeat split; try reflexivity. intros p Hp. unfold op_steps. cbn [op_mem]. rewrite Ex. reflexivity.
  - rewrite repeat_plus, sched_app. unfold push_prog. rewrite alone_writes. cbn [app].
    pose proof Ex as Exb. apply exists_file_false in Ex.
    set (t := FIngest d (sctr s)).
    assert (Htmp : files (sfs s) t = None) by (exact (inv_temp H s I t eq_refl (le_n _))).
    destruct (H cont =? d) eqn:EH.
    + (* verified: published, and for a manifest tagged by digest and saved *)
      set (X := mkFile (map AChunk cont) true).
      (* the sequential model up to the rename *)
      set (A := ingest_pre (sfs s) d t cont ++ [Chmod t; Close t]).
      assert (HT : only_touch A t).
      { apply only_touch_app; [intros m Hin p; now apply (ingest_pre_touch (sfs s) d t cont)|].
        intros m [<-|[<-|[]]] p Hp; cbn in Hp; [exact Hp|contradiction]. }
      assert (FAt : files (apply A (sfs s)) t = Some X).
      { unfold A. rewrite apply_app. unfold apply at 1. cbn [fold_left apply1].
        rewrite (ingest_pre_content (sfs s) d t cont Htmp). cbn [files fcontent fro]. apply upd_same. }
      set (fsB := apply1 (apply A (sfs s)) (Rename t (FBlob d))).
      assert (FB : nt_same (set_file (sfs s) (FBlob d) X) fsB).
      { intros p Hp. unfold fsB. cbn [apply1]. rewrite FAt. unfold set_file. cbn [files].
        assert (p <> t) by (intros ->; discriminate).
        rewrite (upd_other _ t None p) by assumption. unfold upd at 1 2.
        destruct (fpath_eqb p (FBlob d)); [reflexivity|]. symmetry. now apply (only_touch_frame A t). }
      assert (Steps : op_steps H shuffle false false true s (Push d cont man)
                      = A ++ Rename t (FBlob d) ::
                        (if man then index_steps shuffle false (sctr s) (stags s) (dig_add d (sdigs s)) else [])).
      { unfold op_steps. cbn [op_mem]. unfold exists_file. rewrite Ex, EH. cbn [negb].
        unfold A, ingest_pre, t. rewrite <- !app_assoc. cbn [app]. destruct man; reflexivity. }
      unfold run_op. cbn [op_mem]. rewrite !Exb, ?EH. cbn [negb].
      destruct man.
      * cbn [repeat sched fold_left]. unfold sched_step. cbn.
        repeat split; try reflexivity. cbn [sfs]. intros p Hp. rewrite Steps. cbv beta iota. rewrite apply_app, apply_cons. fold fsB.
        (* the index write on top of the published blob *)
        assert (HnB : files fsB (FIndexTmp (sctr s)) = None).
        { unfold fsB. cbn [apply1]. rewrite FAt. cbn [files]. rewrite !upd_other by (unfold t; discriminate).
          rewrite (only_touch_frame A t _ _ HT) by (unfold t; discriminate). exact (inv_temp H s I (FIndexTmp (sctr s)) eq_refl (le_n _)). }
        destruct (idx_final shuffle (sctr s) (stags s) (dig_add d (sdigs s)) fsB HnB) as (F1 & _ & F3).
        unfold set_file. cbn [files]. destruct (fpath_eqb p FIndex) eqn:E.
        -- apply fpath_eqb_spec in E. subst p. rewrite upd_same. now rewrite F1.
        -- assert (p <> FIndex) by (intros ->; rewrite fpath_eqb_refl in E; discriminate).
           rewrite upd_other by assumption. rewrite F3; [|assumption|intros ->; discriminate].
           rewrite <- (FB p Hp). reflexivity.
      * cbn [repeat sched fold_left]. unfold sched_step. cbn.
        repeat split; try reflexivity. cbn [sfs]. intros p Hp. rewrite Steps. cbv beta iota. rewrite apply_app. cbn [apply fold_left].
        fold fsB. exact (FB p Hp).
    + (* verification fails: the temporary goes, nothing else changes *)
      cbn [repeat sched fold_left]. unfold sched_step. cbn.
      unfold run_op. cbn [op_mem]. rewrite !Exb, ?EH. cbn [negb].
      repeat split; try reflexivity. cbn [sfs]. intros p Hp.
      destruct (push_bad_safe H s d cont I) as (_ & _ & P2 & _).
      rewrite <- P2. f_equal. f_equal. unfold op_steps. cbn [op_mem]. unfold exists_file. rewrite Ex, EH. cbn [negb].
      unfold ingest_pre. rewrite <- !app_assoc. cbn [app]. destruct man; reflexivity.
Qed.

(* every call that runs alone in the concurrent model is the sequential model's operation *)
Theorem conc_alone_refines s x : Inv H s -> exists n, refines s x n.
Proof.
  intro I. destruct x as [d c man|d r|r|].
  - exists (length c + 5)%nat. now apply refines_push.
  - exists 5%nat. now apply refines_tag.
  - exists 4%nat. now apply refines_untag.
  - exists 3%nat. now apply refines_saveindex.
Qed.

End ConcProofs.

Theorem conc_crash_safe_src :
  forall (H : list N -> N) (shuffle : nat -> list entry -> list entry),
    (forall c l e, In e (shuffle c l) <-> In e l) ->
    forall (h : list hop) (calls : list ccall) (is : list nat),
      let s := runc H shuffle src_inplace src_unlink_first true h init in
      let c := sched shuffle (start H s calls) is in
      layout_ok (cfs c) /\ blob_ok H (cfs c) /\ index_ok (cfs c) /\
      (forall d, has (sfs s) (FBlob d) -> has (cfs c) (FBlob d)).
Proof. rewrite src_inplace_false, src_unlink_first_false. exact conc_crash_safe. Qed.

(* why a call must enter the resolver only after its blob is published: a thread that tags
   first lets a concurrent (or its own) saveIndex write an entry for a blob that is not there *)
Lemma conc_unsafe_tag_before_publish :
  exists (H : list N -> N) (t : thread) (is : list nat),
    let c := sched (fun _ l => l) (mkConf init_fs [] [] false 0 [t]) is in
    ~ index_ok (cfs c).
Proof.
  exists (fun _ => 2),
         (mkThread ([TTagMem 2 None] ++ save_prog ++ [TWrite (AChunk 9); TPublishBlob 2]) [] None false),
         [0; 0; 0]%nat.
  cbn zeta. intros (l & Hl & He). vm_compute in Hl. injection Hl as <-.
  apply (He (2, None) (or_introl eq_refl)). vm_compute. reflexivity.
Qed.

(* a non-trivial instance: two manifest pushes and a tag of already stored content, interleaved;
   the cut after 9 scheduler steps has one blob published, the other still being written, and
   an index.json that names only what is there *)
Lemma conc_example :
  let H := fun c : list N => match c with [7] => 1 | [8] => 2 | [9] => 3 | _ => 0 end in
  let id := fun (_ : nat) (l : list entry) => l in
  let s := runc H id src_inplace src_unlink_first true [Done (Push 3 [9] true)] init in
  let c := sched id (start H s [CPush 1 [7] true; CPush 2 [8] true; CTag 3 5]) [0; 2; 0; 2; 2; 0; 2; 0; 1; 2]%nat in
  read_index (cfs c) = Some [(3, Some 5)] /\
  exists_file (cfs c) (FBlob 1) = true /\ exists_file (cfs c) (FBlob 2) = false /\
  cdigs c = [1; 3] /\ clock c = false.
Proof. vm_compute. repeat split; reflexivity. Qed.

Theorem conc_tags_origin_src :
  forall (H : list N -> N) (shuffle : nat -> list entry -> list entry),
    (forall c l e, In e (shuffle c l) <-> In e l) ->
    forall (h : list hop) (calls : list ccall) (is : list nat),
      let s := runc H shuffle src_inplace src_unlink_first true h init in
      let c := sched shuffle (start H s calls) is in
      forall l r n, read_index (cfs c) = Some l -> tag_of l r n ->
        (exists l0, read_index (sfs s) = Some l0 /\ tag_of l0 r n) \/ In (CTag n r) calls.
Proof. rewrite src_inplace_false, src_unlink_first_false. exact conc_tags_origin. Qed.

Theorem conc_alone_refines_src :
  forall (H : list N -> N) (shuffle : nat -> list entry -> list entry),
    (forall c l e, In e (shuffle c l) <-> In e l) ->
    forall (h : list hop) (x : ccall),
      let s := runc H shuffle src_inplace src_unlink_first true h init in
      exists n,
        let c := sched shuffle (start H s [x]) (repeat 0%nat n) in
        let s1 := run_op H shuffle src_inplace src_unlink_first true s (op_of_call x) in
        ctags c = stags s1 /\ cdigs c = sdigs s1 /\
        (forall p, is_temp p = false -> files (cfs c) p = files (sfs s1) p) /\ clock c = false.
Proof.
  rewrite src_inplace_false, src_unlink_first_false. intros H shuffle Hs h x s.
  assert (I : Inv H s) by (apply inv_runc; [exact Hs|apply inv_init]).
  destruct (conc_alone_refines H shuffle s x I) as (n & R). exists n. exact R.
Qed.

