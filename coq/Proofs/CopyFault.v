(* Lemmas about the fault-extended copyGraph transition system (Model/CopyFault.v):
   the invariant of Proofs/CopySpec.v survives every fault event, hence the destination
   is link-closed at every instant of every run (successful, failed, cancelled); a fault
   or cancellation excludes the successful return; a rerun completes the graph (C02). *)
From Oras Require Import Base.Prelude Model.CopySpec Model.CopyTop Model.CopyFault Proofs.CopySpec.
Local Open Scope nat_scope.

Ltac simp_st := cbn [set_ph ph dst cached tag returned] in *.
Ltac upd_cases m n :=
  let E := fresh "E" in
  destruct (Nat.eq_dec m n) as [E|E];
  [subst; rewrite ?upd_same in * | rewrite ?(upd_other _ _ _ _ E) in *].

Section F.
Variable g : graph.
Variable c : cfg.
Variable ext : bool.
Variable d0 : list node.

Notation Inv := (Inv g c d0).

(* ------------------------------------------------------------------ killing a task *)

Lemma inv_fault st n d' t' :
  Inv st -> ph st n <> Idle -> ph st n <> Done ->
  (d' = dst st \/ (d' = n :: dst st /\ settled_ph (ph st n) = true /\ has g (dst st) n = false)) ->
  (t' = tag st \/ (t' = Some n /\ n = c_root c)) ->
  Inv (mkState (upd (ph st) n Dead) d' (cached st) t' (returned st)).
Proof.
  intros I Hni Hnd Hd Ht.
  assert (Hmono : forall x, has g (dst st) x = true -> has g d' x = true).
  { intros x Hx. destruct Hd as [->|[-> _]]; auto using has_mono. }
  constructor; cbn [ph dst cached tag returned].
  - (* closed *)
    intro Hc0. destruct Hd as [->|[-> [Hs _]]]; [now apply (i_closed _ _ _ st I)|].
    intros m x [<-|Hm] Hx.
    + apply has_mono. apply (i_present _ _ _ st I).
      rewrite (i_settled _ _ _ st I n Hs x Hx). reflexivity.
    + apply has_mono. eapply (i_closed _ _ _ st I); eauto.
  - (* present *)
    intros m Hm. destruct (Nat.eq_dec m n) as [->|E].
    + rewrite upd_same in Hm. discriminate.
    + rewrite upd_other in Hm by assumption. apply Hmono. now apply (i_present _ _ _ st I).
  - (* settled *)
    intros m Hm x Hx. destruct (Nat.eq_dec m n) as [->|E].
    + rewrite upd_same in Hm. discriminate.
    + rewrite upd_other in Hm by assumption.
      pose proof (i_settled _ _ _ st I m Hm x Hx) as Hxd.
      destruct (Nat.eq_dec x n) as [->|E2]; [contradiction|].
      now rewrite upd_other.
  - (* bound *)
    intros m Hm. destruct (Nat.eq_dec m n) as [->|E].
    + now apply (i_bound _ _ _ st I).
    + rewrite upd_other in Hm by assumption. now apply (i_bound _ _ _ st I).
  - (* dp *)
    intros m Hm. destruct (Nat.eq_dec m n) as [->|E].
    + now apply (i_dp _ _ _ st I).
    + rewrite upd_other in Hm by assumption. now apply (i_dp _ _ _ st I).
  - (* absent *)
    intros m Hm. destruct (Nat.eq_dec m n) as [->|E].
    + rewrite upd_same in Hm. discriminate.
    + rewrite upd_other in Hm by assumption. now apply (i_absent _ _ _ st I).
  - (* mono *)
    intros m Hm. apply Hmono. now apply (i_mono _ _ _ st I).
  - (* orig *)
    intros m Hm. destruct Hd as [->|[-> [Hs _]]]; [now apply (i_orig _ _ _ st I)|].
    destruct Hm as [<-|Hm]; [|now apply (i_orig _ _ _ st I)].
    right. split.
    + now apply (i_dp _ _ _ st I).
    + apply (i_absent _ _ _ st I). now apply settled_absent.
  - (* skflag *)
    intros m Hm. destruct (Nat.eq_dec m n) as [->|E].
    + rewrite upd_same in Hm. discriminate.
    + rewrite upd_other in Hm by assumption. now apply (i_skflag _ _ _ st I).
  - (* tagging *)
    intros m Hm. destruct (Nat.eq_dec m n) as [->|E].
    + rewrite upd_same in Hm. discriminate.
    + rewrite upd_other in Hm by assumption. now apply (i_tagging _ _ _ st I).
  - (* noskip *)
    intro Hr. destruct (Nat.eq_dec (c_root c) n) as [E|E].
    + rewrite E, upd_same. discriminate.
    + rewrite upd_other by assumption. now apply (i_noskip _ _ _ st I).
  - (* mt *)
    intros m Hm. destruct (Nat.eq_dec m n) as [->|E].
    + rewrite upd_same in Hm. discriminate.
    + rewrite upd_other in Hm by assumption. now apply (i_mt _ _ _ st I).
  - (* tagroot *)
    destruct Ht as [->|[-> Hr]]; [now apply (i_tagroot _ _ _ st I)|].
    right. f_equal. exact Hr.
  - (* mtfb *)
    intros m Hm. destruct (Nat.eq_dec m n) as [->|E].
    + rewrite upd_same in Hm. discriminate.
    + rewrite upd_other in Hm by assumption. now apply (i_mtfb _ _ _ st I).
  - (* tagged *)
    intros Hmode Hok Hph. destruct (Nat.eq_dec (c_root c) n) as [E|E].
    + rewrite E, upd_same in Hph. destruct Hph as [H|[H|[_ [sk H]]]]; discriminate.
    + rewrite upd_other in Hph by assumption.
      pose proof (i_tagged _ _ _ st I Hmode Hok Hph) as Hx.
      destruct Ht as [->|[-> _]]; [assumption | discriminate].
Qed.

Lemma inv_kill st n : Inv st -> ph st n <> Idle -> ph st n <> Done -> Inv (set_ph st n Dead).
Proof. intros I H1 H2. unfold set_ph. apply inv_fault; auto. Qed.

Lemma inv_ret st b : Inv st -> Inv (mkState (ph st) (dst st) (cached st) (tag st) (Some b)).
Proof. intros I. destruct I. constructor; cbn [ph dst cached tag returned]; assumption. Qed.

(* ------------------------------------------------------------------ fstep inversion *)

Inductive fstep_shape (fs : fstate) : fevent -> fstate -> Prop :=
| fs_ret_true :
    tainted g fs = false -> ret_ok_guard g c ext (fb fs) = true ->
    fstep_shape fs (Ev (Ret true)) (set_ret fs true)
| fs_ret_false :
    tainted g fs = true -> fstep_shape fs (Ev (Ret false)) (set_ret fs false)
| fs_cancel :
    fstep_shape fs Cancel (mkF (fb fs) true (f_aborted fs) (f_started fs) (f_rd fs))
| fs_deadclose n :
    f_aborted fs = false -> ph (fb fs) n = Dead -> memb n (f_rd fs) = true ->
    fstep_shape fs (Ev (SFC n)) (mkF (fb fs) (f_cancelled fs) false true (remove_node n (f_rd fs)))
| fs_base e st' :
    f_aborted fs = false -> (forall b, e <> Ret b) -> step g c (fb fs) e = Some st' ->
    on_virtual c ext e = false ->
    fstep_shape fs (Ev e) (with_base fs st')
| fs_exx n was :
    f_aborted fs = false -> ph (fb fs) n = ExQ was ->
    fstep_shape fs (ExX n) (with_base fs (set_ph (fb fs) n Dead))
| fs_sfx n :
    f_aborted fs = false -> (ph (fb fs) n = MF1 \/ (exists sk, ph (fb fs) n = F1 sk) \/ ph (fb fs) n = MtF1) ->
    fstep_shape fs (SFX n) (with_base fs (set_ph (fb fs) n Dead))
| fs_srx n :
    f_aborted fs = false -> ph (fb fs) n = MF2 ->
    fstep_shape fs (SRX n) (mkF (set_ph (fb fs) n Dead) (f_cancelled fs) false true (n :: f_rd fs))
| fs_fsx n :
    f_aborted fs = false -> (ph (fb fs) n = NeedFetch \/ ph (fb fs) n = Waiting) ->
    on_virtual c ext (ExB n) = false ->
    fstep_shape fs (FSX n) (with_base fs (set_ph (fb fs) n Dead))
| fs_pux n ref stored sk rd :
    f_aborted fs = false -> ref = root_refpush c n -> ph (fb fs) n = Pushing sk rd ->
    fstep_shape fs (PuX n ref stored)
      (mkF (mkState (upd (ph (fb fs)) n Dead)
                    (if stored && negb (has g (dst (fb fs)) n) then n :: dst (fb fs) else dst (fb fs))
                    (cached (fb fs))
                    (if ref && stored then Some n else tag (fb fs))
                    None)
           (f_cancelled fs) false true (if rd then n :: f_rd fs else f_rd fs))
| fs_tagx n set sk :
    f_aborted fs = false -> ph (fb fs) n = TagP1 sk ->
    fstep_shape fs (TagX n set)
      (with_base fs (mkState (upd (ph (fb fs)) n Dead) (dst (fb fs)) (cached (fb fs))
                             (if set then Some n else tag (fb fs)) None))
| fs_mtx n stored :
    f_aborted fs = false -> (ph (fb fs) n = Mounting \/ ph (fb fs) n = MtC) ->
    fstep_shape fs (MtX n stored)
      (with_base fs (mkState (upd (ph (fb fs)) n Dead)
                             (if stored && negb (has g (dst (fb fs)) n) then n :: dst (fb fs) else dst (fb fs))
                             (cached (fb fs)) (tag (fb fs)) None))
| fs_prook :
    f_aborted fs = false -> f_started fs = false -> fstep_shape fs ProOk fs
| fs_prox :
    f_aborted fs = false -> f_started fs = false ->
    fstep_shape fs ProX (mkF (fb fs) (f_cancelled fs) true false (f_rd fs)).

Lemma fstep_inv fs fe fs' : fstep g c ext fs fe = Some fs' ->
  returned (fb fs) = None /\ fstep_shape fs fe fs'.
Proof.
  unfold fstep. intro H.
  destruct (returned (fb fs)) eqn:Hr; [discriminate|]. split; [reflexivity|].
  destruct fe as [e|n|n|n|n|n ref stored|n set|n stored| | |].
  - destruct e;
      try (destruct (f_aborted fs) eqn:Hab; [discriminate|];
           cbv iota beta in H;
           match type of H with
           | match step g c (fb fs) ?e with _ => _ end = _ =>
               destruct (step g c (fb fs) e) eqn:Hs; [|discriminate];
               match type of H with (if ?v then _ else _) = _ => destruct v eqn:Hv; [discriminate|] end;
               injection H as <-; apply fs_base; auto; intros ?; discriminate
           end).
    { destruct (f_aborted fs) eqn:Hab; [discriminate|].
      destruct (is_dead (ph (fb fs) n)) eqn:Hd.
      - destruct (memb n (f_rd fs)) eqn:Hm; [|discriminate].
        injection H as <-. apply fs_deadclose; auto.
        destruct (ph (fb fs) n); simpl in Hd; congruence.
      - destruct (step g c (fb fs) (SFC n)) eqn:Hs; [|discriminate].
        destruct (on_virtual c ext (SFC n)) eqn:Hv; [discriminate|].
        injection H as <-. apply fs_base; auto. intros ?; discriminate. }
    match goal with |- fstep_shape _ (Ev (Ret ?b)) _ => destruct b end.
    + destruct (negb (tainted g fs) && ret_ok_guard g c ext (fb fs)) eqn:Hg; [|discriminate].
      injection H as <-. apply andb_true_iff in Hg as [H1 H2].
      apply fs_ret_true; auto. now apply negb_true_iff.
    + destruct (tainted g fs) eqn:Hg; [|discriminate].
      injection H as <-. now apply fs_ret_false.
  - destruct (f_aborted fs) eqn:Hab; [discriminate|].
    destruct (ph (fb fs) n) eqn:Hp; try discriminate.
    injection H as <-. eapply fs_exx; eauto.
  - destruct (f_aborted fs) eqn:Hab; [discriminate|].
    destruct (ph (fb fs) n) eqn:Hp; try discriminate;
    injection H as <-; apply fs_sfx; eauto.
  - destruct (f_aborted fs) eqn:Hab; [discriminate|].
    destruct (ph (fb fs) n) eqn:Hp; try discriminate.
    injection H as <-. now apply fs_srx.
  - destruct (f_aborted fs) eqn:Hab; [discriminate|].
    destruct (ph (fb fs) n) eqn:Hp; try discriminate;
    (destruct (on_virtual c ext (ExB n)) eqn:Hv; [discriminate|]);
    injection H as <-; apply fs_fsx; auto.
  - destruct (f_aborted fs) eqn:Hab; [discriminate|].
    destruct (negb (eqb ref (root_refpush c n))) eqn:Hre; [discriminate|].
    destruct (ph (fb fs) n) eqn:Hp; try discriminate.
    injection H as <-. eapply fs_pux; eauto.
    apply negb_false_iff in Hre. now apply Bool.eqb_prop in Hre.
  - destruct (f_aborted fs) eqn:Hab; [discriminate|].
    destruct (ph (fb fs) n) eqn:Hp; try discriminate.
    injection H as <-. eapply fs_tagx; eauto.
  - destruct (f_aborted fs) eqn:Hab; [discriminate|].
    destruct (ph (fb fs) n) eqn:Hp; try discriminate;
    injection H as <-; eapply fs_mtx; eauto.
  - destruct (f_aborted fs) eqn:Hab; [discriminate|].
    destruct (f_started fs) eqn:Hst; [discriminate|].
    injection H as <-. now apply fs_prook.
  - destruct (f_aborted fs) eqn:Hab; [discriminate|].
    destruct (f_started fs) eqn:Hst; [discriminate|].
    injection H as <-. now apply fs_prox.
  - injection H as <-. apply fs_cancel.
Qed.

(* ------------------------------------------------------------------ the invariant *)

Lemma fstep_preserves_inv fs fe fs' :
  Inv (fb fs) -> fstep g c ext fs fe = Some fs' -> Inv (fb fs').
Proof.
  intros I H. apply fstep_inv in H as [Hr H].
  destruct H; cbn [fb set_ret with_base]; auto.
  - now apply inv_ret.
  - now apply inv_ret.
  - eapply step_preserves_inv; eauto.
  - apply inv_kill; auto; congruence.
  - apply inv_kill; auto; destruct H0 as [H0|[[sk H0]|H0]]; congruence.
  - (* SRX *) apply inv_kill; auto; congruence.
  - (* FSX *) apply inv_kill; auto; destruct H0; congruence.
  - rewrite <- Hr. apply inv_fault; auto; try congruence.
    + destruct (stored && negb (has g (dst (fb fs)) n)) eqn:E; [|now left].
      right. apply andb_true_iff in E as [_ E]. apply negb_true_iff in E.
      split; [reflexivity|]. split; [|assumption].
      rewrite H1. destruct sk; [|reflexivity].
      exfalso. assert (has g (dst (fb fs)) n = true)
        by (apply (i_present _ _ _ _ I); rewrite H1; reflexivity).
      congruence.
    + destruct (ref && stored) eqn:E; [|now left].
      right. apply andb_true_iff in E as [E _]. split; [reflexivity|].
      assert (Hrr : root_refpush c n = true) by congruence.
      now apply root_refpush_root in Hrr.
  - (* TagX *)
    rewrite <- Hr. apply inv_fault; auto; try congruence.
    destruct set; [|now left]. right. split; [reflexivity|].
    assert (Ht : root_tagger c n = true) by (apply (i_tagging _ _ _ _ I); rewrite H0; reflexivity).
    now apply root_tagger_root in Ht.
  - (* MtX *)
    rewrite <- Hr. apply inv_fault; auto; try (destruct H0; congruence).
    destruct (stored && negb (has g (dst (fb fs)) n)) eqn:E; [|now left].
    right. apply andb_true_iff in E as [_ E]. apply negb_true_iff in E.
    split; [reflexivity|]. split; [|assumption].
    destruct H0 as [H0|H0]; rewrite H0; reflexivity.
Qed.

Lemma frun_inv tr : forall fs fs', Inv (fb fs) -> frun g c ext fs tr = Some fs' -> Inv (fb fs').
Proof.
  induction tr as [|e tr IH]; simpl; intros fs fs' I H.
  - now injection H as <-.
  - destruct (fstep g c ext fs e) as [fs1|] eqn:E; [|discriminate].
    eapply IH; [eapply fstep_preserves_inv; eauto | exact H].
Qed.

(* the virtual super-root is a node of the universe that no store holds *)
Definition ext_ok : Prop := ext = true -> c_root c < g_n g /\ has g d0 (c_root c) = false.

Lemma finit_inv : ext_ok -> Inv (fb (finit c ext d0)).
Proof.
  intro Hx. unfold finit. cbn [fb]. destruct ext eqn:Hext; [|apply init_inv].
  destruct (Hx Hext) as [Hb Ha].
  pose proof (init_inv g c d0) as I0.
  unfold set_ph. cbn [init ph dst cached tag returned].
  constructor; cbn [ph dst cached tag returned]; intros;
    try (match goal with
         | Hm : _ (upd _ _ _ ?m) = true |- _ =>
             unfold upd in Hm; destruct (Nat.eqb m (c_root c)); simpl in Hm; discriminate
         end); auto.
  - unfold upd in H. destruct (Nat.eqb n (c_root c)) eqn:E; [|congruence].
    apply Nat.eqb_eq in E. now subst.
  - unfold upd in H. destruct (Nat.eqb n (c_root c)) eqn:E; [|congruence].
    apply Nat.eqb_eq in E. subst. constructor.
  - unfold upd in H. destruct (Nat.eqb n (c_root c)) eqn:E; [|simpl in H; discriminate].
    apply Nat.eqb_eq in E. now subst.
  - unfold upd. rewrite Nat.eqb_refl. discriminate.
  - unfold upd in H1. rewrite Nat.eqb_refl in H1.
    destruct H1 as [H1|[H1|[_ [sk H1]]]]; discriminate.
Qed.

Lemma frun_app tr1 : forall tr2 fs fs', frun g c ext fs (tr1 ++ tr2) = Some fs' ->
  exists fs1, frun g c ext fs tr1 = Some fs1 /\ frun g c ext fs1 tr2 = Some fs'.
Proof.
  induction tr1 as [|e tr1 IH]; simpl; intros tr2 fs fs' H.
  - eauto.
  - destruct (fstep g c ext fs e) as [fs1|] eqn:E; [|discriminate]. eauto.
Qed.

(* ------------------------------------------------------------------ closed at every instant *)

Lemma fclosed_always tr fs :
  ext_ok -> closed_nodes g d0 -> faccepts g c ext d0 tr = Some fs -> closed_nodes g (dst (fb fs)).
Proof.
  intros Hx Hc Ha. unfold faccepts in Ha.
  exact (i_closed _ _ _ _ (frun_inv tr _ _ (finit_inv Hx) Ha) Hc).
Qed.

(* closure at the level of KEYS (what a digest-keyed store answers): whatever node the destination
   "holds" by key has all its successors held -- needs mt_consistent (one digest, one successor set) *)
Lemma fclosed_keys tr fs :
  ext_ok -> closed_nodes g d0 -> mt_consistent g -> faccepts g c ext d0 tr = Some fs ->
  forall n x, has g (dst (fb fs)) n = true -> In x (succ' g n) -> has g (dst (fb fs)) x = true.
Proof.
  intros Hx Hc Hmt Ha n x Hn Hsx. eapply key_closed; eauto. eapply fclosed_always; eauto.
Qed.

Lemma fclosed_every_prefix tr1 tr2 fs :
  ext_ok -> closed_nodes g d0 -> faccepts g c ext d0 (tr1 ++ tr2) = Some fs ->
  exists fs1, faccepts g c ext d0 tr1 = Some fs1 /\ closed_nodes g (dst (fb fs1)).
Proof.
  intros Hx Hc Ha. unfold faccepts in Ha. apply frun_app in Ha as [fs1 [H1 _]].
  exists fs1. split; [exact H1|]. eapply fclosed_always; eauto.
Qed.

(* a push of n is in flight: every successor of n is in the destination *)
Lemma pushing_successors st n sk rd :
  Inv st -> closed_nodes g d0 -> mt_consistent g ->
  ph st n = Pushing sk rd -> forall x, In x (succ' g n) -> has g (dst st) x = true.
Proof.
  intros I Hc Hmt Hp x Hx. destruct sk.
  - (* the present root of a ReferencePusher copy: the destination is closed *)
    eapply key_closed; eauto.
    + now apply (i_closed _ _ _ st I).
    + apply (i_present _ _ _ st I). rewrite Hp. reflexivity.
  - apply (i_present _ _ _ st I).
    rewrite (i_settled _ _ _ st I n) with (x := x); auto. rewrite Hp. reflexivity.
Qed.

Lemma pue_pushing st n ref r st' : step g c st (PuE n ref r) = Some st' ->
  exists sk rd, ph st n = Pushing sk rd.
Proof.
  intro Hs. unfold step in Hs. destruct (returned st); [discriminate|].
  destruct (negb (eqb ref (root_refpush c n))); [discriminate|].
  destruct (ph st n) eqn:Hp; try discriminate. eauto.
Qed.

Lemma settled_successors st n :
  Inv st -> settled_ph (ph st n) = true -> forall x, In x (succ' g n) -> has g (dst st) x = true.
Proof.
  intros I Hs x Hx. apply (i_present _ _ _ st I).
  rewrite (i_settled _ _ _ st I n Hs x Hx). reflexivity.
Qed.

Lemma mte_settled st n r st' : step g c st (MtE n r) = Some st' -> r <> MSkipped ->
  settled_ph (ph st n) = true.
Proof.
  intros Hs Hr. unfold step in Hs. destruct (returned st); [discriminate|].
  destruct (ph st n) eqn:Hp; destruct r; try discriminate; try reflexivity; congruence.
Qed.

(* the events that complete the storing of node n in the destination: a push / push with reference
   (stored now or already there), a push or Mount that reports an error after the content was stored,
   a Mount that mounted the blob or uploaded it *)
Definition push_done (fe : fevent) (n : node) : Prop :=
  (exists ref r, fe = Ev (PuE n ref r)) \/ (exists ref, fe = PuX n ref true) \/
  fe = Ev (MtE n MMounted) \/ fe = Ev (MtE n MCopied) \/ fe = MtX n true.

Lemma fpush_after_successors tr1 fe tr2 fs n :
  ext_ok -> closed_nodes g d0 -> mt_consistent g ->
  faccepts g c ext d0 (tr1 ++ fe :: tr2) = Some fs -> push_done fe n ->
  exists fs1, faccepts g c ext d0 tr1 = Some fs1 /\
    forall x, In x (succ' g n) -> has g (dst (fb fs1)) x = true.
Proof.
  intros Hx Hc Hmt Ha Hpd. unfold faccepts in Ha. apply frun_app in Ha as [fs1 [H1 H2]].
  exists fs1. split; [exact H1|].
  pose proof (frun_inv tr1 _ _ (finit_inv Hx) H1) as I.
  simpl in H2. destruct (fstep g c ext fs1 fe) as [fs2|] eqn:E; [|discriminate].
  apply fstep_inv in E as [_ E].
  destruct Hpd as [[ref [r Hfe]] | [[ref Hfe] | [Hfe | [Hfe | Hfe]]]]; subst fe; inversion E; subst.
  - (* PuE through the base step *)
    match goal with Hs : step g c (fb fs1) _ = Some _ |- _ =>
      destruct (pue_pushing _ _ _ _ _ Hs) as [sk [rd Hp]] end.
    eapply pushing_successors; eauto.
  - eapply pushing_successors; eauto.
  - match goal with Hs : step g c (fb fs1) _ = Some _ |- _ =>
      apply settled_successors; [exact I | eapply mte_settled; [exact Hs | discriminate]] end.
  - match goal with Hs : step g c (fb fs1) _ = Some _ |- _ =>
      apply settled_successors; [exact I | eapply mte_settled; [exact Hs | discriminate]] end.
  - apply settled_successors; [exact I|].
    match goal with Hp : _ \/ _ |- _ => destruct Hp as [Hp|Hp]; rewrite Hp; reflexivity end.
Qed.

(* ------------------------------------------------------------------ faults surface *)

Lemma dead_absorbing st e st' x : step g c st e = Some st' -> ph st x = Dead -> ph st' x = Dead.
Proof.
  intros H Hx. step_inv H; simp_st; auto; upd_cases x n; auto; congruence.
Qed.

Lemma any_dead_intro st n : n < g_n g -> ph st n = Dead -> any_dead g st = true.
Proof.
  intros Hn Hp. unfold any_dead. apply existsb_exists. exists n. split.
  - apply in_seq. lia.
  - now rewrite Hp.
Qed.

Lemma any_dead_mono st st' : (forall x, ph st x = Dead -> ph st' x = Dead) ->
  any_dead g st = true -> any_dead g st' = true.
Proof.
  intros H Hd. unfold any_dead in *. apply existsb_exists in Hd as [n [Hin Hn]].
  apply existsb_exists. exists n. split; auto.
  destruct (ph st n) eqn:E; simpl in Hn; try discriminate. now rewrite (H n E).
Qed.

Lemma upd_dead_keeps (f : node -> phase) n x : f x = Dead -> upd f n Dead x = Dead.
Proof. intro H. unfold upd. destruct (Nat.eqb x n); auto. Qed.

Lemma tainted_iff fs : tainted g fs = true <->
  f_cancelled fs = true \/ f_aborted fs = true \/ any_dead g (fb fs) = true.
Proof. unfold tainted. rewrite !orb_true_iff. tauto. Qed.

Lemma tainted_mono fs fe fs' : fstep g c ext fs fe = Some fs' ->
  tainted g fs = true -> tainted g fs' = true.
Proof.
  intros H Ht. apply fstep_inv in H as [_ H]. apply tainted_iff in Ht. apply tainted_iff.
  assert (KD : forall n, any_dead g (fb fs) = true ->
                 any_dead g (set_ph (fb fs) n Dead) = true).
  { intros n Hd. eapply any_dead_mono; [|exact Hd].
    intros x Hxd. cbn [set_ph ph]. now apply upd_dead_keeps. }
  destruct H; cbn [fb f_cancelled f_aborted set_ret with_base] in *; auto;
    try (destruct Ht as [Ht|[Ht|Ht]]; [auto | congruence | auto]).
  - (* base step *)
    right. right. eapply any_dead_mono; [|exact Ht].
    intros x Hxd. eapply dead_absorbing; eauto.
  - right. right. eapply any_dead_mono; [|exact Ht].
    intros x Hxd. cbn [ph]. now apply upd_dead_keeps.
  - right. right. eapply any_dead_mono; [|exact Ht].
    intros x Hxd. cbn [ph]. now apply upd_dead_keeps.
  - right. right. eapply any_dead_mono; [|exact Ht].
    intros x Hxd. cbn [ph]. now apply upd_dead_keeps.
Qed.

Lemma cbfail_dead st k n st' : step g c st (CbFail k n) = Some st' ->
  ph st' n = Dead /\ ph st n <> Idle.
Proof.
  intro H. unfold step in H. destruct (returned st); [discriminate|].
  destruct (cb_next g c st k n) eqn:E; [|discriminate]. injection H as <-.
  split; [cbn [set_ph ph]; apply upd_same|].
  intro Hi. unfold cb_next in E. rewrite Hi in E. destruct k; discriminate.
Qed.

Lemma fault_taints fs fe fs' : Inv (fb fs) -> fstep g c ext fs fe = Some fs' ->
  is_fault fe = true -> tainted g fs' = true.
Proof.
  intros I H Hf. apply fstep_inv in H as [_ H]. unfold tainted.
  destruct H; simpl in Hf; try discriminate; cbn [fb f_cancelled f_aborted with_base];
    try (rewrite ?orb_true_r; reflexivity).
  - (* CbFail *)
    destruct e; try discriminate.
    destruct (cbfail_dead _ _ _ _ H1) as [Hd Hni].
    rewrite (any_dead_intro st' n); [apply orb_true_r | | assumption].
    now apply (i_bound _ _ _ _ I).
  - rewrite (any_dead_intro (set_ph (fb fs) n Dead) n); [apply orb_true_r | | cbn [set_ph ph]; apply upd_same].
    apply (i_bound _ _ _ _ I). congruence.
  - rewrite (any_dead_intro (set_ph (fb fs) n Dead) n); [apply orb_true_r | | cbn [set_ph ph]; apply upd_same].
    apply (i_bound _ _ _ _ I). destruct H0 as [H0|[[sk H0]|H0]]; congruence.
  - rewrite (any_dead_intro (set_ph (fb fs) n Dead) n); [apply orb_true_r | | cbn [set_ph ph]; apply upd_same].
    apply (i_bound _ _ _ _ I). congruence.
  - rewrite (any_dead_intro (set_ph (fb fs) n Dead) n); [apply orb_true_r | | cbn [set_ph ph]; apply upd_same].
    apply (i_bound _ _ _ _ I). destruct H0; congruence.
  - match goal with |- context [any_dead g ?s] =>
      rewrite (any_dead_intro s n); [apply orb_true_r | | cbn [ph]; apply upd_same] end.
    apply (i_bound _ _ _ _ I). congruence.
  - match goal with |- context [any_dead g ?s] =>
      rewrite (any_dead_intro s n); [apply orb_true_r | | cbn [ph]; apply upd_same] end.
    apply (i_bound _ _ _ _ I). congruence.
  - match goal with |- context [any_dead g ?s] =>
      rewrite (any_dead_intro s n); [apply orb_true_r | | cbn [ph]; apply upd_same] end.
    apply (i_bound _ _ _ _ I). destruct H0; congruence.
Qed.

Lemma step_returned st e st' : step g c st e = Some st' -> (forall b, e <> Ret b) ->
  returned st' = returned st.
Proof.
  intros H Hn. step_inv H; simp_st; auto; exfalso; eapply Hn; reflexivity.
Qed.

(* what a step does to [returned] *)
Lemma fstep_returned fs fe fs' : fstep g c ext fs fe = Some fs' ->
  (fe = Ev (Ret true) /\ tainted g fs = false /\ ret_ok_guard g c ext (fb fs) = true /\
     fs' = set_ret fs true) \/
  (fe = Ev (Ret false) /\ returned (fb fs') = Some false) \/
  returned (fb fs') = None.
Proof.
  intro H. apply fstep_inv in H as [Hr H].
  destruct H; cbn [fb set_ret with_base returned]; auto.
  - right. right. rewrite <- Hr. eapply step_returned; eauto.
Qed.

Lemma fstep_after_ret fs fe b : returned (fb fs) = Some b -> fstep g c ext fs fe = None.
Proof. intro H. unfold fstep. now rewrite H. Qed.

Lemma no_ok_after_fault tr : forall fs fs', Inv (fb fs) ->
  frun g c ext fs tr = Some fs' ->
  (tainted g fs = true \/ existsb is_fault tr = true) ->
  returned (fb fs) = None ->
  returned (fb fs') <> Some true.
Proof.
  induction tr as [|fe tr IH]; simpl; intros fs fs' I H Hor Hr.
  - injection H as <-. congruence.
  - destruct (fstep g c ext fs fe) as [fs1|] eqn:E; [|discriminate].
    pose proof (fstep_preserves_inv _ _ _ I E) as I1.
    assert (Hor1 : tainted g fs1 = true \/ existsb is_fault tr = true).
    { destruct Hor as [Ht|Hf].
      - left. exact (tainted_mono _ _ _ E Ht).
      - apply orb_true_iff in Hf as [Hf|Hf]; [|now right].
        left. exact (fault_taints _ _ _ I E Hf). }
    destruct (fstep_returned _ _ _ E) as [[-> [Hnt [_ ->]]]|[[-> Hrf]|Hrn]].
    + (* Ret true: not tainted before, and no fault among the remaining events can be run *)
      destruct tr as [|fe2 tr2]; cbn [frun] in H.
      * injection H as <-. destruct Hor as [Ht|Hf]; [congruence|].
        simpl in Hf. discriminate.
      * rewrite (fstep_after_ret (set_ret fs true) fe2 true) in H by reflexivity. discriminate.
    + destruct tr as [|fe2 tr2]; cbn [frun] in H.
      * injection H as <-. congruence.
      * rewrite (fstep_after_ret fs1 fe2 false Hrf) in H. discriminate.
    + eapply IH; eauto.
Qed.

Lemma ffault_surfaces tr fs :
  ext_ok -> faccepts g c ext d0 tr = Some fs -> existsb is_fault tr = true ->
  returned (fb fs) <> Some true.
Proof.
  intros Hx Ha Hf. unfold faccepts in Ha.
  eapply no_ok_after_fault; eauto.
  - now apply finit_inv.
  - unfold finit. cbn [fb]. destruct ext; reflexivity.
Qed.

(* after a fault the successful return is not enabled (at the state itself) *)
Lemma fret_ok_disabled fs : tainted g fs = true -> fstep g c ext fs (Ev (Ret true)) = None.
Proof.
  intro H. unfold fstep. destruct (returned (fb fs)); auto. now rewrite H.
Qed.

Lemma fret_err_enabled fs : tainted g fs = true -> returned (fb fs) = None ->
  fstep g c ext fs (Ev (Ret false)) = Some (set_ret fs false).
Proof. intros H Hr. unfold fstep. now rewrite Hr, H. Qed.

Lemma ftainted_after_fault tr1 fe fs :
  ext_ok -> faccepts g c ext d0 (tr1 ++ [fe]) = Some fs -> is_fault fe = true ->
  tainted g fs = true.
Proof.
  intros Hx Ha Hf. unfold faccepts in Ha. apply frun_app in Ha as [fs1 [H1 H2]].
  pose proof (frun_inv tr1 _ _ (finit_inv Hx) H1) as I.
  simpl in H2. destruct (fstep g c ext fs1 fe) as [fs2|] eqn:E; [|discriminate].
  injection H2 as <-. eapply fault_taints; eauto.
Qed.

(* ------------------------------------------------------------------ no fault: no error return *)

(* only a failing callback creates a dead task among the events of CopySpec *)
Lemma step_no_new_dead st e st' x : step g c st e = Some st' -> (forall k n, e <> CbFail k n) ->
  ph st' x = Dead -> ph st x = Dead.
Proof.
  intros H Hn Hx. step_inv H; simp_st; auto;
    try (exfalso; eapply Hn; reflexivity);
    (upd_cases x n; auto);
    unfold after_push, after_tag in Hx;
    repeat match type of Hx with context [if ?b then _ else _] => destruct b end;
    discriminate.
Qed.

Lemma any_dead_false_step st e st' : step g c st e = Some st' -> (forall k n, e <> CbFail k n) ->
  any_dead g st = false -> any_dead g st' = false.
Proof.
  intros H Hn Hd. apply Bool.not_true_is_false. intro Hd'.
  unfold any_dead in Hd'. apply existsb_exists in Hd' as [x [Hin Hx]].
  assert (Hxd : ph st' x = Dead) by (destruct (ph st' x); simpl in Hx; congruence).
  pose proof (step_no_new_dead _ _ _ _ H Hn Hxd) as Hold.
  rewrite (any_dead_intro st x) in Hd; [discriminate | | assumption].
  apply in_seq in Hin. lia.
Qed.

Lemma untainted_step fs fe fs' : fstep g c ext fs fe = Some fs' -> is_fault fe = false ->
  tainted g fs = false -> tainted g fs' = false.
Proof.
  intros H Hf Ht. apply fstep_inv in H as [_ H].
  assert (Hel : f_cancelled fs = false /\ f_aborted fs = false /\ any_dead g (fb fs) = false).
  { unfold tainted in Ht. apply orb_false_iff in Ht as [Ht H3]. apply orb_false_iff in Ht as [H1 H2]. auto. }
  destruct Hel as [H1 [H2 H3]].
  destruct H; simpl in Hf; try discriminate; unfold tainted;
    cbn [fb f_cancelled f_aborted set_ret with_base]; rewrite ?H1, ?H2; cbn [orb]; auto.
  eapply any_dead_false_step; eauto. intros k n ->. discriminate.
Qed.

Lemma nofault_untainted tr : forall fs fs', frun g c ext fs tr = Some fs' ->
  existsb is_fault tr = false -> tainted g fs = false ->
  returned (fb fs) <> Some false ->
  tainted g fs' = false /\ returned (fb fs') <> Some false.
Proof.
  induction tr as [|fe tr IH]; simpl; intros fs fs' H Hf Ht Hr.
  - injection H as <-. auto.
  - destruct (fstep g c ext fs fe) as [fs1|] eqn:E; [|discriminate].
    apply orb_false_iff in Hf as [Hf1 Hf2].
    pose proof (untainted_step _ _ _ E Hf1 Ht) as Ht1.
    eapply IH; eauto.
    destruct (fstep_returned _ _ _ E) as [[-> [_ [_ ->]]]|[[-> Hrf]|Hrn]].
    + cbn. discriminate.
    + (* Ret false needs taint *)
      apply fstep_inv in E as [_ E]. inversion E; subst; congruence.
    + congruence.
Qed.

(* a run without fault events is never tainted and never returns an error *)
Lemma fnofault_no_error tr fs :
  faccepts g c ext d0 tr = Some fs -> existsb is_fault tr = false ->
  tainted g fs = false /\ returned (fb fs) <> Some false.
Proof.
  intros Ha Hf. unfold faccepts in Ha. eapply nofault_untainted; eauto.
  - unfold tainted, finit, any_dead. cbn [f_cancelled f_aborted fb orb].
    apply Bool.not_true_is_false. intro Hd. apply existsb_exists in Hd as [x [_ Hx]].
    destruct ext; cbn [set_ph init ph] in Hx; [unfold upd in Hx; destruct (Nat.eqb x (c_root c))|]; discriminate.
  - unfold finit. cbn [fb]. destruct ext; discriminate.
Qed.

(* ------------------------------------------------------------------ success: the graph is complete *)

Lemma frun_ret_true tr : forall fs fs', frun g c ext fs tr = Some fs' ->
  returned (fb fs) = None -> returned (fb fs') = Some true ->
  ret_ok_guard g c ext (fb fs') = true.
Proof.
  induction tr as [|fe tr IH]; simpl; intros fs fs' H Hn Hr.
  - injection H as <-. congruence.
  - destruct (fstep g c ext fs fe) as [fs1|] eqn:E; [|discriminate].
    destruct (fstep_returned _ _ _ E) as [[-> [_ [Hg ->]]]|[[-> Hrf]|Hrn]].
    + destruct tr as [|fe2 tr2]; cbn [frun] in H.
      * injection H as <-. exact Hg.
      * rewrite (fstep_after_ret (set_ret fs true) fe2 true) in H by reflexivity. discriminate.
    + destruct tr as [|fe2 tr2]; cbn [frun] in H.
      * injection H as <-. congruence.
      * rewrite (fstep_after_ret fs1 fe2 false Hrf) in H. discriminate.
    + eapply IH; eauto.
Qed.

(* the roots of the call *)
Definition is_call_root (r : node) : Prop :=
  if ext then In r (succ' g (c_root c)) else (r = c_root c \/ In r (c_xroots c)).

Lemma guard_roots_done st r : ret_ok_guard g c ext st = true -> is_call_root r -> ph st r = Done.
Proof.
  unfold ret_ok_guard, is_call_root. destruct ext; intros H Hr.
  - apply andb_true_iff in H as [H _]. apply andb_true_iff in H as [_ H].
    eapply forallb_done; eauto.
  - apply andb_true_iff in H as [H Hxr]. apply andb_true_iff in H as [H _].
    destruct Hr as [->|Hr].
    + destruct (ph st (c_root c)); simpl in H; congruence.
    + eapply forallb_done; eauto.
Qed.

Lemma fclosure tr fs :
  ext_ok -> closed_nodes g d0 -> mt_consistent g ->
  faccepts g c ext d0 tr = Some fs -> returned (fb fs) = Some true ->
  forall r n, is_call_root r -> reach g r n -> has g (dst (fb fs)) n = true.
Proof.
  intros Hx Hc Hmt Ha Hr r n Hroot Hn. unfold faccepts in Ha.
  pose proof (frun_inv tr _ _ (finit_inv Hx) Ha) as I.
  assert (Hg : ret_ok_guard g c ext (fb fs) = true).
  { eapply frun_ret_true; eauto. unfold finit. cbn [fb]. destruct ext; reflexivity. }
  eapply reach_closed; eauto.
  - now apply (i_closed _ _ _ _ I).
  - apply (i_present _ _ _ _ I). rewrite (guard_roots_done _ r Hg Hroot). reflexivity.
Qed.

End F.

(* ------------------------------------------------------------------ retry *)

(* first call: any outcome; second call (possibly another API / root / concurrency)
   on the destination as the first one left it *)
Lemma fretry_completes (g : graph) (c1 c2 : cfg) (ext1 ext2 : bool) (d0 : list node)
      tr1 fs1 tr2 fs2 :
  ext_ok g c1 ext1 d0 -> closed_nodes g d0 -> mt_consistent g ->
  faccepts g c1 ext1 d0 tr1 = Some fs1 ->
  ext_ok g c2 ext2 (dst (fb fs1)) ->
  faccepts g c2 ext2 (dst (fb fs1)) tr2 = Some fs2 -> returned (fb fs2) = Some true ->
  forall r n, is_call_root g c2 ext2 r -> reach g r n -> has g (dst (fb fs2)) n = true.
Proof.
  intros Hx1 Hc Hmt Ha1 Hx2 Ha2 Hr r n Hroot Hn.
  eapply (fclosure g c2 ext2 (dst (fb fs1))); eauto.
  eapply (fclosed_always g c1 ext1 d0); eauto.
Qed.

(* the same with the rerun as a run of the fault-free system of C01 (Model/CopySpec.v):
   the hypothesis of C01_closure holds for the destination the first call left *)
Lemma fretry_completes_spec (g : graph) (c1 c2 : cfg) (ext1 : bool) (d0 : list node)
      tr1 fs1 tr2 st2 :
  ext_ok g c1 ext1 d0 -> closed_nodes g d0 -> mt_consistent g ->
  faccepts g c1 ext1 d0 tr1 = Some fs1 ->
  accepts g c2 (dst (fb fs1)) tr2 = Some st2 -> returned st2 = Some true ->
  forall n, reach g (c_root c2) n -> has g (dst st2) n = true.
Proof.
  intros Hx1 Hc Hmt Ha1 Ha2 Hr.
  apply (closure_lemma g c2 (dst (fb fs1)) tr2 st2); auto.
  exact (fclosed_always g c1 ext1 d0 tr1 fs1 Hx1 Hc Ha1).
Qed.

(* ------------------------------------------------------------------ witnesses *)

(* R = 4 -> A = 2, B = 3;  A -> C = 0, D = 1;  B -> C.  The push of C fails AFTER the content
   was stored while D is still in flight; B and A stay Waiting; the call returns an error;
   the destination {C, D} is closed.  Then the rerun completes. *)
Definition g_sh : graph :=
  mkGraph 5 (fun n => match n with 2 => [0; 1] | 3 => [0] | 4 => [2; 3] | _ => [] end)
          (fun _ => false) (fun n => Nat.leb 2 n) (fun n => n).
Definition c_sh : cfg := mkCfg 3 MGraph 4 false true [] [].
Definition tr_sh1 : list fevent :=
  [Ev (ExB 4); Ev (ExE 4 false); Ev (SFB 4); Ev (SFE 4); Ev (SFC 4);
   Ev (ExB 2); Ev (ExB 3); Ev (ExE 2 false); Ev (ExE 3 false);
   Ev (SFB 2); Ev (SFE 2); Ev (SFC 2); Ev (SFB 3); Ev (SFE 3); Ev (SFC 3);
   Ev (ExB 0); Ev (ExB 1); Ev (ExE 0 false); Ev (ExE 1 false);
   Ev (Cb CPre 0); Ev (SFB 0); Ev (SFE 0); Ev (PuB 0 false);
   Ev (Cb CPre 1); Ev (SFB 1);
   PuX 0 false true; Ev (SFC 0);
   Ev (SFE 1); Ev (PuB 1 false); Ev (PuE 1 false POk); Ev (SFC 1); Ev (Cb CPost 1);
   Ev (Ret false)].
Definition tr_sh2 : list fevent :=
  [Ev (ExB 4); Ev (ExE 4 false); Ev (SFB 4); Ev (SFE 4); Ev (SFC 4);
   Ev (ExB 2); Ev (ExB 3); Ev (ExE 2 false); Ev (ExE 3 false);
   Ev (SFB 2); Ev (SFE 2); Ev (SFC 2); Ev (SFB 3); Ev (SFE 3); Ev (SFC 3);
   Ev (ExB 0); Ev (ExB 1); Ev (ExE 0 true); Ev (ExE 1 true); Ev (Cb CSkip 0); Ev (Cb CSkip 1);
   Ev (Cb CPre 2); Ev (PuB 2 false); Ev (PuE 2 false POk); Ev (Cb CPost 2);
   Ev (Cb CPre 3); Ev (PuB 3 false); Ev (PuE 3 false POk); Ev (Cb CPost 3);
   Ev (Cb CPre 4); Ev (PuB 4 false); Ev (PuE 4 false POk); Ev (Cb CPost 4);
   Ev (Ret true)].

Lemma example_fault_run :
  closed_nodes g_sh [] /\ mt_consistent g_sh /\ ext_ok g_sh c_sh false [] /\
  exists fs1, faccepts g_sh c_sh false [] tr_sh1 = Some fs1 /\
    existsb is_fault tr_sh1 = true /\ returned (fb fs1) = Some false /\
    present_nodes g_sh (dst (fb fs1)) = [0; 1] /\
  exists fs2, faccepts g_sh c_sh false (dst (fb fs1)) tr_sh2 = Some fs2 /\
    returned (fb fs2) = Some true /\ present_nodes g_sh (dst (fb fs2)) = [0; 1; 2; 3; 4].
Proof.
  split; [intros m x []|]. split; [apply mt_consistent_inj; auto|].
  split; [intro H; discriminate|].
  eexists. split; [vm_compute; reflexivity|].
  split; [reflexivity|]. split; [reflexivity|]. split; [reflexivity|].
  eexists. split; [vm_compute; reflexivity|]. split; reflexivity.
Qed.

(* ExtendedCopyGraph: the virtual super-root 3 over the roots 1 (a referrer of 0) and 2
   (another referrer of 0); the context is cancelled while the first root is in flight *)
Definition g_x : graph :=
  mkGraph 4 (fun n => match n with 1 => [0] | 2 => [0] | 3 => [1; 2] | _ => [] end)
          (fun _ => false) (fun n => Nat.leb 1 n && Nat.leb n 2) (fun n => n).
Definition c_x : cfg := mkCfg 2 MGraph 3 false true [] [].
Definition tr_x1 : list fevent :=
  [ProOk; ProOk; ProOk; Ev (ExB 1); Ev (ExB 2); Ev (ExE 1 false); Cancel; Ev (ExE 2 false);
   Ev (SFB 1); Ev (SFE 1); Ev (SFC 1); Ev (Ret false)].
Definition tr_x2 : list fevent :=
  [ProOk; ProOk; ProOk; Ev (ExB 1); Ev (ExB 2); Ev (ExE 1 false); Ev (ExE 2 false);
   Ev (SFB 1); Ev (SFE 1); Ev (SFC 1); Ev (SFB 2); Ev (SFE 2); Ev (SFC 2);
   Ev (ExB 0); Ev (ExE 0 false); Ev (Cb CPre 0); Ev (SFB 0); Ev (SFE 0); Ev (PuB 0 false);
   Ev (PuE 0 false POk); Ev (SFC 0); Ev (Cb CPost 0);
   Ev (Cb CPre 2); Ev (PuB 2 false); Ev (Cb CPre 1); Ev (PuB 1 false);
   Ev (PuE 2 false POk); Ev (PuE 1 false POk); Ev (Cb CPost 1); Ev (Cb CPost 2); Ev (Ret true)].

Lemma example_ext_run :
  ext_ok g_x c_x true [] /\
  exists fs1, faccepts g_x c_x true [] tr_x1 = Some fs1 /\ returned (fb fs1) = Some false /\
  exists fs2, faccepts g_x c_x true (dst (fb fs1)) tr_x2 = Some fs2 /\
    returned (fb fs2) = Some true /\ present_nodes g_x (dst (fb fs2)) = [0; 1; 2].
Proof.
  split; [intros _; split; [simpl; lia | reflexivity]|].
  eexists. split; [vm_compute; reflexivity|]. split; [reflexivity|].
  eexists. split; [vm_compute; reflexivity|]. split; reflexivity.
Qed.

(* ------------------------------------------------------------------ conservative extension *)

(* without fault events the extended system IS the system of C01/C04: on states without
   cancellation / prologue failure / dangling readers, [Ev e] is accepted exactly when
   CopySpec accepts e, with the same successor state *)
Definition plain (fs : fstate) : Prop :=
  f_cancelled fs = false /\ f_aborted fs = false /\ f_rd fs = [].

Lemma forallb_no_dead (g : graph) st :
  forallb (fun n => is_idle_or_done (ph st n)) (seq 0 (g_n g)) = true -> any_dead g st = false.
Proof.
  intro H. unfold any_dead. apply Bool.not_true_is_false. intro Hd.
  apply existsb_exists in Hd as [n [Hin Hn]]. rewrite forallb_forall in H. specialize (H n Hin).
  destruct (ph st n); simpl in *; congruence.
Qed.

Lemma fstep_conservative (g : graph) (c : cfg) fs e : plain fs ->
  match step g c (fb fs) e with
  | Some st' => exists fs', fstep g c false fs (Ev e) = Some fs' /\ fb fs' = st' /\ plain fs'
  | None => fstep g c false fs (Ev e) = None
  end.
Proof.
  intros [Hc [Ha Hr]].
  assert (Ht : tainted g fs = any_dead g (fb fs)) by (unfold tainted; now rewrite Hc, Ha).
  unfold fstep. unfold step at 1.
  destruct (returned (fb fs)) eqn:Hret; [destruct e; reflexivity|].
  destruct e;
    try (rewrite Ha; cbv iota beta;
         match goal with |- match ?x with _ => _ end =>
           destruct x eqn:Hs end;
         [ eexists; split; [unfold step; rewrite Hret; rewrite Hs; reflexivity|];
           split; [reflexivity | repeat split; assumption]
         | unfold step; rewrite Hret; rewrite Hs; reflexivity ]).
  - (* SFC *)
    rewrite Ha. cbv iota beta.
    destruct (is_dead (ph (fb fs) n)) eqn:Hd.
    + rewrite Hr. simpl. destruct (ph (fb fs) n); simpl in Hd; try discriminate. reflexivity.
    + match goal with |- match ?x with _ => _ end => destruct x eqn:Hs end.
      * eexists. split; [unfold step; rewrite Hret; rewrite Hs; reflexivity|].
        split; [reflexivity | repeat split; assumption].
      * unfold step. rewrite Hret. rewrite Hs. reflexivity.
  - (* Ret *)
    match goal with |- context [if ?b then _ else _] => is_var b; destruct b end.
    + unfold ret_ok_guard.
      destruct (is_done (ph (fb fs) (c_root c)) &&
                forallb (fun n => is_idle_or_done (ph (fb fs) n)) (seq 0 (g_n g)) &&
                forallb (fun r => is_done (ph (fb fs) r)) (c_xroots c)) eqn:Hg.
      * apply andb_true_iff in Hg as [Hg _]. apply andb_true_iff in Hg as [_ Hf].
        rewrite Ht, (forallb_no_dead g _ Hf). simpl.
        eexists. split; [reflexivity|]. split; [reflexivity | repeat split; assumption].
      * now rewrite andb_false_r.
    + rewrite Ht. unfold any_dead.
      destruct (existsb (fun n => is_dead (ph (fb fs) n)) (seq 0 (g_n g))).
      * eexists. split; [reflexivity|]. split; [reflexivity | repeat split; assumption].
      * reflexivity.
Qed.

Lemma frun_conservative (g : graph) (c : cfg) tr : forall fs, plain fs ->
  match run g c (fb fs) tr with
  | Some st' => exists fs', frun g c false fs (map Ev tr) = Some fs' /\ fb fs' = st' /\ plain fs'
  | None => frun g c false fs (map Ev tr) = None
  end.
Proof.
  induction tr as [|e tr IH]; intros fs Hp; simpl.
  - eauto.
  - pose proof (fstep_conservative g c fs e Hp) as H.
    destruct (step g c (fb fs) e) as [st1|] eqn:E.
    + destruct H as [fs1 [H1 [H2 H3]]]. rewrite H1. subst st1. now apply IH.
    + now rewrite H.
Qed.

Lemma faccepts_conservative (g : graph) (c : cfg) (d0 : list node) tr :
  match accepts g c d0 tr with
  | Some st => exists fs, faccepts g c false d0 (map Ev tr) = Some fs /\ fb fs = st
  | None => faccepts g c false d0 (map Ev tr) = None
  end.
Proof.
  unfold accepts, faccepts.
  pose proof (frun_conservative g c tr (finit c false d0)) as H.
  assert (Hp : plain (finit c false d0)) by (repeat split; reflexivity).
  specialize (H Hp). cbn [finit fb] in H.
  destruct (run g c (init c d0) tr) as [st|].
  - destruct H as [fs [H1 [H2 _]]]. eauto.
  - exact H.
Qed.

(* the acceptor is sensitive to the two mechanisms the property is about:
   (a) on g_sh the push of C = 0 fails (nothing stored) while D = 1 is in flight; then B = 3,
       whose only successor is C, goes on to PreCopy as if C were done: rejected at that event
       (index 27), whereas the same trace without it is a run;
   (b) a call whose context was cancelled (here: before the call) cannot return success. *)
Definition tr_sh_pre : list fevent :=
  [Ev (ExB 4); Ev (ExE 4 false); Ev (SFB 4); Ev (SFE 4); Ev (SFC 4);
   Ev (ExB 2); Ev (ExB 3); Ev (ExE 2 false); Ev (ExE 3 false);
   Ev (SFB 2); Ev (SFE 2); Ev (SFC 2); Ev (SFB 3); Ev (SFE 3); Ev (SFC 3);
   Ev (ExB 0); Ev (ExB 1); Ev (ExE 0 false); Ev (ExE 1 false);
   Ev (Cb CPre 0); Ev (SFB 0); Ev (SFE 0); Ev (PuB 0 false);
   Ev (Cb CPre 1); Ev (SFB 1);
   PuX 0 false false; Ev (SFC 0)].

Lemma example_rejects_parent_of_dead :
  (exists fs, faccepts g_sh c_sh false [] tr_sh_pre = Some fs /\ ph (fb fs) 0 = Dead /\ ph (fb fs) 3 = Waiting) /\
  faccepts g_sh c_sh false [] (tr_sh_pre ++ [Ev (Cb CPre 3)]) = None.
Proof.
  split; [eexists; split; [vm_compute; reflexivity | split; reflexivity] | vm_compute; reflexivity].
Qed.

Lemma example_rejects_ok_after_cancel :
  faccepts g_sh c_sh false [] [Cancel; Ev (Ret true)] = None /\
  (exists fs, faccepts g_sh c_sh false [] [Cancel; Ev (Ret false)] = Some fs) /\
  faccepts g_x c_x true [0; 1; 2] [ProOk; Cancel; ProOk; ProOk; Ev (Ret true)] = None.
Proof.
  split; [vm_compute; reflexivity|]. split; [eexists; vm_compute; reflexivity | vm_compute; reflexivity].
Qed.
