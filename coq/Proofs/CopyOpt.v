(* Nil callbacks (Model/CopyOpt.v): a recorded trace accepted by run_opt is the erasure
   of a trace accepted by the transition system, so every theorem about accepted traces
   transfers; counts of the callbacks that are set are the same in both. *)
From Oras Require Import Base.Prelude Model.CopySpec Model.CopyTop Model.CopyOpt
  Proofs.CopySpec Proofs.CopyAcct.
Local Open Scope nat_scope.

Lemma run_cat g c a : forall b st s1 s2,
  run g c st a = Some s1 -> run g c s1 b = Some s2 -> run g c st (a ++ b) = Some s2.
Proof.
  induction a as [|e a IH]; simpl; intros b st s1 s2 H1 H2.
  - injection H1 as <-. exact H2.
  - destruct (step g c st e) as [s|]; [|discriminate]. eapply IH; eauto.
Qed.

Lemma step_opt_sound cs g c st e st' full :
  step_opt cs g c st e = Some (st', full) -> run g c st full = Some st'.
Proof.
  unfold step_opt. destruct (nil_cb_event cs e); [discriminate|].
  destruct (run g c st (pre_events cs st e ++ [e])) as [s2|] eqn:E1; [|discriminate].
  destruct (run g c s2 (post_events cs s2 e)) as [s3|] eqn:E2; [|discriminate].
  intro H. injection H as <- <-.
  pose proof (run_cat g c _ _ st s2 s3 E1 E2) as R. rewrite <- app_assoc in R. exact R.
Qed.

Lemma run_opt_sound cs g c tr : forall st st' full,
  run_opt cs g c st tr = Some (st', full) -> run g c st full = Some st'.
Proof.
  induction tr as [|e tr IH]; simpl; intros st st' full H.
  - injection H as <- <-. reflexivity.
  - destruct (step_opt cs g c st e) as [[s1 f1]|] eqn:E; [|discriminate].
    destruct (run_opt cs g c s1 tr) as [[s2 f2]|] eqn:E2; [|discriminate].
    injection H as <- <-. eapply run_cat; [eapply step_opt_sound; eauto | eapply IH; eauto].
Qed.

Lemma pre_events_nil cs st e x : In x (pre_events cs st e) -> nil_cb_event cs x = true.
Proof.
  unfold pre_events. destruct e; simpl; try contradiction;
  (destruct (cs CPre) eqn:Ec; simpl; [contradiction|]);
  (destruct (awaits_pre (ph st n)); simpl; [|contradiction]);
  intros [<-|[]]; simpl; now rewrite Ec.
Qed.

Lemma post_events_nil cs st e x : In x (post_events cs st e) -> nil_cb_event cs x = true.
Proof.
  unfold post_events. destruct (ev_node e) as [n|]; [|contradiction].
  destruct (ph st n); simpl; try contradiction.
  - destruct (cs CSkip) eqn:Ec; [contradiction|]. intros [<-|[]]. simpl. now rewrite Ec.
  - destruct (cs CMounted) eqn:Ec; [contradiction|]. intros [<-|[]]. simpl. now rewrite Ec.
  - destruct (cs CPost) eqn:Ec; [contradiction|]. intros [<-|[]]. simpl. now rewrite Ec.
Qed.

Lemma erase_all_nil cs l : (forall x, In x l -> nil_cb_event cs x = true) -> erase cs l = [].
Proof.
  intro H. unfold erase. induction l as [|a l IH]; simpl; auto.
  rewrite (H a (or_introl eq_refl)). simpl. apply IH. intros x Hx. apply H. now right.
Qed.

Lemma erase_app cs a b : erase cs (a ++ b) = erase cs a ++ erase cs b.
Proof. unfold erase. apply filter_app. Qed.

Lemma erase_cons cs e l :
  erase cs (e :: l) = if nil_cb_event cs e then erase cs l else e :: erase cs l.
Proof. unfold erase. simpl. destruct (nil_cb_event cs e); reflexivity. Qed.

Lemma step_opt_erase cs g c st e st' full :
  step_opt cs g c st e = Some (st', full) -> erase cs full = [e].
Proof.
  unfold step_opt. destruct (nil_cb_event cs e) eqn:En; [discriminate|].
  destruct (run g c st (pre_events cs st e ++ [e])) as [s2|]; [|discriminate].
  destruct (run g c s2 (post_events cs s2 e)) as [s3|]; [|discriminate].
  intro H. injection H as _ <-. rewrite erase_app.
  rewrite (erase_all_nil cs _ (pre_events_nil cs st e)), app_nil_l.
  rewrite erase_cons, En.
  now rewrite (erase_all_nil cs _ (post_events_nil cs s2 e)).
Qed.

Lemma run_opt_erase cs g c tr : forall st st' full,
  run_opt cs g c st tr = Some (st', full) -> erase cs full = tr.
Proof.
  induction tr as [|e tr IH]; simpl; intros st st' full H.
  - injection H as _ <-. reflexivity.
  - destruct (step_opt cs g c st e) as [[s1 f1]|] eqn:E; [|discriminate].
    destruct (run_opt cs g c s1 tr) as [[s2 f2]|] eqn:E2; [|discriminate].
    injection H as _ <-. rewrite erase_app, (step_opt_erase _ _ _ _ _ _ _ E), (IH _ _ _ E2). reflexivity.
Qed.

Lemma run_opt_app cs g c tr1 : forall tr2 st st' full,
  run_opt cs g c st (tr1 ++ tr2) = Some (st', full) ->
  exists s1 f1 f2, run_opt cs g c st tr1 = Some (s1, f1) /\
                   run_opt cs g c s1 tr2 = Some (st', f2) /\ full = f1 ++ f2.
Proof.
  induction tr1 as [|e tr1 IH]; simpl; intros tr2 st st' full H.
  - exists st, [], full. auto.
  - destruct (step_opt cs g c st e) as [[s1 f1]|] eqn:E; [|discriminate].
    destruct (run_opt cs g c s1 (tr1 ++ tr2)) as [[s2 f2]|] eqn:E2; [|discriminate].
    injection H as <- <-.
    destruct (IH _ _ _ _ E2) as [sa [fa [fb [Ha [Hb ->]]]]].
    exists sa, (f1 ++ fa), fb. rewrite Ha. repeat split; auto. now rewrite app_assoc.
Qed.

(* counting events that the erasure keeps *)
Lemma cnt_erase cs p l : (forall e, p e = true -> nil_cb_event cs e = false) ->
  cnt p (erase cs l) = cnt p l.
Proof.
  intro H. unfold cnt, erase. induction l as [|a l IH]; simpl; auto.
  destruct (nil_cb_event cs a) eqn:En; simpl.
  - destruct (p a) eqn:Ep; [rewrite (H a Ep) in En; discriminate|]. exact IH.
  - destruct (p a); simpl; now rewrite IH.
Qed.

Lemma is_cb_kept cs k n : cs k = true -> forall e, is_cb k n e = true -> nil_cb_event cs e = false.
Proof.
  intros Hk e H. destruct e; simpl in *; try reflexivity;
  apply andb_true_iff in H as [_ H]; destruct k, k0; try discriminate; now rewrite Hk.
Qed.

Lemma is_fetch_kept cs n e : is_fetch n e = true -> nil_cb_event cs e = false.
Proof. destruct e; simpl; try discriminate; reflexivity. Qed.
Lemma is_push_kept cs n e : is_push n e = true -> nil_cb_event cs e = false.
Proof. destruct e; simpl; try discriminate; reflexivity. Qed.

Lemma erase_In cs e l : In e (erase cs l) -> In e l.
Proof. unfold erase. intro H. now apply filter_In in H as [H _]. Qed.

(* ------------------------------------------------------------------ C01 *)

Lemma closure_opt cs g c d0 tr st full :
  closed_nodes g d0 -> mt_consistent g ->
  accepts_opt cs g c d0 tr = Some (st, full) -> returned st = Some true ->
  forall n, reach g (c_root c) n -> has g (dst st) n = true.
Proof.
  intros Hc Hm Ha. apply (closure_lemma g c d0 full st Hc Hm).
  exact (run_opt_sound cs g c tr _ _ _ Ha).
Qed.

Lemma copy_result_opt cs g c d0 (rank : node -> nat) :
  (forall n x, In x (succ' g n) -> rank x < rank n) ->
  forall tr st full fuel,
  c_xroots c = [] -> closed_nodes g d0 -> mt_consistent g -> rank (c_root c) < fuel ->
  accepts_opt cs g c d0 tr = Some (st, full) -> returned st = Some true ->
  forall n, has g (dst st) n = has g (copy_result g d0 fuel (c_root c)) n.
Proof.
  intros Hr tr st full fuel Hx0 Hc Hm Hf Ha.
  apply (copy_result_lemma g c d0 rank Hr full st fuel Hx0 Hc Hm Hf).
  exact (run_opt_sound cs g c tr _ _ _ Ha).
Qed.

Lemma tagged_opt cs g c d0 tr st full :
  accepts_opt cs g c d0 tr = Some (st, full) -> returned st = Some true ->
  c_mode c <> MGraph -> tag_ok g c = true -> tag st = Some (c_root c).
Proof.
  intro Ha. apply (tagged_lemma g c d0 full st). exact (run_opt_sound cs g c tr _ _ _ Ha).
Qed.

(* ------------------------------------------------------------------ C04 *)

Lemma inflight_opt cs g c d0 tr1 tr2 st full :
  accepts_opt cs g c d0 (tr1 ++ tr2) = Some (st, full) ->
  exists st1 f1, accepts_opt cs g c d0 tr1 = Some (st1, f1) /\
                 inflight_src g st1 <= c_K c /\ inflight_dst g st1 <= c_K c.
Proof.
  intro Ha. unfold accepts_opt in *. apply run_opt_app in Ha as [s1 [f1 [f2 [H1 [_ _]]]]].
  exists s1, f1. split; [exact H1|].
  apply (inflight_lemma g c d0 f1). exact (run_opt_sound cs g c tr1 _ _ _ H1).
Qed.

Lemma single_transfer_opt cs g c d0 tr st full n :
  accepts_opt cs g c d0 tr = Some (st, full) ->
  cnt (is_fetch n) tr <= 1 /\ cnt (is_push n) tr <= 1.
Proof.
  intro Ha. pose proof (run_opt_sound cs g c tr _ _ _ Ha) as Hs.
  rewrite <- (run_opt_erase cs g c tr _ _ _ Ha).
  rewrite (cnt_erase cs (is_fetch n) full (is_fetch_kept cs n)).
  rewrite (cnt_erase cs (is_push n) full (is_push_kept cs n)).
  exact (single_transfer_lemma g c d0 full st n Hs).
Qed.

Lemma callback_once_opt cs g c d0 tr st full k n :
  accepts_opt cs g c d0 tr = Some (st, full) -> cnt (is_cb k n) tr <= 1.
Proof.
  intro Ha. pose proof (run_opt_sound cs g c tr _ _ _ Ha) as Hs.
  destruct (cs k) eqn:Hk.
  - rewrite <- (run_opt_erase cs g c tr _ _ _ Ha).
    rewrite (cnt_erase cs (is_cb k n) full (is_cb_kept cs k n Hk)).
    exact (cb_once g c k n full _ _ Hs).
  - (* a nil callback has no event at all *)
    rewrite <- (run_opt_erase cs g c tr _ _ _ Ha).
    assert (Z : cnt (is_cb k n) (erase cs full) = 0).
    { apply cnt_zero. intros e He. unfold erase in He. apply filter_In in He as [_ Hq].
      destruct (is_cb k n e) eqn:Ec; auto. exfalso.
      destruct e; simpl in *; try discriminate;
      apply andb_true_iff in Ec as [_ Ec]; destruct k, k0; try discriminate; rewrite Hk in Hq; discriminate. }
    rewrite Z. lia.
Qed.

(* an uploaded node of a successful copy: each of PreCopy / PostCopy that is set is invoked
   exactly once, OnCopySkipped never *)
Lemma transferred_opt cs g c d0 tr st full n e :
  accepts_opt cs g c d0 tr = Some (st, full) -> returned st = Some true ->
  In e tr -> is_xfer n e ->
  (cs CPre = true -> cnt (is_cb CPre n) tr = 1) /\
  (cs CPost = true -> cnt (is_cb CPost n) tr = 1) /\
  cnt (is_cb CSkip n) tr = 0.
Proof.
  intros Ha Hr Hin Hx. pose proof (run_opt_sound cs g c tr _ _ _ Ha) as Hs.
  pose proof (run_opt_erase cs g c tr _ _ _ Ha) as He.
  assert (Hin' : In e full) by (apply (erase_In cs); now rewrite He).
  destruct (transferred_exactly_once g c d0 full st n e Hs Hr Hin' Hx) as [T1 [T2 T3]].
  rewrite <- He. repeat split.
  - intro Hk. now rewrite (cnt_erase cs _ full (is_cb_kept cs CPre n Hk)).
  - intro Hk. now rewrite (cnt_erase cs _ full (is_cb_kept cs CPost n Hk)).
  - assert (L : cnt (is_cb CSkip n) (erase cs full) <= cnt (is_cb CSkip n) full).
    { unfold cnt, erase. clear. induction full as [|a l IH]; simpl; auto.
      destruct (nil_cb_event cs a); simpl; destruct (is_cb CSkip n a); simpl; lia. }
    lia.
Qed.

Lemma mounted_opt cs g c d0 tr st full n :
  accepts_opt cs g c d0 tr = Some (st, full) -> returned st = Some true ->
  In (MtE n MMounted) tr -> cs CMounted = true -> cnt (is_cb CMounted n) tr = 1.
Proof.
  intros Ha Hr Hin Hk. pose proof (run_opt_sound cs g c tr _ _ _ Ha) as Hs.
  pose proof (run_opt_erase cs g c tr _ _ _ Ha) as He.
  assert (Hin' : In (MtE n MMounted) full) by (apply (erase_In cs); now rewrite He).
  rewrite <- He, (cnt_erase cs _ full (is_cb_kept cs CMounted n Hk)).
  exact (mounted_exactly_once g c d0 full st n Hs Hr Hin').
Qed.

(* order, in the elaborated trace (for a nil callback the "notification" is the point where the
   code would have invoked it) *)
Lemma postcopy_order_opt cs g c d0 tr st full f1 n f2 :
  accepts_opt cs g c d0 tr = Some (st, full) -> full = f1 ++ Cb CPost n :: f2 ->
  forall x, In x (succ' g n) -> notified x f1 \/ root_refpush c x = true.
Proof.
  intros Ha ->. apply (postcopy_after_successors g c d0 f1 n f2 st).
  exact (run_opt_sound cs g c tr _ _ _ Ha).
Qed.

Lemma callback_error_opt cs g c d0 tr st full k n :
  accepts_opt cs g c d0 tr = Some (st, full) -> In (CbFail k n) tr -> returned st <> Some true.
Proof.
  intros Ha Hin. pose proof (run_opt_sound cs g c tr _ _ _ Ha) as Hs.
  pose proof (run_opt_erase cs g c tr _ _ _ Ha) as He.
  assert (Hin' : In (CbFail k n) full) by (apply (erase_In cs); now rewrite He).
  apply in_split in Hin' as [f1 [f2 ->]].
  exact (callback_error_aborts g c d0 f1 k n f2 st Hs).
Qed.

(* with every callback set nothing is inserted: run_opt is run *)
Lemma nil_cb_all_set e : nil_cb_event all_set e = false.
Proof. destruct e; reflexivity. Qed.

Lemma elaboration_lemma cs g c d0 tr st full :
  accepts_opt cs g c d0 tr = Some (st, full) ->
  accepts g c d0 full = Some st /\ erase cs full = tr.
Proof.
  intro H. split; [exact (run_opt_sound cs g c tr _ _ _ H) | exact (run_opt_erase cs g c tr _ _ _ H)].
Qed.

(* platform selection: exactly the first matching entry *)
Lemma select_manifest_spec entries want n :
  select_manifest entries want = Some n <->
  exists l1 p l2, entries = l1 ++ (n, p) :: l2 /\ plat_match p want = true /\
                  forall m q, In (m, q) l1 -> plat_match q want = false.
Proof.
  induction entries as [|[m q] r IH]; simpl.
  - split; [discriminate|]. intros [l1 [p [l2 [H _]]]]. destruct l1; discriminate.
  - destruct (plat_match q want) eqn:E.
    + split.
      * intro H. injection H as <-. exists [], q, r. repeat split; auto. intros ? ? [].
      * intros [l1 [p [l2 [H [Hp Hn]]]]]. destruct l1 as [|[m' q'] l1]; simpl in H; inversion H; subst.
        -- reflexivity.
        -- rewrite (Hn m' q' (or_introl eq_refl)) in E. discriminate.
    + rewrite IH. split.
      * intros [l1 [p [l2 [-> [Hp Hn]]]]]. exists ((m, q) :: l1), p, l2. repeat split; auto.
        intros m' q' [H|H]; [inversion H; subst; exact E | eauto].
      * intros [l1 [p [l2 [H [Hp Hn]]]]]. destruct l1 as [|[m' q'] l1]; simpl in H; inversion H; subst.
        -- rewrite Hp in E. discriminate.
        -- exists l1, p, l2. repeat split; auto. intros m0 q0 H0. apply (Hn m0 q0). now right.
Qed.

Lemma select_manifest_none entries want :
  select_manifest entries want = None <-> forall m q, In (m, q) entries -> plat_match q want = false.
Proof.
  induction entries as [|[m q] r IH]; simpl.
  - split; auto. intros _ ? ? [].
  - destruct (plat_match q want) eqn:E.
    + split; [discriminate|]. intro H. rewrite (H m q (or_introl eq_refl)) in E. discriminate.
    + rewrite IH. split.
      * intros H m' q' [H1|H1]; [inversion H1; subst; exact E | eauto].
      * intros H m' q' H1. apply (H m' q'). now right.
Qed.

Lemma example_default_options :
  exists st full,
    accepts_opt (fun _ => false) g_ex c_ex [0; 1; 2; 3] [ExB 3; ExE 3 true; TagB 3; TagE 3; Ret true]
      = Some (st, full) /\
    returned st = Some true /\ tag st = Some 3 /\ In (Cb CSkip 3) full.
Proof. eexists. eexists. split; [vm_compute; reflexivity|]. repeat split; simpl; auto. Qed.
