(* CopyImplSrc: the program order of the protocol model is the call order of the Go source. *)
From Coq Require Import List.
From Oras Require Import Base.Prelude Generated.GC02 Model.CopyImpl Model.CopyImplSrc.
Import ListNotations.

Lemma source_order :
  c02proto_calls_fn = fn_calls /\ c02proto_calls_go = go_calls /\ c02proto_calls_ext = ext_calls /\
  c02proto_calls_start = start_calls /\ c02proto_calls_end = end_calls.
Proof. repeat split; reflexivity. Qed.
