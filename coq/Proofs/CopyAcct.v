(* Work accounting of the copyGraph transition system (C04): in-flight bounds,
   single transfer, callback counts and order, callback errors abort. *)
From Oras Require Import Base.Prelude Model.CopySpec Model.CopyTop Proofs.CopySpec.
Local Open Scope nat_scope.

Ltac simp_st := cbn [set_ph ph dst cached tag returned] in *.
Ltac upd_cases m n :=
  let E := fresh "E" in
  destruct (Nat.eq_dec m n) as [E|E];
  [subst; rewrite ?upd_same in * | rewrite ?(upd_other _ _ _ _ E) in *].
Ltac old_ph :=
  match goal with Hp : ph ?st ?n = _ |- context [ph ?st ?n] => rewrite Hp end.

Lemma run_app g c tr1 : forall tr2 st st', run g c st (tr1 ++ tr2) = Some st' ->
  exists st1, run g c st tr1 = Some st1 /\ run g c st1 tr2 = Some st'.
Proof.
  induction tr1 as [|e tr1 IH]; simpl; intros tr2 st st' H.
  - eauto.
  - destruct (step g c st e) as [s1|]; [|discriminate]. eauto.
Qed.

(* ------------------------------------------------------------------ in-flight bounds *)

Section Count.
Variable f : phase -> bool.

Lemma count_upd_le (phs : node -> phase) n p l : NoDup l ->
  length (filter (fun m => f (upd phs n p m)) l) <=
  length (filter (fun m => f (phs m)) l) + (if f p then if f (phs n) then 0 else 1 else 0).
Proof.
  induction l as [|a l IH]; intro ND; simpl; [lia|].
  inversion ND as [|? ? Hna ND']; subst. specialize (IH ND').
  destruct (Nat.eq_dec a n) as [->|Hne].
  - rewrite upd_same.
    assert (E : filter (fun m => f (upd phs n p m)) l = filter (fun m => f (phs m)) l).
    { apply filter_ext_in. intros m Hm. rewrite upd_other; auto. intro; subst; contradiction. }
    rewrite E. clear IH E. destruct (f p), (f (phs n)); simpl;
      rewrite ?Nat.add_0_r, ?Nat.add_1_r; auto.
  - rewrite upd_other by assumption. destruct (f (phs a)); simpl; lia.
Qed.

Lemma count_le_impl (f' : phase -> bool) (phs : node -> phase) l :
  (forall p, f p = true -> f' p = true) ->
  length (filter (fun m => f (phs m)) l) <= length (filter (fun m => f' (phs m)) l).
Proof.
  intro Hi. induction l as [|a l IH]; simpl; [lia|].
  destruct (f (phs a)) eqn:E.
  - rewrite (Hi _ E). simpl. lia.
  - destruct (f' (phs a)); simpl; lia.
Qed.
End Count.

Lemma active_step g c st e st' : step g c st e = Some st' ->
  active g st <= c_K c -> active g st' <= c_K c.
Proof.
  intros H Hle. unfold active, count in *.
  step_inv H; simp_st; try assumption;
  match goal with
  | |- length (filter (fun m => active_ph (upd ?phs ?n ?p m)) ?l) <= _ =>
    pose proof (count_upd_le active_ph phs n p l (seq_NoDup _ _)) as CU
  end;
  repeat match goal with Hp : ph st _ = _ |- _ => rewrite Hp in CU end;
  unfold after_push, after_tag in *;
  repeat match type of CU with context [if ?x then _ else _] => destruct x eqn:?Hi end;
  simpl in CU;
  repeat match goal with Hx : (_ <? _) = true |- _ => apply Nat.ltb_lt in Hx end;
  unfold active, count, node in *; simpl in *; try discriminate; lia.
Qed.

Lemma active_run g c tr : forall st st', run g c st tr = Some st' ->
  active g st <= c_K c -> active g st' <= c_K c.
Proof.
  induction tr as [|e tr IH]; simpl; intros st st' H Hle.
  - now injection H as <-.
  - destruct (step g c st e) as [s1|] eqn:E; [|discriminate].
    eapply IH; eauto using active_step.
Qed.

Lemma init_active g c d0 : active g (init c d0) = 0.
Proof.
  unfold active, count. simpl. induction (seq 0 (g_n g)); simpl; auto.
Qed.

Lemma inflight_lemma g c d0 tr st : accepts g c d0 tr = Some st ->
  inflight_src g st <= c_K c /\ inflight_dst g st <= c_K c.
Proof.
  intro Ha. unfold accepts in Ha.
  assert (A : active g st <= c_K c).
  { eapply active_run; eauto. rewrite init_active. lia. }
  unfold inflight_src, inflight_dst, active, count in *. split.
  - etransitivity; [|exact A]. apply count_le_impl. intros p; destruct p; simpl; try discriminate; auto.
  - etransitivity; [|exact A]. apply count_le_impl. intros p; destruct p; simpl; try discriminate; auto.
Qed.

(* the bound holds at every instant: every prefix of an accepted trace *)
Lemma inflight_prefix_lemma g c d0 tr1 tr2 st : accepts g c d0 (tr1 ++ tr2) = Some st ->
  exists st1, accepts g c d0 tr1 = Some st1 /\
              inflight_src g st1 <= c_K c /\ inflight_dst g st1 <= c_K c.
Proof.
  intro Ha. unfold accepts in Ha. apply run_app in Ha as [st1 [H1 _]].
  exists st1. split; [exact H1|]. eapply inflight_lemma; eauto.
Qed.

(* ------------------------------------------------------------------ at most once *)

Definition cnt (p : event -> bool) (tr : list event) : nat := length (filter p tr).

Section OneShot.
Variable g : graph.
Variable c : cfg.
Variable p : event -> bool.
Variable D : state -> Prop.   (* "p is disabled from now on" *)
Hypothesis D_stable : forall st e st', step g c st e = Some st' -> D st -> D st'.
Hypothesis D_after : forall st e st', step g c st e = Some st' -> p e = true -> D st'.
Hypothesis D_blocks : forall st e st', step g c st e = Some st' -> p e = true -> ~ D st.

Lemma one_shot tr : forall st st', run g c st tr = Some st' ->
  cnt p tr <= 1 /\ (D st -> cnt p tr = 0).
Proof.
  induction tr as [|e tr IH]; intros st st' H; simpl in *.
  - unfold cnt; simpl. split; auto.
  - destruct (step g c st e) as [s1|] eqn:E; [|discriminate].
    destruct (IH s1 st' H) as [IH1 IH2]. unfold cnt in *. simpl.
    destruct (p e) eqn:Pe; simpl.
    + split.
      * rewrite IH2; eauto.
      * intro Hd. exfalso. eapply D_blocks; eauto.
    + split; auto. intro Hd. apply IH2. eauto.
Qed.
End OneShot.

Definition is_fetch (n : node) (e : event) : bool :=
  match e with SFB m => Nat.eqb m n | _ => false end.
Definition is_push (n : node) (e : event) : bool :=
  match e with PuB m _ => Nat.eqb m n | _ => false end.
(* a callback invocation, whether it returns nil or an error *)
Definition is_cb (k : cbk) (n : node) (e : event) : bool :=
  match e with
  | Cb k' m | CbFail k' m =>
      Nat.eqb m n && match k, k' with
                      | CPre, CPre | CPost, CPost | CSkip, CSkip | CMounted, CMounted
                      | CMountFrom, CMountFrom => true
                      | _, _ => false
                      end
  | _ => false
  end.

Definition fetched_ph (p : phase) : bool :=
  match p with
  | MF1 | MF2 | F1 _ | F2 _ | Pushing _ _ | Closing _ | TagP0 _ | TagP1 _ | PostP | Done | Dead
  | MtF1 | MtF2 | MtC => true
  | _ => false
  end.
Definition pushed_ph (p : phase) : bool :=
  match p with
  | Pushing _ _ | Closing _ | TagP0 _ | TagP1 _ | PostP | Done | Dead
  | MtPre | MtF1 | MtF2 | MtC => true
  | _ => false
  end.
Definition prepast_ph (p : phase) : bool :=
  match p with
  | Rdy _ | F1 _ | F2 _ | Pushing _ _ | Closing _ | TagP0 _ | TagP1 _ | PostP | Done | Dead
  | MtPre | MtF1 | MtF2 | MtC | MountedP => true
  | _ => false
  end.
(* OnMounted is invoked at most once: afterwards the node is done, or (the root of Copy) being tagged *)
Definition mountedpast_ph (p : phase) : bool :=
  match p with
  | TagP0 true | TagP1 true | Rdy true | F1 true | F2 true | Pushing true _ | Closing true | Done | Dead => true
  | _ => false
  end.
(* MountFrom is asked at most once: everything after Waiting *)
Definition mfpast_ph (p : phase) : bool :=
  match p with MtRdy | Mounting => true | p => prepast_ph p end.
Definition postpast_ph (p : phase) : bool :=
  match p with Done | Dead => true | _ => false end.
Definition skippast_ph (p : phase) : bool :=
  match p with TagP0 _ | TagP1 _ | PostP | Done | Dead => true | _ => false end.

(* the set of phases f is closed under the moves of the transition system *)
Definition closed_set (f : phase -> bool) : Prop :=
  forall g c st e st' n, step g c st e = Some st' -> f (ph st n) = true -> f (ph st' n) = true.

Ltac closed_set_tac :=
  intros g c st e st' n H Hf;
  step_inv H; simp_st; auto;
  match goal with |- context [upd _ ?m _ n] => upd_cases n m end; auto;
  repeat match goal with Hp : ph st _ = _ |- _ => try rewrite Hp in Hf; clear Hp end;
  simpl in Hf; try discriminate Hf;
  repeat match type of Hf with context [if ?x then _ else _] => destruct x end;
  try discriminate Hf;
  unfold after_push, after_tag;
  repeat match goal with |- context [if ?x then _ else _] => destruct x end;
  reflexivity.

Lemma pushed_closed : closed_set pushed_ph.
Proof. closed_set_tac. Qed.
Lemma prepast_closed : closed_set prepast_ph.
Proof. closed_set_tac. Qed.
Lemma postpast_closed : closed_set postpast_ph.
Proof. closed_set_tac. Qed.
Lemma skippast_closed : closed_set skippast_ph.
Proof. closed_set_tac. Qed.
Lemma mfpast_closed : closed_set mfpast_ph.
Proof. closed_set_tac. Qed.
Lemma mountedpast_closed : closed_set mountedpast_ph.
Proof. closed_set_tac. Qed.

(* an event on node n moves n from outside the set into it *)
Ltac enters_tac :=
  let sX := fresh "sX" in let eX := fresh "eX" in let sY := fresh "sY" in
  let H := fresh "HX" in let Hp := fresh "HpX" in
  intros sX eX sY H Hp;
  step_inv H; simp_st; simpl in Hp; try discriminate Hp;
  repeat match goal with Hx : (_ && _) = true |- _ => apply andb_true_iff in Hx; destruct Hx end;
  repeat match goal with Hx : Nat.eqb _ _ = true |- _ => apply Nat.eqb_eq in Hx; subst end;
  try discriminate;
  rewrite ?upd_same; unfold after_push, after_tag;
  repeat match goal with |- context [if ?x then _ else _] => destruct x end;
  try reflexivity.
Ltac blocks_tac :=
  let sX := fresh "sX" in let eX := fresh "eX" in let sY := fresh "sY" in
  let H := fresh "HX" in let Hp := fresh "HpX" in let Hd := fresh "HdX" in
  intros sX eX sY H Hp Hd;
  step_inv H; simp_st; simpl in Hp; try discriminate Hp;
  repeat match goal with Hx : (_ && _) = true |- _ => apply andb_true_iff in Hx; destruct Hx end;
  repeat match goal with Hx : Nat.eqb _ _ = true |- _ => apply Nat.eqb_eq in Hx; subst end;
  try discriminate;
  repeat match goal with Hq : ph _ _ = _ |- _ => try rewrite Hq in Hd; clear Hq end;
  simpl in Hd; try discriminate Hd.

Section Once.
Variable g : graph.
Variable c : cfg.

Lemma push_once n tr st st' : run g c st tr = Some st' -> cnt (is_push n) tr <= 1.
Proof.
  intro H.
  refine (proj1 (one_shot g c (is_push n) (fun s => pushed_ph (ph s n) = true) _ _ _ tr st st' H)).
  - intros s e s' Hs Hd. eapply pushed_closed; eauto.
  - enters_tac.
  - blocks_tac.
Qed.

Lemma cb_once k n tr st st' :
  run g c st tr = Some st' -> cnt (is_cb k n) tr <= 1.
Proof.
  intros H. destruct k.
  - refine (proj1 (one_shot g c (is_cb CPre n) (fun s => prepast_ph (ph s n) = true) _ _ _ tr st st' H)).
    + intros s e s' Hs Hd. eapply prepast_closed; eauto.
    + enters_tac.
    + blocks_tac.
  - refine (proj1 (one_shot g c (is_cb CPost n) (fun s => postpast_ph (ph s n) = true) _ _ _ tr st st' H)).
    + intros s e s' Hs Hd. eapply postpast_closed; eauto.
    + enters_tac.
    + blocks_tac.
  - refine (proj1 (one_shot g c (is_cb CSkip n) (fun s => skippast_ph (ph s n) = true) _ _ _ tr st st' H)).
    + intros s e s' Hs Hd. eapply skippast_closed; eauto.
    + enters_tac.
    + blocks_tac.
  - refine (proj1 (one_shot g c (is_cb CMounted n) (fun s => mountedpast_ph (ph s n) = true) _ _ _ tr st st' H)).
    + intros s e s' Hs Hd. eapply mountedpast_closed; eauto.
    + enters_tac.
    + blocks_tac.
  - refine (proj1 (one_shot g c (is_cb CMountFrom n) (fun s => mfpast_ph (ph s n) = true) _ _ _ tr st st' H)).
    + intros s e s' Hs Hd. eapply mfpast_closed; eauto.
    + enters_tac.
    + blocks_tac.
Qed.

(* source fetch: disabled for ever once the node is cached or past its fetch *)
Definition nofetch (n : node) (s : state) : Prop :=
  memb n (cached s) = true \/ fetched_ph (ph s n) = true.

Lemma fetch_once n tr st st' : run g c st tr = Some st' -> cnt (is_fetch n) tr <= 1.
Proof.
  intro H.
  refine (proj1 (one_shot g c (is_fetch n) (nofetch n) _ _ _ tr st st' H)).
  - intros s e s' Hs [Hd|Hd].
    + left. step_inv Hs; simp_st; auto. simpl. rewrite Hd. apply orb_true_r.
    + unfold nofetch; step_inv Hs; simp_st; auto;
      match goal with |- context [upd _ ?m _ n] => upd_cases n m end; auto;
      try (left; simpl; rewrite Nat.eqb_refl; reflexivity);
      right;
      repeat match goal with Hp : ph s _ = _ |- _ => try rewrite Hp in Hd; clear Hp end;
      simpl in Hd; try discriminate Hd;
      unfold after_push, after_tag;
      repeat match goal with |- context [if ?x then _ else _] => destruct x end;
      reflexivity.
  - intros s e s' Hs Hp. right. revert s e s' Hs Hp. enters_tac.
  - intros s e s' Hs Hp [Hd|Hd].
    + step_inv Hs; simp_st; simpl in Hp; try discriminate Hp;
      apply Nat.eqb_eq in Hp; subst; congruence.
    + revert Hd. revert s e s' Hs Hp. blocks_tac.
Qed.
End Once.

(* ------------------------------------------------------------------ callback order *)

Ltac split_ifs_in Hm :=
  unfold after_push, after_tag in Hm;
  repeat match type of Hm with
  | context [if ?x then _ else _] => destruct x eqn:?Hi
  end.

Section Order.
Variable g : graph.
Variable c : cfg.
Variable d0 : list node.

(* terminal notification of a node: PostCopy, OnCopySkipped or OnMounted was invoked (and returned nil) *)
Definition notified (x : node) (tr : list event) : Prop :=
  In (Cb CPost x) tr \/ In (Cb CSkip x) tr \/ In (Cb CMounted x) tr.

Definition NInv (hist : list event) (st : state) : Prop :=
  (forall x, ph st x = Done -> notified x hist \/ root_refpush c x = true) /\
  (forall x, ph st x = TagP0 true \/ ph st x = TagP1 true ->
             In (Cb CSkip x) hist \/ In (Cb CMounted x) hist).

Lemma notified_app x h e : notified x h -> notified x (h ++ [e]).
Proof. intros [H|[H|H]]; [left|right;left|right;right]; apply in_or_app; auto. Qed.

Lemma ninv_step hist st e st' : Inv g c d0 st -> NInv hist st -> step g c st e = Some st' ->
  NInv (hist ++ [e]) st'.
Proof.
  intros I [N1 N2] H. split.
  - intros x Hx.
    assert (Old : ph st x = Done -> notified x (hist ++ [e]) \/ root_refpush c x = true).
    { intro Hd. destruct (N1 x Hd); auto using notified_app. }
    step_inv H; simp_st; try (now apply Old);
    (upd_cases x n; [| now apply Old]);
    split_ifs_in Hx; try discriminate Hx;
    first [ left; left; apply in_or_app; right; left; reflexivity
          | left; right; left; apply in_or_app; right; left; reflexivity
          | left; right; right; apply in_or_app; right; left; reflexivity
          | destruct (N2 n) as [N3|N3]; [solve [auto] | |];
            [left; right; left | left; right; right]; apply in_or_app; left; exact N3
          | right; apply (i_skflag g c d0 st I); old_ph; reflexivity ].
  - intros x Hx.
    assert (Old : ph st x = TagP0 true \/ ph st x = TagP1 true ->
                  In (Cb CSkip x) (hist ++ [e]) \/ In (Cb CMounted x) (hist ++ [e])).
    { intro Hd. destruct (N2 x Hd); [left|right]; apply in_or_app; left; auto. }
    step_inv H; simp_st; try (now apply Old);
    (upd_cases x n; [| now apply Old]);
    destruct Hx as [Hx|Hx]; split_ifs_in Hx; try discriminate Hx;
    first [ left; apply in_or_app; right; left; reflexivity
          | right; apply in_or_app; right; left; reflexivity
          | injection Hx as ->; apply Old; solve [auto] ].
Qed.

Lemma ninv_run tr : forall hist st st', Inv g c d0 st -> NInv hist st ->
  run g c st tr = Some st' -> NInv (hist ++ tr) st'.
Proof.
  induction tr as [|e tr IH]; simpl; intros hist st st' I N H.
  - injection H as <-. now rewrite app_nil_r.
  - destruct (step g c st e) as [s1|] eqn:E; [|discriminate].
    replace (hist ++ e :: tr) with ((hist ++ [e]) ++ tr) by (rewrite <- app_assoc; reflexivity).
    apply (IH (hist ++ [e]) s1 st');
      [eapply step_preserves_inv; eauto | eapply ninv_step; eauto | exact H].
Qed.

Lemma ninv_init : NInv [] (init c d0).
Proof. split; simpl; intros x H; [discriminate | destruct H; discriminate]. Qed.

Lemma step_cbpost_ph st n st' : step g c st (Cb CPost n) = Some st' -> ph st n = PostP.
Proof.
  unfold step, cb_next. destruct (returned st); [discriminate|].
  destruct (ph st n); try discriminate; auto.
Qed.

Lemma step_cbfail_dead st k n st' : step g c st (CbFail k n) = Some st' -> ph st' n = Dead.
Proof.
  unfold step. destruct (returned st); [discriminate|].
  destruct (cb_next g c st k n); [|discriminate].
  intro H. injection H as <-. simpl. apply upd_same.
Qed.

Lemma postcopy_after_successors tr1 n tr2 st :
  accepts g c d0 (tr1 ++ Cb CPost n :: tr2) = Some st ->
  forall x, In x (succ' g n) -> notified x tr1 \/ root_refpush c x = true.
Proof.
  intros Ha x Hx. unfold accepts in Ha. apply run_app in Ha as [st1 [H1 H2]].
  pose proof (run_inv g c d0 tr1 _ _ (init_inv g c d0) H1) as I1.
  pose proof (ninv_run tr1 [] _ _ (init_inv g c d0) ninv_init H1) as [N1 _].
  simpl in H2. destruct (step g c st1 (Cb CPost n)) as [s2|] eqn:E; [|discriminate].
  apply N1. apply (i_settled g c d0 st1 I1 n); auto.
  rewrite (step_cbpost_ph _ _ _ E). reflexivity.
Qed.

(* ------------------------------------------------------------------ a failing callback aborts *)

Lemma dead_absorbing st e st' x : step g c st e = Some st' -> ph st x = Dead -> ph st' x = Dead.
Proof.
  intros H Hx. step_inv H; simp_st; auto; upd_cases x n; auto; congruence.
Qed.

Lemma dead_run tr : forall st st' x, run g c st tr = Some st' -> ph st x = Dead -> ph st' x = Dead.
Proof.
  induction tr as [|e tr IH]; simpl; intros st st' x H Hx.
  - now injection H as <-.
  - destruct (step g c st e) as [s1|] eqn:E; [|discriminate].
    eapply IH; eauto using dead_absorbing.
Qed.

Lemma callback_error_aborts tr1 k n tr2 st :
  accepts g c d0 (tr1 ++ CbFail k n :: tr2) = Some st -> returned st <> Some true.
Proof.
  intros Ha Hr. pose proof Ha as Hall. unfold accepts in Ha.
  apply run_app in Ha as [st1 [H1 H2]].
  pose proof (run_inv g c d0 tr1 _ _ (init_inv g c d0) H1) as I1.
  simpl in H2. destruct (step g c st1 (CbFail k n)) as [s2|] eqn:E; [|discriminate].
  pose proof (step_preserves_inv g c d0 _ _ _ I1 E) as I2.
  assert (Hd : ph s2 n = Dead) by (eapply step_cbfail_dead; eauto).
  assert (Hn : n < g_n g) by (apply (i_bound g c d0 s2 I2); congruence).
  pose proof (dead_run tr2 _ _ n H2 Hd) as Hd'.
  destruct (run_ret_true g c (tr1 ++ CbFail k n :: tr2) _ _ Hall eq_refl Hr) as [_ Hall'].
  specialize (Hall' n Hn). rewrite Hd' in Hall'. discriminate.
Qed.
End Order.

Lemma eff_K_default dflt : (0 < dflt)%Z -> forall opt, (opt <= 0)%Z -> eff_K dflt opt = Z.to_nat dflt.
Proof. intros _ opt Ho. unfold eff_K. apply Z.leb_le in Ho. now rewrite Ho. Qed.

Lemma eff_K_positive dflt opt : (0 < dflt)%Z -> 1 <= eff_K dflt opt.
Proof.
  intro Hd. unfold eff_K. destruct (opt <=? 0)%Z eqn:E.
  - lia.
  - apply Z.leb_gt in E. lia.
Qed.

Lemma single_transfer_lemma (g : graph) (c : cfg) (d0 : list node) tr st n :
  accepts g c d0 tr = Some st -> cnt (is_fetch n) tr <= 1 /\ cnt (is_push n) tr <= 1.
Proof.
  intro H. split; [exact (fetch_once g c n tr _ _ H) | exact (push_once g c n tr _ _ H)].
Qed.

Lemma callbacks_once_lemma (g : graph) (c : cfg) (d0 : list node) tr st n :
  accepts g c d0 tr = Some st ->
  cnt (is_cb CPre n) tr <= 1 /\ cnt (is_cb CPost n) tr <= 1 /\ cnt (is_cb CSkip n) tr <= 1 /\
  cnt (is_cb CMounted n) tr <= 1 /\ cnt (is_cb CMountFrom n) tr <= 1.
Proof.
  intro H. repeat split; apply (cb_once g c _ n tr _ _ H).
Qed.

(* ------------------------------------------------------------------ exactly once for transferred nodes *)

Definition postok_ph (p : phase) : bool :=
  match p with Closing false | TagP0 false | TagP1 false | PostP | Done | Dead => true | _ => false end.
Definition skipdone_ph (p : phase) : bool :=
  match p with TagP0 true | TagP1 true | Done | Dead => true | _ => false end.

Lemma postok_closed : closed_set postok_ph.
Proof. closed_set_tac. Qed.
Lemma skipdone_closed : closed_set skipdone_ph.
Proof. closed_set_tac. Qed.

Lemma cnt_ge1 p e tr : In e tr -> p e = true -> 1 <= cnt p tr.
Proof.
  intros Hin Hp. unfold cnt. induction tr as [|a tr IH]; simpl in *; [contradiction|].
  destruct Hin as [->|Hin].
  - rewrite Hp. simpl. lia.
  - specialize (IH Hin). destruct (p a); simpl; lia.
Qed.

Lemma cnt_zero p tr : (forall e, In e tr -> p e = false) -> cnt p tr = 0.
Proof.
  intro H. unfold cnt. induction tr as [|a tr IH]; simpl; auto.
  rewrite (H a (or_introl eq_refl)). apply IH. intros e He. apply H. now right.
Qed.

Lemma phase_eq_done (p : phase) : p = Done \/ p <> Done.
Proof. destruct p; auto; right; discriminate. Qed.

(* PreCopy was invoked and the node is on its way to PostCopy *)
Definition prep_ph (p : phase) : bool :=
  match p with
  | Rdy false | F1 false | F2 false | Pushing false _ | Closing false | TagP0 false | TagP1 false | PostP
  | MtPre | MtF1 | MtF2 | MtC => true
  | _ => false
  end.

Lemma prep_not_skipdone p : prep_ph p = true -> skipdone_ph p = true -> False.
Proof. destruct p; simpl; try discriminate; destruct sk; discriminate. Qed.

(* the event by which the content of n is uploaded: a successful Push / PushReference, or
   a Mount that fell back to uploading *)
Definition is_xfer (n : node) (e : event) : Prop :=
  (exists ref, e = PuE n ref POk) \/ e = MtE n MCopied.

Section Exactly.
Variable g : graph.
Variable c : cfg.
Variable d0 : list node.

Definition pushok (n : node) (h : list event) : Prop := exists e, In e h /\ is_xfer n e.
Definition skipped (n : node) (h : list event) : Prop := In (Cb CSkip n) h \/ In (CbFail CSkip n) h.

Record HInv (h : list event) (st : state) : Prop := {
  h_pre : forall n, prep_ph (ph st n) = true -> In (Cb CPre n) h;
  h_ok : forall n, pushok n h -> postok_ph (ph st n) = true;
  h_skip : forall n, skipped n h -> skipdone_ph (ph st n) = true;
  h_okpre : forall n, pushok n h -> In (Cb CPre n) h;
  h_okpost : forall n, pushok n h -> ph st n = Done -> In (Cb CPost n) h;
  h_excl : forall n, pushok n h -> skipped n h -> False
}.

Lemma in_snoc {A} (x e : A) h : In x (h ++ [e]) <-> In x h \/ x = e.
Proof.
  rewrite in_app_iff. simpl. intuition.
Qed.

Lemma pushok_snoc n h e : pushok n (h ++ [e]) <-> pushok n h \/ is_xfer n e.
Proof.
  unfold pushok. split.
  - intros [x [H Hx]]. apply in_snoc in H as [H|H]; [left; eauto | right; now subst].
  - intros [[x [H Hx]]|H]; [exists x | exists e]; split; auto; apply in_snoc; auto.
Qed.

Lemma skipped_snoc n h e : skipped n (h ++ [e]) <-> skipped n h \/ e = Cb CSkip n \/ e = CbFail CSkip n.
Proof.
  unfold skipped. rewrite !in_snoc. intuition congruence.
Qed.

(* the phase of n around the upload of n *)
Lemma step_xfer st e n st' : Inv g c d0 st -> step g c st e = Some st' -> is_xfer n e ->
  prep_ph (ph st n) = true /\ postok_ph (ph st' n) = true /\ ph st' n <> Done.
Proof.
  intros I H [[ref ->]| ->].
  - unfold step in H. destruct (returned st); [discriminate|].
    destruct (negb (eqb ref (root_refpush c n))); [discriminate|].
    destruct (ph st n) eqn:Hp; try discriminate.
    destruct (has g (dst st) n) eqn:Hh; [discriminate|].
    injection H as <-. simpl. rewrite upd_same.
    destruct sk.
    + exfalso. assert (has g (dst st) n = true) by (apply (i_present g c d0 st I); rewrite Hp; reflexivity).
      congruence.
    + split; [reflexivity|]. unfold after_push. destruct rd; simpl; [split; [reflexivity|discriminate]|].
      destruct (root_tagger c n); simpl; split; try reflexivity; discriminate.
  - unfold step in H. destruct (returned st); [discriminate|].
    destruct (ph st n) eqn:Hp; try discriminate.
    destruct (has g (dst st) n) eqn:Hh; [discriminate|].
    injection H as <-. simpl. rewrite upd_same. split; [reflexivity|].
    unfold after_push. destruct (root_tagger c n); simpl; split; try reflexivity; discriminate.
Qed.

Lemma step_skip_cb st n st' : step g c st (Cb CSkip n) = Some st' ->
  ph st n = SkipP /\ skipdone_ph (ph st' n) = true.
Proof.
  unfold step, cb_next. destruct (returned st); [discriminate|].
  destruct (ph st n) eqn:Hp; try discriminate.
  intro H. injection H as <-. simpl. rewrite upd_same. split; auto.
  destruct (root_tagger c n); reflexivity.
Qed.

Lemma step_skip_fail st n st' : step g c st (CbFail CSkip n) = Some st' ->
  ph st n = SkipP /\ skipdone_ph (ph st' n) = true.
Proof.
  unfold step, cb_next. destruct (returned st); [discriminate|].
  destruct (ph st n) eqn:Hp; try discriminate.
  intro H. injection H as <-. simpl. rewrite upd_same. split; auto.
Qed.

(* how a node becomes Done *)
Lemma step_to_done st e st' n : step g c st e = Some st' -> ph st' n = Done -> ph st n <> Done ->
  postok_ph (ph st n) = true -> e = Cb CPost n.
Proof.
  intros H Hd Hn Hp.
  step_inv H; simp_st; try congruence;
  (upd_cases n n0; [| congruence]);
  repeat match goal with Hq : ph st _ = _ |- _ => try rewrite Hq in Hp; clear Hq end;
  simpl in Hp; try discriminate Hp; try reflexivity;
  split_ifs_in Hd; try discriminate Hd; try discriminate Hp.
Qed.

Lemma hinv_step h st e st' : Inv g c d0 st -> HInv h st -> step g c st e = Some st' ->
  HInv (h ++ [e]) st'.
Proof.
  intros I HI H.
  assert (OK : forall n, pushok n (h ++ [e]) -> postok_ph (ph st' n) = true).
  { intros n Hn. apply pushok_snoc in Hn as [Hn|Hn].
    - eapply postok_closed; eauto. now apply (h_ok h st HI).
    - now destruct (step_xfer st e n st' I H Hn) as [_ [Hq _]]. }
  constructor.
  - (* PreCopy seen *)
    intros n Hs. apply in_snoc.
    assert (Old : prep_ph (ph st n) = true -> In (Cb CPre n) h \/ Cb CPre n = e)
      by (intro Hq; left; now apply (h_pre h st HI)).
    step_inv H; simp_st; try (now apply Old);
    (upd_cases n n0; [| now apply Old]);
    unfold after_push, after_tag in Hs;
    repeat match type of Hs with context [if ?x then _ else _] => destruct x eqn:?Hi end;
    simpl in Hs; try discriminate Hs;
    repeat match type of Hs with context [if ?x then _ else _] => destruct x eqn:?Hi end;
    try discriminate Hs;
    first [ right; reflexivity | apply Old; old_ph; reflexivity ].
  - exact OK.
  - (* skipped nodes *)
    intros n Hn. apply skipped_snoc in Hn as [Hn|[->| ->]].
    + eapply skipdone_closed; eauto. now apply (h_skip h st HI).
    + now destruct (step_skip_cb st n st' H).
    + now destruct (step_skip_fail st n st' H).
  - (* uploaded => PreCopy seen *)
    intros n Hn. apply in_snoc. apply pushok_snoc in Hn as [Hn|Hn].
    + left. now apply (h_okpre h st HI).
    + left. destruct (step_xfer st e n st' I H Hn) as [Hq _].
      now apply (h_pre h st HI).
  - (* uploaded and Done => PostCopy seen *)
    intros n Hn Hd. apply in_snoc. apply pushok_snoc in Hn as [Hn|Hn].
    + destruct (phase_eq_done (ph st n)) as [Hq|Hq].
      * left. now apply (h_okpost h st HI).
      * right. symmetry. eapply step_to_done; eauto. now apply (h_ok h st HI).
    + destruct (step_xfer st e n st' I H Hn) as [_ [_ Hq]]. contradiction.
  - (* uploaded and skipped exclude each other *)
    intros n Hp Hs. apply pushok_snoc in Hp as [Hp|Hp]; apply skipped_snoc in Hs as [Hs|Hs].
    + eapply (h_excl h st HI); eauto.
    + pose proof (h_ok h st HI n Hp) as Hq.
      destruct Hs as [->| ->];
        [destruct (step_skip_cb st n st' H) as [Hz _] | destruct (step_skip_fail st n st' H) as [Hz _]];
        rewrite Hz in Hq; discriminate.
    + destruct (step_xfer st e n st' I H Hp) as [Hq _].
      exact (prep_not_skipdone _ Hq (h_skip h st HI n Hs)).
    + destruct Hp as [[ref ->]| ->]; destruct Hs; discriminate.
Qed.
End Exactly.

Section ExactlyRun.
Variable g : graph.
Variable c : cfg.
Variable d0 : list node.

Lemma hinv_run tr : forall h st st', Inv g c d0 st -> HInv h st ->
  run g c st tr = Some st' -> HInv (h ++ tr) st'.
Proof.
  induction tr as [|e tr IH]; simpl; intros h st st' I HI H.
  - injection H as <-. now rewrite app_nil_r.
  - destruct (step g c st e) as [s1|] eqn:E; [|discriminate].
    replace (h ++ e :: tr) with ((h ++ [e]) ++ tr) by (rewrite <- app_assoc; reflexivity).
    apply (IH (h ++ [e]) s1 st');
      [eapply step_preserves_inv; eauto | eapply hinv_step; eauto | exact H].
Qed.

Lemma hinv_init : HInv [] (init c d0).
Proof.
  constructor; simpl; intros; try discriminate;
  try (match goal with Hx : pushok _ [] |- _ => destruct Hx as [? [[] _]] end);
  try (match goal with Hx : skipped _ [] |- _ => destruct Hx as [[]|[]] end).
Qed.

(* a transferred node of a successful copy: exactly one PreCopy, exactly one PostCopy,
   no OnCopySkipped; PreCopy precedes the push and PostCopy follows it (same-node events
   are ordered by the phase sequence Waiting -> Rdy -> Pushing -> ... -> PostP -> Done) *)
Lemma transferred_exactly_once tr st n e :
  accepts g c d0 tr = Some st -> returned st = Some true ->
  In e tr -> is_xfer n e ->
  cnt (is_cb CPre n) tr = 1 /\ cnt (is_cb CPost n) tr = 1 /\ cnt (is_cb CSkip n) tr = 0.
Proof.
  intros Ha Hr Hin Hx. pose proof Ha as Ha'. unfold accepts in Ha.
  pose proof (run_inv g c d0 tr _ _ (init_inv g c d0) Ha) as I.
  pose proof (hinv_run tr [] _ _ (init_inv g c d0) hinv_init Ha) as HI. simpl in HI.
  assert (Hp : pushok n tr) by (exists e; split; assumption).
  destruct (callbacks_once_lemma g c d0 tr st n Ha') as [L1 [L2 [L3 _]]].
  pose proof (h_ok tr st HI n Hp) as Hok.
  assert (Hn : n < g_n g).
  { apply (i_bound g c d0 st I). intro Hz. rewrite Hz in Hok. discriminate. }
  destruct (run_ret_true g c tr _ _ Ha eq_refl Hr) as [_ Hall].
  specialize (Hall n Hn).
  assert (Hd : ph st n = Done).
  { destruct (ph st n); simpl in *; try discriminate; reflexivity. }
  pose proof (h_okpre tr st HI n Hp) as Hpre.
  pose proof (h_okpost tr st HI n Hp Hd) as Hpost.
  assert (G1 : 1 <= cnt (is_cb CPre n) tr)
    by (eapply cnt_ge1; [exact Hpre | simpl; now rewrite Nat.eqb_refl]).
  assert (G2 : 1 <= cnt (is_cb CPost n) tr)
    by (eapply cnt_ge1; [exact Hpost | simpl; now rewrite Nat.eqb_refl]).
  repeat split; try lia.
  apply cnt_zero. intros e0 He.
  destruct (is_cb CSkip n e0) eqn:Ec; auto. exfalso.
  apply (h_excl tr st HI n Hp).
  destruct e0; simpl in Ec; try discriminate;
    apply andb_true_iff in Ec as [E1 E2]; apply Nat.eqb_eq in E1; subst;
    destruct k; try discriminate; [left|right]; exact He.
Qed.
End ExactlyRun.

Section PushOrder.
Variable g : graph.
Variable c : cfg.
Variable d0 : list node.

Definition PInv (h : list event) (st : state) : Prop :=
  forall n, In (Cb CPost n) h -> ph st n = Done.

Lemma step_cbpost_done st n st' : step g c st (Cb CPost n) = Some st' -> ph st' n = Done.
Proof.
  unfold step, cb_next. destruct (returned st); [discriminate|].
  destruct (ph st n); try discriminate.
  intro H. injection H as <-. simpl. apply upd_same.
Qed.

Lemma pinv_run tr : forall h st st', PInv h st -> run g c st tr = Some st' -> PInv (h ++ tr) st'.
Proof.
  induction tr as [|e tr IH]; simpl; intros h st st' P H.
  - injection H as <-. now rewrite app_nil_r.
  - destruct (step g c st e) as [s1|] eqn:E; [|discriminate].
    replace (h ++ e :: tr) with ((h ++ [e]) ++ tr) by (rewrite <- app_assoc; reflexivity).
    apply (IH (h ++ [e]) s1 st'); [|exact H].
    intros n Hn. apply in_app_iff in Hn as [Hn|[Hn|[]]].
    + eapply done_absorbing; eauto.
    + subst e. eapply step_cbpost_done; eauto.
Qed.

(* PreCopy of a node precedes its (successful) push, PostCopy follows it *)
Lemma push_between_callbacks tr1 n e tr2 st :
  is_xfer n e ->
  accepts g c d0 (tr1 ++ e :: tr2) = Some st ->
  In (Cb CPre n) tr1 /\ ~ In (Cb CPost n) tr1.
Proof.
  intros Hx Ha. unfold accepts in Ha. apply run_app in Ha as [st1 [H1 H2]].
  pose proof (run_inv g c d0 tr1 _ _ (init_inv g c d0) H1) as I1.
  pose proof (hinv_run g c d0 tr1 [] _ _ (init_inv g c d0) (hinv_init c d0) H1) as HI. simpl in HI.
  assert (P1 : PInv tr1 st1).
  { apply (pinv_run tr1 [] (init c d0) st1); [intros m []|exact H1]. }
  simpl in H2. destruct (step g c st1 e) as [s2|] eqn:E; [|discriminate].
  destruct (step_xfer g c d0 st1 e n s2 I1 E Hx) as [Hq _].
  split.
  - now apply (h_pre tr1 st1 HI).
  - intro Hc. apply P1 in Hc. rewrite Hc in Hq. discriminate.
Qed.
End PushOrder.

(* ------------------------------------------------------------------ mounted nodes *)

Definition mounted_ph (p : phase) : bool :=
  match p with MountedP => true | p => mountedpast_ph p end.

Lemma mounted_closed : closed_set mounted_ph.
Proof. closed_set_tac. Qed.

(* after OnMounted returned nil *)
Definition aftercb_ph (p : phase) : bool :=
  match p with Dead => false | p => mountedpast_ph p end.

Section Mounted.
Variable g : graph.
Variable c : cfg.
Variable d0 : list node.

Definition MInv (h : list event) (st : state) : Prop :=
  forall n, In (MtE n MMounted) h ->
    mounted_ph (ph st n) = true /\ (aftercb_ph (ph st n) = true -> In (Cb CMounted n) h).

Lemma step_mounted st n st' : step g c st (MtE n MMounted) = Some st' -> ph st' n = MountedP.
Proof.
  unfold step. destruct (returned st); [discriminate|].
  destruct (ph st n); try discriminate.
  destruct (has g (dst st) n); [discriminate|].
  intro H. injection H as <-. simpl. apply upd_same.
Qed.

(* a mounted node gets past OnMounted only by OnMounted *)
Lemma step_aftercb st e st' n : step g c st e = Some st' ->
  mounted_ph (ph st n) = true -> aftercb_ph (ph st' n) = true ->
  aftercb_ph (ph st n) = true \/ e = Cb CMounted n.
Proof.
  intros H Hp Ha.
  step_inv H; simp_st; auto;
  (upd_cases n n0; [| auto]);
  repeat match goal with Hq : ph st _ = _ |- _ => try rewrite Hq in Hp; try rewrite Hq; clear Hq end;
  simpl in Hp; try discriminate Hp; auto;
  repeat match type of Hp with context [if ?x then _ else _] => destruct x end;
  try discriminate Hp; simpl; auto.
Qed.

Lemma minv_step h st e st' : MInv h st -> step g c st e = Some st' -> MInv (h ++ [e]) st'.
Proof.
  intros M H n Hn. apply in_app_iff in Hn as [Hn|[Hn|[]]].
  - destruct (M n Hn) as [M1 M2]. split.
    + eapply mounted_closed; eauto.
    + intro Ha. apply in_app_iff.
      destruct (step_aftercb st e st' n H M1 Ha) as [Hq| ->]; [left; auto | right; left; reflexivity].
  - subst e. rewrite (step_mounted st n st' H). split; [reflexivity|discriminate].
Qed.

Lemma minv_run tr : forall h st st', MInv h st -> run g c st tr = Some st' -> MInv (h ++ tr) st'.
Proof.
  induction tr as [|e tr IH]; simpl; intros h st st' M H.
  - injection H as <-. now rewrite app_nil_r.
  - destruct (step g c st e) as [s1|] eqn:E; [|discriminate].
    replace (h ++ e :: tr) with ((h ++ [e]) ++ tr) by (rewrite <- app_assoc; reflexivity).
    apply (IH (h ++ [e]) s1 st'); [eapply minv_step; eauto | exact H].
Qed.

(* a mounted node of a successful copy triggers exactly one OnMounted *)
Lemma mounted_exactly_once tr st n :
  accepts g c d0 tr = Some st -> returned st = Some true ->
  In (MtE n MMounted) tr -> cnt (is_cb CMounted n) tr = 1.
Proof.
  intros Ha Hr Hin. pose proof Ha as Ha'. unfold accepts in Ha.
  pose proof (run_inv g c d0 tr _ _ (init_inv g c d0) Ha) as I.
  assert (M : MInv tr st).
  { apply (minv_run tr [] (init c d0) st); [intros m []|exact Ha]. }
  destruct (M n Hin) as [M1 M2].
  assert (Hn : n < g_n g).
  { apply (i_bound g c d0 st I). intro Hz. rewrite Hz in M1. discriminate. }
  destruct (run_ret_true g c tr _ _ Ha eq_refl Hr) as [_ Hall].
  specialize (Hall n Hn).
  assert (Hd : ph st n = Done).
  { destruct (ph st n); simpl in *; try discriminate; reflexivity. }
  pose proof (cb_once g c CMounted n tr _ _ Ha) as L.
  assert (G1 : 1 <= cnt (is_cb CMounted n) tr).
  { eapply cnt_ge1; [apply M2; rewrite Hd; reflexivity | simpl; now rewrite Nat.eqb_refl]. }
  lia.
Qed.
End Mounted.

(* ------------------------------------------------------------------ the prologue reads again *)

(* reads of node n from the source in one Copy call: prologue + copyGraph *)
Definition reads_in_call (n : node) (pro : list node) (tr : list event) : nat :=
  count_occ Nat.eq_dec pro n + cnt (is_fetch n) tr.

Definition tr_blobroot : list event :=
  [ExB 0; ExE 0 false; Cb CPre 0; SFB 0; SFE 0; PuB 0 false; PuE 0 false POk; SFC 0;
   TagB 0; TagE 0; Cb CPost 0; Ret true].

(* "no blob is fetched from the source more than once" fails for the whole call: a blob root
   resolved through a ReferenceFetcher is opened in the prologue and fetched again by copyNode *)
Lemma prologue_read_twice_refuted :
  exists g c d0 tr st pro n,
    accepts g c d0 tr = Some st /\ returned st = Some true /\
    pro = prologue_reads true (c_root c) None /\ g_ismf g n = false /\
    reads_in_call n pro tr = 2.
Proof.
  exists g_blob, (mkCfg 3 MTagger 0 false true [] []), [], tr_blobroot. eexists.
  exists [0], 0. split; [vm_compute; reflexivity|]. repeat split.
Qed.

(* within copyGraph the bound is 1, so a call reads a node at most 1 + (its prologue reads) times *)
Lemma reads_in_call_bound g c d0 tr st n pro :
  accepts g c d0 tr = Some st -> reads_in_call n pro tr <= count_occ Nat.eq_dec pro n + 1.
Proof.
  intro H. unfold reads_in_call. pose proof (fetch_once g c n tr _ _ H). lia.
Qed.

(* ------------------------------------------------------------------ the in-flight counters are the trace's *)

Definition is_src_open (e : event) : bool := match e with SFB _ => true | _ => false end.
Definition is_src_close (e : event) : bool := match e with SFC _ => true | _ => false end.
Definition is_dst_open (e : event) : bool :=
  match e with ExB _ | PuB _ _ | TagB _ | MtB _ => true | _ => false end.
Definition is_dst_close (e : event) : bool :=
  match e with ExE _ _ | PuE _ _ _ | TagE _ | MtE _ _ => true | _ => false end.
Definition is_cbfail (e : event) : bool := match e with CbFail _ _ => true | _ => false end.

Definition b2n (b : bool) : nat := if b then 1 else 0.

Lemma count_upd_eq (f : phase -> bool) (phs : node -> phase) n p l : NoDup l -> In n l ->
  length (filter (fun m => f (upd phs n p m)) l) + b2n (f (phs n)) =
  length (filter (fun m => f (phs m)) l) + b2n (f p).
Proof.
  induction l as [|a l IH]; intros ND Hin; [contradiction|].
  inversion ND as [|? ? Hna ND']; subst. simpl.
  destruct (Nat.eq_dec a n) as [->|Hne].
  - rewrite upd_same.
    assert (E : filter (fun m => f (upd phs n p m)) l = filter (fun m => f (phs m)) l).
    { apply filter_ext_in. intros m Hm. rewrite upd_other; auto. intro; subst; contradiction. }
    rewrite E. destruct (f p), (f (phs n)); simpl; rewrite ?Nat.add_0_r, ?Nat.add_1_r; auto.
  - rewrite upd_other by assumption. destruct Hin as [->|Hin]; [contradiction|].
    specialize (IH ND' Hin). destruct (f (phs a)); simpl; unfold node in *; lia.
Qed.

Section Gauges.
Variable g : graph.
Variable c : cfg.
Variable d0 : list node.

Ltac gauge_case f :=
  match goal with
  | |- context [filter (fun m => f (upd ?phs ?n ?p m)) ?l] =>
    let CU := fresh "CU" in
    assert (CU : length (filter (fun m => f (upd phs n p m)) l) + b2n (f (phs n)) =
                 length (filter (fun m => f (phs m)) l) + b2n (f p));
    [apply count_upd_eq; [apply seq_NoDup | apply in_seq; simpl; lia] |]
  end.

Lemma src_gauge_step st e st' : Inv g c d0 st -> step g c st e = Some st' ->
  inflight_src g st' + b2n (is_src_close e) = inflight_src g st + b2n (is_src_open e).
Proof.
  intros I H. pose proof (i_bound g c d0 st I) as IB.
  unfold inflight_src, count.
  step_inv H; simp_st; cbn [b2n is_src_close is_src_open]; unfold node in *; try lia;
  (assert (Hn : n < g_n g) by first [ now apply Nat.ltb_lt | apply IB; old_ph; discriminate ]);
  gauge_case src_ph;
  repeat match goal with Hp : ph st _ = _ |- _ => try rewrite Hp in CU; clear Hp end;
  unfold after_push, after_tag in *;
  repeat match type of CU with context [if ?x then _ else _] => destruct x end;
  simpl in CU; unfold node in *; lia.
Qed.

Lemma dst_gauge_step st e st' : Inv g c d0 st -> step g c st e = Some st' ->
  inflight_dst g st' + b2n (is_dst_close e) <= inflight_dst g st + b2n (is_dst_open e) /\
  (is_cbfail e = false ->
   inflight_dst g st' + b2n (is_dst_close e) = inflight_dst g st + b2n (is_dst_open e)).
Proof.
  intros I H. pose proof (i_bound g c d0 st I) as IB.
  unfold inflight_dst, count.
  step_inv H; simp_st; cbn [b2n is_dst_close is_dst_open is_cbfail]; unfold node in *; try (split; [lia | intros _; lia]);
  (assert (Hn : n < g_n g) by first [ now apply Nat.ltb_lt | apply IB; old_ph; discriminate ]);
  gauge_case dst_ph;
  repeat match goal with Hp : ph st _ = _ |- _ => try rewrite Hp in CU; clear Hp end;
  unfold after_push, after_tag in *;
  repeat match type of CU with context [if ?x then _ else _] => destruct x end;
  simpl in CU; unfold node in *; (split; [lia | intro Hc; try discriminate Hc; lia]).
Qed.

Lemma gauges_run tr : forall st st', Inv g c d0 st -> run g c st tr = Some st' ->
  inflight_src g st' + cnt is_src_close tr = inflight_src g st + cnt is_src_open tr /\
  inflight_dst g st' + cnt is_dst_close tr <= inflight_dst g st + cnt is_dst_open tr /\
  (cnt is_cbfail tr = 0 ->
   inflight_dst g st' + cnt is_dst_close tr = inflight_dst g st + cnt is_dst_open tr).
Proof.
  induction tr as [|e tr IH]; simpl; intros st st' I H.
  - injection H as <-. unfold cnt; simpl. repeat split; lia.
  - destruct (step g c st e) as [s1|] eqn:E; [|discriminate].
    pose proof (step_preserves_inv g c d0 _ _ _ I E) as I1.
    destruct (IH s1 st' I1 H) as [A [B C]].
    pose proof (src_gauge_step st e s1 I E) as S.
    destruct (dst_gauge_step st e s1 I E) as [D1 D2].
    unfold cnt in *. simpl.
    destruct (is_src_close e), (is_src_open e), (is_dst_close e), (is_dst_open e), (is_cbfail e);
      simpl in *; repeat split; try lia;
      intro Z; try discriminate Z; try (specialize (C Z)); try (specialize (D2 eq_refl)); lia.
Qed.

Lemma init_gauges : inflight_src g (init c d0) = 0 /\ inflight_dst g (init c d0) = 0.
Proof.
  unfold inflight_src, inflight_dst, count. simpl. split; induction (seq 0 (g_n g)); simpl; auto.
Qed.

(* the bound, stated on the trace: at every prefix of an accepted trace the number of source reads
   begun and not yet closed is at most K; the same for destination operations (when a callback
   failed inside a Mount, the model stops counting that Mount: only the inequality remains) *)
Lemma inflight_trace_lemma tr1 tr2 st :
  accepts g c d0 (tr1 ++ tr2) = Some st ->
  cnt is_src_open tr1 - cnt is_src_close tr1 <= c_K c /\
  (cnt is_cbfail tr1 = 0 -> cnt is_dst_open tr1 - cnt is_dst_close tr1 <= c_K c).
Proof.
  intro Ha. destruct (inflight_prefix_lemma g c d0 tr1 tr2 st Ha) as [st1 [H1 [B1 B2]]].
  unfold accepts in H1.
  destruct (gauges_run tr1 _ _ (init_inv g c d0) H1) as [A [_ C]].
  destruct init_gauges as [Z1 Z2]. rewrite Z1 in A. rewrite Z2 in C.
  split; [lia|]. intro Z. specialize (C Z). lia.
Qed.
End Gauges.

(* ------------------------------------------------------------------ PreCopy precedes the BEGIN of the push; mounted nodes *)

Section PreBeforePush.
Variable g : graph.
Variable c : cfg.
Variable d0 : list node.

Lemma step_pushbegin_ph st n ref st' : step g c st (PuB n ref) = Some st' ->
  exists sk, ph st n = Rdy sk \/ ph st n = F2 sk.
Proof.
  unfold step. destruct (returned st); [discriminate|].
  destruct (negb (eqb ref (root_refpush c n))); [discriminate|].
  destruct (ph st n) eqn:Hp; try discriminate; eauto.
Qed.

(* a node that is not already in the destination is pushed only after its PreCopy (the push without
   PreCopy is the re-push with the reference of an already-present / mounted ReferencePusher root) *)
Lemma pre_before_push_begin tr1 n ref tr2 st :
  accepts g c d0 (tr1 ++ PuB n ref :: tr2) = Some st ->
  exists st1, accepts g c d0 tr1 = Some st1 /\
              (has g (dst st1) n = false -> In (Cb CPre n) tr1).
Proof.
  intro Ha. unfold accepts in Ha. apply run_app in Ha as [st1 [H1 H2]].
  exists st1. split; [exact H1|]. intro Hh.
  pose proof (run_inv g c d0 tr1 _ _ (init_inv g c d0) H1) as I1.
  pose proof (hinv_run g c d0 tr1 [] _ _ (init_inv g c d0) (hinv_init c d0) H1) as HI. simpl in HI.
  simpl in H2. destruct (step g c st1 (PuB n ref)) as [s2|] eqn:E; [|discriminate].
  destruct (step_pushbegin_ph st1 n ref s2 E) as [sk [Hp|Hp]]; destruct sk.
  - assert (has g (dst st1) n = true) by (apply (i_present g c d0 st1 I1); rewrite Hp; reflexivity). congruence.
  - apply (h_pre tr1 st1 HI). rewrite Hp. reflexivity.
  - assert (has g (dst st1) n = true) by (apply (i_present g c d0 st1 I1); rewrite Hp; reflexivity). congruence.
  - apply (h_pre tr1 st1 HI). rewrite Hp. reflexivity.
Qed.

(* PreCopy seen => the node is past the phases from which it could be mounted *)
Definition PreInv (h : list event) (st : state) : Prop :=
  forall n, In (Cb CPre n) h -> prepast_ph (ph st n) = true.

Lemma step_cbpre_prepast st n st' : step g c st (Cb CPre n) = Some st' -> prepast_ph (ph st' n) = true.
Proof.
  unfold step, cb_next. destruct (returned st); [discriminate|].
  destruct (ph st n); try discriminate;
  repeat match goal with |- context [if ?x then _ else _] => destruct x end; try discriminate;
  intro H; injection H as <-; simpl; rewrite upd_same; reflexivity.
Qed.

Lemma preinv_run tr : forall h st st', PreInv h st -> run g c st tr = Some st' -> PreInv (h ++ tr) st'.
Proof.
  induction tr as [|e tr IH]; simpl; intros h st st' P H.
  - injection H as <-. now rewrite app_nil_r.
  - destruct (step g c st e) as [s1|] eqn:E; [|discriminate].
    replace (h ++ e :: tr) with ((h ++ [e]) ++ tr) by (rewrite <- app_assoc; reflexivity).
    apply (IH (h ++ [e]) s1 st'); [|exact H].
    intros n Hn. apply in_app_iff in Hn as [Hn|[Hn|[]]].
    + eapply prepast_closed; eauto.
    + subst e. eapply step_cbpre_prepast; eauto.
Qed.

Lemma step_mounted_from st n st' : step g c st (MtE n MMounted) = Some st' -> ph st n = Mounting.
Proof.
  unfold step. destruct (returned st); [discriminate|].
  destruct (ph st n); try discriminate; auto.
Qed.

Lemma step_cbpre_from st n st' : step g c st (Cb CPre n) = Some st' -> mounted_ph (ph st n) = false.
Proof.
  unfold step, cb_next. destruct (returned st); [discriminate|].
  destruct (ph st n); try discriminate; auto.
Qed.

Lemma step_cbpost_from st n st' : step g c st (Cb CPost n) = Some st' -> mounted_ph (ph st n) = false.
Proof.
  unfold step, cb_next. destruct (returned st); [discriminate|].
  destruct (ph st n); try discriminate; auto.
Qed.

(* a mounted node has no PreCopy and no PostCopy: neither before Mount reported "mounted" ... *)
Lemma mounted_no_pre_post_before tr1 n tr2 st :
  accepts g c d0 (tr1 ++ MtE n MMounted :: tr2) = Some st ->
  ~ In (Cb CPre n) tr1 /\ ~ In (Cb CPost n) tr1.
Proof.
  intro Ha. unfold accepts in Ha. apply run_app in Ha as [st1 [H1 H2]].
  simpl in H2. destruct (step g c st1 (MtE n MMounted)) as [s2|] eqn:E; [|discriminate].
  pose proof (step_mounted_from st1 n s2 E) as Hp.
  split; intro Hc.
  - assert (P : PreInv tr1 st1) by (apply (preinv_run tr1 [] (init c d0) st1); [intros m []|exact H1]).
    specialize (P n Hc). rewrite Hp in P. discriminate.
  - assert (P : PInv tr1 st1) by (apply (pinv_run g c tr1 [] (init c d0) st1); [intros m []|exact H1]).
    specialize (P n Hc). rewrite Hp in P. discriminate.
Qed.

(* ... nor after *)
Lemma no_pre_post_after_mounted tr : forall st st' n,
  mounted_ph (ph st n) = true -> run g c st tr = Some st' ->
  ~ In (Cb CPre n) tr /\ ~ In (Cb CPost n) tr.
Proof.
  induction tr as [|e tr IH]; simpl; intros st st' n Hm H; [tauto|].
  destruct (step g c st e) as [s1|] eqn:E; [|discriminate].
  assert (Hm1 : mounted_ph (ph s1 n) = true) by (eapply mounted_closed; eauto).
  destruct (IH s1 st' n Hm1 H) as [A B].
  split; intros [Hc|Hc]; try tauto; subst e.
  - rewrite (step_cbpre_from st n s1 E) in Hm. discriminate.
  - rewrite (step_cbpost_from st n s1 E) in Hm. discriminate.
Qed.

Lemma mounted_no_pre_post tr st n :
  accepts g c d0 tr = Some st -> In (MtE n MMounted) tr ->
  ~ In (Cb CPre n) tr /\ ~ In (Cb CPost n) tr.
Proof.
  intros Ha Hin. apply in_split in Hin as [tr1 [tr2 ->]].
  destruct (mounted_no_pre_post_before tr1 n tr2 st Ha) as [B1 B2].
  unfold accepts in Ha. apply run_app in Ha as [st1 [H1 H2]].
  simpl in H2. destruct (step g c st1 (MtE n MMounted)) as [s2|] eqn:E; [|discriminate].
  assert (Hm : mounted_ph (ph s2 n) = true) by (rewrite (step_mounted g c st1 n s2 E); reflexivity).
  destruct (no_pre_post_after_mounted tr2 s2 st n Hm H2) as [A1 A2].
  assert (N1 : ~ In (Cb CPre n) (tr1 ++ MtE n MMounted :: tr2)).
  { intro Hc. apply in_app_iff in Hc as [Hc|[Hc|Hc]]; [tauto|discriminate|tauto]. }
  assert (N2 : ~ In (Cb CPost n) (tr1 ++ MtE n MMounted :: tr2)).
  { intro Hc. apply in_app_iff in Hc as [Hc|[Hc|Hc]]; [tauto|discriminate|tauto]. }
  split; assumption.
Qed.
End PreBeforePush.
