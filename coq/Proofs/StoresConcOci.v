(* C06 -- quiescent serialisability of the OCI layout store (content map, names, graph). *)
From Oras Require Import Base.Prelude Model.Stores Model.StoresConc Model.StoresConcOci
     Proofs.Stores Proofs.StoresConc.
From Coq Require Import Permutation.

Local Arguments res_tag : simpl never.
Local Arguments res_untag : simpl never.
Local Arguments oci_tag : simpl never.
Local Arguments oci_untag_equal : simpl never.
Local Arguments untag_fold : simpl never.
Local Arguments spec_oci_tag : simpl never.
Local Arguments g_index : simpl never.
Local Arguments g_remove : simpl never.
Local Arguments gkey_eqb : simpl never.
Local Arguments verify : simpl never.
Local Arguments is_manifest : simpl never.

(* ---------- the view: content map + names ---------- *)
Definition names_of (t : list (ref * desc)) : N -> option desc := fun n => get ref_eqb (RName n) t.

Definition vblobs (blobs : list (N * blob)) (o : op) : list (N * blob) :=
  match o with
  | Push d c => match get N.eqb (d_dig d) blobs with
                | Some _ => blobs
                | None => if verify d c then put N.eqb (d_dig d) c blobs else blobs
                end
  | Delete d => match get N.eqb (d_dig d) blobs with
                | Some _ => del N.eqb (d_dig d) blobs
                | None => blobs
                end
  | _ => blobs
  end.

Definition vnames (blobs : list (N * blob)) (nm : N -> option desc) (o : op) : N -> option desc :=
  fun n =>
    match o with
    | Tag d (RName m) => if is_some (get N.eqb (d_dig d) blobs) && (m =? n) then Some d else nm n
    | Untag (RName m) => if m =? n then None else nm n
    | Delete d => match nm n with
                  | Some d' => if eq_target d' (gk d) then None else Some d'
                  | None => None
                  end
    | _ => nm n
    end.

Lemma vnames_ext blobs nm1 nm2 o n : (forall m, nm1 m = nm2 m) -> vnames blobs nm1 o n = vnames blobs nm2 o n.
Proof.
  intro H. unfold vnames. destruct o; auto.
  - destruct r; auto. now rewrite H.
  - destruct r; auto. now rewrite H.
  - now rewrite H.
Qed.

Lemma names_put_dig g d t n : names_of (put ref_eqb (RDig g) d t) n = names_of t n.
Proof. unfold names_of. apply (get_put_neq ref_eqb ref_eqb_spec). discriminate. Qed.

Lemma names_put_name m d t n :
  names_of (put ref_eqb (RName m) d t) n = if m =? n then Some d else names_of t n.
Proof.
  unfold names_of. destruct (m =? n) eqn:E.
  - apply N.eqb_eq in E. subst. apply (get_put_eq ref_eqb ref_eqb_spec).
  - apply (get_put_neq ref_eqb ref_eqb_spec). intro H. injection H as ->. rewrite N.eqb_refl in E. discriminate.
Qed.

Lemma names_del_dig g (t : list (ref * desc)) n : names_of (del ref_eqb (RDig g) t) n = names_of t n.
Proof. unfold names_of. apply (get_del_neq ref_eqb ref_eqb_spec). discriminate. Qed.

Lemma names_del_name m (t : list (ref * desc)) n :
  names_of (del ref_eqb (RName m) t) n = if m =? n then None else names_of t n.
Proof.
  unfold names_of. destruct (m =? n) eqn:E.
  - apply N.eqb_eq in E. subst. apply (get_del_eq ref_eqb).
  - apply (get_del_neq ref_eqb ref_eqb_spec). intro H. injection H as ->. rewrite N.eqb_refl in E. discriminate.
Qed.

Lemma names_spec_oci_tag d r t n :
  names_of (spec_oci_tag d r t) n =
  match r with RName m => if m =? n then Some d else names_of t n | _ => names_of t n end.
Proof.
  unfold spec_oci_tag. destruct r as [m|g|]; simpl.
  - rewrite names_put_name. destruct (m =? n); auto. apply names_put_dig.
  - destruct (g =? d_dig d).
    + apply names_put_dig.
    + rewrite names_put_dig. apply names_put_dig.
  - unfold names_of. rewrite (get_put_neq ref_eqb ref_eqb_spec) by discriminate. apply names_put_dig.
Qed.

Lemma names_untag_fold k t n :
  NoDup (map fst t) ->
  names_of (untag_fold k t t) n =
  match names_of t n with Some d' => if eq_target d' k then None else Some d' | None => None end.
Proof.
  intro Hnd. unfold names_of. rewrite (untag_fold_order_free k t t (RName n) Hnd) by tauto.
  unfold spec_untag_equal. rewrite get_filter_nodup by exact Hnd. simpl.
  destruct (get ref_eqb (RName n) t) as [d'|]; auto. now destruct (eq_target d' k).
Qed.

(* the sequential step acts on the view as [vblobs] / [vnames] *)
Lemma oci_step_view st o :
  NoDup (map fst (r_index (o_res st))) ->
  o_blobs (fst (oci_step st o)) = vblobs (o_blobs st) o /\
  forall n, names_of (r_index (o_res (fst (oci_step st o)))) n =
            vnames (o_blobs st) (names_of (r_index (o_res st))) o n.
Proof.
  intro Hnd. destruct o; simpl.
  - destruct (get N.eqb (d_dig d) (o_blobs st)); [split; auto|].
    destruct (verify d c); [|split; auto]. cbn [fst o_blobs o_res]. split; auto. intro n.
    destruct (is_manifest (d_mt d)); auto. rewrite r_index_oci_tag. now rewrite names_spec_oci_tag.
  - destruct (get N.eqb (d_dig d) (o_blobs st)); split; auto.
  - split; auto.
  - destruct r as [m|g|]; cbn [foreign_digest_ref]; try (split; auto; fail).
    + destruct (is_some (get N.eqb (d_dig d) (o_blobs st))); [|split; auto].
      cbn [fst o_blobs o_res andb]. split; auto. intro n.
      change (names_of (r_index (oci_tag d (RName m) (o_res st))) n = (if m =? n then Some d else names_of (r_index (o_res st)) n)).
      rewrite r_index_oci_tag. now rewrite names_spec_oci_tag.
    + destruct (negb (g =? d_dig d)); [split; auto|].
      destruct (is_some (get N.eqb (d_dig d) (o_blobs st))); [|split; auto].
      cbn [fst o_blobs o_res]. split; auto. intro n.
      change (names_of (r_index (oci_tag d (RDig g) (o_res st))) n = names_of (r_index (o_res st)) n).
      rewrite r_index_oci_tag. now rewrite names_spec_oci_tag.
  - destruct r as [m|g|]; try (split; auto; fail).
    + destruct (get ref_eqb (RName m) (r_index (o_res st))); split; auto.
    + destruct (get ref_eqb (RDig g) (r_index (o_res st))); [split; auto|].
      destruct (get N.eqb g (o_blobs st)); split; auto.
  - split; auto.
  - destruct r as [m|g|]; try (split; auto; fail).
    + destruct (get ref_eqb (RName m) (r_index (o_res st))) as [d0|] eqn:E.
      * cbn [ref_eqb fst o_blobs o_res]. split; auto. intro n.
        change (names_of (r_index (res_untag (RName m) (o_res st))) n = (if m =? n then None else names_of (r_index (o_res st)) n)).
        rewrite r_index_untag. apply names_del_name.
      * split; auto. intro n. cbn [fst]. destruct (m =? n) eqn:En; auto.
        apply N.eqb_eq in En. subst. exact E.
    + destruct (get ref_eqb (RDig g) (r_index (o_res st))) as [d0|]; [|split; auto].
      destruct (ref_eqb (RDig g) (RDig (d_dig d0))); [split; auto|].
      cbn [fst o_blobs o_res]. split; auto. intro n.
      change (names_of (r_index (res_untag (RDig g) (o_res st))) n = names_of (r_index (o_res st)) n).
      rewrite r_index_untag. apply names_del_dig.
  - destruct (get N.eqb (d_dig d) (o_blobs st)); cbn [fst o_blobs o_res]; (split; auto);
      intro n; rewrite r_index_untag_equal; now apply names_untag_fold.
  - split; auto.
Qed.

Lemma put_same {K V} (eqb : K -> K -> bool) (Hs : forall a c, eqb a c = true <-> a = c) k (v : V) m :
  get eqb k m = Some v -> put eqb k v m = m.
Proof.
  induction m as [|[k' v'] m IH]; simpl; [discriminate|].
  destruct (eqb k k') eqn:E.
  - apply Hs in E. subst. intro H. injection H as ->. reflexivity.
  - intro H. now rewrite IH.
Qed.

Section OciConc.
  Variable U : N -> gkey.
  Hypothesis U_dig : forall g, k_dig (U g) = g.
  (* collision freedom: the bytes a digest stands for *)
  Variable B : N -> blob.

  Definition wf_op (o : op) : Prop :=
    canon_op_all U o /\ match o with Push d c => verify d c = true -> c = B (d_dig d) | _ => True end.

  Definition oremaining (t : othread) : list op :=
    match ot_pc t with
    | OPush2 d c => [Push d c]
    | OTagIx d r | OTag2 d r | OTag3 d r => [Tag d r]
    | OUntag2 r => [Untag r]
    | _ => []
    end ++ ot_ops t.

  Definition S_ixo (blobs : list (N * blob)) (J : list gkey) : gkey -> option (list gkey) :=
    fun k => if mem gkey_eqb k J then S_oci U blobs k else None.

  Definition present (s : oci_store) (g : N) : Prop := get N.eqb g (o_blobs s) <> None.

  Definition othread_ok (s : oci_store) (t : othread) : Prop :=
    match ot_pc t with
    | OPush2 d c => verify d c = true /\ canon_desc U d /\ c = B (d_dig d)
    | OPush3 d => canon_desc U d /\ present s (d_dig d)
    | OTagIx d r => canon_desc U d /\ present s (d_dig d)
    | OTag2 d r | OTag3 d r => present s (d_dig d)
    | _ => True
    end.

  Definition seq_ostate (L : list op) : oci_store := fst (run oci_step oci_init L).

  Lemma seq_ostate_snoc L o : seq_ostate (L ++ [o]) = fst (oci_step (seq_ostate L) o).
  Proof. unfold seq_ostate. rewrite run_app. cbn [fst]. rewrite run_cons. reflexivity. Qed.

  Lemma seq_ostate_nodup L : NoDup (map fst (r_index (o_res (seq_ostate L)))).
  Proof. apply oci_run_index_nodup. constructor. Qed.

  Record oinv (progs : list (list op)) (cf : oconf) : Prop := mkOInv {
    oi_perm : Permutation (map snd (oc_log cf) ++ flat_map oremaining (oc_threads cf)) (concat progs);
    oi_order : forall i, log_of i (oc_log cf) ++
                         match nth_error (oc_threads cf) i with Some t => oremaining t | None => [] end
                         = nth i progs [];
    oi_blobs : o_blobs (oc_store cf) = o_blobs (seq_ostate (map snd (oc_log cf)));
    oi_names : forall n, names_of (r_index (o_res (oc_store cf))) n =
                         names_of (r_index (o_res (seq_ostate (map snd (oc_log cf))))) n;
    oi_nodup : NoDup (map fst (r_index (o_res (oc_store cf))));
    oi_B : forall g c, get N.eqb g (o_blobs (oc_store cf)) = Some c -> c = B g;
    oi_threads : Forall (othread_ok (oc_store cf)) (oc_threads cf);
    oi_graph : graph_inv (S_ixo (o_blobs (oc_store cf)) (oc_indexed cf)) (o_graph (oc_store cf));
    oi_indexed : forall g, present (oc_store cf) g ->
                           In (U g) (oc_indexed cf) \/
                           exists t d, In t (oc_threads cf) /\ ot_pc t = OPush3 d /\ d_dig d = g;
    oi_ix_sub : forall k, In k (oc_indexed cf) -> k = U (k_dig k) /\ present (oc_store cf) (k_dig k) }.

  Lemma flat_map_oremaining_init progs :
    flat_map oremaining (map (fun p => mkOT OIdle p) progs) = concat progs.
  Proof. induction progs as [|p ps IH]; simpl; auto. unfold oremaining at 1. simpl. now rewrite IH. Qed.

  Lemma oinv_init progs : oinv progs (oconf_init progs).
  Proof.
    constructor; simpl.
    - rewrite flat_map_oremaining_init. apply Permutation_refl.
    - intro i. unfold log_of. simpl. rewrite nth_error_map.
      destruct (nth_error progs i) as [p|] eqn:E; simpl.
      + unfold oremaining. simpl. symmetry. now apply nth_error_nth.
      + symmetry. apply nth_overflow. now apply nth_error_None.
    - reflexivity.
    - reflexivity.
    - constructor.
    - intros; discriminate.
    - apply Forall_forall. intros t Ht. apply in_map_iff in Ht as (p & <- & _). exact I.
    - eapply graph_inv_ext; [|exact graph_inv_init]. intro k. reflexivity.
    - intros g H. exfalso. apply H. reflexivity.
    - tauto.
  Qed.

  Lemma ostep_remaining b s t s' t' lg ix un :
    othread_step b s t = Some (s', t', lg, ix, un) -> oremaining t = lg ++ oremaining t'.
  Proof.
    unfold othread_step, oremaining. destruct t as [pc ops]; cbn [ot_pc ot_ops].
    destruct pc as [|d c|d|d|d r|d r|d r|r].
    - destruct ops as [|o rest]; [discriminate|].
      destruct o; try (intro H; injection H as <- <- <- <- <-; reflexivity).
      + destruct (get N.eqb (d_dig d) (o_blobs s)); [intro H; injection H as <- <- <- <- <-; reflexivity|].
        destruct (verify d c); intro H; injection H as <- <- <- <- <-; reflexivity.
      + destruct r; try (intro H; injection H as <- <- <- <- <-; reflexivity);
          (destruct (foreign_digest_ref d _); [intro H; injection H as <- <- <- <- <-; reflexivity|];
           destruct (is_some _); [|intro H; injection H as <- <- <- <- <-; reflexivity];
           destruct (is_manifest (d_mt d)); [intro H; injection H as <- <- <- <- <-; reflexivity|];
           destruct (ref_eqb _ _); intro H; injection H as <- <- <- <- <-; reflexivity).
      + destruct r; try (intro H; injection H as <- <- <- <- <-; reflexivity);
          (destruct (get ref_eqb _ _) as [d0|]; [|intro H; injection H as <- <- <- <- <-; reflexivity];
           destruct (ref_eqb _ _); intro H; injection H as <- <- <- <- <-; reflexivity).
      + destruct b; [|discriminate]. intro H; injection H as <- <- <- <- <-; reflexivity.
    - intro H; injection H as <- <- <- <- <-; reflexivity.
    - destruct (get N.eqb (d_dig d) (o_blobs s)); intro H; injection H as <- <- <- <- <-;
        destruct (is_manifest (d_mt d)); reflexivity.
    - intro H; injection H as <- <- <- <- <-; reflexivity.
    - destruct (get N.eqb (d_dig d) (o_blobs s)); intro H; injection H as <- <- <- <- <-;
        cbn [ot_pc ot_ops]; [destruct (ref_eqb r (RDig (d_dig d))); reflexivity | reflexivity].
    - intro H; injection H as <- <- <- <- <-; reflexivity.
    - intro H; injection H as <- <- <- <- <-; reflexivity.
    - intro H; injection H as <- <- <- <- <-; reflexivity.
  Qed.

  (* what one atomic step does to the view *)
  Lemma ostep_view b s t s' t' lg ix un :
    othread_ok s t -> NoDup (map fst (r_index (o_res s))) ->
    (forall g c, get N.eqb g (o_blobs s) = Some c -> c = B g) ->
    othread_step b s t = Some (s', t', lg, ix, un) ->
    NoDup (map fst (r_index (o_res s'))) /\
    ((lg = [] /\ o_blobs s' = o_blobs s /\
      forall n, names_of (r_index (o_res s')) n = names_of (r_index (o_res s)) n) \/
     (exists o, lg = [o] /\ o_blobs s' = vblobs (o_blobs s) o /\
                forall n, names_of (r_index (o_res s')) n = vnames (o_blobs s) (names_of (r_index (o_res s))) o n)).
  Proof.
    intros Hok Hnd HB. unfold othread_step, othread_ok in *. destruct t as [pc ops]; cbn [ot_pc ot_ops] in *.
    destruct pc as [|d c|d|d|d r|d r|d r|r].
    - destruct ops as [|o rest]; [discriminate|].
      assert (Hdone : o_blobs s = vblobs (o_blobs s) o ->
                      (forall n, names_of (r_index (o_res s)) n = vnames (o_blobs s) (names_of (r_index (o_res s))) o n) ->
                      Some (s, mkOT OIdle rest, [o], @nil gkey, @None gkey) = Some (s', t', lg, ix, un) ->
                      NoDup (map fst (r_index (o_res s'))) /\
                      ((lg = [] /\ o_blobs s' = o_blobs s /\
                        forall n, names_of (r_index (o_res s')) n = names_of (r_index (o_res s)) n) \/
                       (exists o0, lg = [o0] /\ o_blobs s' = vblobs (o_blobs s) o0 /\
                          forall n, names_of (r_index (o_res s')) n =
                                    vnames (o_blobs s) (names_of (r_index (o_res s))) o0 n))).
      { intros H1 H2 H. injection H as <- <- <- <- <-. split; auto. right. exists o. auto. }
      destruct o; try (apply Hdone; [reflexivity | intro; reflexivity]).
      + (* Push *)
        destruct (get N.eqb (d_dig d) (o_blobs s)) eqn:E.
        * apply Hdone; [simpl; now rewrite E | intro; reflexivity].
        * destruct (verify d c) eqn:V.
          -- intro H. injection H as <- <- <- <- <-. split; auto.
          -- apply Hdone; [simpl; now rewrite E, V | intro; reflexivity].
      + (* Tag *)
        destruct r as [m|g|]; cbn [foreign_digest_ref]; try (apply Hdone; [reflexivity | intro; reflexivity]).
        * destruct (is_some (get N.eqb (d_dig d) (o_blobs s))) eqn:E.
          -- destruct (is_manifest (d_mt d)); [|destruct (ref_eqb _ _)]; intro H; injection H as <- <- <- <- <-; split; auto.
          -- apply Hdone; [reflexivity | intro n; simpl; now rewrite E].
        * destruct (negb (g =? d_dig d)); [apply Hdone; [reflexivity | intro; reflexivity]|].
          destruct (is_some (get N.eqb (d_dig d) (o_blobs s))) eqn:E.
          -- destruct (is_manifest (d_mt d)); [|destruct (ref_eqb _ _)]; intro H; injection H as <- <- <- <- <-; split; auto.
          -- apply Hdone; [reflexivity | intro; reflexivity].
      + (* Untag *)
        destruct r as [m|g|]; try (apply Hdone; [reflexivity | intro; reflexivity]).
        * destruct (get ref_eqb (RName m) (r_index (o_res s))) as [d0|] eqn:E.
          -- cbn [ref_eqb]. intro H; injection H as <- <- <- <- <-; split; auto.
          -- apply Hdone; [reflexivity|]. intro n. simpl. destruct (m =? n) eqn:En; auto.
             apply N.eqb_eq in En. subst. exact E.
        * destruct (get ref_eqb (RDig g) (r_index (o_res s))) as [d0|] eqn:E.
          -- destruct (ref_eqb _ _); [apply Hdone; [reflexivity | intro; reflexivity]|].
             intro H; injection H as <- <- <- <- <-; split; auto.
          -- apply Hdone; [reflexivity | intro; reflexivity].
      + (* Delete *)
        destruct b; [|discriminate]. intro H. injection H as <- <- <- <- <-.
        destruct (oci_step_view s (Delete d) Hnd) as [V1 V2]. split.
        * exact (oci_index_nodup s (Delete d) Hnd).
        * right. exists (Delete d). split; [reflexivity|]. split; [exact V1 | exact V2].
    - (* rename *)
      destruct Hok as (V & Hc & ->). intro H. injection H as <- <- <- <- <-. cbn [o_blobs o_res]. split; auto.
      right. exists (Push d (B (d_dig d))). split; auto. split; [|intro; reflexivity].
      simpl. destruct (get N.eqb (d_dig d) (o_blobs s)) as [c0|] eqn:E.
      + rewrite (HB _ _ E) in E. now apply (put_same N.eqb Neqb_spec).
      + now rewrite V.
    - (* graph.index *)
      destruct (get N.eqb (d_dig d) (o_blobs s)); intro H; injection H as <- <- <- <- <-; split; auto.
    - (* tag by digest *)
      intro H. injection H as <- <- <- <- <-. cbn [o_blobs o_res]. rewrite r_index_tag. split.
      + now apply (NoDup_put ref_eqb ref_eqb_spec).
      + left. repeat split; auto. intro n. apply names_put_dig.
    - (* Tag: graph.index of the manifest *)
      destruct (get N.eqb (d_dig d) (o_blobs s)) as [c|] eqn:E; intro H; injection H as <- <- <- <- <-.
      + cbn [o_blobs o_res]. split; auto.
      + split; auto. right. exists (Tag d r). split; auto. split; auto. intro n.
        destruct r as [m|g|]; simpl; auto. now rewrite E.
    - intro H. injection H as <- <- <- <- <-. cbn [o_blobs o_res]. rewrite r_index_tag. split.
      + now apply (NoDup_put ref_eqb ref_eqb_spec).
      + left. repeat split; auto. intro n. apply names_put_dig.
    - (* Tag commit *)
      intro H. injection H as <- <- <- <- <-. cbn [o_blobs o_res]. rewrite r_index_tag. split.
      + now apply (NoDup_put ref_eqb ref_eqb_spec).
      + right. exists (Tag d r). split; auto. split; auto. intro n.
        destruct r as [m|g|]; simpl.
        * rewrite names_put_name.
          unfold present in Hok. destruct (get N.eqb (d_dig d) (o_blobs s)) eqn:E; [reflexivity | congruence].
        * apply names_put_dig.
        * unfold names_of. apply (get_put_neq ref_eqb ref_eqb_spec). discriminate.
    - (* Untag commit *)
      intro H. injection H as <- <- <- <- <-. cbn [o_blobs o_res]. rewrite r_index_untag. split.
      + now apply NoDup_del.
      + right. exists (Untag r). split; auto. split; auto. intro n.
        destruct r as [m|g|]; simpl.
        * apply names_del_name.
        * apply names_del_dig.
        * unfold names_of. apply (get_del_neq ref_eqb ref_eqb_spec). discriminate.
  Qed.

  Lemma othread_ok_blobs s1 s2 t : o_blobs s1 = o_blobs s2 -> othread_ok s1 t -> othread_ok s2 t.
  Proof. unfold othread_ok, present. intros ->. auto. Qed.

  Lemma othread_ok_mono s1 s2 t :
    (forall g, present s1 g -> present s2 g) -> othread_ok s1 t -> othread_ok s2 t.
  Proof.
    unfold othread_ok. intro H. destruct (ot_pc t); auto; intros [A B0]; split; auto.
  Qed.

  (* the four kinds of atomic steps, as far as blobs, graph and the ghost index set go *)
  Lemma ostep_kind b s t s' t' lg ix un :
    othread_ok s t -> (forall o, In o (oremaining t) -> wf_op o) ->
    othread_step b s t = Some (s', t', lg, ix, un) ->
    (o_blobs s' = o_blobs s /\ o_graph s' = o_graph s /\ ix = [] /\ un = None /\ othread_ok s t' /\
     (forall d, ot_pc t <> OPush3 d) /\ (forall d, ot_pc t' <> OPush3 d))
    \/ (exists d c, ot_pc t = OPush2 d c /\ canon_desc U d /\ c = B (d_dig d) /\
                    s' = mkOci (put N.eqb (d_dig d) c (o_blobs s)) (o_res s) (o_graph s) /\
                    ot_pc t' = OPush3 d /\ ix = [] /\ un = None)
    \/ (exists d c, (ot_pc t = OPush3 d \/ exists r, ot_pc t = OTagIx d r) /\ canon_desc U d /\
                    get N.eqb (d_dig d) (o_blobs s) = Some c /\
                    s' = mkOci (o_blobs s) (o_res s) (g_index d (succ_of (gk d) c) (o_graph s)) /\
                    (forall d', ot_pc t' <> OPush3 d') /\ othread_ok s t' /\ ix = [gk d] /\ un = None)
    \/ (exists d, b = true /\ canon_desc U d /\ s' = fst (oci_step s (Delete d)) /\
                  ot_pc t' = OIdle /\ ot_pc t = OIdle /\ ix = [] /\ un = Some (gk d)).
  Proof.
    unfold othread_step. destruct t as [pc ops]; cbn [ot_pc ot_ops].
    destruct pc as [|d c|d|d|d r|d r|d r|r]; intros Hok Hwf.
    - destruct ops as [|o rest]; [discriminate|].
      assert (Hwfo : wf_op o) by (apply Hwf; unfold oremaining; simpl; now left).
      assert (HA : forall pc', (match pc' with OPush3 _ => False | _ => True end) ->
                   othread_ok s (mkOT pc' rest) ->
                   forall lg0, Some (s, mkOT pc' rest, lg0, @nil gkey, @None gkey) = Some (s', t', lg, ix, un) ->
                   o_blobs s' = o_blobs s /\ o_graph s' = o_graph s /\ ix = [] /\ un = None /\ othread_ok s t' /\
                   (forall d, OIdle <> OPush3 d) /\ (forall d, ot_pc t' <> OPush3 d)).
      { intros pc' Hn Hok' lg0 H. injection H as <- <- <- <- <-. cbn [ot_pc]. repeat split; auto; try discriminate.
        intros d0 E. rewrite E in Hn. exact Hn. }
      destruct o; try (intro H; left; eapply (HA OIdle I I); exact H).
      + destruct (get N.eqb (d_dig d) (o_blobs s)); [intro H; left; eapply (HA OIdle I I); exact H|].
        destruct (verify d c) eqn:V; [|intro H; left; eapply (HA OIdle I I); exact H].
        intro H. left. eapply (HA (OPush2 d c) I); [|exact H].
        unfold othread_ok; cbn [ot_pc]. destruct Hwfo as [Hc Hb]. simpl in Hc, Hb. auto.
      + destruct r as [m|g|]; try (intro H; left; eapply (HA OIdle I I); exact H);
          (destruct (foreign_digest_ref d _); [intro H; left; eapply (HA OIdle I I); exact H|];
           destruct (get N.eqb (d_dig d) (o_blobs s)) eqn:E; cbn [is_some];
           [|intro H; left; eapply (HA OIdle I I); exact H];
           destruct (is_manifest (d_mt d));
           [intro H; left; eapply (HA (OTagIx d _) I); try exact H;
            unfold othread_ok, present; cbn [ot_pc]; rewrite E; split; [exact (proj1 Hwfo) | discriminate]|];
           destruct (ref_eqb _ _); intro H; left;
           [eapply (HA (OTag3 d _) I) | eapply (HA (OTag2 d _) I)]; try exact H;
           unfold othread_ok, present; cbn [ot_pc]; rewrite E; discriminate).
      + destruct r as [m|g|]; try (intro H; left; eapply (HA OIdle I I); exact H);
          (destruct (get ref_eqb _ (r_index (o_res s))) as [d0|];
           [|intro H; left; eapply (HA OIdle I I); exact H];
           destruct (ref_eqb _ _); intro H; left;
           [eapply (HA OIdle I I) | eapply (HA (OUntag2 _) I I)]; exact H).
      + destruct b; [|discriminate]. intro H. injection H as <- <- <- <- <-.
        right. right. right. exists d. destruct Hwfo as [Hc _]. simpl in Hc. cbn [ot_pc]. repeat split; auto.
    - destruct Hok as (V & Hc & Hb). intro H. injection H as <- <- <- <- <-.
      right. left. exists d, c. cbn [ot_pc]. repeat split; auto.
    - destruct Hok as (Hc & Hp). unfold present in Hp.
      destruct (get N.eqb (d_dig d) (o_blobs s)) as [c|] eqn:E; [|congruence].
      intro H. injection H as <- <- <- <- <-. right. right. left. exists d, c. cbn [ot_pc].
      repeat split; auto; try (destruct (is_manifest (d_mt d)); discriminate).
      unfold othread_ok. cbn [ot_pc]. destruct (is_manifest (d_mt d)); exact I.
    - intro H. injection H as <- <- <- <- <-. left. cbn [ot_pc o_blobs o_graph]. repeat split; auto; discriminate.
    - (* Tag: index step *)
      destruct Hok as (Hc & Hp). unfold present in Hp.
      destruct (get N.eqb (d_dig d) (o_blobs s)) as [c|] eqn:E; [|congruence].
      intro H. injection H as <- <- <- <- <-. right. right. left. exists d, c. cbn [ot_pc].
      split; [right; eauto|]. repeat split; auto; try (destruct (ref_eqb r (RDig (d_dig d))); discriminate).
      unfold othread_ok, present. cbn [ot_pc]. destruct (ref_eqb r (RDig (d_dig d))); rewrite E; discriminate.
    - intro H. injection H as <- <- <- <- <-. left. cbn [ot_pc o_blobs o_graph]. repeat split; auto; discriminate.
    - intro H. injection H as <- <- <- <- <-. left. cbn [ot_pc o_blobs o_graph]. repeat split; auto; discriminate.
    - intro H. injection H as <- <- <- <- <-. left. cbn [ot_pc o_blobs o_graph]. repeat split; auto; discriminate.
  Qed.

  Lemma others_idle_split l1 t l2 :
    others_idle_at (length l1) (l1 ++ t :: l2) = true ->
    forall x, In x l1 \/ In x l2 -> ot_pc x = OIdle.
  Proof.
    induction l1 as [|y l1 IH]; simpl.
    - intros H x [[]|Hx]. rewrite forallb_forall in H. apply H in Hx.
      unfold othread_idle in Hx. destruct (ot_pc x); auto; discriminate.
    - intro H. apply andb_true_iff in H as [Hy H]. intros x [[<-|Hx]|Hx].
      + unfold othread_idle in Hy. destruct (ot_pc y); auto; discriminate.
      + apply IH; auto.
      + apply IH; auto.
  Qed.

  Lemma flat_map_oremaining_split l1 t l2 :
    flat_map oremaining (l1 ++ t :: l2) = flat_map oremaining l1 ++ oremaining t ++ flat_map oremaining l2.
  Proof. rewrite flat_map_app. reflexivity. Qed.

  Lemma canon_gk d : canon_desc U d -> gk d = U (d_dig d).
  Proof. auto. Qed.

  Lemma canon_key_dig k g : k = U (k_dig k) -> k <> U g -> k_dig k <> g.
  Proof. intros H1 H2 E. apply H2. now rewrite H1, E. Qed.

  Lemma oinv_step progs cf i :
    Forall wf_op (concat progs) -> oinv progs cf -> oinv progs (oconf_step cf i).
  Proof.
    intros Hwfall Hinv. unfold oconf_step.
    destruct (nth_error (oc_threads cf) i) as [t|] eqn:En; [|exact Hinv].
    destruct (othread_step (others_idle_at i (oc_threads cf)) (oc_store cf) t)
      as [[[[[s' t'] lg] ix] un]|] eqn:Es; [|exact Hinv].
    apply nth_error_split in En as (l1 & l2 & Hth & Hlen). subst i.
    destruct cf as [s ths L J]. cbn [oc_store oc_threads oc_log oc_indexed] in *. subst ths.
    rewrite upd_nth_split.
    destruct Hinv as [Hperm Hord Hbl Hnm Hnd HB Hthr Hg Hix Hsub].
    cbn [oc_store oc_threads oc_log oc_indexed] in *.
    assert (Hokt : othread_ok s t).
    { rewrite Forall_forall in Hthr. apply Hthr. apply in_or_app. right. now left. }
    assert (Hothers : forall x, In x l1 \/ In x l2 -> othread_ok s x).
    { intros x Hx. rewrite Forall_forall in Hthr. apply Hthr. apply in_or_app. destruct Hx; [now left|right; now right]. }
    assert (Hwft : forall o, In o (oremaining t) -> wf_op o).
    { intros o Ho. rewrite Forall_forall in Hwfall. apply Hwfall.
      eapply Permutation_in; [exact Hperm|]. apply in_or_app. right.
      rewrite flat_map_oremaining_split. apply in_or_app. right. apply in_or_app. now left. }
    assert (Hord' : forall j, log_of j (L ++ map (pair (length l1)) lg) ++
                               match nth_error (l1 ++ t' :: l2) j with Some t0 => oremaining t0 | None => [] end
                               = nth j progs []).
    { intro j. rewrite log_of_app. destruct (Nat.eq_dec j (length l1)) as [->|Hne].
      - rewrite log_of_pair_same, nth_error_mid. specialize (Hord (length l1)).
        rewrite nth_error_mid, (ostep_remaining _ _ _ _ _ _ _ _ Es) in Hord. now rewrite <- app_assoc.
      - rewrite (log_of_pair_other _ _ _ Hne), app_nil_r.
        rewrite <- (nth_error_mid_other l1 l2 t t' j Hne). apply Hord. }
    assert (Hperm' : Permutation (map snd (L ++ map (pair (length l1)) lg) ++ flat_map oremaining (l1 ++ t' :: l2))
                                 (concat progs)).
    { rewrite map_app, map_snd_pair.
      rewrite flat_map_oremaining_split. rewrite flat_map_oremaining_split in Hperm.
      rewrite (ostep_remaining _ _ _ _ _ _ _ _ Es) in Hperm.
      eapply Permutation_trans; [apply Permutation_sym, perm_move | exact Hperm]. }
    destruct (ostep_view _ _ _ _ _ _ _ _ Hokt Hnd HB Es) as [Hnd' Hview].
    assert (Hrel : o_blobs s' = o_blobs (seq_ostate (map snd (L ++ map (pair (length l1)) lg))) /\
                   forall n, names_of (r_index (o_res s')) n =
                             names_of (r_index (o_res (seq_ostate (map snd (L ++ map (pair (length l1)) lg))))) n).
    { rewrite map_app, map_snd_pair. destruct Hview as [(-> & A & C)|(o & -> & A & C)].
      - rewrite app_nil_r. split; [congruence|]. intro n. now rewrite C.
      - rewrite seq_ostate_snoc.
        destruct (oci_step_view (seq_ostate (map snd L)) o (seq_ostate_nodup _)) as [V1 V2].
        split; [rewrite V1, A; now rewrite Hbl|].
        intro n. rewrite V2, C, <- Hbl. now apply vnames_ext. }
    destruct Hrel as [Hbl' Hnm'].
    destruct (ostep_kind _ _ _ _ _ _ _ _ Hokt Hwft Es) as
        [(Hb & Hgr & -> & -> & Hok' & Hnot3 & Hnot3')
        |[(d & c & Hpc & Hc & -> & -> & Hpc' & -> & ->)
         |[(d & c & Hpc & Hc & Hpres & -> & Hnot3' & Hok' & -> & ->)
          |(d & Hidle & Hc & -> & Hpc' & Hpc & -> & ->)]]];
      constructor; cbn [oc_store oc_threads oc_log oc_indexed o_blobs o_res o_graph app]; auto.
    - (* A: B *) intros g c0. rewrite Hb. apply HB.
    - (* A: threads *)
      apply Forall_forall. intros x Hx. apply in_app_or in Hx as [Hx|[Heq|Hx]].
      + eapply othread_ok_blobs; [symmetry; exact Hb|]. apply Hothers. now left.
      + subst x. eapply othread_ok_blobs; [symmetry; exact Hb | exact Hok'].
      + eapply othread_ok_blobs; [symmetry; exact Hb|]. apply Hothers. now right.
    - (* A: graph *) rewrite Hb, Hgr. exact Hg.
    - (* A: indexed *)
      intros g Hp. unfold present in Hp. rewrite Hb in Hp.
      destruct (Hix g Hp) as [H|(tw & dw & Hin & Hpcw & Hkw)]; [now left|]. right.
      exists tw, dw. split; auto. apply in_app_or in Hin as [Hin|[Heq|Hin]].
      * apply in_or_app. now left.
      * subst tw. exfalso. eapply Hnot3; eauto.
      * apply in_or_app. right. now right.
    - (* A: ix_sub *) intros k Hk. unfold present. rewrite Hb. now apply Hsub.
    - (* B: B *)
      intros g c0. destruct (N.eq_dec g (d_dig d)) as [->|Hne].
      + rewrite (get_put_eq N.eqb Neqb_spec). intro E. now injection E as <-.
      + rewrite (get_put_neq N.eqb Neqb_spec) by exact Hne. apply HB.
    - (* B: threads *)
      assert (Hmono : forall g, present s g ->
                present (mkOci (put N.eqb (d_dig d) (B (d_dig d)) (o_blobs s)) (o_res s) (o_graph s)) g).
      { intros g Hp. unfold present in *. cbn [o_blobs]. destruct (N.eq_dec g (d_dig d)) as [->|Hne].
        - rewrite (get_put_eq N.eqb Neqb_spec). discriminate.
        - now rewrite (get_put_neq N.eqb Neqb_spec). }
      apply Forall_forall. intros x Hx. apply in_app_or in Hx as [Hx|[Heq|Hx]].
      + eapply othread_ok_mono; [exact Hmono|]. apply Hothers. now left.
      + subst x. unfold othread_ok. rewrite Hpc'. split; auto. unfold present. cbn [o_blobs].
        rewrite (get_put_eq N.eqb Neqb_spec). discriminate.
      + eapply othread_ok_mono; [exact Hmono|]. apply Hothers. now right.
    - (* B: graph *)
      eapply graph_inv_ext; [|exact Hg]. intro k. unfold S_ixo.
      destruct (mem gkey_eqb k J) eqn:Em; auto. apply (mem_In gkey_eqb gkey_eqb_spec) in Em.
      destruct (Hsub k Em) as [Hk Hp]. unfold S_oci. destruct (gkey_eqb k (U (k_dig k))); auto.
      destruct (N.eq_dec (k_dig k) (d_dig d)) as [E|Hne].
      + rewrite E. rewrite (get_put_eq N.eqb Neqb_spec). unfold present in Hp. rewrite E in Hp.
        destruct (get N.eqb (d_dig d) (o_blobs s)) as [c0|] eqn:E0; [|congruence].
        now rewrite (HB _ _ E0).
      + now rewrite (get_put_neq N.eqb Neqb_spec).
    - (* B: indexed *)
      intros g Hp. unfold present in Hp. cbn [o_blobs] in Hp. destruct (N.eq_dec g (d_dig d)) as [->|Hne].
      + right. exists t', d. split; [apply in_or_app; right; now left|]. auto.
      + rewrite (get_put_neq N.eqb Neqb_spec) in Hp by exact Hne.
        destruct (Hix g Hp) as [H|(tw & dw & Hin & Hpcw & Hkw)]; [now left|]. right.
        exists tw, dw. split; auto. apply in_app_or in Hin as [Hin|[Heq|Hin]].
        * apply in_or_app. now left.
        * subst tw. congruence.
        * apply in_or_app. right. now right.
    - (* B: ix_sub *)
      intros k Hk. destruct (Hsub k Hk) as [A Hp]. split; auto. unfold present in *. cbn [o_blobs].
      destruct (N.eq_dec (k_dig k) (d_dig d)) as [->|Hne].
      + rewrite (get_put_eq N.eqb Neqb_spec). discriminate.
      + now rewrite (get_put_neq N.eqb Neqb_spec).
    - (* C: threads *)
      apply Forall_forall. intros x Hx. apply in_app_or in Hx as [Hx|[Heq|Hx]].
      + eapply othread_ok_blobs; [|apply Hothers; now left]. reflexivity.
      + subst x. eapply othread_ok_blobs; [|exact Hok']. reflexivity.
      + eapply othread_ok_blobs; [|apply Hothers; now right]. reflexivity.
    - (* C: graph *)
      eapply graph_inv_ext; [|apply g_index_inv'; [exact Hg|]].
      + intro k. unfold upd, S_ixo. cbn [mem existsb].
        destruct (gkey_eqb k (gk d)) eqn:Ek; cbn [orb]; auto.
        apply gkey_eqb_spec in Ek. subst k. unfold S_oci. rewrite k_dig_gk, <- Hc.
        now rewrite (eqb_refl gkey_eqb gkey_eqb_spec), Hpres.
      + unfold S_ixo. destruct (mem gkey_eqb (gk d) J); [right|now left].
        unfold S_oci. rewrite k_dig_gk, <- Hc. now rewrite (eqb_refl gkey_eqb gkey_eqb_spec), Hpres.
    - (* C: indexed *)
      intros g Hp. destruct (Hix g Hp) as [H|(tw & dw & Hin & Hpcw & Hkw)]; [left; now right|].
      apply in_app_or in Hin as [Hin|[Heq|Hin]].
      + right. exists tw, dw. split; auto. apply in_or_app. now left.
      + subst tw. left. left. destruct Hpc as [Hpc|(r0 & Hpc)]; rewrite Hpc in Hpcw; [|discriminate].
        injection Hpcw as <-. subst g. exact Hc.
      + right. exists tw, dw. split; auto. apply in_or_app. right. now right.
    - (* C: ix_sub *)
      intros k [<-|Hk]; [|now apply Hsub]. split; [exact Hc|]. unfold present. cbn [o_blobs]. rewrite k_dig_gk, Hpres. discriminate.
    - (* D: nodup: done by auto *) 
      (* D: B *)
      intros g c0. cbn [oci_step]. destruct (get N.eqb (d_dig d) (o_blobs s)) eqn:E; cbn [fst o_blobs]; [|apply HB].
      destruct (N.eq_dec g (d_dig d)) as [->|Hne].
      + rewrite (get_del_eq N.eqb). discriminate.
      + rewrite (get_del_neq N.eqb Neqb_spec) by exact Hne. apply HB.
    - (* D: threads: everybody is idle *)
      pose proof (others_idle_split l1 t l2 Hidle) as Hall.
      apply Forall_forall. intros x Hx. unfold othread_ok. apply in_app_or in Hx as [Hx|[Heq|Hx]].
      + rewrite (Hall x); auto.
      + subst x. now rewrite Hpc'.
      + rewrite (Hall x); auto.
    - (* D: graph *)
      pose proof (g_remove_inv _ _ d Hg) as Hr.
      assert (Hgr : o_graph (fst (oci_step s (Delete d))) = g_remove d (o_graph s)).
      { cbn [oci_step]. now destruct (get N.eqb (d_dig d) (o_blobs s)). }
      rewrite Hgr. eapply graph_inv_ext; [|exact Hr]. intro k. unfold upd, S_ixo.
      destruct (gkey_eqb k (gk d)) eqn:Ek.
      + apply gkey_eqb_spec in Ek. subst k.
        destruct (mem gkey_eqb (gk d) (set_del gkey_eqb (gk d) J)) eqn:Em; auto.
        apply (mem_In gkey_eqb gkey_eqb_spec) in Em. apply (In_set_del gkey_eqb gkey_eqb_spec) in Em as [_ Em]. congruence.
      + assert (Hkne : k <> gk d) by (intro; subst; rewrite (eqb_refl gkey_eqb gkey_eqb_spec) in Ek; discriminate).
        assert (Hmem : mem gkey_eqb k (set_del gkey_eqb (gk d) J) = mem gkey_eqb k J).
        { destruct (mem gkey_eqb k J) eqn:Em.
          - apply (mem_In gkey_eqb gkey_eqb_spec). apply (In_set_del gkey_eqb gkey_eqb_spec). split; auto.
            now apply (mem_In gkey_eqb gkey_eqb_spec).
          - destruct (mem gkey_eqb k (set_del gkey_eqb (gk d) J)) eqn:Em'; auto.
            apply (mem_In gkey_eqb gkey_eqb_spec) in Em'. apply (In_set_del gkey_eqb gkey_eqb_spec) in Em' as [Em' _].
            apply (mem_In gkey_eqb gkey_eqb_spec) in Em'. congruence. }
        rewrite Hmem. destruct (mem gkey_eqb k J) eqn:Em; auto.
        apply (mem_In gkey_eqb gkey_eqb_spec) in Em. destruct (Hsub k Em) as [Hk _].
        unfold S_oci. destruct (gkey_eqb k (U (k_dig k))); auto.
        cbn [oci_step]. destruct (get N.eqb (d_dig d) (o_blobs s)) eqn:E; cbn [fst o_blobs]; auto.
        rewrite (get_del_neq N.eqb Neqb_spec); auto.
        apply canon_key_dig; auto. now rewrite <- Hc.
    - (* D: indexed *)
      pose proof (others_idle_split l1 t l2 Hidle) as Hall.
      intros g Hp. left.
      assert (Hp0 : present s g /\ g <> d_dig d \/ (present s g /\ get N.eqb (d_dig d) (o_blobs s) = None)).
      { unfold present in *. revert Hp. cbn [oci_step].
        destruct (get N.eqb (d_dig d) (o_blobs s)) eqn:E; cbn [fst o_blobs]; intro Hp.
        - left. destruct (N.eq_dec g (d_dig d)) as [->|Hne].
          + rewrite (get_del_eq N.eqb) in Hp. congruence.
          + rewrite (get_del_neq N.eqb Neqb_spec) in Hp by exact Hne. auto.
        - right. auto. }
      assert (Hps : present s g) by (destruct Hp0 as [[A _]|[A _]]; exact A).
      assert (Hne : g <> d_dig d).
      { destruct Hp0 as [[_ A]|[A E]]; auto. intro; subst. unfold present in A. congruence. }
      destruct (Hix g Hps) as [H|(tw & dw & Hin & Hpcw & _)].
      + apply (In_set_del gkey_eqb gkey_eqb_spec). split; auto.
        intro E. apply Hne. rewrite <- (U_dig g), E, Hc. apply U_dig.
      + exfalso. apply in_app_or in Hin as [Hin|[Heq|Hin]].
        * rewrite (Hall tw) in Hpcw; auto. discriminate.
        * subst tw. congruence.
        * rewrite (Hall tw) in Hpcw; auto. discriminate.
    - (* D: ix_sub *)
      intros k Hk. apply (In_set_del gkey_eqb gkey_eqb_spec) in Hk as [Hk Hkne].
      destruct (Hsub k Hk) as [A Hp]. split; auto. unfold present in *. cbn [oci_step].
      destruct (get N.eqb (d_dig d) (o_blobs s)) eqn:E; cbn [fst o_blobs]; auto.
      rewrite (get_del_neq N.eqb Neqb_spec); auto. apply canon_key_dig; auto. now rewrite <- Hc.
  Qed.

  Lemma oinv_run progs sched :
    Forall wf_op (concat progs) -> forall cf, oinv progs cf -> oinv progs (oconf_run cf sched).
  Proof.
    intro Hwf. unfold oconf_run. induction sched as [|i sched IH]; intros cf H; [exact H|].
    simpl. apply IH. now apply oinv_step.
  Qed.

  Lemma othread_done_spec t : othread_done t = true -> ot_pc t = OIdle /\ oremaining t = [].
  Proof.
    unfold othread_done, oremaining. destruct (ot_pc t); try discriminate.
    destruct (ot_ops t); [auto|discriminate].
  Qed.

  Lemma oquiescent_remaining ths : forallb othread_done ths = true -> flat_map oremaining ths = [].
  Proof.
    induction ths as [|t ths IH]; simpl; auto. intro H. apply andb_true_iff in H as [A C].
    destruct (othread_done_spec t A) as [_ ->]. now apply IH.
  Qed.

  Lemma oquiescent_thread_remaining ths i :
    forallb othread_done ths = true ->
    match nth_error ths i with Some t => oremaining t | None => [] end = [].
  Proof.
    intro H. destruct (nth_error ths i) as [t|] eqn:E; auto.
    rewrite forallb_forall in H. apply nth_error_In in E. apply H in E.
    now apply othread_done_spec in E as [_ ->].
  Qed.

  (* Every interleaving of the atomic steps of the OCI store (Delete exclusive), run to
     quiescence, ends with the content map, the named references and the answers of
     Predecessors of a sequential execution of the same operations that keeps every
     goroutine's program order.  (Digest-string entries of the resolver are not compared.) *)
  Theorem quiescent_serialisable_oci (progs : list (list op)) (sched : list nat) :
    Forall wf_op (concat progs) ->
    let cf := oconf_run (oconf_init progs) sched in
    oquiescent cf = true ->
    exists order : list (nat * op),
      Permutation (map snd order) (concat progs) /\
      (forall i, log_of i order = nth i progs []) /\
      let q := fst (run oci_step oci_init (map snd order)) in
      o_blobs (oc_store cf) = o_blobs q /\
      (forall n, get ref_eqb (RName n) (r_index (o_res (oc_store cf))) =
                 get ref_eqb (RName n) (r_index (o_res q))) /\
      forall n k, In k (map gk (g_predecessors n (o_graph (oc_store cf)))) <->
                  In k (map gk (g_predecessors n (o_graph q))).
  Proof.
    intros Hwf cf Hq. pose proof (oinv_run progs sched Hwf _ (oinv_init progs)) as Hinv. fold cf in Hinv.
    destruct Hinv as [Hperm Hord Hbl Hnm Hnd HB Hthr Hg Hix Hsub]. unfold oquiescent in Hq.
    exists (oc_log cf). split; [|split].
    - rewrite (oquiescent_remaining _ Hq), app_nil_r in Hperm. exact Hperm.
    - intro i. specialize (Hord i). rewrite (oquiescent_thread_remaining _ i Hq), app_nil_r in Hord. exact Hord.
    - cbn zeta. fold (seq_ostate (map snd (oc_log cf))).
      split; [exact Hbl|]. split; [exact Hnm|].
      assert (Hperm0 : Permutation (map snd (oc_log cf)) (concat progs)).
      { rewrite (oquiescent_remaining _ Hq), app_nil_r in Hperm. exact Hperm. }
      assert (Hcan : Forall (canon_op U) (map snd (oc_log cf))).
      { eapply Forall_impl; [|eapply Permutation_Forall; [apply Permutation_sym; exact Hperm0 | exact Hwf]].
        intros o [A _]. apply canon_op_all_weaken. exact A. }
      destruct (run_refines_oci U U_dig (map snd (oc_log cf)) oci_init Hcan (oci_inv_init U)) as (_ & _ & [_ Hg2 _]).
      fold (seq_ostate (map snd (oc_log cf))) in Hg2. rewrite <- Hbl in Hg2.
      assert (Hg1 : graph_inv (S_oci U (o_blobs (oc_store cf))) (o_graph (oc_store cf))).
      { eapply graph_inv_ext; [|exact Hg]. intro k0. unfold S_ixo.
        destruct (mem gkey_eqb k0 (oc_indexed cf)) eqn:Em; auto.
        unfold S_oci. destruct (gkey_eqb k0 (U (k_dig k0))) eqn:Ec; auto.
        destruct (get N.eqb (k_dig k0) (o_blobs (oc_store cf))) eqn:E; auto. exfalso.
        assert (Hp : present (oc_store cf) (k_dig k0)) by (unfold present; congruence).
        destruct (Hix _ Hp) as [H|(tw & dw & Hin & Hpc & _)].
        - apply gkey_eqb_spec in Ec. rewrite <- Ec in H.
          apply (mem_In gkey_eqb gkey_eqb_spec) in H. congruence.
        - rewrite forallb_forall in Hq. apply Hq in Hin. apply othread_done_spec in Hin as [Hin _]. congruence. }
      intros n k. rewrite (g_predecessors_spec _ _ _ _ Hg1). rewrite (g_predecessors_spec _ _ _ _ Hg2). tauto.
  Qed.
End OciConc.

(* non-vacuity: a universe, two goroutines (racing pushes of one manifest, a delete, an untag)
   and a schedule that runs them to quiescence *)
Definition ox_B (g : N) : blob :=
  if g =? 1 then mkBlob 1 10 [(6, 2, 5)] 1 [(6, 2, 5)] else mkBlob 2 5 [] 2 [].
Definition ox_progs : list (list op) :=
  [ [Push ex_man (ox_B 1); Tag ex_man (RName 1); Fetch ex_layer];
    [Push ex_man (ox_B 1); Push ex_layer (ox_B 2); Delete ex_layer; Untag (RName 1)] ].
Definition ox_sched : list nat :=
  [0; 1; 1; 0; 0; 1; 0; 1; 1; 0; 0; 1; 1; 1; 0; 1; 1; 0; 1; 0; 1; 0; 1; 0; 1; 0; 1; 0; 1; 0; 1]%nat.

Lemma ox_wf : Forall (wf_op ex_U ox_B) (concat ox_progs).
Proof.
  repeat (constructor; [split; [reflexivity | try exact I; try (intros _; reflexivity)] |]). constructor.
Qed.

Lemma ox_quiescent : oquiescent (oconf_run (oconf_init ox_progs) ox_sched) = true.
Proof. vm_compute. reflexivity. Qed.

Theorem conc_fetch_matches_oci (U : N -> gkey) (B : N -> blob) (progs : list (list op)) (sched : list nat) d hash len :
  (forall g, k_dig (U g) = g) -> Forall (wf_op U B) (concat progs) ->
  snd (oci_step (oc_store (oconf_run (oconf_init progs) sched)) (Fetch d)) = OBytes hash len ->
  hash = d_dig d.
Proof.
  intros HU Hwf. pose proof (oinv_run U HU B progs sched Hwf _ (oinv_init U B progs)) as Hinv.
  destruct Hinv as [_ _ Hbl _ _ _ _ _ _ _].
  assert (H : blobs_verified (o_blobs (oc_store (oconf_run (oconf_init progs) sched)))).
  { rewrite Hbl. unfold seq_ostate. apply oci_run_verified. intros g c X. discriminate. }
  simpl. destruct (get N.eqb (d_dig d) (o_blobs (oc_store (oconf_run (oconf_init progs) sched)))) as [c|] eqn:E; [|discriminate].
  intro X. injection X as <- _. apply (H _ _ E).
Qed.

(* known finding oci-racing-pushes-all-succeed, on the model: a schedule after which both
   goroutines have passed the stat check and renamed their temp file onto the blob path --
   both Push calls return nil, whereas in every sequential order the second is refused *)
Definition orace_progs : list (list op) := [[Push ex_layer (ox_B 2)]; [Push ex_layer (ox_B 2)]].
Lemma orace_both_renamed :
  map ot_pc (oc_threads (oconf_run (oconf_init orace_progs) [0; 1; 0; 1]%nat)) = [OPush3 ex_layer; OPush3 ex_layer] /\
  snd (run oci_step oci_init (concat orace_progs)) = [OOk; OErr EAlreadyExists].
Proof. vm_compute. split; reflexivity. Qed.
