(* C14 - channel-level deadlock freedom of the Merge system (Model/MergeFine.v): a counting
   invariant InvP on top of InvF (while complete() sends the error statuses, the members of
   the batch that have not received yet are exactly the sends left plus the buffered status;
   a caller still blocked on the channel of an earlier batch finds its status there or the
   channel closed), and progress: whenever some caller is inside Do / has not released, a
   step other than a new call is enabled. *)
From Oras Require Import Base.Prelude Model.Referrers Proofs.Referrers Model.Merge Proofs.Merge Model.MergeFine
  Proofs.MergeFine Proofs.MergeFine2.
From Coq Require Import Lia.

Definition waits_pc (g : nat) (p : fpc) : bool := match p with FWait g' => Nat.eqb g' g | _ => false end.
Definition nwait_of (g : nat) (pcs : tid -> fpc) (l : list tid) : nat :=
  length (filter (fun t => waits_pc g (pcs t)) l).
Definition nwait (f : fstate) : nat := nwait_of (f_gen f) (f_pcs f) (fbatch f).
Definition b2n (o : option fmsg) : nat := match o with Some _ => 1%nat | None => 0%nat end.
Definition cur (f : fstate) : fchan := f_chans f (f_gen f).

Record InvP (f : fstate) : Prop := {
  p_cnt : forall t r k, f_pcs f t = FNotify r k -> r <> ROk -> nwait f = (k + b2n (fbuf (cur f)))%nat;
  p_swp : forall t r, f_pcs f t = FSwap r -> r <> ROk -> nwait f = b2n (fbuf (cur f));
  p_okc : forall t, f_pcs f t = FSwap ROk -> fclosed (cur f) = true;
  p_old : forall t g, f_pcs f t = FWait g -> (g < f_gen f)%nat ->
            fclosed (f_chans f g) = true \/ exists r, fbuf (f_chans f g) = Some (FRes r);
  p_one : forall g t1 t2, (g < f_gen f)%nat -> fclosed (f_chans f g) = false ->
            f_pcs f t1 = FWait g -> f_pcs f t2 = FWait g -> t1 = t2
}.

Lemma invP_init r0 st0 : InvP (finit r0 st0).
Proof. constructor; simpl; intros; try discriminate; lia. Qed.

(* ---------- counting ---------- *)
Lemma nwait_upd g pcs t p l :
  waits_pc g (pcs t) = waits_pc g p -> nwait_of g (upd pcs t p) l = nwait_of g pcs l.
Proof.
  intro H. unfold nwait_of. f_equal. apply filter_ext. intro x.
  destruct (Nat.eq_dec x t) as [->|Hne]; [rewrite upd_eq; auto | rewrite upd_neq; auto].
Qed.

Lemma nwait_dec g pcs t p l :
  NoDup l -> In t l -> waits_pc g (pcs t) = true -> waits_pc g p = false ->
  S (nwait_of g (upd pcs t p) l) = nwait_of g pcs l.
Proof.
  induction l as [|a l IH]; intros ND Hin Ht Hp; [destruct Hin|].
  inversion ND as [|? ? Hn ND']; subst. unfold nwait_of in *. simpl.
  destruct Hin as [->|Hin].
  - rewrite upd_eq, Hp, Ht. simpl. f_equal. f_equal. apply filter_ext_in. intros x Hx.
    rewrite upd_neq; auto. intro; subst; contradiction.
  - assert (a <> t) by (intro; subst; contradiction). rewrite upd_neq by auto.
    destruct (waits_pc g (pcs a)); simpl; rewrite <- IH; auto.
Qed.

Lemma filter_all (P : tid -> bool) l : (forall x, In x l -> P x = true) -> length (filter P l) = length l.
Proof.
  induction l as [|a l IH]; intro H; auto. simpl. rewrite (H a) by now left. simpl. f_equal. apply IH.
  intros x Hx. apply H. now right.
Qed.

Lemma count_all_but (P : tid -> bool) t l :
  NoDup l -> In t l -> P t = false -> (forall x, In x l -> x <> t -> P x = true) ->
  S (length (filter P l)) = length l.
Proof.
  induction l as [|a l IH]; intros ND Hin Ht Hall; [destruct Hin|].
  inversion ND as [|? ? Hn ND']; subst. simpl. destruct Hin as [->|Hin].
  - rewrite Ht. f_equal. apply filter_all. intros x Hx. apply Hall; [now right|]. intro; subst; contradiction.
  - rewrite (Hall a) by (simpl; auto; intro; subst; contradiction). simpl. f_equal.
    apply IH; auto. intros x Hx Hne. apply Hall; auto. now right.
Qed.

Lemma count_pos (P : tid -> bool) t l : In t l -> P t = true -> (1 <= length (filter P l))%nat.
Proof.
  intros Hin Ht. assert (In t (filter P l)) by (apply filter_In; auto).
  destruct (filter P l); [destruct H|simpl; lia].
Qed.

Lemma count_two (P : tid -> bool) t1 t2 l :
  NoDup l -> In t1 l -> In t2 l -> t1 <> t2 -> P t1 = true -> P t2 = true -> (2 <= length (filter P l))%nat.
Proof.
  intros ND H1 H2 Hne P1 P2.
  assert (I1 : In t1 (filter P l)) by (apply filter_In; auto).
  assert (I2 : In t2 (filter P l)) by (apply filter_In; auto).
  destruct (filter P l) as [|a [|b m]]; simpl in *; try lia; intuition congruence.
Qed.

Lemma count_ex (P : tid -> bool) l : (1 <= length (filter P l))%nat -> exists t, In t l /\ P t = true.
Proof.
  intro H. destruct (filter P l) as [|a m] eqn:E; [simpl in H; lia|].
  assert (In a (filter P l)) by (rewrite E; now left). apply filter_In in H0. eauto.
Qed.

Lemma waits_pc_true g p : waits_pc g p = true <-> p = FWait g.
Proof. destruct p; simpl; split; try discriminate; intro H; try (apply Nat.eqb_eq in H; now subst). injection H as ->. apply Nat.eqb_refl. Qed.

(* ---------- frame ---------- *)
Lemma invP_frame f f' :
  InvP f -> f_gen f' = f_gen f ->
  (forall g, (g < f_gen f)%nat -> f_chans f' g = f_chans f g) ->
  (forall x g, (g < f_gen f)%nat -> f_pcs f' x = FWait g -> f_pcs f x = FWait g) ->
  (forall x, fwindow (f_pcs f' x) = true -> f_pcs f' x = f_pcs f x /\ nwait f' = nwait f /\ cur f' = cur f) ->
  InvP f'.
Proof.
  intros P Hg Hc Hw Hwin. constructor.
  - intros t r k Ht Hr. destruct (Hwin t) as (E1 & E2 & E3); [now rewrite Ht|]. rewrite E2, E3.
    apply (p_cnt f P t r k); auto. congruence.
  - intros t r Ht Hr. destruct (Hwin t) as (E1 & E2 & E3); [now rewrite Ht|]. rewrite E2, E3.
    apply (p_swp f P t r); auto. congruence.
  - intros t Ht. destruct (Hwin t) as (E1 & E2 & E3); [now rewrite Ht|]. rewrite E3.
    apply (p_okc f P t). congruence.
  - intros t g Ht Hlt. rewrite Hg in Hlt. rewrite Hc by auto. apply (p_old f P t); auto.
  - intros g t1 t2 Hlt Hcl H1 H2. rewrite Hg in Hlt. rewrite Hc in Hcl by auto. apply (p_one f P g); auto.
Qed.

Lemma window_unique f t x : InvF f -> fmain (f_pcs f t) = true -> fwindow (f_pcs f x) = true -> x = t.
Proof. intros I Ht Hx. apply (f_mu f I); auto. now apply fwindow_main. Qed.

Lemma stepP_get sg f t c f' : InvF f -> InvP f -> fstep sg f (FEGet t c) = Some f' -> InvP f'.
Proof.
  intros I P H. simpl in H. destruct (f_pcs f t) eqn:Hpc; try discriminate.
  destruct (is_empty (cdesc c)); try discriminate.
  destruct (f_pool f) eqn:Hpool; injection H as <-; apply (invP_frame f _ P); simpl; auto.
  all: try solve [intros x g Hlt Hx; tcase x t; [discriminate|auto]].
  - intros x Hx. tcase x t; [discriminate|]. split; auto. split; auto. unfold nwait; simpl.
    apply nwait_upd. rewrite Hpc. reflexivity.
  - intros x Hx. tcase x t; [discriminate|]. split; auto. split; auto. unfold nwait, nwait_of; simpl.
    destruct (fpool_none f I Hpool) as (_ & Hi & _). unfold fbatch. rewrite Hi. reflexivity.
Qed.

Lemma stepP_assign sg f t f' : InvF f -> InvP f -> fstep sg f (FEAssign t) = Some f' -> InvP f'.
Proof.
  intros I P H. simpl in H. destruct (f_pcs f t) eqn:Hpc; try discriminate.
  destruct (f_committed f) eqn:Hcm; injection H as <-; apply (invP_frame f _ P); simpl; auto.
  all: try solve [intros x g Hlt Hx; tcase x t; [injection Hx as <-; lia|auto]].
  - intros x Hx. tcase x t; [discriminate|]. split; auto. split; auto. unfold nwait; simpl.
    apply nwait_upd. rewrite Hpc. cbn [waits_pc]. symmetry. apply Nat.eqb_neq. lia.
  - intros g Hlt. destruct (is_nil (f_items f)); auto. rewrite upd_neq; auto. lia.
  - intros x Hx. tcase x t; [discriminate|]. exfalso.
    assert (Hp : fpost (f_pcs f x) = true) by (destruct (f_pcs f x); try discriminate; reflexivity).
    rewrite (f_com f I x Hp) in Hcm. discriminate.
Qed.

Lemma invP_stay f t p cm rg st : InvF f -> InvP f -> fpre (f_pcs f t) = true -> fpre p = true ->
  InvP (mkF (f_pool f) cm (f_items f) (f_pending f) (f_gen f) (f_chans f) (upd (f_pcs f) t p) rg st (f_verdict f)).
Proof.
  intros I P Ht Hp. apply (invP_frame f _ P); simpl; auto.
  - intros x g Hlt Hx. tcase x t; [rewrite Hx in Hp; discriminate|auto].
  - intros x Hx. tcase x t; [destruct p; discriminate|].
    exfalso. apply Hne. apply (window_unique f t x I); auto. now apply fpre_main.
Qed.

Lemma pre_others_wait f t x : InvF f -> fpre (f_pcs f t) = true -> In x (fbatch f) -> x <> t -> f_pcs f x = FWait (f_gen f).
Proof.
  intros I Ht Hx Hne. unfold fbatch in Hx. apply in_map_iff in Hx as ((x', c) & E & Hin). simpl in E. subst x'.
  destruct (f_it f I x c Hin) as [H|[H|[(tm & H) _]]]; auto.
  - exfalso. apply Hne. apply (f_mu f I); auto. now apply fpre_main.
  - exfalso. assert (tm = t) by (apply (window_unique f t tm I); auto; now apply fpre_main). subst tm.
    destruct (f_pcs f t); discriminate.
Qed.

Lemma invP_enter f t r cm rg st vd : InvF f -> InvP f -> fpre (f_pcs f t) = true ->
  InvP (mkF (f_pool f) cm (f_items f) (f_pending f) (f_gen f) (f_chans f)
            (upd (f_pcs f) t (FNotify r (length (f_items f) - 1))) rg st vd).
Proof.
  intros I P Ht.
  assert (Hm : fmain (f_pcs f t) = true) by now apply fpre_main.
  assert (Hother : forall x, x <> t -> fwindow (f_pcs f x) = false).
  { intros x Hne. destruct (fwindow (f_pcs f x)) eqn:E; auto. exfalso. apply Hne. eapply window_unique; eauto. }
  constructor; simpl.
  - intros x r' k Hx Hr. tcase x t.
    + injection Hx as <- <-. unfold nwait, cur. simpl.
      destruct (f_qt f I t Ht) as (Hb & _). rewrite Hb. simpl.
      rewrite nwait_upd by (destruct (f_pcs f t); try discriminate; reflexivity).
      assert (Hc : S (nwait_of (f_gen f) (f_pcs f) (fbatch f)) = length (fbatch f)).
      { unfold nwait_of. apply (count_all_but _ t).
        - apply (f_it_nd f I).
        - now apply (f_mn f I).
        - destruct (f_pcs f t); try discriminate; reflexivity.
        - intros y Hy Hne. apply waits_pc_true. now apply (pre_others_wait f t). }
      assert (Hl : length (fbatch f) = length (f_items f)) by (unfold fbatch; apply map_length).
      change (fbatch _) with (fbatch f) at 1. lia.
    + specialize (Hother x Hne). rewrite Hx in Hother. discriminate.
  - intros x r' Hx Hr. tcase x t; [discriminate|]. specialize (Hother x Hne). rewrite Hx in Hother. discriminate.
  - intros x Hx. tcase x t; [discriminate|]. specialize (Hother x Hne). rewrite Hx in Hother. discriminate.
  - intros x g Hx Hlt. tcase x t; [discriminate|]. apply (p_old f P x); auto.
  - intros g t1 t2 Hlt Hcl H1 H2. tcase t1 t; [discriminate|]. tcase t2 t; [discriminate|]. apply (p_one f P g); auto.
Qed.

Lemma stepP_main sg s e s' t :
  InvF s -> InvP s -> fstep sg s e = Some s' ->
  ((exists f, e = FEPrepare t f) \/ e = FECommit t \/ (exists f, e = FEPut t f) \/ (exists f, e = FEDel t f) \/ e = FEPutLost t \/ e = FEDelLost t) ->
  InvP s'.
Proof.
  intros I P H [[f ->]|[->|[[f ->]|[[f ->]|[->| ->]]]]]; simpl in H.
  - destruct (f_pcs s t) eqn:Hpc; try discriminate. injection H as <-.
    unfold fset_pc. apply invP_stay; auto; rewrite ?Hpc; reflexivity.
  - destruct (f_pcs s t) as [|c0|g| |old|nw o|oi ap|r k|r|r|r] eqn:Hpc; try discriminate.
    assert (Hp : fpre (f_pcs s t) = true) by (rewrite Hpc; reflexivity).
    destruct old as [o|].
    + destruct (apply_changes (idx o) (map snd (f_items s))) as [|new].
      * injection H as <-. unfold fnotify. simpl. apply invP_enter; auto.
      * destruct (negb (is_nil new) || sg).
        -- injection H as <-. unfold fset_pc. simpl. apply invP_stay; auto.
        -- destruct o; injection H as <-; [unfold fset_pc; simpl; apply invP_stay; auto|unfold fnotify; simpl; apply invP_enter; auto].
    + injection H as <-. unfold fnotify. simpl. apply invP_enter; auto.
  - destruct (f_pcs s t) as [|c0|g| |old|nw o|oi ap|r k|r|r|r] eqn:Hpc; try discriminate.
    assert (Hp : fpre (f_pcs s t) = true) by (rewrite Hpc; reflexivity).
    destruct f; injection H as <-.
    + unfold fnotify. apply invP_enter; auto.
    + unfold fafter_put. destruct sg; [unfold fnotify, fset_reg; simpl; apply invP_enter; auto|].
      destruct o; [unfold fset_pc, fset_reg; simpl; apply invP_stay; auto
                  |unfold fnotify, fset_reg; simpl; apply invP_enter; auto].
  - destruct (f_pcs s t) as [|c0|g| |old|nw o|oi ap|r k|r|r|r] eqn:Hpc; try discriminate.
    assert (Hp : fpre (f_pcs s t) = true) by (rewrite Hpc; reflexivity).
    destruct f; injection H as <-; unfold fnotify, fset_reg; simpl; apply invP_enter; auto.
  - destruct (f_pcs s t) as [|c0|g| |old|nw o|oi ap|r k|r|r|r] eqn:Hpc; try discriminate.
    assert (Hp : fpre (f_pcs s t) = true) by (rewrite Hpc; reflexivity).
    injection H as <-; unfold fnotify, fset_reg; simpl; apply invP_enter; auto.
  - destruct (f_pcs s t) as [|c0|g| |old|nw o|oi ap|r k|r|r|r] eqn:Hpc; try discriminate.
    assert (Hp : fpre (f_pcs s t) = true) by (rewrite Hpc; reflexivity).
    injection H as <-; unfold fnotify, fset_reg; simpl; apply invP_enter; auto.
Qed.

Lemma stepP_done sg f t f' : InvF f -> InvP f -> fstep sg f (FEDone t) = Some f' -> InvP f'.
Proof.
  intros I P H. simpl in H. destruct (f_pcs f t) eqn:Hpc; try discriminate.
  destruct (f_pool f); try discriminate. injection H as <-. apply (invP_frame f _ P); simpl; auto.
  - intros x g Hlt Hx. tcase x t; [discriminate|auto].
  - intros x Hx. tcase x t; [discriminate|]. split; auto. split; auto. unfold nwait; simpl.
    apply nwait_upd. rewrite Hpc. reflexivity.
Qed.

Lemma stepP_extdrop sg f f' : InvP f -> fstep sg f FEExtDrop = Some f' -> InvP f'.
Proof.
  intros P H. simpl in H. destruct (f_reg f); try discriminate. destruct (forallb is_empty i); try discriminate.
  injection H as <-. apply (invP_frame f _ P); simpl; auto.
Qed.

Lemma stepP_notify sg f t f' : InvF f -> InvP f -> fstep sg f (FENotify t) = Some f' -> InvP f'.
Proof.
  intros I P H. simpl in H.
  destruct (f_pcs f t) as [|c|g| |old|nw o|oi ap|r k|r|r|r] eqn:Hpc; try discriminate.
  assert (Hm : fmain (f_pcs f t) = true) by now rewrite Hpc.
  assert (Hother : forall x, x <> t -> fwindow (f_pcs f x) = false).
  { intros x Hne. destruct (fwindow (f_pcs f x)) eqn:E; auto. exfalso. apply Hne. eapply window_unique; eauto. }
  assert (Hgen : forall ch' p,
            (forall g, (g < f_gen f)%nat -> ch' g = f_chans f g) ->
            (forall g, p <> FWait g) ->
            (forall r' k', p = FNotify r' k' -> r' <> ROk -> nwait f = (k' + b2n (fbuf (ch' (f_gen f))))%nat) ->
            (forall r', p = FSwap r' -> r' <> ROk -> nwait f = b2n (fbuf (ch' (f_gen f)))) ->
            (p = FSwap ROk -> fclosed (ch' (f_gen f)) = true) ->
            InvP (mkF (f_pool f) (f_committed f) (f_items f) (f_pending f) (f_gen f) ch' (upd (f_pcs f) t p)
                      (f_reg f) (f_store f) (f_verdict f))).
  { intros ch' p Hch Hnw Hc1 Hc2 Hc3.
    assert (Hn : forall p', p' = p -> nwait_of (f_gen f) (upd (f_pcs f) t p') (fbatch f) = nwait f).
    { intros p' ->. unfold nwait. apply nwait_upd. rewrite Hpc. destruct p; simpl; auto. exfalso. now apply (Hnw g). }
    constructor; simpl.
    - intros x r' k' Hx Hr. tcase x t.
      + unfold nwait, cur; simpl. change (fbatch _) with (fbatch f). rewrite Hn by auto. now apply (Hc1 r' k').
      + specialize (Hother x Hne). rewrite Hx in Hother. discriminate.
    - intros x r' Hx Hr. tcase x t.
      + unfold nwait, cur; simpl. change (fbatch _) with (fbatch f). rewrite Hn by auto. now apply (Hc2 r').
      + specialize (Hother x Hne). rewrite Hx in Hother. discriminate.
    - intros x Hx. tcase x t; [unfold cur; simpl; now apply Hc3|]. specialize (Hother x Hne). rewrite Hx in Hother. discriminate.
    - intros x g Hx Hlt. tcase x t; [exfalso; now apply (Hnw g)|]. rewrite Hch by auto. apply (p_old f P x); auto.
    - intros g t1 t2 Hlt Hcl H1 H2. tcase t1 t; [exfalso; now apply (Hnw g)|]. tcase t2 t; [exfalso; now apply (Hnw g)|].
      rewrite Hch in Hcl by auto. apply (p_one f P g); auto. }
  destruct r.
  - injection H as <-. apply Hgen; try discriminate.
    + intros g Hlt. rewrite upd_neq; auto. lia.
    + intros r' E; injection E as <-; congruence.
    + intros _. rewrite upd_eq. reflexivity.
  - destruct k as [|k2].
    + injection H as <-. unfold fset_pc. apply Hgen; auto; try discriminate.
      intros r' E Hr; injection E as <-. rewrite (p_cnt f P t _ _ Hpc Hr). reflexivity.
    + destruct (fbuf (f_chans f (f_gen f))) eqn:Hb; [discriminate|]. injection H as <-. apply Hgen; try discriminate.
      * intros g Hlt. rewrite upd_neq; auto. lia.
      * intros r' k' E Hr; injection E as <- <-. rewrite upd_eq. simpl.
        rewrite (p_cnt f P t _ _ Hpc Hr). unfold cur. rewrite Hb. simpl. lia.
  - destruct k as [|k2].
    + injection H as <-. unfold fset_pc. apply Hgen; auto; try discriminate.
      intros r' E Hr; injection E as <-. rewrite (p_cnt f P t _ _ Hpc Hr). reflexivity.
    + destruct (fbuf (f_chans f (f_gen f))) eqn:Hb; [discriminate|]. injection H as <-. apply Hgen; try discriminate.
      * intros g Hlt. rewrite upd_neq; auto. lia.
      * intros r' k' E Hr; injection E as <- <-. rewrite upd_eq. simpl.
        rewrite (p_cnt f P t _ _ Hpc Hr). unfold cur. rewrite Hb. simpl. lia.
  - destruct k as [|k2].
    + injection H as <-. unfold fset_pc. apply Hgen; auto; try discriminate.
      intros r' E Hr; injection E as <-. rewrite (p_cnt f P t _ _ Hpc Hr). reflexivity.
    + destruct (fbuf (f_chans f (f_gen f))) eqn:Hb; [discriminate|]. injection H as <-. apply Hgen; try discriminate.
      * intros g Hlt. rewrite upd_neq; auto. lia.
      * intros r' k' E Hr; injection E as <- <-. rewrite upd_eq. simpl.
        rewrite (p_cnt f P t _ _ Hpc Hr). unfold cur. rewrite Hb. simpl. lia.
Qed.

Lemma stepP_swap sg f t f' : InvF f -> InvP f -> fstep sg f (FESwap t) = Some f' -> InvP f'.
Proof.
  intros I P H. simpl in H.
  destruct (f_pcs f t) as [|c|g| |old|nw o|oi ap|r k|r|r|r] eqn:Hpc; try discriminate.
  injection H as <-.
  assert (Hm : fmain (f_pcs f t) = true) by now rewrite Hpc.
  assert (Hother : forall x, x <> t -> fwindow (f_pcs f x) = false).
  { intros x Hne. destruct (fwindow (f_pcs f x)) eqn:E; auto. exfalso. apply Hne. eapply window_unique; eauto. }
  set (ch' := if is_nil (f_pending f) then f_chans f
              else upd (f_chans f) (S (f_gen f)) (mkFC (Some FMain) (fclosed (f_chans f (S (f_gen f)))))).
  assert (Hch : forall g, (g < S (f_gen f))%nat -> ch' g = f_chans f g).
  { intros g Hlt. unfold ch'. destruct (is_nil (f_pending f)); auto. rewrite upd_neq; auto. lia. }
  assert (Hr : r = ROk \/ r <> ROk) by (destruct r; auto; right; discriminate).
  assert (Hnomain : fbuf (cur f) <> Some FMain).
  { intro E. destruct (f_tok f I E) as (_ & _ & Hn). rewrite Hn in Hm. discriminate. }
  constructor; simpl.
  - intros x r' k Hx Hr'. tcase x t; [discriminate|]. specialize (Hother x Hne). rewrite Hx in Hother. discriminate.
  - intros x r' Hx Hr'. tcase x t; [discriminate|]. specialize (Hother x Hne). rewrite Hx in Hother. discriminate.
  - intros x Hx. tcase x t; [discriminate|]. specialize (Hother x Hne). rewrite Hx in Hother. discriminate.
  - intros x g Hx Hlt. tcase x t; [discriminate|]. fold ch'. rewrite Hch by auto.
    assert (Hg : (g < f_gen f)%nat \/ g = f_gen f) by lia. destruct Hg as [Hg| ->]; [apply (p_old f P x); auto|].
    destruct Hr as [->|Hr]; [left; apply (p_okc f P t Hpc)|]. right.
    pose proof (p_swp f P t r Hpc Hr) as Hn.
    assert (Hin : In x (fbatch f)) by (destruct (f_wt f I x _ Hx) as (_ & A & _); auto).
    assert (H1 : (1 <= nwait f)%nat).
    { unfold nwait, nwait_of. apply (count_pos _ x); auto. apply waits_pc_true. exact Hx. }
    unfold cur in *. destruct (fbuf (f_chans f (f_gen f))) as [[|r0]|]; simpl in Hn; try lia; [congruence|eauto].
  - intros g t1 t2 Hlt Hcl H1 H2. tcase t1 t; [discriminate|]. tcase t2 t; [discriminate|].
    fold ch' in Hcl. rewrite Hch in Hcl by auto.
    assert (Hg : (g < f_gen f)%nat \/ g = f_gen f) by lia. destruct Hg as [Hg| ->]; [apply (p_one f P g); auto|].
    destruct Hr as [->|Hr]; [pose proof (p_okc f P t Hpc) as Hk; unfold cur in Hk; congruence|].
    pose proof (p_swp f P t r Hpc Hr) as Hn.
    destruct (Nat.eq_dec t1 t2) as [|Hd]; auto. exfalso.
    assert (Hi1 : In t1 (fbatch f)) by (destruct (f_wt f I t1 _ H1) as (_ & A & _); auto).
    assert (Hi2 : In t2 (fbatch f)) by (destruct (f_wt f I t2 _ H2) as (_ & A & _); auto).
    assert (H3 : (2 <= nwait f)%nat).
    { unfold nwait, nwait_of. apply (count_two _ t1 t2); auto; try apply (f_it_nd f I); apply waits_pc_true; auto. }
    destruct (fbuf (cur f)); simpl in Hn; lia.
Qed.

Lemma stepP_recv sg f t f' : InvF f -> InvP f -> fstep sg f (FERecv t) = Some f' -> InvP f'.
Proof.
  intros I P H. simpl in H.
  destruct (f_pcs f t) as [|c|g| |old|nw o|oi ap|r k|r|r|r] eqn:Hpc; try discriminate.
  destruct (f_wt f I t g Hpc) as (Hle & Hcur & Hpend).
  assert (HnS : fbuf (f_chans f g) <> None \/ fclosed (f_chans f g) = true -> g <> S (f_gen f)).
  { intros Hc ->. destruct (f_fut f I (S (f_gen f))) as (A & B & _); [lia|]. destruct Hc; congruence. }
  (* t leaves an old generation's channel *)
  assert (Hold : forall p ch', (g < f_gen f)%nat -> fwindow p = false -> (forall g', p <> FWait g') ->
            (forall g', g' <> g -> ch' g' = f_chans f g') -> fclosed (ch' g) = fclosed (f_chans f g) ->
            InvP (mkF (f_pool f) (f_committed f) (f_items f) (f_pending f) (f_gen f)
                      ch' (upd (f_pcs f) t p)
                      (f_reg f) (f_store f) (f_verdict f))).
  { intros p ch' Hlt Hpw Hpn Hch Hchc.
    assert (Hwin : forall x, fwindow (upd (f_pcs f) t p x) = true ->
              upd (f_pcs f) t p x = f_pcs f x /\
              nwait_of (f_gen f) (upd (f_pcs f) t p) (fbatch f) = nwait f /\
              ch' (f_gen f) = cur f).
    { intros x Hx. tcase x t; [congruence|]. split; auto. split.
      - unfold nwait. apply nwait_upd. rewrite Hpc. cbn [waits_pc].
        replace (g =? f_gen f)%nat with false by (symmetry; apply Nat.eqb_neq; lia).
        destruct p; auto. exfalso. now apply (Hpn g0).
      - unfold cur. apply Hch. lia. }
    constructor; simpl.
    - intros x r' k Hx Hr. destruct (Hwin x) as (E1 & E2 & E3); [now rewrite Hx|].
      unfold nwait, cur; simpl. change (fbatch _) with (fbatch f). rewrite E2, E3. apply (p_cnt f P x r' k); auto. congruence.
    - intros x r' Hx Hr. destruct (Hwin x) as (E1 & E2 & E3); [now rewrite Hx|].
      unfold nwait, cur; simpl. change (fbatch _) with (fbatch f). rewrite E2, E3. apply (p_swp f P x r'); auto. congruence.
    - intros x Hx. destruct (Hwin x) as (E1 & E2 & E3); [now rewrite Hx|].
      unfold cur; simpl. rewrite E3. apply (p_okc f P x). congruence.
    - intros x g' Hx Hlt'. tcase x t; [exfalso; now apply (Hpn g')|].
      destruct (Nat.eq_dec g' g) as [->|Hg]; [|rewrite Hch by auto; apply (p_old f P x); auto].
      rewrite Hchc. destruct (fclosed (f_chans f g)) eqn:Hcl; auto. exfalso. apply Hne.
      apply (p_one f P g); auto.
    - intros g' t1 t2 Hlt' Hcl H1 H2. tcase t1 t; [exfalso; now apply (Hpn g')|]. tcase t2 t; [exfalso; now apply (Hpn g')|].
      apply (p_one f P g'); auto. destruct (Nat.eq_dec g' g) as [->|Hg]; [now rewrite Hchc in Hcl|now rewrite Hch in Hcl]. }
  assert (Hcase : (g < f_gen f)%nat \/ g = f_gen f \/ g = S (f_gen f)) by lia.
  destruct (fbuf (f_chans f g)) as [[|r]|] eqn:Hb.
  - (* main status *)
    assert (g = f_gen f) by (apply (f_vm f I); auto). subst g.
    destruct (f_tok f I Hb) as (_ & _ & Hn). injection H as <-.
    apply (invP_frame f _ P); simpl; auto.
    + intros g Hlt. rewrite upd_neq; auto. lia.
    + intros x g Hlt Hx. tcase x t; [discriminate|auto].
    + intros x Hx. tcase x t; [discriminate|]. apply fwindow_main in Hx. rewrite Hn in Hx. discriminate.
  - (* a buffered result *)
    injection H as <-. destruct Hcase as [Hlt|[-> | ->]].
    + apply Hold; auto; try discriminate; [intros g' Hg; now rewrite upd_neq|now rewrite upd_eq].
    + (* current generation: the count goes down with the buffer *)
      assert (Hin : In t (fbatch f)) by auto.
      assert (Hdec : S (nwait_of (f_gen f) (upd (f_pcs f) t (FRet r)) (fbatch f)) = nwait f).
      { unfold nwait. apply nwait_dec; auto; [apply (f_it_nd f I)|]. rewrite Hpc. apply waits_pc_true. reflexivity. }
      constructor; simpl.
      * intros x r' k Hx Hr. tcase x t; [discriminate|]. unfold nwait, cur; simpl. change (fbatch _) with (fbatch f).
        rewrite upd_eq. simpl. pose proof (p_cnt f P x r' k Hx Hr) as Hn. unfold cur in Hn. rewrite Hb in Hn. simpl in Hn. lia.
      * intros x r' Hx Hr. tcase x t; [discriminate|]. unfold nwait, cur; simpl. change (fbatch _) with (fbatch f).
        rewrite upd_eq. simpl. pose proof (p_swp f P x r' Hx Hr) as Hn. unfold cur in Hn. rewrite Hb in Hn. simpl in Hn. lia.
      * intros x Hx. tcase x t; [discriminate|]. unfold cur; simpl. rewrite upd_eq. simpl. apply (p_okc f P x Hx).
      * intros x g' Hx Hlt'. tcase x t; [discriminate|]. rewrite upd_neq by lia. apply (p_old f P x); auto.
      * intros g' t1 t2 Hlt' Hcl H1 H2. tcase t1 t; [discriminate|]. tcase t2 t; [discriminate|].
        rewrite upd_neq in Hcl by lia. apply (p_one f P g'); auto.
    + exfalso. apply HnS; auto. left. congruence.
  - (* closed channel *)
    destruct (fclosed (f_chans f g)) eqn:Hcl; [|discriminate]. injection H as <-. unfold fset_pc.
    destruct Hcase as [Hlt|[-> | ->]].
    + apply Hold; auto; discriminate.
    + (* current generation closed: the verdict is nil, nothing is counted *)
      assert (Hv : f_verdict f (f_gen f) = Some ROk) by now apply (f_vc f I).
      assert (Hres : forall x r', fres (f_pcs f x) = Some r' -> r' = ROk).
      { intros x r' Hx. pose proof (f_vw f I x r' Hx). congruence. }
      constructor; simpl.
      * intros x r' k Hx Hr. tcase x t; [discriminate|]. exfalso. apply Hr. apply (Hres x). now rewrite Hx.
      * intros x r' Hx Hr. tcase x t; [discriminate|]. exfalso. apply Hr. apply (Hres x). now rewrite Hx.
      * intros x Hx. tcase x t; [discriminate|]. apply (p_okc f P x Hx).
      * intros x g' Hx Hlt'. tcase x t; [discriminate|]. apply (p_old f P x); auto.
      * intros g' t1 t2 Hlt' Hcl' H1 H2. tcase t1 t; [discriminate|]. tcase t2 t; [discriminate|]. apply (p_one f P g'); auto.
    + exfalso. apply HnS; auto.
Qed.

Lemma stepP sg f e f' : InvF f -> InvP f -> fstep sg f e = Some f' -> InvP f'.
Proof.
  intros I P H. destruct e.
  - eapply stepP_get; eauto.
  - eapply stepP_assign; eauto.
  - eapply stepP_recv; eauto.
  - eapply stepP_main; eauto.
  - eapply stepP_main; eauto.
  - eapply stepP_main; eauto 6.
  - eapply stepP_main; eauto 8.
  - eapply stepP_main; eauto 7.
  - eapply stepP_main; eauto 9.
  - eapply stepP_notify; eauto.
  - eapply stepP_swap; eauto.
  - eapply stepP_done; eauto.
  - eapply stepP_extdrop; eauto.
Qed.

Lemma frun_invP sg tr : forall f f', InvF f -> InvP f -> frun sg f tr = Some f' -> InvF f' /\ InvP f'.
Proof.
  induction tr as [|e tr IH]; intros f f' I P H; simpl in H.
  - injection H as <-. auto.
  - destruct (fstep sg f e) as [f1|] eqn:E; [|discriminate].
    apply (IH f1 f'); auto; [eapply stepF; eauto|eapply stepP; eauto].
Qed.

(* ---------- progress at channel granularity ---------- *)
Definition fis_env (e : fevent) : bool := match e with FEGet _ _ | FEExtDrop => true | _ => false end.
Definition fcan_move (sg : bool) (f : fstate) : Prop :=
  exists e f', fis_env e = false /\ fstep sg f e = Some f'.

Lemma waiter_enabled sg f t g m : f_pcs f t = FWait g -> fbuf (f_chans f g) = Some m -> fcan_move sg f.
Proof.
  intros Ht Hb. exists (FERecv t). simpl. rewrite Ht, Hb. destruct m; eauto.
Qed.

Lemma fmain_enabled sg f t : InvF f -> InvP f -> fmain (f_pcs f t) = true -> fcan_move sg f.
Proof.
  intros I P Hm. unfold fcan_move.
  destruct (f_pcs f t) as [|c|g| |old|nw o|oi ap|r k|r|r|r] eqn:Hpc; try discriminate.
  - exists (FEPrepare t false). simpl. rewrite Hpc. eauto.
  - exists (FECommit t). simpl. rewrite Hpc. destruct old as [o|]; [|eauto].
    destruct (apply_changes (idx o) (map snd (f_items f))) as [|new]; [eauto|].
    destruct (negb (is_nil new) || sg); [eauto|]. destruct o; eauto.
  - exists (FEPut t true). simpl. rewrite Hpc. eauto.
  - exists (FEDel t true). simpl. rewrite Hpc. eauto.
  - (* complete(): close, or a send - when the buffer is full some member has not received yet *)
    assert (Hr : r = ROk \/ r <> ROk) by (destruct r; auto; right; discriminate).
    destruct Hr as [->|Hr]; [exists (FENotify t); simpl; rewrite Hpc; eauto|].
    destruct k as [|k2]; [exists (FENotify t); simpl; rewrite Hpc; destruct r; try congruence; eauto|].
    destruct (fbuf (f_chans f (f_gen f))) as [m|] eqn:Hb.
    + pose proof (p_cnt f P t r _ Hpc Hr) as Hn. unfold cur in Hn. rewrite Hb in Hn. simpl in Hn.
      destruct (count_ex (fun x => waits_pc (f_gen f) (f_pcs f x)) (fbatch f)) as (x & Hx & Hw).
      { unfold nwait, nwait_of in Hn. lia. }
      apply waits_pc_true in Hw. exact (waiter_enabled sg f x _ m Hw Hb).
    + exists (FENotify t). simpl. rewrite Hpc, Hb. destruct r; try congruence; eauto.
  - exists (FESwap t). simpl. rewrite Hpc. eauto.
Qed.

(* a caller inside Do / the release function: some step other than a new call is enabled -
   in particular a blocked send of complete() always has a receiver, and a caller blocked on
   the status channel of an earlier batch always finds its status *)
Lemma fine_progress sg f :
  InvF f -> InvP f -> (exists t, fholding (f_pcs f t) = true) -> fcan_move sg f.
Proof.
  intros I P (t & Ht).
  assert (Hitems : f_items f <> [] -> fcan_move sg f).
  { intro Hni. destruct (f_tom f I Hni) as [Htok|(tm & Hm)]; [|eapply fmain_enabled; eauto].
    destruct (f_items f) as [|[t1 c1] rest] eqn:Ei; [congruence|].
    assert (Hin : In (t1, c1) (f_items f)) by (rewrite Ei; now left).
    destruct (f_it f I t1 c1 Hin) as [Hw|[Hm|[(tm & Hm) _]]].
    - eapply waiter_enabled; eauto.
    - eapply fmain_enabled; eauto.
    - apply (fmain_enabled sg f tm I P). now apply fwindow_main. }
  destruct (f_pcs f t) as [|c|g| |old|nw o|oi ap|r k|r|r|r] eqn:Hpc; try discriminate;
    try (apply (fmain_enabled sg f t I P); rewrite Hpc; reflexivity).
  - exists (FEAssign t). simpl. rewrite Hpc. destruct (f_committed f); eauto.
  - destruct (f_wt f I t g Hpc) as (Hle & Hcur & Hpend).
    assert (Hcase : (g < f_gen f)%nat \/ g = f_gen f \/ g = S (f_gen f)) by lia.
    destruct Hcase as [Hlt|[-> | ->]].
    + destruct (p_old f P t g Hpc Hlt) as [Hc|(r & Hb)]; [|eapply waiter_enabled; eauto].
      destruct (fbuf (f_chans f g)) as [m|] eqn:Hb; [eapply waiter_enabled; eauto|].
      exists (FERecv t). simpl. rewrite Hpc, Hb, Hc. eauto.
    + apply Hitems. intro E. specialize (Hcur eq_refl). unfold fbatch in Hcur. rewrite E in Hcur. destruct Hcur.
    + apply Hitems. intro E. destruct (f_emp f I E) as (_ & Ep). specialize (Hpend eq_refl). rewrite Ep in Hpend. destruct Hpend.
  - destruct (f_pl f I) as (hs & _ & Hin & Hp).
    assert (Hh : In t hs) by (apply Hin; rewrite Hpc; reflexivity).
    destruct (f_pool f) as [rc|] eqn:Epool; [|subst hs; destruct Hh].
    exists (FEDone t). simpl. rewrite Hpc, Epool. eauto.
Qed.

Lemma fine_no_deadlock sg r0 st0 tr f :
  frun sg (finit r0 st0) tr = Some f -> (exists t, fholding (f_pcs f t) = true) -> fcan_move sg f.
Proof.
  intros H Hh. destruct (frun_invP sg tr _ _ (invF_init r0 st0) (invP_init r0 st0) H) as (I & P).
  now apply fine_progress.
Qed.

Lemma fine_reachable_inv sg r0 st0 tr f :
  frun sg (finit r0 st0) tr = Some f -> InvF f /\ InvP f.
Proof. intro H. exact (frun_invP sg tr _ _ (invF_init r0 st0) (invP_init r0 st0) H). Qed.

(* ---------- bounded completion at channel granularity ---------- *)
(* weight of a caller's state; N bounds the size of a batch (the number of callers around) *)
Definition fweight (N : nat) (p : fpc) : nat :=
  match p with
  | FIdle | FDone _ => 0
  | FRet _ => 1
  | FSwap _ => 2
  | FNotify _ k => 3 + k
  | FNeedDel _ _ => N + 3
  | FNeedPut _ _ => N + 4
  | FPrepared _ => N + 5
  | FPrep => N + 6
  | FWait _ => N + 7
  | FGot _ => N + 8
  end%nat.

Definition fmu (N : nat) (L : list tid) (f : tid -> fpc) : nat := list_sum (map (fun t => fweight N (f t)) L).

Lemma fmu_le N L f g : (forall x, fweight N (g x) <= fweight N (f x))%nat -> (fmu N L g <= fmu N L f)%nat.
Proof. intro H. unfold fmu. induction L as [|h l IH]; simpl; [lia|]. specialize (H h). lia. Qed.

Lemma fmu_lt N L f g t :
  (forall x, fweight N (g x) <= fweight N (f x))%nat -> In t L -> (fweight N (g t) < fweight N (f t))%nat ->
  (fmu N L g < fmu N L f)%nat.
Proof.
  intros H Hin Hlt. unfold fmu. induction L as [|h l IH]; simpl; [destruct Hin|].
  destruct Hin as [->|Hin].
  - pose proof (fmu_le N l f g H) as Hle. unfold fmu in Hle. lia.
  - specialize (IH Hin). specialize (H h). lia.
Qed.

Lemma fmu_upd N L f t p :
  In t L -> (fweight N p < fweight N (f t))%nat -> (fmu N L (upd f t p) < fmu N L f)%nat.
Proof.
  intros Hin Hlt. apply (fmu_lt N L f (upd f t p) t); auto.
  - intro x. destruct (Nat.eq_dec x t) as [->|Hne]; [rewrite upd_eq; lia|rewrite upd_neq; auto].
  - now rewrite upd_eq.
Qed.

Lemma fholding_upd_keep (f : tid -> fpc) t p (L : list tid) :
  In t L -> (forall x, fholding (f x) = true -> In x L) ->
  forall x, fholding (upd f t p x) = true -> In x L.
Proof.
  intros Hin H x Hx. destruct (Nat.eq_dec x t) as [->|Hne]; auto. rewrite upd_neq in Hx; auto.
Qed.

Lemma batch_le f t L :
  InvF f -> fpre (f_pcs f t) = true -> (forall x, fholding (f_pcs f x) = true -> In x L) ->
  (length (f_items f) <= length L)%nat.
Proof.
  intros I Ht HL. replace (length (f_items f)) with (length (fbatch f)) by (unfold fbatch; apply map_length).
  apply NoDup_incl_length; [apply (f_it_nd f I)|]. intros x Hx. apply HL.
  destruct (Nat.eq_dec x t) as [->|Hne]; [apply fmain_holding; now apply fpre_main|].
  rewrite (pre_others_wait f t x I Ht Hx Hne). reflexivity.
Qed.

Lemma fstep_decreases sg f e f' L :
  InvF f -> fstep sg f e = Some f' -> fis_env e = false ->
  (forall t, fholding (f_pcs f t) = true -> In t L) ->
  (fmu (length L) L (f_pcs f') < fmu (length L) L (f_pcs f))%nat /\
  (forall t, fholding (f_pcs f' t) = true -> In t L).
Proof.
  intros I H Hg HL. destruct e; try discriminate; simpl in H.
  all: destruct (f_pcs f t) as [|c0|g| |old|nw o|oi ap|r k|r|r|r] eqn:Hpc; try discriminate.
  all: assert (Hin : In t L) by (apply HL; rewrite Hpc; reflexivity).
  all: assert (Hpos : (1 <= length L)%nat) by (destruct L; [destruct Hin|simpl; lia]).
  all: try (assert (Hn : (length (f_items f) <= length L)%nat) by (apply (batch_le f t); auto; rewrite Hpc; reflexivity)).
  all: unfold fnotify, fafter_put, fset_pc, fset_reg in H.
  all: repeat match type of H with
         | match ?x with _ => _ end = Some _ => destruct x eqn:?; try discriminate
         | (if ?x then _ else _) = Some _ => destruct x eqn:?; try discriminate
         end.
  all: try (injection H as <-).
  all: unfold fnotify, fset_pc, fset_reg.
  all: try (destruct sg); try (destruct o); simpl.
  all: try solve [split; [apply fmu_upd; auto; rewrite Hpc; simpl; lia | now apply fholding_upd_keep]].
Qed.

Lemma fine_bounded_run sg L tr : forall f f',
  InvF f -> (forall t, fholding (f_pcs f t) = true -> In t L) ->
  forallb (fun e => negb (fis_env e)) tr = true -> frun sg f tr = Some f' ->
  (length tr + fmu (length L) L (f_pcs f') <= fmu (length L) L (f_pcs f))%nat.
Proof.
  induction tr as [|e tr IH]; intros f f' I HL F H; simpl in *.
  - injection H as <-. lia.
  - destruct (fstep sg f e) as [f1|] eqn:E; [|discriminate].
    apply andb_true_iff in F as [F1 F2]. apply negb_true_iff in F1.
    destruct (fstep_decreases sg f e f1 L I E F1 HL) as [Hlt HL1].
    assert (I1 : InvF f1) by (eapply stepF; eauto).
    specialize (IH f1 f' I1 HL1 F2 H). lia.
Qed.

(* from every reachable state of the channel-level system: without new calls, the number of
   steps (lock regions, channel operations, exchanges) that can still happen is bounded *)
Lemma fine_bounded_completion sg r0 st0 tr f :
  frun sg (finit r0 st0) tr = Some f ->
  exists bound, forall tr' f',
    forallb (fun e => negb (fis_env e)) tr' = true -> frun sg f tr' = Some f' ->
    (length tr' <= bound)%nat.
Proof.
  intro H. assert (I : InvF f) by (eapply frun_inv; eauto using invF_init).
  destruct (f_pl f I) as (hs & _ & Hin & _).
  exists (fmu (length hs) hs (f_pcs f)). intros tr' f' F R.
  pose proof (fine_bounded_run sg hs tr' f f' I (fun t Ht => proj2 (Hin t) Ht) F R). lia.
Qed.

(* ---------- every call can complete ---------- *)
Lemma not_holding_quiescent f : (forall t, fholding (f_pcs f t) = false) -> fquiescent f.
Proof. intros H t. specialize (H t). destruct (f_pcs f t); try discriminate; [now left|right; eauto]. Qed.

Lemma fine_terminates_from sg L : forall n f,
  InvF f -> InvP f -> (forall t, fholding (f_pcs f t) = true -> In t L) ->
  (fmu (length L) L (f_pcs f) <= n)%nat ->
  exists tr f', forallb (fun e => negb (fis_env e)) tr = true /\ frun sg f tr = Some f' /\ fquiescent f'.
Proof.
  induction n as [|n IH]; intros f I P HL Hm.
  - (* measure 0: nobody is holding (a holding caller has positive weight) *)
    exists [], f. repeat split; auto. apply not_holding_quiescent. intro t.
    destruct (fholding (f_pcs f t)) eqn:E; auto. exfalso.
    destruct (fine_progress sg f I P (ex_intro _ t E)) as (e & f1 & He & Hs).
    destruct (fstep_decreases sg f e f1 L I Hs He HL) as [Hlt _]. lia.
  - assert (Hd : (exists t, fholding (f_pcs f t) = true) \/ (forall t, fholding (f_pcs f t) = false)).
    { assert (Hl : (exists t, In t L /\ fholding (f_pcs f t) = true) \/ (forall t, In t L -> fholding (f_pcs f t) = false)).
      { clear. induction L as [|a l IHl]; [right; intros t []|].
        destruct (fholding (f_pcs f a)) eqn:E; [left; exists a; split; auto; now left|].
        destruct IHl as [(t & Hin & Ht)|Hn]; [left; exists t; split; auto; now right|].
        right. intros t [<-|Hin]; auto. }
      destruct Hl as [(t & _ & Ht)|Hn]; [left; eauto|]. right. intro t.
      destruct (fholding (f_pcs f t)) eqn:E; auto. rewrite (Hn t (HL t E)) in E. discriminate. }
    destruct Hd as [Hh|Hq]; [|exists [], f; repeat split; auto; now apply not_holding_quiescent].
    destruct (fine_progress sg f I P Hh) as (e & f1 & He & Hs).
    destruct (fstep_decreases sg f e f1 L I Hs He HL) as [Hlt HL1].
    destruct (IH f1 (stepF sg f e f1 I Hs) (stepP sg f e f1 I P Hs) HL1) as (tr & f' & F & R & Q); [lia|].
    exists (e :: tr), f'. simpl. rewrite He, Hs. auto.
Qed.

(* from every reachable state of the channel-level system the callers that are inside can all
   return and release: some run without new calls ends in a quiescent state *)
Lemma fine_terminates sg r0 st0 tr f :
  frun sg (finit r0 st0) tr = Some f ->
  exists tr' f', forallb (fun e => negb (fis_env e)) tr' = true /\ frun sg f tr' = Some f' /\ fquiescent f'.
Proof.
  intro H. destruct (fine_reachable_inv sg r0 st0 tr f H) as (I & P).
  destruct (f_pl f I) as (hs & _ & Hin & _).
  apply (fine_terminates_from sg hs (fmu (length hs) hs (f_pcs f)) f I P); auto.
  intros t Ht. now apply Hin.
Qed.
