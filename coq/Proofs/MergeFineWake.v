(* C14 — InvF: facts about the status channel; a waiter receives its status *)
From Oras Require Import Base.Prelude Model.Referrers Proofs.Referrers Model.Merge Proofs.Merge Model.MergeFine Proofs.MergeFine.
From Coq Require Import Lia.

Lemma f_window_no_token s t : InvF s -> fmain (f_pcs s t) = true -> fbuf (f_chans s (f_gen s)) <> Some FMain.
Proof. intros I Hm E. destruct (f_tok s I E) as (_ & _ & H). rewrite H in Hm. discriminate. Qed.

Lemma f_token_fresh s : InvF s -> fbuf (f_chans s (f_gen s)) = Some FMain ->
  fclosed (f_chans s (f_gen s)) = false /\ f_verdict s (f_gen s) = None.
Proof.
  intros I E. destruct (f_tok s I E) as (_ & _ & Hn).
  assert (Hv : f_verdict s (f_gen s) = None).
  { destruct (f_verdict s (f_gen s)) as [r|] eqn:Ev; auto. destruct (f_vn s I r Ev) as (t & Ht).
    apply fres_window, fwindow_main in Ht. now rewrite Hn in Ht. }
  split; auto. destruct (fclosed (f_chans s (f_gen s))) eqn:Ec; auto.
  apply (f_vc s I) in Ec. congruence.
Qed.

(* a waiter of generation g <= gen gets its status and returns; the channel of g keeps its
   closed flag and either keeps or loses its buffered value *)
Lemma invF_wake s t g r ch' :
  InvF s -> f_pcs s t = FWait g -> (g <= f_gen s)%nat ->
  (g = f_gen s -> exists tm, fwindow (f_pcs s tm) = true) ->
  (ch' = f_chans s \/ (fbuf (f_chans s g) <> Some FMain /\ ch' = upd (f_chans s) g (mkFC None (fclosed (f_chans s g))))) ->
  InvF (mkF (f_pool s) (f_committed s) (f_items s) (f_pending s) (f_gen s) ch' (upd (f_pcs s) t (FRet r))
            (f_reg s) (f_store s) (f_verdict s)).
Proof.
  intros I Hpc Hg Hwin Hch.
  assert (Hnm : fmain (f_pcs s t) = false) by now rewrite Hpc.
  assert (Hnw : fwindow (f_pcs s t) = false) by now rewrite Hpc.
  assert (Hnr : fres (f_pcs s t) = None) by now rewrite Hpc.
  assert (Hnp : forall c0, In (t, c0) (f_pending s) -> False).
  { intros c0 Hin. destruct (f_pe s I t c0 Hin) as [E _]. rewrite Hpc in E. injection E as ->. lia. }
  (* channel facts carried over *)
  assert (Hb : forall g0, fbuf (ch' g0) = fbuf (f_chans s g0) \/ (g0 = g /\ fbuf (ch' g0) = None /\ fbuf (f_chans s g) <> Some FMain)).
  { intro g0. destruct Hch as [->|[Hn ->]]; auto. tcase g0 g; auto. }
  assert (Hc : forall g0, fclosed (ch' g0) = fclosed (f_chans s g0)).
  { intro g0. destruct Hch as [->|[_ ->]]; auto. tcase g0 g; auto. }
  dI I. constructor; simpl.
  all: try solve [fsolve].
  - intros t0 c0 Hin. tcase t0 t.
    + right; right. split; [|eauto].
      destruct (f_it0 t c0 Hin) as [E|[E|[E _]]]; [|congruence|].
      * rewrite Hpc in E. injection E as ->. destruct (Hwin eq_refl) as (tm & Htm). exists tm.
        rewrite upd_neq; auto. intro; subst. congruence.
      * destruct E as (tm & Htm). exists tm. rewrite upd_neq; auto. intro; subst. congruence.
    + destruct (f_it0 t0 c0 Hin) as [E|[E|[(tm & Htm) E]]]; auto. right; right. split; auto.
      exists tm. rewrite upd_neq; auto. intro; subst. congruence.
  - intros t0 c0 Hin. assert (t0 <> t) by (intro; subst; eauto). rewrite upd_neq by auto. exact (f_pe0 t0 c0 Hin).
  - intro Hx. destruct (Hb (f_gen s)) as [E|(E1 & E2 & _)]; [|congruence]. rewrite E in Hx.
    destruct (f_tok0 Hx) as (A & B & C). repeat split; auto. intro t0. tcase t0 t; auto.
  - intro Hx. destruct (f_tom0 Hx) as [A|A].
    + destruct (Hb (f_gen s)) as [E|(E1 & E2 & E3)]; [left; congruence|]. subst g. congruence.
    + right. apply ex_keep; auto.
  - intros t0 Hx. tcase t0 t; [discriminate|]. destruct (f_qt0 t0 Hx) as (A & B & C). rewrite Hc. repeat split; auto.
    destruct (Hb (f_gen s)) as [E|(E1 & E2 & _)]; congruence.
  - intros g0 Hx. destruct (f_fut0 g0 Hx) as (A & B & C). rewrite Hc. repeat split; auto.
    destruct (Hb g0) as [E|(E1 & E2 & _)]; congruence.
  - intros g0 r0 Hx. destruct (Hb g0) as [E|(E1 & E2 & _)]; [rewrite E in Hx; eauto|congruence].
  - intros g0 Hx. destruct (Hb g0) as [E|(E1 & E2 & _)]; [rewrite E in Hx; eauto|congruence].
  - intros r0 Hx. apply ex_res_keep; auto.
  - destruct f_pl0 as (hs & A & B & C). exists hs. split; auto. split; auto.
    intro x. tcase x t; [rewrite B, Hpc; simpl; tauto | apply B].
Qed.

