(* Every schedule of programs that respect the lock discipline (Model/OciLocks.v [check]) keeps
   the references valid and leaves index.json current at quiescence; the programs of the real
   operations, assembled from the call sequences read from the sources, respect it. *)
From Coq Require Import List Arith Bool PeanoNat Lia.
From Oras Require Import Base.Prelude Generated.GC08 Model.OciIndex Proofs.OciIndex Model.OciConc Proofs.OciConc Model.OciLocks.
Import ListNotations.
Local Open Scope nat_scope.

Lemma lmode_eqb_eq a b : lmode_eqb a b = true <-> a = b.
Proof. destruct a, b; simpl; split; intro H; try discriminate; auto. Qed.
Lemma lmode_neqb a b : lmode_eqb a b = false <-> a <> b.
Proof. destruct a, b; simpl; split; intro H; try discriminate; try congruence; auto. Qed.

Lemma lupd_same f i t : lupd f i t i = t.
Proof. unfold lupd. now rewrite Nat.eqb_refl. Qed.
Lemma lupd_other f i t j : j <> i -> lupd f i t j = f j.
Proof. intro H. unfold lupd. apply Nat.eqb_neq in H. now rewrite H. Qed.

Lemma others_spec s i p : others s i p = true -> forall j, j < ll_n s -> j <> i -> p (ll_ths s j) = true.
Proof.
  unfold others. intros H j Hj Hji. rewrite forallb_forall in H.
  specialize (H j). rewrite in_seq in H. specialize (H ltac:(lia)).
  apply orb_true_iff in H as [H|H]; auto. apply Nat.eqb_eq in H. contradiction.
Qed.

(* the programs of the operations, as assembled from the generated call sequences *)
Lemma programs_explicit :
  (forall d t, prog_tag d t = [KRLock; KExists (d_node d); KReg (RegDig d); KReg (RegTag t d);
                               KSave SLock; KSave SSnap; KSave SWrite; KSave SUnlock; KRUnlock]) /\
  (forall t, prog_untag t = [KRLock; KReg (RegUntag t); KSave SLock; KSave SSnap; KSave SWrite; KSave SUnlock; KRUnlock]) /\
  prog_saveindex = [KRLock; KSave SLock; KSave SSnap; KSave SWrite; KSave SUnlock; KRUnlock] /\
  (forall k, prog_push k true = [KRLock; KCreate k; KReg (RegDig (plain k));
                                 KSave SLock; KSave SSnap; KSave SWrite; KSave SUnlock; KRUnlock]) /\
  (forall k, prog_push k false = [KRLock; KCreate k; KRUnlock]) /\
  (forall k, prog_delete k = [KWLock; KRegDelete k; KSave SLock; KSave SSnap; KSave SWrite; KSave SUnlock;
                              KRemove k; KWUnlock]) /\
  (forall g, prog_gc g = [KWLock; KRegGC g; KSave SLock; KSave SSnap; KSave SWrite; KSave SUnlock;
                          KSweep g; KWUnlock]).
Proof. repeat split; intros; vm_compute; reflexivity. Qed.

(* ... and they respect the lock discipline *)
Lemma programs_checked :
  (forall d t, check ts0 (prog_tag d t) = true) /\ (forall t, check ts0 (prog_untag t) = true) /\
  check ts0 prog_saveindex = true /\ (forall k m, check ts0 (prog_push k m) = true) /\
  (forall k, check ts0 (prog_delete k) = true) /\ (forall g, check ts0 (prog_gc g) = true).
Proof.
  destruct programs_explicit as (A & B & C & D & E & F & G).
  split; [|split; [|split; [|split; [|split]]]].
  - intros d t. rewrite A. simpl. now rewrite Nat.eqb_refl.
  - intros t. now rewrite B.
  - now rewrite C.
  - intros k m. destruct m; [rewrite D|rewrite E]; simpl; now rewrite ?Nat.eqb_refl.
  - intros k. rewrite F. simpl. now rewrite Nat.eqb_refl.
  - intros g. rewrite G. simpl. now rewrite Nat.eqb_refl.
Qed.

Lemma nodup_filter_keys (f : ref * desc -> bool) m : NoDup (map fst m) -> NoDup (map fst (filter f m)).
Proof.
  induction m as [|[k v] m IH]; simpl; intro ND; auto.
  inversion ND as [|? ? Hn ND']; subst.
  destruct (f (k, v)); simpl; auto.
  constructor; auto. intro H. apply Hn. apply in_map_iff in H as ((k', v') & E & I0).
  simpl in E. subst. apply filter_In in I0 as [I0 _]. apply in_map_iff. exists (k, v'). auto.
Qed.
Lemma lookup_filter (f : ref * desc -> bool) m r : NoDup (map fst m) ->
  lookup r (filter f m) = match lookup r m with Some d => if f (r, d) then Some d else None | None => None end.
Proof.
  induction m as [|[k v] m IH]; simpl; intro ND; auto.
  inversion ND as [|? ? Hn ND']; subst.
  destruct (ref_eqb r k) eqn:E.
  - apply ref_eqb_eq in E. subst k. destruct (f (r, v)) eqn:F; simpl.
    + now rewrite ref_eqb_refl.
    + rewrite (IH ND'). destruct (lookup r m) as [d|] eqn:L; auto.
      exfalso. apply Hn. apply lookup_Some_In in L. apply in_map_iff. exists (r, d). auto.
  - destruct (f (k, v)); simpl; [rewrite E|]; now apply IH.
Qed.
Lemma ixinv_delete_refs k ix : IxInv ix -> IxInv (delete_refs k ix).
Proof.
  intro I. unfold delete_refs.
  set (f := fun kv : ref * desc => negb (Nat.eqb (d_node (snd kv)) k)).
  assert (ND : NoDup (map fst ix)) by apply I.
  split.
  - now apply nodup_filter_keys.
  - intros k' d H. rewrite (lookup_filter f ix _ ND) in H.
    destruct (lookup (RDig k') ix) as [d0|] eqn:L; [|discriminate].
    destruct (f (RDig k', d0)); [|discriminate]. injection H as <-. now apply (ix_j2 _ I).
  - intros t d H. rewrite (lookup_filter f ix _ ND) in H.
    destruct (lookup (RTag t) ix) as [d0|] eqn:L; [|discriminate].
    destruct (f (RTag t, d0)) eqn:F; [|discriminate]. injection H as <-.
    pose proof (ix_j1 _ I _ _ L) as X. rewrite (lookup_filter f ix _ ND).
    destruct (lookup (RDig (d_node d0)) ix) as [d1|] eqn:L1; [|congruence].
    pose proof (ix_j2 _ I _ _ L1) as E1. unfold f in *. simpl in *. rewrite E1, F. congruence.
Qed.

Lemma ixinv_node_filter (keep : nat -> bool) ix : IxInv ix -> IxInv (gc_refs keep ix).
Proof.
  intro I. unfold gc_refs.
  set (f := fun kv : ref * desc => keep (d_node (snd kv))).
  assert (ND : NoDup (map fst ix)) by apply I.
  split.
  - now apply nodup_filter_keys.
  - intros k' d H. rewrite (lookup_filter f ix _ ND) in H.
    destruct (lookup (RDig k') ix) as [d0|] eqn:L; [|discriminate].
    destruct (f (RDig k', d0)); [|discriminate]. injection H as <-. now apply (ix_j2 _ I).
  - intros t d H. rewrite (lookup_filter f ix _ ND) in H.
    destruct (lookup (RTag t) ix) as [d0|] eqn:L; [|discriminate].
    destruct (f (RTag t, d0)) eqn:F; [|discriminate]. injection H as <-.
    pose proof (ix_j1 _ I _ _ L) as X. rewrite (lookup_filter f ix _ ND).
    destruct (lookup (RDig (d_node d0)) ix) as [d1|] eqn:L1; [|congruence].
    pose proof (ix_j2 _ I _ _ L1) as E1. unfold f in *. simpl in *. rewrite E1, F. congruence.
Qed.

Section Inv.
  Notation md s j := (ts_mode (l_ts (ll_ths s j))).
  Notation hold s j := (ts_hold (l_ts (ll_ths s j))).
  Notation snapped s j := (ts_snapped (l_ts (ll_ths s j))).
  Notation dirty s j := (ts_dirty (l_ts (ll_ths s j))).
  Notation ver s j := (ts_ver (l_ts (ll_ths s j))).
  Notation clr s j := (ts_clr (l_ts (ll_ths s j))).
  Notation dig s j := (ts_dig (l_ts (ll_ths s j))).
  Notation gcs s j := (ts_gc (l_ts (ll_ths s j))).

  Definition some_dirty (s : lstate) : Prop := exists j, j < ll_n s /\ dirty s j = true.
  Definition current (s : lstate) : Prop := exists c, ll_disk s = save_index (fst c) (snd c) (ll_live s).

  Record LInv (s : lstate) : Prop := {
    l_gc : forall i g, i < ll_n s -> In g (gcs s i) ->
           md s i = MExcl /\ forall r d, In (r, d) (ll_live s) -> ll_keep s g (d_node d) = true;
    l_il : forall j, ll_ilock s = Some j -> j < ll_n s;
    l_ix : IxInv (ll_live s);
    l_dig : forall i k, i < ll_n s -> In k (dig s i) -> l_ok (ll_ths s i) = true -> lookup (RDig k) (ll_live s) <> None;
    l_chk : forall i, i < ll_n s -> check (l_ts (ll_ths s i)) (l_prog (ll_ths s i)) = true;
    l_hold : forall i, i < ll_n s -> (hold s i = true <-> ll_ilock s = Some i);
    l_excl : forall i j, i < ll_n s -> j < ll_n s -> md s i = MExcl -> j <> i -> md s j = MNone;
    l_none : forall i, i < ll_n s -> md s i = MNone ->
             hold s i = false /\ dirty s i = false /\ snapped s i = false /\ ver s i = [] /\ clr s i = [] /\ dig s i = [];
    l_shared : forall i, i < ll_n s -> md s i = MShared -> clr s i = [];
    l_snapped : forall i, i < ll_n s -> snapped s i = true ->
                hold s i = true /\ exists v, l_snap (ll_ths s i) = Some v /\ (v = ll_live s \/ some_dirty s);
    l_disk : (forall i, i < ll_n s -> snapped s i = false) -> current s \/ some_dirty s;
    l_ver : forall i k, i < ll_n s -> In k (ver s i) -> l_ok (ll_ths s i) = true -> In k (ll_blobs s);
    l_refs : refs_valid s;
    l_clr : forall i k, i < ll_n s -> In k (clr s i) ->
            forall r d, In (r, d) (ll_live s) -> d_node d <> k }.

  Lemma linv_init s : l_init s -> IxInv (ll_live s) -> LInv s.
  Proof.
    intros (Hd & Hr & Hl & Ht) Hix. split.
    - intros i g Hi X. destruct (Ht i Hi) as (A & _). rewrite A in X. destruct X.
    - intros j E. congruence.
    - exact Hix.
    - intros i k Hi X. destruct (Ht i Hi) as (A & _). rewrite A in X. destruct X.
    - intros i Hi. destruct (Ht i Hi) as (A & _ & _ & C). now rewrite A.
    - intros i Hi. destruct (Ht i Hi) as (A & _). rewrite A, Hl. simpl. split; discriminate.
    - intros i j Hi Hj E. destruct (Ht i Hi) as (A & _). rewrite A in E. discriminate.
    - intros i Hi _. destruct (Ht i Hi) as (A & _). rewrite A. simpl. repeat split; reflexivity.
    - intros i Hi _. destruct (Ht i Hi) as (A & _). now rewrite A.
    - intros i Hi E. destruct (Ht i Hi) as (A & _). rewrite A in E. discriminate.
    - intros _. now left.
    - intros i k Hi I. destruct (Ht i Hi) as (A & _). rewrite A in I. destruct I.
    - exact Hr.
    - intros i k Hi I. destruct (Ht i Hi) as (A & _). rewrite A in I. destruct I.
  Qed.

  Lemma in_rset r d m r' d' : In (r', d') (rset r d m) -> (r' = r /\ d' = d) \/ In (r', d') m.
  Proof.
    unfold rset. intros [H|H]; [injection H as <- <-; now left|]. right.
    unfold runset in H. now apply filter_In in H as [H _].
  Qed.
  Lemma in_runset r m r' d' : In (r', d') (runset r m) -> In (r', d') m.
  Proof. unfold runset. intro H. now apply filter_In in H as [H _]. Qed.

  Ltac dj j i := destruct (Nat.eq_dec j i) as [->|?]; [rewrite ?lupd_same in *|rewrite ?lupd_other in * by auto].

  (* frame: a step of thread i that changes neither the shared state nor the dirty flags of others *)
  Lemma some_dirty_mono (s s' : lstate) :
    ll_n s' = ll_n s -> (forall j, j < ll_n s -> dirty s j = true -> dirty s' j = true) ->
    some_dirty s -> some_dirty s'.
  Proof. intros En H (j & Hj & D). exists j. rewrite En. auto. Qed.

  Lemma linv_step s i c s' : LInv s -> l_step i c s = Some s' -> LInv s'.
  Proof.
    intros I H. unfold l_step in H.
    destruct (Nat.ltb i (ll_n s)) eqn:Li; [|discriminate]. apply Nat.ltb_lt in Li. simpl in H.
    pose proof (l_chk s I i Li) as Ck.
    destruct (l_prog (ll_ths s i)) as [|st p] eqn:P; [discriminate|].
    simpl in Ck. apply andb_true_iff in Ck as [Ok Ck].
    set (t := ll_ths s i) in *. set (a := l_ts t) in *.
    (* who holds indexLock / is snapped *)
    assert (HoldU : forall j, j < ll_n s -> hold s i = true -> hold s j = true -> j = i).
    { intros j Hj Hi Hh. apply (l_hold s I i Li) in Hi. apply (l_hold s I j Hj) in Hh. congruence. }
    destruct st as [ | | | |k|k|r|k|sv|k|g0|g0].
    - (* KRLock *)
      destruct (others s i _) eqn:G; [|discriminate]. injection H as <-.
      pose proof (others_spec s i _ G) as NoX. simpl in Ok. apply lmode_eqb_eq in Ok.
      destruct (l_none s I i Li Ok) as (Nh & Nd & Ns & Nv & Nc). fold t a in Nh, Nd, Ns, Nv, Nc.
      split; simpl.
      + intros j g Hj. dj j i; simpl; [tauto|now apply (l_gc s I)].
      + intros j0 E0. now apply (l_il s I).
      + apply (l_ix s I).
      + intros j k' Hj. dj j i; simpl; [tauto|now apply (l_dig s I)].
      + intros j Hj. dj j i; simpl; auto. now apply (l_chk s I).
      + intros j Hj. dj j i; simpl; [apply (l_hold s I i Li)|now apply (l_hold s I)].
      + intros x y Hx Hy. dj x i; dj y i; simpl; try congruence; try discriminate.
        * intros E _. specialize (NoX x Hx ltac:(auto)). simpl in NoX. rewrite E in NoX. discriminate.
        * now apply (l_excl s I).
      + intros j Hj. dj j i; simpl; [discriminate|now apply (l_none s I)].
      + intros j Hj. dj j i; simpl; auto. now apply (l_shared s I).
      + intros j Hj. dj j i; simpl.
        * fold a. rewrite Ns. discriminate.
        * intro E. destruct (l_snapped s I j Hj E) as (A & v & B & [C|C]); split; auto; exists v; split; auto.
          right. apply (some_dirty_mono s); auto. intros y Hy. simpl. dj y i; auto.
      + intros Hn. destruct (l_disk s I) as [X|X].
        * intros j Hj. specialize (Hn j Hj). dj j i; auto.
        * now left.
        * right. apply (some_dirty_mono s); auto. intros y Hy. simpl. dj y i; auto.
      + intros j k Hj. dj j i; simpl; [tauto|now apply (l_ver s I)].
      + apply (l_refs s I).
      + intros j k Hj. dj j i; simpl; [tauto|now apply (l_clr s I)].
    - (* KRUnlock *)
      injection H as <-. simpl in Ok.
      apply andb_true_iff in Ok as [Ok Od]. apply andb_true_iff in Ok as [Ok Os]. apply andb_true_iff in Ok as [Om Oh].
      apply negb_true_iff in Od, Os, Oh. apply lmode_eqb_eq in Om.
      split; simpl.
      + intros j g Hj. dj j i; simpl; [tauto|now apply (l_gc s I)].
      + intros j0 E0. now apply (l_il s I).
      + apply (l_ix s I).
      + intros j k' Hj. dj j i; simpl; [tauto|now apply (l_dig s I)].
      + intros j Hj. dj j i; simpl; auto. now apply (l_chk s I).
      + intros j Hj. dj j i; simpl; [apply (l_hold s I i Li)|now apply (l_hold s I)].
      + intros x y Hx Hy. dj x i; dj y i; simpl; try congruence; try discriminate. now apply (l_excl s I).
      + intros j Hj. dj j i; simpl; [intros _; repeat split; auto|now apply (l_none s I)].
      + intros j Hj. dj j i; simpl; auto. now apply (l_shared s I).
      + intros j Hj. dj j i; simpl.
        * fold a. rewrite Os. discriminate.
        * intro E. destruct (l_snapped s I j Hj E) as (A & v & B & [C|C]); split; auto; exists v; split; auto.
          right. apply (some_dirty_mono s); auto. intros y Hy. simpl. dj y i; auto.
      + intros Hn. destruct (l_disk s I) as [X|X].
        * intros j Hj. specialize (Hn j Hj). dj j i; auto.
        * now left.
        * right. apply (some_dirty_mono s); auto. intros y Hy. simpl. dj y i; auto.
      + intros j k Hj. dj j i; simpl; [tauto|now apply (l_ver s I)].
      + apply (l_refs s I).
      + intros j k Hj. dj j i; simpl; [tauto|now apply (l_clr s I)].
    - (* KWLock *)
      destruct (others s i _) eqn:G; [|discriminate]. injection H as <-.
      pose proof (others_spec s i _ G) as NoX. simpl in Ok. apply lmode_eqb_eq in Ok.
      destruct (l_none s I i Li Ok) as (Nh & Nd & Ns & Nv & Nc). fold t a in Nh, Nd, Ns, Nv, Nc.
      split; simpl.
      + intros j g Hj. dj j i; simpl; [tauto|now apply (l_gc s I)].
      + intros j0 E0. now apply (l_il s I).
      + apply (l_ix s I).
      + intros j k' Hj. dj j i; simpl; [tauto|now apply (l_dig s I)].
      + intros j Hj. dj j i; simpl; auto. now apply (l_chk s I).
      + intros j Hj. dj j i; simpl; [apply (l_hold s I i Li)|now apply (l_hold s I)].
      + intros x y Hx Hy. dj x i; dj y i; simpl; try congruence; try discriminate.
        * intros _ _. specialize (NoX y Hy ltac:(auto)). simpl in NoX. now apply lmode_eqb_eq in NoX.
        * intros E _. specialize (NoX x Hx ltac:(auto)). simpl in NoX. apply lmode_eqb_eq in NoX. congruence.
        * now apply (l_excl s I).
      + intros j Hj. dj j i; simpl; [discriminate|now apply (l_none s I)].
      + intros j Hj. dj j i; simpl; auto. now apply (l_shared s I).
      + intros j Hj. dj j i; simpl.
        * fold a. rewrite Ns. discriminate.
        * intro E. destruct (l_snapped s I j Hj E) as (A & v & B & [C|C]); split; auto; exists v; split; auto.
          right. apply (some_dirty_mono s); auto. intros y Hy. simpl. dj y i; auto.
      + intros Hn. destruct (l_disk s I) as [X|X].
        * intros j Hj. specialize (Hn j Hj). dj j i; auto.
        * now left.
        * right. apply (some_dirty_mono s); auto. intros y Hy. simpl. dj y i; auto.
      + intros j k Hj. dj j i; simpl; [tauto|now apply (l_ver s I)].
      + apply (l_refs s I).
      + intros j k Hj. dj j i; simpl; [tauto|now apply (l_clr s I)].
    - (* KWUnlock *)
      injection H as <-. simpl in Ok.
      apply andb_true_iff in Ok as [Ok Od]. apply andb_true_iff in Ok as [Ok Os]. apply andb_true_iff in Ok as [Om Oh].
      apply negb_true_iff in Od, Os, Oh. apply lmode_eqb_eq in Om.
      split; simpl.
      + intros j g Hj. dj j i; simpl; [tauto|now apply (l_gc s I)].
      + intros j0 E0. now apply (l_il s I).
      + apply (l_ix s I).
      + intros j k' Hj. dj j i; simpl; [tauto|now apply (l_dig s I)].
      + intros j Hj. dj j i; simpl; auto. now apply (l_chk s I).
      + intros j Hj. dj j i; simpl; [apply (l_hold s I i Li)|now apply (l_hold s I)].
      + intros x y Hx Hy. dj x i; dj y i; simpl; try congruence; try discriminate. now apply (l_excl s I).
      + intros j Hj. dj j i; simpl; [intros _; repeat split; auto|now apply (l_none s I)].
      + intros j Hj. dj j i; simpl; auto. now apply (l_shared s I).
      + intros j Hj. dj j i; simpl.
        * fold a. rewrite Os. discriminate.
        * intro E. destruct (l_snapped s I j Hj E) as (A & v & B & [C|C]); split; auto; exists v; split; auto.
          right. apply (some_dirty_mono s); auto. intros y Hy. simpl. dj y i; auto.
      + intros Hn. destruct (l_disk s I) as [X|X].
        * intros j Hj. specialize (Hn j Hj). dj j i; auto.
        * now left.
        * right. apply (some_dirty_mono s); auto. intros y Hy. simpl. dj y i; auto.
      + intros j k Hj. dj j i; simpl; [tauto|now apply (l_ver s I)].
      + apply (l_refs s I).
      + intros j k Hj. dj j i; simpl; [tauto|now apply (l_clr s I)].
    - (* KExists *)
      injection H as <-. simpl in Ok. apply negb_true_iff in Ok. apply lmode_neqb in Ok.
      split; simpl.
      + intros j g Hj. dj j i; simpl; now apply (l_gc s I).
      + intros j0 E0. now apply (l_il s I).
      + apply (l_ix s I).
      + intros j k' Hj. dj j i; simpl; [|now apply (l_dig s I)].
        intros X E. apply andb_true_iff in E as [E _]. now apply (l_dig s I i k').
      + intros j Hj. dj j i; simpl; auto. now apply (l_chk s I).
      + intros j Hj. dj j i; simpl; [apply (l_hold s I i Li)|now apply (l_hold s I)].
      + intros x y Hx Hy. dj x i; dj y i; simpl; try congruence; now apply (l_excl s I).
      + intros j Hj. dj j i; simpl; [intro E; fold a in Ok; congruence|now apply (l_none s I)].
      + intros j Hj. dj j i; simpl; now apply (l_shared s I).
      + intros j Hj. dj j i; simpl; intro E; destruct (l_snapped s I _ ltac:(eassumption) E) as (A & v & B & [C|C]);
          split; auto; exists v; split; auto; right; apply (some_dirty_mono s); auto; intros y Hy; simpl; dj y i; auto.
      + intros Hn. destruct (l_disk s I) as [X|X].
        * intros j Hj. specialize (Hn j Hj). dj j i; auto.
        * now left.
        * right. apply (some_dirty_mono s); auto. intros y Hy. simpl. dj y i; auto.
      + intros j k' Hj. dj j i; simpl; [|now apply (l_ver s I)].
        intros [<-|X] E; apply andb_true_iff in E as [E1 E2]; [now apply mem_In|]. now apply (l_ver s I i).
      + apply (l_refs s I).
      + intros j k' Hj. dj j i; simpl; now apply (l_clr s I).
    - (* KCreate *)
      injection H as <-. simpl in Ok. apply negb_true_iff in Ok. apply lmode_neqb in Ok.
      split; simpl.
      + intros j g Hj. dj j i; simpl; now apply (l_gc s I).
      + intros j0 E0. now apply (l_il s I).
      + apply (l_ix s I).
      + intros j k' Hj. dj j i; simpl; now apply (l_dig s I).
      + intros j Hj. dj j i; simpl; auto. now apply (l_chk s I).
      + intros j Hj. dj j i; simpl; [apply (l_hold s I i Li)|now apply (l_hold s I)].
      + intros x y Hx Hy. dj x i; dj y i; simpl; try congruence; now apply (l_excl s I).
      + intros j Hj. dj j i; simpl; [intro E; fold a in Ok; congruence|now apply (l_none s I)].
      + intros j Hj. dj j i; simpl; now apply (l_shared s I).
      + intros j Hj. dj j i; simpl; intro E; destruct (l_snapped s I _ ltac:(eassumption) E) as (A & v & B & [C|C]);
          split; auto; exists v; split; auto; right; apply (some_dirty_mono s); auto; intros y Hy; simpl; dj y i; auto.
      + intros Hn. destruct (l_disk s I) as [X|X].
        * intros j Hj. specialize (Hn j Hj). dj j i; auto.
        * now left.
        * right. apply (some_dirty_mono s); auto. intros y Hy. simpl. dj y i; auto.
      + intros j k' Hj. dj j i; simpl.
        * intros [<-|X] E; apply In_add; [now left|]. right. now apply (l_ver s I i).
        * intros X E. apply In_add. right. now apply (l_ver s I j).
      + intros r' d' X. apply In_add. right. now apply (l_refs s I r' d').
      + intros j k' Hj. dj j i; simpl; now apply (l_clr s I).
    - (* KReg *)
      injection H as <-. simpl in Ok. apply andb_true_iff in Ok as [Ok Ogc]. apply andb_true_iff in Ok as [Ok Og]. apply andb_true_iff in Ok as [Om Ov].
      apply negb_true_iff in Om. apply lmode_neqb in Om.
      assert (NoClr : forall j, j < ll_n s -> j <> i -> clr s j = []).
      { intros j Hj Hji. destruct (md s j) eqn:E.
        - now apply (l_none s I j Hj E).
        - now apply (l_shared s I j Hj E).
        - exfalso. apply Om. fold a. apply (l_excl s I j i Hj Li E). congruence. }
      assert (SD : some_dirty (mkLS (if l_ok t then reg_fun r (ll_live s) else ll_live s) (ll_disk s) (ll_blobs s)
                                    (ll_ilock s) (ll_n s) (lupd (ll_ths s) i (mkLT p (tnext a (KReg r)) (l_snap t) (l_ok t))) (ll_keep s))).
      { exists i. split; auto. simpl. now rewrite lupd_same. }
      split; simpl.
      + intros j g Hj. dj j i; simpl.
        * intros X. fold t a in X. destruct (ts_gc a); [destruct X|discriminate Ogc].
        * intros X. exfalso. destruct (l_gc s I j g Hj X) as [E _]. apply Om. fold a.
          apply (l_excl s I j i Hj Li E). congruence.
      + intros j0 E0. now apply (l_il s I).
      + destruct (l_ok t) eqn:Okt; [|apply (l_ix s I)].
        destruct r as [d|tg d|tg]; simpl.
        * apply ixinv_set_dig, (l_ix s I).
        * apply ixinv_set_tag; [apply (l_ix s I)|]. apply mem_In in Og. now apply (l_dig s I i (d_node d)).
        * apply ixinv_untag, (l_ix s I).
      + intros j k' Hj.
        assert (Mono : lookup (RDig k') (ll_live s) <> None ->
                       lookup (RDig k') (if l_ok t then reg_fun r (ll_live s) else ll_live s) <> None).
        { intro X. destruct (l_ok t); auto. now apply reg_keeps_digests. }
        dj j i; simpl.
        * destruct r as [d|tg d|tg]; simpl.
          -- intros [<-|X] E; [rewrite E; cbn [reg_fun]; rewrite lookup_rset_eq; congruence|]. apply Mono. now apply (l_dig s I i k').
          -- intros X E. apply Mono. now apply (l_dig s I i k').
          -- intros X E. apply Mono. now apply (l_dig s I i k').
        * intros X E. apply Mono. now apply (l_dig s I j k').
      + intros j Hj. dj j i; simpl; auto. now apply (l_chk s I).
      + intros j Hj. dj j i; simpl; [apply (l_hold s I i Li)|now apply (l_hold s I)].
      + intros x y Hx Hy. dj x i; dj y i; simpl; try congruence; now apply (l_excl s I).
      + intros j Hj. dj j i; simpl; [intro E; fold a in Om; congruence|now apply (l_none s I)].
      + intros j Hj. dj j i; simpl; now apply (l_shared s I).
      + intros j Hj. dj j i; simpl; intro E; destruct (l_snapped s I _ ltac:(eassumption) E) as (A & v & B & _);
          split; auto; exists v; split; auto.
      + intros _. now right.
      + intros j k' Hj. dj j i; simpl; now apply (l_ver s I).
      + intros r' d' X. destruct (l_ok t) eqn:Okt; [|now apply (l_refs s I r' d')].
        destruct r as [d|tg d|tg]; simpl in X, Ov.
        * apply in_rset in X as [[-> ->]|X]; [|now apply (l_refs s I r' d')].
          apply andb_true_iff in Ov as [Ov _]. apply mem_In in Ov. now apply (l_ver s I i (d_node d)).
        * apply in_rset in X as [[-> ->]|X]; [|now apply (l_refs s I r' d')].
          apply andb_true_iff in Ov as [Ov _]. apply mem_In in Ov. now apply (l_ver s I i (d_node d)).
        * apply in_runset in X. now apply (l_refs s I r' d').
      + intros j k' Hj. dj j i; simpl.
        * intros Ik r' d' X. destruct (l_ok t); [|now apply (l_clr s I i k' Li Ik r' d')].
          destruct r as [d|tg d|tg]; simpl in X, Ov.
          -- apply in_rset in X as [[-> ->]|X]; [|now apply (l_clr s I i k' Li Ik r' d')].
             apply andb_true_iff in Ov as [_ Ov]. apply negb_true_iff in Ov. apply mem_false in Ov.
             intro E. apply Ov. now rewrite E.
          -- apply in_rset in X as [[-> ->]|X]; [|now apply (l_clr s I i k' Li Ik r' d')].
             apply andb_true_iff in Ov as [_ Ov]. apply negb_true_iff in Ov. apply mem_false in Ov.
             intro E. apply Ov. now rewrite E.
          -- apply in_runset in X. now apply (l_clr s I i k' Li Ik r' d').
        * intros Ik. rewrite (NoClr j Hj) in Ik by auto. destruct Ik.
    - (* KRegDelete *)
      injection H as <-. simpl in Ok. apply lmode_eqb_eq in Ok.
      assert (SD : some_dirty (mkLS (delete_refs k (ll_live s)) (ll_disk s) (ll_blobs s)
                                    (ll_ilock s) (ll_n s) (lupd (ll_ths s) i (mkLT p (tnext a (KRegDelete k)) (l_snap t) (l_ok t))) (ll_keep s))).
      { exists i. split; auto. simpl. now rewrite lupd_same. }
      assert (Sub : forall r' d', In (r', d') (delete_refs k (ll_live s)) -> In (r', d') (ll_live s) /\ d_node d' <> k).
      { intros r' d' X. unfold delete_refs in X. apply filter_In in X as [X Y]. split; auto.
        simpl in Y. apply negb_true_iff in Y. now apply Nat.eqb_neq in Y. }
      split; simpl.
      + intros j g Hj. dj j i; simpl.
        * intros X. destruct (l_gc s I i g Li X) as [M K]. split; auto. intros r' d' Y. apply Sub in Y as [Y _]. now apply (K r' d').
        * intros X. exfalso. destruct (l_gc s I j g Hj X) as [E _].
          assert (Z : md s i = MNone) by (apply (l_excl s I j i Hj Li E); congruence). fold t a in Z. congruence.
      + intros j0 E0. now apply (l_il s I).
      + apply ixinv_delete_refs, (l_ix s I).
      + intros j k' Hj. dj j i; simpl; [tauto|].
        intros X. exfalso. assert (E : md s j = MNone) by (apply (l_excl s I i j Li Hj); auto).
        destruct (l_none s I j Hj E) as (_ & _ & _ & _ & _ & G). rewrite G in X. destruct X.
      + intros j Hj. dj j i; simpl; auto. now apply (l_chk s I).
      + intros j Hj. dj j i; simpl; [apply (l_hold s I i Li)|now apply (l_hold s I)].
      + intros x y Hx Hy. dj x i; dj y i; simpl; try congruence; now apply (l_excl s I).
      + intros j Hj. dj j i; simpl; [intro E; fold a in Ok; congruence|now apply (l_none s I)].
      + intros j Hj. dj j i; simpl; [intro E; fold a in Ok; congruence|now apply (l_shared s I)].
      + intros j Hj. dj j i; simpl; intro E; destruct (l_snapped s I _ ltac:(eassumption) E) as (A & v & B & _);
          split; auto; exists v; split; auto.
      + intros _. now right.
      + intros j k' Hj. dj j i; simpl; now apply (l_ver s I).
      + intros r' d' X. apply Sub in X as [X _]. now apply (l_refs s I r' d').
      + intros j k' Hj. dj j i; simpl.
        * intros [<-|Ik] r' d' X; apply Sub in X as [X Y]; auto. now apply (l_clr s I i k' Li Ik r' d').
        * intros Ik r' d' X. apply Sub in X as [X _]. now apply (l_clr s I j k' Hj Ik r' d').
    - (* KSave *)
      destruct sv.
      + (* SLock *)
        destruct (ll_ilock s) eqn:Il; [discriminate|]. injection H as <-. simpl in Ok.
        apply andb_true_iff in Ok as [Om Oh]. apply negb_true_iff in Om, Oh. apply lmode_neqb in Om.
        split; simpl.
        * intros j g Hj. dj j i; simpl; now apply (l_gc s I).
        * intros j0 E0. injection E0 as <-. exact Li.
        * apply (l_ix s I).
        * intros j k' Hj. dj j i; simpl; now apply (l_dig s I).
        * intros j Hj. dj j i; simpl; auto. now apply (l_chk s I).
        * intros j Hj. dj j i; simpl; [tauto|].
          split; intro X; [|congruence]. apply (l_hold s I j Hj) in X. congruence.
        * intros x y Hx Hy. dj x i; dj y i; simpl; try congruence; now apply (l_excl s I).
        * intros j Hj. dj j i; simpl; [intro E; fold a in Om; congruence|now apply (l_none s I)].
        * intros j Hj. dj j i; simpl; now apply (l_shared s I).
        * intros j Hj. dj j i; simpl; intro E.
          -- exfalso. destruct (l_snapped s I i Li E) as (A & _). fold t a in A. congruence.
          -- destruct (l_snapped s I j Hj E) as (A & v & B & [C|C]); split; auto; exists v; split; auto.
             right. apply (some_dirty_mono s); auto. intros y Hy. simpl. dj y i; auto.
        * intros Hn. destruct (l_disk s I) as [X|X].
          -- intros j Hj. specialize (Hn j Hj). dj j i; auto.
          -- now left.
          -- right. apply (some_dirty_mono s); auto. intros y Hy. simpl. dj y i; auto.
        * intros j k' Hj. dj j i; simpl; now apply (l_ver s I).
        * apply (l_refs s I).
        * intros j k' Hj. dj j i; simpl; now apply (l_clr s I).
      + (* SSnap *)
        injection H as <-. simpl in Ok.
        split; simpl.
        * intros j g Hj. dj j i; simpl; now apply (l_gc s I).
        * intros j0 E0. now apply (l_il s I).
        * apply (l_ix s I).
        * intros j k' Hj. dj j i; simpl; now apply (l_dig s I).
        * intros j Hj. dj j i; simpl; auto. now apply (l_chk s I).
        * intros j Hj. dj j i; simpl; [apply (l_hold s I i Li)|now apply (l_hold s I)].
        * intros x y Hx Hy. dj x i; dj y i; simpl; try congruence; now apply (l_excl s I).
        * intros j Hj. dj j i; simpl; [|now apply (l_none s I)].
          intro E. destruct (l_none s I i Li E) as (X & _). fold t a in X. congruence.
        * intros j Hj. dj j i; simpl; now apply (l_shared s I).
        * intros j Hj. dj j i; simpl; intro E.
          -- split; auto. exists (ll_live s). auto.
          -- exfalso. destruct (l_snapped s I j Hj E) as (A & _). apply n. now apply HoldU.
        * intros Hn. exfalso. specialize (Hn i Li). rewrite lupd_same in Hn. simpl in Hn. discriminate.
        * intros j k' Hj. dj j i; simpl; now apply (l_ver s I).
        * apply (l_refs s I).
        * intros j k' Hj. dj j i; simpl; now apply (l_clr s I).
      + (* SWrite *)
        injection H as <-. simpl in Ok. apply andb_true_iff in Ok as [Oh Os].
        destruct (l_snapped s I i Li Os) as (_ & v & Sv & Cur). fold t in Sv. rewrite Sv.
        split; simpl.
        * intros j g Hj. dj j i; simpl; now apply (l_gc s I).
        * intros j0 E0. now apply (l_il s I).
        * apply (l_ix s I).
        * intros j k' Hj. dj j i; simpl; now apply (l_dig s I).
        * intros j Hj. dj j i; simpl; auto. now apply (l_chk s I).
        * intros j Hj. dj j i; simpl; [apply (l_hold s I i Li)|now apply (l_hold s I)].
        * intros x y Hx Hy. dj x i; dj y i; simpl; try congruence; now apply (l_excl s I).
        * intros j Hj. dj j i; simpl; [|now apply (l_none s I)].
          intro E. destruct (l_none s I i Li E) as (X & _). fold t a in X. congruence.
        * intros j Hj. dj j i; simpl; now apply (l_shared s I).
        * intros j Hj. dj j i; simpl; intro E; [discriminate|].
          exfalso. destruct (l_snapped s I j Hj E) as (A & _). apply n. now apply HoldU.
        * intros _. destruct Cur as [->|C].
          -- left. now exists c.
          -- right. apply (some_dirty_mono s); auto. intros y Hy. simpl. dj y i; auto.
        * intros j k' Hj. dj j i; simpl; now apply (l_ver s I).
        * apply (l_refs s I).
        * intros j k' Hj. dj j i; simpl; now apply (l_clr s I).
      + (* SUnlock *)
        injection H as <-. simpl in Ok. apply andb_true_iff in Ok as [Oh Os]. apply negb_true_iff in Os.
        split; simpl.
        * intros j g Hj. dj j i; simpl; now apply (l_gc s I).
        * intros j0 E0. discriminate.
        * apply (l_ix s I).
        * intros j k' Hj. dj j i; simpl; now apply (l_dig s I).
        * intros j Hj. dj j i; simpl; auto. now apply (l_chk s I).
        * intros j Hj. dj j i; simpl; [split; discriminate|].
          split; [|discriminate]. intro X. exfalso. apply n. now apply HoldU.
        * intros x y Hx Hy. dj x i; dj y i; simpl; try congruence; now apply (l_excl s I).
        * intros j Hj. dj j i; simpl; [|now apply (l_none s I)].
          intro E. destruct (l_none s I i Li E) as (X & _). fold t a in X. congruence.
        * intros j Hj. dj j i; simpl; now apply (l_shared s I).
        * intros j Hj. dj j i; simpl; intro E; [fold a in Os; congruence|].
          exfalso. destruct (l_snapped s I j Hj E) as (A & _). apply n. now apply HoldU.
        * intros Hn. destruct (l_disk s I) as [X|X].
          -- intros j Hj. specialize (Hn j Hj). dj j i; auto.
          -- now left.
          -- right. apply (some_dirty_mono s); auto. intros y Hy. simpl. dj y i; auto.
        * intros j k' Hj. dj j i; simpl; now apply (l_ver s I).
        * apply (l_refs s I).
        * intros j k' Hj. dj j i; simpl; now apply (l_clr s I).
    - (* KRemove *)
      injection H as <-. simpl in Ok.
      apply andb_true_iff in Ok as [Ok Od]. apply andb_true_iff in Ok as [Ok Os]. apply andb_true_iff in Ok as [Ok Oh].
      apply andb_true_iff in Ok as [Om Oc]. apply lmode_eqb_eq in Om. apply mem_In in Oc.
      split; simpl.
      + intros j g Hj. dj j i; simpl; now apply (l_gc s I).
      + intros j0 E0. now apply (l_il s I).
      + apply (l_ix s I).
      + intros j k' Hj. dj j i; simpl; now apply (l_dig s I).
      + intros j Hj. dj j i; simpl; auto. now apply (l_chk s I).
      + intros j Hj. dj j i; simpl; [apply (l_hold s I i Li)|now apply (l_hold s I)].
      + intros x y Hx Hy. dj x i; dj y i; simpl; try congruence; now apply (l_excl s I).
      + intros j Hj. dj j i; simpl; [intro E; fold a in Om; congruence|now apply (l_none s I)].
      + intros j Hj. dj j i; simpl; [intro E; fold a in Om; congruence|now apply (l_shared s I)].
      + intros j Hj. dj j i; simpl; intro E; destruct (l_snapped s I _ ltac:(eassumption) E) as (A & v & B & [C|C]);
          split; auto; exists v; split; auto; right; apply (some_dirty_mono s); auto; intros y Hy; simpl; dj y i; auto.
      + intros Hn. destruct (l_disk s I) as [X|X].
        * intros j Hj. specialize (Hn j Hj). dj j i; auto.
        * now left.
        * right. apply (some_dirty_mono s); auto. intros y Hy. simpl. dj y i; auto.
      + intros j k' Hj. dj j i; simpl; [tauto|].
        intros X. exfalso. assert (E : md s j = MNone) by (apply (l_excl s I i j Li Hj); auto).
        destruct (l_none s I j Hj E) as (_ & _ & _ & V & _). rewrite V in X. destruct X.
      + intros r' d' X. apply In_del. split; [|now apply (l_refs s I r' d')].
        apply (l_clr s I i k Li Oc r' d' X).
      + intros j k' Hj. dj j i; simpl; now apply (l_clr s I).
    - (* KRegGC *)
      injection H as <-. simpl in Ok. apply lmode_eqb_eq in Ok.
      assert (SD : some_dirty (mkLS (gc_refs (ll_keep s g0) (ll_live s)) (ll_disk s) (ll_blobs s)
                                    (ll_ilock s) (ll_n s) (lupd (ll_ths s) i (mkLT p (tnext a (KRegGC g0)) (l_snap t) (l_ok t))) (ll_keep s))).
      { exists i. split; auto. simpl. now rewrite lupd_same. }
      assert (Sub : forall r' d', In (r', d') (gc_refs (ll_keep s g0) (ll_live s)) ->
                    In (r', d') (ll_live s) /\ ll_keep s g0 (d_node d') = true).
      { intros r' d' X. unfold gc_refs in X. now apply filter_In in X. }
      split; simpl.
      + intros j g Hj. dj j i; simpl.
        * intros [<-|X].
          -- split; auto. intros r' d' Y. now apply Sub in Y.
          -- destruct (l_gc s I i g Li X) as [M K]. split; auto. intros r' d' Y. apply Sub in Y as [Y _]. now apply (K r' d').
        * intros X. exfalso. destruct (l_gc s I j g Hj X) as [E _].
          assert (Z : md s i = MNone) by (apply (l_excl s I j i Hj Li E); congruence). fold t a in Z. congruence.
      + intros j0 E0. now apply (l_il s I).
      + apply ixinv_node_filter, (l_ix s I).
      + intros j k' Hj. dj j i; simpl; [tauto|].
        intros X. exfalso. assert (E : md s j = MNone) by (apply (l_excl s I i j Li Hj); auto).
        destruct (l_none s I j Hj E) as (_ & _ & _ & _ & _ & G). rewrite G in X. destruct X.
      + intros j Hj. dj j i; simpl; auto. now apply (l_chk s I).
      + intros j Hj. dj j i; simpl; [apply (l_hold s I i Li)|now apply (l_hold s I)].
      + intros x y Hx Hy. dj x i; dj y i; simpl; try congruence; now apply (l_excl s I).
      + intros j Hj. dj j i; simpl; [intro E; fold a in Ok; congruence|now apply (l_none s I)].
      + intros j Hj. dj j i; simpl; [intro E; fold a in Ok; congruence|now apply (l_shared s I)].
      + intros j Hj. dj j i; simpl; intro E; destruct (l_snapped s I _ ltac:(eassumption) E) as (A & v & B & _);
          split; auto; exists v; split; auto.
      + intros _. now right.
      + intros j k' Hj. dj j i; simpl; now apply (l_ver s I).
      + intros r' d' X. apply Sub in X as [X _]. now apply (l_refs s I r' d').
      + intros j k' Hj. dj j i; simpl; intros Ik r' d' X; apply Sub in X as [X _].
        * now apply (l_clr s I i k' Li Ik r' d').
        * now apply (l_clr s I j k' Hj Ik r' d').
    - (* KSweep *)
      injection H as <-. simpl in Ok.
      apply andb_true_iff in Ok as [Ok Od]. apply andb_true_iff in Ok as [Ok Os]. apply andb_true_iff in Ok as [Ok Oh].
      apply andb_true_iff in Ok as [Om Oc]. apply lmode_eqb_eq in Om. apply mem_In in Oc.
      destruct (l_gc s I i g0 Li Oc) as [_ Kept].
      split; simpl.
      + intros j g Hj. dj j i; simpl; now apply (l_gc s I).
      + intros j0 E0. now apply (l_il s I).
      + apply (l_ix s I).
      + intros j k' Hj. dj j i; simpl; now apply (l_dig s I).
      + intros j Hj. dj j i; simpl; auto. now apply (l_chk s I).
      + intros j Hj. dj j i; simpl; [apply (l_hold s I i Li)|now apply (l_hold s I)].
      + intros x y Hx Hy. dj x i; dj y i; simpl; try congruence; now apply (l_excl s I).
      + intros j Hj. dj j i; simpl; [intro E; fold a in Om; congruence|now apply (l_none s I)].
      + intros j Hj. dj j i; simpl; [intro E; fold a in Om; congruence|now apply (l_shared s I)].
      + intros j Hj. dj j i; simpl; intro E; destruct (l_snapped s I _ ltac:(eassumption) E) as (A & v & B & [C|C]);
          split; auto; exists v; split; auto; right; apply (some_dirty_mono s); auto; intros y Hy; simpl; dj y i; auto.
      + intros Hn. destruct (l_disk s I) as [X|X].
        * intros j Hj. specialize (Hn j Hj). dj j i; auto.
        * now left.
        * right. apply (some_dirty_mono s); auto. intros y Hy. simpl. dj y i; auto.
      + intros j k' Hj. dj j i; simpl; [tauto|].
        intros X. exfalso. assert (E : md s j = MNone) by (apply (l_excl s I i j Li Hj); auto).
        destruct (l_none s I j Hj E) as (_ & _ & _ & V & _). rewrite V in X. destruct X.
      + intros r' d' X. apply filter_In. split; [now apply (l_refs s I r' d')|now apply (Kept r' d')].
      + intros j k' Hj. dj j i; simpl; now apply (l_clr s I).
  Qed.

  Lemma linv_run sched : forall s, LInv s -> LInv (l_run sched s).
  Proof.
    induction sched as [|[i c] r IH]; intros s I; simpl; auto.
    apply IH. destruct (l_step i c s) eqn:E; auto. eapply linv_step; eauto.
  Qed.

  (* every schedule of any number of threads running programs that respect the lock discipline:
     once all have returned, index.json is current, every reference points to a blob file, and
     no lock is held *)
  Theorem locks_quiescent s0 sched :
    l_init s0 -> IxInv (ll_live s0) -> let s := l_run sched s0 in
    IxInv (ll_live s) /\
    (l_quiescent s -> current s /\ DiskOK (ll_disk s) (ll_live s) /\ refs_valid s /\ ll_ilock s = None).
  Proof.
    intros H0 Hix s. pose proof (linv_run sched s0 (linv_init s0 H0 Hix)) as I. fold s in I.
    split; [apply (l_ix s I)|]. intro Q.
    assert (Cur : current s -> DiskOK (ll_disk s) (ll_live s)).
    { intros (c & E). rewrite E. apply save_diskok, (l_ix s I). }
    enough (X : current s /\ refs_valid s /\ ll_ilock s = None) by (destruct X as (A & B & C); auto).
    assert (N : forall i, i < ll_n s -> md s i = MNone).
    { intros i Hi. pose proof (l_chk s I i Hi) as C. rewrite (Q i Hi) in C. simpl in C. now apply lmode_eqb_eq. }
    assert (Clean : forall i, i < ll_n s -> hold s i = false /\ dirty s i = false /\ snapped s i = false).
    { intros i Hi. destruct (l_none s I i Hi (N i Hi)) as (A & B & C & _). auto. }
    split; [|split].
    - destruct (l_disk s I) as [X|(j & Hj & D)]; auto.
      + intros i Hi. now apply Clean.
      + exfalso. destruct (Clean j Hj) as (_ & B & _). congruence.
    - apply (l_refs s I).
    - destruct (ll_ilock s) as [j|] eqn:E; auto. exfalso.
      destruct (Nat.lt_ge_cases j (ll_n s)) as [Hj|Hj].
      + destruct (Clean j Hj) as (A & _). apply (l_hold s I j Hj) in E. congruence.
      + pose proof (l_il s I j E). lia.
  Qed.
End Inv.

(* ---------- threads that run lists of the real operations ---------- *)
Fixpoint run_ts (a : tstate) (p : list kstep) : tstate :=
  match p with [] => a | st :: p' => run_ts (tnext a st) p' end.

Definition ts_wf (a : tstate) : Prop := ts_mode a = MNone -> a = ts0.

Lemma ts_wf_step a st : ts_wf a -> tstep_ok a st = true -> ts_wf (tnext a st).
Proof.
  intros W Ok M. destruct a as [m h sn di v c dg gg]. destruct st as [ | | | |k|k|r|k|sv|k|g0|g0]; simpl in *;
    try discriminate; try (destruct sv; simpl in *);
    repeat match goal with H : _ && _ = true |- _ => apply andb_true_iff in H as [? ?] end;
    repeat match goal with H : negb _ = true |- _ => apply negb_true_iff in H end;
    repeat match goal with H : lmode_eqb _ _ = true |- _ => apply lmode_eqb_eq in H end;
    repeat match goal with H : lmode_eqb _ _ = false |- _ => apply lmode_neqb in H end;
    subst; try congruence; try discriminate; try reflexivity;
    try (pose proof (W M) as X; inversion X; subst; simpl in *; discriminate);
    try (pose proof (W eq_refl) as X; inversion X; subst; (discriminate || reflexivity)).
Qed.

Lemma check_app p : forall a q, ts_wf a -> check a p = true -> check ts0 q = true -> check a (p ++ q) = true.
Proof.
  induction p as [|st p IH]; intros a q W C Q; simpl in *.
  - apply lmode_eqb_eq in C. now rewrite (W C).
  - apply andb_true_iff in C as [Ok C]. rewrite Ok. simpl. apply IH; auto. now apply ts_wf_step.
Qed.

Lemma lops_checked ops : check ts0 (prog_of_lops ops) = true.
Proof.
  destruct programs_checked as (A & B & C & D & E & F).
  induction ops as [|o ops IH]; [reflexivity|]. cbn [prog_of_lops flat_map]. fold (prog_of_lops ops).
  apply check_app; [intros _; reflexivity | destruct o; cbn [prog_of_lop]; [apply A|apply B|exact C|apply D|apply E|apply F] | exact IH].
Qed.

(* any number of threads, each running any list of Tag / Untag / SaveIndex / Push / Delete calls
   (programs assembled from the call sequences of the sources), from a store at rest, under
   every schedule: at quiescence index.json is current, every live reference points to a blob
   file (so every index.json entry does), no lock is held *)
Theorem store_operations_quiescent s0 sched :
  IxInv (ll_live s0) -> current s0 -> refs_valid s0 -> ll_ilock s0 = None ->
  (forall i, i < ll_n s0 -> exists ops, ll_ths s0 i = mkLT (prog_of_lops ops) ts0 None true) ->
  let s := l_run sched s0 in
  IxInv (ll_live s) /\
  (l_quiescent s -> current s /\ DiskOK (ll_disk s) (ll_live s) /\ refs_valid s /\ ll_ilock s = None).
Proof.
  intros Hix C R L T. apply locks_quiescent; auto. split; auto. split; auto. split; auto.
  intros i Hi. destruct (T i Hi) as (ops & ->). simpl. repeat split; auto. apply lops_checked.
Qed.

(* what the reopened store answers: loadIndex of that index.json gives every tag its live
   descriptor (with the ref-name annotation set) and a digest entry exactly for the live ones *)
Corollary store_operations_reload s0 sched :
  IxInv (ll_live s0) -> current s0 -> refs_valid s0 -> ll_ilock s0 = None ->
  (forall i, i < ll_n s0 -> exists ops, ll_ths s0 i = mkLT (prog_of_lops ops) ts0 None true) ->
  let s := l_run sched s0 in
  l_quiescent s ->
  let ix' := r_index (fold_left load_res (ll_disk s) res_empty) in
  (forall t, lookup (RTag t) ix' = option_map (fun d => with_ref d (RTag t)) (lookup (RTag t) (ll_live s))) /\
  (forall k, lookup (RDig k) ix' <> None <-> lookup (RDig k) (ll_live s) <> None).
Proof.
  intros Hix C R L T s Q ix'.
  destruct (store_operations_quiescent s0 sched Hix C R L T) as [I X]. fold s in I, X.
  destruct (X Q) as (_ & D & _). split.
  - intro t. apply (reload_tag _ _ D).
  - intro k. apply (reload_dig _ _ D).
Qed.

(* the lock placements of the two seeded changes do not pass the checker *)
Lemma seeded_orders_rejected :
  check ts0 (KRLock :: map KSave [SSnap; SLock; SWrite; SUnlock] ++ [KRUnlock]) = false /\
  check ts0 [KExists 0; KRLock; KReg (RegDig (plain 0)); KSave SLock; KSave SSnap; KSave SWrite; KSave SUnlock; KRUnlock] = false.
Proof. split; vm_compute; reflexivity. Qed.

(* ... and do break the property: a Tag whose Exists precedes its RLock, against a Delete *)
Definition exl_s0 : lstate :=
  mkLS [(RDig 0, plain 0)] [plain 0] [0] None 2
    (fun i => match i with
              | 0 => mkLT [KExists 0; KRLock; KReg (RegDig (plain 0)); KReg (RegTag 5 (plain 0));
                           KSave SLock; KSave SSnap; KSave SWrite; KSave SUnlock; KRUnlock] ts0 None true
              | _ => mkLT (prog_delete 0) ts0 None true
              end) (fun _ _ => true).
Lemma unlocked_exists_refuted :
  let s := l_run (map (fun i => (i, ([], []))) [0; 1; 1; 1; 1; 1; 1; 1; 1; 0; 0; 0; 0; 0; 0; 0; 0]) exl_s0 in
  l_quiescent s /\ ll_blobs s = [] /\ lookup (RTag 5) (ll_live s) = Some (plain 0) /\
  ll_disk s = [mkDesc 0 0 (Some (RTag 5))].
Proof.
  split; [|vm_compute; repeat split].
  intros [|[|i]] Hi; [vm_compute; reflexivity|vm_compute; reflexivity|]. exfalso. vm_compute in Hi. lia.
Qed.

(* ---------- Delete with AutoGC: the cascade respects the lock discipline ---------- *)
Definition dang_steps (ds : list nat) : list kstep := flat_map (fun d => [KExists d; KReg (RegDig (plain d))]) ds.

Lemma delete_item_explicit k ds :
  prog_delete_item k ds = [KRegDelete k] ++ dang_steps ds ++
                          [KSave SLock; KSave SSnap; KSave SWrite; KSave SUnlock; KRemove k].
Proof. unfold dang_steps. vm_compute. reflexivity. Qed.

Lemma delete_auto_explicit items :
  prog_delete_auto items = KWLock :: flat_map (fun it => prog_delete_item (fst it) (snd it)) items ++ [KWUnlock].
Proof. reflexivity. Qed.

Fixpoint steps_ok (a : tstate) (p : list kstep) : bool :=
  match p with [] => true | st :: p' => tstep_ok a st && steps_ok (tnext a st) p' end.

Lemma check_app2 p : forall a q, steps_ok a p = true -> check (run_ts a p) q = true -> check a (p ++ q) = true.
Proof.
  induction p as [|st p IH]; intros a q S C; simpl in *; auto.
  apply andb_true_iff in S as [Ok S]. rewrite Ok. simpl. now apply IH.
Qed.
Lemma steps_ok_app p : forall a q, steps_ok a p = true -> steps_ok (run_ts a p) q = true -> steps_ok a (p ++ q) = true.
Proof.
  induction p as [|st p IH]; intros a q S C; simpl in *; auto.
  apply andb_true_iff in S as [Ok S]. rewrite Ok. simpl. now apply IH.
Qed.
Lemma run_ts_app p : forall a q, run_ts a (p ++ q) = run_ts (run_ts a p) q.
Proof. induction p; intros; simpl; auto. Qed.

(* the type state inside the exclusive section, between two items *)
Definition excl_clean (a : tstate) : Prop :=
  ts_mode a = MExcl /\ ts_hold a = false /\ ts_snapped a = false /\ ts_gc a = [].

Lemma dang_steps_ok ds : forall a, excl_clean a ->
  forallb (fun d => negb (mem d (ts_clr a))) ds = true ->
  steps_ok a (dang_steps ds) = true /\
  excl_clean (run_ts a (dang_steps ds)) /\ ts_clr (run_ts a (dang_steps ds)) = ts_clr a.
Proof.
  induction ds as [|d ds IH]; intros a (M & H & S & G) F; simpl in *.
  - repeat split; auto.
  - apply andb_true_iff in F as [Fd F].
    set (a1 := tnext (tnext a (KExists d)) (KReg (RegDig (plain d)))).
    assert (E1 : excl_clean a1) by (unfold a1; simpl; repeat split; auto).
    assert (C1 : ts_clr a1 = ts_clr a) by reflexivity.
    destruct (IH a1 E1) as (A & B & C); [now rewrite C1|].
    split; [|split].
    + change (tstep_ok a (KExists d) && (tstep_ok (tnext a (KExists d)) (KReg (RegDig (plain d))) &&
              steps_ok a1 (dang_steps ds)) = true).
      rewrite A. simpl. rewrite M. simpl. rewrite Nat.eqb_refl, Fd, G. reflexivity.
    + exact B.
    + change (ts_clr (run_ts a1 (dang_steps ds)) = ts_clr a). now rewrite C.
Qed.

Lemma delete_item_ok k ds a : excl_clean a -> ts_dirty a = false ->
  forallb (fun d => negb (mem d (k :: ts_clr a))) ds = true ->
  let p := prog_delete_item k ds in
  steps_ok a p = true /\ excl_clean (run_ts a p) /\ ts_dirty (run_ts a p) = false /\
  ts_clr (run_ts a p) = k :: ts_clr a.
Proof.
  intros (M & H & S & G) Dy F p. unfold p. rewrite delete_item_explicit.
  set (a1 := tnext a (KRegDelete k)).
  assert (E1 : excl_clean a1) by (unfold a1; simpl; repeat split; auto).
  destruct (dang_steps_ok ds a1 E1 F) as (A & (M2 & H2 & S2 & G2) & C2).
  remember (run_ts a1 (dang_steps ds)) as a2 eqn:Ea2.
  set (tl5 := [KSave SLock; KSave SSnap; KSave SWrite; KSave SUnlock; KRemove k]).
  assert (Tail : steps_ok a2 tl5 = true).
  { unfold tl5. simpl. rewrite M2, H2, C2. simpl. now rewrite Nat.eqb_refl. }
  assert (R : run_ts a ([KRegDelete k] ++ dang_steps ds ++ tl5) = run_ts a2 tl5).
  { change (run_ts a1 (dang_steps ds ++ tl5) = run_ts a2 tl5). now rewrite run_ts_app, <- Ea2. }
  fold tl5. rewrite R.
  split; [|split; [|split]].
  - change (tstep_ok a (KRegDelete k) && steps_ok a1 (dang_steps ds ++ tl5) = true).
    assert (T1 : tstep_ok a (KRegDelete k) = true) by (simpl; now rewrite M).
    rewrite T1. simpl. apply steps_ok_app; auto. now rewrite <- Ea2.
  - unfold tl5. simpl. repeat split; auto.
  - reflexivity.
  - unfold tl5. simpl. exact C2.
Qed.

Lemma cascade_ok items : forall a, excl_clean a -> ts_dirty a = false ->
  cascade_wf (ts_clr a) items = true ->
  check a (flat_map (fun it => prog_delete_item (fst it) (snd it)) items ++ [KWUnlock]) = true.
Proof.
  induction items as [|[k ds] items IH]; intros a E Dy W.
  - simpl. destruct E as (M & H & S & G). rewrite M, H, S, Dy. reflexivity.
  - cbn [cascade_wf] in W. apply andb_true_iff in W as [Wd W].
    destruct (delete_item_ok k ds a E Dy Wd) as (A & B & C & D).
    cbn [flat_map fst snd]. rewrite <- app_assoc. apply check_app2; auto. apply IH; auto. now rewrite D.
Qed.

(* Store.Delete with AutoGC, for every queue: the program respects the lock discipline, so
   [locks_quiescent] covers threads that run it *)
Theorem delete_auto_checked items : cascade_wf [] items = true -> check ts0 (prog_delete_auto items) = true.
Proof.
  intro W. rewrite delete_auto_explicit. simpl.
  apply (cascade_ok items (tnext ts0 KWLock)); auto. repeat split.
Qed.

(* a cascade next to a concurrent Tag, concretely: Delete of node 2 with AutoGC takes its child 1
   along and gives the dangling manifest 3 a digest reference *)
Definition exa_s0 : lstate :=
  mkLS [(RTag 0, plain 2); (RDig 2, plain 2); (RDig 1, plain 1)]
       [mkDesc 2 0 (Some (RTag 0)); plain 1] [3; 2; 1] None 2
    (fun i => match i with
              | 0 => mkLT (prog_delete_auto [(2, [3]); (1, [])]) ts0 None true
              | _ => mkLT (prog_tag (plain 1) 7) ts0 None true
              end) (fun _ _ => true).
Lemma delete_auto_example :
  cascade_wf [] [(2, [3]); (1, [])] = true /\
  (let s := l_run (map (fun i => (i, ([], []))) ([1; 1; 1] ++ repeat 0 5 ++ repeat 1 12 ++ repeat 0 30)) exa_s0 in
   l_quiescent s /\ ll_blobs s = [3] /\ ll_live s = [(RDig 3, plain 3)] /\ ll_disk s = [plain 3]).
Proof.
  split; [reflexivity|]. split; [|vm_compute; repeat split].
  intros [|[|i]] Hi; [vm_compute; reflexivity|vm_compute; reflexivity|]. exfalso. vm_compute in Hi. lia.
Qed.
