(* The exhaustive interleaving explorer used by the correspondence only produces
   states that are runs of the transition system (so the invariant theorem applies
   to every outcome the implementation is compared with). *)
From Oras Require Import Base.Prelude Generated.GC05 Model.Verify Proofs.Verify.

Section Explore.
  Variable H : str -> str -> str.

  Lemma crun_app st sched1 : forall sched2 st1,
    crun H st sched1 = Some st1 -> crun H st (sched1 ++ sched2) = crun H st1 sched2.
  Proof.
    revert st. induction sched1 as [|[i n] r IH]; intros st sched2 st1; simpl.
    - intro E; inversion E; subst; reflexivity.
    - destruct (cstep H st i n) as [st'|]; [apply IH|discriminate].
  Qed.

  Lemma explore_reachable fuel big : forall st st',
    In st' (explore H fuel big st) -> exists sched, crun H st sched = Some st'.
  Proof.
    induction fuel as [|f IH]; intros st st'; simpl; [intros []|].
    set (nexts := flat_map (fun i => match cstep H st i big with Some st1 => [st1] | None => [] end)
                           (seq 0 (length (c_thr st)))).
    assert (Hn : forall st1, In st1 nexts -> exists i, cstep H st i big = Some st1).
    { intros st1 I1. apply in_flat_map in I1 as (i & _ & I2).
      destruct (cstep H st i big) as [s|] eqn:E; [|destruct I2].
      destruct I2 as [->|[]]. exists i. exact E. }
    destruct nexts as [|n0 nr] eqn:En.
    - intros [<-|[]]. exists []. reflexivity.
    - intro I1. apply in_flat_map in I1 as (st1 & I2 & I3).
      destruct (Hn st1 I2) as (i & Es). destruct (IH _ _ I3) as (sched & Er).
      exists ((i, big) :: sched). simpl. rewrite Es. exact Er.
  Qed.

  (* every explored outcome satisfies the invariant of C05_concurrent_same_digest *)
  Lemma explore_invariant fuel big blobs ts st' :
    oci_reach H blobs -> Forall (fun t => t_pc t = PStart) ts ->
    In st' (explore H fuel big (mkC blobs ts)) ->
    forall dg bs, oci_get (c_blobs st') dg = Some bs ->
                  dg = digest_of H (alg_of dg) bs /\ valid_digest dg = true.
  Proof.
    intros R F I1. apply explore_reachable in I1 as (sched & Er).
    exact (proj1 (crun_inv H sched _ _ (cinv_start H blobs ts (oci_reach_ok H blobs R) F) Er)).
  Qed.
End Explore.

(* ------------------------------------------------------------------ concurrent pushes into one cas.Memory *)
Section MemoryConc.
  Variable H : str -> str -> str.

  Definition mthr_ok (t : mthr) : Prop :=
    match m_pc t with
    | MRead None buf => matches_desc H (d_dg (m_d t)) (d_sz (m_d t)) buf /\
                        exists rest, stream (m_evs t) = buf ++ rest
    | _ => True
    end.

  Definition minv (st : mstate) : Prop := mem_ok H (ms_mem st) /\ Forall mthr_ok (ms_thr st).

  Lemma mstep_inv st i st' : minv st -> mstep H st i = Some st' -> minv st'.
  Proof.
    intros [Om Ft]. unfold mstep. destruct (nth_error (ms_thr st) i) as [t|] eqn:Ei; [|discriminate].
    pose proof (Forall_nth_error _ _ _ _ Ft Ei) as Pt. unfold mthr_ok in Pt.
    destruct (m_pc t) as [|[e|] buf|r] eqn:Epc; [| | |discriminate].
    - destruct (match m_lim t with Some l => (d_sz (m_d t) >? l)%Z | None => false end).
      { intro E; inversion E; subst. split; auto. apply Forall_set_nth; auto; exact I. }
      destruct (mem_get (ms_mem st) (m_d t)).
      { intro E; inversion E; subst. split; auto. apply Forall_set_nth; auto; exact I. }
      destruct (read_all H (m_comb t) true (m_fuel t) _ (d_dg (m_d t)) (d_sz (m_d t))) as [[e buf] v] eqn:Er.
      intro E; inversion E; subst. split; auto. apply Forall_set_nth; auto.
      unfold mthr_ok; simpl. destruct e; [exact I|].
      apply read_all_sound in Er as (A & B & _). split; auto.
    - intro E; inversion E; subst. split; auto. apply Forall_set_nth; auto; exact I.
    - destruct (mem_get (ms_mem st) (m_d t)) eqn:G; intro E; inversion E; subst.
      + split; auto. apply Forall_set_nth; auto; exact I.
      + split; [|apply Forall_set_nth; auto; exact I]. simpl.
        intros d' bs'. rewrite mem_get_cons. destruct (desc_eqb (m_d t) d') eqn:Q.
        * apply desc_eqb_spec in Q. subst d'. intro X; inversion X; subst. apply Pt.
        * apply Om.
  Qed.

  Lemma mrun_inv sched : forall st st', minv st -> mrun H st sched = Some st' -> minv st'.
  Proof.
    induction sched as [|i r IH]; intros st st' Iv; simpl.
    - intro E; inversion E; subst; auto.
    - destruct (mstep H st i) as [st1|] eqn:Es; [|discriminate]. apply IH. eapply mstep_inv; eauto.
  Qed.

  (* any number of threads, any descriptors, any schedule: whatever the memory store
     holds at any instant matches its descriptor; a push that reports success has
     stored a prefix of its own reader (its whole content without LimitedStorage) *)
  Lemma memory_concurrent m ts sched st :
    mem_reach H m -> Forall (fun t => m_pc t = MStart) ts ->
    mrun H (mkM m ts) sched = Some st ->
    (forall d bs, mem_get (ms_mem st) d = Some bs -> matches_desc H (d_dg d) (d_sz d) bs) /\
    (forall i st' t buf, mstep H st i = Some st' -> nth_error (ms_thr st) i = Some t ->
       m_pc t = MRead None buf -> mem_get (ms_mem st) (m_d t) = None ->
       mem_get (ms_mem st') (m_d t) = Some buf /\ matches_desc H (d_dg (m_d t)) (d_sz (m_d t)) buf /\
       exists rest, stream (m_evs t) = buf ++ rest).
  Proof.
    intros R F E.
    assert (I0 : minv (mkM m ts)).
    { split; [apply mem_reach_ok; exact R|]. simpl. eapply Forall_impl; [|exact F].
      intros t Et. unfold mthr_ok. rewrite Et. exact I. }
    pose proof (mrun_inv sched _ _ I0 E) as [Om Ft]. split; [exact Om|].
    intros i st' t buf Es Ei Ep G. unfold mstep in Es. rewrite Ei, Ep, G in Es. inversion Es; subst; clear Es.
    pose proof (Forall_nth_error _ _ _ _ Ft Ei) as Pt. unfold mthr_ok in Pt. rewrite Ep in Pt.
    simpl. assert (Q : desc_eqb (m_d t) (m_d t) = true) by (apply desc_eqb_spec; reflexivity).
    rewrite Q. split; [reflexivity|exact Pt].
  Qed.

  Lemma explore_m_reachable fuel : forall st st',
    In st' (explore_m H fuel st) -> exists sched, mrun H st sched = Some st'.
  Proof.
    induction fuel as [|f IH]; intros st st'; simpl; [intros []|].
    set (nexts := flat_map (fun i => match mstep H st i with Some st1 => [st1] | None => [] end)
                           (seq 0 (length (ms_thr st)))).
    assert (Hn : forall st1, In st1 nexts -> exists i, mstep H st i = Some st1).
    { intros st1 I1. apply in_flat_map in I1 as (i & _ & I2).
      destruct (mstep H st i) as [s|] eqn:E; [|destruct I2].
      destruct I2 as [->|[]]. exists i. exact E. }
    destruct nexts as [|n0 nr] eqn:En.
    - intros [<-|[]]. exists []. reflexivity.
    - intro I1. apply in_flat_map in I1 as (st1 & I2 & I3).
      destruct (Hn st1 I2) as (i & Es). destruct (IH _ _ I3) as (sched & Er).
      exists (i :: sched). simpl. rewrite Es. exact Er.
  Qed.
End MemoryConc.

(* ------------------------------------------------------------------ the explorers are complete *)
(* Every schedule that runs to a state in which no thread can move ends in a state the
   explorer lists (given fuel for its length): the outcome sets the implementation is
   compared with are exactly the terminal states of the three transition systems (for the
   OCI system: of schedules whose Write steps are unsplit, chunk = big). *)
Section ExploreComplete.
  Variable H : str -> str -> str.
  Local Open Scope nat_scope.

  Lemma in_seq_lt i n : i < n -> In i (seq 0 n).
  Proof. intro L. apply in_seq. split; [apply Nat.le_0_l|exact L]. Qed.

  Lemma nth_error_lt {A} (l : list A) i x : nth_error l i = Some x -> i < length l.
  Proof. intro E. apply nth_error_Some. congruence. Qed.

  (* OCI *)
  Definition cterminal big (st : cstate) : Prop := forall i, cstep H st i big = None.

  Lemma cstep_index st i big st' : cstep H st i big = Some st' -> i < length (c_thr st).
  Proof.
    unfold cstep. destruct (nth_error (c_thr st) i) eqn:E; [|discriminate]. intros _. eapply nth_error_lt; eauto.
  Qed.

  Lemma explore_complete big sched : forall fuel st st',
    crun H st (map (fun i => (i, big)) sched) = Some st' -> cterminal big st' ->
    length sched < fuel -> In st' (explore H fuel big st).
  Proof.
    induction sched as [|i r IH]; intros fuel st st' E T L; (destruct fuel as [|f]; [simpl in L; exfalso; apply (Nat.nlt_0_r _ L)|]); simpl in *.
    - inversion E; subst.
      assert (N : flat_map (fun i => match cstep H st' i big with Some s => [s] | None => [] end) (seq 0 (length (c_thr st'))) = []).
      { induction (seq 0 (length (c_thr st'))) as [|a l IHl]; simpl; auto. rewrite (T a). exact IHl. }
      rewrite N. left; reflexivity.
    - destruct (cstep H st i big) as [st1|] eqn:Es; [|discriminate].
      set (nexts := flat_map (fun i => match cstep H st i big with Some s => [s] | None => [] end) (seq 0 (length (c_thr st)))).
      assert (I1 : In st1 nexts).
      { apply in_flat_map. exists i. split; [apply in_seq_lt; eapply cstep_index; eauto|]. rewrite Es. left; reflexivity. }
      destruct nexts as [|n0 nr] eqn:En; [destruct I1|].
      apply in_flat_map. exists st1. split; [exact I1|]. apply IH; auto. apply Nat.succ_lt_mono. exact L.
  Qed.

  (* cas.Memory *)
  Definition mterminal (st : mstate) : Prop := forall i, mstep H st i = None.

  Lemma mstep_index st i st' : mstep H st i = Some st' -> i < length (ms_thr st).
  Proof.
    unfold mstep. destruct (nth_error (ms_thr st) i) eqn:E; [|discriminate]. intros _. eapply nth_error_lt; eauto.
  Qed.

  Lemma explore_m_complete sched : forall fuel st st',
    mrun H st sched = Some st' -> mterminal st' -> length sched < fuel -> In st' (explore_m H fuel st).
  Proof.
    induction sched as [|i r IH]; intros fuel st st' E T L; (destruct fuel as [|f]; [simpl in L; exfalso; apply (Nat.nlt_0_r _ L)|]); simpl in *.
    - inversion E; subst.
      assert (N : flat_map (fun i => match mstep H st' i with Some s => [s] | None => [] end) (seq 0 (length (ms_thr st'))) = []).
      { induction (seq 0 (length (ms_thr st'))) as [|a l IHl]; simpl; auto. rewrite (T a). exact IHl. }
      rewrite N. left; reflexivity.
    - destruct (mstep H st i) as [st1|] eqn:Es; [|discriminate].
      set (nexts := flat_map (fun i => match mstep H st i with Some s => [s] | None => [] end) (seq 0 (length (ms_thr st)))).
      assert (I1 : In st1 nexts).
      { apply in_flat_map. exists i. split; [apply in_seq_lt; eapply mstep_index; eauto|]. rewrite Es. left; reflexivity. }
      destruct nexts as [|n0 nr] eqn:En; [destruct I1|].
      apply in_flat_map. exists st1. split; [exact I1|]. apply IH; auto. apply Nat.succ_lt_mono. exact L.
  Qed.

  (* file.Store *)
  Definition fterminal (st : fcstate) : Prop := forall i, fstep H st i = None.

  Lemma fstep_index st i st' : fstep H st i = Some st' -> i < length (fc_thr st).
  Proof.
    unfold fstep. destruct (nth_error (fc_thr st) i) eqn:E; [|discriminate]. intros _. eapply nth_error_lt; eauto.
  Qed.

  Lemma explore_f_complete sched : forall fuel st st',
    frun H st sched = Some st' -> fterminal st' -> length sched < fuel -> In st' (explore_f H fuel st).
  Proof.
    induction sched as [|i r IH]; intros fuel st st' E T L; (destruct fuel as [|f]; [simpl in L; exfalso; apply (Nat.nlt_0_r _ L)|]); simpl in *.
    - inversion E; subst.
      assert (N : flat_map (fun i => match fstep H st' i with Some s => [s] | None => [] end) (seq 0 (length (fc_thr st'))) = []).
      { induction (seq 0 (length (fc_thr st'))) as [|a l IHl]; simpl; auto. rewrite (T a). exact IHl. }
      rewrite N. left; reflexivity.
    - destruct (fstep H st i) as [st1|] eqn:Es; [|discriminate].
      set (nexts := flat_map (fun i => match fstep H st i with Some s => [s] | None => [] end) (seq 0 (length (fc_thr st)))).
      assert (I1 : In st1 nexts).
      { apply in_flat_map. exists i. split; [apply in_seq_lt; eapply fstep_index; eauto|]. rewrite Es. left; reflexivity. }
      destruct nexts as [|n0 nr] eqn:En; [destruct I1|].
      apply in_flat_map. exists st1. split; [exact I1|]. apply IH; auto. apply Nat.succ_lt_mono. exact L.
  Qed.

  (* a finished OCI race leaves nothing under ingest/ *)
  Lemma ingest_empty_when_done st :
    Forall (fun t => exists r, t_pc t = PDone r) (c_thr st) -> ingest_files st = [].
  Proof.
    unfold ingest_files. induction 1 as [|t l [r E] F IH]; simpl; auto. rewrite E. exact IH.
  Qed.
End ExploreComplete.
