(* The exhaustive interleaving explorer used by the correspondence only produces
   states that are runs of the transition system (so the invariant theorem applies
   to every outcome the implementation is compared with). *)
From Oras Require Import Base.Prelude Generated.GC05 Model.Verify Proofs.Verify.

Section Explore.
  Variable H : str -> str -> str.

  Lemma crun_app st sched1 : forall sched2 st1,
    crun H st sched1 = Some st1 -> crun H st (sched1 ++ sched2) = crun H st1 sched2.
  Proof.
    revert st. induction sched1 as [|[i n] r IH]; intros st sched2 st1; simpl.
    - intro E; inversion E; subst; reflexivity.
    - destruct (cstep H st i n) as [st'|]; [apply IH|discriminate].
  Qed.

  Lemma explore_reachable fuel big : forall st st',
    In st' (explore H fuel big st) -> exists sched, crun H st sched = Some st'.
  Proof.
    induction fuel as [|f IH]; intros st st'; simpl; [intros []|].
    set (nexts := flat_map (fun i => match cstep H st i big with Some st1 => [st1] | None => [] end)
                           (seq 0 (length (c_thr st)))).
    assert (Hn : forall st1, In st1 nexts -> exists i, cstep H st i big = Some st1).
    { intros st1 I1. apply in_flat_map in I1 as (i & _ & I2).
      destruct (cstep H st i big) as [s|] eqn:E; [|destruct I2].
      destruct I2 as [->|[]]. exists i. exact E. }
    destruct nexts as [|n0 nr] eqn:En.
    - intros [<-|[]]. exists []. reflexivity.
    - intro I1. apply in_flat_map in I1 as (st1 & I2 & I3).
      destruct (Hn st1 I2) as (i & Es). destruct (IH _ _ I3) as (sched & Er).
      exists ((i, big) :: sched). simpl. rewrite Es. exact Er.
  Qed.

  (* every explored outcome satisfies the invariant of C05_concurrent_same_digest *)
  Lemma explore_invariant fuel big blobs ts st' :
    oci_reach H blobs -> Forall (fun t => t_pc t = PStart) ts ->
    In st' (explore H fuel big (mkC blobs ts)) ->
    forall dg bs, oci_get (c_blobs st') dg = Some bs ->
                  dg = digest_of H (alg_of dg) bs /\ valid_digest dg = true.
  Proof.
    intros R F I1. apply explore_reachable in I1 as (sched & Er).
    exact (proj1 (crun_inv H sched _ _ (cinv_start H blobs ts (oci_reach_ok H blobs R) F) Er)).
  Qed.
End Explore.
