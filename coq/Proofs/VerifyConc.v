(* The exhaustive interleaving explorer used by the correspondence only produces
   states that are runs of the transition system (so the invariant theorem applies
   to every outcome the implementation is compared with). *)
From Oras Require Import Base.Prelude Generated.GC05 Model.Verify Proofs.Verify.

Section Explore.
  Variable H : str -> str -> str.

  Lemma crun_app st sched1 : forall sched2 st1,
    crun H st sched1 = Some st1 -> crun H st (sched1 ++ sched2) = crun H st1 sched2.
  Proof.
    revert st. induction sched1 as [|[i n] r IH]; intros st sched2 st1; simpl.
    - intro E; inversion E; subst; reflexivity.
    - destruct (cstep H st i n) as [st'|]; [apply IH|discriminate].
  Qed.

  Lemma explore_reachable fuel big : forall st st',
    In st' (explore H fuel big st) -> exists sched, crun H st sched = Some st'.
  Proof.
    induction fuel as [|f IH]; intros st st'; simpl; [intros []|].
    set (nexts := flat_map (fun i => match cstep H st i big with Some st1 => [st1] | None => [] end)
                           (seq 0 (length (c_thr st)))).
    assert (Hn : forall st1, In st1 nexts -> exists i, cstep H st i big = Some st1).
    { intros st1 I1. apply in_flat_map in I1 as (i & _ & I2).
      destruct (cstep H st i big) as [s|] eqn:E; [|destruct I2].
      destruct I2 as [->|[]]. exists i. exact E. }
    destruct nexts as [|n0 nr] eqn:En.
    - intros [<-|[]]. exists []. reflexivity.
    - intro I1. apply in_flat_map in I1 as (st1 & I2 & I3).
      destruct (Hn st1 I2) as (i & Es). destruct (IH _ _ I3) as (sched & Er).
      exists ((i, big) :: sched). simpl. rewrite Es. exact Er.
  Qed.

  (* every explored outcome satisfies the invariant of C05_concurrent_same_digest *)
  Lemma explore_invariant fuel big blobs ts st' :
    oci_reach H blobs -> Forall (fun t => t_pc t = PStart) ts ->
    In st' (explore H fuel big (mkC blobs ts)) ->
    forall dg bs, oci_get (c_blobs st') dg = Some bs ->
                  dg = digest_of H (alg_of dg) bs /\ valid_digest dg = true.
  Proof.
    intros R F I1. apply explore_reachable in I1 as (sched & Er).
    exact (proj1 (crun_inv H sched _ _ (cinv_start H blobs ts (oci_reach_ok H blobs R) F) Er)).
  Qed.
End Explore.

(* ------------------------------------------------------------------ concurrent pushes into one cas.Memory *)
Section MemoryConc.
  Variable H : str -> str -> str.

  Definition mthr_ok (t : mthr) : Prop :=
    match m_pc t with
    | MRead None buf => matches_desc H (d_dg (m_d t)) (d_sz (m_d t)) buf /\
                        exists rest, stream (m_evs t) = buf ++ rest
    | _ => True
    end.

  Definition minv (st : mstate) : Prop := mem_ok H (ms_mem st) /\ Forall mthr_ok (ms_thr st).

  Lemma mstep_inv st i st' : minv st -> mstep H st i = Some st' -> minv st'.
  Proof.
    intros [Om Ft]. unfold mstep. destruct (nth_error (ms_thr st) i) as [t|] eqn:Ei; [|discriminate].
    pose proof (Forall_nth_error _ _ _ _ Ft Ei) as Pt. unfold mthr_ok in Pt.
    destruct (m_pc t) as [|[e|] buf|r] eqn:Epc; [| | |discriminate].
    - destruct (match m_lim t with Some l => (d_sz (m_d t) >? l)%Z | None => false end).
      { intro E; inversion E; subst. split; auto. apply Forall_set_nth; auto; exact I. }
      destruct (mem_get (ms_mem st) (m_d t)).
      { intro E; inversion E; subst. split; auto. apply Forall_set_nth; auto; exact I. }
      destruct (read_all H (m_comb t) true (m_fuel t) _ (d_dg (m_d t)) (d_sz (m_d t))) as [[e buf] v] eqn:Er.
      intro E; inversion E; subst. split; auto. apply Forall_set_nth; auto.
      unfold mthr_ok; simpl. destruct e; [exact I|].
      apply read_all_sound in Er as (A & B & _). split; auto.
    - intro E; inversion E; subst. split; auto. apply Forall_set_nth; auto; exact I.
    - destruct (mem_get (ms_mem st) (m_d t)) eqn:G; intro E; inversion E; subst.
      + split; auto. apply Forall_set_nth; auto; exact I.
      + split; [|apply Forall_set_nth; auto; exact I]. simpl.
        intros d' bs'. rewrite mem_get_cons. destruct (desc_eqb (m_d t) d') eqn:Q.
        * apply desc_eqb_spec in Q. subst d'. intro X; inversion X; subst. apply Pt.
        * apply Om.
  Qed.

  Lemma mrun_inv sched : forall st st', minv st -> mrun H st sched = Some st' -> minv st'.
  Proof.
    induction sched as [|i r IH]; intros st st' Iv; simpl.
    - intro E; inversion E; subst; auto.
    - destruct (mstep H st i) as [st1|] eqn:Es; [|discriminate]. apply IH. eapply mstep_inv; eauto.
  Qed.

  (* any number of threads, any descriptors, any schedule: whatever the memory store
     holds at any instant matches its descriptor; a push that reports success has
     stored a prefix of its own reader (its whole content without LimitedStorage) *)
  Lemma memory_concurrent m ts sched st :
    mem_reach H m -> Forall (fun t => m_pc t = MStart) ts ->
    mrun H (mkM m ts) sched = Some st ->
    (forall d bs, mem_get (ms_mem st) d = Some bs -> matches_desc H (d_dg d) (d_sz d) bs) /\
    (forall i st' t buf, mstep H st i = Some st' -> nth_error (ms_thr st) i = Some t ->
       m_pc t = MRead None buf -> mem_get (ms_mem st) (m_d t) = None ->
       mem_get (ms_mem st') (m_d t) = Some buf /\ matches_desc H (d_dg (m_d t)) (d_sz (m_d t)) buf /\
       exists rest, stream (m_evs t) = buf ++ rest).
  Proof.
    intros R F E.
    assert (I0 : minv (mkM m ts)).
    { split; [apply mem_reach_ok; exact R|]. simpl. eapply Forall_impl; [|exact F].
      intros t Et. unfold mthr_ok. rewrite Et. exact I. }
    pose proof (mrun_inv sched _ _ I0 E) as [Om Ft]. split; [exact Om|].
    intros i st' t buf Es Ei Ep G. unfold mstep in Es. rewrite Ei, Ep, G in Es. inversion Es; subst; clear Es.
    pose proof (Forall_nth_error _ _ _ _ Ft Ei) as Pt. unfold mthr_ok in Pt. rewrite Ep in Pt.
    simpl. assert (Q : desc_eqb (m_d t) (m_d t) = true) by (apply desc_eqb_spec; reflexivity).
    rewrite Q. split; [reflexivity|exact Pt].
  Qed.

  Lemma explore_m_reachable fuel : forall st st',
    In st' (explore_m H fuel st) -> exists sched, mrun H st sched = Some st'.
  Proof.
    induction fuel as [|f IH]; intros st st'; simpl; [intros []|].
    set (nexts := flat_map (fun i => match mstep H st i with Some st1 => [st1] | None => [] end)
                           (seq 0 (length (ms_thr st)))).
    assert (Hn : forall st1, In st1 nexts -> exists i, mstep H st i = Some st1).
    { intros st1 I1. apply in_flat_map in I1 as (i & _ & I2).
      destruct (mstep H st i) as [s|] eqn:E; [|destruct I2].
      destruct I2 as [->|[]]. exists i. exact E. }
    destruct nexts as [|n0 nr] eqn:En.
    - intros [<-|[]]. exists []. reflexivity.
    - intro I1. apply in_flat_map in I1 as (st1 & I2 & I3).
      destruct (Hn st1 I2) as (i & Es). destruct (IH _ _ I3) as (sched & Er).
      exists (i :: sched). simpl. rewrite Es. exact Er.
  Qed.
End MemoryConc.

(* ------------------------------------------------------------------ the explorers are complete *)
(* Every schedule that runs to a state in which no thread can move ends in a state the
   explorer lists (given fuel for its length): the outcome sets the implementation is
   compared with are exactly the terminal states of the three transition systems (for the
   OCI system: of schedules whose Write steps are unsplit, chunk = big). *)
Section ExploreComplete.
  Variable H : str -> str -> str.
  Local Open Scope nat_scope.

  Lemma in_seq_lt i n : i < n -> In i (seq 0 n).
  Proof. intro L. apply in_seq. split; [apply Nat.le_0_l|exact L]. Qed.

  Lemma nth_error_lt {A} (l : list A) i x : nth_error l i = Some x -> i < length l.
  Proof. intro E. apply nth_error_Some. congruence. Qed.

  (* OCI *)
  Definition cterminal big (st : cstate) : Prop := forall i, cstep H st i big = None.

  Lemma cstep_index st i big st' : cstep H st i big = Some st' -> i < length (c_thr st).
  Proof.
    unfold cstep. destruct (nth_error (c_thr st) i) eqn:E; [|discriminate]. intros _. eapply nth_error_lt; eauto.
  Qed.

  Lemma explore_complete big sched : forall fuel st st',
    crun H st (map (fun i => (i, big)) sched) = Some st' -> cterminal big st' ->
    length sched < fuel -> In st' (explore H fuel big st).
  Proof.
    induction sched as [|i r IH]; intros fuel st st' E T L; (destruct fuel as [|f]; [simpl in L; exfalso; apply (Nat.nlt_0_r _ L)|]); simpl in *.
    - inversion E; subst.
      assert (N : flat_map (fun i => match cstep H st' i big with Some s => [s] | None => [] end) (seq 0 (length (c_thr st'))) = []).
      { induction (seq 0 (length (c_thr st'))) as [|a l IHl]; simpl; auto. rewrite (T a). exact IHl. }
      rewrite N. left; reflexivity.
    - destruct (cstep H st i big) as [st1|] eqn:Es; [|discriminate].
      set (nexts := flat_map (fun i => match cstep H st i big with Some s => [s] | None => [] end) (seq 0 (length (c_thr st)))).
      assert (I1 : In st1 nexts).
      { apply in_flat_map. exists i. split; [apply in_seq_lt; eapply cstep_index; eauto|]. rewrite Es. left; reflexivity. }
      destruct nexts as [|n0 nr] eqn:En; [destruct I1|].
      apply in_flat_map. exists st1. split; [exact I1|]. apply IH; auto. apply Nat.succ_lt_mono. exact L.
  Qed.

  (* cas.Memory *)
  Definition mterminal (st : mstate) : Prop := forall i, mstep H st i = None.

  Lemma mstep_index st i st' : mstep H st i = Some st' -> i < length (ms_thr st).
  Proof.
    unfold mstep. destruct (nth_error (ms_thr st) i) eqn:E; [|discriminate]. intros _. eapply nth_error_lt; eauto.
  Qed.

  Lemma explore_m_complete sched : forall fuel st st',
    mrun H st sched = Some st' -> mterminal st' -> length sched < fuel -> In st' (explore_m H fuel st).
  Proof.
    induction sched as [|i r IH]; intros fuel st st' E T L; (destruct fuel as [|f]; [simpl in L; exfalso; apply (Nat.nlt_0_r _ L)|]); simpl in *.
    - inversion E; subst.
      assert (N : flat_map (fun i => match mstep H st' i with Some s => [s] | None => [] end) (seq 0 (length (ms_thr st'))) = []).
      { induction (seq 0 (length (ms_thr st'))) as [|a l IHl]; simpl; auto. rewrite (T a). exact IHl. }
      rewrite N. left; reflexivity.
    - destruct (mstep H st i) as [st1|] eqn:Es; [|discriminate].
      set (nexts := flat_map (fun i => match mstep H st i with Some s => [s] | None => [] end) (seq 0 (length (ms_thr st)))).
      assert (I1 : In st1 nexts).
      { apply in_flat_map. exists i. split; [apply in_seq_lt; eapply mstep_index; eauto|]. rewrite Es. left; reflexivity. }
      destruct nexts as [|n0 nr] eqn:En; [destruct I1|].
      apply in_flat_map. exists st1. split; [exact I1|]. apply IH; auto. apply Nat.succ_lt_mono. exact L.
  Qed.

  (* file.Store *)
  Definition fterminal (st : fcstate) : Prop := forall i, fstep H st i = None.

  Lemma fstep_index st i st' : fstep H st i = Some st' -> i < length (fc_thr st).
  Proof.
    unfold fstep. destruct (nth_error (fc_thr st) i) eqn:E; [|discriminate]. intros _. eapply nth_error_lt; eauto.
  Qed.

  Lemma explore_f_complete sched : forall fuel st st',
    frun H st sched = Some st' -> fterminal st' -> length sched < fuel -> In st' (explore_f H fuel st).
  Proof.
    induction sched as [|i r IH]; intros fuel st st' E T L; (destruct fuel as [|f]; [simpl in L; exfalso; apply (Nat.nlt_0_r _ L)|]); simpl in *.
    - inversion E; subst.
      assert (N : flat_map (fun i => match fstep H st' i with Some s => [s] | None => [] end) (seq 0 (length (fc_thr st'))) = []).
      { induction (seq 0 (length (fc_thr st'))) as [|a l IHl]; simpl; auto. rewrite (T a). exact IHl. }
      rewrite N. left; reflexivity.
    - destruct (fstep H st i) as [st1|] eqn:Es; [|discriminate].
      set (nexts := flat_map (fun i => match fstep H st i with Some s => [s] | None => [] end) (seq 0 (length (fc_thr st)))).
      assert (I1 : In st1 nexts).
      { apply in_flat_map. exists i. split; [apply in_seq_lt; eapply fstep_index; eauto|]. rewrite Es. left; reflexivity. }
      destruct nexts as [|n0 nr] eqn:En; [destruct I1|].
      apply in_flat_map. exists st1. split; [exact I1|]. apply IH; auto. apply Nat.succ_lt_mono. exact L.
  Qed.

  (* a finished OCI race leaves nothing under ingest/ *)
  Lemma ingest_empty_when_done st :
    Forall (fun t => exists r, t_pc t = PDone r) (c_thr st) -> ingest_files st = [].
  Proof.
    unfold ingest_files. induction 1 as [|t l [r E] F IH]; simpl; auto. rewrite E. exact IH.
  Qed.
End ExploreComplete.


Lemma nth_error_set_nth_eq' {A} (l : list A) i x t :
  nth_error l i = Some t -> nth_error (set_nth l i x) i = Some x.
Proof. revert i. induction l as [|y l IH]; intros [|i]; simpl; try discriminate; auto. Qed.

Lemma set_nth_twice {A} (l : list A) i x y : set_nth (set_nth l i x) i y = set_nth l i y.
Proof. revert i. induction l as [|z l IH]; intros [|i]; simpl; auto. rewrite IH. reflexivity. Qed.

(* ------------------------------------------------------------------ splitting the Writes changes nothing *)
(* Any schedule of the OCI system, with Writes split in any way, that runs from a state in
   which no push has started to a state in which every push is done, ends in a state that
   a schedule with unsplit Writes also reaches -- hence (explore_complete) in a state the
   explorer lists.  The Writes of a thread only grow its own ingest file. *)
Section SplitWrites.
  Variable H : str -> str -> str.
  Variable big : nat.
  Local Open Scope nat_scope.

  Definition collapse_t (t : thr) : thr :=
    match t_pc t with
    | PIngest w todo e => with_pc t (PIngest (w ++ todo) [] e)
    | _ => t
    end.
  Definition collapse (st : cstate) : cstate := mkC (c_blobs st) (map collapse_t (c_thr st)).

  (* [big] is large enough for everything a thread will write *)
  Definition fits (t : thr) : Prop :=
    match t_pc t with
    | PIngest w todo e => length (w ++ todo) <= S big
    | PStart => forall e out v,
        copy_buffer H (t_comb t) true (t_fuel t) (mkBase (t_evs t) None) oci_bufsz (d_dg (t_d t)) (d_sz (t_d t))
        = ((e, out), v) -> length out <= S big
    | PDone _ => True
    end.

  Lemma map_set_nth {A B} (f : A -> B) l i x : map f (set_nth l i x) = set_nth (map f l) i (f x).
  Proof. revert i. induction l as [|y l IH]; intros [|i]; simpl; auto. rewrite IH. reflexivity. Qed.

  Lemma set_nth_same {A} (l : list A) i x : nth_error l i = Some x -> set_nth l i x = l.
  Proof. revert i. induction l as [|y l IH]; intros [|i]; simpl; try discriminate; intro E.
    - inversion E; reflexivity.
    - rewrite IH; auto. Qed.

  Lemma collapse_t_fields t : t_d (collapse_t t) = t_d t /\ t_evs (collapse_t t) = t_evs t /\
                              t_comb (collapse_t t) = t_comb t /\ t_fuel (collapse_t t) = t_fuel t.
  Proof. unfold collapse_t. destruct (t_pc t); auto. Qed.

  Lemma with_pc_collapse t p : with_pc (collapse_t t) p = with_pc t p.
  Proof. unfold collapse_t. destruct (t_pc t); reflexivity. Qed.

  Lemma cstep_sim st i n st1 :
    Forall fits (c_thr st) -> cstep H st i n = Some st1 ->
    Forall fits (c_thr st1) /\
    exists sch, Forall (fun s => snd s = big) sch /\ crun H (collapse st) sch = Some (collapse st1).
  Proof.
    intros Ff. unfold cstep. destruct (nth_error (c_thr st) i) as [t|] eqn:Ei; [|discriminate].
    pose proof (Forall_nth_error _ _ _ _ Ff Ei) as Ft. unfold fits in Ft.
    assert (Ec : nth_error (c_thr (collapse st)) i = Some (collapse_t t)).
    { simpl. rewrite nth_error_map, Ei. reflexivity. }
    destruct (collapse_t_fields t) as (Cd & Ce & Cc & Cf).
    destruct (t_pc t) as [|w todo e|r] eqn:Epc; [| |discriminate].
    - (* a push starts *)
      assert (Cp : t_pc (collapse_t t) = PStart) by (unfold collapse_t; rewrite Epc; exact Epc).
      assert (One : forall p, (p = PDone (Some EBadDigest) \/ p = PDone (Some EExists)) ->
                cstep H (collapse st) i big = Some (mkC (c_blobs st) (set_nth (map collapse_t (c_thr st)) i (with_pc t p))) ->
                Forall fits (set_nth (c_thr st) i (with_pc t p)) /\
                exists sch, Forall (fun s => snd s = big) sch /\
                  crun H (collapse st) sch = Some (collapse (mkC (c_blobs st) (set_nth (c_thr st) i (with_pc t p))))).
      { intros p Hp Es. split.
        - apply Forall_set_nth; auto. unfold fits. destruct Hp as [-> | ->]; exact I.
        - exists [(i, big)]. split; [repeat constructor|]. simpl. rewrite Es. unfold collapse. simpl.
          rewrite map_set_nth. f_equal. f_equal. f_equal. unfold collapse_t. destruct Hp as [-> | ->]; reflexivity. }
      destruct (negb (valid_digest (d_dg (t_d t)))) eqn:Vd.
      { intro E; inversion E; subst. apply One; auto.
        unfold cstep. rewrite Ec, Cp, Cd, Vd. simpl. rewrite with_pc_collapse. reflexivity. }
      destruct (oci_get (c_blobs st) (d_dg (t_d t))) eqn:Gb.
      { intro E; inversion E; subst. apply One; auto.
        unfold cstep. rewrite Ec, Cp, Cd, Vd. simpl. rewrite Gb, with_pc_collapse. reflexivity. }
      destruct (copy_buffer H (t_comb t) true (t_fuel t) (mkBase (t_evs t) None) oci_bufsz (d_dg (t_d t)) (d_sz (t_d t)))
        as [[e out] v] eqn:Ecb.
      intro E; inversion E; subst; clear E. specialize (Ft _ _ _ eq_refl).
      split.
      { apply Forall_set_nth; auto; unfold fits; simpl; exact Ft. }
      (* first the start step on the collapsed state *)
      set (S1 := mkC (c_blobs st) (set_nth (map collapse_t (c_thr st)) i (with_pc t (PIngest [] out e)))).
      assert (E1 : cstep H (collapse st) i big = Some S1).
      { unfold cstep. rewrite Ec, Cp, Cd, Vd. simpl. rewrite Gb, Cc, Cf, Ce, Ecb, with_pc_collapse. reflexivity. }
      assert (Tgt : collapse (mkC (c_blobs st) (set_nth (c_thr st) i (with_pc t (PIngest [] out e))))
                    = mkC (c_blobs st) (set_nth (map collapse_t (c_thr st)) i (with_pc t (PIngest out [] e)))).
      { unfold collapse. simpl. rewrite map_set_nth. reflexivity. }
      rewrite Tgt. destruct out as [|c out'].
      + exists [(i, big)]. split; [repeat constructor|]. simpl. rewrite E1. reflexivity.
      + exists [(i, big); (i, big)]. split; [repeat constructor|]. simpl. rewrite E1.
        unfold cstep, S1. cbn [c_thr c_blobs].
        rewrite (nth_error_set_nth_eq' _ _ _ _ Ec). cbn [t_pc with_pc].
        assert (K : S (Nat.min big (length (c :: out') - 1)) = length (c :: out')).
        { simpl in Ft. simpl. lia. }
        rewrite K, firstn_all, skipn_all. cbn [app].
        f_equal. f_equal. rewrite set_nth_twice. reflexivity.
    - (* a Write or the final step *)
      destruct todo as [|c todo'].
      + (* final step: identical on the collapsed state *)
        assert (Cp : collapse_t t = t).
        { unfold collapse_t. rewrite Epc, app_nil_r. destruct t; simpl in *; subst; reflexivity. }
        destruct e as [er|]; intro E; inversion E; subst; clear E;
          (split; [apply Forall_set_nth; auto; exact I|]);
          exists [(i, big)]; (split; [repeat constructor|]); simpl;
          unfold cstep; rewrite Ec, Cp, Epc; unfold collapse; simpl; rewrite map_set_nth; reflexivity.
      + (* a Write: invisible after collapsing *)
        intro E; inversion E; subst; clear E. split.
        * apply Forall_set_nth; [exact Ff|]. unfold fits. cbn [t_pc with_pc].
          repeat (rewrite ?app_length, ?firstn_length, ?skipn_length in *; cbn [length] in *). lia.
        * exists []. split; [constructor|]. simpl. f_equal. unfold collapse. simpl. f_equal.
          rewrite map_set_nth.
          match goal with |- _ = set_nth _ _ ?X => replace X with (collapse_t t) end.
          -- symmetry. apply set_nth_same. rewrite nth_error_map, Ei. reflexivity.
          -- unfold collapse_t. simpl. rewrite Epc. unfold with_pc. simpl. rewrite <- app_assoc. simpl.
             rewrite firstn_skipn. reflexivity.
  Qed.

  Lemma crun_sim sched : forall st st',
    Forall fits (c_thr st) -> crun H st sched = Some st' ->
    Forall fits (c_thr st') /\
    exists sch, Forall (fun s => snd s = big) sch /\ crun H (collapse st) sch = Some (collapse st').
  Proof.
    induction sched as [|[i n] r IH]; intros st st' Ff; simpl.
    - intro E; inversion E; subst. split; auto. exists []. split; [constructor|reflexivity].
    - destruct (cstep H st i n) as [st1|] eqn:Es; [|discriminate]. intro E.
      destruct (cstep_sim st i n st1 Ff Es) as (F1 & sch1 & B1 & R1).
      destruct (IH st1 st' F1 E) as (F2 & sch2 & B2 & R2).
      split; auto. exists (sch1 ++ sch2). split; [apply Forall_app; auto|].
      rewrite (crun_app H _ sch1 sch2 _ R1). exact R2.
  Qed.

  Lemma collapse_started st : Forall (fun t => t_pc t = PStart) (c_thr st) -> collapse st = st.
  Proof.
    destruct st as [bl thr]. unfold collapse. simpl. intro F. f_equal.
    induction F as [|t l E F IH]; simpl; auto. rewrite IH. unfold collapse_t. rewrite E. reflexivity.
  Qed.

  Lemma collapse_done st : Forall (fun t => exists r, t_pc t = PDone r) (c_thr st) -> collapse st = st.
  Proof.
    destruct st as [bl thr]. unfold collapse. simpl. intro F. f_equal.
    induction F as [|t l [r E] F IH]; simpl; auto. rewrite IH. unfold collapse_t. rewrite E. reflexivity.
  Qed.

  Lemma done_terminal st : Forall (fun t => exists r, t_pc t = PDone r) (c_thr st) -> forall i, cstep H st i big = None.
  Proof.
    intros F i. unfold cstep. destruct (nth_error (c_thr st) i) as [t|] eqn:Ei; auto.
    destruct (Forall_nth_error _ _ _ _ F Ei) as [r E]. rewrite E. reflexivity.
  Qed.

  Lemma big_schedule sch : Forall (fun s : nat * nat => snd s = big) sch -> sch = map (fun i => (i, big)) (map fst sch).
  Proof. induction 1 as [|[i n] l E F IH]; simpl; auto. simpl in E. subst n. rewrite <- IH. reflexivity. Qed.

  (* every finished race, however its Writes were split, is one of the explored outcomes *)
  Theorem split_writes_explored st0 sched st' :
    Forall (fun t => t_pc t = PStart) (c_thr st0) -> Forall fits (c_thr st0) ->
    crun H st0 sched = Some st' -> Forall (fun t => exists r, t_pc t = PDone r) (c_thr st') ->
    exists is, crun H st0 (map (fun i => (i, big)) is) = Some st' /\
               forall fuel, length is < fuel -> In st' (explore H fuel big st0).
  Proof.
    intros Fs Ff E Fd. destruct (crun_sim sched st0 st' Ff E) as (_ & sch & B & R).
    rewrite (collapse_started st0 Fs), (collapse_done st' Fd) in R.
    exists (map fst sch). rewrite <- (big_schedule sch B). split; [exact R|].
    intros fuel L. apply (explore_complete H big (map fst sch)); auto.
    - rewrite <- (big_schedule sch B). exact R.
    - unfold cterminal. apply done_terminal. exact Fd.
  Qed.

  (* what CopyBuffer writes never exceeds what the reader holds, so big = the total number
     of bytes of the scripts (what the driver uses) fits every thread *)
  Lemma vr_read_conserve comb v k bs e v' :
    vr_read comb v k = ((bs, e), v') ->
    stream (b_evs (v_base v)) = bs ++ stream (b_evs (v_base v')).
  Proof.
    unfold vr_read. destruct (v_err v).
    - intro E; inversion E; subst. reflexivity.
    - destruct (v_N v <=? 0)%Z.
      + intro E; inversion E; subst. reflexivity.
      + destruct (base_read comb (v_base v) (clamp k (v_N v))) as [[bs0 e0] b1] eqn:Eb.
        apply base_read_spec in Eb as (A & _).
        destruct e0; intro E; inversion E; subst; simpl; exact A.
  Qed.

  Lemma copy_loop_conserve comb bufsz fuel : forall v out e out' v',
    copy_loop comb fuel v bufsz out = ((e, out'), v') ->
    length out' + length (stream (b_evs (v_base v'))) = length out + length (stream (b_evs (v_base v))).
  Proof.
    induction fuel as [|f IH]; intros v out e out' v'; simpl.
    - intro E; inversion E; subst. reflexivity.
    - destruct (vr_read comb v bufsz) as [[bs e0] v1] eqn:Er.
      apply vr_read_conserve in Er. rewrite Er, app_length.
      destruct e0 as [e0|].
      + destruct e0; intro E; inversion E; subst; rewrite app_length; lia.
      + intro E. apply IH in E. rewrite app_length in E. lia.
  Qed.

  Lemma fits_started t :
    t_pc t = PStart -> length (stream (t_evs t)) <= S big -> fits t.
  Proof.
    intros Ep L. unfold fits. rewrite Ep. intros e out v. unfold copy_buffer.
    destruct (copy_loop (t_comb t) (t_fuel t) (new_vr true (mkBase (t_evs t) None) (d_dg (t_d t)) (d_sz (t_d t))) oci_bufsz [])
      as [[e0 o] v0] eqn:Ec.
    apply copy_loop_conserve in Ec. unfold new_vr in Ec. rewrite new_vr_lim in Ec. simpl in Ec.
    destruct e0 as [e0|].
    - intro E; inversion E; subst. lia.
    - destruct (vr_verify H (t_comb t) (t_fuel t) (d_dg (t_d t)) v0) as [r v1]. intro E; inversion E; subst. lia.
  Qed.

  (* ---- an unsplit schedule takes at most three steps per thread, so the explorer's fuel
     4 * threads + 2 (what the correspondence uses) is enough *)
  Definition rank (t : thr) : nat :=
    match t_pc t with
    | PStart => 3
    | PIngest _ (_ :: _) _ => 2
    | PIngest _ [] _ => 1
    | PDone _ => 0
    end.

  Fixpoint total_rank (l : list thr) : nat :=
    match l with [] => 0 | t :: r => rank t + total_rank r end.

  Lemma total_rank_set_nth l i t x :
    nth_error l i = Some t -> total_rank (set_nth l i x) + rank t = total_rank l + rank x.
  Proof.
    revert i. induction l as [|y l IH]; intros [|i]; simpl; try discriminate; intro E.
    - inversion E; subst. lia.
    - specialize (IH i E). lia.
  Qed.

  Lemma total_rank_le l : total_rank l <= 3 * length l.
  Proof. induction l as [|t r IH]; simpl; [lia|]. unfold rank. destruct (t_pc t) as [|w [|c todo] e|r0]; lia. Qed.

  Lemma cstep_rank st i st' :
    Forall fits (c_thr st) -> cstep H st i big = Some st' ->
    Forall fits (c_thr st') /\ total_rank (c_thr st') < total_rank (c_thr st).
  Proof.
    intros Ff Es. split; [exact (proj1 (cstep_sim st i big st' Ff Es))|].
    unfold cstep in Es. destruct (nth_error (c_thr st) i) as [t|] eqn:Ei; [|discriminate].
    pose proof (Forall_nth_error _ _ _ _ Ff Ei) as Ft. unfold fits in Ft.
    assert (R : forall p, rank (with_pc t p) < rank t ->
                total_rank (set_nth (c_thr st) i (with_pc t p)) < total_rank (c_thr st)).
    { intros p L. pose proof (total_rank_set_nth _ _ _ (with_pc t p) Ei). lia. }
    unfold rank in R at 2.
    destruct (t_pc t) as [|w todo e|r] eqn:Epc; [| |discriminate].
    - destruct (negb (valid_digest (d_dg (t_d t)))); [inversion Es; subst; apply R; unfold rank; simpl; lia|].
      destruct (oci_get (c_blobs st) (d_dg (t_d t))); [inversion Es; subst; apply R; unfold rank; simpl; lia|].
      destruct (copy_buffer H (t_comb t) true (t_fuel t) (mkBase (t_evs t) None) oci_bufsz (d_dg (t_d t)) (d_sz (t_d t)))
        as [[e out] v]. inversion Es; subst. apply R. unfold rank; simpl. destruct out; lia.
    - destruct todo as [|c todo'].
      + destruct e; inversion Es; subst; apply R; unfold rank; simpl; lia.
      + inversion Es; subst. apply R. unfold rank. cbn [t_pc with_pc].
        assert (K : Nat.min big (length todo' - 0) = length todo').
        { rewrite app_length in Ft. simpl in *. lia. }
        rewrite K, skipn_all. lia.
  Qed.

  Lemma crun_big_length is : forall st st',
    Forall fits (c_thr st) -> crun H st (map (fun i => (i, big)) is) = Some st' ->
    length is + total_rank (c_thr st') <= total_rank (c_thr st).
  Proof.
    induction is as [|i r IH]; intros st st' Ff; simpl.
    - intro E; inversion E; subst. lia.
    - destruct (cstep H st i big) as [st1|] eqn:Es; [|discriminate]. intro E.
      destruct (cstep_rank st i st1 Ff Es) as [F1 L]. specialize (IH st1 st' F1 E). lia.
  Qed.

  Theorem split_writes_explored_fuel st0 sched st' :
    Forall (fun t => t_pc t = PStart) (c_thr st0) -> Forall fits (c_thr st0) ->
    crun H st0 sched = Some st' -> Forall (fun t => exists r, t_pc t = PDone r) (c_thr st') ->
    In st' (explore H (4 * length (c_thr st0) + 2) big st0).
  Proof.
    intros Fs Ff E Fd. destruct (split_writes_explored st0 sched st' Fs Ff E Fd) as (is & R & X).
    apply X. pose proof (crun_big_length is st0 st' Ff R). pose proof (total_rank_le (c_thr st0)). lia.
  Qed.
End SplitWrites.
