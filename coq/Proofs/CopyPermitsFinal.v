(* C04, on the protocol model Model/CopyImpl.v (syncutil.Go / LimitedRegion / semaphore / tracker):
   when the top-level syncutil.Go has returned -- with or without an error -- every task has
   finished, none holds a permit, nothing is in flight and ALL K permits are free again.
   This is what the harness reads off the real limiter after every CopyGraph call made through the
   verif hook (oracle signature permit-leak). *)
From Coq Require Import List Arith Bool Lia.
From Oras Require Import Model.CopyImpl Proofs.CopyImplBase Proofs.CopyImplInv Proofs.CopyImplInv2
  Proofs.CopyImplFault.
Import ListNotations.

Lemma count_upto_false p n : (forall i, i < n -> p i = false) -> count_upto p n = 0.
Proof.
  induction n as [|n IH]; simpl; intro H; [reflexivity|].
  rewrite (H n) by lia. rewrite IH; auto.
Qed.

Section Final.
Variable succ : nat -> list nat.
Variable K : nat.
Variable ext : bool.
Variable roots : list nat.
Hypothesis succ_dec : forall n m, In m (succ n) -> m < n.

Lemma final_all_finished s : Reachable succ K ext roots s -> is_final s = true ->
  forall t, is_fin (t_pc (tasks s t)) = true.
Proof.
  intros Hr Hf t.
  destruct (inv12_reach succ K ext roots succ_dec s Hr) as [I1 I2].
  destruct (is_fin (t_pc (tasks s t))) eqn:E; [reflexivity|exfalso].
  pose proof (i2_unfin succ s I2 t E) as Hu.
  pose proof (unreturned_up succ s I2 _ Hu) as H0.
  unfold is_final in Hf. congruence.
Qed.

Lemma all_permits_free_at_return s : Reachable succ K ext roots s -> is_final s = true ->
  free s = K /\ holders s = 0 /\ inflight s = 0.
Proof.
  intros Hr Hf.
  pose proof (final_all_finished s Hr Hf) as Hall.
  destruct (permits_conserved succ K ext roots s Hr) as [Hp [_ Hfin]].
  assert (Hh : holders s = 0).
  { unfold holders. apply count_upto_false. intros i _. apply Hfin. apply Hall. }
  assert (Hi : inflight s = 0).
  { unfold inflight. apply count_upto_false. intros i _. specialize (Hall i).
    destruct (t_pc (tasks s i)); simpl in *; congruence. }
  repeat split; auto. lia.
Qed.
End Final.
