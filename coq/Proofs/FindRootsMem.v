(* C03 over a source backed by graph.Memory (content/memory, content/oci, content/file): the
   store's Predecessors is graph.Memory.Predecessors, which C07 proves exact after every history
   of Index / Remove / IndexAll (Proofs/GraphMem.v).  Composing the two, the walk of findRoots is
   a walk over the LINKS of the stored content: the hypothesis pred_is_inverse_link and the
   source-level acyclicity are discharged from content addressing. *)
From Oras Require Import Base.Prelude Model.FindRoots Proofs.FindRoots.
From Oras Require Model.GraphMem Proofs.GraphMem.
Local Open Scope nat_scope.

Module GM := Oras.Model.GraphMem.
Module GP := Oras.Proofs.GraphMem.

(* the store serves, for every key, exactly graph.Memory's predecessor set (some order, any
   descriptor fields); keys of the C03 model are the C07 keys numbered by N.of_nat *)
Definition backed_by (s : source) (gm : GM.graph) : Prop :=
  forall x y, In y (map d_id (s_preds s x)) <-> In (N.of_nat y) (GM.predecessors gm (N.of_nat x)).

(* y is a stored node whose content links to x (subject, config, layer, manifest, blob) *)
Definition link_up (content : GM.node -> list GM.node) (gm : GM.graph) (x y : nat) : Prop :=
  In (N.of_nat y) (GM.g_nodes gm) /\ In (N.of_nat x) (content (N.of_nat y)).

Lemma backed_preds_are_links content gm s :
  GP.Inv content gm -> backed_by s gm ->
  forall x y, In y (map d_id (s_preds s x)) <-> link_up content gm x y.
Proof.
  intros HI Hb x y. rewrite (Hb x y).
  destruct (GP.exact_full content gm HI (N.of_nat x)) as (_ & H & _). apply H.
Qed.

(* content addressing: a node embeds the digests of what it links to *)
Definition content_acyclic (content : GM.node -> list GM.node) (rank : GM.node -> nat) : Prop :=
  forall p x, In x (content p) -> rank x < rank p.

Lemma backed_acyclic content gm s rank :
  GP.Inv content gm -> backed_by s gm -> content_acyclic content rank ->
  acyclic_source s (fun y => rank (N.of_nat y)).
Proof.
  intros HI Hb Hc x p Hp.
  assert (Hin : In (d_id p) (map d_id (s_preds s x))) by (apply in_map; exact Hp).
  apply (backed_preds_are_links content gm s HI Hb) in Hin. destruct Hin as (_ & Hl).
  now apply Hc.
Qed.

(* the followed relation in terms of stored content only *)
Definition followed_links (content : GM.node -> list GM.node) (gm : GM.graph)
           (s : source) (fs : list filter) (x y : nat) : Prop :=
  link_up content gm x y /\ forall f, In f fs -> keep_spec s f y = true.

Lemma backed_followed content gm s fs :
  GP.Inv content gm -> backed_by s gm -> all_served_ok s ->
  forall x y, E (find_preds s fs) x y <-> followed_links content gm s fs x y.
Proof.
  intros HI Hb Hok x y. rewrite (E_followed_spec s fs x y Hok). unfold followed_spec, followed_links.
  now rewrite (backed_preds_are_links content gm s HI Hb x y).
Qed.

(* Depth <= 0: the roots are exactly the tops of the upward closure of the given node through
   the links of the stored content (whose manifests satisfy the filters), and every member of
   that closure lies under a root -- for a store after ANY history of graph.Memory operations *)
Lemma roots_unlimited_memory_backed ct fuelm ops s fs rank limit node fuel roots :
  let gm := GM.s_g (fst (GM.run ct fuelm GM.init_state ops)) in
  let R := followed_links (GM.ctab ct) gm s fs in
  let up a c := exists k, rpath R k a c in
  backed_by s gm -> all_served_ok s -> content_acyclic (GM.ctab ct) rank -> (limit <= 0)%Z ->
  find_roots fuel s fs limit node = Some roots ->
  (forall r, In r roots -> up (d_id node) (d_id r) /\ forall y, ~ R (d_id r) y) /\
  (forall a, up (d_id node) a -> (forall y, ~ R a y) -> In a (map d_id roots)) /\
  (forall a, up (d_id node) a -> exists r, In r roots /\ up a (d_id r)).
Proof.
  intros gm R up Hb Hok Hc Hl Hf.
  pose proof (GP.history_inv ct fuelm ops) as HI. fold gm in HI.
  apply (find_roots_unlimited_rel s fs (fun y => rank (N.of_nat y)) limit node fuel roots R); auto.
  - apply backed_followed; auto.
  - eapply backed_acyclic; eauto.
Qed.

(* the inverse-link hypothesis of the end-to-end theorems holds for such a store *)
Lemma backed_pred_is_inverse_link ct fuelm ops s :
  let gm := GM.s_g (fst (GM.run ct fuelm GM.init_state ops)) in
  backed_by s gm ->
  forall x p, In p (s_preds s x) -> In (N.of_nat x) (GM.ctab ct (N.of_nat (d_id p))).
Proof.
  intros gm Hb x p Hp.
  pose proof (GP.history_inv ct fuelm ops) as HI. fold gm in HI.
  assert (Hin : In (d_id p) (map d_id (s_preds s x))) by (apply in_map; exact Hp).
  apply (backed_preds_are_links _ gm s HI Hb) in Hin. now destruct Hin.
Qed.

(* ---- satisfiable: two manifests over one blob pushed into a graph.Memory (blob, then both) *)
Definition ct_two : GM.amap := [(1%N, [0%N]); (2%N, [0%N])].
Definition ops_two : list GM.op :=
  [GM.OSok 0%N true; GM.OSok 1%N true; GM.OSok 2%N true; GM.OIndex 0%N; GM.OIndex 1%N; GM.OIndex 2%N].
Definition src_mem_two : source :=
  mkSource (fun x => match x with 0 => [mkDesc 1 [] None; mkDesc 2 [] None] | _ => [] end)
           (fun x => match x with 0 => KOther | _ => KImage end)
           (fun _ => []) (fun _ => []) (fun _ => None) false.

Lemma ex_backed :
  backed_by src_mem_two (GM.s_g (fst (GM.run ct_two 10 GM.init_state ops_two))) /\
  all_served_ok src_mem_two /\
  content_acyclic (GM.ctab ct_two) N.to_nat /\
  find_roots (fuel_for src_mem_two 3) src_mem_two [] 0%Z (mkDesc 0 [] None)
    = Some [mkDesc 2 [] None; mkDesc 1 [] None].
Proof.
  assert (Hg : GM.s_g (fst (GM.run ct_two 10 GM.init_state ops_two)) =
               GM.mkGraph [2%N; 1%N; 0%N] [(0%N, [2%N; 1%N])] [(2%N, [0%N]); (1%N, [0%N]); (0%N, [])])
    by (vm_compute; reflexivity).
  rewrite Hg. repeat split.
  - destruct x as [|x]; simpl.
    + intros [<- | [<- | []]]; vm_compute; auto.
    + intros [].
  - destruct x as [|x].
    + unfold GM.predecessors, GM.getd. simpl. intros [H | [H | []]].
      * right. left. apply Nat2N.inj. exact H.
      * left. apply Nat2N.inj. exact H.
    + unfold GM.predecessors, GM.getd, GM.aget. cbn [GM.g_preds].
      destruct (N.eqb (N.of_nat (S x)) 0) eqn:E; [apply N.eqb_eq in E; lia | intros []].
  - intro x. destruct x as [|x]; simpl; repeat constructor; discriminate.
  - intros p x H. unfold GM.ctab, GM.getd, ct_two, GM.aget in H.
    destruct (N.eqb p 1) eqn:E1.
    + apply N.eqb_eq in E1. subst. destruct H as [<- | []]. vm_compute. lia.
    + destruct (N.eqb p 2) eqn:E2; [|contradiction].
      apply N.eqb_eq in E2. subst. destruct H as [<- | []]. vm_compute. lia.
Qed.
