(* CopyImplSucc2: on success every root is Done in the tracker and DoneCopied nodes have Done successors. *)
From Coq Require Import List Arith Bool Lia.
From Oras Require Import Model.CopyImpl Proofs.CopyImplBase Proofs.CopyImplInv Proofs.CopyImplInv2 Proofs.CopyImplLive
  Proofs.CopyImplFault Proofs.CopyImplSucc.
Import ListNotations.

Section Proofs.
Variable succ : nat -> list nat.
Variable K : nat.
Variable ext : bool.
Variable roots : list nat.
Hypothesis succ_dec : forall n m, In m (succ n) -> m < n.
Local Notation Reachable := (Reachable succ K ext roots).
Local Notation Inv1 := (Inv1 K).
Local Notation Inv2 := (Inv2 succ).
Local Notation Inv4 := (Inv4 succ ext roots).

Ltac tsimp := cbn [f_parent f_anc f_kind f_all f_items f_pc f_cancelled t_node t_kind t_frame t_pc t_holds set_pc set_pc_holds set_fpc set_cancelled is_fin is_ret In] in *.

Lemma inv4_otracked s l s' : Inv1 s -> Inv2 s -> Inv3 s -> Inv4 s -> step succ s l = Some s' -> I_otracked s'.
Proof.
  intros [Hwf Hperm Hmust Hmay] [Hwff Hnf Htf Hunf Hingo Hpar Htop Hself Hanc Hrank Hwait] [Hcf Hfw Hown Hkfn]
         [Hdc Hwd Htr Hcov Hot [Hsh1 [Hsh2 Hsh3]]] Hs.
  pose proof (tracked_mono succ s l s' Hs) as Hmono.
  red in Hot, Hcf, Hkfn.
  step_cases l Hs.
  all: try (live t).
  all: try match goal with H : t_pc (tasks _ ?p) = TInGo _ |- _ => live p end.
  all: intros Hfl tt Hlt Hk0 Hp0; cbn [tasks ntasks free frames nframes tracker failed top_cancelled] in *.
  all: rewrite ?orb_false_r, ?orb_true_r in Hfl; try discriminate.
  all: try (assert (failed s = true) by (eapply Hcf; eauto); congruence).
  all: try (timeout 20 solve [
    apply Hmono; upd_cases; tsimp; try discriminate;
    try (apply Hot; auto; try lia; pc_rewrite; auto; fail);
    try (assert (t_kind (tasks s tt) = KFn) by (apply Hkfn; pc_rewrite; reflexivity); congruence);
    try congruence ]).
  all: try apply Hmono.
  all: upd_cases; tsimp.
  all: try solve [ apply Hot; auto ].
  all: try solve [ rewrite (Hkfn t) in Hk0 by (rewrite Heqp; reflexivity); discriminate ].
  (* the Go frame of an outer task returned nil: its only item was run by a finished fn task *)
  destruct (Hsh1 f n Heqo) as [Hall Hkind]. unfold go_items in Hall. rewrite Hk0 in Hall.
  destruct (Hcov Hfl f (t_node (tasks s n))) as [Hin|[c [Hc1 [Hc2 [Hc3 Hc4]]]]].
  - rewrite Hall. left. reflexivity.
  - rewrite (Hsh2 f) in Hin by congruence. contradiction.
  - rewrite <- Hc3. apply Htr; auto. congruence.
    pose proof (ftd_spec s f Hwf Heqb c Hc2) as Hfin. destruct (t_pc (tasks s c)); try discriminate; reflexivity.
Qed.

Lemma inv4_step s l s' : Inv1 s -> Inv2 s -> Inv3 s -> Inv4 s -> step succ s l = Some s' -> Inv4 s'.
Proof.
  intros H1 H2 H3 H4 Hs.
  destruct (inv4_done succ K ext roots s l s' H1 H2 H3 H4 Hs).
  constructor; auto.
  - eapply inv4_tracked; eauto.
  - eapply inv4_cover; eauto.
  - eapply inv4_otracked; eauto.
  - eapply inv4_shape; eauto.
Qed.

Lemma inv1234_reach s : Reachable s -> Inv1 s /\ Inv2 s /\ Inv3 s /\ Inv4 s.
Proof.
  induction 1 as [|s l s' Hr [I1 [I2 [I3 I4]]] Hs].
  - split; [apply inv1_init | split; [apply inv2_init | split; [apply inv3_init | apply inv4_init]]].
  - split; [eapply inv1_step; eauto | split; [eapply inv2_step; eauto | split; [eapply inv3_step; eauto | eapply inv4_step; eauto]]].
Qed.

(* when the top-level call has returned, every goroutine has finished and every frame has returned *)
Lemma final_all_finished s : Inv2 s -> is_final s = true -> forall t, is_fin (t_pc (tasks s t)) = true.
Proof.
  intros I2 Hfin t. destruct (is_fin (t_pc (tasks s t))) eqn:Hf; auto.
  pose proof (i2_unfin _ _ I2 t Hf) as Hu.
  pose proof (unreturned_up succ s I2 _ Hu) as H0. unfold is_final in Hfin. congruence.
Qed.

(* success: the top-level syncutil.Go returned nil *)
Theorem success_tracker s : Reachable s -> result s = Some false ->
  failed s = false /\
  (forall t, is_fin (t_pc (tasks s t)) = true /\ t_holds (tasks s t) = false) /\
  (forall r, In r roots -> is_done (tracker s r) = true) /\
  (forall n, tracker s n = DoneCopied -> forall m, In m (succ n) -> is_done (tracker s m) = true) /\
  (forall n, tracker s n <> InProgress).
Proof.
  intros Hr Hres. destruct (inv1234_reach s Hr) as [I1 [I2 [I3 I4]]].
  assert (Hfin : is_final s = true).
  { unfold is_final, result in *. destruct (f_pc (frames s 0)); try discriminate; reflexivity. }
  assert (Hfl : failed s = false).
  { destruct (failed s) eqn:Hf; auto. pose proof (failed_final_error succ K ext roots succ_dec s Hr Hf Hfin). congruence. }
  pose proof (final_all_finished s I2 Hfin) as Hall.
  assert (Hnip : forall n, tracker s n <> InProgress).
  { intros n Hn. destruct (i3_own _ I3 Hfl n Hn) as [o [_ [_ Ho]]]. specialize (Hall o).
    destruct (t_pc (tasks s o)); discriminate. }
  split; auto. split.
  { intros t. split; auto. destruct (permits_conserved succ K ext roots s Hr) as [_ [_ Hh]]. auto. }
  split; [|split; [apply I4 | auto]].
  intros r Hin.
  destruct I4 as [Hdc Hwd Htr Hcov Hot [Hsh1 [Hsh2 [Hsh3 Hsh4]]]].
  assert (Hnu : tracker s r <> Untracked).
  { destruct (Hcov Hfl 0 r) as [Hi|[c [Hc1 [Hc2 [Hc3 Hc4]]]]].
    - rewrite Hsh3. auto.
    - rewrite (Hsh2 0) in Hi. contradiction. unfold is_final in Hfin. destruct (f_pc (frames s 0)); discriminate.
    - rewrite <- Hc3. specialize (Hall c). destruct (t_kind (tasks s c)) eqn:Hk.
      + apply Htr; auto. destruct (t_pc (tasks s c)); try discriminate; reflexivity.
      + apply Hot; auto. destruct (t_pc (tasks s c)); try discriminate; reflexivity. }
  specialize (Hnip r). destruct (tracker s r); try congruence; reflexivity.
Qed.

End Proofs.
