(* Byte identity: along every accepted trace the destination's byte-level content is verified
   content for exactly the nodes CopySpec says it holds; with a collision-free digest that is the
   source's content, so success => every reachable node is present WITH THE SOURCE'S BYTES. *)
From Oras Require Import Base.Prelude Model.CopySpec Model.CopyBytes Proofs.CopySpec.
Local Open Scope nat_scope.

Ltac simp_st := cbn [set_ph ph dst cached tag returned] in *.

(* the destination's node set changes exactly at the storing events *)
Lemma step_dst_stores g c st e st' : step g c st e = Some st' ->
  dst st' = match stores e with Some n => n :: dst st | None => dst st end.
Proof. intro H. step_inv H; simp_st; reflexivity. Qed.

Lemma run_dst_stores g c tr : forall st st', run g c st tr = Some st' ->
  dst st' = stored_nodes tr (dst st).
Proof.
  induction tr as [|e tr IH]; simpl; intros st st' H.
  - now injection H as <-.
  - destruct (step g c st e) as [s1|] eqn:E; [|discriminate].
    rewrite (IH _ _ H), (step_dst_stores g c st e s1 E). reflexivity.
Qed.

Section Bytes.
Variable digest : str -> nat.
Variable src_bytes : node -> str.

Notation verify := (verify digest src_bytes).
Notation brun := (brun digest src_bytes).

(* everything the destination holds passed verification, and it holds bytes for exactly the stored nodes *)
Lemma brun_sound tr : forall served bs bs',
  brun tr served bs = Some bs' ->
  (forall n b, In (n, b) bs -> verify n b = true) ->
  (forall n b, In (n, b) bs' -> verify n b = true) /\
  map fst bs' = stored_nodes tr (map fst bs).
Proof.
  induction tr as [|e tr IH]; simpl; intros served bs bs' H Hv.
  - injection H as <-. auto.
  - destruct (stores e) as [n|].
    + destruct served as [|b sv]; [discriminate|].
      destruct (verify n b) eqn:V; [|discriminate].
      apply (IH sv ((n, b) :: bs) bs' H).
      intros m x [Hx|Hx]; [injection Hx as <- <-; exact V | now apply Hv].
    + apply (IH served bs bs' H Hv).
Qed.

(* collision-freeness of the digest on the universe: content that matches n's descriptor is n's content *)
Definition collision_free : Prop := forall n b, verify n b = true -> b = src_bytes n.

(* the destination key is a function of the content (digest-keyed) or of the node (descriptor-keyed):
   nodes with the same key have the same source bytes *)
Definition key_respects_bytes (g : graph) : Prop :=
  forall m n, g_dkey g m = g_dkey g n -> src_bytes m = src_bytes n.

Lemma bytes_identical g c d0 tr st served bs0 bs :
  closed_nodes g d0 -> mt_consistent g ->
  collision_free -> key_respects_bytes g ->
  (forall n b, In (n, b) bs0 -> verify n b = true) -> map fst bs0 = d0 ->
  accepts g c d0 tr = Some st -> returned st = Some true ->
  brun tr served bs0 = Some bs ->
  forall n, reach g (c_root c) n -> exists m b, In (m, b) bs /\ g_dkey g m = g_dkey g n /\ b = src_bytes n.
Proof.
  intros Hc Hm Hcf Hk Hv0 Hd0 Ha Hr Hb n Hn.
  pose proof (closure_lemma g c d0 tr st Hc Hm Ha Hr n Hn) as Hp.
  destruct (brun_sound tr served bs0 bs Hb Hv0) as [Hv Hnodes].
  unfold accepts in Ha. pose proof (run_dst_stores g c tr _ _ Ha) as Hdst. simpl in Hdst.
  rewrite Hd0, <- Hdst in Hnodes.
  apply has_spec in Hp as [m [Hin Hkey]].
  rewrite <- Hnodes in Hin. apply in_map_iff in Hin as [[m' b] [Hfst Hin]]. simpl in Hfst. subst m'.
  exists m, b. split; [exact Hin|]. split; [exact Hkey|].
  rewrite (Hcf m b (Hv m b Hin)). now apply Hk.
Qed.

(* a push of wrong bytes does not become visible: the run of the byte layer stops (the Push fails) *)
Lemma wrong_bytes_rejected n ref r served b bs :
  verify n b = false -> brun (PuE n ref POk :: r) (b :: served) bs = None.
Proof. intro V. simpl. now rewrite V. Qed.
End Bytes.

(* the hypotheses are satisfiable: the identity digest on distinct contents *)
Lemma bytes_example :
  let digest := fun s : str => match s with [x] => N.to_nat x | _ => 0 end in
  let src := fun n : node => [N.of_nat (S n)] in
  collision_free digest src /\
  exists bs, brun digest src [PuE 0 false POk; PuE 1 false POk] [[1%N]; [2%N]] [] = Some bs /\
             bs = [(1, [2%N]); (0, [1%N])].
Proof.
  split.
  - intros n b V. unfold verify in V. apply andb_true_iff in V as [V1 V2].
    apply Nat.eqb_eq in V1, V2. cbv beta in V1, V2.
    destruct b as [|x [|y r]]; cbn [length] in V2; try discriminate V2.
    apply N2Nat.inj in V1. now subst x.
  - eexists. split; [vm_compute; reflexivity|reflexivity].
Qed.
