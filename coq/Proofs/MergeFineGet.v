(* C14 — InvF preserved by FEGet *)
From Oras Require Import Base.Prelude Model.Referrers Proofs.Referrers Model.Merge Proofs.Merge Model.MergeFine Proofs.MergeFine.
From Coq Require Import Lia.

Lemma stepF_get sg s t c s' : InvF s -> fstep sg s (FEGet t c) = Some s' -> InvF s'.
Proof.
  intros I H. simpl in H.
  destruct (f_pcs s t) eqn:Hpc; try discriminate.
  destruct (is_empty (cdesc c)) eqn:Hne0; try discriminate.
  assert (Hh : fholding (f_pcs s t) = false) by (now rewrite Hpc).
  assert (Hnm : fmain (f_pcs s t) = false) by (now rewrite Hpc).
  assert (Hnw : fwindow (f_pcs s t) = false) by (now rewrite Hpc).
  assert (Hnr : fres (f_pcs s t) = None) by (now rewrite Hpc).
  assert (Hnb : In t (fbatch s) -> False).
  { intro Hin. unfold fbatch in Hin. apply in_map_iff in Hin as ((t', c0) & E & Hin). simpl in E. subst t'.
    destruct (f_it s I t c0 Hin) as [H1|[H1|[_ (r & [H1|H1])]]]; rewrite Hpc in H1; discriminate. }
  assert (Hnp : In t (map fst (f_pending s)) -> False).
  { intro Hin. apply in_map_iff in Hin as ((t', c0) & E & Hin). simpl in E. subst t'.
    destruct (f_pe s I t c0 Hin) as [H1 _]. rewrite Hpc in H1. discriminate. }
  destruct (f_pool s) as [rc|] eqn:Hpool; injection H as <-.
  - dI I. constructor; simpl.
    all: try solve [fsolve].
    all: try solve [apply it_keep; auto; intro; tauto].
    all: try solve [intros t0 c0 Hin; assert (t0 <> t) by (intro; subst; apply Hnp; now apply in_fst in Hin);
                    rewrite upd_neq by auto; auto].
    all: try solve [intro Hx; destruct (f_tok0 Hx) as (A & B & C); repeat split; auto; intro t0; tcase t0 t; auto].
    all: try solve [intro Hx; destruct (f_tom0 Hx) as [A|A]; auto; right; apply ex_keep; auto].
    all: try solve [intros r Hx; apply ex_res_keep; auto].
    + intros t0 c0 Hin. assert (t0 <> t) by (intro; subst; apply Hnp; eapply in_fst; eauto).
      rewrite upd_neq by auto. exact (f_pe0 t0 c0 Hin).
    + destruct f_pl0 as (hs & Hnd & Hin & Hp). rewrite Hpool in Hp. destruct Hp as [-> Hp].
      exists (t :: hs). repeat split; try discriminate.
      * constructor; auto. intro Hx. apply Hin in Hx. congruence.
      * intros [<-|Hx]; [now rewrite upd_eq|]. tcase t0 t; auto. now apply Hin.
      * intro Hx. tcase t0 t; [now left|]. right. now apply Hin.
  - destruct (fpool_none s I Hpool) as (Hhold & Hi & Hpd).
    destruct (f_emp s I Hi) as (Hc & _).
    assert (Hnomain : forall t0, fmain (f_pcs s t0) = false).
    { intro t0. destruct (fmain (f_pcs s t0)) eqn:E; auto. apply fmain_holding in E. now rewrite Hhold in E. }
    dI I. rewrite Hi, Hpd, Hc in *. constructor; simpl.
    all: try solve [fsolve].
    all: try solve [constructor].
    all: try solve [intros t0 Hx; tcase t0 t; [discriminate|]; rewrite Hnomain in Hx; discriminate].
    all: try solve [intros t0 Hx; tcase t0 t; [discriminate|]; try apply fpost_main in Hx; try apply fpre_main in Hx; rewrite Hnomain in Hx; discriminate].
    all: try solve [intro Hx; destruct (f_tok0 Hx) as (A & B & C); congruence].
    all: try solve [intros r Hx; apply ex_res_keep; auto].
    all: try solve [intros t0 g Hx; tcase t0 t; [discriminate|]; exfalso; specialize (Hhold t0); rewrite Hx in Hhold; discriminate].
    exists [t]. repeat split; try discriminate.
    * constructor; [simpl; tauto|constructor].
    * intros [<-|[]]. now rewrite upd_eq.
    * intro Hx. tcase t0 t; [now left|]. rewrite Hhold in Hx. discriminate.
Qed.

(* a step of the main caller before complete(): its pc changes within
   {Prep, Prepared, NeedPut, NeedDel}, committed may become true, the registry cell changes *)
