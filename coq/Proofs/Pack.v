From Oras Require Import Base.Prelude Base.Regex Generated.GC19 Model.Pack.
