(* Lemmas about Model/Pack.v (C19). *)
From Oras Require Import Base.Prelude Base.Regex Generated.GC19 Model.Pack.

(* ------------------------------------------------------------------ *)
(* 1. mediaTypeRegexp = RFC 6838 type-name "/" subtype-name            *)
(* ------------------------------------------------------------------ *)

Definition is_alnum (c : N) : bool :=
  ((48 <=? c) && (c <=? 57)) || ((65 <=? c) && (c <=? 90)) || ((97 <=? c) && (c <=? 122)).

(* restricted-name-chars = ALPHA / DIGIT / "!" / "#" / "$" / "&" / "-" / "^" / "_" / "." / "+" *)
Definition rn_char (c : N) : bool :=
  is_alnum c || (c =? 33) || (c =? 35) || (c =? 36) || (c =? 38) || (c =? 45) || (c =? 94) ||
  (c =? 95) || (c =? 46) || (c =? 43).

(* restricted-name = restricted-name-first *126restricted-name-chars *)
Definition restricted_name (t : str) : Prop :=
  exists c r, t = c :: r /\ is_alnum c = true /\ (length r <= 126)%nat /\
              Forall (fun x => rn_char x = true) r.

Definition RFC6838 (s : str) : Prop :=
  exists t u, s = t ++ [47] ++ u /\ restricted_name t /\ restricted_name u.

Ltac bool_lia :=
  apply eq_true_iff_eq;
  repeat rewrite ?orb_true_iff, ?andb_true_iff, ?N.leb_le, ?N.eqb_eq;
  split; intro; lia.

Lemma in_ranges_first c : in_ranges [(48, 57); (65, 90); (97, 122)] c = is_alnum c.
Proof. unfold in_ranges, is_alnum. cbn [existsb fst snd]. bool_lia. Qed.

Lemma in_ranges_rest c :
  in_ranges [(33, 33); (35, 36); (38, 38); (43, 43); (45, 46); (48, 57); (65, 90); (94, 95); (97, 122)] c
  = rn_char c.
Proof. unfold in_ranges, rn_char, is_alnum. cbn [existsb fst snd]. bool_lia. Qed.

Lemma Lang_first s :
  Lang (Cls [(48, 57); (65, 90); (97, 122)]) s <-> exists c, s = [c] /\ is_alnum c = true.
Proof.
  rewrite Lang_Cls. split; intros (c & -> & Hc); exists c; split; auto;
    [now rewrite <- in_ranges_first | now rewrite in_ranges_first].
Qed.

Lemma Lang_rest s :
  Lang (Rep (Cls [(33, 33); (35, 36); (38, 38); (43, 43); (45, 46); (48, 57); (65, 90); (94, 95); (97, 122)]) 0 126) s
  <-> (length s <= 126)%nat /\ Forall (fun x => rn_char x = true) s.
Proof.
  unfold Rep. cbn [rep_exact Nat.sub]. rewrite Lang_Cat_Eps_l, Lang_rep_upto_cls. unfold all_in.
  split; intros [L A]; split; auto; eapply Forall_impl; try exact A; intros x Hx; cbv beta in *;
    [now rewrite <- in_ranges_rest | now rewrite in_ranges_rest].
Qed.

Lemma Lang_name a r s :
  (forall x, Lang a x <-> exists c, x = [c] /\ is_alnum c = true) ->
  (forall x, Lang r x <-> (length x <= 126)%nat /\ Forall (fun y => rn_char y = true) x) ->
  (exists s1 s2, s = s1 ++ s2 /\ Lang a s1 /\ Lang r s2) <-> restricted_name s.
Proof.
  intros Ha Hr. unfold restricted_name. split.
  - intros (s1 & s2 & -> & H1 & H2). apply Ha in H1 as (c & -> & Hc). apply Hr in H2 as [L A].
    exists c, s2. auto.
  - intros (c & t & -> & Hc & L & A). exists [c], t. repeat split.
    + apply Ha. eauto.
    + apply Hr. auto.
Qed.

Theorem media_type_grammar s : valid_media_type s = true <-> RFC6838 s.
Proof.
  unfold valid_media_type. rewrite matches_spec. unfold mediaTypeRegexp, RFC6838.
  split.
  - intro HL.
    apply Lang_Cat in HL as (s1 & r1 & -> & H1 & HL).
    apply Lang_Cat in HL as (s2 & r2 & -> & H2 & HL).
    apply Lang_Cat in HL as (s3 & r3 & -> & H3 & HL).
    apply Lang_Cat in HL as (s4 & s5 & -> & H4 & H5).
    apply Lang_Lit in H3. subst s3.
    exists (s1 ++ s2), (s4 ++ s5). split; [now rewrite <- !app_assoc|].
    split; eapply Lang_name; try apply Lang_first; try apply Lang_rest; eauto.
  - intros (t & u & -> & Ht & Hu).
    eapply Lang_name in Ht as (s1 & s2 & -> & H1 & H2); [|apply Lang_first|apply Lang_rest].
    eapply Lang_name in Hu as (s4 & s5 & -> & H4 & H5); [|apply Lang_first|apply Lang_rest].
    rewrite <- app_assoc. constructor; auto. constructor; auto.
    constructor; [now apply Lang_Lit|]. constructor; auto.
Qed.

(* the built-in media types pass their own check *)
Lemma valid_unknown_config : valid_media_type MediaTypeUnknownConfig = true.
Proof. vm_compute. reflexivity. Qed.
Lemma valid_empty_json : valid_media_type MediaTypeEmptyJSON = true.
Proof. vm_compute. reflexivity. Qed.

(* ------------------------------------------------------------------ *)
(* 2. ensureAnnotationCreated                                          *)
(* ------------------------------------------------------------------ *)

Lemma ann_get_app_fresh k l v : ann_get k l = None -> ann_get k (l ++ [(k, v)]) = Some v.
Proof.
  induction l as [|[k' v'] l IH]; simpl.
  - now rewrite str_eqb_refl.
  - destruct (str_eqb k k'); [discriminate | exact IH].
Qed.

Lemma ann_get_app_other k k' l v : k <> k' -> ann_get k (l ++ [(k', v)]) = ann_get k l.
Proof.
  intro N. induction l as [|[k2 v2] l IH]; simpl.
  - destruct (str_eqb k k') eqn:E; auto. apply str_eqb_spec in E. contradiction.
  - destruct (str_eqb k k2); auto.
Qed.

(* On success the created key carries a timestamp time.Parse accepts (the caller's
   or the clock's) and every other annotation is untouched. *)
Lemma ensure_created_spec ann key now ann' :
  ensure_created ann key now = Some ann' ->
  (exists v, ann_get key ann' = Some v /\
             (ann_get key ann = Some v /\ rfc3339_ok v = true /\ ann' = ann \/
              ann_get key ann = None /\ v = now /\ ann' = ann ++ [(key, now)])) /\
  (forall k, k <> key -> ann_get k ann' = ann_get k ann).
Proof.
  unfold ensure_created. destruct (ann_get key ann) as [v|] eqn:G.
  - destruct (rfc3339_ok v) eqn:R; [|discriminate]. intros [= <-]. split; [|auto].
    exists v. split; auto.
  - intros [= <-]. split.
    + exists now. split; [now apply ann_get_app_fresh | right; auto].
    + intros k N. now apply ann_get_app_other.
Qed.

Lemma ensure_created_none ann key now :
  ensure_created ann key now = None <->
  exists v, ann_get key ann = Some v /\ rfc3339_ok v = false.
Proof.
  unfold ensure_created. destruct (ann_get key ann) as [v|].
  - destruct (rfc3339_ok v) eqn:R; split; try discriminate; eauto.
    intros (v' & [= <-] & R'). congruence.
  - split; [discriminate | intros (v & D & _); discriminate].
Qed.

(* with a caller-supplied created annotation the clock is not consulted *)
Lemma ensure_created_fixed ann key now now' v :
  ann_get key ann = Some v ->
  ensure_created ann key now = ensure_created ann key now'.
Proof. unfold ensure_created. now intros ->. Qed.

(* ------------------------------------------------------------------ *)
(* 3. the storage primitives                                           *)
(* ------------------------------------------------------------------ *)

Definition from_push (evs : list event) (e : entry) : Prop :=
  exists r d bytes n, In (EvPush r d bytes) evs /\ e = mkEntry (d_mt d) (d_dg d) (d_sz d) bytes n.

(* [steps s s' evs]: going from s to s' issued exactly the storage operations evs,
   and the store only grew, by content of pushes among evs. *)
Definition steps (s s' : state) (evs : list event) : Prop :=
  s_events s' = s_events s ++ evs /\
  s_ops s' = (s_ops s + length evs)%nat /\
  exists l, s_store s' = s_store s ++ l /\ Forall (from_push evs) l.

Lemma steps_refl s : steps s s [].
Proof.
  unfold steps. split; [now rewrite app_nil_r|]. split; [simpl; lia|].
  exists nil. split; [now rewrite app_nil_r | constructor].
Qed.

Lemma from_push_mono e1 e2 e : from_push e1 e \/ from_push e2 e -> from_push (e1 ++ e2) e.
Proof.
  intros [(r & d & bs & n & I & E) | (r & d & bs & n & I & E)]; exists r, d, bs, n; split; auto;
    apply in_or_app; auto.
Qed.

Lemma steps_trans s s1 s2 e1 e2 : steps s s1 e1 -> steps s1 s2 e2 -> steps s s2 (e1 ++ e2).
Proof.
  intros (A1 & B1 & l1 & C1 & D1) (A2 & B2 & l2 & C2 & D2). repeat split.
  - now rewrite A2, A1, app_assoc.
  - rewrite B2, B1, app_length. lia.
  - exists (l1 ++ l2). split; [now rewrite C2, C1, app_assoc|].
    apply Forall_app. split; eapply Forall_impl; try eassumption; intros; apply from_push_mono; auto.
Qed.

(* the store only grows: what Exists answered stays true *)
Lemma name_exists_app st l n : name_exists (st ++ l) n = name_exists st n || name_exists l n.
Proof. unfold name_exists. apply existsb_app. Qed.

Lemma stored_mono k st l d : stored k st d = true -> stored k (st ++ l) d = true.
Proof.
  unfold stored. intro E. apply andb_true_iff in E as [N X]. apply andb_true_iff. split.
  - destruct k; auto. unfold name_ok in *. apply orb_true_iff in N as [N|N]; [now rewrite N|].
    now rewrite name_exists_app, N, orb_true_r.
  - now rewrite existsb_app, X.
Qed.

Lemma stored_steps bd s s' evs d :
  steps s s' evs -> stored bd (s_store s) d = true -> stored bd (s_store s') d = true.
Proof. intros (_ & _ & l & -> & _) St. now apply stored_mono. Qed.

(* what was just pushed is there *)
Lemma stored_pushed k st d bytes :
  stored k (st ++ [mkEntry (d_mt d) (d_dg d) (d_sz d) bytes (entry_name k d)]) d = true.
Proof.
  unfold stored. apply andb_true_iff. split.
  - destruct k; auto. unfold name_ok, entry_name. destruct (is_nil (title d)) eqn:T; auto.
    cbn [orb]. rewrite name_exists_app. unfold name_exists at 2. cbn [existsb e_name].
    rewrite str_eqb_refl. cbn [orb]. apply orb_true_r.
  - rewrite existsb_app. apply orb_true_iff. right. simpl. rewrite orb_false_r.
    unfold same_key, full_key, is_named, entry_name. simpl. rewrite str_eqb_refl.
    destruct k; simpl; auto.
    + now rewrite str_eqb_refl, Z.eqb_refl.
    + apply Bool.eqb_reflx.
    + destruct (is_nil (title d)); simpl; auto. now rewrite str_eqb_refl, Z.eqb_refl.
Qed.

(* an answer ErrAlreadyExists is only given for untitled descriptors (see do_push) *)
Lemma push_dup_stored k st d : is_nil (entry_name k d) = true -> push_dup k st d = true -> stored k st d = true.
Proof.
  unfold push_dup, stored. intros T E. apply existsb_exists in E as (e & I & P). apply andb_true_iff. split.
  - destruct k; auto. unfold name_ok. unfold entry_name in T. now rewrite T.
  - apply existsb_exists. exists e. split; auto. destruct k; auto. simpl in P.
    apply andb_true_iff in P as [_ P]. exact P.
Qed.

(* a storage operation can fail by an injected fault or, on a file store, by a taken file name *)
Definition may_fail (tc : tcfg) (fa : option nat) : Prop := fa <> None \/ t_key tc = KFile.

(* [stepsk]: steps, with the key discipline in view: a new entry is the one Push writes for its
   descriptor, and an unnamed new entry was not already there for Push (no ErrAlreadyExists) *)
Definition as_desc (e : entry) : desc := mkDesc (e_mt e) (e_dg e) (e_sz e) [] [] no_extra.
Definition fresh (k : keykind) (st : list entry) (e : entry) : Prop :=
  is_nil (e_name e) = true -> push_dup k st (as_desc e) = false.
Definition pushed_by (k : keykind) (evs : list event) (e : entry) : Prop :=
  exists r d bytes, In (EvPush r d bytes) evs /\ e = mkEntry (d_mt d) (d_dg d) (d_sz d) bytes (entry_name k d).

Definition stepsk (k : keykind) (s s' : state) (evs : list event) : Prop :=
  steps s s' evs /\
  exists l, s_store s' = s_store s ++ l /\ Forall (pushed_by k evs) l /\ Forall (fresh k (s_store s)) l.

Lemma stepsk_steps k s s' evs : stepsk k s s' evs -> steps s s' evs.
Proof. now intros [S _]. Qed.

Lemma stepsk_refl k s : stepsk k s s [].
Proof. split; [apply steps_refl|]. exists nil. split; [now rewrite app_nil_r|]. split; constructor. Qed.

Lemma push_dup_app k st l d : push_dup k (st ++ l) d = push_dup k st d || push_dup k l d.
Proof. unfold push_dup. apply existsb_app. Qed.

Lemma pushed_by_mono k e1 e2 e : pushed_by k e1 e \/ pushed_by k e2 e -> pushed_by k (e1 ++ e2) e.
Proof.
  intros [(r & d & bs & I & E) | (r & d & bs & I & E)]; exists r, d, bs; split; auto; apply in_or_app; auto.
Qed.

Lemma stepsk_trans k s s1 s2 e1 e2 : stepsk k s s1 e1 -> stepsk k s1 s2 e2 -> stepsk k s s2 (e1 ++ e2).
Proof.
  intros (S1 & l1 & C1 & P1 & F1) (S2 & l2 & C2 & P2 & F2). split; [eapply steps_trans; eauto|].
  exists (l1 ++ l2). split; [now rewrite C2, C1, app_assoc|]. split.
  - apply Forall_app. split.
    + eapply Forall_impl; [|exact P1]. intros e Pe. apply pushed_by_mono. now left.
    + eapply Forall_impl; [|exact P2]. intros e Pe. apply pushed_by_mono. now right.
  - apply Forall_app. split; auto. eapply Forall_impl; [|exact F2]. intros e Fr N.
    specialize (Fr N). rewrite C1, push_dup_app in Fr. now apply orb_false_iff in Fr as [Fr _].
Qed.

Lemma stored_stepsk bd s s' evs d :
  stepsk bd s s' evs -> stored bd (s_store s) d = true -> stored bd (s_store s') d = true.
Proof. intros [S _]. eapply stored_steps; eauto. Qed.

Lemma stepsk_nogrow k s ev :
  stepsk k s (tick s ev) [ev].
Proof.
  split.
  - split; [reflexivity|]. split; [simpl; lia|]. exists nil. split; [now rewrite app_nil_r | constructor].
  - exists nil. split; [simpl; now rewrite app_nil_r|]. split; constructor.
Qed.

Lemma do_exists_spec tc fa s d s' r :
  do_exists tc fa s d = (s', r) ->
  stepsk (t_key tc) s s' [EvExists d] /\
  (r = None -> may_fail tc fa) /\
  (r = Some true -> stored (t_key tc) (s_store s') d = true).
Proof.
  unfold do_exists. destruct (faulty fa s) eqn:F; intros [= <- <-]; (split; [apply stepsk_nogrow|split]);
    try discriminate.
  - intros _. left. intro E. subst fa. discriminate.
  - simpl. congruence.
Qed.

Lemma push_dup_as_desc k st d bytes n :
  push_dup k st (as_desc (mkEntry (d_mt d) (d_dg d) (d_sz d) bytes n)) = push_dup k st d.
Proof. reflexivity. Qed.

Lemma do_push_spec tc fa s r d bytes s' ok :
  do_push tc fa s r d bytes = (s', ok) ->
  stepsk (t_key tc) s s' [EvPush r d bytes] /\
  (ok = false -> may_fail tc fa) /\
  (ok = true -> stored (t_key tc) (s_store s') d = true).
Proof.
  unfold do_push.
  destruct (faulty fa s) eqn:F.
  { intros [= <- <-]. split; [apply stepsk_nogrow|]. split; [|discriminate].
    intros _. left. intro E. subst fa. discriminate. }
  destruct (push_refused (t_key tc) (s_store s) d) eqn:R.
  { intros [= <- <-]. split; [apply stepsk_nogrow|]. split; [|discriminate].
    intros _. right. unfold push_refused in R. destruct (t_key tc); try discriminate. reflexivity. }
  destruct (is_nil (entry_name (t_key tc) d) && push_dup (t_key tc) (s_store s) d) eqn:D; intros [= <- <-].
  - apply andb_true_iff in D as [D1 D2]. split; [apply stepsk_nogrow|]. split; [discriminate|].
    intros _. simpl. now apply push_dup_stored.
  - split.
    + split.
      * split; [reflexivity|]. split; [simpl; lia|].
        exists [mkEntry (d_mt d) (d_dg d) (d_sz d) bytes (entry_name (t_key tc) d)]. split; auto.
        constructor; [|constructor]. exists r, d, bytes, (entry_name (t_key tc) d). simpl; auto.
      * exists [mkEntry (d_mt d) (d_dg d) (d_sz d) bytes (entry_name (t_key tc) d)]. split; [reflexivity|].
        split; (constructor; [|constructor]).
        -- exists r, d, bytes. simpl; auto.
        -- intro N. cbn [e_name] in N. rewrite push_dup_as_desc. rewrite N in D. exact D.
    + split; [discriminate|]. intros _. simpl. apply stored_pushed.
Qed.

Section PackProofs.
  Variable marshal : manifest -> str.
  Variable H : str -> str.
  Hypothesis H_empty : H empty_json = empty_json_digest.

  (* descriptors of the two-byte blob "{}" *)
  Definition blob_desc (d : desc) : Prop := d_dg d = H empty_json /\ d_sz d = 2%Z.

  (* storage operations that concern only the blob "{}" *)
  Definition blob_ev (ev : event) : Prop :=
    match ev with
    | EvExists d => blob_desc d
    | EvPush RBlob d bytes => bytes = empty_json /\ blob_desc d
    | EvPush RManifest _ _ => False
    end.

  (* ... and that concern descriptor d *)
  Definition own (d : desc) (ev : event) : Prop :=
    blob_ev ev /\ (ev = EvExists d \/ ev = EvPush RBlob d empty_json).

  Lemma pine_spec tc fa s d s' ok :
    blob_desc d ->
    push_if_not_exist tc fa s d empty_json = (s', ok) ->
    exists evs, stepsk (t_key tc) s s' evs /\ Forall (own d) evs /\
                (ok = false -> may_fail tc fa) /\
                (ok = true -> stored (t_key tc) (s_store s') d = true).
  Proof.
    intros Bd.
    assert (OX : own d (EvExists d)) by (split; [exact Bd | left; reflexivity]).
    assert (OP : own d (EvPush RBlob d empty_json)) by (split; [split; auto | right; reflexivity]).
    unfold push_if_not_exist. destruct (t_exists tc).
    - destruct (do_exists tc fa s d) as [s1 r] eqn:E. apply do_exists_spec in E as (S1 & F1 & T1).
      destruct r as [[|]|].
      + intros [= <- <-]. exists [EvExists d]. split; [exact S1|].
        split; [constructor; [exact OX | constructor]|]. split; [discriminate | auto].
      + intro P. apply do_push_spec in P as (S2 & F2 & T2).
        exists ([EvExists d] ++ [EvPush RBlob d empty_json]). split; [eapply stepsk_trans; eauto|].
        split; [|split; auto]. constructor; [exact OX|]. constructor; [exact OP | constructor].
      + intros [= <- <-]. exists [EvExists d]. split; [exact S1|].
        split; [constructor; [exact OX | constructor]|]. split; [auto | discriminate].
    - intro P. apply do_push_spec in P as (S2 & F2 & T2).
      exists [EvPush RBlob d empty_json]. split; [exact S2|]. split; [|split; auto].
      constructor; [exact OP | constructor].
  Qed.

  (* ---------------------------------------------------------------- *)
  (* 4. what the caller asked for (written from the documentation)     *)
  (* ---------------------------------------------------------------- *)

  Definition created_key (f : fn) : str :=
    match f with FArtifact => AnnotationArtifactCreated | _ => AnnotationCreated end.

  Definition is_some {A} (x : option A) : bool := match x with Some _ => true | None => false end.

  Definition invalid_config (o : opts) : bool :=
    match o_config o with Some c => negb (valid_media_type (d_mt c)) | None => false end.

  (* PackManifest must refuse: unknown version; v1.0 with a subject; a config or artifact
     type that is used and violates RFC 6838; v1.1 without artifact type when the config
     is absent or the empty JSON config.  Pack (deprecated) refuses nothing. *)
  Definition must_reject (f : fn) (at_ : str) (o : opts) : bool :=
    match f with
    | FBadVersion => true
    | FV10 => is_some (o_subject o) || invalid_config o ||
              (negb (is_some (o_config o)) && negb (is_empty at_) && negb (valid_media_type at_))
    | FV11 => (is_empty at_ && config_is_empty_or_nil o) ||
              (negb (is_empty at_) && negb (valid_media_type at_)) || invalid_config o
    | FRC2 | FArtifact => false
    end.

  Definition validation_err (e : err) : Prop :=
    e = EUnsupported \/ e = EInvalidMediaType \/ e = EMissingArtifactType.

  (* the config blob Pack invents when the caller gives no ConfigDescriptor *)
  Definition invented_config (f : fn) (at_ : str) (o : opts) : option desc :=
    match f with
    | FV10 | FRC2 =>
      match o_config o with
      | Some _ => None
      | None =>
        Some (with_ann (desc_from_bytes H (if is_empty at_ then MediaTypeUnknownConfig else at_) empty_json)
                       (o_config_ann o))
      end
    | FV11 =>
      match o_config o with
      | Some _ => None
      | None => Some (with_ann DescriptorEmptyJSON (o_config_ann o))
      end
    | FArtifact | FBadVersion => None
    end.

  Definition invented_layer (f : fn) (o : opts) : list desc :=
    match f, layers_or_empty (o_layers o) with
    | FV11, [] => [DescriptorEmptyJSON]
    | _, _ => []
    end.

  Definition invented (f : fn) (at_ : str) (o : opts) : list desc :=
    match invented_config f at_ o with Some c => [c] | None => [] end ++ invented_layer f o.

  Definition requested_config (f : fn) (at_ : str) (o : opts) : option desc :=
    match o_config o with Some c => Some c | None => invented_config f at_ o end.

  (* the manifest document the caller asked for, [ann] being the annotations with created filled in *)
  Definition requested_manifest (f : fn) (at_ : str) (o : opts) (ann : list kv) : manifest :=
    match f with
    | FV10 =>
      mkManifest KImage (requested_config f at_ o) (Some (layers_or_empty (o_layers o))) None [] ann
    | FRC2 =>
      mkManifest KImage (requested_config f at_ o) (Some (layers_or_empty (o_layers o))) (o_subject o) [] ann
    | FV11 =>
      mkManifest KImage (requested_config f at_ o)
                 (Some (match layers_or_empty (o_layers o) with [] => [DescriptorEmptyJSON] | l => l end))
                 (o_subject o) at_ ann
    | FArtifact | FBadVersion =>
      mkManifest KArtifact None
                 (match layers_or_empty (o_layers o) with [] => None | l => Some l end)
                 (o_subject o) (if is_empty at_ then MediaTypeUnknownArtifact else at_) ann
    end.

  (* the descriptor of manifest m: media type, digest and size of its bytes; artifactType
     and annotations copied from the manifest (v1.0 / rc2: the config media type) *)
  Definition result_desc (f : fn) (m : manifest) : desc :=
    mkDesc (kind_mt (m_kind m)) (H (marshal m)) (Z.of_nat (length (marshal m))) (m_ann m)
           (match f with
            | FV10 | FRC2 => match m_config m with Some c => d_mt c | None => [] end
            | _ => m_at m
            end) no_extra.

  (* the storage operations before the manifest push: on "{}", for a descriptor Pack invented *)
  Definition inv_ev (f : fn) (at_ : str) (o : opts) (ev : event) : Prop :=
    blob_ev ev /\ exists d, In d (invented f at_ o) /\ (ev = EvExists d \/ ev = EvPush RBlob d empty_json).

  Lemma own_inv f at_ o d evs :
    In d (invented f at_ o) -> Forall (own d) evs -> Forall (inv_ev f at_ o) evs.
  Proof.
    intros I F. eapply Forall_impl; [|exact F]. intros ev [B E]. split; [exact B | exists d; auto].
  Qed.

  Lemma inv_blob f at_ o evs : Forall (inv_ev f at_ o) evs -> Forall blob_ev evs.
  Proof. intro F. eapply Forall_impl; [|exact F]. intros ev [B _]. exact B. Qed.

  Inductive outcome (f : fn) (tc : tcfg) (fa : option nat) (s : state) (at_ : str) (o : opts) (now : str)
    : state -> result -> Prop :=
  | OutReject e :
      must_reject f at_ o = true -> validation_err e ->
      outcome f tc fa s at_ o now s (Err e)
  | OutBadCreated s' evs :
      must_reject f at_ o = false ->
      ensure_created (o_ann o) (created_key f) now = None ->
      stepsk (t_key tc) s s' evs -> Forall (inv_ev f at_ o) evs ->
      outcome f tc fa s at_ o now s' (Err EInvalidDateTime)
  | OutFaultBlob s' evs :
      must_reject f at_ o = false -> may_fail tc fa ->
      stepsk (t_key tc) s s' evs -> Forall (inv_ev f at_ o) evs ->
      outcome f tc fa s at_ o now s' (Err EInjected)
  | OutFaultManifest s' evs ann m :
      must_reject f at_ o = false -> may_fail tc fa ->
      ensure_created (o_ann o) (created_key f) now = Some ann ->
      m = requested_manifest f at_ o ann ->
      stepsk (t_key tc) s s' (evs ++ [EvPush RManifest (result_desc f m) (marshal m)]) -> Forall (inv_ev f at_ o) evs ->
      outcome f tc fa s at_ o now s' (Err EInjected)
  | OutOk s' evs ann m :
      must_reject f at_ o = false ->
      ensure_created (o_ann o) (created_key f) now = Some ann ->
      m = requested_manifest f at_ o ann ->
      stepsk (t_key tc) s s' (evs ++ [EvPush RManifest (result_desc f m) (marshal m)]) -> Forall (inv_ev f at_ o) evs ->
      stored (t_key tc) (s_store s') (result_desc f m) = true ->
      Forall (fun x => stored (t_key tc) (s_store s') x = true) (invented f at_ o) ->
      outcome f tc fa s at_ o now s' (Ok (result_desc f m) m).

  Lemma push_manifest_spec tc fa s m at_ s' r :
    push_manifest marshal H tc fa s m at_ = (s', r) ->
    forall d, d = mkDesc (kind_mt (m_kind m)) (H (marshal m)) (Z.of_nat (length (marshal m))) (m_ann m) at_ no_extra ->
    stepsk (t_key tc) s s' [EvPush RManifest d (marshal m)] /\
    (r = Ok d m /\ stored (t_key tc) (s_store s') d = true \/ r = Err EInjected /\ may_fail tc fa).
  Proof.
    unfold push_manifest. intros P d ->.
    destruct (do_push tc fa s RManifest _ (marshal m)) as [s1 ok] eqn:E.
    apply do_push_spec in E as (S1 & F1 & T1).
    destruct ok; injection P as <- <-; split; auto.
  Qed.

  Lemma blob_desc_custom mt ann : blob_desc (with_ann (desc_from_bytes H mt empty_json) ann).
  Proof. split; reflexivity. Qed.
  Lemma blob_desc_empty ann : blob_desc (with_ann DescriptorEmptyJSON ann).
  Proof. split; simpl; [now rewrite H_empty | reflexivity]. Qed.
  Lemma blob_desc_empty0 : blob_desc DescriptorEmptyJSON.
  Proof. split; simpl; [now rewrite H_empty | reflexivity]. Qed.

  Lemma pcec_spec tc fa s mt ann s' r :
    push_custom_empty_config H tc fa s mt ann = (s', r) ->
    forall d, d = with_ann (desc_from_bytes H mt empty_json) ann ->
    exists evs, stepsk (t_key tc) s s' evs /\ Forall (own d) evs /\
      (r = Some d /\ stored (t_key tc) (s_store s') d = true \/ r = None /\ may_fail tc fa).
  Proof.
    unfold push_custom_empty_config. intros P d ->.
    destruct (push_if_not_exist tc fa s _ empty_json) as [s1 ok] eqn:E.
    apply pine_spec in E as (evs & S1 & B1 & F1 & T1); [|apply blob_desc_custom].
    exists evs. destruct ok; injection P as <- <-; (split; [exact S1|]); (split; [exact B1|]);
      [left | right]; split; auto.
  Qed.

  (* ---------------------------------------------------------------- *)
  (* 5. every run of the four packers has one of the five outcomes     *)
  (* ---------------------------------------------------------------- *)

  Lemma artifact_outcome tc fa s at_ o now s' r :
    pack_artifact marshal H tc fa s at_ o now = (s', r) -> outcome FArtifact tc fa s at_ o now s' r.
  Proof.
    unfold pack_artifact.
    destruct (ensure_created (o_ann o) AnnotationArtifactCreated now) as [ann|] eqn:EC.
    - intro P. destruct (push_manifest_spec _ _ _ _ _ _ _ P _ eq_refl) as (S1 & [(-> & St) | (-> & F)]).
      + apply (OutOk FArtifact tc fa s at_ o now s' [] ann (requested_manifest FArtifact at_ o ann));
          [reflexivity | exact EC | reflexivity | exact S1 | constructor | exact St | constructor].
      + apply (OutFaultManifest FArtifact tc fa s at_ o now s' [] ann (requested_manifest FArtifact at_ o ann));
          [reflexivity | exact F | exact EC | reflexivity | exact S1 | constructor].
    - intros [= <- <-]. apply (OutBadCreated FArtifact tc fa s at_ o now s []); auto using stepsk_refl.
  Qed.

  Ltac mr V :=
    try match goal with o := _ |- _ => subst o end;
    unfold must_reject, invalid_config, config_is_empty_or_nil, is_some;
    cbn [o_subject o_config is_empty negb orb andb]; rewrite ?V; reflexivity.

  (* the last stage: marshal and push the manifest *)
  Lemma final_outcome f tc fa s at_ o now s1 evs ann m at' s' r :
    must_reject f at_ o = false ->
    ensure_created (o_ann o) (created_key f) now = Some ann ->
    stepsk (t_key tc) s s1 evs -> Forall (inv_ev f at_ o) evs ->
    Forall (fun x => stored (t_key tc) (s_store s1) x = true) (invented f at_ o) ->
    m = requested_manifest f at_ o ann ->
    at' = d_at (result_desc f m) ->
    push_manifest marshal H tc fa s1 m at' = (s', r) ->
    outcome f tc fa s at_ o now s' r.
  Proof.
    intros MR EC S0 B0 I0 -> -> P.
    destruct (push_manifest_spec _ _ _ _ _ _ _ P _ eq_refl) as (S1 & [(-> & St) | (-> & F)]).
    - apply (OutOk f tc fa s at_ o now s' evs ann (requested_manifest f at_ o ann));
        [exact MR | exact EC | reflexivity | eapply stepsk_trans; eauto | exact B0 | exact St |].
      eapply Forall_impl; [|exact I0]. intros x Hx. eapply stored_stepsk; eauto.
    - apply (OutFaultManifest f tc fa s at_ o now s' evs ann (requested_manifest f at_ o ann));
        [exact MR | exact F | exact EC | reflexivity | eapply stepsk_trans; eauto | exact B0].
  Qed.

  (* the common tail: fill in created, marshal, push the manifest *)
  Lemma tail_outcome f tc fa s at_ o now s1 evs (m_of : list kv -> manifest) at' s' r :
    must_reject f at_ o = false ->
    stepsk (t_key tc) s s1 evs -> Forall (inv_ev f at_ o) evs ->
    Forall (fun x => stored (t_key tc) (s_store s1) x = true) (invented f at_ o) ->
    (forall ann, m_of ann = requested_manifest f at_ o ann) ->
    (forall ann, at' = d_at (result_desc f (requested_manifest f at_ o ann))) ->
    match ensure_created (o_ann o) (created_key f) now with
    | None => (s1, Err EInvalidDateTime)
    | Some ann => push_manifest marshal H tc fa s1 (m_of ann) at'
    end = (s', r) ->
    outcome f tc fa s at_ o now s' r.
  Proof.
    intros MR S0 B0 I0 Em Eat P.
    destruct (ensure_created (o_ann o) (created_key f) now) as [ann|] eqn:EC.
    - apply (final_outcome f tc fa s at_ o now s1 evs ann (m_of ann) at' s' r); auto.
      rewrite Em. apply Eat.
    - injection P as <- <-. apply (OutBadCreated f tc fa s at_ o now s1 evs); auto.
  Qed.

  Ltac own2inv B :=
    eapply own_inv; [|exact B]; try (match goal with x := _ |- _ => subst x end); simpl; auto.

  Lemma rc2_outcome tc fa s at_ o now s' r :
    pack_rc2 marshal H tc fa s at_ o now = (s', r) -> outcome FRC2 tc fa s at_ o now s' r.
  Proof.
    unfold pack_rc2. destruct o as [subj lay ann0 cfg cann]. cbn [o_config o_ann o_layers o_subject o_config_ann].
    destruct cfg as [c|].
    - pose (o := mkOpts subj lay ann0 (Some c) cann).
      destruct (ensure_created ann0 AnnotationCreated now) as [ann|] eqn:EC.
      + intro P. destruct (push_manifest_spec _ _ _ _ _ _ _ P _ eq_refl) as (S1 & [(-> & St) | (-> & F)]).
        * apply (OutOk FRC2 tc fa s at_ o now s' [] ann (requested_manifest FRC2 at_ o ann));
            [reflexivity | exact EC | reflexivity | exact S1 | constructor | exact St | constructor].
        * apply (OutFaultManifest FRC2 tc fa s at_ o now s' [] ann (requested_manifest FRC2 at_ o ann));
            [reflexivity | exact F | exact EC | reflexivity | exact S1 | constructor].
      + intros [= <- <-]. apply (OutBadCreated FRC2 tc fa s at_ o now s []); auto using stepsk_refl.
    - pose (o := mkOpts subj lay ann0 None cann).
      destruct (push_custom_empty_config H tc fa s (if is_empty at_ then MediaTypeUnknownConfig else at_) cann)
        as [s1 [c|]] eqn:PC;
        destruct (pcec_spec _ _ _ _ _ _ _ PC _ eq_refl) as (evs & S0 & B0 & [([= ->] & St0) | (D & F0)]);
        try discriminate.
      + destruct (ensure_created ann0 AnnotationCreated now) as [ann|] eqn:EC.
        * intro P. destruct (push_manifest_spec _ _ _ _ _ _ _ P _ eq_refl) as (S1 & [(-> & St) | (-> & F)]).
          -- apply (OutOk FRC2 tc fa s at_ o now s' evs ann (requested_manifest FRC2 at_ o ann));
               [reflexivity | exact EC | reflexivity | eapply stepsk_trans; eauto | own2inv B0 | exact St |].
             constructor; [|constructor]. eapply stored_stepsk; eauto.
          -- apply (OutFaultManifest FRC2 tc fa s at_ o now s' evs ann (requested_manifest FRC2 at_ o ann));
               [reflexivity | exact F | exact EC | reflexivity | eapply stepsk_trans; eauto | own2inv B0].
        * intros [= <- <-]. apply (OutBadCreated FRC2 tc fa s at_ o now s1 evs); auto; try (own2inv B0).
      + intros [= <- <-]. apply (OutFaultBlob FRC2 tc fa s at_ o now s1 evs); auto; try (own2inv B0).
  Qed.

  Lemma v1_0_outcome tc fa s at_ o now s' r :
    pack_v1_0 marshal H tc fa s at_ o now = (s', r) -> outcome FV10 tc fa s at_ o now s' r.
  Proof.
    unfold pack_v1_0. destruct o as [subj lay ann0 cfg cann].
    cbn [o_config o_ann o_layers o_subject o_config_ann].
    destruct subj as [sj|].
    { intros [= <- <-]. apply OutReject; [reflexivity | left; reflexivity]. }
    destruct cfg as [c|].
    - pose (o := mkOpts None lay ann0 (Some c) cann).
      destruct (valid_media_type (d_mt c)) eqn:V.
      + intro P.
        apply (tail_outcome FV10 tc fa s at_ o now s [] (fun ann => requested_manifest FV10 at_ o ann) (d_mt c));
          [ mr V
          | apply stepsk_refl | constructor | constructor | reflexivity | reflexivity | exact P ].
      + intros [= <- <-]. apply OutReject; [|right; left; reflexivity].
        mr V.
    - destruct at_ as [|a0 at_]; cbn [is_empty].
      + pose (o := mkOpts None lay ann0 None cann).
        destruct (push_custom_empty_config H tc fa s MediaTypeUnknownConfig cann) as [s1 [c|]] eqn:PC;
          destruct (pcec_spec _ _ _ _ _ _ _ PC _ eq_refl) as (evs & S0 & B0 & [([= ->] & St0) | (D & F0)]);
          try discriminate.
        * intro P.
          apply (tail_outcome FV10 tc fa s [] o now s1 evs (fun ann => requested_manifest FV10 [] o ann)
                              MediaTypeUnknownConfig);
            [ reflexivity | exact S0 | own2inv B0 | constructor; [exact St0 | constructor]
            | reflexivity | reflexivity | exact P ].
        * intros [= <- <-]. apply (OutFaultBlob FV10 tc fa s [] o now s1 evs); auto; try (own2inv B0).
      + pose (o := mkOpts None lay ann0 None cann).
        destruct (valid_media_type (a0 :: at_)) eqn:V.
        * destruct (push_custom_empty_config H tc fa s (a0 :: at_) cann) as [s1 [c|]] eqn:PC;
            destruct (pcec_spec _ _ _ _ _ _ _ PC _ eq_refl) as (evs & S0 & B0 & [([= ->] & St0) | (D & F0)]);
            try discriminate.
          -- intro P.
             apply (tail_outcome FV10 tc fa s (a0 :: at_) o now s1 evs
                                 (fun ann => requested_manifest FV10 (a0 :: at_) o ann) (a0 :: at_));
               [ mr V
               | exact S0 | own2inv B0 | constructor; [exact St0 | constructor]
               | reflexivity | reflexivity | exact P ].
          -- intros [= <- <-]. apply (OutFaultBlob FV10 tc fa s (a0 :: at_) o now s1 evs); auto; try (own2inv B0).
             mr V.
        * intros [= <- <-]. apply OutReject; [|right; left; reflexivity].
          mr V.
  Qed.

  (* the placeholder layer is the config blob without its annotations: found wherever that one is *)
  Lemma stored_untitled k st d a :
    title d = [] -> stored k st (with_ann d a) = true -> stored k st d = true.
  Proof.
    unfold stored. intros T E. apply andb_true_iff in E as [_ X]. apply andb_true_iff. split; [|exact X].
    destruct k; auto. unfold name_ok. now rewrite T.
  Qed.

  Lemma v1_1_body_outcome tc fa s at_ o now s' r :
    is_empty at_ && config_is_empty_or_nil o = false ->
    negb (is_empty at_) && negb (valid_media_type at_) = false ->
    pack_v1_1_body marshal H tc fa s at_ o now = (s', r) -> outcome FV11 tc fa s at_ o now s' r.
  Proof.
    intros G1 G2. unfold pack_v1_1_body.
    assert (MRE : must_reject FV11 at_ o = invalid_config o).
    { unfold must_reject. now rewrite G1, G2. }
    clear G1 G2. revert MRE.
    destruct o as [subj lay ann0 cfg cann].
    cbn [o_config o_ann o_layers o_subject o_config_ann].
    destruct cfg as [c|].
    - pose (o := mkOpts subj lay ann0 (Some c) cann). intro MRE.
      destruct (valid_media_type (d_mt c)) eqn:V.
      2:{ intros [= <- <-]. apply OutReject; [|right; left; reflexivity].
          refine (eq_trans MRE _). unfold invalid_config. cbn. now rewrite V. }
      assert (MR : must_reject FV11 at_ o = false).
      { refine (eq_trans MRE _). unfold invalid_config. cbn. now rewrite V. }
      destruct (ensure_created ann0 AnnotationCreated now) as [ann|] eqn:EC.
      2:{ intros [= <- <-]. apply (OutBadCreated FV11 tc fa s at_ o now s []); auto using stepsk_refl. }
      destruct lay as [[|d0 l0]|]; cbn [layers_or_empty].
      + (* empty, non-nil layers: push the placeholder layer *)
        destruct (push_if_not_exist tc fa s DescriptorEmptyJSON empty_json) as [s2 ok] eqn:PL.
        destruct (pine_spec _ _ _ _ _ _ blob_desc_empty0 PL) as (evs & S0 & B0 & F0 & T0).
        assert (B0' : Forall (inv_ev FV11 at_ o) evs) by (own2inv B0).
        destruct ok.
        * intro P. apply (final_outcome FV11 tc fa s at_ o now s2 evs ann (requested_manifest FV11 at_ o ann) at_ s' r MR EC S0 B0'); 
            [ constructor; [auto | constructor] | reflexivity | reflexivity | exact P ].
        * intros [= <- <-]. apply (OutFaultBlob FV11 tc fa s at_ o now s2 evs); auto; try (own2inv B0).
      + intro P. apply (final_outcome FV11 tc fa s at_ o now s [] ann (requested_manifest FV11 at_ o ann) at_ s' r MR EC (stepsk_refl (t_key tc) s));
          [ constructor | constructor | reflexivity | reflexivity | exact P ].
      + destruct (push_if_not_exist tc fa s DescriptorEmptyJSON empty_json) as [s2 ok] eqn:PL.
        destruct (pine_spec _ _ _ _ _ _ blob_desc_empty0 PL) as (evs & S0 & B0 & F0 & T0).
        assert (B0' : Forall (inv_ev FV11 at_ o) evs) by (own2inv B0).
        destruct ok.
        * intro P. apply (final_outcome FV11 tc fa s at_ o now s2 evs ann (requested_manifest FV11 at_ o ann) at_ s' r MR EC S0 B0'); 
            [ constructor; [auto | constructor] | reflexivity | reflexivity | exact P ].
        * intros [= <- <-]. apply (OutFaultBlob FV11 tc fa s at_ o now s2 evs); auto; try (own2inv B0).
    - pose (o := mkOpts subj lay ann0 None cann). intro MRE.
      assert (MR : must_reject FV11 at_ o = false) by (refine (eq_trans MRE _); reflexivity).
      destruct (push_if_not_exist tc fa s (with_ann DescriptorEmptyJSON cann) empty_json) as [s1 ok] eqn:PC.
      destruct (pine_spec _ _ _ _ _ _ (blob_desc_empty cann) PC) as (evs & S0 & B0 & F0 & T0).
      assert (B0' : Forall (inv_ev FV11 at_ o) evs) by (own2inv B0).
      destruct ok.
      2:{ intros [= <- <-]. apply (OutFaultBlob FV11 tc fa s at_ o now s1 evs); auto; try (own2inv B0). }
      specialize (T0 eq_refl).
      destruct (ensure_created ann0 AnnotationCreated now) as [ann|] eqn:EC.
      2:{ intros [= <- <-]. apply (OutBadCreated FV11 tc fa s at_ o now s1 evs); auto; try (own2inv B0). }
      destruct lay as [[|d0 l0]|]; cbn [layers_or_empty]; intro P;
        apply (final_outcome FV11 tc fa s at_ o now s1 evs ann (requested_manifest FV11 at_ o ann) at_ s' r MR EC S0 B0');
        try reflexivity; try exact P.
      + constructor; [exact T0|]. constructor; [|constructor]. apply (stored_untitled _ _ _ cann); [reflexivity | exact T0].
      + constructor; [exact T0|]. constructor.
      + constructor; [exact T0|]. constructor; [|constructor]. apply (stored_untitled _ _ _ cann); [reflexivity | exact T0].
  Qed.

  Lemma v1_1_outcome tc fa s at_ o now s' r :
    pack_v1_1 marshal H tc fa s at_ o now = (s', r) -> outcome FV11 tc fa s at_ o now s' r.
  Proof.
    unfold pack_v1_1.
    destruct (is_empty at_ && config_is_empty_or_nil o) eqn:G1.
    { intros [= <- <-]. apply OutReject; [|right; right; reflexivity]. unfold must_reject. now rewrite G1. }
    destruct (negb (is_empty at_) && negb (valid_media_type at_)) eqn:G2.
    { intros [= <- <-]. apply OutReject; [|right; left; reflexivity]. unfold must_reject. rewrite G1, G2. reflexivity. }
    now apply v1_1_body_outcome.
  Qed.

  Theorem pack_outcome f tc fa s at_ o now s' r :
    pack marshal H f tc fa s at_ o now = (s', r) -> outcome f tc fa s at_ o now s' r.
  Proof.
    destruct f; simpl.
    - apply v1_0_outcome.
    - apply v1_1_outcome.
    - intros [= <- <-]. apply OutReject; [reflexivity | left; reflexivity].
    - apply rc2_outcome.
    - apply artifact_outcome.
  Qed.

  (* ---------------------------------------------------------------- *)
  (* 6. the property                                                   *)
  (* ---------------------------------------------------------------- *)

  Ltac to_blob :=
    repeat match goal with
           | Hh : Forall (inv_ev _ _ _) _ |- _ => apply inv_blob in Hh
           | Hs : stepsk _ _ _ _ |- _ => apply stepsk_steps in Hs
           end.

  (* 6a. rejection happens before any storage operation *)
  Theorem reject_before_push f tc fa s at_ o now :
    must_reject f at_ o = true ->
    exists e, pack marshal H f tc fa s at_ o now = (s, Err e) /\ validation_err e.
  Proof.
    intro MR. destruct (pack marshal H f tc fa s at_ o now) as [s' r] eqn:P.
    apply pack_outcome in P. inversion P; subst; try congruence. eauto.
  Qed.

  Theorem validation_error_only_before_push f tc fa s at_ o now s' e :
    pack marshal H f tc fa s at_ o now = (s', Err e) -> validation_err e ->
    s' = s /\ must_reject f at_ o = true.
  Proof.
    intros P V. apply pack_outcome in P. inversion P; subst; auto;
      destruct V as [V|[V|V]]; discriminate.
  Qed.

  Theorem ok_not_rejected f tc fa s at_ o now s' d m :
    pack marshal H f tc fa s at_ o now = (s', Ok d m) -> must_reject f at_ o = false.
  Proof. intro P. apply pack_outcome in P. inversion P; subst; auto. Qed.

  (* 6b. a malformed created annotation: an error, and only the blob "{}" was touched *)
  Definition only_empty_blob_added (st st' : list entry) : Prop :=
    exists l, st' = st ++ l /\ Forall (fun e => e_bytes e = empty_json /\ e_dg e = H empty_json /\ e_sz e = 2%Z) l.

  Lemma blob_steps_store s s' evs :
    steps s s' evs -> Forall blob_ev evs -> only_empty_blob_added (s_store s) (s_store s').
  Proof.
    intros (_ & _ & l & E & F) B. exists l. split; auto.
    eapply Forall_impl; [|exact F]. intros e (r & d & bs & n & I & ->).
    rewrite Forall_forall in B. specialize (B _ I). destruct r; simpl in B; [|contradiction].
    destruct B as (-> & D1 & D2). simpl. auto.
  Qed.

  Theorem bad_created_no_manifest f tc fa s at_ o now s' r v :
    ann_get (created_key f) (o_ann o) = Some v -> rfc3339_ok v = false ->
    pack marshal H f tc fa s at_ o now = (s', r) ->
    (exists e, r = Err e /\ (must_reject f at_ o = false -> fa = None -> t_key tc <> KFile -> e = EInvalidDateTime)) /\
    (exists evs, steps s s' evs /\ Forall blob_ev evs) /\
    only_empty_blob_added (s_store s) (s_store s').
  Proof.
    intros G R P.
    assert (EC : ensure_created (o_ann o) (created_key f) now = None) by (apply ensure_created_none; eauto).
    apply pack_outcome in P. inversion P; subst; try congruence; to_blob.
    - split; [exists e; split; [reflexivity | congruence]|].
      split; [exists []; split; [apply steps_refl | constructor]|].
      exists []. split; [now rewrite app_nil_r | constructor].
    - split; [eexists; split; [reflexivity | auto]|].
      split; [eauto | eapply blob_steps_store; eauto].
    - split; [eexists; split; [reflexivity | intros _ F K; match goal with Hm : may_fail _ _ |- _ => destruct Hm; contradiction end]|].
      split; [eauto | eapply blob_steps_store; eauto].
  Qed.

  (* 6c. success *)
  Theorem ok_consistent f tc fa s at_ o now s' d m :
    pack marshal H f tc fa s at_ o now = (s', Ok d m) ->
    exists ann evs,
      ensure_created (o_ann o) (created_key f) now = Some ann /\
      m = requested_manifest f at_ o ann /\
      d = result_desc f m /\
      steps s s' (evs ++ [EvPush RManifest d (marshal m)]) /\ Forall blob_ev evs /\
      stored (t_key tc) (s_store s') d = true /\
      Forall (fun x => stored (t_key tc) (s_store s') x = true) (invented f at_ o).
  Proof.
    intro P. apply pack_outcome in P. inversion P; subst. to_blob. exists ann, evs. auto 10.
  Qed.

  (* which storage operations a successful call issues: Exists / Push of "{}" for descriptors it
     invented -- nothing else -- and then the push of the manifest *)
  Theorem ok_operations f tc fa s at_ o now s' d m :
    pack marshal H f tc fa s at_ o now = (s', Ok d m) ->
    exists evs, s_events s' = s_events s ++ evs ++ [EvPush RManifest d (marshal m)] /\
                Forall (inv_ev f at_ o) evs.
  Proof.
    intro P. apply pack_outcome in P. inversion P; subst. exists evs.
    match goal with Hs : stepsk _ _ _ _ |- _ => destruct Hs as ((E & _) & _) end. split; auto.
  Qed.

  (* ... and a failing call issues at most such operations and the manifest push *)
  Theorem err_operations f tc fa s at_ o now s' e :
    pack marshal H f tc fa s at_ o now = (s', Err e) ->
    exists evs, Forall (inv_ev f at_ o) evs /\
                (s_events s' = s_events s ++ evs \/
                 exists d m, s_events s' = s_events s ++ evs ++ [EvPush RManifest d (marshal m)]).
  Proof.
    intro P. apply pack_outcome in P. inversion P; subst.
    - exists []. split; [constructor | left; now rewrite app_nil_r].
    - exists evs. match goal with Hs : stepsk _ _ _ _ |- _ => destruct Hs as ((E & _) & _) end. split; auto.
    - exists evs. match goal with Hs : stepsk _ _ _ _ |- _ => destruct Hs as ((E & _) & _) end. split; auto.
    - exists evs. match goal with Hs : stepsk _ _ _ _ |- _ => destruct Hs as ((E & _) & _) end. split; auto.
      right. eauto.
  Qed.

  (* for these key disciplines Exists and "Push answers ErrAlreadyExists" are the same question *)
  Lemma stored_push_dup k st d : k <> KFile -> stored k st d = push_dup k st d.
  Proof. destruct k; try reflexivity. congruence. Qed.

  Lemma entry_name_nofile k d : k <> KFile -> entry_name k d = [].
  Proof. destruct k; try reflexivity. congruence. Qed.

  (* Idempotence on content-addressed targets (memory, OCI layout, registry; with or without Exists,
     whatever they held before): repeating a successful call with a fixed created annotation returns the
     same descriptor and manifest and leaves the store exactly as it was -- every Exists answers true or
     every Push answers ErrAlreadyExists, which Pack swallows. *)
  Theorem repeat_call_changes_nothing f tc fa1 s at_ o now1 now2 s1 d m v s2 r2 :
    t_key tc <> KFile ->
    ann_get (created_key f) (o_ann o) = Some v ->
    pack marshal H f tc fa1 s at_ o now1 = (s1, Ok d m) ->
    pack marshal H f tc None s1 at_ o now2 = (s2, r2) ->
    r2 = Ok d m /\ s_store s2 = s_store s1.
  Proof.
    intros NF G P1 P2.
    apply pack_outcome in P1. inversion P1 as [| | | | s1' evs1 ann1 m1 MR1 EC1 Em1 S1 B1 St1 I1]; subst.
    rewrite (ensure_created_fixed _ _ now1 now2 v G) in EC1.
    apply pack_outcome in P2. inversion P2 as [e MR2 V2 | s2' evs2 MR2 EC2 S2 B2 | s2' evs2 MR2 F2 S2 B2
                                              | s2' evs2 ann2 m2 MR2 F2 EC2 Em2 S2 B2
                                              | s2' evs2 ann2 m2 MR2 EC2 Em2 S2 B2 St2 I2]; subst;
      try congruence; try (destruct F2 as [F2 | F2]; congruence).
    rewrite EC1 in EC2. injection EC2 as <-. split; [reflexivity|].
    destruct S2 as (_ & l & E & PB & FR). rewrite E.
    destruct l as [|e l]; [now rewrite app_nil_r | exfalso].
    inversion PB as [|? ? (r & d0 & bytes & In0 & ->) _]; subst.
    inversion FR as [|? ? Fe _]; subst.
    assert (N : is_nil (e_name (mkEntry (d_mt d0) (d_dg d0) (d_sz d0) bytes (entry_name (t_key tc) d0))) = true).
    { cbn [e_name]. now rewrite entry_name_nofile. }
    specialize (Fe N). rewrite push_dup_as_desc, <- stored_push_dup in Fe by exact NF.
    assert (St0 : stored (t_key tc) (s_store s1) d0 = true).
    { apply in_app_or in In0 as [In0 | In0].
      - rewrite Forall_forall in B2. destruct (B2 _ In0) as (_ & d' & Id' & [Ev | Ev]); [discriminate|].
        injection Ev as _ -> _. rewrite Forall_forall in I1. now apply I1.
      - destruct In0 as [Ev | []]. injection Ev as _ <- _. exact St1. }
    congruence.
  Qed.

  (* which error a rejected call returns (the order of the checks in the source) *)
  Definition reject_err (f : fn) (at_ : str) (o : opts) : err :=
    match f with
    | FV10 => if is_some (o_subject o) then EUnsupported else EInvalidMediaType
    | FV11 => if is_empty at_ && config_is_empty_or_nil o then EMissingArtifactType else EInvalidMediaType
    | _ => EUnsupported
    end.

  Theorem reject_exact f tc fa s at_ o now :
    must_reject f at_ o = true ->
    pack marshal H f tc fa s at_ o now = (s, Err (reject_err f at_ o)).
  Proof.
    intro MR. destruct f; try discriminate; try reflexivity.
    - (* v1.0 *)
      unfold pack, pack_v1_0, reject_err. unfold must_reject, invalid_config in MR.
      destruct o as [subj lay ann0 cfg cann]. cbn [o_subject o_config o_config_ann o_ann o_layers] in *.
      destruct subj as [sj|]; [reflexivity|]. cbn [is_some orb] in *.
      destruct cfg as [c|]; cbn [is_some negb andb orb] in *.
      + rewrite orb_false_r in MR. apply negb_true_iff in MR. now rewrite MR.
      + destruct at_ as [|a0 at_]; cbn [is_empty negb andb] in *; [discriminate|].
        apply negb_true_iff in MR. now rewrite MR.
    - (* v1.1 *)
      unfold pack, pack_v1_1, reject_err. unfold must_reject in MR.
      destruct (is_empty at_ && config_is_empty_or_nil o) eqn:G1; [reflexivity|].
      destruct (negb (is_empty at_) && negb (valid_media_type at_)) eqn:G2; [reflexivity|].
      cbn [orb] in MR. unfold pack_v1_1_body. unfold invalid_config in MR.
      destruct (o_config o) as [c|]; [|discriminate]. apply negb_true_iff in MR. now rewrite MR.
  Qed.

  (* Progress: on a target that does not fail (no injected fault, not a file store, which may refuse a
     taken name) a call is classified by its input alone -- rejected, malformed created, or success; a
     valid input always succeeds. *)
  Theorem healthy_target_classification f tc s at_ o now s' r :
    t_key tc <> KFile ->
    pack marshal H f tc None s at_ o now = (s', r) ->
    (must_reject f at_ o = true /\ exists e, r = Err e /\ validation_err e /\ s' = s) \/
    (must_reject f at_ o = false /\ ensure_created (o_ann o) (created_key f) now = None /\ r = Err EInvalidDateTime) \/
    (must_reject f at_ o = false /\
     exists ann, ensure_created (o_ann o) (created_key f) now = Some ann /\
                 r = Ok (result_desc f (requested_manifest f at_ o ann)) (requested_manifest f at_ o ann)).
  Proof.
    intros NF P. apply pack_outcome in P.
    inversion P as [e MR V | s2 evs MR EC S B | s2 evs MR F S B | s2 evs ann m MR F EC Em S B
                    | s2 evs ann m MR EC Em S B St I]; subst.
    - left. split; auto. exists e. auto.
    - right. left. auto.
    - destruct F as [F | F]; congruence.
    - destruct F as [F | F]; congruence.
    - right. right. split; auto. exists ann. auto.
  Qed.

  Corollary valid_input_succeeds f tc s at_ o now ann s' r :
    t_key tc <> KFile ->
    must_reject f at_ o = false ->
    ensure_created (o_ann o) (created_key f) now = Some ann ->
    pack marshal H f tc None s at_ o now = (s', r) ->
    r = Ok (result_desc f (requested_manifest f at_ o ann)) (requested_manifest f at_ o ann).
  Proof.
    intros NF MR EC P.
    destruct (healthy_target_classification _ _ _ _ _ _ _ _ NF P) as [(MR' & _) | [(_ & EC' & _) | (_ & ann' & EC' & ->)]];
      try congruence.
  Qed.

  (* the same for any state in which the result and the invented blobs are already present (e.g. after
     any number of other calls): the call finds everything there, returns the same, stores nothing *)
  Theorem settled_call_changes_nothing f tc s at_ o now ann s2 r2 :
    t_key tc <> KFile ->
    must_reject f at_ o = false ->
    ensure_created (o_ann o) (created_key f) now = Some ann ->
    stored (t_key tc) (s_store s) (result_desc f (requested_manifest f at_ o ann)) = true ->
    Forall (fun x => stored (t_key tc) (s_store s) x = true) (invented f at_ o) ->
    pack marshal H f tc None s at_ o now = (s2, r2) ->
    r2 = Ok (result_desc f (requested_manifest f at_ o ann)) (requested_manifest f at_ o ann) /\
    s_store s2 = s_store s.
  Proof.
    intros NF MR EC1 St1 I1 P2.
    apply pack_outcome in P2. inversion P2 as [e MR2 V2 | s2' evs2 MR2 EC2 S2 B2 | s2' evs2 MR2 F2 S2 B2
                                              | s2' evs2 ann2 m2 MR2 F2 EC2 Em2 S2 B2
                                              | s2' evs2 ann2 m2 MR2 EC2 Em2 S2 B2 St2 I2]; subst;
      try congruence; try (destruct F2 as [F2 | F2]; congruence).
    rewrite EC1 in EC2. injection EC2 as <-. split; [reflexivity|].
    destruct S2 as (_ & l & E & PB & FR). rewrite E.
    destruct l as [|e l]; [now rewrite app_nil_r | exfalso].
    inversion PB as [|? ? (r & d0 & bytes & In0 & ->) _]; subst.
    inversion FR as [|? ? Fe _]; subst.
    assert (N : is_nil (e_name (mkEntry (d_mt d0) (d_dg d0) (d_sz d0) bytes (entry_name (t_key tc) d0))) = true).
    { cbn [e_name]. now rewrite entry_name_nofile. }
    specialize (Fe N). rewrite push_dup_as_desc, <- stored_push_dup in Fe by exact NF.
    assert (St0 : stored (t_key tc) (s_store s) d0 = true).
    { apply in_app_or in In0 as [In0 | In0].
      - rewrite Forall_forall in B2. destruct (B2 _ In0) as (_ & d' & Id' & [Ev | Ev]); [discriminate|].
        injection Ev as _ -> _. rewrite Forall_forall in I1. now apply I1.
      - destruct In0 as [Ev | []]. injection Ev as _ <- _. exact St1. }
    congruence.
  Qed.

  Lemma requested_ann f at_ o ann : m_ann (requested_manifest f at_ o ann) = ann.
  Proof. destruct f; reflexivity. Qed.

  (* the created annotation is there and parses; every other annotation is the caller's *)
  Theorem ok_created f tc fa s at_ o now s' d m :
    rfc3339_ok now = true ->
    pack marshal H f tc fa s at_ o now = (s', Ok d m) ->
    (exists v, ann_get (created_key f) (m_ann m) = Some v /\ rfc3339_ok v = true /\
               (ann_get (created_key f) (o_ann o) = Some v \/
                ann_get (created_key f) (o_ann o) = None /\ v = now)) /\
    (forall k, k <> created_key f -> ann_get k (m_ann m) = ann_get k (o_ann o)) /\
    d_ann d = m_ann m.
  Proof.
    intros RN P. apply ok_consistent in P as (ann & evs & EC & -> & -> & _).
    rewrite requested_ann. apply ensure_created_spec in EC as ((v & G & C) & O).
    split; [|split; [exact O | simpl; now rewrite requested_ann]].
    exists v. split; auto. destruct C as [(G0 & R & _) | (G0 & -> & _)]; auto.
  Qed.

  (* every push Pack attempts describes its own content; so a store in which every entry is
     addressed by the digest and size of its bytes stays that way *)
  Definition wf_entry (e : entry) : Prop :=
    e_dg e = H (e_bytes e) /\ e_sz e = Z.of_nat (length (e_bytes e)).
  Definition wf_store (st : list entry) : Prop := Forall wf_entry st.

  Definition consistent_ev (ev : event) : Prop :=
    match ev with
    | EvExists _ => True
    | EvPush _ d bytes => d_dg d = H bytes /\ d_sz d = Z.of_nat (length bytes)
    end.

  Lemma blob_ev_consistent ev : blob_ev ev -> consistent_ev ev.
  Proof.
    destruct ev as [d | [|] d bs]; simpl; auto; [|contradiction].
    intros (-> & D1 & D2). split; auto.
  Qed.

  Lemma steps_wf s s' evs :
    steps s s' evs -> Forall consistent_ev evs -> wf_store (s_store s) -> wf_store (s_store s').
  Proof.
    intros (_ & _ & l & -> & F) C W. apply Forall_app. split; auto.
    eapply Forall_impl; [|exact F]. intros e (r & d & bs & n & I & ->).
    rewrite Forall_forall in C. apply (C _ I).
  Qed.

  Theorem pack_pushes_consistent f tc fa s at_ o now s' r :
    pack marshal H f tc fa s at_ o now = (s', r) ->
    exists evs, steps s s' evs /\ Forall consistent_ev evs.
  Proof.
    intro P. apply pack_outcome in P. inversion P; subst; to_blob.
    - exists []. split; [apply steps_refl | constructor].
    - exists evs. split; auto. eapply Forall_impl; [|eassumption]. apply blob_ev_consistent.
    - exists evs. split; auto. eapply Forall_impl; [|eassumption]. apply blob_ev_consistent.
    - eexists. split; [eassumption|]. apply Forall_app. split.
      + eapply Forall_impl; [|eassumption]. apply blob_ev_consistent.
      + constructor; [|constructor]. split; reflexivity.
    - eexists. split; [eassumption|]. apply Forall_app. split.
      + eapply Forall_impl; [|eassumption]. apply blob_ev_consistent.
      + constructor; [|constructor]. split; reflexivity.
  Qed.

  Theorem pack_preserves_wf f tc fa s at_ o now s' r :
    pack marshal H f tc fa s at_ o now = (s', r) -> wf_store (s_store s) -> wf_store (s_store s').
  Proof.
    intros P W. apply pack_pushes_consistent in P as (evs & S & C). eapply steps_wf; eauto.
  Qed.

  Lemma stored_In bd st d : stored bd st d = true -> exists e, In e st /\ same_key bd d e = true.
  Proof. unfold stored. intro E. apply andb_true_iff in E as [_ E]. apply existsb_exists in E. exact E. Qed.

  Lemma same_key_dg bd d e : same_key bd d e = true -> d_dg d = e_dg e.
  Proof. unfold same_key. intro E. apply andb_true_iff in E as [E _]. now apply str_eqb_spec. Qed.

  (* the returned descriptor's digest (and, for a collision-free digest, size and bytes) are
     those of the content now stored under it, which decodes to the requested manifest *)
  Theorem ok_descriptor_describes_stored f tc fa s at_ o now s' d m :
    wf_store (s_store s) ->
    pack marshal H f tc fa s at_ o now = (s', Ok d m) ->
    d_dg d = H (marshal m) /\ d_sz d = Z.of_nat (length (marshal m)) /\ d_mt d = kind_mt (m_kind m) /\
    exists e, In e (s_store s') /\ same_key (t_key tc) d e = true /\
              H (e_bytes e) = d_dg d /\
              ((forall x y, H x = H y -> x = y) -> e_bytes e = marshal m /\ e_sz e = d_sz d).
  Proof.
    intros W P. pose proof (pack_preserves_wf _ _ _ _ _ _ _ _ _ P W) as W'.
    apply ok_consistent in P as (ann & evs & EC & -> & -> & S & B & St & I).
    split; [reflexivity|]. split; [reflexivity|]. split; [reflexivity|].
    apply stored_In in St as (e & In' & K). exists e. split; auto. split; auto.
    unfold wf_store in W'. rewrite Forall_forall in W'. destruct (W' _ In') as (D1 & D2).
    pose proof (same_key_dg _ _ _ K) as D. split; [congruence|].
    intros Hinj. assert (EB : e_bytes e = marshal (requested_manifest f at_ o ann)).
    { apply Hinj. rewrite <- D1, <- D. reflexivity. }
    split; auto. rewrite D2, EB; reflexivity.
  Qed.

  (* every blob Pack invented is in the target, with the content "{}" *)
  Theorem ok_invented_present f tc fa s at_ o now s' d m :
    wf_store (s_store s) ->
    pack marshal H f tc fa s at_ o now = (s', Ok d m) ->
    forall x, In x (invented f at_ o) ->
      d_dg x = H empty_json /\ d_sz x = 2%Z /\
      exists e, In e (s_store s') /\ same_key (t_key tc) x e = true /\ H (e_bytes e) = H empty_json /\
                ((forall a c, H a = H c -> a = c) -> e_bytes e = empty_json).
  Proof.
    intros W P x Ix. pose proof (pack_preserves_wf _ _ _ _ _ _ _ _ _ P W) as W'.
    apply ok_consistent in P as (ann & evs & EC & -> & -> & S & B & St & I).
    rewrite Forall_forall in I. specialize (I _ Ix).
    assert (BD : blob_desc x).
    { unfold invented, invented_config, invented_layer in Ix.
      destruct f; destruct (o_config o); destruct (layers_or_empty (o_layers o)); simpl in Ix;
        repeat (destruct Ix as [<- | Ix]; [try apply blob_desc_custom; try apply blob_desc_empty; try apply blob_desc_empty0|]);
        try contradiction. }
    destruct BD as (D1 & D2). split; auto. split; auto.
    apply stored_In in I as (e & In' & K). exists e. split; auto. split; auto.
    unfold wf_store in W'. rewrite Forall_forall in W'. destruct (W' _ In') as (E1 & E2).
    pose proof (same_key_dg _ _ _ K) as D.
    assert (HE : H (e_bytes e) = H empty_json) by congruence.
    split; auto.
  Qed.

  (* closure: each successor of the packed manifest is a descriptor the caller supplied or is
     present in the target (so the hypotheses of C01 about the source graph are the caller's) *)
  Definition opt_list {A} (x : option A) : list A := match x with Some a => [a] | None => [] end.

  Definition successors (m : manifest) : list desc :=
    opt_list (m_config m) ++ match m_layers m with Some l => l | None => [] end ++ opt_list (m_subject m).

  Definition supplied (o : opts) : list desc :=
    opt_list (o_config o) ++ layers_or_empty (o_layers o) ++ opt_list (o_subject o).

  Theorem ok_closed f tc fa s at_ o now s' d m :
    pack marshal H f tc fa s at_ o now = (s', Ok d m) ->
    forall x, In x (successors m) ->
      In x (supplied o) \/ stored (t_key tc) (s_store s') x = true.
  Proof.
    intros P x Ix. pose proof (ok_not_rejected _ _ _ _ _ _ _ _ _ _ P) as MR.
    apply ok_consistent in P as (ann & evs & EC & -> & -> & S & B & St & I).
    rewrite Forall_forall in I.
    assert (In x (supplied o) \/ In x (invented f at_ o)); [|destruct H0; auto].
    clear I St S B EC. destruct f; try discriminate; clear MR; revert Ix;
      unfold successors, supplied, invented, requested_manifest, requested_config, invented_config, invented_layer;
      destruct (o_config o) as [c|]; destruct (o_subject o) as [sj|];
      destruct (layers_or_empty (o_layers o)) as [|l0 ls]; cbn [opt_list m_config m_layers m_subject app];
      rewrite ?app_nil_r; simpl; intro Ix; intuition auto.
    all: try (left; right; right; apply in_or_app; simpl; tauto).
    all: try (apply in_app_or in H1; simpl in H1; intuition auto; left; right; right; apply in_or_app; simpl; tauto).
    all: try (left; right; apply in_or_app; simpl; tauto).
  Qed.

  (* 6d. identical inputs with a fixed created annotation give an identical descriptor and
     manifest, whatever the target, its content, the clock and the faults *)
  Theorem deterministic f at_ o v tc1 fa1 s1 now1 s1' d1 m1 tc2 fa2 s2 now2 s2' d2 m2 :
    ann_get (created_key f) (o_ann o) = Some v ->
    pack marshal H f tc1 fa1 s1 at_ o now1 = (s1', Ok d1 m1) ->
    pack marshal H f tc2 fa2 s2 at_ o now2 = (s2', Ok d2 m2) ->
    d1 = d2 /\ m1 = m2.
  Proof.
    intros G P1 P2.
    apply ok_consistent in P1 as (a1 & e1 & EC1 & -> & -> & _).
    apply ok_consistent in P2 as (a2 & e2 & EC2 & -> & -> & _).
    rewrite (ensure_created_fixed _ _ now1 now2 v G) in EC1. rewrite EC1 in EC2. injection EC2 as <-.
    auto.
  Qed.
End PackProofs.

(* ------------------------------------------------------------------ *)
(* 7. Go maps carry no order: permuting the annotations changes nothing *)
(* ------------------------------------------------------------------ *)
From Coq Require Import Sorting.Permutation.

Lemma ann_get_perm k l l' :
  NoDup (map fst l) -> Permutation l l' -> ann_get k l = ann_get k l'.
Proof.
  intros N P. induction P as [| [k1 v1] l l' P IH | [k1 v1] [k2 v2] l | l l' l'' P1 IH1 P2 IH2].
  - reflexivity.
  - simpl. destruct (str_eqb k k1); auto. apply IH. now inversion N.
  - simpl. destruct (str_eqb k k2) eqn:E2; destruct (str_eqb k k1) eqn:E1; auto.
    apply str_eqb_spec in E1, E2. subst. simpl in N. inversion N as [|? ? NI _]. elim NI. simpl. auto.
  - rewrite IH1 by exact N. apply IH2.
    eapply Permutation_NoDup; [|exact N]. now apply Permutation_map.
Qed.

Section PermProofs.
  Variable marshal : manifest -> str.
  Variable H : str -> str.
  Hypothesis H_empty : H empty_json = empty_json_digest.
  (* json.Marshal writes map keys in sorted order: the bytes do not depend on the order in which
     the annotations are listed *)
  Hypothesis marshal_perm : forall k c l sj a ann ann',
      NoDup (map fst ann) -> Permutation ann ann' ->
      marshal (mkManifest k c l sj a ann) = marshal (mkManifest k c l sj a ann').

  Definition same_but_ann (o o' : opts) : Prop :=
    o_subject o = o_subject o' /\ o_layers o = o_layers o' /\ o_config o = o_config o' /\
    o_config_ann o = o_config_ann o'.

  Lemma requested_manifest_perm f at_ o o' ann ann' :
    same_but_ann o o' -> Permutation ann ann' ->
    exists k c l sj a, requested_manifest H f at_ o ann = mkManifest k c l sj a ann /\
                       requested_manifest H f at_ o' ann' = mkManifest k c l sj a ann'.
  Proof.
    intros (E1 & E2 & E3 & E4) P.
    unfold requested_manifest, requested_config, invented_config. rewrite <- E1, <- E2, <- E3, <- E4.
    destruct f; eexists _, _, _, _, _; split; reflexivity.
  Qed.

  Theorem deterministic_perm f at_ o o' v tc1 fa1 s1 now1 s1' d1 m1 tc2 fa2 s2 now2 s2' d2 m2 :
    NoDup (map fst (o_ann o)) -> Permutation (o_ann o) (o_ann o') -> same_but_ann o o' ->
    ann_get (created_key f) (o_ann o) = Some v ->
    pack marshal H f tc1 fa1 s1 at_ o now1 = (s1', Ok d1 m1) ->
    pack marshal H f tc2 fa2 s2 at_ o' now2 = (s2', Ok d2 m2) ->
    d_dg d1 = d_dg d2 /\ d_sz d1 = d_sz d2 /\ d_mt d1 = d_mt d2 /\ d_at d1 = d_at d2 /\
    d_extra d1 = d_extra d2 /\ Permutation (d_ann d1) (d_ann d2) /\
    m_config m1 = m_config m2 /\ m_layers m1 = m_layers m2 /\ m_subject m1 = m_subject m2 /\ m_at m1 = m_at m2.
  Proof.
    intros N P S G P1 P2.
    assert (G' : ann_get (created_key f) (o_ann o') = Some v) by (rewrite <- (ann_get_perm _ _ _ N P); exact G).
    apply (ok_consistent marshal H H_empty) in P1 as (a1 & e1 & EC1 & -> & -> & _).
    apply (ok_consistent marshal H H_empty) in P2 as (a2 & e2 & EC2 & -> & -> & _).
    unfold ensure_created in EC1, EC2. rewrite G in EC1. rewrite G' in EC2.
    destruct (rfc3339_ok v); [|discriminate]. injection EC1 as <-. injection EC2 as <-.
    destruct (requested_manifest_perm f at_ o o' _ _ S P) as (k & c & l & sj & a & -> & ->).
    unfold result_desc. cbn [m_kind m_ann m_config m_at d_dg d_sz d_mt d_at d_ann d_extra m_layers m_subject].
    rewrite (marshal_perm k c l sj a _ _ N P). repeat split; auto.
  Qed.
End PermProofs.

(* ------------------------------------------------------------------ *)
(* 8. histories: every sequence of calls on one target                 *)
(* ------------------------------------------------------------------ *)
Section HistoryProofs.
  Variable marshal : manifest -> str.
  Variable H : str -> str.
  Hypothesis H_empty : H empty_json = empty_json_digest.

  (* a whole history only adds content-consistent entries *)
  Lemma run_calls_steps tc fa cs : forall s s' rs,
    run_calls marshal H tc fa s cs = (s', rs) ->
    exists evs, steps s s' evs /\ Forall (consistent_ev H) evs.
  Proof.
    induction cs as [|c cs IH]; intros s s' rs R; simpl in R.
    - injection R as <- <-. exists []. split; [apply steps_refl | constructor].
    - destruct (pack marshal H (c_fn c) tc fa s (c_at c) (c_opts c) (c_now c)) as [s1 r1] eqn:P.
      destruct (run_calls marshal H tc fa s1 cs) as [s2 rs2] eqn:R2. injection R as <- <-.
      destruct (pack_pushes_consistent marshal H H_empty _ _ _ _ _ _ _ _ _ P) as (e1 & S1 & C1).
      destruct (IH _ _ _ R2) as (e2 & S2 & C2).
      exists (e1 ++ e2). split; [eapply steps_trans; eauto | apply Forall_app; auto].
  Qed.

  Theorem history_preserves_wf tc fa cs s s' rs :
    run_calls marshal H tc fa s cs = (s', rs) -> wf_store H (s_store s) -> wf_store H (s_store s').
  Proof.
    intros R W. destruct (run_calls_steps _ _ _ _ _ _ R) as (evs & S & C). eapply steps_wf; eauto.
  Qed.

  (* what an earlier call returned is still there after any later calls (failed ones included):
     its descriptor answers Exists, and under it lies content with the digest of its manifest --
     for a collision-free digest, exactly the marshalled manifest *)
  Theorem history_results_stay tc fa cs : forall s s' rs d m,
    wf_store H (s_store s) ->
    run_calls marshal H tc fa s cs = (s', rs) ->
    In (Ok d m) rs ->
    stored (t_key tc) (s_store s') d = true /\
    d_dg d = H (marshal m) /\
    exists e, In e (s_store s') /\ same_key (t_key tc) d e = true /\ H (e_bytes e) = H (marshal m) /\
              ((forall x y, H x = H y -> x = y) -> e_bytes e = marshal m).
  Proof.
    induction cs as [|c cs IH]; intros s s' rs d m W R I; simpl in R.
    - injection R as <- <-. contradiction.
    - destruct (pack marshal H (c_fn c) tc fa s (c_at c) (c_opts c) (c_now c)) as [s1 r1] eqn:P.
      destruct (run_calls marshal H tc fa s1 cs) as [s2 rs2] eqn:R2. injection R as <- <-.
      pose proof (pack_preserves_wf marshal H H_empty _ _ _ _ _ _ _ _ _ P W) as W1.
      destruct I as [-> | I]; [|eapply IH; eauto].
      pose proof (history_preserves_wf _ _ _ _ _ _ R2 W1) as W2.
      destruct (run_calls_steps _ _ _ _ _ _ R2) as (evs & S2 & _).
      apply (ok_consistent marshal H H_empty) in P as (ann & e1 & _ & -> & -> & _ & _ & St & _).
      pose proof (stored_steps _ _ _ _ _ S2 St) as St2. split; [exact St2|]. split; [reflexivity|].
      destruct (stored_In _ _ _ St2) as (e & In' & K). exists e. split; auto. split; auto.
      unfold wf_store in W2. rewrite Forall_forall in W2. destruct (W2 _ In') as (D1 & _).
      pose proof (same_key_dg _ _ _ K) as D. simpl in D.
      assert (HE : H (e_bytes e) = H (marshal (requested_manifest H (c_fn c) (c_at c) (c_opts c) ann))) by congruence.
      split; auto.
  Qed.

  (* "so the result can be copied": when the descriptors the caller supplied are in the target, the
     packed manifest and all its successors are -- the source-closed hypothesis of the copy theorems
     (C01) holds one level down from the new root, the rest is the caller's graph *)
  Theorem ok_closed_when_supplied_present f tc fa s at_ o now s' d m :
    Forall (fun x => stored (t_key tc) (s_store s) x = true) (supplied o) ->
    pack marshal H f tc fa s at_ o now = (s', Ok d m) ->
    stored (t_key tc) (s_store s') d = true /\
    Forall (fun x => stored (t_key tc) (s_store s') x = true) (successors m).
  Proof.
    intros Sup P. pose proof (ok_closed marshal H H_empty _ _ _ _ _ _ _ _ _ _ P) as C.
    destruct (ok_consistent marshal H H_empty _ _ _ _ _ _ _ _ _ _ P) as (ann & evs & _ & _ & _ & S & _ & St & _).
    split; [exact St|]. apply Forall_forall. intros x Ix. destruct (C x Ix) as [I | I]; auto.
    rewrite Forall_forall in Sup. eapply stored_steps; eauto.
  Qed.

  (* Repeating an earlier successful call (fixed created) after ANY other calls on a content-addressed
     target returns what it returned then and stores nothing. *)
  Theorem history_repeat_changes_nothing tc c cs fa1 s s1 d m v sB rsB now' sC r :
    t_key tc <> KFile ->
    ann_get (created_key (c_fn c)) (o_ann (c_opts c)) = Some v ->
    pack marshal H (c_fn c) tc fa1 s (c_at c) (c_opts c) (c_now c) = (s1, Ok d m) ->
    run_calls marshal H tc None s1 cs = (sB, rsB) ->
    pack marshal H (c_fn c) tc None sB (c_at c) (c_opts c) now' = (sC, r) ->
    r = Ok d m /\ s_store sC = s_store sB.
  Proof.
    intros NF G P1 R P2.
    pose proof (ok_not_rejected marshal H H_empty _ _ _ _ _ _ _ _ _ _ P1) as MR.
    destruct (ok_consistent marshal H H_empty _ _ _ _ _ _ _ _ _ _ P1) as (ann & evs & EC & -> & -> & _ & _ & St & I).
    destruct (run_calls_steps _ _ _ _ _ _ R) as (evs2 & S2 & _).
    rewrite (ensure_created_fixed _ _ (c_now c) now' v G) in EC.
    apply (settled_call_changes_nothing marshal H H_empty (c_fn c) tc sB (c_at c) (c_opts c) now' ann sC r NF MR EC).
    - eapply stored_steps; eauto.
    - eapply Forall_impl; [|exact I]. intros x Sx. eapply stored_steps; eauto.
    - exact P2.
  Qed.

  (* On a healthy target (no fault; not a file store) the result of every call of a history is a function
     of that call's own input: it does not depend on the target's content, on the calls made before, or on
     the order in which the calls of the history are made. *)
  Definition pure_result (c : call) : result :=
    if must_reject (c_fn c) (c_at c) (c_opts c) then Err (reject_err (c_fn c) (c_at c) (c_opts c))
    else match ensure_created (o_ann (c_opts c)) (created_key (c_fn c)) (c_now c) with
         | None => Err EInvalidDateTime
         | Some ann =>
           Ok (result_desc marshal H (c_fn c) (requested_manifest H (c_fn c) (c_at c) (c_opts c) ann))
              (requested_manifest H (c_fn c) (c_at c) (c_opts c) ann)
         end.

  Lemma pack_pure_result tc s c s' r :
    t_key tc <> KFile ->
    pack marshal H (c_fn c) tc None s (c_at c) (c_opts c) (c_now c) = (s', r) -> r = pure_result c.
  Proof.
    intros NF P. unfold pure_result.
    destruct (must_reject (c_fn c) (c_at c) (c_opts c)) eqn:MR.
    - rewrite (reject_exact marshal H _ tc None s _ _ (c_now c) MR) in P. now injection P as _ <-.
    - destruct (healthy_target_classification marshal H H_empty _ _ _ _ _ _ _ _ NF P)
        as [(MR' & _) | [(_ & EC & ->) | (_ & ann & EC & ->)]]; try congruence; now rewrite EC.
  Qed.

  Theorem history_results_pure tc cs : forall s s' rs,
    t_key tc <> KFile ->
    run_calls marshal H tc None s cs = (s', rs) -> rs = map pure_result cs.
  Proof.
    induction cs as [|c cs IH]; intros s s' rs NF R; simpl in R.
    - now injection R as _ <-.
    - destruct (pack marshal H (c_fn c) tc None s (c_at c) (c_opts c) (c_now c)) as [s1 r1] eqn:P.
      destruct (run_calls marshal H tc None s1 cs) as [s2 rs2] eqn:R2. injection R as _ <-.
      simpl. f_equal; [eapply pack_pure_result; eauto | eapply IH; eauto].
  Qed.

  (* hence any other order of the same calls, on any healthy target with any content, returns the same
     results, call for call *)
  Corollary history_order_irrelevant tc1 tc2 cs cs' s1 s2 s1' s2' rs rs' :
    t_key tc1 <> KFile -> t_key tc2 <> KFile ->
    Permutation cs cs' ->
    run_calls marshal H tc1 None s1 cs = (s1', rs) ->
    run_calls marshal H tc2 None s2 cs' = (s2', rs') ->
    Permutation rs rs' /\ (forall c r, In (c, r) (combine cs rs) -> In (c, r) (combine cs' rs')).
  Proof.
    intros N1 N2 P R1 R2.
    rewrite (history_results_pure _ _ _ _ _ N1 R1), (history_results_pure _ _ _ _ _ N2 R2).
    split; [now apply Permutation_map|].
    intros c r I. assert (E : forall l, combine l (map pure_result l) = map (fun x => (x, pure_result x)) l).
    { induction l; simpl; congruence. }
    rewrite E in *. apply in_map_iff in I as (x & Ex & Ix). apply in_map_iff. exists x. split; auto.
    eapply Permutation_in; eauto.
  Qed.

  (* the number of results is the number of calls: every call ends (no call is lost or repeated) *)
  Lemma run_calls_length tc fa cs : forall s s' rs,
    run_calls marshal H tc fa s cs = (s', rs) -> length rs = length cs.
  Proof.
    induction cs as [|c cs IH]; intros s s' rs R; simpl in R.
    - now injection R as <- <-.
    - destruct (pack marshal H (c_fn c) tc fa s (c_at c) (c_opts c) (c_now c)) as [s1 r1].
      destruct (run_calls marshal H tc fa s1 cs) as [s2 rs2] eqn:R2. injection R as <- <-.
      simpl. f_equal. eapply IH; eauto.
  Qed.
End HistoryProofs.
