(* C14 — every run of the channel-level Merge system (Model/MergeFine.v) is simulated by a run of
   the system of Model/Merge.v: the atomic EComplete happens when the main caller enters
   complete(); channel operations and the swap are stuttering steps; a caller blocked on a
   channel whose batch already has its verdict corresponds to a caller that has returned. *)
From Oras Require Import Base.Prelude Model.Referrers Proofs.Referrers Model.Merge Proofs.Merge
  Model.MergeFine Proofs.MergeFine Proofs.MergeFineGet Proofs.MergeFineMain Proofs.MergeFineAssign Proofs.MergeFineWake
  Proofs.MergeFine2 Proofs.MergeLin Proofs.MergeThm.
From Coq Require Import Lia.

Definition rel_pc (f : fstate) (p : fpc) (q : pc) : Prop :=
  match p with
  | FIdle => q = Idle
  | FGot c => q = Got c
  | FWait g => match f_verdict f g with Some r => q = Ret r | None => q = Wait end
  | FPrep => q = Prep
  | FPrepared o => q = Prepared o
  | FNeedPut n o => q = NeedPut n o
  | FNeedDel o a => q = NeedDel o a
  | FNotify r _ => q = Ret r
  | FSwap r => q = Ret r
  | FRet r => q = Ret r
  | FDone r => q = Done r
  end.

Definition is_token (f : fstate) : bool :=
  match fbuf (f_chans f (f_gen f)) with Some FMain => true | _ => false end.

Record Sim (f : fstate) (c : state) : Prop := {
  s_pool : pool c = f_pool f;
  s_reg : reg c = f_reg f;
  s_store : store c = f_store f;
  s_pcs : forall t, rel_pc f (f_pcs f t) (pcs c t);
  s_quiet : (forall t, fwindow (f_pcs f t) = false) ->
      committed c = f_committed f /\ items c = f_items f /\ pending c = f_pending f /\ token c = is_token f;
  s_win : forall tm, fwindow (f_pcs f tm) = true ->
      committed c = false /\ items c = f_pending f /\ pending c = [] /\ token c = negb (is_nil (f_pending f))
}.

Lemma sim_init r0 st0 : Sim (finit r0 st0) (init r0 st0).
Proof.
  constructor; simpl; auto; try (intros tm H; discriminate).
Qed.

(* rel_pc only looks at the verdicts *)
Lemma rel_pc_ext f f' p q : (forall g, f_verdict f' g = f_verdict f g) -> rel_pc f p q -> rel_pc f' p q.
Proof. intros H R. destruct p; simpl in *; auto. now rewrite H. Qed.

Definition simulated (sg : bool) (f' : fstate) (c : state) : Prop :=
  exists tr c', run sg c tr = Some c' /\ Sim f' c'.

Lemma sim_prepare sg f c t fl f' :
  InvF f -> Sim f c -> fstep sg f (FEPrepare t fl) = Some f' -> simulated sg f' c.
Proof.
  intros I Sm H. simpl in H. destruct (f_pcs f t) eqn:Hpc; try discriminate. injection H as <-.
  pose proof (s_pcs f c Sm t) as Ht. rewrite Hpc in Ht. simpl in Ht.
  exists [EPrepare t fl]. eexists. split; [simpl; rewrite Ht; reflexivity|].
  destruct Sm. constructor; simpl; auto.
  - intro x. tcase x t; [simpl; now rewrite s_reg0|]. apply (rel_pc_ext f); auto.
  - intro Hq. apply s_quiet0. intro x. specialize (Hq x). tcase x t; [now rewrite Hpc|auto].
  - intros tm Hw. tcase tm t; [discriminate|eauto].
Qed.

Lemma no_window_of_pre f t : InvF f -> fpre (f_pcs f t) = true -> forall x, fwindow (f_pcs f x) = false.
Proof.
  intros I Hp x. destruct (fwindow (f_pcs f x)) eqn:E; auto.
  assert (x = t) by (eapply (f_mu f I); [now apply fwindow_main|now apply fpre_main]). subst x.
  destruct (f_pcs f t); discriminate.
Qed.

Lemma sim_extdrop sg f c f' :
  Sim f c -> fstep sg f FEExtDrop = Some f' -> simulated sg f' c.
Proof.
  intros Sm H. simpl in H. destruct (f_reg f) as [x|] eqn:Er; [|discriminate].
  destruct (forallb is_empty x) eqn:Ex; [|discriminate]. injection H as <-.
  exists [EExtDrop]. eexists. split; [simpl; rewrite (s_reg f c Sm), Er, Ex; reflexivity|].
  destruct Sm. constructor; simpl; auto.
  all: try solve [now rewrite s_store0].
  all: try solve [intro t; apply (rel_pc_ext f); auto].
Qed.

Lemma sim_done sg f c t f' :
  Sim f c -> fstep sg f (FEDone t) = Some f' -> simulated sg f' c.
Proof.
  intros Sm H. simpl in H.
  destruct (f_pcs f t) as [|c0|g| |old|nw o|oi ap|r k|r|r|r] eqn:Hpc; try discriminate.
  destruct (f_pool f) as [rc|] eqn:Hpool; try discriminate. injection H as <-.
  pose proof (s_pcs f c Sm t) as Ht. rewrite Hpc in Ht. simpl in Ht.
  exists [EDone t]. eexists. split; [simpl; rewrite Ht, (s_pool f c Sm), Hpool; reflexivity|].
  destruct Sm. constructor; simpl; auto.
  - intro x. tcase x t; [reflexivity|]. apply (rel_pc_ext f); auto.
  - intro Hq. apply s_quiet0. intro x. specialize (Hq x). tcase x t; [now rewrite Hpc|auto].
  - intros tm Hw. tcase tm t; [discriminate|eauto].
Qed.

(* channel operations of complete() and the swap are invisible *)
Lemma sim_notify sg f c t f' :
  InvF f -> Sim f c -> fstep sg f (FENotify t) = Some f' -> simulated sg f' c.
Proof.
  intros I Sm H. simpl in H.
  destruct (f_pcs f t) as [|c0|g| |old|nw o|oi ap|r k|r|r|r] eqn:Hpc; try discriminate.
  assert (Hw : fwindow (f_pcs f t) = true) by now rewrite Hpc.
  pose proof (s_pcs f c Sm t) as Ht. rewrite Hpc in Ht. simpl in Ht.
  exists []. exists c. split; [reflexivity|].
  assert (Hgen : forall p ch', fwindow p = true -> rel_pc f p (Ret r) ->
            Sim (mkF (f_pool f) (f_committed f) (f_items f) (f_pending f) (f_gen f) ch' (upd (f_pcs f) t p)
                     (f_reg f) (f_store f) (f_verdict f)) c).
  { intros p ch' Hp Hr. destruct Sm. constructor; simpl; auto.
    - intro x. tcase x t; [rewrite Ht; destruct p; simpl in *; auto; discriminate|]. apply (rel_pc_ext f); auto.
    - intro Hq. specialize (Hq t). rewrite upd_eq in Hq. congruence.
    - intros tm _. apply (s_win0 t Hw). }
  destruct r.
  - injection H as <-. apply Hgen; reflexivity.
  - destruct k; [injection H as <-; unfold fset_pc; apply Hgen; reflexivity|].
    destruct (fbuf (f_chans f (f_gen f))); [discriminate|]. injection H as <-. apply Hgen; reflexivity.
  - destruct k; [injection H as <-; unfold fset_pc; apply Hgen; reflexivity|].
    destruct (fbuf (f_chans f (f_gen f))); [discriminate|]. injection H as <-. apply Hgen; reflexivity.  - destruct k; [injection H as <-; unfold fset_pc; apply Hgen; reflexivity|].
    destruct (fbuf (f_chans f (f_gen f))); [discriminate|]. injection H as <-. apply Hgen; reflexivity.
Qed.

Lemma sim_swap sg f c t f' :
  InvF f -> Sim f c -> fstep sg f (FESwap t) = Some f' -> simulated sg f' c.
Proof.
  intros I Sm H. simpl in H.
  destruct (f_pcs f t) as [|c0|g| |old|nw o|oi ap|r k|r|r|r] eqn:Hpc; try discriminate. injection H as <-.
  assert (Hw : fwindow (f_pcs f t) = true) by now rewrite Hpc.
  pose proof (s_pcs f c Sm t) as Ht. rewrite Hpc in Ht. simpl in Ht.
  destruct (s_win f c Sm t Hw) as (W1 & W2 & W3 & W4).
  destruct (f_fut f I (S (f_gen f)) (Nat.lt_succ_diag_r _)) as (F1 & F2 & F3).
  exists []. exists c. split; [reflexivity|].
  assert (Hnw : forall x, fwindow (upd (f_pcs f) t (FRet r) x) = false).
  { intro x. tcase x t; [reflexivity|]. destruct (fwindow (f_pcs f x)) eqn:E; auto.
    assert (x = t) by (eapply (f_mu f I); now apply fwindow_main). congruence. }
  destruct Sm. constructor; simpl; auto.
  - intro x. tcase x t; [exact Ht|]. apply (rel_pc_ext f); auto.
  - intros _. repeat split; auto. rewrite W4. unfold is_token. simpl.
    destruct (f_pending f) eqn:Ep; simpl; [now rewrite F1|now rewrite upd_eq].
  - intros tm Hx. rewrite Hnw in Hx. discriminate.
Qed.

Ltac sim_pcs t :=
  solve [let x := fresh "x" in intro x; tcase x t; [simpl; try reflexivity; auto|];
         match goal with Hs : forall t0, rel_pc ?f0 _ _ |- _ => apply (rel_pc_ext f0); [auto|apply Hs] end].

Lemma sim_get sg f c t ch f' :
  InvF f -> Sim f c -> fstep sg f (FEGet t ch) = Some f' -> simulated sg f' c.
Proof.
  intros I Sm H. simpl in H.
  destruct (f_pcs f t) eqn:Hpc; try discriminate.
  destruct (is_empty (cdesc ch)) eqn:Hne; try discriminate.
  pose proof (s_pcs f c Sm t) as Ht. rewrite Hpc in Ht. simpl in Ht.
  destruct (f_pool f) as [rc|] eqn:Hpool; injection H as <-;
    (exists [EGet t ch]; eexists; split; [simpl; rewrite Ht, Hne, (s_pool f c Sm), Hpool; reflexivity|]).
  - destruct Sm. constructor; simpl; auto.
    all: try sim_pcs t.
    all: try solve [intro Hq; apply s_quiet0; intro x; specialize (Hq x); tcase x t; [now rewrite Hpc|auto]].
    all: try solve [intros tm Hw; tcase tm t; [discriminate|eauto]].
  - destruct (fpool_none f I Hpool) as (Hh & Hi & Hp).
    assert (Hnw : forall x, fwindow (f_pcs f x) = false).
    { intro x. destruct (fwindow (f_pcs f x)) eqn:E; auto. apply fwindow_main, fmain_holding in E. now rewrite Hh in E. }
    assert (Htk : is_token f = false).
    { unfold is_token. destruct (fbuf (f_chans f (f_gen f))) as [[|r]|] eqn:Eb; auto.
      destruct (f_tok f I Eb) as (A & _). congruence. }
    destruct Sm. constructor; simpl; auto.
    all: try sim_pcs t.
    all: try solve [intros _; repeat split; auto].
    all: try solve [intros tm Hw; tcase tm t; [discriminate|]; rewrite Hnw in Hw; discriminate].
Qed.

Lemma sim_assign sg f c t f' :
  InvF f -> Sim f c -> fstep sg f (FEAssign t) = Some f' -> simulated sg f' c.
Proof.
  intros I Sm H. simpl in H.
  destruct (f_pcs f t) as [|ch|g| |old|nw o|oi ap|r k|r|r|r] eqn:Hpc; try discriminate.
  pose proof (s_pcs f c Sm t) as Ht. rewrite Hpc in Ht. simpl in Ht.
  destruct (f_fut f I (S (f_gen f)) (Nat.lt_succ_diag_r _)) as (F1 & F2 & F3).
  assert (Hq0 : forall p, fwindow p = false ->
            (forall x, fwindow (upd (f_pcs f) t p x) = false) -> forall x, fwindow (f_pcs f x) = false).
  { intros p Hp Hq x. specialize (Hq x). tcase x t; [now rewrite Hpc|auto]. }
  assert (Hw0 : forall p tm, fwindow (upd (f_pcs f) t p tm) = true -> fwindow p = false -> fwindow (f_pcs f tm) = true).
  { intros p tm Hw Hp. tcase tm t; [congruence|auto]. }
  exists [EAssign t]. simpl. rewrite Ht.
  destruct (f_committed f) eqn:Hc; injection H as <-.
  - (* fine: the batch is committed: the caller goes to the pending batch *)
    destruct (committed c) eqn:Hcc; eexists; (split; [reflexivity|]); destruct Sm; constructor; simpl; auto.
    all: try solve [intro x; tcase x t; [simpl; now rewrite F3|]; apply (rel_pc_ext f); auto].
    all: try solve [intro Hq; destruct (s_quiet0 (Hq0 (FWait (S (f_gen f))) eq_refl Hq)) as (A & B & C & D);
                    first [exfalso; congruence | unfold is_token in *; simpl; rewrite ?B, ?C, ?D; repeat split; auto]].
    all: try solve [intros tm Hw; destruct (s_win0 tm (Hw0 _ _ Hw eq_refl)) as (A & B & C & D); congruence].
    all: try solve [intros tm Hw; destruct (s_win0 tm (Hw0 _ _ Hw eq_refl)) as (A & B & C & D);
                    rewrite ?A, ?B, ?C, ?D; repeat split; auto; destruct (f_pending f); reflexivity].
  - assert (Hnw : forall x, fwindow (f_pcs f x) = false).
    { intro x. destruct (fwindow (f_pcs f x)) eqn:E; auto.
      assert (fpost (f_pcs f x) = true) by (destruct (f_pcs f x); try discriminate; reflexivity).
      apply (f_com f I) in H. congruence. }
    assert (Hv : f_verdict f (f_gen f) = None).
    { destruct (f_verdict f (f_gen f)) as [r|] eqn:Ev; auto. destruct (f_vn f I r Ev) as (x & Hx).
      apply fres_window in Hx. now rewrite Hnw in Hx. }
    destruct Sm. destruct (s_quiet0 Hnw) as (A & B & C & D). rewrite A, Hc.
    eexists; (split; [reflexivity|]). constructor; simpl; auto.
    all: try solve [intro x; tcase x t; [simpl; now rewrite Hv|]; apply (rel_pc_ext f); auto].
    all: try solve [intros _; rewrite ?B, ?C, ?D; repeat split; auto;
                    unfold is_token; simpl; destruct (f_items f); simpl; [now rewrite upd_eq|reflexivity]].
    all: try solve [intros tm Hw; exfalso; tcase tm t; [discriminate|]; rewrite Hnw in Hw; discriminate].
Qed.

Lemma sim_recv sg f c t f' :
  InvF f -> Sim f c -> fstep sg f (FERecv t) = Some f' -> simulated sg f' c.
Proof.
  intros I Sm H. simpl in H.
  destruct (f_pcs f t) as [|ch|g| |old|nw o|oi ap|r k|r|r|r] eqn:Hpc; try discriminate.
  pose proof (s_pcs f c Sm t) as Ht. rewrite Hpc in Ht. simpl in Ht.
  destruct (f_wt f I t g Hpc) as (Hg1 & Hg2 & Hg3).
  assert (Hstut : forall r ch', f_verdict f g = Some r -> (forall g0, g0 <> g -> ch' g0 = f_chans f g0) ->
            (is_token f = true -> g <> f_gen f) -> fbuf (ch' g) = None ->
            Sim (mkF (f_pool f) (f_committed f) (f_items f) (f_pending f) (f_gen f) ch' (upd (f_pcs f) t (FRet r))
                     (f_reg f) (f_store f) (f_verdict f)) c).
  { intros r ch' Hv Hch Htk Hb. rewrite Hv in Ht. destruct Sm. constructor; simpl; auto.
    all: try solve [intro x; tcase x t; [exact Ht|]; apply (rel_pc_ext f); auto].
    all: try solve [intros tm Hw; tcase tm t; [discriminate|eauto]].
    intro Hq. assert (Hq' : forall x, fwindow (f_pcs f x) = false) by (intro x; specialize (Hq x); tcase x t; [now rewrite Hpc|auto]).
    destruct (s_quiet0 Hq') as (A & B & C & D). repeat split; auto. rewrite D. unfold is_token in *. simpl.
    destruct (Nat.eq_dec g (f_gen f)) as [->|Hne]; [|now rewrite Hch by auto].
    rewrite Hb. destruct (fbuf (f_chans f (f_gen f))) as [[|r0]|] eqn:Eb; auto. exfalso. now apply Htk. }
  destruct (fbuf (f_chans f g)) as [[|r]|] eqn:Hb.
  - (* the main status: the caller becomes the main caller of its batch *)
    injection H as <-. pose proof (f_vm f I g Hb) as ->.
    destruct (f_tok f I Hb) as (Hni & Hcm & Hnomain).
    destruct (f_token_fresh f I Hb) as (Hcl & Hv). rewrite Hv in Ht.
    assert (Hnw : forall x, fwindow (f_pcs f x) = false).
    { intro x. destruct (fwindow (f_pcs f x)) eqn:E; auto. apply fwindow_main in E. now rewrite Hnomain in E. }
    destruct (s_quiet f c Sm Hnw) as (A & B & C & D).
    assert (Htk : token c = true) by (rewrite D; unfold is_token; now rewrite Hb).
    assert (Hmem : mem t (batch c) = true) by (apply mem_In; unfold batch; rewrite B; now apply Hg2).
    exists [ERecvMain t]. eexists. split; [simpl; rewrite Ht, Htk, Hmem; reflexivity|].
    destruct Sm. constructor; simpl; auto.
    all: try solve [intro x; tcase x t; [reflexivity|]; apply (rel_pc_ext f); auto].
    all: try solve [intros _; repeat split; auto; unfold is_token; simpl; now rewrite upd_eq].
    all: try solve [intros tm Hw; exfalso; tcase tm t; [discriminate|]; rewrite Hnw in Hw; discriminate].
  - injection H as <-. exists []. exists c. split; [reflexivity|].
    apply Hstut; auto.
    + eapply (f_vb f I); eauto.
    + intros g0 Hne. now rewrite upd_neq.
    + unfold is_token. intros Htk ->. rewrite Hb in Htk. discriminate.
    + now rewrite upd_eq.
  - destruct (fclosed (f_chans f g)) eqn:Hc; [|discriminate]. injection H as <-.
    exists []. exists c. split; [reflexivity|]. unfold fset_pc. apply Hstut; auto.
    + eapply (f_vc f I); eauto.
    + unfold is_token. intros Htk ->. rewrite Hb in Htk. discriminate.
Qed.

(* the main caller learns the batch result: in Model/Merge.v this is where EComplete happens *)
Lemma sim_enter sg f c c1 t r cm rg st :
  InvF f -> Sim f c -> fpre (f_pcs f t) = true ->
  pcs c1 = upd (pcs c) t (Completing r) -> pool c1 = pool c -> items c1 = items c -> pending c1 = pending c ->
  reg c1 = rg -> store c1 = st ->
  exists c2, step sg c1 (EComplete t) = Some c2 /\
    Sim (mkF (f_pool f) cm (f_items f) (f_pending f) (f_gen f) (f_chans f)
             (upd (f_pcs f) t (FNotify r (length (f_items f) - 1))) rg st
             (upd (f_verdict f) (f_gen f) (Some r))) c2.
Proof.
  intros I Sm Hp E1 E2 E3 E4 E5 E6.
  pose proof (no_window_of_pre f t I Hp) as Hnw.
  destruct (s_quiet f c Sm Hnw) as (A & B & C & D).
  eexists. split; [simpl; rewrite E1, upd_eq; reflexivity|].
  assert (Hbatch : batch c1 = fbatch f) by (unfold batch, fbatch; now rewrite E3, B).
  constructor; simpl; auto.
  - now rewrite E2, (s_pool f c Sm).
  - intro x.
    destruct (complete_pcs_cases c1 t r x) as [[[E0|E0] E]|(N1 & N2 & E)]; unfold complete_pcs in E; rewrite E1 in E; rewrite E.
    + subst x. now rewrite upd_eq.
    + rewrite Hbatch in E0. tcase x t; [reflexivity|].
      unfold fbatch in E0. apply in_map_iff in E0 as ((x', c0) & Ex & Hin). simpl in Ex. subst x'.
      destruct (f_it f I x c0 Hin) as [Hx|[Hx|[(tm & Hx) _]]].
      * rewrite Hx. simpl. now rewrite upd_eq.
      * exfalso. apply Hne. eapply (f_mu f I); eauto. now apply fpre_main.
      * now rewrite Hnw in Hx.
    + rewrite !upd_neq by auto.
      pose proof (s_pcs f c Sm x) as Hx. destruct (f_pcs f x) eqn:Epx; simpl in *; auto.
      destruct (Nat.eq_dec g (f_gen f)) as [->|Hg]; [|now rewrite upd_neq].
      exfalso. apply N2. rewrite Hbatch. destruct (f_wt f I x _ Epx) as (_ & Hin & _). auto.
  - intro Hq. specialize (Hq t). rewrite upd_eq in Hq. discriminate.
  - intros tm _. rewrite E4, C. auto.
Qed.

(* a step of the main caller before complete(): the same step in both systems *)
Lemma sim_pre f c c1 t p q cm rg st :
  InvF f -> Sim f c -> fpre (f_pcs f t) = true -> fpre p = true -> (forall fx, rel_pc fx p q) ->
  pcs c1 = upd (pcs c) t q -> pool c1 = pool c -> committed c1 = cm -> items c1 = items c ->
  pending c1 = pending c -> token c1 = token c -> reg c1 = rg -> store c1 = st ->
  Sim (mkF (f_pool f) cm (f_items f) (f_pending f) (f_gen f) (f_chans f) (upd (f_pcs f) t p) rg st (f_verdict f)) c1.
Proof.
  intros I Sm Hp Hp' Hr E1 E2 E3 E4 E5 E6 E7 E8.
  pose proof (no_window_of_pre f t I Hp) as Hnw.
  destruct (s_quiet f c Sm Hnw) as (A & B & C & D).
  constructor; simpl; auto.
  - now rewrite E2, (s_pool f c Sm).
  - intro x. rewrite E1. tcase x t; [apply Hr|]. apply (rel_pc_ext f); auto. apply (s_pcs f c Sm).
  - intros _. rewrite E4, E5, E6, B, C, D. auto.
  - intros tm Hw. exfalso. tcase tm t; [destruct p; discriminate|]. rewrite Hnw in Hw. discriminate.
Qed.

Lemma sim_commit sg f c t f' :
  InvF f -> Sim f c -> fstep sg f (FECommit t) = Some f' -> simulated sg f' c.
Proof.
  intros I Sm H. simpl in H.
  destruct (f_pcs f t) as [|ch|g| |old|nw o|oi ap|r k|r|r|r] eqn:Hpc; try discriminate.
  assert (Hp : fpre (f_pcs f t) = true) by now rewrite Hpc.
  pose proof (s_pcs f c Sm t) as Ht. rewrite Hpc in Ht. simpl in Ht.
  destruct (s_quiet f c Sm (no_window_of_pre f t I Hp)) as (A & B & C & D).
  assert (Henter : forall r c1, step sg c (ECommit t) = Some c1 ->
            pcs c1 = upd (pcs c) t (Completing r) -> pool c1 = pool c -> items c1 = items c -> pending c1 = pending c ->
            reg c1 = reg c -> store c1 = store c ->
            simulated sg (fnotify (mkF (f_pool f) true (f_items f) (f_pending f) (f_gen f) (f_chans f) (f_pcs f)
                                        (f_reg f) (f_store f) (f_verdict f)) t r) c).
  { intros r c1 Hs E1 E2 E3 E4 E5 E6.
    destruct (sim_enter sg f c c1 t r true (f_reg f) (f_store f) I Sm Hp E1 E2 E3 E4) as (c2 & Hs2 & S2).
    - now rewrite E5, (s_reg f c Sm). - now rewrite E6, (s_store f c Sm).
    - exists [ECommit t; EComplete t], c2. split; [cbn -[step]; rewrite Hs; cbn -[step]; rewrite Hs2; reflexivity|exact S2]. }
  assert (Hstay : forall p q c1, step sg c (ECommit t) = Some c1 -> fpre p = true -> (forall fx, rel_pc fx p q) ->
            pcs c1 = upd (pcs c) t q -> pool c1 = pool c -> committed c1 = true -> items c1 = items c -> pending c1 = pending c ->
            token c1 = token c -> reg c1 = reg c -> store c1 = store c ->
            simulated sg (fset_pc (mkF (f_pool f) true (f_items f) (f_pending f) (f_gen f) (f_chans f) (f_pcs f)
                                        (f_reg f) (f_store f) (f_verdict f)) t p) c).
  { intros p q c1 Hs Hp' Hr E1 E2 E3 E4 E5 E6 E7 E8. exists [ECommit t], c1. split; [cbn -[step]; now rewrite Hs|].
    unfold fset_pc. simpl. eapply sim_pre; eauto.
    - now rewrite E7, (s_reg f c Sm). - now rewrite E8, (s_store f c Sm). }
  assert (Hstep : forall X, step sg c (ECommit t) = X ->
            X = match old with
                | None => Some (set_pc (set_committed c) t (Completing RErr))
                | Some o =>
                    match apply_changes (idx o) (map snd (f_items f)) with
                    | NoUpdate => Some (set_pc (add_lin (set_committed c)) t (Completing ROk))
                    | Updated new =>
                        if negb (is_nil new) || sg then Some (set_pc (set_committed c) t (NeedPut new o))
                        else match o with
                             | None => Some (set_pc (add_lin (set_committed c)) t (Completing ROk))
                             | Some oi => Some (set_pc (set_committed c) t (NeedDel oi false))
                             end
                    end
                end).
  { intros X <-. simpl. rewrite Ht, B. reflexivity. }
  pose proof (Hstep _ eq_refl) as Hs. clear Hstep.
  destruct old as [o|].
  - destruct (apply_changes (idx o) (map snd (f_items f))) as [|new].
    + injection H as <-. eapply Henter; eauto.
    + destruct (negb (is_nil new) || sg).
      * injection H as <-. eapply Hstay; eauto; reflexivity.
      * destruct o; injection H as <-; [eapply Hstay; eauto; reflexivity|eapply Henter; eauto].
  - injection H as <-. eapply Henter; eauto.
Qed.

Lemma sim_put sg f c t fl f' :
  InvF f -> Sim f c -> fstep sg f (FEPut t fl) = Some f' -> simulated sg f' c.
Proof.
  intros I Sm H. simpl in H.
  destruct (f_pcs f t) as [|ch|g| |old|nw o|oi ap|r k|r|r|r] eqn:Hpc; try discriminate.
  assert (Hp : fpre (f_pcs f t) = true) by now rewrite Hpc.
  pose proof (s_pcs f c Sm t) as Ht. rewrite Hpc in Ht. simpl in Ht.
  pose proof (s_reg f c Sm) as Hreg. pose proof (s_store f c Sm) as Hstore.
  assert (Hcm : f_committed f = true) by (apply (f_com f I t); now rewrite Hpc).
  assert (Henter : forall r c1 rg st, step sg c (EPut t fl) = Some c1 ->
            pcs c1 = upd (pcs c) t (Completing r) -> pool c1 = pool c -> items c1 = items c -> pending c1 = pending c ->
            reg c1 = rg -> store c1 = st ->
            simulated sg (fnotify (fset_reg f rg st) t r) c).
  { intros r c1 rg st Hs E1 E2 E3 E4 E5 E6.
    destruct (sim_enter sg f c c1 t r (f_committed f) rg st I Sm Hp E1 E2 E3 E4 E5 E6) as (c2 & Hs2 & S2).
    exists [EPut t fl; EComplete t], c2. split; [cbn -[step]; rewrite Hs; cbn -[step]; rewrite Hs2; reflexivity|exact S2]. }
  destruct fl.
  - injection H as <-.
    replace (fnotify f t RErr) with (fnotify (fset_reg f (f_reg f) (f_store f)) t RErr) by (destruct f; reflexivity).
    eapply Henter; [simpl; rewrite Ht; reflexivity|..]; simpl; auto.
  - injection H as <-. unfold fafter_put.
    assert (Hs : step sg c (EPut t false) =
                 Some (set_pc (add_lin (set_reg c (Some nw) (nw :: store c)
                          (if sg then match o with Some oi => oi :: junk c | None => junk c end else junk c))) t (after_put sg o)))
      by (simpl; rewrite Ht; reflexivity).
    destruct sg.
    + eapply Henter; [exact Hs|..]; simpl; auto. now rewrite Hstore.
    + destruct o as [oi|].
      * exists [EPut t false]. eexists. split; [cbn -[step]; rewrite Hs; reflexivity|].
        unfold fset_pc, fset_reg. simpl. eapply sim_pre; eauto; simpl; auto; try reflexivity.
        -- destruct (s_quiet f c Sm (no_window_of_pre f t I Hp)) as (A & _). congruence.
        -- now rewrite Hstore.
      * eapply Henter; [exact Hs|..]; simpl; auto. now rewrite Hstore.
Qed.

Lemma sim_putlost sg f c t f' :
  InvF f -> Sim f c -> fstep sg f (FEPutLost t) = Some f' -> simulated sg f' c.
Proof.
  intros I Sm H. simpl in H.
  destruct (f_pcs f t) as [|ch|g| |old|nw o|oi ap|r k|r|r|r] eqn:Hpc; try discriminate.
  assert (Hp : fpre (f_pcs f t) = true) by now rewrite Hpc.
  pose proof (s_pcs f c Sm t) as Ht. rewrite Hpc in Ht. simpl in Ht.
  pose proof (s_reg f c Sm) as Hreg. pose proof (s_store f c Sm) as Hstore.
  injection H as <-.
  set (c1 := set_pc (add_lin (set_reg c (Some nw) (nw :: store c)
                        (match o with Some oi => oi :: junk c | None => junk c end))) t (Completing RLost)).
  assert (Hs : step sg c (EPutLost t) = Some c1) by (simpl; rewrite Ht; reflexivity).
  destruct (sim_enter sg f c c1 t RLost (f_committed f) (Some nw) (nw :: f_store f) I Sm Hp) as (c2 & Hs2 & S2);
    try reflexivity.
  { simpl. now rewrite Hstore. }
  exists [EPutLost t; EComplete t], c2. split; [cbn -[step]; rewrite Hs; cbn -[step]; rewrite Hs2; reflexivity|exact S2].
Qed.

Lemma sim_del sg f c t fl f' :
  InvF f -> Sim f c -> fstep sg f (FEDel t fl) = Some f' -> simulated sg f' c.
Proof.
  intros I Sm H. simpl in H.
  destruct (f_pcs f t) as [|ch|g| |old|nw o|oi ap|r k|r|r|r] eqn:Hpc; try discriminate.
  assert (Hp : fpre (f_pcs f t) = true) by now rewrite Hpc.
  pose proof (s_pcs f c Sm t) as Ht. rewrite Hpc in Ht. simpl in Ht.
  pose proof (s_reg f c Sm) as Hreg. pose proof (s_store f c Sm) as Hstore.
  assert (Henter : forall r c1 rg st, step sg c (EDel t fl) = Some c1 ->
            pcs c1 = upd (pcs c) t (Completing r) -> pool c1 = pool c -> items c1 = items c -> pending c1 = pending c ->
            reg c1 = rg -> store c1 = st ->
            simulated sg (fnotify (fset_reg f rg st) t r) c).
  { intros r c1 rg st Hs E1 E2 E3 E4 E5 E6.
    destruct (sim_enter sg f c c1 t r (f_committed f) rg st I Sm Hp E1 E2 E3 E4 E5 E6) as (c2 & Hs2 & S2).
    exists [EDel t fl; EComplete t], c2. split; [cbn -[step]; rewrite Hs; cbn -[step]; rewrite Hs2; reflexivity|exact S2]. }
  destruct fl.
  - injection H as <-.
    replace (fnotify f t (if ap then RIdxDel else RErr))
      with (fnotify (fset_reg f (f_reg f) (f_store f)) t (if ap then RIdxDel else RErr)) by (destruct f; reflexivity).
    eapply Henter; [simpl; rewrite Ht; reflexivity|..]; simpl; auto.
  - injection H as <-.
    eapply Henter; [simpl; rewrite Ht; reflexivity|..]; destruct ap; simpl; auto; rewrite ?Hreg, ?Hstore; reflexivity.
Qed.

Lemma sim_dellost sg f c t f' :
  InvF f -> Sim f c -> fstep sg f (FEDelLost t) = Some f' -> simulated sg f' c.
Proof.
  intros I Sm H. simpl in H.
  destruct (f_pcs f t) as [|ch|g| |old|nw o|oi ap|r k|r|r|r] eqn:Hpc; try discriminate.
  assert (Hp : fpre (f_pcs f t) = true) by now rewrite Hpc.
  pose proof (s_pcs f c Sm t) as Ht. rewrite Hpc in Ht. simpl in Ht.
  pose proof (s_reg f c Sm) as Hreg. pose proof (s_store f c Sm) as Hstore.
  assert (Henter : forall r c1 rg st, step sg c (EDelLost t) = Some c1 ->
            pcs c1 = upd (pcs c) t (Completing r) -> pool c1 = pool c -> items c1 = items c -> pending c1 = pending c ->
            reg c1 = rg -> store c1 = st ->
            simulated sg (fnotify (fset_reg f rg st) t r) c).
  { intros r c1 rg st Hs E1 E2 E3 E4 E5 E6.
    destruct (sim_enter sg f c c1 t r (f_committed f) rg st I Sm Hp E1 E2 E3 E4 E5 E6) as (c2 & Hs2 & S2).
    exists [EDelLost t; EComplete t], c2. split; [cbn -[step]; rewrite Hs; cbn -[step]; rewrite Hs2; reflexivity|exact S2]. }
  injection H as <-.
  eapply Henter; [simpl; rewrite Ht; reflexivity|..]; destruct ap; simpl; auto; rewrite ?Hreg, ?Hstore; reflexivity.
Qed.

Lemma sim_step sg f c e f' :
  InvF f -> Sim f c -> fstep sg f e = Some f' -> simulated sg f' c.
Proof.
  intros I Sm H. destruct e.
  - eapply sim_get; eauto.
  - eapply sim_assign; eauto.
  - eapply sim_recv; eauto.
  - eapply sim_prepare; eauto.
  - eapply sim_commit; eauto.
  - eapply sim_put; eauto.
  - eapply sim_putlost; eauto.
  - eapply sim_del; eauto.
  - eapply sim_dellost; eauto.
  - eapply sim_notify; eauto.
  - eapply sim_swap; eauto.
  - eapply sim_done; eauto.
  - eapply sim_extdrop; eauto.
Qed.

Lemma run_app sg tr1 : forall c c1 tr2 c2,
  run sg c tr1 = Some c1 -> run sg c1 tr2 = Some c2 -> run sg c (tr1 ++ tr2) = Some c2.
Proof.
  induction tr1 as [|e tr IH]; intros c c1 tr2 c2 H1 H2; simpl in *.
  - injection H1 as <-. exact H2.
  - destruct (step sg c e) as [c'|]; [|discriminate]. eapply IH; eauto.
Qed.

(* every run of the channel-level system is simulated by a run of the system of Model/Merge.v *)
Lemma fine_simulated sg r0 st0 ftr : forall f,
  frun sg (finit r0 st0) ftr = Some f ->
  exists tr c, run sg (init r0 st0) tr = Some c /\ Sim f c.
Proof.
  assert (G : forall ftr f0 c0 tr0 f, InvF f0 -> run sg (init r0 st0) tr0 = Some c0 -> Sim f0 c0 ->
            frun sg f0 ftr = Some f -> exists tr c, run sg (init r0 st0) tr = Some c /\ Sim f c).
  { induction ftr0 as [|e ftr0 IH]; intros f0 c0 tr0 f I R Sm H; simpl in H.
    - injection H as <-. eauto.
    - destruct (fstep sg f0 e) as [f1|] eqn:E; [|discriminate].
      destruct (sim_step sg f0 c0 e f1 I Sm E) as (tr1 & c1 & R1 & S1).
      eapply (IH f1 c1 (tr0 ++ tr1)); eauto.
      + eapply stepF; eauto.
      + eapply run_app; eauto. }
  intros f H. eapply (G ftr (finit r0 st0) (init r0 st0) []); eauto.
  - apply invF_init. - apply sim_init.
Qed.

(* ---------- the theorems of Model/Merge.v, for the channel-level system ---------- *)

Lemma fine_structure sg r0 st0 ftr f :
  frun sg (finit r0 st0) ftr = Some f ->
  (forall t1 t2, fmain (f_pcs f t1) = true -> fmain (f_pcs f t2) = true -> t1 = t2) /\
  (forall g, fbuf (f_chans f g) = Some FMain -> g = f_gen f /\ forall t, fmain (f_pcs f t) = false) /\
  (forall g r, fbuf (f_chans f g) = Some (FRes r) -> f_verdict f g = Some r) /\
  (forall g, fclosed (f_chans f g) = true -> f_verdict f g = Some ROk) /\
  (forall t r, fres (f_pcs f t) = Some r -> f_verdict f (f_gen f) = Some r) /\
  (exists hs, NoDup hs /\ (forall t, In t hs <-> fholding (f_pcs f t) = true) /\
     match f_pool f with None => hs = [] | Some rc => rc = length hs /\ hs <> [] end).
Proof.
  intro H. assert (I : InvF f) by (eapply frun_inv; eauto using invF_init).
  split; [apply (f_mu f I)|]. split.
  - intros g Hb. pose proof (f_vm f I g Hb) as ->. split; auto. now destruct (f_tok f I Hb) as (_ & _ & ?).
  - split; [apply (f_vb f I)|]. split; [apply (f_vc f I)|]. split; [apply (f_vw f I)|apply (f_pl f I)].
Qed.

Lemma fine_no_lost_update sg r0 st0 ftr f :
  frun sg (finit r0 st0) ftr = Some f -> fquiescent f ->
  exists tr c, run sg (init r0 st0) tr = Some c /\ quiescent c /\
    (forall t r, f_pcs f t = FDone r <-> pcs c t = Done r) /\
    NoDup (lin c) /\
    (forall t, In t (lin c) <-> exists r, f_pcs f t = FDone r /\ r <> RErr) /\
    (forall k, memb (f_reg f) k = member_after k (memb r0 k) (map (arg c) (lin c))) /\
    NoDup (keys (list_referrers (f_reg f) 0)) /\
    (forall k, In k (keys (list_referrers (f_reg f) 0)) <-> member_after k (memb r0 k) (map (arg c) (lin c)) = true).
Proof.
  intros H Q. destruct (fine_simulated sg r0 st0 ftr f H) as (tr & c & R & Sm).
  assert (Hd : forall t r, f_pcs f t = FDone r <-> pcs c t = Done r).
  { intros t r. pose proof (s_pcs f c Sm t) as Ht. split; intro E.
    - rewrite E in Ht. exact Ht.
    - destruct (Q t) as [E0|(r' & E0)]; rewrite E0 in Ht; simpl in Ht; congruence. }
  assert (Qc : quiescent c).
  { intro t. pose proof (s_pcs f c Sm t) as Ht. destruct (Q t) as [E0|(r' & E0)]; rewrite E0 in Ht; simpl in Ht; eauto. }
  destruct (Proofs.MergeThm.no_lost_update sg r0 st0 tr c R Qc) as (N & L & Z).
  destruct (Proofs.MergeThm.listing_is_fold sg r0 st0 tr c R) as (LN & _ & LK & _).
  exists tr, c. rewrite <- (s_reg f c Sm). repeat split; auto; try apply Hd.
  - intro Hin. apply L in Hin as (r & E & Hr). exists r. split; auto. now apply Hd.
  - intros (r & E & Hr). apply L. exists r. split; auto. now apply Hd.
  - apply LK.
  - apply LK.
Qed.
