(* C15 -- the first JSON value of a stream is self-delimiting (lemmas about Model/PagingJson.v) *)
From Oras Require Import Base.Prelude Generated.GC15 Model.Paging Model.PagingJson Proofs.Paging.

(* what follows the value does not matter *)
Lemma scan_in_app s tail st n m : scan_in s st n = Some m -> scan_in (s ++ tail) st n = Some m.
Proof.
  revert st n. induction s as [|c r IH]; intros st n H; [discriminate|].
  simpl in *. destruct st as [d|d|d].
  - destruct (c =? j_quote); [now apply IH|]. destruct (j_open c); [now apply IH|].
    destruct (j_close c); [|now apply IH]. destruct d; [exact H|now apply IH].
  - destruct (c =? j_quote); [now apply IH|]. destruct (c =? j_bslash); now apply IH.
  - now apply IH.
Qed.

(* the value ends inside the input, and no shorter input is complete *)
Lemma scan_in_prefix s st n m :
  scan_in s st n = Some m ->
  (n < m <= n + length s)%nat /\ forall k, (n + k < m)%nat -> scan_in (firstn k s) st n = None.
Proof.
  revert st n. induction s as [|c r IH]; intros st n H; [discriminate|].
  assert (Step : forall st', scan_in r st' (S n) = Some m ->
            (n < m <= n + length (c :: r))%nat /\
            forall k, (n + k < m)%nat ->
              match k with O => True | S k' => scan_in (firstn k' r) st' (S n) = None end).
  { intros st' H'. destruct (IH st' (S n) H') as [B P]. simpl length. split; [lia|].
    intros [|k'] Hk; [exact I|]. apply P. lia. }
  simpl in H. destruct st as [d|d|d].
  - destruct (c =? j_quote) eqn:Q.
    { destruct (Step _ H) as [B P]. split; [exact B|]. intros [|k'] Hk; [reflexivity|].
      simpl. rewrite Q. exact (P (S k') Hk). }
    destruct (j_open c) eqn:O.
    { destruct (Step _ H) as [B P]. split; [exact B|]. intros [|k'] Hk; [reflexivity|].
      simpl. rewrite Q, O. exact (P (S k') Hk). }
    destruct (j_close c) eqn:C.
    + destruct d as [|d'].
      * injection H as <-. simpl length. split; [lia|]. intros k Hk.
        assert (k = 0)%nat by lia. subst. reflexivity.
      * destruct (Step _ H) as [B P]. split; [exact B|]. intros [|k'] Hk; [reflexivity|].
        simpl. rewrite Q, O, C. exact (P (S k') Hk).
    + destruct (Step _ H) as [B P]. split; [exact B|]. intros [|k'] Hk; [reflexivity|].
      simpl. rewrite Q, O, C. exact (P (S k') Hk).
  - destruct (c =? j_quote) eqn:Q.
    { destruct (Step _ H) as [B P]. split; [exact B|]. intros [|k'] Hk; [reflexivity|].
      simpl. rewrite Q. exact (P (S k') Hk). }
    destruct (c =? j_bslash) eqn:S0.
    + destruct (Step _ H) as [B P]. split; [exact B|]. intros [|k'] Hk; [reflexivity|].
      simpl. rewrite Q, S0. exact (P (S k') Hk).
    + destruct (Step _ H) as [B P]. split; [exact B|]. intros [|k'] Hk; [reflexivity|].
      simpl. rewrite Q, S0. exact (P (S k') Hk).
  - destruct (Step _ H) as [B P]. split; [exact B|]. intros [|k'] Hk; [reflexivity|].
    simpl. exact (P (S k') Hk).
Qed.

Lemma scan_from_app s tail n m : scan_from s n = Some m -> scan_from (s ++ tail) n = Some m.
Proof.
  revert n. induction s as [|c r IH]; intros n H; [discriminate|]. simpl in *.
  destruct (j_ws c); [now apply IH|]. destruct (j_open c); [now apply scan_in_app|discriminate].
Qed.

Lemma scan_from_prefix s n m :
  scan_from s n = Some m ->
  (n < m <= n + length s)%nat /\ forall k, (n + k < m)%nat -> scan_from (firstn k s) n = None.
Proof.
  revert n. induction s as [|c r IH]; intros n H; [discriminate|]. simpl in H.
  destruct (j_ws c) eqn:W.
  - destruct (IH (S n) H) as [B P]. simpl length. split; [lia|].
    intros [|k'] Hk; [reflexivity|]. simpl. rewrite W. apply P. lia.
  - destruct (j_open c) eqn:O; [|discriminate].
    destruct (scan_in_prefix r (JOut 0) (S n) m H) as [B P]. simpl length. split; [lia|].
    intros [|k'] Hk; [reflexivity|]. simpl. rewrite W, O. apply P. lia.
Qed.

(* a complete bracketed value d (scan d = its length): decoding the stream d ++ anything stops
   at the end of d and yields d; no proper prefix of d is complete *)
Theorem first_value_self_delimiting d :
  scan d = Some (length d) ->
  (forall tail, first_value (d ++ tail) = Some d) /\
  (forall k, (k < length d)%nat -> first_value (firstn k d) = None).
Proof.
  intro H. unfold first_value, scan in *. split.
  - intro tail. rewrite (scan_from_app d tail 0 _ H). now rewrite firstn_app_exact.
  - intros k Hk. destruct (scan_from_prefix d 0 _ H) as [_ P]. now rewrite (P k Hk).
Qed.

(* hence the hypothesis of C15_limit_bytes holds for every such document: behind limitReader the
   value is delivered when the document fits and nothing is delivered when it does not *)
Theorem scan_limit_bytes d pad limit :
  scan d = Some (length d) ->
  (Z.of_nat (length (seen limit (d ++ pad))) <= eff_limit limit)%Z /\
  first_value (seen limit (d ++ pad)) =
    if (Z.of_nat (length d) <=? eff_limit limit)%Z then Some d else None.
Proof.
  intro H. destruct (first_value_self_delimiting d H) as [A B0].
  apply (limit_bytes str first_value d d pad limit). split; assumption.
Qed.

(* ---------- never more than the limit is consumed ---------- *)

Lemma consumed_loop_le fuel cap docend avail : consumed_loop fuel cap docend avail <= avail.
Proof.
  revert cap. induction fuel as [|f IH]; intro cap; simpl; [lia|].
  destruct (docend <=? N.min cap avail); [lia|]. destruct (avail <=? cap); [lia|apply IH].
Qed.

Lemma consumed_loop_ge fuel cap docend avail :
  docend <= avail -> docend <= consumed_loop fuel cap docend avail.
Proof.
  intro H. revert cap. induction fuel as [|f IH]; intro cap; simpl; [exact H|].
  destruct (N.leb_spec docend (N.min cap avail)); [assumption|].
  destruct (avail <=? cap); [exact H|apply IH].
Qed.

(* the client consumes at most MaxMetadataBytes (the default when <= 0) and at most the body;
   a document that fits is consumed at least to its end *)
Theorem consumed_of_spec limit docend total :
  (Z.of_N (consumed_of limit docend total) <= eff_limit limit)%Z /\
  consumed_of limit docend total <= total /\
  (docend <= total -> (Z.of_N docend <= eff_limit limit)%Z -> docend <= consumed_of limit docend total).
Proof.
  pose proof (eff_limit_pos limit) as Hp. unfold consumed_of, consumed.
  set (avail := N.min (Z.to_N (eff_limit limit)) total).
  pose proof (consumed_loop_le 80 512 (if docend <=? avail then docend else avail + 1) avail) as L.
  split; [|split].
  - unfold avail in *. lia.
  - unfold avail in *. lia.
  - intros H1 H2. assert (A : docend <= avail) by (unfold avail; lia).
    apply N.leb_le in A. rewrite A. apply consumed_loop_ge. now apply N.leb_le.
Qed.

Theorem consumed_index_spec limit size :
  (Z.of_N (consumed_index limit size) <= eff_limit limit)%Z /\ consumed_index limit size <= size.
Proof.
  pose proof (eff_limit_pos limit) as Hp. unfold consumed_index.
  destruct (limit_size_rejects limit (Z.of_N size)) eqn:E; [lia|].
  assert (~ (eff_limit limit < Z.of_N size)%Z) by (intro H; apply limit_size_spec in H; congruence).
  lia.
Qed.

(* ---------- the decoder behind limitReader = the length comparison of the model ---------- *)

Lemma scan_in_firstn s st n m :
  scan_in s st n = Some m -> forall k, (m <= n + k)%nat -> scan_in (firstn k s) st n = Some m.
Proof.
  revert st n. induction s as [|c r IH]; intros st n H k Hk; [discriminate|].
  destruct (scan_in_prefix (c :: r) st n m H) as [[Hlt _] _].
  destruct k as [|k']; [lia|]. cbn [firstn].
  assert (Hk' : (m <= S n + k')%nat) by lia.
  simpl in H |- *. destruct st as [d|d|d].
  - destruct (c =? j_quote); [now apply IH|]. destruct (j_open c); [now apply IH|].
    destruct (j_close c); [|now apply IH]. destruct d; [exact H|now apply IH].
  - destruct (c =? j_quote); [now apply IH|]. destruct (c =? j_bslash); now apply IH.
  - now apply IH.
Qed.

Lemma scan_from_firstn s n m :
  scan_from s n = Some m -> forall k, (m <= n + k)%nat -> scan_from (firstn k s) n = Some m.
Proof.
  revert n. induction s as [|c r IH]; intros n H k Hk; [discriminate|].
  destruct (scan_from_prefix (c :: r) n m H) as [[Hlt _] _].
  destruct k as [|k']; [lia|]. cbn [firstn]. simpl in H |- *.
  destruct (j_ws c); [apply IH; [exact H|lia]|].
  destruct (j_open c); [|discriminate]. apply scan_in_firstn; [exact H|lia].
Qed.

(* Decoding the first value of a body through limitReader succeeds exactly when the value ends
   within the limit, and then yields the whole value: the comparison `document length <= limit`
   of Model/Paging.v (body_fits) is what the decoder behind the reader does. *)
Theorem scan_behind_limit body limit :
  first_value (seen limit body) =
  match scan body with
  | Some m => if (Z.of_nat m <=? eff_limit limit)%Z then Some (firstn m body) else None
  | None => None
  end.
Proof.
  pose proof (eff_limit_pos limit) as Hp. unfold first_value, seen, scan.
  set (n := Z.to_nat (eff_limit limit)).
  destruct (scan_from body 0) as [m|] eqn:S.
  - destruct (Z.leb_spec (Z.of_nat m) (eff_limit limit)) as [L|G].
    + rewrite (scan_from_firstn body 0 m S n) by (unfold n; lia).
      f_equal. rewrite firstn_firstn. f_equal. unfold n. lia.
    + destruct (scan_from_prefix body 0 m S) as [_ P]. rewrite (P n) by (unfold n; lia). reflexivity.
  - destruct (scan_from (firstn n body) 0) as [m|] eqn:S'; [|reflexivity].
    exfalso. pose proof (scan_from_app (firstn n body) (skipn n body) 0 m S') as A.
    rewrite firstn_skipn in A. congruence.
Qed.
