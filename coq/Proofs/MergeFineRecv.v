(* C14 — InvF preserved by FERecv *)
From Oras Require Import Base.Prelude Model.Referrers Proofs.Referrers Model.Merge Proofs.Merge Model.MergeFine.
From Oras Require Import Proofs.MergeFine Proofs.MergeFineGet Proofs.MergeFineMain Proofs.MergeFineAssign Proofs.MergeFineWake.
From Coq Require Import Lia.


(* the main caller receives the main status *)
Lemma stepF_recv sg s t s' : InvF s -> fstep sg s (FERecv t) = Some s' -> InvF s'.
Proof.
  intros I H. simpl in H.
  destruct (f_pcs s t) as [|c|g| |old|nw o|oi ap|r k|r|r|r] eqn:Hpc; try discriminate.
  destruct (f_wt s I t g Hpc) as (Hg1 & Hg2 & Hg3).
  destruct (fbuf (f_chans s g)) as [[|r]|] eqn:Hb.
  - (* main status *)
    injection H as <-. pose proof (f_vm s I g Hb) as ->.
    destruct (f_tok s I Hb) as (Hni & Hcm & Hnomain).
    destruct (f_token_fresh s I Hb) as (Hcl & Hv).
    pose proof (Hg2 eq_refl) as Hin.
    dI I. constructor; simpl.
    all: try solve [fsolve].
    + intros t0 c0 Hin0. tcase t0 t; [right; left; reflexivity|].
      destruct (f_it0 t0 c0 Hin0) as [E|[E|[(tm & Htm) E]]]; auto.
      apply fwindow_main in Htm. now rewrite Hnomain in Htm.
    + intros t0 c0 Hin0. destruct (f_pe0 t0 c0 Hin0) as [A B]. split; [|exact B].
      tcase t0 t; [tauto|exact A].
    + rewrite upd_eq. simpl. discriminate.
    + intros _. right. exists t. now rewrite upd_eq.
    + intros t0 Hx. rewrite upd_eq. simpl. tcase t0 t; [auto|]. apply fpre_main in Hx. now rewrite Hnomain in Hx.
    + destruct f_pl0 as (hs & A & B & C). exists hs. split; auto. split; auto.
      intro x. tcase x t; [rewrite B, Hpc; simpl; tauto | apply B].
  - (* a buffered result *)
    injection H as <-.
    assert (Hv : f_verdict s g = Some r) by (eapply (f_vb s I); eauto).
    assert (Hle : (g <= f_gen s)%nat).
    { destruct (Nat.le_gt_cases g (f_gen s)); auto. destruct (f_fut s I g H) as (A & _). congruence. }
    apply invF_wake with (g := g); auto.
    + intros ->. destruct (f_vn s I r Hv) as (tm & Htm). exists tm. eapply fres_window; eauto.
    + right. split; [congruence|reflexivity].
  - destruct (fclosed (f_chans s g)) eqn:Hc; [|discriminate]. injection H as <-.
    assert (Hv : f_verdict s g = Some ROk) by (eapply (f_vc s I); eauto).
    assert (Hle : (g <= f_gen s)%nat).
    { destruct (Nat.le_gt_cases g (f_gen s)); auto. destruct (f_fut s I g H) as (_ & A & _). congruence. }
    unfold fset_pc. apply invF_wake with (g := g); auto.
    intros ->. destruct (f_vn s I ROk Hv) as (tm & Htm). exists tm. eapply fres_window; eauto.
Qed.

(* a channel operation of complete(): the main caller stays between FNotify and FSwap *)
