(* C05, every reader behaviour: the verifying reader is sound over ANY underlying reader
   (Model/VerifyAny.v), nested verifying readers included, and the generic definitions
   coincide with the harness-exercised model of Model/Verify.v at [base_read]. *)
From Oras Require Import Base.Prelude Generated.GC05 Model.Verify Model.VerifyAny Proofs.Verify.
From Coq Require Import Lia ZArith.
Local Open Scope nat_scope.

Section AnyProofs.
  Variable H : str -> str -> str.
  Context {S : Type}.
  Variable rd : S -> nat -> rres * S.

  (* the io.Reader contract: a Read never returns more bytes than it was given room for *)
  Definition rd_ok : Prop := forall s k, length (fst (fst (rd s k))) <= k.

  Notation g_read := (g_read rd).
  Notation g_verify := (g_verify H rd).
  Notation g_run := (g_run H rd).

  (* --- ensureEOF over any reader: when it answers true nothing was read *)
  Lemma g_read_full_tee fuel : forall s h want acc acc' e s' h',
    read_full (g_tee_read rd) fuel (s, h) want acc = ((acc', e), (s', h')) ->
    exists d, acc' = acc ++ d /\ h' = h ++ d /\ (e = Some EEof -> length acc' < want).
  Proof.
    induction fuel as [|f IH]; intros s h want acc acc' e s' h'; simpl.
    - destruct (want <=? length acc) eqn:W; intro E; inversion E; subst;
        exists []; rewrite !app_nil_r; repeat split; auto; discriminate.
    - destruct (want <=? length acc) eqn:W.
      { intro E; inversion E; subst. exists []; rewrite !app_nil_r; repeat split; auto; discriminate. }
      unfold g_tee_read at 1. simpl.
      destruct (rd s (want - length acc)) as [[bs e0] s1] eqn:Eb.
      destruct e0 as [e0|].
      + destruct (want <=? length (acc ++ bs)) eqn:W2.
        { intro E; inversion E; subst. exists bs. repeat split; auto; discriminate. }
        apply Nat.leb_gt in W2.
        destruct ((0 <? length (acc ++ bs)) && is_eof e0) eqn:G; intro E; inversion E; subst;
          exists bs; repeat split; auto; try discriminate.
      + intro E. apply IH in E as (d & E1 & E2 & E3).
        exists (bs ++ d). subst acc' h'. rewrite !app_assoc.
        split; [reflexivity|]. split; [reflexivity|].
        exact E3.
  Qed.

  Lemma g_ensure_eof_true fuel s h s' h' :
    g_ensure_eof rd fuel (s, h) = (true, (s', h')) -> h' = h.
  Proof.
    unfold g_ensure_eof.
    destruct (read_full (g_tee_read rd) fuel (s, h) 1 []) as [[acc' e] [s1 h1]] eqn:E.
    intro X. inversion X as [[Ok Es Eh]]. subst s1 h1.
    destruct e as [[]|]; try discriminate.
    apply g_read_full_tee in E as (d & A & B & C).
    pose proof (C eq_refl) as P.
    simpl in A. subst acc'. destruct d; [now rewrite app_nil_r in B|simpl in P; lia].
  Qed.

  (* --- the invariant of a VerifyReader built for (dg, sz) over an rd_ok reader *)
  Definition ginv (dg : str) (sz : Z) (out : str) (v : gvr (S := S)) : Prop :=
    (g_err v = None -> g_verified v = false /\ (0 <= g_N v)%Z /\
                       (Z.of_nat (length (g_hashed v)) + g_N v = sz)%Z /\ out = g_hashed v /\
                       valid_digest dg = true) /\
    (g_err v = Some EEof -> g_verified v = false ->
                       g_N v = 0%Z /\ Z.of_nat (length (g_hashed v)) = sz /\ out = g_hashed v /\
                       valid_digest dg = true) /\
    (g_verified v = true -> Z.of_nat (length (g_hashed v)) = sz /\ out = g_hashed v /\ g_err v = Some EEof /\
                            verified H dg (g_hashed v) = true /\ valid_digest dg = true).

  Lemma ginv_new src dg sz : ginv dg sz [] (g_new src dg sz).
  Proof.
    unfold g_new. destruct (valid_digest dg) eqn:Vd; simpl; [destruct (sz <? 0)%Z eqn:N|];
      unfold ginv; simpl; repeat split; try discriminate; try lia; auto.
  Qed.

  Lemma g_read_verified v k r v' : g_verified v = true -> g_read v k = (r, v') -> g_verified v' = true.
  Proof.
    intro V. unfold g_read.
    destruct (g_err v); [intro Y; inversion Y; subst; exact V|].
    destruct (g_N v <=? 0)%Z; [intro Y; inversion Y; subst; exact V|].
    destruct (rd (g_src v) (clamp k (g_N v))) as [[b0 e0] s0].
    destruct e0; intro Y; inversion Y; subst; exact V.
  Qed.

  Lemma g_verify_verified fuel dg v : g_verified v = true -> g_verify fuel dg v = (None, v).
  Proof. intro V. unfold g_verify. rewrite V. reflexivity. Qed.

  Lemma g_verify_none fuel dg v v' : g_verify fuel dg v = (None, v') -> g_verified v' = true.
  Proof.
    unfold g_verify. destruct (g_verified v) eqn:V; [intro Y; inversion Y; subst; exact V|].
    destruct (match g_err v with None => if (g_N v >? 0)%Z then Some EEarly else None
                           | Some EEof => None | Some e => Some e end); [intro Y; inversion Y|].
    destruct (g_ensure_eof rd fuel (g_src v, g_hashed v)) as [ok [s' h']].
    destruct (negb ok); [intro Y; inversion Y|].
    destruct (verified H dg h'); intro Y; inversion Y; reflexivity.
  Qed.

  Lemma g_read_inv (OK : rd_ok) dg sz out v k bs e v' :
    ginv dg sz out v -> g_read v k = ((bs, e), v') -> ginv dg sz (out ++ bs) v'.
  Proof.
    intros (I1 & I2 & I3). unfold g_read.
    destruct (g_err v) as [e0|] eqn:Ee.
    - intro X; inversion X; subst. rewrite app_nil_r.
      unfold ginv. rewrite Ee. split; [discriminate|]. split; [exact I2|exact I3].
    - destruct (I1 eq_refl) as (V & N0 & L & O & Vd).
      destruct (g_N v <=? 0)%Z eqn:Nz.
      + intro X; inversion X; subst. rewrite app_nil_r.
        unfold ginv, g_set_err; simpl. apply Z.leb_le in Nz.
        split; [discriminate|]. split; [intros _ _; repeat split; auto; lia|].
        intro Vt. rewrite V in Vt. discriminate.
      + apply Z.leb_gt in Nz.
        destruct (rd (g_src v) (clamp k (g_N v))) as [[bs0 e1] s1] eqn:Er.
        pose proof (OK (g_src v) (clamp k (g_N v))) as Len. rewrite Er in Len. simpl in Len.
        pose proof (clamp_le k _ Nz) as [CL1 CL2].
        destruct e1 as [e1|]; intro X; inversion X; subst;
          unfold ginv, g_set_err; simpl; rewrite ?app_length, ?Nat2Z.inj_add.
        * split; [discriminate|]. split; [|intro Vt; rewrite V in Vt; discriminate].
          intros Q _.
          destruct (is_eof e1 && (g_N v - Z.of_nat (length bs) >? 0)%Z) eqn:G; [discriminate|].
          assert (is_eof e1 = true) as Ie by (destruct e1; try discriminate; reflexivity).
          rewrite Ie in G; simpl in G.
          destruct (Z.gtb_spec (g_N v - Z.of_nat (length bs)) 0); [discriminate|].
          repeat split; auto; try lia; try congruence.
        * split; [|split; [discriminate|intro Vt; rewrite V in Vt; discriminate]].
          intros _. repeat split; auto; try lia; try congruence.
  Qed.

  (* a reader that failed for good never verifies and hands out nothing more *)
  Definition gdead (v : gvr (S := S)) : Prop :=
    g_verified v = false /\ g_err v <> None /\ g_err v <> Some EEof.

  Lemma g_verify_inv dg sz out fuel v e v' :
    ginv dg sz out v -> g_verify fuel dg v = (e, v') ->
    ginv dg sz out v' \/ (e <> None /\ gdead v').
  Proof.
    intros I. pose proof I as (I1 & I2 & I3). unfold g_verify.
    destruct (Bool.bool_dec (g_verified v) true) as [V|V]; [rewrite V|apply Bool.not_true_is_false in V; rewrite V].
    { intro X; inversion X; subst. left. exact I. }
    assert (forall s' h' vv, g_ensure_eof rd fuel (g_src v, g_hashed v) = (true, (s', h')) ->
              g_N v = 0%Z -> Z.of_nat (length (g_hashed v)) = sz -> out = g_hashed v -> valid_digest dg = true ->
              (if verified H dg h' then (None, mkG s' (g_N v) h' (Some EEof) true)
               else (Some EMismatch, g_set_err (mkG s' (g_N v) h' (g_err v) false) EMismatch)) = (e, vv) ->
              ginv dg sz out vv \/ (e <> None /\ gdead vv)) as K.
    { intros s' h' vv En Nz L O Vd. apply g_ensure_eof_true in En. subst h'.
      destruct (verified H dg (g_hashed v)) eqn:Vf; intro X; inversion X; subst.
      - left. unfold ginv; simpl. split; [discriminate|]. split; [discriminate|]. intros _. repeat split; auto.
      - right. unfold gdead, g_set_err; simpl. repeat split; discriminate. }
    destruct (g_err v) as [e0|] eqn:Ee.
    - destruct e0;
        try (intro X; inversion X; subst; right; unfold gdead; rewrite Ee, V; repeat split; discriminate).
      (* EEof *)
      destruct (I2 eq_refl V) as (N0 & L & O & Vd).
      destruct (g_ensure_eof rd fuel (g_src v, g_hashed v)) as [ok [s' h']] eqn:En.
      destruct ok; simpl.
      + apply (K s' h' v' eq_refl N0 L O Vd).
      + intro X; inversion X; subst. right. unfold gdead, g_set_err; simpl. repeat split; discriminate.
    - destruct (I1 eq_refl) as (_ & N0 & L & O & Vd).
      destruct (g_N v >? 0)%Z eqn:G.
      { intro X; inversion X; subst. left. exact I. }
      assert (g_N v = 0%Z) as Nz.
      { destruct (Z.gtb_spec (g_N v) 0); [discriminate|lia]. }
      destruct (g_ensure_eof rd fuel (g_src v, g_hashed v)) as [ok [s' h']] eqn:En.
      destruct ok; simpl.
      + apply (K s' h' v' eq_refl Nz); auto; lia.
      + intro X; inversion X; subst. right. unfold gdead, g_set_err; simpl. repeat split; discriminate.
  Qed.

  Lemma g_read_dead v k : gdead v -> exists e, g_read v k = (([], Some e), v).
  Proof.
    intros (V & E1 & E2). unfold g_read. destruct (g_err v) as [e|]; [eauto|congruence].
  Qed.

  Lemma g_verify_dead fuel dg v : gdead v -> exists e, g_verify fuel dg v = (Some e, v).
  Proof.
    intros (V & E1 & E2). unfold g_verify. rewrite V.
    destruct (g_err v) as [[]|]; try congruence; eauto.
  Qed.

  Lemma g_run_dead fuel dg : forall ops v out oks, gdead v -> g_run fuel dg ops v out oks = (v, out, oks).
  Proof.
    induction ops as [|[k|] r IH]; intros v out oks D; simpl; [reflexivity| |].
    - destruct (g_read_dead v k D) as [e E]. rewrite E, app_nil_r. apply IH, D.
    - destruct (g_verify_dead fuel dg v D) as [e E]. rewrite E. apply IH, D.
  Qed.

  Lemma g_run_inv (OK : rd_ok) dg sz fuel : forall ops v out oks v' out' oks',
    ginv dg sz out v -> g_run fuel dg ops v out oks = (v', out', oks') ->
    (ginv dg sz out' v' \/ gdead v') /\ oks <= oks' /\
    ((oks < oks' \/ g_verified v = true) -> g_verified v' = true).
  Proof.
    induction ops as [|[k|] r IH]; intros v out oks v' out' oks' I; simpl.
    - intro X; inversion X; subst. split; [left; exact I|]. split; [lia|]. intros [L|V]; [lia|exact V].
    - destruct (g_read v k) as [[bs e] v1] eqn:Er.
      pose proof (g_read_inv OK dg sz out v k bs e v1 I Er) as I1.
      intro X. destruct (IH _ _ _ _ _ _ I1 X) as (A & B & C).
      split; [exact A|]. split; [exact B|]. intros [L|V]; apply C; [left; exact L|right].
      exact (g_read_verified v k _ v1 V Er).
    - destruct (g_verify fuel dg v) as [e v1] eqn:Ev.
      destruct (g_verify_inv dg sz out fuel v e v1 I Ev) as [I1|(Ne & D)].
      + intro X. destruct (IH _ _ _ _ _ _ I1 X) as (A & B & C).
        split; [exact A|]. destruct e as [e|].
        * split; [exact B|]. intros [L|V]; apply C; [left; exact L|right].
          rewrite (g_verify_verified fuel dg v V) in Ev. discriminate.
        * split; [lia|]. intros _. apply C. right. exact (g_verify_none fuel dg v v1 Ev).
      + rewrite (g_run_dead fuel dg r v1 out _ D). intro X; inversion X; subst.
        destruct e as [e|]; [|congruence].
        split; [right; exact D|]. split; [lia|]. intros [L|V]; [lia|].
        rewrite (g_verify_verified fuel dg v V) in Ev. discriminate.
  Qed.

  (* MAIN: over any rd_ok reader, whatever the caller does with the VerifyReader (any sequence
     of Read(k) and Verify): if some Verify answered nil, then everything the Reads handed out
     is exactly the bytes the descriptor names: sz bytes that hash to dg *)
  Theorem verify_any_reader_sound (OK : rd_ok) src dg sz fuel ops v' out' oks' :
    g_run fuel dg ops (g_new src dg sz) [] 0 = (v', out', oks') ->
    0 < oks' ->
    Z.of_nat (length out') = sz /\ verified H dg out' = true /\ valid_digest dg = true.
  Proof.
    intros R P.
    destruct (g_run_inv OK dg sz fuel ops _ [] 0 v' out' oks' (ginv_new src dg sz) R) as (A & _ & C).
    specialize (C (or_introl P)). destruct A as [(I1 & I2 & I3)|(V & _)]; [|congruence].
    destruct (I3 C) as (L & O & _ & Vf & Vd). subst out'. auto.
  Qed.

  (* closure: a VerifyReader over an rd_ok reader is itself an rd_ok reader - nesting to any depth *)
  Lemma g_read_ok (OK : rd_ok) : forall v k, length (fst (fst (g_read v k))) <= k.
  Proof.
    intros v k. unfold g_read.
    destruct (g_err v); [simpl; lia|].
    destruct (g_N v <=? 0)%Z eqn:Nz; [simpl; lia|]. apply Z.leb_gt in Nz.
    pose proof (OK (g_src v) (clamp k (g_N v))) as Len.
    destruct (rd (g_src v) (clamp k (g_N v))) as [[b0 e0] s0]. simpl in Len.
    pose proof (clamp_le k _ Nz) as [CL1 _].
    destruct e0; simpl; lia.
  Qed.
End AnyProofs.

(* the instance at [base_read comb] is the model of Model/Verify.v *)
Lemma to_g_read comb v k :
  g_read (base_read comb) (to_g v) k = (fst (vr_read comb v k), to_g (snd (vr_read comb v k))).
Proof.
  destruct v as [b n h er vf]. unfold g_read, vr_read, to_g; simpl.
  destruct er; [reflexivity|].
  destruct (n <=? 0)%Z; [reflexivity|].
  destruct (base_read comb b (clamp k n)) as [[bs e] b'].
  destruct e; reflexivity.
Qed.

Lemma to_g_verify H comb fuel dg v :
  g_verify H (base_read comb) fuel dg (to_g v) =
  (fst (vr_verify H comb fuel dg v), to_g (snd (vr_verify H comb fuel dg v))).
Proof.
  destruct v as [b n h er vf]. unfold g_verify, vr_verify, to_g, g_ensure_eof, ensure_eof; simpl.
  destruct vf; [reflexivity|].
  destruct (match er with None => if (n >? 0)%Z then Some EEarly else None
                         | Some EEof => None | Some e => Some e end); [reflexivity|].
  change (g_tee_read (base_read comb)) with (tee_read comb).
  destruct (read_full (tee_read comb) fuel (b, h) 1 []) as [[acc e] [b' h']].
  destruct (match e with Some EEof => true | _ => false end); simpl; [|reflexivity].
  destruct (verified H dg h'); reflexivity.
Qed.

Lemma base_read_ok comb : rd_ok (base_read comb).
Proof.
  intros s k. destruct (base_read comb s k) as [[bs e] s'] eqn:E.
  apply base_read_spec in E. simpl. tauto.
Qed.

(* nested: a VerifyReader (for ANY inner descriptor) handed to NewVerifyReader / Push / ReadAll *)
Lemma nested_verify_reader_sound H comb (src : base) dgi szi dg sz fuel ops v' out' oks' :
  g_run H (g_read (base_read comb)) fuel dg ops (g_new (g_new src dgi szi) dg sz) [] 0 = (v', out', oks') ->
  0 < oks' ->
  Z.of_nat (length out') = sz /\ verified H dg out' = true /\ valid_digest dg = true.
Proof.
  apply (verify_any_reader_sound H (g_read (base_read comb))).
  exact (g_read_ok _ (base_read_ok comb)).
Qed.

(* depth three, by the same closure *)
Lemma nested3_verify_reader_sound H comb (src : base) d1 s1 d2 s2 dg sz fuel ops v' out' oks' :
  g_run H (g_read (g_read (base_read comb))) fuel dg ops (g_new (g_new (g_new src d1 s1) d2 s2) dg sz) [] 0 = (v', out', oks') ->
  0 < oks' ->
  Z.of_nat (length out') = sz /\ verified H dg out' = true /\ valid_digest dg = true.
Proof.
  apply (verify_any_reader_sound H (g_read (g_read (base_read comb)))).
  exact (g_read_ok _ (g_read_ok _ (base_read_ok comb))).
Qed.

(* non-vacuity and the seeded mistake: 10 bytes behind an inner VerifyReader built with the true
   length; the outer descriptor names the digest of the 10 bytes but size 5.  The outer Verify
   refuses (mismatch) - and would answer nil if the inner reader were used in place of a new one *)
Local Open Scope N_scope.
Definition any_toyH (alg data : str) : str := repeat (48 + (fold_left N.add data 0) mod 10) 64%nat.
Definition any_bytes : str := [1;2;3;4;5;6;7;8;9;10].
Definition any_dg : str := digest_of any_toyH (b "sha256") any_bytes.
Definition any_src : base := mkBase [Data [1;2;3]; Zero; Data [4;5;6;7;8;9;10]] None.
Definition rd64 : vop := OpRead 64%nat.

Example nested_accepts_right_size :
  let '(_, out, oks) := g_run any_toyH (g_read (base_read false)) 8%nat any_dg [OpRead 4%nat; rd64; rd64; rd64; OpVerify]
                               (g_new (g_new any_src any_dg 10%Z) any_dg 10%Z) [] 0%nat in
  out = any_bytes /\ oks = 1%nat.
Proof. vm_compute. split; reflexivity. Qed.

Example nested_rejects_short_size :
  let '(_, out, oks) := g_run any_toyH (g_read (base_read false)) 8%nat any_dg [rd64; rd64; rd64; OpVerify]
                               (g_new (g_new any_src any_dg 10%Z) any_dg 5%Z) [] 0%nat in
  length out = 5%nat /\ oks = 0%nat.
Proof. vm_compute. split; reflexivity. Qed.

Example inner_reused_would_accept :
  let '(_, out, oks) := g_run any_toyH (base_read false) 8%nat any_dg [rd64; rd64; rd64; OpVerify]
                               (g_new any_src any_dg 10%Z) [] 0%nat in
  out = any_bytes /\ oks = 1%nat.
Proof. vm_compute. split; reflexivity. Qed.
