(* C12 lemmas about Model/TarRoundTrip.v *)
From Oras Require Import Base.Prelude Model.TarRoundTrip.

Lemma hdr_time_repro t : hdr_time true t = 0.
Proof. reflexivity. Qed.
