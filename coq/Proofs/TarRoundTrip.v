(* C12 lemmas about Model/TarRoundTrip.v *)
From Oras Require Import Base.Prelude Model.TarRoundTrip.

(* ---------- induction principle for the nested tree type ---------- *)
Section TreeInd.
  Variable P : tree -> Prop.
  Hypothesis HF : forall c m t, P (File c m t).
  Hypothesis HL : forall tg t, P (Link tg t).
  Hypothesis HD : forall m t ch, Forall (fun nc => P (snd nc)) ch -> P (Dir m t ch).
  Fixpoint tree_ind' (t : tree) : P t :=
    match t with
    | File c m mt => HF c m mt
    | Link tg mt => HL tg mt
    | Dir m mt ch =>
        HD m mt ch
          ((fix go (l : list (name * tree)) : Forall (fun nc => P (snd nc)) l :=
              match l with
              | [] => Forall_nil _
              | nc :: l' => Forall_cons nc (tree_ind' (snd nc)) (go l')
              end) ch)
    end.
End TreeInd.

(* ---------- paths ---------- *)
Lemma path_eqb_spec p q : path_eqb p q = true <-> p = q.
Proof.
  revert q; induction p as [|x p IH]; intros [|y q]; simpl; split; intro E;
    try reflexivity; try discriminate.
  - apply andb_true_iff in E as [E1 E2]. apply str_eqb_spec in E1. apply IH in E2. congruence.
  - injection E as -> ->. rewrite str_eqb_refl. simpl. now apply IH.
Qed.

Lemma path_eqb_refl p : path_eqb p p = true.
Proof. now apply path_eqb_spec. Qed.

Lemma path_eqb_neq p q : p <> q -> path_eqb p q = false.
Proof.
  intro N. destruct (path_eqb p q) eqn:E; [|reflexivity]. apply path_eqb_spec in E. contradiction.
Qed.

Lemma str_eqb_neq x y : x <> y -> str_eqb x y = false.
Proof.
  intro N. destruct (str_eqb x y) eqn:E; [|reflexivity]. apply str_eqb_spec in E. contradiction.
Qed.

Lemma lookup_set f p n q :
  fs_lookup (fs_set f p n) q = if path_eqb p q then Some n else fs_lookup f q.
Proof. reflexivity. Qed.

Lemma lookup_set_same f p n : fs_lookup (fs_set f p n) p = Some n.
Proof. rewrite lookup_set, path_eqb_refl. reflexivity. Qed.

Lemma lookup_set_other f p n q : p <> q -> fs_lookup (fs_set f p n) q = fs_lookup f q.
Proof. intro N. rewrite lookup_set, path_eqb_neq by exact N. reflexivity. Qed.

Lemma strip_prefix_app pre rel : strip_prefix pre (pre ++ rel) = Some rel.
Proof. induction pre as [|x pre IH]; simpl; [reflexivity|]. now rewrite str_eqb_refl. Qed.

Lemma app_neq_longer {A} (l r : list A) : r <> [] -> l <> l ++ r.
Proof.
  intros Hr E. apply (f_equal (@length A)) in E. rewrite app_length in E.
  destruct r; [contradiction|simpl in E; lia].
Qed.

(* a split of rel ++ [n] is a split of rel, or rel itself *)
Lemma split_snoc {A} (q r rel : list A) (n : A) :
  r <> [] -> rel ++ [n] = q ++ r -> q = rel \/ exists r', r' <> [] /\ rel = q ++ r'.
Proof.
  intros Hr E. destruct (exists_last Hr) as (r0 & x & ->).
  rewrite app_assoc in E. apply app_inj_tail in E as [E _].
  destruct r0 as [|y r0].
  - left. now rewrite app_nil_r in E.
  - right. exists (y :: r0). split; [discriminate|exact E].
Qed.

(* ---------- check_dirs ---------- *)
Lemma check_dirs_ok f : forall rest acc,
  (forall q r, q <> [] -> r <> [] -> rest = q ++ r -> is_link (fs_lookup f (acc ++ q)) = false) ->
  check_dirs f acc rest = true.
Proof.
  induction rest as [|x rest IH]; intros acc Hc; simpl; [reflexivity|].
  destruct rest as [|y rest']; [reflexivity|].
  rewrite (Hc [x] (y :: rest')); [|discriminate|discriminate|reflexivity]. simpl.
  apply IH. intros q r Hq Hr E.
  rewrite <- app_assoc. apply (Hc (x :: q) r); [discriminate|exact Hr|]. simpl. now rewrite E.
Qed.

(* a directory made by mkdir(2) with a mode masked by 01777 is not set-group-ID by itself *)
Lemma no_sgid_masked y u : N.land (N.ldiff (N.land y 1023) u) sgid = 0.
Proof.
  apply N.bits_inj. intro i. rewrite N.land_spec, N.ldiff_spec, N.land_spec, N.bits_0.
  destruct (N.eq_dec i 10) as [->|Hi].
  - change (N.testbit 1023 10) with false. now rewrite andb_false_r.
  - unfold sgid. change 1024 with (2 ^ 10). rewrite (N.pow2_bits_false 10 i) by (intro E; now subst).
    apply andb_false_r.
Qed.

Lemma create_dir_no_sgid umask m : N.land (create_mode dir_create_bits umask m) sgid = 0.
Proof. apply no_sgid_masked. Qed.

Section RoundTrip.
  Variables (pre : path) (umask : N) (preserve repro : bool) (isl isf : path -> bool).

  Definition links_sound (f : fs) : Prop :=
    (forall p tg, fs_lookup f p = Some (NLink tg) -> isl p = true) /\
    (forall p c m, fs_lookup f p = Some (NFile c m) -> isf p = true) /\
    (forall p m, fs_lookup f p = Some (NDir m) -> N.land m sgid = 0).

  Lemma check_dirs_clear f : links_sound f -> forall rest acc,
    prefixes_clear isl isf acc rest = true -> check_dirs f acc rest = true.
  Proof.
    intros (Hs & Hf & _). induction rest as [|x rest IH]; intros acc Hc; simpl in *; [reflexivity|].
    destruct rest as [|y rest']; [reflexivity|].
    apply andb_true_iff in Hc as [H1 H2]. rewrite (IH _ H2), andb_true_r.
    destruct (fs_lookup f (acc ++ [x])) as [[c m|m|tg]|] eqn:E; try reflexivity.
    apply Hs in E. rewrite E in H1. discriminate.
  Qed.

  (* ---------- modes ---------- *)
  Lemma land_small m k : m < 2 ^ k -> N.land m (N.ones k) = m.
  Proof. intro Hm. rewrite N.land_ones. now apply N.mod_small. Qed.

  Lemma mode_file m : (m <=? 4095) = true ->
    (if preserve then chmod_mode m else create_mode file_create_bits umask m) = restored_mode umask preserve m.
  Proof.
    intro Hm. apply N.leb_le in Hm. unfold restored_mode, chmod_mode, create_mode, file_create_bits.
    change 4095 with (N.ones 12).
    destruct preserve; rewrite land_small; try reflexivity; change (2 ^ 12) with 4096; change (N.ones 12) with 4095 in Hm; lia.
  Qed.

  (* ---------- mkdir_all ---------- *)
  Lemma mkdir_all_existing m f rp m' :
    fs_lookup f (rev rp) = Some (NDir m') -> mkdir_all umask m f rp = Ok f.
  Proof. intro E. destruct rp; simpl in *; rewrite E; reflexivity. Qed.

  Lemma mkdir_all_fresh m f rel m' :
    rel <> [] -> fs_lookup f rel = None -> fs_lookup f (parent rel) = Some (NDir m') ->
    N.land m' sgid = 0 ->
    mkdir_all umask m f (rev rel) = Ok (fs_set f rel (NDir (create_mode dir_create_bits umask m))).
  Proof.
    intros Hne Hn Hp Hsg. unfold parent in Hp.
    destruct (exists_last Hne) as (r0 & x & E). subst rel.
    rewrite removelast_last in Hp.
    rewrite rev_app_distr. simpl.
    rewrite rev_involutive, Hn.
    rewrite (mkdir_all_existing m f (rev r0) m') by (now rewrite rev_involutive).
    unfold inherited_sgid. rewrite ?rev_involutive, Hp, Hsg, N.lor_0_r.
    reflexivity.
  Qed.

  Lemma parent_is_dir_ok f rel :
    rel <> [] ->
    (forall q r, r <> [] -> rel = q ++ r -> exists m, fs_lookup f q = Some (NDir m)) ->
    exists m, fs_lookup f (parent rel) = Some (NDir m).
  Proof.
    intros Hne Hd. destruct (exists_last Hne) as (r0 & x & E). subst rel.
    unfold parent. rewrite removelast_last. apply (Hd r0 [x]); [discriminate|reflexivity].
  Qed.

  Lemma parent_is_dir_true f rel :
    rel <> [] ->
    (forall q r, r <> [] -> rel = q ++ r -> exists m, fs_lookup f q = Some (NDir m)) ->
    parent_is_dir f rel = true.
  Proof.
    intros Hne Hd. destruct (parent_is_dir_ok f rel Hne Hd) as [m E].
    unfold parent_is_dir. destruct rel; [contradiction|]. now rewrite E.
  Qed.

  Lemma check_dirs_prefix_dirs f rel :
    (forall q r, r <> [] -> rel = q ++ r -> exists m, fs_lookup f q = Some (NDir m)) ->
    check_dirs f [] rel = true.
  Proof.
    intro Hd. apply check_dirs_ok. intros q r _ Hr E. simpl.
    destruct (Hd q r Hr E) as [m ->]. reflexivity.
  Qed.

  (* ---------- expected ---------- *)
  Lemma expected_dir_cons m mt ch n p :
    expected_mid umask preserve (Dir m mt ch) (n :: p) =
    match find_child n ch with Some c => expected_mid umask preserve c p | None => None end.
  Proof. unfold expected_mid. simpl. destruct (find_child n ch); reflexivity. Qed.

  Lemma find_child_fresh n l : existsb (str_eqb n) (map fst l) = false -> find_child n l = None.
  Proof.
    induction l as [|[m c] l IH]; simpl; [reflexivity|]. intro E.
    apply orb_false_iff in E as [E1 E2].
    assert (str_eqb m n = false) as ->.
    { destruct (str_eqb m n) eqn:E; [|reflexivity]. apply str_eqb_spec in E. subst.
      rewrite str_eqb_refl in E1. discriminate. }
    now apply IH.
  Qed.

  (* ---------- the frame statement for one subtree ---------- *)
  Definition X := extract_list pre umask preserve.

  Lemma X_app f a b :
    X f (a ++ b) = match X f a with Ok f' => X f' b | Err e => Err e end.
  Proof.
    revert f; induction a as [|e a IH]; intro f; simpl; [reflexivity|].
    unfold X in *. simpl. destruct (extract_entry pre umask preserve f e); [apply IH|reflexivity].
  Qed.

  Definition subtree_spec (t : tree) : Prop :=
    forall rel f,
      rel <> [] ->
      wf_treeb t = true -> modes_okb t = true -> benignb pre isl isf rel t = true ->
      (forall q r, r <> [] -> rel = q ++ r -> exists m, fs_lookup f q = Some (NDir m)) ->
      (forall p, fs_lookup f (rel ++ p) = None) ->
      links_sound f ->
      exists f', X f (entries pre repro rel t) = Ok f' /\
        (forall p, fs_lookup f' (rel ++ p) = expected_mid umask preserve t p) /\
        (forall q, (forall p, q <> rel ++ p) -> fs_lookup f' q = fs_lookup f q) /\
        links_sound f'.

  Lemma children_ok rel : forall l,
    Forall (fun nc => subtree_spec (snd nc)) l ->
    forall g md,
      names_nodupb (map fst l) = true ->
      forallb (fun nc => wf_treeb (snd nc)) l = true ->
      forallb (fun nc => modes_okb (snd nc)) l = true ->
      forallb (fun nc => benignb pre isl isf (rel ++ [fst nc]) (snd nc)) l = true ->
      fs_lookup g rel = Some (NDir md) ->
      (forall q r, r <> [] -> rel = q ++ r -> exists m, fs_lookup g q = Some (NDir m)) ->
      (forall n p, existsb (str_eqb n) (map fst l) = true -> fs_lookup g (rel ++ n :: p) = None) ->
      links_sound g ->
      exists g', X g (flat_map (fun nc => entries pre repro (rel ++ [fst nc]) (snd nc)) l) = Ok g' /\
        (forall n p, fs_lookup g' (rel ++ n :: p) =
                     match find_child n l with
                     | Some c => expected_mid umask preserve c p
                     | None => fs_lookup g (rel ++ n :: p)
                     end) /\
        (forall q, (forall n p, q <> rel ++ n :: p) -> fs_lookup g' q = fs_lookup g q) /\
        links_sound g'.
  Proof.
    induction l as [|[n0 c0] l IH]; intros HF g md Hnd Hwf Hmo Hbe Hrel Hpre Hfresh Hls.
    - exists g. simpl. split; [reflexivity|]. split; [reflexivity|]. split; [reflexivity|exact Hls].
    - inversion HF as [|? ? Hc0 HF']; subst. simpl in *.
      apply andb_true_iff in Hnd as [Hn0 Hnd]. apply negb_true_iff in Hn0.
      apply andb_true_iff in Hwf as [Hwf0 Hwf].
      apply andb_true_iff in Hmo as [Hmo0 Hmo].
      apply andb_true_iff in Hbe as [Hbe0 Hbe].
      destruct (Hc0 (rel ++ [n0]) g) as (g1 & E1 & L1 & F1 & S1); auto.
      + intro E. apply app_eq_nil in E as [_ E]. discriminate.
      + intros q r Hr E. destruct (split_snoc q r rel n0 Hr E) as [->|(r' & Hr' & E')].
        * eauto.
        * eapply Hpre; eauto.
      + intro p. rewrite <- app_assoc. simpl. apply Hfresh. now rewrite str_eqb_refl.
      + assert (Hout : forall q, (forall n p, q <> rel ++ n :: p) -> fs_lookup g1 q = fs_lookup g q).
        { intros q Hq. apply F1. intros p E. rewrite <- app_assoc in E. simpl in E. now apply (Hq n0 p). }
        destruct (IH HF' g1 md) as (g' & E' & L' & F' & S'); auto.
        * rewrite Hout; [exact Hrel|]. intros n p. now apply app_neq_longer.
        * intros q r Hr E. rewrite Hout; [eapply Hpre; eauto|].
          intros n p E2. subst rel. rewrite <- app_assoc in E2. revert E2. now apply app_neq_longer; destruct r.
        * intros n p Hin. rewrite F1.
          -- apply Hfresh. now rewrite Hin, orb_true_r.
          -- intros p' E. rewrite <- app_assoc in E. simpl in E. apply app_inv_head in E.
             injection E as E _. subst n. rewrite Hin in Hn0. discriminate.
        * exists g'. split; [|split; [|split]]; auto.
          -- rewrite X_app, E1. exact E'.
          -- intros n p. rewrite L'. destruct (str_eqb n0 n) eqn:En.
             ++ apply str_eqb_spec in En. subst n. rewrite (find_child_fresh n0 l Hn0).
                specialize (L1 p). rewrite <- app_assoc in L1. exact L1.
             ++ destruct (find_child n l); [reflexivity|]. apply F1.
                intros p' E. rewrite <- app_assoc in E. simpl in E. apply app_inv_head in E.
                injection E as E _. subst n. rewrite str_eqb_refl in En. discriminate.
          -- intros q Hq. rewrite F' by exact Hq. apply Hout. exact Hq.
  Qed.

  Lemma subtree_ok : forall t, subtree_spec t.
  Proof.
    induction t as [c m mt|tg mt|m mt ch IHch] using tree_ind';
      intros rel f Hne Hwf Hmo Hbe Hpre Hfresh Hls.
    - (* regular file *)
      simpl in Hmo.
      assert (Hrel : fs_lookup f rel = None) by (rewrite <- (app_nil_r rel); apply Hfresh).
      unfold X. simpl. unfold extract_entry. simpl.
      rewrite strip_prefix_app, (check_dirs_prefix_dirs f rel Hpre). simpl.
      rewrite Hrel, (parent_is_dir_true f rel Hne Hpre).
      eexists. split; [reflexivity|]. split; [|split].
      + intros [|n p].
        * rewrite app_nil_r. unfold expected_mid. simpl. rewrite <- (mode_file m Hmo).
          destruct preserve; rewrite lookup_set_same; reflexivity.
        * assert (rel <> rel ++ n :: p) by (apply app_neq_longer; discriminate).
          unfold expected_mid. simpl.
          destruct preserve; repeat rewrite lookup_set_other by assumption; apply Hfresh.
      + intros q Hq. assert (rel <> q). { intro E. apply (Hq []). now rewrite app_nil_r. }
        destruct preserve; repeat rewrite lookup_set_other by assumption; reflexivity.
      + simpl in Hbe. destruct Hls as (Hl1 & Hl2 & Hl3). split; [|split].
        * intros p tg. destruct preserve; repeat rewrite lookup_set;
            destruct (path_eqb rel p); try discriminate; apply Hl1.
        * intros p c' m'. destruct preserve; repeat rewrite lookup_set;
            destruct (path_eqb rel p) eqn:E; try apply Hl2;
            apply path_eqb_spec in E; subst p; intros _; exact Hbe.
        * intros p m'. destruct preserve; repeat rewrite lookup_set;
            destruct (path_eqb rel p); try discriminate; apply Hl3.
    - (* symlink *)
      simpl in Hbe.
      apply andb_true_iff in Hbe as [Hbe Hq]. apply andb_true_iff in Hbe as [Hbe _].
      apply andb_true_iff in Hbe as [Hisl Habs].
      apply negb_true_iff in Habs.
      destruct (link_target_path pre rel tg) as [q0|] eqn:Eq; [|discriminate].
      assert (Hrel : fs_lookup f rel = None) by (rewrite <- (app_nil_r rel); apply Hfresh).
      unfold X. simpl. unfold extract_entry. simpl.
      rewrite strip_prefix_app, (check_dirs_prefix_dirs f rel Hpre). simpl.
      unfold link_ok. rewrite Habs, Eq, (check_dirs_clear f Hls q0 [] Hq).
      rewrite Hrel, (parent_is_dir_true f rel Hne Hpre).
      assert (is_root rel = false) as -> by (destruct rel; [contradiction|reflexivity]).
      eexists. split; [reflexivity|]. split; [|split].
      + intros [|n p].
        * rewrite app_nil_r, lookup_set_same. reflexivity.
        * rewrite lookup_set_other by (apply app_neq_longer; discriminate).
          unfold expected_mid. simpl. apply Hfresh.
      + intros q Hq'. rewrite lookup_set_other; [reflexivity|].
        intro E. apply (Hq' []). now rewrite app_nil_r.
      + destruct Hls as (Hl1 & Hl2 & Hl3). split; [|split].
        * intros p tg'. rewrite lookup_set. destruct (path_eqb rel p) eqn:E.
          -- apply path_eqb_spec in E. subst p. intros _. exact Hisl.
          -- apply Hl1.
        * intros p c' m'. rewrite lookup_set. destruct (path_eqb rel p); [discriminate|apply Hl2].
        * intros p m'. rewrite lookup_set. destruct (path_eqb rel p); [discriminate|apply Hl3].
    - (* directory *)
      simpl in Hwf, Hmo, Hbe.
      apply andb_true_iff in Hwf as [Hnd Hwf]. apply andb_true_iff in Hnd as [Hnd Hnok]. apply andb_true_iff in Hmo as [Hm Hmo].
      assert (Hrel : fs_lookup f rel = None) by (rewrite <- (app_nil_r rel); apply Hfresh).
      destruct (parent_is_dir_ok f rel Hne Hpre) as [mp Hpar].
      set (f2 := fs_set f rel (NDir (mid_dir_mode umask m))).
      assert (Hstep : extract_entry pre umask preserve f (mkEntry (pre ++ rel) EDir m (hdr_time repro mt)) = Ok f2).
      { unfold extract_entry. simpl.
        rewrite strip_prefix_app, (check_dirs_prefix_dirs f rel Hpre). simpl.
        rewrite (mkdir_all_fresh (N.lor m owner_rwx) f rel mp Hne Hrel Hpar); [reflexivity|].
        destruct Hls as (_ & _ & Hl3). exact (Hl3 _ _ Hpar). }
      assert (H2rel : fs_lookup f2 rel = Some (NDir (mid_dir_mode umask m))).
      { unfold f2. rewrite lookup_set_same. reflexivity. }
      assert (H2other : forall q, rel <> q -> fs_lookup f2 q = fs_lookup f q).
      { intros q Hq. unfold f2. rewrite lookup_set_other by exact Hq. reflexivity. }
      assert (H2ls : links_sound f2).
      { destruct Hls as (Hl1 & Hl2 & Hl3). split; [|split].
        - intros p tg. unfold f2. rewrite lookup_set;
            destruct (path_eqb rel p); try discriminate; apply Hl1.
        - intros p c' m'. unfold f2. rewrite lookup_set;
            destruct (path_eqb rel p); try discriminate; apply Hl2.
        - intros p m'. unfold f2. rewrite lookup_set. destruct (path_eqb rel p); [|apply Hl3].
          intro E. injection E as <-. apply create_dir_no_sgid. }
      destruct (children_ok rel ch IHch f2 (mid_dir_mode umask m)) as (g' & E' & L' & F' & S'); auto.
      + intros q r Hr E. rewrite H2other; [eapply Hpre; eauto|].
        subst rel. intro E. symmetry in E. revert E. now apply app_neq_longer.
      + intros n p _. rewrite H2other by (apply app_neq_longer; discriminate). apply Hfresh.
      + exists g'. split; [|split; [|split]]; auto.
        * unfold X in *. simpl. rewrite Hstep. exact E'.
        * intros [|n p].
          -- rewrite app_nil_r, F'; [rewrite H2rel; reflexivity|].
             intros n p. apply app_neq_longer. discriminate.
          -- rewrite L', expected_dir_cons. destruct (find_child n ch); [reflexivity|].
             rewrite H2other by (apply app_neq_longer; discriminate). apply Hfresh.
        * intros q Hq. rewrite F' by (intros n p; apply Hq). apply H2other.
          intro E. apply (Hq []). now rewrite app_nil_r.
  Qed.

  (* ---------- the whole directory, up to restoreDirModes ---------- *)
  Lemma extract_list_entries m mt ch :
    let T := Dir m mt ch in
    wf_treeb T = true -> modes_okb T = true -> benignb pre isl isf [] T = true ->
    links_sound (fs_init umask) ->
    exists f', extract_list pre umask preserve (fs_init umask) (entries pre repro [] T) = Ok f' /\
      forall p, fs_lookup f' p = expected_mid_top umask preserve T p.
  Proof.
    intros T Hwf Hmo Hbe Hls0. subst T. simpl in Hwf, Hmo, Hbe.
    apply andb_true_iff in Hwf as [Hnd Hwf]. apply andb_true_iff in Hnd as [Hnd Hnok]. apply andb_true_iff in Hmo as [Hm Hmo].
    set (f0 := fs_init umask).
    set (md := N.ldiff 511 umask).
    assert (Hstep : extract_entry pre umask preserve f0 (mkEntry (pre ++ []) EDir m (hdr_time repro mt)) = Ok f0).
    { unfold extract_entry. simpl. rewrite strip_prefix_app. simpl. reflexivity. }
    assert (H2rel : fs_lookup f0 [] = Some (NDir md)) by reflexivity.
    assert (H2other : forall q, [] <> q -> fs_lookup f0 q = None).
    { intros q Hq. unfold f0, fs_init; simpl; destruct q; [contradiction|reflexivity]. }
    assert (HF : Forall (fun nc => subtree_spec (snd nc)) ch).
    { clear. induction ch as [|nc ch IH]; constructor; [apply subtree_ok|exact IH]. }
    assert (Hpre0 : forall q r, r <> [] -> [] = q ++ r -> exists m0, fs_lookup f0 q = Some (NDir m0)).
    { intros q r Hr E. symmetry in E. apply app_eq_nil in E as [_ E]. contradiction. }
    assert (Hfresh0 : forall n p, existsb (str_eqb n) (map fst ch) = true -> fs_lookup f0 ([] ++ n :: p) = None).
    { intros n p _. apply H2other. discriminate. }
    destruct (children_ok [] ch HF f0 md Hnd Hwf Hmo Hbe H2rel Hpre0 Hfresh0 Hls0) as (g' & E' & L' & F' & S').
    - exists g'. split.
      + unfold X in *. simpl. fold f0. rewrite Hstep. exact E'.
      + intros [|n p].
        * rewrite F' by (intros n p; discriminate). rewrite H2rel. reflexivity.
        * specialize (L' n p). simpl in L'. rewrite L'.
          change (expected_mid_top umask preserve (Dir m mt ch) (n :: p))
            with (expected_mid umask preserve (Dir m mt ch) (n :: p)).
          rewrite expected_dir_cons. destruct (find_child n ch); [reflexivity|].
          first [reflexivity | apply H2other; discriminate].
  Qed.
End RoundTrip.

(* ---------- top level: any directory tree with benign links, up to restoreDirModes ---------- *)
Theorem extract_list_mid pre umask preserve repro T :
  is_dir T = true -> wf_treeb T = true -> modes_okb T = true -> benign_tree pre T = true ->
  exists f', extract_list pre umask preserve (fs_init umask) (entries pre repro [] T) = Ok f' /\
    forall p, fs_lookup f' p = expected_mid_top umask preserve T p.
Proof.
  intros Hd Hwf Hmo Hbe. destruct T as [| |m mt ch]; try discriminate.
  apply (extract_list_entries pre umask preserve repro (links_of (Dir m mt ch)) (files_of (Dir m mt ch)) m mt ch Hwf Hmo Hbe).
  split; [intros p tg E|split; [intros p c' m' E|intros p m' E]]; unfold fs_init in E; destruct p; simpl in E;
    try discriminate. injection E as <-. apply create_dir_no_sgid.
Qed.

(* ---------- reproducible tars ---------- *)
Lemma flat_map_ext_Forall {A B} (f g : A -> list B) l :
  Forall (fun x => f x = g x) l -> flat_map f l = flat_map g l.
Proof. induction 1; simpl; congruence. Qed.

Lemma map_ext_Forall {A B} (f g : A -> B) l :
  Forall (fun x => f x = g x) l -> map f l = map g l.
Proof. induction 1; simpl; congruence. Qed.

Lemma entries_strip_times pre : forall t rel,
  entries pre true rel (strip_times t) = entries pre true rel t.
Proof.
  induction t as [c m mt|tg mt|m mt ch IH] using tree_ind'; intro rel; simpl; try reflexivity.
  f_equal. rewrite flat_map_concat_map, map_map, <- flat_map_concat_map. simpl.
  apply flat_map_ext_Forall. eapply Forall_impl; [|exact IH]. intros nc H. apply H.
Qed.

Lemma insert_child_map (g : name * tree -> name * tree) x l :
  (forall y, fst (g y) = fst y) ->
  insert_child (g x) (map g l) = map g (insert_child x l).
Proof.
  intro Hg. induction l as [|y l IH]; simpl; [reflexivity|].
  rewrite !Hg. destruct (str_ltb (fst y) (fst x)); simpl; [now rewrite IH|reflexivity].
Qed.

Lemma sort_children_map (g : name * tree -> name * tree) l :
  (forall y, fst (g y) = fst y) ->
  sort_children (map g l) = map g (sort_children l).
Proof.
  intro Hg. induction l as [|x l IH]; simpl; [reflexivity|].
  unfold sort_children in *. simpl. rewrite IH. now apply insert_child_map.
Qed.

Lemma sort_strip_commute : forall t, sort_tree (strip_times t) = strip_times (sort_tree t).
Proof.
  induction t as [c m mt|tg mt|m mt ch IH] using tree_ind'; simpl; try reflexivity.
  f_equal. rewrite <- (sort_children_map (fun nc => (fst nc, strip_times (snd nc)))) by reflexivity.
  f_equal. rewrite !map_map. simpl. apply map_ext_Forall.
  eapply Forall_impl; [|exact IH]. intros nc H. simpl. now rewrite H.
Qed.

Theorem reproducible_entries pre t1 t2 :
  strip_times t1 = strip_times t2 -> tar_entries pre true t1 = tar_entries pre true t2.
Proof.
  intro E. unfold tar_entries.
  rewrite <- (entries_strip_times pre (sort_tree t1)), <- (entries_strip_times pre (sort_tree t2)).
  rewrite <- !sort_strip_commute. now rewrite E.
Qed.

(* the order in which the directory lists its children does not matter either *)
Lemma str_ltb_irrefl x : str_ltb x x = false.
Proof. induction x as [|c x IH]; simpl; [reflexivity|]. now rewrite N.ltb_irrefl. Qed.

(* ---------- descriptors and unpacking ---------- *)
Section Codec.
  Variable digest : Type.
  Variable H : str -> digest.
  Variable digest_eqb : digest -> digest -> bool.
  Variable enc : list entry -> str.
  Variable dec : str -> option (list entry).
  Variable gz : str -> str.
  Variable gunz : str -> option str.
  Hypothesis digest_eqb_spec : forall a b, digest_eqb a b = true <-> a = b.
  Hypothesis dec_enc : forall es, dec (enc es) = Some es.
  Hypothesis gunz_gz : forall s, gunz (gz s) = Some s.

  Let descr := dir_descriptor digest H enc gz.
  Let blobof := dir_blob enc gz.
  Let unpk := unpack digest H digest_eqb dec gunz.

  Lemma digest_eqb_refl a : digest_eqb a a = true.
  Proof. now apply digest_eqb_spec. Qed.

  Theorem descriptor_of_stored_bytes pre repro T :
    let d := descr pre repro T in
    let blob := blobof pre repro T in
    d_digest digest d = H blob /\ d_size digest d = N.of_nat (length blob) /\
    d_title digest d = pre /\ d_unpack digest d = true /\
    (forall tarb, gunz blob = Some tarb -> d_checksum digest d = Some (H tarb)).
  Proof.
    simpl. repeat split. intros tarb E. unfold blobof, dir_blob in E. rewrite gunz_gz in E.
    injection E as <-. reflexivity.
  Qed.

  Theorem wrong_checksum_rejected umask preserve d blob tarb c :
    gunz blob = Some tarb -> d_checksum digest d = Some c -> H tarb <> c ->
    forall f, unpk umask preserve d blob <> Ok f.
  Proof.
    intros Eg Ec Hne f. unfold unpk, unpack.
    destruct (negb _); [discriminate|]. rewrite Eg.
    destruct (dec tarb); [|discriminate].
    destruct (extract _ _ _ _); [|discriminate].
    rewrite Ec. destruct (digest_eqb (H tarb) c) eqn:E; [|discriminate].
    apply digest_eqb_spec in E. contradiction.
  Qed.

  Theorem wrong_blob_rejected umask preserve d blob :
    H blob <> d_digest digest d \/ N.of_nat (length blob) <> d_size digest d ->
    unpk umask preserve d blob = Err XDigest.
  Proof.
    intro Hne. unfold unpk, unpack.
    destruct (digest_eqb (H blob) (d_digest digest d)) eqn:E1; simpl; [|reflexivity].
    destruct (N.of_nat (length blob) =? d_size digest d) eqn:E2; simpl; [|reflexivity].
    apply digest_eqb_spec in E1. apply N.eqb_eq in E2. destruct Hne; contradiction.
  Qed.

  Theorem file_roundtrip umask nm content :
    push_file digest H digest_eqb umask (file_descriptor digest H nm content) content
    = Ok (NFile content (N.ldiff 438 umask)).
  Proof.
    unfold push_file, file_descriptor. simpl. rewrite digest_eqb_refl, N.eqb_refl. reflexivity.
  Qed.

  (* the descriptor of a plain file has no mode: a 0755 file comes back 0644 under umask 022 *)
  Theorem plain_file_mode_refuted nm content :
    exists m m', m <= 511 /\
      push_file digest H digest_eqb 18 (file_descriptor digest H nm content) content = Ok (NFile content m') /\
      m' <> N.ldiff m 18.
  Proof.
    exists 493, (N.ldiff 438 18). split; [vm_compute; discriminate|]. split; [apply file_roundtrip|].
    vm_compute. discriminate.
  Qed.

  Theorem file_push_verified umask d blob n :
    push_file digest H digest_eqb umask d blob = Ok n ->
    H blob = d_digest digest d /\ N.of_nat (length blob) = d_size digest d /\
    exists m, n = NFile blob m.
  Proof.
    unfold push_file.
    destruct (digest_eqb (H blob) (d_digest digest d)) eqn:E1; simpl; [|discriminate].
    destruct (N.of_nat (length blob) =? d_size digest d) eqn:E2; simpl; [|discriminate].
    intro E. injection E as <-. apply digest_eqb_spec in E1. apply N.eqb_eq in E2. eauto.
  Qed.

  Theorem reproducible_descriptor pre t1 t2 :
    strip_times t1 = strip_times t2 -> descr pre true t1 = descr pre true t2.
  Proof.
    intro E. unfold descr, dir_descriptor. now rewrite (reproducible_entries pre t1 t2 E).
  Qed.
End Codec.

(* ---------- names and digests: restoreDuplicates ---------- *)
Lemma name_lookup_in l n d : name_lookup l n = Some d -> In (n, d) l.
Proof.
  induction l as [|[m e] l IH]; simpl; [discriminate|].
  destruct (str_eqb m n) eqn:E.
  - intro Hs. injection Hs as ->. apply str_eqb_spec in E. subst. now left.
  - intro Hs. right. now apply IH.
Qed.

Lemma nodup_fst_inj (l : list (name * nat)) n d d' :
  NoDup (map fst l) -> In (n, d) l -> In (n, d') l -> d = d'.
Proof.
  induction l as [|[m e] l IH]; simpl; [contradiction|].
  intros Hnd [E1|H1] [E2|H2]; inversion Hnd as [|? ? Hni Hnd']; subst.
  - congruence.
  - injection E1 as -> ->. exfalso. apply Hni. change n with (fst (n, d')). now apply in_map.
  - injection E2 as -> ->. exfalso. apply Hni. change n with (fst (n, d)). now apply in_map.
  - now apply IH.
Qed.

Lemma fpush_layers_fresh : forall ls s,
  NoDup (map fst ls) ->
  (forall n d, In (n, d) ls -> name_lookup (s_names s) n = None) ->
  fpush_layers s ls = mkFstore (rev ls ++ s_names s) (rev (map snd ls) ++ s_digests s).
Proof.
  induction ls as [|[n d] ls IH]; intros s Hnd Hfresh; simpl.
  - destruct s; reflexivity.
  - unfold fpush_named. rewrite (Hfresh n d) by now left.
    inversion Hnd as [|? ? Hni Hnd']; subst.
    rewrite IH; simpl; auto.
    + now rewrite <- !app_assoc.
    + intros n' d' Hin. rewrite str_eqb_neq.
      * apply (Hfresh n' d'). now right.
      * intro E. subst n'. apply Hni. change n with (fst (n, d')). now apply in_map.
Qed.

Lemma restore_dups_mono : forall succ s n d,
  name_lookup (s_names s) n = Some d ->
  name_lookup (s_names (restore_dups s succ)) n = Some d.
Proof.
  induction succ as [|[n0 d0] succ IH]; intros s n d Hb; simpl; [exact Hb|].
  destruct (str_eqb n0 []); [now apply IH|].
  destruct (name_lookup (s_names s) n0) eqn:E0; [now apply IH|].
  destruct (existsb (Nat.eqb d0) (s_digests s)); [|now apply IH].
  unfold fpush_named. rewrite E0. apply IH. simpl.
  destruct (str_eqb n0 n) eqn:E; [|exact Hb].
  apply str_eqb_spec in E. subst. congruence.
Qed.

Lemma restore_dups_all : forall succ s,
  (forall n d, In (n, d) succ -> n <> []) ->
  (forall n d, In (n, d) succ -> existsb (Nat.eqb d) (s_digests s) = true) ->
  (forall n d d', In (n, d) succ -> name_lookup (s_names s) n = Some d' -> d' = d) ->
  NoDup (map fst succ) ->
  forall n d, In (n, d) succ -> name_lookup (s_names (restore_dups s succ)) n = Some d.
Proof.
  induction succ as [|[n0 d0] succ IH]; intros s Hne Hdg Hcons Hnd n d Hin; [contradiction|].
  inversion Hnd as [|? ? Hni Hnd']; subst. simpl.
  rewrite (str_eqb_neq n0 []) by (apply (Hne n0 d0); now left).
  destruct (name_lookup (s_names s) n0) as [d'|] eqn:E0.
  - assert (d' = d0) by (apply (Hcons n0 d0 d'); [now left|exact E0]). subst d'.
    destruct Hin as [E|Hin].
    + injection E as <- <-. now apply restore_dups_mono.
    + apply IH; auto.
      * intros; eapply Hne; right; eauto.
      * intros; eapply Hdg; right; eauto.
      * intros n1 d1 d1' H1. apply Hcons. now right.
  - rewrite (Hdg n0 d0) by now left. unfold fpush_named. rewrite E0.
    destruct Hin as [E|Hin].
    + injection E as <- <-. apply restore_dups_mono. simpl. now rewrite str_eqb_refl.
    + apply IH; auto.
      * intros; eapply Hne; right; eauto.
      * intros n1 d1 H1. simpl. rewrite (Hdg n1 d1) by now right. apply orb_true_r.
      * intros n1 d1 d1' H1. simpl. destruct (str_eqb n0 n1) eqn:E.
        -- apply str_eqb_spec in E. subst n1. exfalso. apply Hni.
           change n0 with (fst (n0, d1)). now apply in_map.
        -- apply Hcons. now right.
Qed.

Theorem same_bytes_two_names inn pushed layers :
  NoDup (map fst layers) -> (forall n d, In (n, d) layers -> n <> []) ->
  incl pushed layers -> NoDup (map fst pushed) ->
  (forall n d, In (n, d) layers -> In d (map snd pushed)) ->
  forall n d, In (n, d) layers ->
    name_lookup (s_names (copy_into false inn pushed layers)) n = Some d.
Proof.
  intros Hnd Hne Hincl Hndp Hdg. unfold copy_into, fpush_manifest.
  rewrite (fpush_layers_fresh pushed fstore_empty Hndp) by reflexivity. simpl. rewrite !app_nil_r.
  apply restore_dups_all; auto; simpl.
  - intros n d Hin. apply existsb_exists. exists d. split; [|apply Nat.eqb_refl].
    apply in_rev. rewrite rev_involutive. eapply Hdg; eauto.
  - intros n d d' Hin Hb. apply name_lookup_in in Hb. apply in_rev in Hb.
    apply (nodup_fst_inj layers n d' d Hnd); auto.
Qed.

Theorem forcecas_no_restore inn pushed layers :
  copy_into true inn pushed layers = fpush_layers fstore_empty pushed.
Proof. reflexivity. Qed.

(* the code before the fix, under IgnoreNoName: the manifest was dropped before restoreDuplicates *)
Theorem ignorenoname_refuted :
  exists pushed layers,
    NoDup (map fst layers) /\ (forall n d, In (n, d) layers -> n <> []) /\
    incl pushed layers /\ NoDup (map fst pushed) /\
    (forall n d, In (n, d) layers -> In d (map snd pushed)) /\
    exists n d, In (n, d) layers /\
      name_lookup (s_names (copy_into_prefix false true pushed layers)) n = None.
Proof.
  exists [(b "a", 1%nat)], [(b "a", 1%nat); (b "b", 1%nat)].
  split; [|split; [|split; [|split; [|split]]]].
  - repeat constructor; simpl; intuition discriminate.
  - intros n d [E|[E|[]]]; injection E as <- _; discriminate.
  - intros x [<-|[]]. now left.
  - repeat constructor; simpl; intuition.
  - intros n d [E|[E|[]]]; injection E as _ <-; now left.
  - exists (b "b"), 1%nat. split; [right; now left|reflexivity].
Qed.

(* before the fix PreservePermissions lost setuid/setgid/sticky *)
Theorem chmod_prefix_refuted : exists m, (m <=? 4095) = true /\ chmod_mode_prefix m <> m /\ chmod_mode m = m.
Proof. exists 1023. vm_compute. repeat split; discriminate. Qed.

(* the directory itself does not get its recorded mode back without PreservePermissions *)
Definition root_mode_witness : tree := Dir 448 0 [(b "f", File (b "x") 420 0)].

Theorem root_mode_refuted :
  exists T umask,
    is_dir T = true /\ wf_treeb T = true /\ modes_okb T = true /\ benign_tree [b "d"] T = true /\
    exists f', extract_prefix [b "d"] umask false (tar_entries [b "d"] true T) = Ok f' /\
      fs_lookup f' [] <> expected umask false T [].
Proof.
  exists root_mode_witness, 18.
  repeat (split; [reflexivity|]).
  eexists. split; [vm_compute; reflexivity|]. vm_compute. discriminate.
Qed.
