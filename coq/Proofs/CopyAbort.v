(* C04, extension round: what "aborts the copy" means on the transition system, and the
   terminal notification / upload of a node counted over ALL three ways it can end.
     - a node one of whose callbacks failed never completes, so no (direct) predecessor is
       ever copied: none of its PreCopy / PostCopy / MountFrom / OnMounted / Mount events
       occurs anywhere in the trace (copyGraph.fn closes the tracker channel only on success
       and a predecessor passes its successor wait only through closed channels);
     - per node at most one terminal notification among PostCopy, OnCopySkipped, OnMounted,
       and exactly one for every node a successful copy visited;
     - per node at most one upload, counting the upload inside Mount.  *)
From Oras Require Import Base.Prelude Model.CopySpec Model.CopyTop Model.CopyOpt
  Proofs.CopySpec Proofs.CopyAcct Proofs.CopyOpt.
Local Open Scope nat_scope.

Ltac simp_st := cbn [set_ph ph dst cached tag returned] in *.
Ltac upd_cases m n :=
  let E := fresh "E" in
  destruct (Nat.eq_dec m n) as [E|E];
  [subst; rewrite ?upd_same in * | rewrite ?(upd_other _ _ _ _ E) in *].
Ltac old_ph :=
  match goal with Hp : ph ?st ?n = _ |- context [ph ?st ?n] => rewrite Hp end.

(* ------------------------------------------------------------------ one terminal notification *)

(* PostCopy, OnCopySkipped or OnMounted invoked on n (returning nil or an error) *)
Definition is_term (n : node) (e : event) : bool :=
  is_cb CPost n e || is_cb CSkip n e || is_cb CMounted n e.

(* an upload of n begins: Push / PushReference called, or Mount fell back to uploading *)
Definition is_upload (n : node) (e : event) : bool :=
  match e with
  | PuB m _ => Nat.eqb m n
  | MtE m MCopied => Nat.eqb m n
  | _ => false
  end.

Definition uploaded_ph (p : phase) : bool :=
  match p with
  | Pushing _ _ | Closing _ | TagP0 _ | TagP1 _ | PostP | Done | Dead => true
  | _ => false
  end.

Lemma uploaded_closed : closed_set uploaded_ph.
Proof. closed_set_tac. Qed.

Lemma cnt_term_sum n tr :
  cnt (is_term n) tr = cnt (is_cb CPost n) tr + cnt (is_cb CSkip n) tr + cnt (is_cb CMounted n) tr.
Proof.
  unfold cnt, is_term. induction tr as [|e tr IH]; simpl; [reflexivity|].
  destruct e as [| | | | | | |k m|k m| | | | |]; simpl; try exact IH;
    destruct k; simpl; rewrite ?andb_false_r, ?andb_true_r, ?orb_false_r; simpl;
    destruct (Nat.eqb m n); simpl; lia.
Qed.

Section Once2.
Variable g : graph.
Variable c : cfg.

Lemma term_once n tr st st' : run g c st tr = Some st' -> cnt (is_term n) tr <= 1.
Proof.
  intro H.
  refine (proj1 (one_shot g c (is_term n) (fun s => mountedpast_ph (ph s n) = true) _ _ _ tr st st' H)).
  - intros s e s' Hs Hd. eapply mountedpast_closed; eauto.
  - intros s e s' Hs Hp. unfold is_term in Hp.
    apply orb_true_iff in Hp as [Hp|Hp]; [apply orb_true_iff in Hp as [Hp|Hp]|];
      revert s e s' Hs Hp; enters_tac.
  - intros s e s' Hs Hp. unfold is_term in Hp.
    apply orb_true_iff in Hp as [Hp|Hp]; [apply orb_true_iff in Hp as [Hp|Hp]|];
      revert s e s' Hs Hp; blocks_tac.
Qed.

Lemma upload_once n tr st st' : run g c st tr = Some st' -> cnt (is_upload n) tr <= 1.
Proof.
  intro H.
  refine (proj1 (one_shot g c (is_upload n) (fun s => uploaded_ph (ph s n) = true) _ _ _ tr st st' H)).
  - intros s e s' Hs Hd. eapply uploaded_closed; eauto.
  - enters_tac.
  - blocks_tac.
Qed.
End Once2.

Lemma term_once_lemma (g : graph) (c : cfg) (d0 : list node) tr st n :
  accepts g c d0 tr = Some st ->
  cnt (is_cb CPost n) tr + cnt (is_cb CSkip n) tr + cnt (is_cb CMounted n) tr <= 1.
Proof. intro H. rewrite <- cnt_term_sum. exact (term_once g c n tr _ _ H). Qed.

Lemma upload_once_lemma (g : graph) (c : cfg) (d0 : list node) tr st n :
  accepts g c d0 tr = Some st -> cnt (is_upload n) tr <= 1.
Proof. intro H. exact (upload_once g c n tr _ _ H). Qed.

Section Terminal.
Variable g : graph.
Variable c : cfg.
Variable d0 : list node.

Lemma step_not_idle st e st' n : step g c st e = Some st' -> ph st n <> Idle -> ph st' n <> Idle.
Proof.
  intros H Hn. step_inv H; simp_st; auto;
  match goal with |- context [upd _ ?m _ n] => upd_cases n m end; auto;
  unfold after_push, after_tag;
  repeat match goal with |- context [if ?x then _ else _] => destruct x end; discriminate.
Qed.

Lemma run_not_idle tr : forall st st' n, run g c st tr = Some st' -> ph st n <> Idle -> ph st' n <> Idle.
Proof.
  induction tr as [|e tr IH]; simpl; intros st st' n H Hn.
  - now injection H as <-.
  - destruct (step g c st e) as [s1|] eqn:E; [|discriminate].
    eapply IH; eauto using step_not_idle.
Qed.

Lemma step_exb_ph st n st' : step g c st (ExB n) = Some st' -> ph st' n <> Idle.
Proof.
  unfold step. destruct (returned st); [discriminate|].
  destruct (ph st n); try discriminate.
  match goal with |- context [if ?x then _ else _] => destruct x end; [|discriminate].
  intro H. injection H as <-. simpl. rewrite upd_same. discriminate.
Qed.

Lemma cnt_ge1_in (p : event -> bool) tr : 1 <= cnt p tr -> exists e, In e tr /\ p e = true.
Proof.
  unfold cnt. induction tr as [|e tr IH]; simpl; [lia|].
  destruct (p e) eqn:E.
  - intros _. exists e. auto.
  - intro H. destruct (IH H) as [x [Hx Px]]. exists x. auto.
Qed.

(* every node that a successful copy visited (dst.Exists was called on it) got exactly one terminal
   notification: PostCopy, OnCopySkipped or OnMounted -- except the already-present root of a
   ReferencePusher copy, which prepareCopy re-pushes with the reference instead *)
Lemma exactly_one_terminal tr st n :
  accepts g c d0 tr = Some st -> returned st = Some true -> In (ExB n) tr ->
  cnt (is_cb CPost n) tr + cnt (is_cb CSkip n) tr + cnt (is_cb CMounted n) tr = 1 \/
  (root_refpush c n = true /\
   cnt (is_cb CPost n) tr + cnt (is_cb CSkip n) tr + cnt (is_cb CMounted n) tr = 0).
Proof.
  intros Ha Hr Hin. pose proof Ha as Hall. unfold accepts in Ha.
  pose proof (term_once g c n tr _ _ Ha) as Hle. rewrite cnt_term_sum in Hle.
  apply in_split in Hin as [t1 [t2 ->]].
  apply run_app in Ha as [s1 [H1 H2]]. simpl in H2.
  destruct (step g c s1 (ExB n)) as [s2|] eqn:E; [|discriminate].
  pose proof (step_exb_ph _ _ _ E) as Hni.
  pose proof (run_not_idle t2 _ _ n H2 Hni) as Hni'.
  pose proof (step_preserves_inv g c d0 _ _ _ (run_inv g c d0 t1 _ _ (init_inv g c d0) H1) E) as I2.
  assert (Hb : n < g_n g) by (apply (i_bound g c d0 s2 I2); exact Hni).
  destruct (run_ret_true g c _ _ _ Hall eq_refl Hr) as [_ Hall'].
  specialize (Hall' n Hb).
  assert (Hd : ph st n = Done) by (destruct (ph st n); simpl in Hall'; congruence).
  pose proof (ninv_run g c d0 _ [] _ _ (init_inv g c d0) (ninv_init c d0) Hall) as [N1 _].
  simpl in N1. destruct (N1 n Hd) as [[Hn|[Hn|Hn]]|Hrp].
  - left. pose proof (cnt_ge1 (is_cb CPost n) _ _ Hn) as G. simpl in G. rewrite Nat.eqb_refl in G.
    specialize (G eq_refl). lia.
  - left. pose proof (cnt_ge1 (is_cb CSkip n) _ _ Hn) as G. simpl in G. rewrite Nat.eqb_refl in G.
    specialize (G eq_refl). lia.
  - left. pose proof (cnt_ge1 (is_cb CMounted n) _ _ Hn) as G. simpl in G. rewrite Nat.eqb_refl in G.
    specialize (G eq_refl). lia.
  - destruct (Nat.eq_dec (cnt (is_cb CPost n) (t1 ++ ExB n :: t2) + cnt (is_cb CSkip n) (t1 ++ ExB n :: t2)
                          + cnt (is_cb CMounted n) (t1 ++ ExB n :: t2)) 0) as [Z|NZ].
    + right. split; assumption.
    + left. lia.
Qed.
End Terminal.

(* ------------------------------------------------------------------ abort *)

(* the events of p's own copy: everything p does after it waited for its successors *)
Definition copy_ev (p : node) (e : event) : bool :=
  match e with
  | Cb k m | CbFail k m => Nat.eqb m p && match k with CSkip => false | _ => true end
  | MtB m | MtE m _ => Nat.eqb m p
  | _ => false
  end.

Section Abort.
Variable g : graph.
Variable c : cfg.
Variable d0 : list node.

Lemma done_run tr : forall st st' x, run g c st tr = Some st' -> ph st x = Done -> ph st' x = Done.
Proof.
  induction tr as [|e tr IH]; simpl; intros st st' x H Hx.
  - now injection H as <-.
  - destruct (step g c st e) as [s1|] eqn:E; [|discriminate].
    eapply IH; eauto using done_absorbing.
Qed.

(* when p's copy makes a move, every (non-foreign) successor of p is done *)
Lemma copy_ev_succ_done st e st' p : Inv g c d0 st -> step g c st e = Some st' -> copy_ev p e = true ->
  forall x, In x (succ' g p) -> ph st x = Done.
Proof.
  intros I H Hc x Hx.
  step_inv H; simp_st; simpl in Hc; try discriminate Hc;
  repeat match goal with Hq : (_ && _) = true |- _ => apply andb_true_iff in Hq; destruct Hq end;
  repeat match goal with Hq : Nat.eqb _ _ = true |- _ => apply Nat.eqb_eq in Hq; subst end;
  try discriminate;
  first [ eapply forallb_done; eassumption
        | apply (i_settled g c d0 st I p); [old_ph; reflexivity | exact Hx] ].
Qed.

Lemma cbfail_needs_not_done st k n st' : step g c st (CbFail k n) = Some st' -> ph st n <> Done.
Proof.
  intros H Hd. unfold step, cb_next in H. destruct (returned st); [discriminate|].
  rewrite Hd in H. destruct k; discriminate.
Qed.

(* a node never is Done at one instant and fails a callback at another *)
Lemma no_copy_above_failed tr st k n p e :
  accepts g c d0 tr = Some st -> In (CbFail k n) tr -> In n (succ' g p) ->
  In e tr -> copy_ev p e = true -> False.
Proof.
  intros Ha Hf Hs He Hc. unfold accepts in Ha.
  apply in_split in He as [a [b ->]].
  apply in_app_or in Hf as [Hf|[Hf|Hf]].
  - (* the failure came first: n is dead when p moves *)
    apply in_split in Hf as [a1 [a2 ->]].
    rewrite <- app_assoc in Ha. apply run_app in Ha as [s1 [H1 H2]]. simpl in H2.
    destruct (step g c s1 (CbFail k n)) as [s2|] eqn:E; [|discriminate].
    pose proof (step_cbfail_dead g c _ _ _ _ E) as Hd.
    apply run_app in H2 as [s3 [H3 H4]]. simpl in H4.
    destruct (step g c s3 e) as [s4|] eqn:E2; [|discriminate].
    pose proof (dead_run g c a2 _ _ n H3 Hd) as Hd3.
    assert (I3 : Inv g c d0 s3).
    { eapply run_inv; [|exact H3]. eapply step_preserves_inv; [|exact E].
      eapply run_inv; [apply init_inv|exact H1]. }
    pose proof (copy_ev_succ_done _ _ _ _ I3 E2 Hc n Hs) as Hdone. congruence.
  - (* the failing callback is p's own event: p would be its own successor, done while it runs *)
    subst e. apply run_app in Ha as [s1 [H1 H2]]. simpl in H2.
    destruct (step g c s1 (CbFail k n)) as [s2|] eqn:E; [|discriminate].
    assert (I1 : Inv g c d0 s1) by (eapply run_inv; [apply init_inv|exact H1]).
    assert (n = p).
    { simpl in Hc. apply andb_true_iff in Hc as [Hc _]. now apply Nat.eqb_eq in Hc. }
    subst p. pose proof (copy_ev_succ_done _ _ _ _ I1 E Hc n Hs) as Hdone.
    exact (cbfail_needs_not_done _ _ _ _ E Hdone).
  - (* p moved first: n was done then, and stays done *)
    apply in_split in Hf as [b1 [b2 ->]].
    apply run_app in Ha as [s1 [H1 H2]]. simpl in H2.
    destruct (step g c s1 e) as [s2|] eqn:E; [|discriminate].
    assert (I1 : Inv g c d0 s1) by (eapply run_inv; [apply init_inv|exact H1]).
    pose proof (copy_ev_succ_done _ _ _ _ I1 E Hc n Hs) as Hdone.
    pose proof (done_absorbing g c _ _ _ n E Hdone) as Hdone2.
    apply run_app in H2 as [s3 [H3 H4]]. simpl in H4.
    destruct (step g c s3 (CbFail k n)) as [s4|] eqn:E2; [|discriminate].
    pose proof (done_run b1 _ _ n H3 Hdone2) as Hdone3.
    exact (cbfail_needs_not_done _ _ _ _ E2 Hdone3).
Qed.

(* stated per event kind *)
Lemma failed_successor_blocks_parent tr st k n p :
  accepts g c d0 tr = Some st -> In (CbFail k n) tr -> In n (succ' g p) ->
  (forall k', k' <> CSkip -> ~ In (Cb k' p) tr /\ ~ In (CbFail k' p) tr) /\
  ~ In (MtB p) tr /\ (forall r, ~ In (MtE p r) tr).
Proof.
  intros Ha Hf Hs. repeat split.
  - intro Hin. eapply (no_copy_above_failed tr st k n p (Cb k' p)); eauto.
    simpl. rewrite Nat.eqb_refl. destruct k'; simpl; congruence.
  - intro Hin. eapply (no_copy_above_failed tr st k n p (CbFail k' p)); eauto.
    simpl. rewrite Nat.eqb_refl. destruct k'; simpl; congruence.
  - intro Hin. eapply (no_copy_above_failed tr st k n p (MtB p)); eauto.
    simpl. apply Nat.eqb_refl.
  - intros r Hin. eapply (no_copy_above_failed tr st k n p (MtE p r)); eauto.
    simpl. apply Nat.eqb_refl.
Qed.

(* the push itself: a predecessor that was probed and found absent is never pushed, whichever
   callbacks are set -- read on the elaborated trace, where the invocation point of a nil PreCopy
   stands right before the node's Fetch / Push *)
Lemma failed_successor_blocks_parent_opt cs tr st full k n p :
  accepts_opt cs g c d0 tr = Some (st, full) -> In (CbFail k n) tr -> In n (succ' g p) ->
  forall e, In e full -> copy_ev p e = false.
Proof.
  intros Ha Hf Hs e He.
  pose proof (run_opt_sound cs g c tr _ _ _ Ha) as Hsnd.
  pose proof (run_opt_erase cs g c tr _ _ _ Ha) as Her.
  assert (Hf' : In (CbFail k n) full) by (apply (erase_In cs); now rewrite Her).
  destruct (copy_ev p e) eqn:Hc; [|reflexivity].
  exfalso. exact (no_copy_above_failed full st k n p e Hsnd Hf' Hs He Hc).
Qed.

(* ... hence no upload of such a predecessor: the only push of p that can still occur is the re-push,
   with the reference, of a root that the destination already holds *)
Lemma failed_successor_parent_not_pushed cs tr st full k n p r f1 f2 :
  accepts_opt cs g c d0 tr = Some (st, full) -> In (CbFail k n) tr -> In n (succ' g p) ->
  full = f1 ++ PuB p r :: f2 ->
  exists st1, accepts g c d0 f1 = Some st1 /\ has g (dst st1) p = true.
Proof.
  intros Ha Hf Hs ->.
  pose proof (run_opt_sound cs g c tr _ _ _ Ha) as Hsnd.
  destruct (pre_before_push_begin g c d0 f1 p r f2 st Hsnd) as [st1 [H1 Hpre]].
  exists st1. split; [exact H1|].
  destruct (has g (dst st1) p) eqn:Hh; [reflexivity|exfalso].
  specialize (Hpre eq_refl).
  assert (Hin : In (Cb CPre p) (f1 ++ PuB p r :: f2)) by (apply in_or_app; left; exact Hpre).
  pose proof (failed_successor_blocks_parent_opt cs tr st _ k n p Ha Hf Hs _ Hin) as Hc.
  simpl in Hc. rewrite Nat.eqb_refl in Hc. discriminate.
Qed.
End Abort.

(* ------------------------------------------------------------------ witnesses *)

(* hypotheses satisfiable: index 2 -> {0, 1}; PreCopy of 0 fails while 1 is copied; the index is
   never copied and the call fails *)
Definition g_ab : graph :=
  mkGraph 3 (fun n => match n with 2 => [0; 1] | _ => [] end) (fun _ => false)
          (fun n => Nat.eqb n 2) (fun n => n).
Definition c_ab : cfg := mkCfg 2 MGraph 2 false true [] [].
Definition tr_ab : list event :=
  [ExB 2; ExE 2 false; SFB 2; SFE 2; SFC 2;
   ExB 0; ExB 1; ExE 0 false; ExE 1 false;
   CbFail CPre 0;
   Cb CPre 1; SFB 1; SFE 1; PuB 1 false; PuE 1 false POk; SFC 1; Cb CPost 1;
   Ret false].

Lemma abort_example :
  exists st, accepts g_ab c_ab [] tr_ab = Some st /\ returned st = Some false /\
             In (CbFail CPre 0) tr_ab /\ In 0 (succ' g_ab 2) /\
             cnt (is_upload 1) tr_ab = 1 /\ cnt (is_term 1) tr_ab = 1.
Proof.
  eexists. split; [vm_compute; reflexivity|].
  repeat split; try reflexivity; simpl; auto 12.
Qed.

(* the seeded change "defer close(done) unconditionally" (a failed node wakes the predecessors that
   wait for it) produces traces like this one, which the transition system rejects at the PreCopy of
   the index: *)
Definition tr_ab_bad : list event :=
  [ExB 2; ExE 2 false; SFB 2; SFE 2; SFC 2;
   ExB 0; ExB 1; ExE 0 false; ExE 1 false;
   CbFail CPre 0;
   Cb CPre 1; SFB 1; SFE 1; PuB 1 false; PuE 1 false POk; SFC 1; Cb CPost 1;
   Cb CPre 2].

Lemma copy_past_failure_rejected : accepts g_ab c_ab [] tr_ab_bad = None.
Proof. vm_compute. reflexivity. Qed.
