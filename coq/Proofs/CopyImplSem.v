(* CopyImplSem: the model of semaphore.Weighted (unit weights) conserves permits, never hands out more
   than its size, and never leaves a waiter queued while a permit is free. *)
From Coq Require Import List Arith Bool Lia Permutation.
From Oras Require Import Model.CopyImplSem.
Import ListNotations.

Lemma memb_In w l : memb w l = true <-> In w l.
Proof.
  unfold memb. rewrite existsb_exists. split.
  - intros [x [Hx He]]. apply Nat.eqb_eq in He. subst. auto.
  - intros H. exists w. split; auto. apply Nat.eqb_refl.
Qed.
Lemma remove1_In w l x : In x (remove1 w l) <-> In x l /\ x <> w.
Proof.
  unfold remove1. rewrite filter_In. split; intros [A B]; split; auto.
  - intros ->. rewrite Nat.eqb_refl in B. discriminate.
  - destruct (Nat.eqb_spec x w); auto.
Qed.
Lemma remove1_NoDup w l : NoDup l -> NoDup (remove1 w l).
Proof. intros H. unfold remove1. apply NoDup_filter. auto. Qed.
Lemma remove1_length w l : NoDup l -> In w l -> S (length (remove1 w l)) = length l.
Proof.
  induction l as [|a l IH]; intros Hn Hin; [contradiction|]. inversion Hn as [|? ? Hna Hnl]; subst.
  cbn. destruct (Nat.eqb_spec a w) as [->|Hne]; cbn.
  - f_equal. unfold remove1. clear IH Hn Hin Hnl. induction l as [|b l IH]; auto.
    cbn. destruct (Nat.eqb_spec b w) as [->|]; cbn.
    + exfalso. apply Hna. left. auto.
    + f_equal. apply IH. intros H. apply Hna. right. auto.
  - destruct Hin as [->|Hin]; [congruence|]. f_equal. apply IH; auto.
Qed.
Lemma remove1_notin w l : ~ In w l -> remove1 w l = l.
Proof.
  induction l as [|a l IH]; intros H; auto. cbn. destruct (Nat.eqb_spec a w) as [->|]; cbn.
  - exfalso. apply H. left. auto.
  - f_equal. apply IH. intros Hin. apply H. right. auto.
Qed.

Lemma notify_cons k size cur w rest granted :
  notify (S k) size cur (w :: rest) granted =
  if Nat.ltb cur size
  then let '(c, ws, gs, woken) := notify k size (S cur) rest (granted ++ [w]) in (c, ws, gs, w :: woken)
  else (cur, w :: rest, granted, []).
Proof. reflexivity. Qed.

(* notifyWaiters: wakes a prefix of the queue, exactly as many as there are free tokens *)
Lemma notify_spec fuel : forall size cur wait granted c ws gs woken,
  notify fuel size cur wait granted = (c, ws, gs, woken) -> length wait <= fuel -> cur <= size ->
  wait = woken ++ ws /\ gs = granted ++ woken /\ c = cur + length woken /\ c <= size /\
  (ws <> [] -> c = size).
Proof.
  induction fuel as [|k IH]; intros size cur wait granted c ws gs woken H Hl Hc.
  - destruct wait; [|cbn in Hl; lia]. cbn [sstep andb] in H. inversion H; subst. cbn. repeat split; auto; try lia; try (rewrite app_nil_r; reflexivity); try (intros HH; exfalso; apply HH; reflexivity).
  - destruct wait as [|w rest].
    + cbn [sstep andb] in H. inversion H; subst. cbn. repeat split; auto; try lia; try (rewrite app_nil_r; reflexivity); try (intros HH; exfalso; apply HH; reflexivity).
    + rewrite notify_cons in H. destruct (Nat.ltb_spec cur size) as [Hlt|Hge].
      * destruct (notify k size (S cur) rest (granted ++ [w])) as [[[c1 ws1] gs1] wk1] eqn:E.
        inversion H; subst. cbn in Hl.
        destruct (IH _ _ _ _ _ _ _ _ E ltac:(lia) ltac:(lia)) as [A [B [C [D F]]]].
        repeat split.
        -- rewrite A. reflexivity.
        -- rewrite B. rewrite <- app_assoc. reflexivity.
        -- rewrite C. cbn. lia.
        -- exact D.
        -- exact F.
      * inversion H; subst. cbn. repeat split; auto; try lia; try (rewrite app_nil_r; reflexivity).
Qed.

Record SInv (s : sem) : Prop := {
  si_cur : s_cur s = s_held s + length (s_granted s);
  si_le : s_cur s <= s_size s;
  si_nolost : s_wait s <> [] -> s_cur s = s_size s;
  si_nodup : NoDup (s_wait s ++ s_granted s) }.

Lemma sinv_init n : SInv (ssize_init n).
Proof. constructor; cbn; auto; try lia. congruence. constructor. Qed.

Lemma nodup_app_r (l l' : list nat) : NoDup (l ++ l') -> NoDup l'.
Proof. induction l; cbn; auto. intros H. inversion H; auto. Qed.

Lemma nodup_move (woken : list nat) : forall ws gs, NoDup ((woken ++ ws) ++ gs) -> NoDup (ws ++ gs ++ woken).
Proof.
  intros ws gs H. rewrite <- app_assoc in H.
  (* permutation argument *)
  assert (P : Permutation.Permutation (woken ++ ws ++ gs) (ws ++ gs ++ woken)).
  { rewrite (app_assoc ws gs woken). apply Permutation_app_comm. }
  eapply Permutation.Permutation_NoDup; eauto.
Qed.

Lemma sinv_step s o s' r : SInv s -> sstep s o = Some (s', r) -> SInv s'.
Proof.
  intros [Hc Hle Hnl Hnd] H. destruct o as [w d|  |w d|w]; cbn [sstep andb] in H.
  - destruct d.
    + inversion H; subst. constructor; auto.
    + destruct (memb w (s_wait s) || memb w (s_granted s)) eqn:Hm; [discriminate|].
      apply orb_false_iff in Hm. destruct Hm as [Hm1 Hm2].
      destruct (Nat.ltb_spec (s_cur s) (s_size s)) as [Hlt|Hge]; cbn [sstep andb] in H.
      * destruct (s_wait s) eqn:Hw.
        -- inversion H; subst. constructor; cbn; rewrite ?Hw; auto; try lia; try (intros HH; exfalso; apply HH; reflexivity).
        -- exfalso. specialize (Hnl ltac:(congruence)). lia.
      * inversion H; subst. constructor; cbn; auto; try lia.
        rewrite <- app_assoc.
        assert (P : Permutation.Permutation (w :: s_wait s ++ s_granted s) (s_wait s ++ [w] ++ s_granted s)).
        { apply Permutation.Permutation_middle. }
        eapply Permutation.Permutation_NoDup; [exact P|]. constructor; auto.
        rewrite in_app_iff. intros [A|A]; apply memb_In in A; congruence.
  - destruct (s_held s) as [|h] eqn:Hh; [discriminate|]. destruct (s_cur s) as [|c] eqn:Hcur; [discriminate|].
    destruct (notify (length (s_wait s)) (s_size s) c (s_wait s) (s_granted s)) as [[[c' ws] gs] woken] eqn:E.
    inversion H; subst.
    destruct (notify_spec _ _ _ _ _ _ _ _ _ E (le_n _) ltac:(lia)) as [A [B [C [D F]]]].
    constructor; cbn; auto.
    + subst. rewrite app_length. lia.
    + subst gs. rewrite A in Hnd. apply nodup_move. auto.
  - destruct d.
    + destruct (memb w (s_granted s)) eqn:Hm; [|discriminate]. apply memb_In in Hm.
      destruct (s_cur s) as [|c] eqn:Hcur; [discriminate|].
      assert (Hndg : NoDup (s_granted s)) by (apply nodup_app_r in Hnd; auto).
      pose proof (remove1_length w _ Hndg Hm) as Hlen.
      destruct (notify (length (s_wait s)) (s_size s) c (s_wait s) (remove1 w (s_granted s))) as [[[c' ws] gs] woken] eqn:E.
      inversion H; subst.
      destruct (notify_spec _ _ _ _ _ _ _ _ _ E (le_n _) ltac:(lia)) as [A [B [C [D F]]]].
      constructor; cbn; auto.
      * subst. rewrite app_length. lia.
      * subst gs. apply nodup_move. rewrite <- A.
        assert (Hsub : NoDup (s_wait s ++ remove1 w (s_granted s))).
        { clear -Hnd. induction (s_wait s) as [|a l IH]; cbn in *.
          - apply remove1_NoDup; auto.
          - inversion Hnd; subst. constructor; auto. rewrite in_app_iff in *. intros [X|X]; apply H1; auto.
            right. apply remove1_In in X. tauto. }
        exact Hsub.
    + destruct (memb w (s_granted s)) eqn:Hm; [|discriminate]. apply memb_In in Hm.
      assert (Hndg : NoDup (s_granted s)) by (apply nodup_app_r in Hnd; auto).
      pose proof (remove1_length w _ Hndg Hm) as Hlen.
      inversion H; subst. constructor; cbn; auto; try lia.
      clear -Hnd. induction (s_wait s) as [|a l IH]; cbn in *.
      * apply remove1_NoDup; auto.
      * inversion Hnd; subst. constructor; auto. rewrite in_app_iff in *. intros [X|X]; apply H1; auto.
        right. apply remove1_In in X. tauto.
  - destruct (memb w (s_wait s)) eqn:Hm; [|discriminate].
    (* a queued waiter exists: the semaphore is full, so no notification happens *)
    assert (Hfull : s_cur s = s_size s) by (apply Hnl; intros E; rewrite E in Hm; discriminate).
    assert (Hlt : Nat.ltb (s_cur s) (s_size s) = false) by (apply Nat.ltb_ge; lia).
    rewrite Hlt, andb_false_r in H. inversion H; subst.
    constructor; cbn; auto.
    clear -Hnd. induction (s_wait s) as [|a l IH]; cbn in *; auto.
    inversion Hnd; subst. destruct (Nat.eqb a w); cbn; auto. constructor; auto.
    rewrite in_app_iff in *. intros [X|X]; apply H1; auto. left. apply remove1_In in X. tauto.
Qed.

Inductive SReach (n : nat) : sem -> Prop :=
| SR_init : SReach n (ssize_init n)
| SR_step s o s' r : SReach n s -> sstep s o = Some (s', r) -> SReach n s'.

Lemma sreach_inv n s : SReach n s -> SInv s /\ s_size s = n.
Proof.
  induction 1 as [|s o s' r Hr [IH Hs] Hst].
  - split; [apply sinv_init | reflexivity].
  - split; [eapply sinv_step; eauto|].
    destruct o as [w d| |w d|w]; cbn [sstep] in Hst;
      repeat match type of Hst with
             | context [match ?x with _ => _ end] => destruct x eqn:?; try discriminate Hst
             | context [if ?x then _ else _] => destruct x eqn:?; try discriminate Hst
             end; inversion Hst; subst; cbn; auto.
Qed.

(* permits are conserved, at most `size` are out, and no waiter is queued while a permit is free *)
Theorem sem_sound n s : SReach n s ->
  s_cur s = s_held s + length (s_granted s) /\ s_held s + length (s_granted s) + sfree s = n /\
  s_held s <= n /\ (s_wait s <> [] -> sfree s = 0).
Proof.
  intros H. destruct (sreach_inv n s H) as [[Hc Hle Hnl Hnd] Hs]. unfold sfree. rewrite Hs in *.
  repeat split; auto; try lia. intros Hw. specialize (Hnl Hw). lia.
Qed.

(* an Acquire is granted (at once, or later through notifyWaiters) only when the counter abstraction
   has a free permit; a Release always frees one *)
Theorem sem_refines_counter n s o s' r : SReach n s -> sstep s o = Some (s', r) ->
  match o, r with
  | SAcquire _ _, RGranted => 0 < sfree s /\ sfree s' = sfree s - 1
  | SAcquire _ _, _ => sfree s' = sfree s
  | SRelease, RDone woken => sfree s' + length woken = S (sfree s)
  | SWake _ false, _ => sfree s' = sfree s
  | SWake _ true, RDone woken => sfree s' + length woken = S (sfree s)
  | SCancel _, RDone woken => woken = [] /\ sfree s' = sfree s
  | _, _ => True
  end.
Proof.
  intros Hr H. destruct (sreach_inv n s Hr) as [[Hc Hle Hnl Hnd] Hs]. unfold sfree.
  destruct o as [w d| |w d|w]; cbn [sstep andb] in H.
  - destruct d; [inversion H; subst; auto|].
    destruct (memb w (s_wait s) || memb w (s_granted s)); [discriminate|].
    destruct (Nat.ltb_spec (s_cur s) (s_size s)); cbn [sstep andb] in H.
    + destruct (s_wait s); inversion H; subst; cbn; lia.
    + inversion H; subst; cbn; lia.
  - destruct (s_held s) as [|h]; [discriminate|]. destruct (s_cur s) as [|c] eqn:Hcur; [discriminate|].
    destruct (notify (length (s_wait s)) (s_size s) c (s_wait s) (s_granted s)) as [[[c' ws] gs] woken] eqn:E.
    inversion H; subst. destruct (notify_spec _ _ _ _ _ _ _ _ _ E (le_n _) ltac:(lia)) as [A [B [C [D F]]]].
    cbn. lia.
  - destruct d.
    + destruct (memb w (s_granted s)); [|discriminate]. destruct (s_cur s) as [|c] eqn:Hcur; [discriminate|].
      destruct (notify (length (s_wait s)) (s_size s) c (s_wait s) (remove1 w (s_granted s))) as [[[c' ws] gs] woken] eqn:E.
      inversion H; subst. destruct (notify_spec _ _ _ _ _ _ _ _ _ E (le_n _) ltac:(lia)) as [A [B [C [D F]]]].
      cbn. lia.
    + destruct (memb w (s_granted s)); [|discriminate]. inversion H; subst. cbn. lia.
  - destruct (memb w (s_wait s)) eqn:Hm; [|discriminate].
    assert (Hfull : s_cur s = s_size s) by (apply Hnl; intros E; rewrite E in Hm; discriminate).
    assert (Hlt : Nat.ltb (s_cur s) (s_size s) = false) by (apply Nat.ltb_ge; lia).
    rewrite Hlt, andb_false_r in H. inversion H; subst. cbn. auto.
Qed.

(* a full semaphore wakes nobody *)
Lemma notify_full fuel size wait granted : notify fuel size size wait granted = (size, wait, granted, []).
Proof.
  destruct fuel; destruct wait; cbn [notify]; auto. rewrite Nat.ltb_irrefl. reflexivity.
Qed.

(* FIFO hand-over: when waiters are queued, a Release hands the permit to the FIRST of them and to
   nobody else, and the semaphore stays full *)
Theorem sem_release_wakes_head n s w rest s' r : SReach n s -> s_wait s = w :: rest ->
  sstep s SRelease = Some (s', r) ->
  r = RDone [w] /\ s_wait s' = rest /\ s_granted s' = s_granted s ++ [w] /\ sfree s' = 0.
Proof.
  intros Hr Hw H. destruct (sreach_inv n s Hr) as [[Hc Hle Hnl Hnd] Hs].
  assert (Hfull : s_cur s = s_size s) by (apply Hnl; rewrite Hw; discriminate).
  cbn [sstep] in H. destruct (s_held s) as [|h]; [discriminate|].
  destruct (s_cur s) as [|c] eqn:Hcur; [discriminate|].
  rewrite Hw in H. cbn [length] in H. rewrite notify_cons in H.
  assert (Hlt : Nat.ltb c (s_size s) = true) by (apply Nat.ltb_lt; lia).
  rewrite Hlt in H. rewrite Hfull in H. rewrite notify_full in H. inversion H; subst. cbn.
  unfold sfree. cbn. repeat split; auto. lia.
Qed.
