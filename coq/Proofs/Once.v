(* C16 -- invariants of the syncutil.Once transition system (Model/Once.v), for
   every accepted trace: any number of callers, any interleaving, any
   cancellation pattern. *)
From Oras Require Import Base.Prelude Model.Once.

Lemma orun_app s tr1 tr2 :
  orun s (tr1 ++ tr2) = match orun s tr1 with Some s' => orun s' tr2 | None => None end.
Proof.
  revert s; induction tr1 as [|e tr1 IH]; intro s; simpl; auto.
  destruct (ostep s e); auto.
Qed.

Definition is_done (e : oevent) : bool := match e with ODone _ _ => true | _ => false end.
Definition done_count (tr : list oevent) : nat := length (filter is_done tr).

(* what a state says about the trace that led to it *)
Definition once_inv (s : ostate) (tr : list oevent) : Prop :=
  match s with
  | OClosed v =>
    done_count tr = 1%nat /\
    (forall g w, In (ODone g w) tr -> w = v) /\
    (forall g w, In (OReadClosed g w) tr -> w = v)
  | _ =>
    done_count tr = 0%nat /\ (forall g w, ~ In (OReadClosed g w) tr)
  end.

Lemma done_count_app tr e : done_count (tr ++ [e]) = (done_count tr + if is_done e then 1 else 0)%nat.
Proof.
  unfold done_count. rewrite filter_app, app_length. simpl. destruct (is_done e); simpl; lia.
Qed.

Lemma done_count_zero tr g w : done_count tr = 0%nat -> ~ In (ODone g w) tr.
Proof.
  unfold done_count. intros H Hin.
  assert (In (ODone g w) (filter is_done tr)) by (apply filter_In; auto).
  destruct (filter is_done tr); [auto | discriminate].
Qed.

Lemma once_inv_step s tr e s' : once_inv s tr -> ostep s e = Some s' -> once_inv s' (tr ++ [e]).
Proof.
  intros I St.
  destruct s as [|g0|v0]; destruct e as [g|g v|g|g v|g]; simpl in St; try discriminate;
    try (destruct (g0 =? g) eqn:Eg; try discriminate);
    try (destruct (v0 =? v) eqn:Ev; try discriminate);
    injection St as <-; simpl in *.
  all: try (destruct I as [D R]; rewrite done_count_app; simpl; split; [lia|];
            intros g' w Hin; apply in_app_iff in Hin as [Hin|[Hin|[]]]; [eapply R; eauto | discriminate]).
  - (* ODone: the result is published *)
    destruct I as [D R]. rewrite done_count_app. simpl. split; [lia|]. split.
    + intros g' w Hin. apply in_app_iff in Hin as [Hin|[Hin|[]]].
      * exfalso. eapply done_count_zero; eauto.
      * now injection Hin as _ <-.
    + intros g' w Hin. apply in_app_iff in Hin as [Hin|[Hin|[]]]; [|discriminate].
      exfalso. eapply R; eauto.
  - (* OReadClosed *)
    destruct I as (D & R1 & R2). rewrite done_count_app. simpl. split; [lia|]. split.
    + intros g' w Hin. apply in_app_iff in Hin as [Hin|[Hin|[]]]; [eauto | discriminate].
    + intros g' w Hin. apply in_app_iff in Hin as [Hin|[Hin|[]]]; [eauto|].
      injection Hin as _ <-. apply N.eqb_eq in Ev. auto.
  - (* OCtxDone in the closed state *)
    destruct I as (D & R1 & R2). rewrite done_count_app. simpl. split; [lia|]. split.
    + intros g' w Hin. apply in_app_iff in Hin as [Hin|[Hin|[]]]; [eauto | discriminate].
    + intros g' w Hin. apply in_app_iff in Hin as [Hin|[Hin|[]]]; [eauto | discriminate].
Qed.

Lemma once_inv_run tr : forall s, orun OTok tr = Some s -> once_inv s tr.
Proof.
  induction tr as [|e tr IH] using rev_ind; intros s R.
  - injection R as <-. simpl. split; auto.
  - rewrite orun_app in R. destruct (orun OTok tr) as [s0|] eqn:E; [|discriminate].
    simpl in R. destruct (ostep s0 e) as [s1|] eqn:St; [|discriminate]. injection R as <-.
    eapply once_inv_step; eauto.
Qed.

(* the function completes at most once, and everybody who receives a result
   receives that one *)
Lemma once_shared_result tr s :
  orun OTok tr = Some s ->
  (done_count tr <= 1)%nat /\
  (forall g v, In (OReadClosed g v) tr -> exists g', In (ODone g' v) tr) /\
  (forall g1 v1 g2 v2, In (ODone g1 v1) tr -> In (ODone g2 v2) tr -> v1 = v2) /\
  (forall g1 v1 g2 v2, In (OReadClosed g1 v1) tr -> In (OReadClosed g2 v2) tr -> v1 = v2).
Proof.
  intro R. pose proof (once_inv_run tr s R) as I.
  destruct s as [|g0|v0]; simpl in I.
  - destruct I as [D N]. repeat split; try lia.
    + intros g v Hin. exfalso. eapply N; eauto.
    + intros g1 v1 g2 v2 H1. exfalso. eapply done_count_zero; eauto.
    + intros g1 v1 g2 v2 H1. exfalso. eapply N; eauto.
  - destruct I as [D N]. repeat split; try lia.
    + intros g v Hin. exfalso. eapply N; eauto.
    + intros g1 v1 g2 v2 H1. exfalso. eapply done_count_zero; eauto.
    + intros g1 v1 g2 v2 H1. exfalso. eapply N; eauto.
  - destruct I as (D & R1 & R2). repeat split; try lia.
    + intros g v Hin. apply R2 in Hin. subst v.
      unfold done_count in D.
      destruct (filter is_done tr) as [|e l] eqn:F; [discriminate|].
      assert (He : In e (filter is_done tr)) by (rewrite F; now left).
      apply filter_In in He as [He Hd]. destruct e as [|g' w| | |]; try discriminate.
      exists g'. rewrite <- (R1 g' w He). exact He.
    + intros g1 v1 g2 v2 H1 H2. rewrite (R1 _ _ H1), (R1 _ _ H2). reflexivity.
    + intros g1 v1 g2 v2 H1 H2. rewrite (R2 _ _ H1), (R2 _ _ H2). reflexivity.
Qed.

(* once closed, nobody runs the function again *)
Lemma closed_forever v tr : forall s,
  orun (OClosed v) tr = Some s -> s = OClosed v /\ forall g, ~ In (OAcquire g) tr.
Proof.
  induction tr as [|e tr IH]; intros s R; simpl in R.
  - injection R as <-. split; auto.
  - destruct e as [g|g w|g|g w|g]; simpl in R; try discriminate.
    + destruct (v =? w); [|discriminate]. apply IH in R as [-> N]. split; auto.
      intros g' [H|H]; [discriminate | eapply N; eauto].
    + apply IH in R as [-> N]. split; auto.
      intros g' [H|H]; [discriminate | eapply N; eauto].
Qed.

(* at most one fetch in flight: a second caller can enter the function only after
   the first one handed it over through a cancellation *)
Lemma held_until_cancel g1 m : forall g2 q s,
  orun (OHeld g1) (m ++ OAcquire g2 :: q) = Some s -> In (OCancelF g1) m.
Proof.
  induction m as [|e m IH]; intros g2 q s R; simpl in R.
  - discriminate.
  - destruct e as [g|g w|g|g w|g]; simpl in R; try discriminate.
    + destruct (g1 =? g) eqn:E; [|discriminate].
      apply closed_forever in R as [_ N]. exfalso. apply (N g2). apply in_app_iff. right. now left.
    + destruct (g1 =? g) eqn:E; [|discriminate]. apply N.eqb_eq in E. subst. now left.
    + destruct (g1 =? g) eqn:E; [discriminate|]. right. eapply IH; eauto.
Qed.

Lemma one_in_flight p g1 m g2 q s :
  orun OTok (p ++ OAcquire g1 :: m ++ OAcquire g2 :: q) = Some s -> In (OCancelF g1) m.
Proof.
  rewrite orun_app. destruct (orun OTok p) as [s0|]; [|discriminate].
  simpl. destruct s0 as [|g0|v0]; simpl; try discriminate.
  apply held_until_cancel.
Qed.

(* a cancelled fetcher publishes nothing and hands the fetch over *)
Lemma cancel_hands_over g : ostep (OHeld g) (OCancelF g) = Some OTok.
Proof. simpl. now rewrite N.eqb_refl. Qed.

Lemma no_result_before_publication tr s :
  orun OTok tr = Some s -> (forall v, s <> OClosed v) -> forall g w, ~ In (OReadClosed g w) tr.
Proof.
  intros R N. pose proof (once_inv_run tr s R) as I.
  destruct s as [|g0|v0]; simpl in I; try tauto. exfalso. eapply N; eauto.
Qed.
