From Oras Require Import Base.Prelude Model.Once.
