(* C14 — linearisation, registry view and garbage invariants of the Merge
   transition system (Model/Merge.v), on top of the structural invariant of
   Proofs/Merge.v. *)
From Oras Require Import Base.Prelude Model.Referrers Proofs.Referrers Model.Merge Proofs.Merge.
From Coq Require Import Lia.

(* ---------- effect of one batch on the set view ---------- *)

Lemma member_after_app k b l1 l2 :
  member_after k b (l1 ++ l2) = member_after k (member_after k b l1) l2.
Proof. unfold member_after. apply fold_left_app. Qed.

Lemma member_after_zero cs : changes_nonempty cs -> member_after 0 false cs = false.
Proof.
  unfold member_after. induction cs as [|c t IH]; intro F; simpl; auto.
  inversion F as [|? ? Fc Ft]; subst.
  assert (E : member_step 0 false c = false).
  { destruct c as [d|d]; simpl in *; apply N.eqb_neq in Fc; now rewrite Fc. }
  rewrite E. auto.
Qed.

Lemma bool_eq_iff (a b : bool) : (a = true <-> b = true) -> a = b.
Proof. destruct a, b; intuition congruence. Qed.

Lemma apply_updated_effect old cs new :
  changes_nonempty cs -> apply_changes old cs = Updated new ->
  forall k, memb (Some new) k = member_after k (memb (Some old) k) cs.
Proof.
  intros F H k. apply apply_updated_spec in H; auto. subst new. unfold memb. simpl.
  destruct (k =? 0) eqn:E; simpl.
  - apply N.eqb_eq in E. subst k. now rewrite member_after_zero.
  - apply bool_eq_iff. rewrite has_key_In, spec_apply_member, E. reflexivity.
Qed.

Lemma apply_noupdate_effect old cs :
  changes_nonempty cs -> apply_changes old cs = NoUpdate ->
  forall k, memb (Some old) k = member_after k (memb (Some old) k) cs.
Proof.
  intros F H k. apply apply_noupdate_iff in H as [_ H]; auto. unfold memb. simpl.
  destruct (k =? 0) eqn:E; simpl.
  - apply N.eqb_eq in E. subst k. now rewrite member_after_zero.
  - apply bool_eq_iff. rewrite has_key_In, H, spec_apply_member, E. reflexivity.
Qed.

Lemma desc_eqb_true a b : desc_eqb a b = true -> a = b.
Proof.
  unfold desc_eqb. rewrite !andb_true_iff, !N.eqb_eq. intros [[A B] C].
  destruct a, b; simpl in *; congruence.
Qed.

Lemma desc_eqb_refl a : desc_eqb a a = true.
Proof. unfold desc_eqb. now rewrite !N.eqb_refl. Qed.

Lemma index_eqb_true a : forall b, index_eqb a b = true -> a = b.
Proof.
  induction a as [|x a IH]; intros [|y b] H; simpl in H; try discriminate; auto.
  apply andb_true_iff in H as [H1 H2]. apply desc_eqb_true in H1. apply IH in H2. congruence.
Qed.

Lemma index_eqb_refl a : index_eqb a a = true.
Proof. induction a; simpl; auto. now rewrite desc_eqb_refl. Qed.

Lemma apply_updated_neq old cs new :
  changes_nonempty cs -> apply_changes old cs = Updated new -> index_eqb new old = false.
Proof.
  intros F H. destruct (index_eqb new old) eqn:E; auto. apply index_eqb_true in E. subst new.
  pose proof (apply_updated_spec _ _ _ F H) as Hs.
  assert (Hn : apply_changes old cs = NoUpdate).
  { apply apply_noupdate_iff; auto. split.
    - rewrite Hs. now apply spec_apply_wf.
    - intro k. now rewrite <- Hs. }
  congruence.
Qed.

Lemma memb_none_nil k : memb None k = memb (Some []) k.
Proof. reflexivity. Qed.

(* ---------- the main caller's view of the registry cell ----------
   The index it fetched is still there, or it was an index without a single referrer
   that another tag's update deleted (EExtDrop): as a set nothing changed. *)
Definition droppable (o : option index) : Prop :=
  match o with Some x => forallb is_empty x = true | None => True end.
Definition view (r o : option index) : Prop := r = o \/ (r = None /\ droppable o).

Lemma empty_index_memb x k : forallb is_empty x = true -> memb (Some x) k = false.
Proof.
  intro H. unfold memb. simpl. destruct (k =? 0) eqn:E; simpl; auto.
  apply N.eqb_neq in E. destruct (has_key k x) eqn:Hk; auto. exfalso.
  apply has_key_In in Hk. unfold keys in Hk. apply in_map_iff in Hk as (d & Ed & Hd).
  rewrite forallb_forall in H. specialize (H d Hd). unfold is_empty in H. apply N.eqb_eq in H. congruence.
Qed.

Lemma view_memb r o k : view r o -> memb r k = memb o k.
Proof.
  intros [->|[-> D]]; auto. destruct o as [x|]; auto. simpl in D.
  pose proof (empty_index_memb x k D) as E. unfold memb in *. simpl in *. rewrite E. now rewrite andb_false_r.
Qed.

Lemma view_refl r : view r r.
Proof. now left. Qed.

Lemma view_drop x o : forallb is_empty x = true -> view (Some x) o -> view None o.
Proof. intros H [<-|[E _]]; [right; split; auto|discriminate]. Qed.

Lemma view_some r x o : r = Some x -> view r o -> o = Some x.
Proof. intros -> [<-|[E _]]; [reflexivity|discriminate]. Qed.

(* ---------- the invariant ---------- *)
Record InvV (reg0 : option index) (s : state) : Prop := {
  v_idle : forall t, In t (lin s) -> pcs s t <> Idle /\ (forall c, pcs s t <> Got c);
  v_wait : forall t, pcs s t = Wait -> (In t (lin s) <-> In t (batch s) /\ applied s = true);
  v_main : forall t, is_main (pcs s t) = true ->
      (In t (lin s) <-> applied s = true) /\ flag (pcs s t) = applied s;
  v_ret : forall t r, pcs s t = Ret r \/ pcs s t = Done r -> (In t (lin s) <-> r <> RErr);
  v_nd : NoDup (lin s);
  v_set : forall k, memb (reg s) k = member_after k (memb reg0 k) (map (arg s) (lin s));
  v_ne_got : forall t c, pcs s t = Got c -> dkey (cdesc c) <> 0;
  v_ne_items : forall t c, In (t, c) (items s) -> dkey (cdesc c) <> 0;
  v_ne_pend : forall t c, In (t, c) (pending s) -> dkey (cdesc c) <> 0;
  n_prepared : forall t o, pcs s t = Prepared (Some o) -> view (reg s) o;
  n_put : forall t new o, pcs s t = NeedPut new o ->
      view (reg s) o /\ apply_changes (idx o) (map snd (items s)) = Updated new;
  n_del0 : forall t oi, pcs s t = NeedDel oi false ->
      view (reg s) (Some oi) /\ apply_changes oi (map snd (items s)) = Updated [];
  n_del1 : forall t oi, pcs s t = NeedDel oi true ->
      exists new, view (reg s) (Some new) /\ index_eqb new oi = false;
  g_store : forall x, In x (store s) ->
      reg s = Some x \/ In x (junk s) \/ exists t a, pcs s t = NeedDel x a
}.

Lemma invV_init r0 st0 : InvV r0 (init r0 st0).
Proof.
  constructor; simpl; intros; try discriminate; try tauto; try (now constructor); auto.
  - destruct H; discriminate.
  - destruct (is_cur r0 x) eqn:E.
    + left. unfold is_cur in E. destruct r0 as [c|]; [|discriminate]. apply index_eqb_true in E. now subst.
    + right; left. apply filter_In. split; auto. now rewrite E.
Qed.

Ltac solveV t :=
  intros;
  repeat match goal with
         | H : context [upd _ t _ ?x] |- _ => tcase x t
         | |- context [upd _ t _ ?x] => tcase x t
         end;
  simpl in *; inst; fin.

Lemma map_arg_upd s t c l : ~ In t l -> map (upd (arg s) t c) l = map (arg s) l.
Proof.
  intro H. apply map_ext_in. intros x Hx. rewrite upd_neq; auto. intro; subst; auto.
Qed.

Lemma g_keep s t p x :
  (forall oi a, pcs s t <> NeedDel oi a) ->
  (reg s = Some x \/ In x (junk s) \/ exists t0 a, pcs s t0 = NeedDel x a) ->
  reg s = Some x \/ In x (junk s) \/ exists t0 a, upd (pcs s) t p t0 = NeedDel x a.
Proof.
  intros Hn [H|[H|(t0 & a & H)]]; auto. right; right. exists t0, a.
  rewrite upd_neq; auto. intro; subst. eapply Hn; eauto.
Qed.

Ltac gkeep t :=
  solve [intros x Hx; apply g_keep; [intros ? ?; match goal with Hq : pcs _ t = _ |- _ => rewrite Hq; discriminate end | eauto]].

Lemma stepV_get sg r0 s t c s' :
  InvS s -> InvV r0 s -> step sg s (EGet t c) = Some s' -> InvV r0 s'.
Proof.
  intros I V H. simpl in H.
  destruct (pcs s t) eqn:Hpc; try discriminate.
  destruct (is_empty (cdesc c)) eqn:Hne0; try discriminate.
  assert (Hnl : ~ In t (lin s)).
  { intro Hx. destruct (v_idle _ _ V t Hx). congruence. }
  assert (Hnb : ~ In t (batch s)) by (apply not_in_batch; auto; rewrite Hpc; [discriminate|reflexivity]).
  assert (Hk : dkey (cdesc c) <> 0) by (unfold is_empty in Hne0; now apply N.eqb_neq).
  destruct (pool s) as [rc|] eqn:Hpool; injection H as <-.
  - destruct V. constructor; simpl; rewrite ?map_arg_upd by auto.
    all: try solve [solveV t | gkeep t].
  - destruct (pool_none s I Hpool) as (Hh & Hi & Hpd).
    destruct (i_nomain s I Hi) as (Ht & Hc & _ & Ha).
    destruct V. unfold batch in *. rewrite Hi, Ha in *.
    constructor; simpl; rewrite ?map_arg_upd by auto.
    all: try solve [solveV t | gkeep t].
Qed.

Lemma stepV_assign sg r0 s t s' :
  InvS s -> InvV r0 s -> step sg s (EAssign t) = Some s' -> InvV r0 s'.
Proof.
  intros I V H. simpl in H.
  destruct (pcs s t) eqn:Hpc; try discriminate.
  assert (Hnl : ~ In t (lin s)).
  { intro Hx. destruct (v_idle _ _ V t Hx) as [_ Hy]. eapply Hy; eauto. }
  assert (Hnb : ~ In t (batch s)) by (apply not_in_batch; auto; rewrite Hpc; [discriminate|reflexivity]).
  assert (Hk : dkey (cdesc c) <> 0) by (eapply v_ne_got; eauto).
  destruct (committed s) eqn:Hc; injection H as <-.
  - destruct V. constructor; simpl.
    all: try solve [solveV t | gkeep t].
  - assert (Ha : applied s = false).
    { destruct (applied s) eqn:E; auto. apply (i_applied s I) in E. congruence. }
    assert (Hnpc : forall t0, post_commit (pcs s t0) = false).
    { intro t0. destruct (post_commit (pcs s t0)) eqn:E; auto. apply (i_committed s I) in E. congruence. }
    destruct V. constructor; simpl.
    all: try solve [solveV t | gkeep t].
    all: try solve [intros t0 a b Hx; tcase t0 t; [discriminate|]; exfalso;
                    specialize (Hnpc t0); rewrite Hx in Hnpc; discriminate].
    all: try solve [intros t0 a Hx; tcase t0 t; [discriminate|]; exfalso;
                    specialize (Hnpc t0); rewrite Hx in Hnpc; discriminate].
    intros t0 Hx. rewrite Ha. split; [intro Hl|intros [_ E]; discriminate]. exfalso.
    tcase t0 t; [auto|]. apply v_wait0 in Hx. apply Hx in Hl. destruct Hl; congruence.
Qed.

Lemma stepV_recv sg r0 s t s' :
  InvS s -> InvV r0 s -> step sg s (ERecvMain t) = Some s' -> InvV r0 s'.
Proof.
  intros I V H. simpl in H.
  destruct (pcs s t) eqn:Hpc; try discriminate.
  destruct (token s) eqn:Htok; simpl in H; try discriminate.
  destruct (mem t (batch s)) eqn:Hmem; try discriminate. injection H as <-.
  apply mem_In in Hmem.
  destruct (i_token s I Htok) as [Hni Hcm].
  assert (Ha : applied s = false).
  { destruct (applied s) eqn:E; auto. apply (i_applied s I) in E. congruence. }
  destruct V. constructor; simpl.
  all: try solve [solveV t | gkeep t].
  intros t0 Hx. tcase t0 t.
  - simpl. rewrite Ha. split; [|reflexivity]. split; [|discriminate].
    intro Hl. apply v_wait0 in Hl; auto. destruct Hl; congruence.
  - destruct (i_main_in s I t0 Hx). congruence.
Qed.

Lemma stepV_prepare sg r0 s t f s' :
  InvS s -> InvV r0 s -> step sg s (EPrepare t f) = Some s' -> InvV r0 s'.
Proof.
  intros I V H. simpl in H.
  destruct (pcs s t) eqn:Hpc; try discriminate. injection H as <-.
  assert (Hm : is_main (pcs s t) = true) by (rewrite Hpc; reflexivity).
  destruct (v_main _ _ V t Hm) as [Hl Hf]. rewrite Hpc in Hf. simpl in Hf.
  destruct V. constructor; unfold set_pc; simpl.
  all: try solve [solveV t | gkeep t].
  intros t0 o Hx. tcase t0 t; [|eauto]. destruct f; [discriminate|]. injection Hx as <-. apply view_refl.
Qed.

Lemma stepV_done sg r0 s t s' :
  InvS s -> InvV r0 s -> step sg s (EDone t) = Some s' -> InvV r0 s'.
Proof.
  intros I V H. simpl in H.
  destruct (pcs s t) as [|c0| | |o|nw o|oi ap|r|r|r] eqn:Hpc; try discriminate.
  destruct (pool s) as [rc|] eqn:Hpool; try discriminate. injection H as <-.
  destruct V. constructor; simpl.
  all: try solve [solveV t | gkeep t].
  intros t0 r1 Hx. tcase t0 t; [|eauto]. destruct Hx as [Hx|Hx]; [discriminate|]. injection Hx as <-. eauto.
Qed.

Lemma NoDup_app_disj {A} (l1 l2 : list A) :
  NoDup l1 -> NoDup l2 -> (forall x, In x l1 -> ~ In x l2) -> NoDup (l1 ++ l2).
Proof.
  induction l1 as [|h t IH]; simpl; intros N1 N2 D; auto.
  inversion N1 as [|? ? Hn Hd]; subst. constructor.
  - rewrite in_app_iff. intros [H|H]; [auto|]. eapply D; eauto.
  - apply IH; auto.
Qed.

Lemma map_arg_batch s : InvS s -> map (arg s) (batch s) = map snd (items s).
Proof.
  intro I. unfold batch. rewrite map_map. apply map_ext_in. intros [t c] Hin. simpl.
  now destruct (i_items s I t c Hin).
Qed.

Definition view_ok (s : state) (p : pc) (r' : option index) : Prop :=
  (forall o, p = Prepared (Some o) -> view r' o) /\
  (forall new o, p = NeedPut new o -> view r' o /\ apply_changes (idx o) (map snd (items s)) = Updated new) /\
  (forall oi, p = NeedDel oi false -> view r' (Some oi) /\ apply_changes oi (map snd (items s)) = Updated []) /\
  (forall oi, p = NeedDel oi true -> exists new, view r' (Some new) /\ index_eqb new oi = false).

Section MainStep.
  Variables (r0 : option index) (s : state) (t : tid) (p : pc) (cm : bool)
            (r' : option index) (st' j' : list index).
  Hypothesis I : InvS s.
  Hypothesis V : InvV r0 s.
  Hypothesis Hm : is_main (pcs s t) = true.
  Hypothesis Hp : is_main p = true.
  Hypothesis Hview : view_ok s p r'.
  Hypothesis Hstore : forall x, In x st' -> r' = Some x \/ In x j' \/ exists a, p = NeedDel x a.

  Let Hu : forall x, is_main (pcs s x) = true -> x = t.
  Proof. intros x Hx. eapply (i_main_unique s I); eauto. Qed.

  Let Htb : In t (batch s).
  Proof. now destruct (i_main_in s I t Hm). Qed.

  Lemma other_not_main x : x <> t -> is_main (pcs s x) = false.
  Proof. intro Hne. destruct (is_main (pcs s x)) eqn:E; auto. apply Hu in E. congruence. Qed.

  Lemma invV_main_apply :
    applied s = false -> flag p = true ->
    (forall k, memb r' k = member_after k (memb (reg s) k) (map snd (items s))) ->
    InvV r0 (mkSt (pool s) cm (items s) (token s) (pending s) (upd (pcs s) t p) r' st'
                  (arg s) (lin s ++ batch s) j' true).
  Proof.
    intros Ha Hf Hset. destruct Hview as (W1 & W2 & W3 & W4).
    assert (Hdisj : forall x, In x (lin s) -> ~ In x (batch s)).
    { intros x Hl Hb. destruct (batch_member s x I Hb) as [E|E].
      - apply (v_wait _ _ V) in E. apply E in Hl. destruct Hl; congruence.
      - apply (v_main _ _ V) in E. destruct E as [E _]. apply E in Hl. congruence. }
    constructor; simpl.
    - intros x Hx. apply in_app_iff in Hx. tcase x t.
      + split; [|intro c]; intro E; rewrite E in Hp; discriminate.
      + destruct Hx as [Hx|Hx]; [now apply (v_idle _ _ V)|].
        destruct (batch_member s x I Hx) as [E|E]; [rewrite E; split; [|intro]; discriminate|].
        rewrite other_not_main in E by auto. discriminate.
    - intros x Hx. tcase x t; [rewrite Hx in Hp; discriminate|]. rewrite in_app_iff. split.
      + intros [Hl|Hb]; [|tauto]. apply (v_wait _ _ V) in Hx. apply Hx in Hl. tauto.
      + intros [Hb _]. auto.
    - intros x Hx. tcase x t.
      + split; [|auto]. rewrite in_app_iff. tauto.
      + rewrite other_not_main in Hx by auto. discriminate.
    - intros x r Hx. tcase x t; [destruct Hx as [Hx|Hx]; rewrite Hx in Hp; discriminate|].
      rewrite in_app_iff. rewrite <- (v_ret _ _ V x r Hx). split; [|tauto].
      intros [Hl|Hb]; auto. exfalso.
      destruct (batch_member s x I Hb) as [E|E]; [destruct Hx; congruence|].
      rewrite other_not_main in E by auto. discriminate.
    - apply NoDup_app_disj; auto; [apply (v_nd _ _ V)|apply (i_items_nd s I)].
    - intro k. rewrite map_app, member_after_app, map_arg_batch by auto.
      rewrite <- (v_set _ _ V k). apply Hset.
    - intros x c Hx. tcase x t; [rewrite Hx in Hp; discriminate|]. eapply (v_ne_got _ _ V); eauto.
    - apply (v_ne_items _ _ V).
    - apply (v_ne_pend _ _ V).
    - intros x o Hx. tcase x t; [auto|]. exfalso. pose proof (other_not_main x Hne) as E. rewrite Hx in E. discriminate.
    - intros x new o Hx. tcase x t; [auto|]. exfalso. pose proof (other_not_main x Hne) as E. rewrite Hx in E. discriminate.
    - intros x oi Hx. tcase x t; [auto|]. exfalso. pose proof (other_not_main x Hne) as E. rewrite Hx in E. discriminate.
    - intros x oi Hx. tcase x t; [auto|]. exfalso. pose proof (other_not_main x Hne) as E. rewrite Hx in E. discriminate.
    - intros x Hx. destruct (Hstore x Hx) as [H|[H|(a & H)]]; auto.
      right; right. exists t, a. now rewrite upd_eq.
  Qed.

  Lemma invV_main_keep :
    flag p = applied s -> (forall k, memb r' k = memb (reg s) k) ->
    InvV r0 (mkSt (pool s) cm (items s) (token s) (pending s) (upd (pcs s) t p) r' st'
                  (arg s) (lin s) j' (applied s)).
  Proof.
    intros Hf Hset. destruct Hview as (W1 & W2 & W3 & W4).
    constructor; simpl.
    - intros x Hx. tcase x t.
      + split; [|intro c]; intro E; rewrite E in Hp; discriminate.
      + now apply (v_idle _ _ V).
    - intros x Hx. tcase x t; [rewrite Hx in Hp; discriminate|]. now apply (v_wait _ _ V).
    - intros x Hx. tcase x t.
      + split; [|auto]. now apply (v_main _ _ V).
      + rewrite other_not_main in Hx by auto. discriminate.
    - intros x r Hx. tcase x t; [destruct Hx as [Hx|Hx]; rewrite Hx in Hp; discriminate|].
      now apply (v_ret _ _ V).
    - apply (v_nd _ _ V).
    - intro k. rewrite Hset. apply (v_set _ _ V).
    - intros x c Hx. tcase x t; [rewrite Hx in Hp; discriminate|]. eapply (v_ne_got _ _ V); eauto.
    - apply (v_ne_items _ _ V).
    - apply (v_ne_pend _ _ V).
    - intros x o Hx. tcase x t; [auto|]. exfalso. pose proof (other_not_main x Hne) as E. rewrite Hx in E. discriminate.
    - intros x new o Hx. tcase x t; [auto|]. exfalso. pose proof (other_not_main x Hne) as E. rewrite Hx in E. discriminate.
    - intros x oi Hx. tcase x t; [auto|]. exfalso. pose proof (other_not_main x Hne) as E. rewrite Hx in E. discriminate.
    - intros x oi Hx. tcase x t; [auto|]. exfalso. pose proof (other_not_main x Hne) as E. rewrite Hx in E. discriminate.
    - intros x Hx. destruct (Hstore x Hx) as [H|[H|(a & H)]]; auto.
      right; right. exists t, a. now rewrite upd_eq.
  Qed.
End MainStep.

Lemma items_nonempty r0 s : InvV r0 s -> changes_nonempty (map snd (items s)).
Proof.
  intro V. unfold changes_nonempty. apply Forall_forall. intros c Hc.
  apply in_map_iff in Hc as ((t, c') & E & Hin). simpl in E. subst c'. eapply (v_ne_items _ _ V); eauto.
Qed.

Lemma store_cases r0 s t : InvS s -> InvV r0 s -> is_main (pcs s t) = true ->
  forall x, In x (store s) -> reg s = Some x \/ In x (junk s) \/ exists a, pcs s t = NeedDel x a.
Proof.
  intros I V Hm x Hx. destruct (g_store _ _ V x Hx) as [H|[H|(t0 & a & H)]]; auto.
  right; right. exists a. assert (t0 = t); [|subst; auto].
  eapply (i_main_unique s I); eauto. rewrite H. reflexivity.
Qed.

Ltac view_triv := unfold view_ok; repeat split; intros; try discriminate.

Lemma stepV_commit sg r0 s t s' :
  InvS s -> InvV r0 s -> step sg s (ECommit t) = Some s' -> InvV r0 s'.
Proof.
  intros I V H. simpl in H.
  destruct (pcs s t) as [|c0| | |old|nw o|oi ap|r|r|r] eqn:Hpc; try discriminate.
  assert (Hm : is_main (pcs s t) = true) by (rewrite Hpc; reflexivity).
  destruct (v_main _ _ V t Hm) as [_ Ha]. rewrite Hpc in Ha. simpl in Ha. symmetry in Ha.
  pose proof (items_nonempty _ _ V) as Hne.
  pose proof (store_cases _ _ _ I V Hm) as Hst.
  assert (Hst' : forall x, In x (store s) -> reg s = Some x \/ In x (junk s)).
  { intros x Hx. destruct (Hst x Hx) as [E|[E|(a & E)]]; auto. congruence. }
  destruct old as [o|].
  - assert (Hr : view (reg s) o) by (eapply (n_prepared _ _ V); eauto).
    assert (Hrm : forall k, memb (reg s) k = memb o k) by (intro k; now apply view_memb).
    destruct (apply_changes (idx o) (map snd (items s))) as [|new] eqn:Ea.
    + injection H as <-. unfold set_pc, add_lin, set_committed, batch; simpl; fold (batch s).
      apply invV_main_apply; auto.
      * view_triv.
      * intros x Hx. destruct (Hst' x Hx); auto.
      * intro k. rewrite Hrm. apply (apply_noupdate_effect (idx o)); auto.
    + destruct (negb (is_nil new) || sg) eqn:Epush.
      * injection H as <-. unfold set_pc, set_committed; simpl.
        apply invV_main_keep; auto; try (simpl; rewrite Ha; reflexivity).
        -- view_triv. injection H as <- <-. auto. injection H as <- <-. auto.
        -- intros x Hx. destruct (Hst' x Hx); auto.
      * apply orb_false_iff in Epush as [En Esg]. apply negb_false_iff in En.
        destruct new; [|discriminate].
        destruct o as [oi|]; injection H as <-.
        -- unfold set_pc, set_committed; simpl.
           apply invV_main_keep; auto; try (simpl; rewrite Ha; reflexivity).
           ++ view_triv. injection H as <-. auto. injection H as <-. auto.
           ++ intros x Hx. destruct (Hst' x Hx); auto.
        -- unfold set_pc, add_lin, set_committed, batch; simpl; fold (batch s).
           apply invV_main_apply; auto.
           ++ view_triv.
           ++ intros x Hx. destruct (Hst' x Hx); auto.
           ++ intro k. rewrite Hrm. apply (apply_updated_effect [] _ [] Hne Ea).
  - injection H as <-. unfold set_pc, set_committed; simpl.
    apply invV_main_keep; auto; try (simpl; rewrite Ha; reflexivity).
    + view_triv.
    + intros x Hx. destruct (Hst' x Hx); auto.
Qed.

Lemma stepV_put sg r0 s t f s' :
  InvS s -> InvV r0 s -> step sg s (EPut t f) = Some s' -> InvV r0 s'.
Proof.
  intros I V H. simpl in H.
  destruct (pcs s t) as [|c0| | |old|nw o|oi ap|r|r|r] eqn:Hpc; try discriminate.
  assert (Hm : is_main (pcs s t) = true) by (rewrite Hpc; reflexivity).
  destruct (v_main _ _ V t Hm) as [_ Ha]. rewrite Hpc in Ha. simpl in Ha. symmetry in Ha.
  pose proof (items_nonempty _ _ V) as Hne.
  pose proof (store_cases _ _ _ I V Hm) as Hst.
  assert (Hst' : forall x, In x (store s) -> reg s = Some x \/ In x (junk s)).
  { intros x Hx. destruct (Hst x Hx) as [E|[E|(a & E)]]; auto. congruence. }
  destruct (n_put _ _ V t nw o Hpc) as [Hr Hap].
  destruct f; injection H as <-.
  - unfold set_pc; simpl. apply invV_main_keep; auto; try (simpl; rewrite Ha; reflexivity).
    + view_triv.
    + intros x Hx. destruct (Hst' x Hx); auto.
  - unfold set_pc, add_lin, set_reg, batch; simpl; fold (batch s).
    apply invV_main_apply; auto.
    + unfold after_put. destruct sg; [reflexivity|]. destruct o; reflexivity.
    + unfold after_put. destruct sg; [view_triv|]. destruct o as [oi|]; [|view_triv].
      view_triv. injection H as <-. exists nw. split; [apply view_refl|].
      apply (apply_updated_neq oi _ nw Hne Hap).
    + intros x [<-|Hx]; auto. destruct (Hst' x Hx) as [E|E].
      * pose proof (view_some _ _ _ E Hr) as Eo. subst o. unfold after_put. destruct sg; [right; left; now left|].
        right; right. eauto.
      * right; left. destruct sg; auto. destruct o; simpl; auto.
    + unfold after_put. destruct sg; [reflexivity|]. destruct o; reflexivity.
    + intro k. rewrite (view_memb _ _ k Hr). apply (apply_updated_effect (idx o) _ nw Hne Hap).
Qed.

Lemma stepV_putlost sg r0 s t s' :
  InvS s -> InvV r0 s -> step sg s (EPutLost t) = Some s' -> InvV r0 s'.
Proof.
  intros I V H. simpl in H.
  destruct (pcs s t) as [|c0| | |old|nw o|oi ap|r|r|r] eqn:Hpc; try discriminate.
  assert (Hm : is_main (pcs s t) = true) by (rewrite Hpc; reflexivity).
  destruct (v_main _ _ V t Hm) as [_ Ha]. rewrite Hpc in Ha. simpl in Ha. symmetry in Ha.
  pose proof (items_nonempty _ _ V) as Hne.
  pose proof (store_cases _ _ _ I V Hm) as Hst.
  assert (Hst' : forall x, In x (store s) -> reg s = Some x \/ In x (junk s)).
  { intros x Hx. destruct (Hst x Hx) as [E|[E|(a & E)]]; auto. congruence. }
  destruct (n_put _ _ V t nw o Hpc) as [Hr Hap].
  injection H as <-.
  unfold set_pc, add_lin, set_reg, batch; simpl; fold (batch s).
  apply invV_main_apply; auto.
  - view_triv.
  - intros x [<-|Hx]; auto. destruct (Hst' x Hx) as [E|E].
    + pose proof (view_some _ _ _ E Hr) as Eo. subst o. right; left; now left.
    + right; left. destruct o; simpl; auto.
  - intro k. rewrite (view_memb _ _ k Hr). apply (apply_updated_effect (idx o) _ nw Hne Hap).
Qed.

Lemma stepV_del sg r0 s t f s' :
  InvS s -> InvV r0 s -> step sg s (EDel t f) = Some s' -> InvV r0 s'.
Proof.
  intros I V H. simpl in H.
  destruct (pcs s t) as [|c0| | |old|nw o|oi ap|r|r|r] eqn:Hpc; try discriminate.
  assert (Hm : is_main (pcs s t) = true) by (rewrite Hpc; reflexivity).
  destruct (v_main _ _ V t Hm) as [_ Ha]. rewrite Hpc in Ha. simpl in Ha. symmetry in Ha.
  pose proof (items_nonempty _ _ V) as Hne.
  pose proof (store_cases _ _ _ I V Hm) as Hst.
  destruct f; injection H as <-.
  - unfold set_pc, set_reg; simpl. apply invV_main_keep; auto.
    + view_triv.
    + intros x Hx. destruct (Hst x Hx) as [E|[E|(a & E)]]; auto.
      * right; left. now right.
      * rewrite Hpc in E. injection E as <- _. right; left. now left.
    + rewrite Ha. destruct ap; reflexivity.
  - destruct ap.
    + destruct (n_del1 _ _ V t oi Hpc) as (new & Hv & Hneq).
      assert (Hstore : forall r', r' = reg s -> forall x,
                In x (filter (fun x0 => negb (index_eqb x0 oi)) (store s)) ->
                r' = Some x \/ In x (junk s) \/ exists a, Completing ROk = NeedDel x a).
      { intros r' -> x Hx. apply filter_In in Hx as [Hx Hx2]. apply negb_true_iff in Hx2.
        destruct (Hst x Hx) as [E|[E|(a & E)]]; auto.
        rewrite Hpc in E. injection E as <- _. rewrite index_eqb_refl in Hx2. discriminate. }
      destruct Hv as [Hr|[Hr Hd]]; unfold set_pc, set_reg; simpl; rewrite Hr; rewrite ?Hneq;
        (apply invV_main_keep; auto).
      all: try solve [view_triv].
      all: try solve [intros x Hx; exact (Hstore _ (eq_sym Hr) x Hx)].
      all: try solve [intro k; now rewrite Hr].
    + destruct (n_del0 _ _ V t oi Hpc) as (Hv & Hap).
      assert (Hstore : forall x,
                In x (filter (fun x0 => negb (index_eqb x0 oi)) (store s)) ->
                None = Some x \/ In x (junk s) \/ exists a, Completing ROk = NeedDel x a).
      { intros x Hx. apply filter_In in Hx as [Hx Hx2]. apply negb_true_iff in Hx2.
        destruct (Hst x Hx) as [E|[E|(a & E)]]; auto.
        - pose proof (view_some _ _ _ E Hv) as Eo. injection Eo as <-. rewrite index_eqb_refl in Hx2. discriminate.
        - rewrite Hpc in E. injection E as <- _. rewrite index_eqb_refl in Hx2. discriminate. }
      assert (Hset : forall k, memb None k = member_after k (memb (reg s) k) (map snd (items s))).
      { intro k. rewrite (view_memb _ _ k Hv). apply (apply_updated_effect oi _ [] Hne Hap). }
      destruct Hv as [Hr|[Hr Hd]]; unfold set_pc, add_lin, set_reg, batch; simpl; fold (batch s);
        rewrite Hr; rewrite ?index_eqb_refl;
        (apply invV_main_apply; auto; view_triv).
Qed.

Lemma stepV_dellost sg r0 s t s' :
  InvS s -> InvV r0 s -> step sg s (EDelLost t) = Some s' -> InvV r0 s'.
Proof.
  intros I V H. simpl in H.
  destruct (pcs s t) as [|c0| | |old|nw o|oi ap|r|r|r] eqn:Hpc; try discriminate.
  assert (Hm : is_main (pcs s t) = true) by (rewrite Hpc; reflexivity).
  destruct (v_main _ _ V t Hm) as [_ Ha]. rewrite Hpc in Ha. simpl in Ha. symmetry in Ha.
  pose proof (items_nonempty _ _ V) as Hne.
  pose proof (store_cases _ _ _ I V Hm) as Hst.
  injection H as <-. destruct ap.
    + destruct (n_del1 _ _ V t oi Hpc) as (new & Hv & Hneq).
      assert (Hstore : forall r', r' = reg s -> forall x,
                In x (filter (fun x0 => negb (index_eqb x0 oi)) (store s)) ->
                r' = Some x \/ In x (junk s) \/ exists a, Completing RIdxDel = NeedDel x a).
      { intros r' -> x Hx. apply filter_In in Hx as [Hx Hx2]. apply negb_true_iff in Hx2.
        destruct (Hst x Hx) as [E|[E|(a & E)]]; auto.
        rewrite Hpc in E. injection E as <- _. rewrite index_eqb_refl in Hx2. discriminate. }
      destruct Hv as [Hr|[Hr Hd]]; unfold set_pc, set_reg; simpl; rewrite Hr; rewrite ?Hneq;
        (apply invV_main_keep; auto).
      all: try solve [view_triv].
      all: try solve [intros x Hx; exact (Hstore _ (eq_sym Hr) x Hx)].
      all: try solve [intro k; now rewrite Hr].
    + destruct (n_del0 _ _ V t oi Hpc) as (Hv & Hap).
      assert (Hstore : forall x,
                In x (filter (fun x0 => negb (index_eqb x0 oi)) (store s)) ->
                None = Some x \/ In x (junk s) \/ exists a, Completing RLost = NeedDel x a).
      { intros x Hx. apply filter_In in Hx as [Hx Hx2]. apply negb_true_iff in Hx2.
        destruct (Hst x Hx) as [E|[E|(a & E)]]; auto.
        - pose proof (view_some _ _ _ E Hv) as Eo. injection Eo as <-. rewrite index_eqb_refl in Hx2. discriminate.
        - rewrite Hpc in E. injection E as <- _. rewrite index_eqb_refl in Hx2. discriminate. }
      assert (Hset : forall k, memb None k = member_after k (memb (reg s) k) (map snd (items s))).
      { intro k. rewrite (view_memb _ _ k Hv). apply (apply_updated_effect oi _ [] Hne Hap). }
      destruct Hv as [Hr|[Hr Hd]]; unfold set_pc, add_lin, set_reg, batch; simpl; fold (batch s);
        rewrite Hr; rewrite ?index_eqb_refl;
        (apply invV_main_apply; auto; view_triv).
Qed.

Lemma flag_completing r b : flag (Completing r) = b -> (b = true <-> r <> RErr).
Proof. destruct r; simpl; intros <-; split; congruence. Qed.

Lemma stepV_complete sg r0 s t s' :
  InvS s -> InvV r0 s -> step sg s (EComplete t) = Some s' -> InvV r0 s'.
Proof.
  intros I V H. simpl in H.
  destruct (pcs s t) as [|c0| | |old|nw o|oi ap|r|r|r] eqn:Hpc; try discriminate. injection H as <-.
  fold (complete_pcs s t r).
  assert (Hm : is_main (pcs s t) = true) by (rewrite Hpc; reflexivity).
  destruct (v_main _ _ V t Hm) as [Hl Hf]. rewrite Hpc in Hf. apply flag_completing in Hf.
  assert (Hu : forall x, is_main (pcs s x) = true -> x = t) by (intros x Hx; eapply (i_main_unique s I); eauto).
  assert (Hnotmain : forall x p, x <> t -> pcs s x = p -> is_main p = true -> False).
  { intros x p Hne E Hx. subst p. apply Hu in Hx. auto. }
  constructor; simpl.
  - intros x Hx. destruct (complete_pcs_cases s t r x) as [[_ E]|(_ & _ & E)]; rewrite E.
    + split; [|intro]; discriminate.
    + now apply (v_idle _ _ V).
  - intros x Hx. destruct (complete_pcs_cases s t r x) as [[_ E]|(A & B & E)]; rewrite E in Hx; [discriminate|].
    split; [|intros [_ ?]; discriminate]. intro Hin. apply (v_wait _ _ V x Hx) in Hin. tauto.
  - intros x Hx. exfalso.
    destruct (complete_pcs_cases s t r x) as [[_ E]|(A & B & E)]; rewrite E in Hx; [discriminate|]. eauto.
  - intros x r1 Hx. destruct (complete_pcs_cases s t r x) as [[A E]|(A & B & E)]; rewrite E in Hx.
    + assert (r1 = r) by (destruct Hx as [Hx|Hx]; congruence). subst r1.
      destruct (Nat.eq_dec x t) as [->|Hne]; [tauto|].
      destruct A as [A|A]; [congruence|].
      destruct (batch_member s x I A) as [Ew|Em]; [|apply Hu in Em; congruence].
      rewrite (v_wait _ _ V x Ew). tauto.
    + now apply (v_ret _ _ V).
  - apply (v_nd _ _ V).
  - apply (v_set _ _ V).
  - intros x c Hx. destruct (complete_pcs_cases s t r x) as [[_ E]|(_ & _ & E)]; rewrite E in Hx; [discriminate|].
    eapply (v_ne_got _ _ V); eauto.
  - apply (v_ne_pend _ _ V).
  - intros x c [].
  - intros x o Hx. exfalso.
    destruct (complete_pcs_cases s t r x) as [[_ E]|(A & B & E)]; rewrite E in Hx; [discriminate|]. eapply Hnotmain; eauto.
  - intros x new o Hx. exfalso.
    destruct (complete_pcs_cases s t r x) as [[_ E]|(A & B & E)]; rewrite E in Hx; [discriminate|]. eapply Hnotmain; eauto.
  - intros x oi Hx. exfalso.
    destruct (complete_pcs_cases s t r x) as [[_ E]|(A & B & E)]; rewrite E in Hx; [discriminate|]. eapply Hnotmain; eauto.
  - intros x oi Hx. exfalso.
    destruct (complete_pcs_cases s t r x) as [[_ E]|(A & B & E)]; rewrite E in Hx; [discriminate|]. eapply Hnotmain; eauto.
  - intros x Hx. destruct (store_cases _ _ _ I V Hm x Hx) as [E|[E|(a & E)]]; auto. congruence.
Qed.

Lemma stepV_extdrop sg r0 s s' :
  InvV r0 s -> step sg s EExtDrop = Some s' -> InvV r0 s'.
Proof.
  intros V H. simpl in H. destruct (reg s) as [x|] eqn:Er; [|discriminate].
  destruct (forallb is_empty x) eqn:Ex; [|discriminate]. injection H as <-.
  destruct V. constructor; unfold set_reg; simpl; auto.
  - intro k. rewrite <- v_set0. rewrite ?Er. exact (view_memb None (Some x) k (or_intror (conj eq_refl Ex))).
  - intros t o Hx. pose proof (n_prepared0 t o Hx) as Hv. rewrite Er in Hv. now apply (view_drop x).
  - intros t new o Hx. destruct (n_put0 t new o Hx) as [Hv B]. rewrite Er in Hv. split; auto.
    now apply (view_drop x).
  - intros t oi Hx. destruct (n_del2 t oi Hx) as [Hv B]. rewrite Er in Hv. split; auto.
    now apply (view_drop x).
  - intros t oi Hx. destruct (n_del3 t oi Hx) as (new & Hv & B). rewrite Er in Hv. exists new. split; auto.
    now apply (view_drop x).
  - intros y Hy. apply filter_In in Hy as [Hy Hy2]. apply negb_true_iff in Hy2.
    destruct (g_store0 y Hy) as [E|[E|E]]; auto.
    rewrite ?Er in E. injection E as <-. rewrite index_eqb_refl in Hy2. discriminate.
Qed.

Lemma stepV sg r0 s e s' : InvS s -> InvV r0 s -> step sg s e = Some s' -> InvV r0 s'.
Proof.
  intros I V H. destruct e.
  - eapply stepV_get; eauto.
  - eapply stepV_assign; eauto.
  - eapply stepV_recv; eauto.
  - eapply stepV_prepare; eauto.
  - eapply stepV_commit; eauto.
  - eapply stepV_put; eauto.
  - eapply stepV_putlost; eauto.
  - eapply stepV_del; eauto.
  - eapply stepV_dellost; eauto.
  - eapply stepV_complete; eauto.
  - eapply stepV_done; eauto.
  - eapply stepV_extdrop; eauto.
Qed.

(* ---------- every reachable state ---------- *)

Lemma run_inv sg r0 tr : forall s s',
  InvS s -> InvV r0 s -> run sg s tr = Some s' -> InvS s' /\ InvV r0 s'.
Proof.
  induction tr as [|e tr IH]; intros s s' I V H; simpl in H.
  - injection H as <-. auto.
  - destruct (step sg s e) as [s1|] eqn:E; [|discriminate].
    apply (IH s1 s'); [eapply stepS; eauto | eapply stepV; eauto | exact H].
Qed.

Lemma reachable_inv sg r0 st0 tr s :
  run sg (init r0 st0) tr = Some s -> InvS s /\ InvV r0 s.
Proof.
  intros H. eapply run_inv; eauto using invS_init, invV_init.
Qed.
