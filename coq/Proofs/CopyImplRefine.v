(* CopyImplRefine: the protocol LTS with destination (Model/CopyImplDst.v) refines a small abstract
   specification of a copy call whose guards are the clauses of C02:
     AStore n   only when every successor of n is stored;
     AFault / ACancel taint the call;
     ARet true  (error) only when tainted;  ARet false (nil) only when untainted and everything
                reachable from the roots is stored.
   Every execution of the combined system - any interleaving of the goroutines, any fault placement,
   any cancellation point, any prefix - projected to its visible events is a run of the abstract
   specification (trace inclusion, state by state). *)
From Coq Require Import List Arith Bool Lia.
From Oras Require Import Model.CopyImpl Model.CopyImplDst Proofs.CopyImplBase Proofs.CopyImplInv Proofs.CopyImplInv2
  Proofs.CopyImplLive Proofs.CopyImplFault Proofs.CopyImplSucc Proofs.CopyImplSucc2 Proofs.CopyImplOrder
  Proofs.CopyImplNoFault Proofs.CopyImplDst.
Import ListNotations.

Inductive aevent := AStore (n : nat) | AFault | ACancel | ARet (e : bool).
Record astate := mkA { a_dst : nat -> bool; a_taint : bool }.

Section Abs.
Variable succ : nat -> list nat.
Variable roots : list nat.

Inductive astep : astate -> aevent -> astate -> Prop :=
| AS_store a n : (forall m, In m (succ n) -> a_dst a m = true) ->
    astep a (AStore n) (mkA (upd (a_dst a) n true) (a_taint a))
| AS_fault a : astep a AFault (mkA (a_dst a) true)
| AS_cancel a : astep a ACancel (mkA (a_dst a) true)
| AS_ret_err a : a_taint a = true -> astep a (ARet true) a
| AS_ret_ok a : a_taint a = false ->
    (forall r, In r roots -> forall n, reach succ r n -> a_dst a n = true) -> astep a (ARet false) a.

Inductive aruns : astate -> list aevent -> astate -> Prop :=
| AR_nil a : aruns a [] a
| AR_cons a e a1 es a2 : astep a e a1 -> aruns a1 es a2 -> aruns a (e :: es) a2.

Lemma aruns_app a es a1 es' a2 : aruns a es a1 -> aruns a1 es' a2 -> aruns a (es ++ es') a2.
Proof. induction 1; cbn; intros; auto. econstructor; eauto. Qed.

(* the abstract specification has the property: closed stays closed, taint is never lost, content
   is never lost *)
Lemma astep_closed a e a' : astep a e a' -> closed succ (a_dst a) -> closed succ (a_dst a').
Proof.
  destruct 1; cbn; auto. intros Hc. apply closed_upd; auto.
Qed.
Theorem abstract_spec_sound a es a' : aruns a es a' -> closed succ (a_dst a) ->
  closed succ (a_dst a') /\ (a_taint a = true -> a_taint a' = true) /\
  (forall n, a_dst a n = true -> a_dst a' n = true).
Proof.
  induction 1 as [|a e a1 es a2 Hs Hr IH]; intros Hc; auto.
  destruct (IH (astep_closed _ _ _ Hs Hc)) as [A [B C]]. split; auto. split.
  - intros Ht. apply B. destruct Hs; cbn; auto.
  - intros n Hn. apply C. destruct Hs; cbn; auto. unfold upd. destruct (Nat.eqb _ _); auto.
Qed.

(* visible events of a step of the combined system *)
Definition vis (x : dstate) (dl : dlabel) : list aevent :=
  match dl with
  | DL (LPush t true) => [AStore (t_node (tasks (d_st x) t))]
  | DPushStoredFail t => [AStore (t_node (tasks (d_st x) t)); AFault]
  | DL (LPush _ false) | DL (LFind _ false) | DL (LExists _ ExFail) => [AFault]
  | DL LCancelTop => [ACancel]
  | DL (LGoReturn O) => [ARet (f_cancelled (frames (d_st x) 0))]
  | _ => []
  end.

Fixpoint dtrace (x : dstate) (ls : list dlabel) : list aevent :=
  match ls with
  | [] => []
  | l :: r => vis x l ++ match dstep succ x l with Some x' => dtrace x' r | None => [] end
  end.

Definition abs (x : dstate) (hist : list dlabel) : astate := mkA (d_dst x) (existsb dis_fault hist).

End Abs.

Section Proofs.
Variable succ : nat -> list nat.
Variable K : nat.
Variable ext : bool.
Variable roots : list nat.
Variable d0 : nat -> bool.
Hypothesis succ_dec : forall n m, In m (succ n) -> m < n.
Hypothesis closed0 : closed succ d0.
Local Notation dinit0 := (dinit K ext roots d0).

Lemma drun_snoc ls : forall x x1 l x2, drun succ x ls = Some x1 -> dstep succ x1 l = Some x2 ->
  drun succ x (ls ++ [l]) = Some x2.
Proof.
  induction ls as [|a ls IH]; cbn; intros x x1 l x2 H1 H2.
  - inversion H1; subst. rewrite H2. reflexivity.
  - destruct (dstep succ x a) as [y|]; [|discriminate]. eapply IH; eauto.
Qed.

Lemma existsb_snoc {A} (f : A -> bool) l a : existsb f (l ++ [a]) = existsb f l || f a.
Proof. rewrite existsb_app. cbn. rewrite orb_false_r. reflexivity. Qed.

(* the top-level frame returning: the result is the cancelled flag of frame 0 *)
Lemma goreturn0_result s s' : step succ s (LGoReturn 0) = Some s' ->
  result s' = Some (f_cancelled (frames s 0)).
Proof.
  intros Hs. cbn in Hs.
  destruct (f_pc (frames s 0)); try discriminate.
  destruct (frame_tasks_done s 0); try discriminate.
  destruct (f_parent (frames s 0)) as [p|].
  - destruct (t_pc (tasks s p)); try discriminate.
    destruct (Nat.eqb f 0); try discriminate.
    destruct (f_cancelled (frames s 0)); inversion Hs; unfold result, finish, with_tasks; cbn [frames];
      rewrite ?cf_pc; rewrite upd_same; reflexivity.
  - inversion Hs. unfold result. cbn [frames]. rewrite upd_same. reflexivity.
Qed.

Lemma one_step hist x l x' : drun succ dinit0 hist = Some x -> dstep succ x l = Some x' ->
  aruns succ roots (abs x hist) (vis x l) (abs x' (hist ++ [l])).
Proof.
  intros Hrun Hs.
  assert (Hr : DReachable succ K ext roots d0 x) by (eapply drun_reachable; eauto; constructor).
  pose proof (dstep_dst _ _ _ _ Hs) as Hd.
  unfold abs. rewrite existsb_snoc, Hd.
  assert (Hstore : forall n, stores (d_st x) l = Some n -> forall m, In m (succ n) -> d_dst x m = true).
  { intros n Hn. eapply push_stores_after_successors; eauto. }
  destruct l as [l|t].
  - destruct l; cbn [vis stores dis_fault base_label is_fault]; rewrite ?orb_false_r; try apply AR_nil.
    + (* cancel *) rewrite orb_true_r. econstructor; [apply AS_cancel|apply AR_nil].
    + (* GoReturn *)
      destruct f; [|apply AR_nil].
      pose proof (drun_snoc _ _ _ _ _ Hrun Hs) as Hrun'.
      pose proof (dstep_base _ _ _ _ Hs) as Hbs. cbn [base_label] in Hbs.
      pose proof (goreturn0_result _ _ Hbs) as Hres.
      assert (Hfin : is_final (d_st x') = true).
      { unfold is_final. unfold result in Hres. destruct (f_pc (frames (d_st x') 0)); try discriminate; reflexivity. }
      destruct (call_summary succ K ext roots d0 succ_dec _ _ closed0 Hrun') as [_ [_ Hsum]].
      destruct (Hsum Hfin) as [Herr Hok]. rewrite existsb_snoc in Herr, Hok. cbn in Herr, Hok.
      rewrite orb_false_r in Herr, Hok.
      destruct (existsb dis_fault hist) eqn:Ht.
      * rewrite (Herr eq_refl) in Hres. assert (He : f_cancelled (frames (d_st x) 0) = true) by congruence. rewrite He.
        econstructor; [apply AS_ret_err; reflexivity | apply AR_nil].
      * destruct (Hok eq_refl) as [Hr0 Hall]. rewrite Hr0 in Hres. assert (He : f_cancelled (frames (d_st x) 0) = false) by congruence. rewrite He.
        econstructor; [apply AS_ret_ok; cbn; auto | apply AR_nil].
        intros r Hin n Hn. specialize (Hall r Hin n Hn). rewrite Hd in Hall. cbn in Hall. exact Hall.
    + (* Exists *) destruct r; cbn; rewrite ?orb_false_r, ?orb_true_r; try apply AR_nil.
      econstructor; [apply AS_fault|apply AR_nil].
    + (* Find *) destruct ok; cbn; rewrite ?orb_false_r, ?orb_true_r; try apply AR_nil.
      econstructor; [apply AS_fault|apply AR_nil].
    + (* Push *) destruct ok; cbn; rewrite ?orb_false_r, ?orb_true_r.
      * econstructor; [|apply AR_nil]. apply (AS_store succ roots (mkA (d_dst x) (existsb dis_fault hist))). cbn. apply Hstore. reflexivity.
      * econstructor; [apply AS_fault|apply AR_nil].
  - cbn [vis stores dis_fault base_label is_fault]. rewrite orb_true_r.
    econstructor; [apply (AS_store succ roots (mkA (d_dst x) (existsb dis_fault hist))); cbn; apply Hstore; reflexivity|].
    econstructor; [apply AS_fault|apply AR_nil].
Qed.

Lemma refines_from ls : forall hist x x', drun succ dinit0 hist = Some x -> drun succ x ls = Some x' ->
  aruns succ roots (abs x hist) (dtrace succ x ls) (abs x' (hist ++ ls)).
Proof.
  induction ls as [|l ls IH]; cbn; intros hist x x' Hh Hr.
  - inversion Hr; subst. rewrite app_nil_r. constructor.
  - destruct (dstep succ x l) as [x1|] eqn:Hs; [|discriminate].
    eapply aruns_app. eapply one_step; eauto.
    replace (hist ++ l :: ls) with ((hist ++ [l]) ++ ls) by (rewrite <- app_assoc; reflexivity).
    apply IH; auto. eapply drun_snoc; eauto.
Qed.

(* trace inclusion: every execution of the protocol LTS with destination is, on its visible events,
   a run of the abstract specification from (d0, untainted) to (final destination, a fault occurred) *)
Theorem refines_abstract_spec ls x : drun succ dinit0 ls = Some x ->
  aruns succ roots (mkA d0 false) (dtrace succ dinit0 ls) (mkA (d_dst x) (existsb dis_fault ls)).
Proof.
  intros H. exact (refines_from ls [] dinit0 x eq_refl H).
Qed.

End Proofs.
