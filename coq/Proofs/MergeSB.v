(* C14 — InvS preserved by the main caller's steps and ERecvMain *)
From Oras Require Import Base.Prelude Model.Referrers Proofs.Referrers Model.Merge Proofs.MergeBase.
From Coq Require Import Lia.

Lemma invS_main s t p cm r st l j ap :
  InvS s -> is_main (pcs s t) = true -> is_main p = true ->
  (committed s = true -> cm = true) -> (post_commit p = true -> cm = true) -> (ap = true -> cm = true) ->
  InvS (mkSt (pool s) cm (items s) (token s) (pending s) (upd (pcs s) t p) r st (arg s) l j ap).
Proof.
  intros I Hm Hp Hc1 Hc2 Hc3.
  destruct (i_main_in s I t Hm) as [Hin Htok].
  assert (Hni : items s <> []).
  { unfold batch in Hin. destruct (items s); [destruct Hin|discriminate]. }
  assert (Hu : forall t0, is_main (pcs s t0) = true -> t0 = t) by (intros; eapply i_main_unique; eauto).
  dS I. constructor; simpl.
  all: try solve [solveS t | poolS t].
  all: try solve [intros t0 c0 Hin0; destruct (i_items0 t0 c0 Hin0) as [A B]; split; auto; tcase t0 t; auto].
  all: try solve [intros t0 c0 Hin0; destruct (i_pend0 t0 c0 Hin0) as (A & B & C); repeat split; auto;
                  tcase t0 t; auto; rewrite A in Hm; discriminate].
  all: try solve [intros t0 Hx; tcase t0 t; auto].
  all: try solve [intros t1 t2 H1 H2; tcase t1 t; tcase t2 t; auto; symmetry; auto].
  all: try solve [intros t0 Hx; tcase t0 t; auto; apply Hc1; eapply i_committed0; eauto].
  all: try solve [intros t0 c0 Hx; tcase t0 t; [rewrite Hx in Hp; discriminate | eauto]].
  all: try solve [intros t0 Hx; tcase t0 t; [rewrite Hx in Hp; discriminate | auto]].
  all: try solve [intros _; right; exists t; rewrite upd_eq; exact Hp].
  destruct i_pool0 as (hs & A & B & C); exists hs; repeat split; auto.
  - intro Hx; tcase t0 t; [now apply main_holding|]; now apply B.
  - intro Hx; apply B; tcase t0 t; [now apply main_holding|auto].
Qed.

Lemma stepS_main_events sg s e s' t :
  InvS s -> step sg s e = Some s' ->
  (e = ECommit t \/ (exists f, e = EPrepare t f) \/ (exists f, e = EPut t f) \/ (exists f, e = EDel t f) \/ e = EPutLost t \/ e = EDelLost t) ->
  InvS s'.
Proof.
  intros I H [->|[[f ->]|[[f ->]|[[f ->]|[->| ->]]]]]; simpl in H.
  - destruct (pcs s t) eqn:Hpc; try discriminate.
    destruct old as [o|].
    + destruct (apply_changes (idx o) (map snd (items s))) as [|new] eqn:Ea.
      * injection H as <-. unfold set_pc, add_lin, set_committed; simpl.
        apply invS_main; auto; rewrite ?Hpc; auto.
      * destruct (negb (is_nil new) || sg).
        -- injection H as <-. unfold set_pc, set_committed; simpl. apply invS_main; auto; rewrite ?Hpc; auto.
        -- destruct o as [oi|]; injection H as <-; unfold set_pc, add_lin, set_committed; simpl;
             apply invS_main; auto; rewrite ?Hpc; auto.
    + injection H as <-. unfold set_pc, set_committed; simpl. apply invS_main; auto; rewrite ?Hpc; auto.
  - destruct (pcs s t) eqn:Hpc; try discriminate. injection H as <-.
    unfold set_pc. apply invS_main; auto; rewrite ?Hpc; auto; try discriminate. apply (i_applied s I).
  - destruct (pcs s t) eqn:Hpc; try discriminate.
    assert (Hcm : committed s = true) by (apply (i_committed s I t); rewrite Hpc; reflexivity).
    destruct f; injection H as <-; unfold set_pc, add_lin, set_reg; simpl;
      apply invS_main; auto; rewrite ?Hpc; auto.
    unfold after_put. destruct sg; [reflexivity|]. destruct old; reflexivity.
  - destruct (pcs s t) as [|c0| | |o|nw o|oi ap|r|r|r] eqn:Hpc; try discriminate.
    assert (Hcm : committed s = true) by (apply (i_committed s I t); rewrite Hpc; reflexivity).
    destruct f; injection H as <-.
    + unfold set_pc, set_reg; simpl. apply invS_main; auto; rewrite ?Hpc; auto.
    + destruct ap; unfold set_pc, add_lin, set_reg; simpl; apply invS_main; auto; rewrite ?Hpc; auto.
  - destruct (pcs s t) eqn:Hpc; try discriminate.
    assert (Hcm : committed s = true) by (apply (i_committed s I t); rewrite Hpc; reflexivity).
    injection H as <-; unfold set_pc, add_lin, set_reg; simpl;
      apply invS_main; auto; rewrite ?Hpc; auto.
  - destruct (pcs s t) as [|c0| | |o|nw o|oi ap|r|r|r] eqn:Hpc; try discriminate.
    assert (Hcm : committed s = true) by (apply (i_committed s I t); rewrite Hpc; reflexivity).
    injection H as <-.
    destruct ap; unfold set_pc, add_lin, set_reg; simpl; apply invS_main; auto; rewrite ?Hpc; auto.
Qed.

Lemma stepS_recv sg s t s' : InvS s -> step sg s (ERecvMain t) = Some s' -> InvS s'.
Proof.
  intros I H. simpl in H.
  destruct (pcs s t) eqn:Hpc; try discriminate.
  destruct (token s) eqn:Htok; simpl in H; try discriminate.
  destruct (mem t (batch s)) eqn:Hmem; try discriminate. injection H as <-.
  apply mem_In in Hmem.
  assert (Hnm : forall t0, is_main (pcs s t0) = false).
  { intro t0. destruct (is_main (pcs s t0)) eqn:E; auto. destruct (i_main_in s I t0 E). congruence. }
  destruct (i_token s I Htok) as [Hni Hcm].
  dS I. constructor; simpl.
  all: try solve [solveS t | poolS t].
  all: try solve [intros _; right; exists t; rewrite upd_eq; reflexivity].
  all: try solve [intros t0 Hx; tcase t0 t; [discriminate|auto]].
  - intros t0 c0 Hin. destruct (i_items0 t0 c0 Hin) as [A B]. split; auto. tcase t0 t; auto.
  - intros t0 c0 Hin. destruct (i_pend0 t0 c0 Hin) as (A & B & C). repeat split; auto.
    tcase t0 t; auto. tauto.
Qed.

