(* The order of effects that Model/CopySpec.v, CopyOpt.v and CopyCancel.v assume, stated about the
   call sequences that tools/gosrc2v re-reads from copy.go and internal/syncutil/limit.go on every
   run: reordering (or dropping) one of these calls in the source changes the generated definition
   and breaks the lemma that mentions it. *)
From Oras Require Import Base.Prelude Generated.GC01.

(* copyNode: PreCopy, then the transfer, then PostCopy  (phases Waiting -> Rdy -> ... -> PostP -> Done) *)
Lemma order_copyNode : calls_copyNode = [b "opts.PreCopy"; b "doCopyNode"; b "opts.PostCopy"].
Proof. reflexivity. Qed.

(* doCopyNode: the source reader is opened before the push and closed (deferred) after it
   (phases F1/F2 -> Pushing _ true -> Closing) *)
Lemma order_doCopyNode : calls_doCopyNode = [b "src.Fetch"; b "rc.Close"; b "dst.Push"].
Proof. reflexivity. Qed.

(* Copy: resolve, MapRoot, prepareCopy (tag hooks), then the graph walk  (CopyTop.copy_root / copy_cfg) *)
Lemma order_Copy : calls_Copy = [b "resolveRoot"; b "opts.MapRoot"; b "prepareCopy"; b "copyGraph"].
Proof. reflexivity. Qed.

(* copyGraph.fn: commit, probe, (skip hook), successors, foreign layers removed, permit released,
   successors dispatched and awaited, permit re-acquired, cache test, copy *)
Lemma order_copyGraph :
  calls_copyGraph =
  [b "tracker.TryCommit"; b "dst.Exists"; b "opts.OnCopySkipped"; b "opts.FindSuccessors";
   b "removeForeignLayers"; b "region.End"; b "syncutil.Go"; b "tracker.TryCommit"; b "region.Start";
   b "proxy.Cache.Exists"; b "copyNode"; b "mountOrCopyNode"; b "syncutil.Go"].
Proof. reflexivity. Qed.

(* prepareCopy: ReferencePusher root: user PreCopy, push with reference, PostCopy; Tagger root: Tag
   before the user's PostCopy; present root: (user hook,) re-push with reference or Tag; mounted
   root: user hook, re-push with reference or Tag *)
Lemma order_prepareCopy :
  calls_prepareCopy =
  [b "preCopy"; b "copyCachedNodeWithReference"; b "opts.PostCopy"; b "dst.Tag"; b "postCopy";
   b "onCopySkipped"; b "copyCachedNodeWithReference"; b "onCopySkipped"; b "dst.Tag";
   b "onMounted"; b "copyCachedNodeWithReference"; b "dst.Tag"].
Proof. reflexivity. Qed.

(* mountOrCopyNode: plain copy when mounting does not apply, else MountFrom, per candidate Mount with
   a getContent that calls PreCopy and src.Fetch, OnMounted, and PostCopy after a fallback upload *)
Lemma order_mountOrCopyNode :
  calls_mountOrCopyNode =
  [b "copyNode"; b "copyNode"; b "opts.MountFrom"; b "copyNode"; b "opts.PreCopy"; b "src.Fetch";
   b "mounter.Mount"; b "opts.OnMounted"; b "opts.PostCopy"].
Proof. reflexivity. Qed.

(* syncutil.Go: a permit per item before its goroutine starts, released when the task ends, the task
   is skipped when the context is done, the first failure cancels, and the function ENDS by returning
   the cause of the context -- what makes "cancelled before anything ran" an error (CopyCancel) *)
Lemma order_syncutilGo :
  calls_syncutilGo =
  [b "cancel"; b "region.Start"; b "cancel"; b "eg.Go"; b "lr.End"; b "fn"; b "cancel"; b "eg.Wait";
   b "cancel"; b "context.Cause"] /\
  go_final_return = ["context.Cause(ctx)"%string].
Proof. split; reflexivity. Qed.

(* Copy: a blank destination reference means the source reference (CopyTop.eff_ref) *)
Lemma rule_blank_dstref : copy_blank_dstref_rule = ["dstRef == ''"%string; "dstRef = srcRef"%string].
Proof. reflexivity. Qed.

(* cas.Proxy: Fetch serves from the cache when it can, else reads the source and feeds the cache;
   with StopCaching (MapRoot / platform selection) it goes through FetchCached, which reads the source
   WITHOUT feeding the cache (phases NeedFetch/MF1/MF2 and [cached]; CopyTop.prologue_fetches) *)
Lemma order_proxy :
  calls_proxyFetch = [b "p.FetchCached"; b "p.Cache.Fetch"; b "p.ReadOnlyStorage.Fetch"; b "p.Cache.Push"] /\
  calls_proxyFetchCached = [b "p.Cache.Exists"; b "p.Cache.Fetch"; b "p.ReadOnlyStorage.Fetch"].
Proof. split; reflexivity. Qed.
