(* C15 -- the syntactic facts about the Go sources that the hand-written models and the harness
   assume (Generated/GC15.v, kind c15_srcfact, re-read from the sources on every run).  An edit
   of one of these places makes this file fail (layer P) and sends bin/check into its search. *)
From Oras Require Import Base.Prelude Generated.GC15.

Lemma c15_srcfacts :
  c15_fact_link_header &&
  c15_fact_link_lt &&
  c15_fact_link_gt &&
  c15_fact_link_slice &&
  c15_fact_link_resolve &&
  c15_fact_link_string &&
  c15_fact_link_msg_lt &&
  c15_fact_link_msg_gt &&
  c15_fact_setq_split &&
  c15_fact_setq_cut &&
  c15_fact_setq_unescape &&
  c15_fact_setq_escape &&
  c15_fact_setq_join &&
  c15_fact_limit_default &&
  c15_fact_limit_reader &&
  c15_fact_limitsize_cmp &&
  c15_fact_tags_clear_last &&
  c15_fact_tags_nolink &&
  c15_fact_tags_params &&
  c15_fact_tags_setq &&
  c15_fact_tags_limit &&
  c15_fact_tags_decode_msg &&
  c15_fact_tags_callback_then_link &&
  c15_fact_repos_clear_last &&
  c15_fact_repos_params &&
  c15_fact_repos_callback_then_link &&
  c15_fact_refs_setq &&
  c15_fact_refs_ctype &&
  c15_fact_refs_ctype_msg &&
  c15_fact_refs_404 &&
  c15_fact_refs_filter &&
  c15_fact_refs_nonempty &&
  c15_fact_wrap_delivered &&
  c15_fact_wrap_supported &&
  c15_fact_tagschema_clean &&
  c15_fact_tagschema_nonempty &&
  c15_fact_index_limitsize &&
  c15_fact_probe_contentlength &&
  c15_fact_probe_limit &&
  c15_fact_ping_ctype &&
  c15_fact_filter_split &&
  c15_fact_filter_type &&
  c15_fact_oci_skip_digest &&
  c15_fact_oci_last &&
  c15_fact_oci_sort &&
  c15_fact_oci_readonly_tags &&
  c15_fact_oci_store_tags &&
  c15_fact_collect_tags &&
  c15_fact_collect_repos &&
  c15_fact_collect_referrers &&
  c15_fact_collect_predecessors = true.
Proof. reflexivity. Qed.
