From Coq Require Import List NArith Bool.
Import ListNotations.
From Oras Require Import Model.GraphMem Proofs.GraphMem.

Theorem C07_empty : forall n, predecessors empty_graph n = [].
Proof. exact empty_preds. Qed.
Print Assumptions C07_empty.
