(* C07 -- Predecessors is exact for every push order, after deletes, GC and reopen.
   Statements only; the lemmas are in Proofs/GraphMem.v, the executable model of
   internal/graph/memory.go in Model/GraphMem.v.

   Reading guide.  [node] is a descriptor key (media type, digest, size).
   [content n] is what content.Successors returns for n (config, layers, blobs,
   manifests, subject; ordered, duplicates kept) -- a function of the key because
   the bytes are addressed by the digest and parsed according to the media type.
   [sok n] says whether content.Successors succeeds for n (non-manifests: always;
   manifests: iff the storage holds the bytes).  Both are universally quantified
   parameters of the theorems (Section variables in the proofs): nothing is assumed
   about SHA-256 or JSON. *)
From Coq Require Import List NArith Bool Permutation.
Import ListNotations.
From Oras Require Import Base.Prelude Generated.GC07 Model.GraphMem Model.GraphStore Model.IndexLTS Model.StoreLTS Model.IndexAllLTS Model.GraphMemSrc Model.Links Proofs.GraphMem Proofs.StoreLTS Proofs.IndexAllLTS Proofs.Links Proofs.GraphStore Proofs.IndexLTS.

(* The invariants written in the comments of graph.Memory hold after every history of
   Index / Remove / IndexAll / fresh-graph operations, with content appearing in and
   disappearing from the fetcher at any time, re-index after remove included. *)
Theorem C07_inv :
  forall (ct : amap) (fuel : nat) (ops : list op),
    Inv (ctab ct) (s_g (fst (run ct fuel init_state ops))).
Proof. exact history_inv. Qed.
Print Assumptions C07_inv.

(* the statement order of graph.Memory.index / Remove / Predecessors that Model/GraphMem.v
   mirrors (Successors before the lock, the whole update under the lock, entry deleted when it
   becomes empty, ...) is the one in internal/graph/memory.go as re-read on this run *)
Theorem C07_graphmem_source_shape_src : graphmem_source_shape = true.
Proof. exact graphmem_source_shape_true. Qed.
Print Assumptions C07_graphmem_source_shape_src.

(* Under the invariant, Predecessors(n) is exactly -- no omission, no extra, no
   duplicate -- the set of nodes in the memory whose successors contain n, whether or
   not n itself is in the memory; and no returned descriptor is a zero descriptor. *)
Theorem C07_exact :
  forall (content : node -> list node) (g : graph), Inv content g ->
  forall n,
    NoDup (predecessors g n) /\
    (forall p, In p (predecessors g n) <-> In p (g_nodes g) /\ In n (content p)) /\
    predecessors_raw g n = map Some (predecessors g n).
Proof. exact exact_full. Qed.
Print Assumptions C07_exact.

(* "... whose config, layers, blobs, manifests or subject reference n": with [content] the
   model of content.Successors on a document ([successors_of], run against the real function
   on every run), Predecessors(n) is exactly the nodes in memory that reference n as subject,
   config, layer, listed manifest or blob -- as their media type makes the code read them
   (a Docker manifest's subject, an index's layers ... are not references). *)
Theorem C07_links_exact :
  forall (doc : node -> mdoc) (g : graph),
    Inv (fun p => successors_of (doc p)) g ->
    forall n, NoDup (predecessors g n) /\
              forall p, In p (predecessors g n) <-> In p (g_nodes g) /\ link (doc p) n.
Proof. exact links_exact. Qed.
Print Assumptions C07_links_exact.

(* The two together, for the machine that is extracted and run against the Go code:
   after any history every query is exact. *)
Theorem C07_history_query :
  forall ct fuel ops n,
    let g := s_g (fst (run ct fuel init_state ops)) in
    predecessors_raw g n = map Some (predecessors g n) /\
    NoDup (predecessors g n) /\
    forall p, In p (predecessors g n) <-> In p (g_nodes g) /\ In n (ctab ct p).
Proof. exact history_query. Qed.
Print Assumptions C07_history_query.

(* Store level: Push = storage push + index, Delete = Remove + storage delete.  After
   any sequence of pushes and deletes (any order, parents before children, repeated,
   deleted and pushed again) Predecessors(n) = the stored nodes referencing n, where
   "stored" is the obvious set semantics of the history ([stored_after_snoc]). *)
Theorem C07_push_delete_exact :
  forall (content : node -> list node) (ops : list sop) (n : node),
    let g := fold_left (sop_apply content) ops empty_graph in
    NoDup (predecessors g n) /\
    forall p, In p (predecessors g n) <-> In p (stored_after ops) /\ In n (content p).
Proof. exact push_delete_exact. Qed.
Print Assumptions C07_push_delete_exact.

Theorem C07_stored_after_spec :
  forall ops o x,
    In x (stored_after (ops ++ [o])) <->
    match o with
    | SPush n => x = n \/ In x (stored_after ops)
    | SDelete n => x <> n /\ In x (stored_after ops)
    end.
Proof. exact stored_after_snoc. Qed.
Print Assumptions C07_stored_after_spec.

(* Any permutation of a push list (children first, parents first, any interleaving of
   concurrent pushes: index() runs under the graph lock) gives the same node set and
   the same predecessor sets. *)
Theorem C07_order_independent :
  forall (content : node -> list node) (l1 l2 : list node),
    Permutation l1 l2 ->
    (forall x, In x (g_nodes (pushes content l1)) <-> In x (g_nodes (pushes content l2))) /\
    forall n, Permutation (predecessors (pushes content l1) n) (predecessors (pushes content l2) n).
Proof. exact push_order_independent. Qed.
Print Assumptions C07_order_independent.

(* Remove keeps the invariant and returns as danglings exactly the nodes in the memory
   that lost their last predecessor, each once -- for every order in which Go iterates
   over the successor set. *)
Theorem C07_remove_danglings :
  forall (content : node -> list node) (g : graph) (n : node) (order : list node),
    Inv content g -> Permutation order (getd (g_succs g) n) ->
    Inv content (fst (remove_ord g n order)) /\
    NoDup (snd (remove_ord g n order)) /\
    forall d, In d (snd (remove_ord g n order)) <->
              (In n (g_nodes g) /\ In d (content n) /\ In d (g_nodes g) /\
               forall p, In p (g_nodes g) -> In d (content p) -> p = n).
Proof. exact remove_danglings_full. Qed.
Print Assumptions C07_remove_danglings.

Theorem C07_remove_order_irrelevant :
  forall (content : node -> list node) (g : graph) (n : node) (o1 o2 : list node),
    Inv content g ->
    Permutation o1 (getd (g_succs g) n) -> Permutation o2 (getd (g_succs g) n) ->
    (forall x, In x (g_nodes (fst (remove_ord g n o1))) <-> In x (g_nodes (fst (remove_ord g n o2)))) /\
    (forall m, Permutation (predecessors (fst (remove_ord g n o1)) m)
                           (predecessors (fst (remove_ord g n o2)) m)) /\
    Permutation (snd (remove_ord g n o1)) (snd (remove_ord g n o2)).
Proof. exact remove_order_irrelevant. Qed.
Print Assumptions C07_remove_order_irrelevant.

(* ... and over whole histories: attach to EVERY Remove of a history an arbitrary iteration
   order of Go's map (any duplicate-free list with the members of the successor set).  The
   invariant holds, the final node set and every Predecessors answer are those of the model's
   own order, and every output along the way (danglings, query answers) is the same up to the
   order inside the set.  (The history-level form of C07_remove_order_irrelevant.) *)
Theorem C07_history_any_map_order :
  forall (ct : amap) (fuel : nat) (ops : list (op * list node)),
    let r1 := run_orders ct fuel init_state ops in
    let r2 := run ct fuel init_state (map fst ops) in
    Inv (ctab ct) (s_g (fst r1)) /\
    (forall x, In x (g_nodes (s_g (fst r1))) <-> In x (g_nodes (s_g (fst r2)))) /\
    (forall n, Permutation (predecessors (s_g (fst r1)) n) (predecessors (s_g (fst r2)) n)) /\
    Forall2 out_equiv (snd r1) (snd r2).
Proof. exact history_any_map_order. Qed.
Print Assumptions C07_history_any_map_order.

(* loadIndex (reopen from a directory, an fs.FS, a tar archive) and gcIndex build a
   fresh graph by IndexAll over a root list.  The result holds exactly the nodes
   reachable from the roots through nodes whose Successors succeed, and its
   Predecessors are exact with respect to that set. *)
Theorem C07_reload_exact :
  forall (content : node -> list node) (sok : node -> bool) fuel roots g',
    load content sok fuel roots = (g', true) ->
    (forall x, In x (g_nodes g') <-> exists r, In r roots /\ areach content sok r x) /\
    forall n, NoDup (predecessors g' n) /\
              forall p, In p (predecessors g' n) <->
                        (exists r, In r roots /\ areach content sok r p) /\ In n (content p).
Proof. exact load_exact. Qed.
Print Assumptions C07_reload_exact.

(* IndexAll as it really runs (Model/IndexAllLTS.v): one task per descriptor, started
   concurrently, each doing "commit in the tracker" and "index + start a task per successor"
   as two atomic actions.  EVERY schedule that runs to completion indexes exactly the nodes
   reachable from the root through fetchable nodes and keeps the invariant ... *)
Theorem C07_indexall_every_schedule :
  forall (content : node -> list node) (sok : node -> bool) g r trace st',
    Inv content g ->
    ia_run content sok (ia_init g r) trace = Some st' -> ia_done st' = true ->
    Inv content (ia_g st') /\
    forall x, In x (g_nodes (ia_g st')) <-> In x (g_nodes g) \/ areach content sok r x.
Proof. exact ia_complete. Qed.
Print Assumptions C07_indexall_every_schedule.

(* ... so it answers every Predecessors query like the sequential work-list [index_all] that
   the reload theorems are stated about *)
Theorem C07_indexall_schedule_irrelevant :
  forall (content : node -> list node) (sok : node -> bool) g r trace st' fuel g',
    Inv content g ->
    ia_run content sok (ia_init g r) trace = Some st' -> ia_done st' = true ->
    index_all_root content sok fuel g r = (g', true) ->
    (forall x, In x (g_nodes (ia_g st')) <-> In x (g_nodes g')) /\
    forall n, Permutation (predecessors (ia_g st') n) (predecessors g' n).
Proof. exact ia_same_as_sequential. Qed.
Print Assumptions C07_indexall_schedule_irrelevant.

(* the two actions of a task and their order are those of graph.Memory.IndexAll as re-read on this run *)
Theorem C07_indexall_task_order_src : indexall_task_order = true.
Proof. exact indexall_task_order_true. Qed.
Print Assumptions C07_indexall_task_order_src.

Example C07_indexall_schedule_example :
  exists st', ia_run (ctab ia_ct) (fun _ => true) (ia_init empty_graph 3%N)
                [EvCommit 0; EvIndex 0; EvCommit 1; EvCommit 0; EvIndex 1; EvIndex 0;
                 EvCommit 1; EvCommit 0; EvIndex 0] = Some st' /\
              ia_done st' = true /\ predecessors (ia_g st') 1%N = [2; 3]%N.
Proof. exact ia_example. Qed.

(* Reopen: if the storage holds exactly the live graph's nodes and every live node
   with successors is listed as a root (OCI: every stored manifest is tagged by its
   digest and therefore in index.json -- the store invariant of C08), the reloaded
   graph answers every Predecessors query like the live one. *)
Theorem C07_reload_equiv :
  forall (content : node -> list node) (sok : node -> bool) fuel roots g g',
    Inv content g ->
    (forall p, In p (g_nodes g) -> sok p = true) ->
    (forall p, sok p = true -> content p <> [] -> In p (g_nodes g)) ->
    (forall p, In p (g_nodes g) -> content p <> [] -> In p roots) ->
    load content sok fuel roots = (g', true) ->
    forall n, Permutation (predecessors g' n) (predecessors g n).
Proof. exact reload_equiv. Qed.
Print Assumptions C07_reload_equiv.

(* The root hypothesis cannot be dropped: a stored manifest that is not a root of
   index.json is lost by a reload.  This is the witness of the finding
   "gc-drops-nested-manifest" (known_findings.d/C07.json, corpus/C07): before the fix
   gcIndex removed the by-digest entry of manifests nested under a tagged root. *)
Theorem C07_reload_equiv_without_roots_refuted :
  exists content sok fuel roots g g' n,
    Inv content g /\
    (forall p, In p (g_nodes g) -> sok p = true) /\
    (forall p, sok p = true -> content p <> [] -> In p (g_nodes g)) /\
    load content sok fuel roots = (g', true) /\
    ~ Permutation (predecessors g' n) (predecessors g n).
Proof. exact reload_without_root_refuted. Qed.
Print Assumptions C07_reload_equiv_without_roots_refuted.

(* ---- file store (content/file.Store.Push = store the bytes, index, restore duplicated
   names; the first and the last step can fail or refuse, as the environment decides) ----
   After every history of pushes with any outcomes, Predecessors(n) is exactly the stored
   nodes referencing n -- for the order "index before restore" as re-read from file.go
   ([file_index_first] from Generated.GC07.calls_filePush). *)
Theorem C07_file_history_exact_src :
  forall (content : node -> list node) (ops : list fop) (n : node),
    let s := frun file_index_first content ops in
    NoDup (predecessors (f_graph s) n) /\
    forall p, In p (predecessors (f_graph s) n) <-> In p (f_blobs s) /\ In n (content p).
Proof. exact file_history_exact_src. Qed.
Print Assumptions C07_file_history_exact_src.

(* with the restore step before the index step (the code before the fix) a manifest whose
   duplicate cannot be restored is stored and never indexed (audit finding F1) *)
Theorem C07_file_restore_first_refuted :
  exists content ops n p,
    let s := frun false content ops in
    In p (f_blobs s) /\ In n (content p) /\ ~ In p (predecessors (f_graph s) n).
Proof. exact file_restore_first_refuted. Qed.
Print Assumptions C07_file_restore_first_refuted.

(* ---- OCI store level (Model/GraphStore.v: blobs on disk, the root list of
   index.json, graph.Memory) ----
   After every history of Push / Tag / Delete (a Delete with AutoGC is a sequence of
   such deletes) / GC (whatever referrers the subject walk and Go's map order keep) /
   reopen, Predecessors(n) is exactly the set of stored nodes whose successors contain
   n -- for the repaired gcIndex.  [isman] marks the five manifest media types; only
   they have successors. *)
Theorem C07_store_history_exact :
  forall (content : node -> list node) (isman : node -> bool) (rank : node -> nat),
    (forall p, content p <> [] -> isman p = true) ->
    (forall p c, In c (content p) -> (rank c < rank p)%nat) ->
    forall fuel ops n,
      let s := fst (orun true true true content isman fuel empty_store ops) in
      NoDup (predecessors (o_graph s) n) /\
      forall p, In p (predecessors (o_graph s) n) <-> In p (o_blobs s) /\ In n (content p).
Proof. exact store_history_exact. Qed.
Print Assumptions C07_store_history_exact.

(* the same for the position of saveIndex in Store.GC as re-read from content/oci/oci.go on
   this run ([gc_save_after_restore] is computed from Generated.GC07.calls_GC): this
   statement stops compiling when index.json is written before the digest references of
   the reachable manifests are restored *)
Theorem C07_store_history_exact_src :
  forall (content : node -> list node) (isman : node -> bool) (rank : node -> nat),
    (forall p, content p <> [] -> isman p = true) ->
    (forall p c, In c (content p) -> (rank c < rank p)%nat) ->
    forall fuel ops n,
      let s := fst (orun true gc_save_after_restore delete_reroots content isman fuel empty_store ops) in
      NoDup (predecessors (o_graph s) n) /\
      forall p, In p (predecessors (o_graph s) n) <-> In p (o_blobs s) /\ In n (content p).
Proof. exact store_history_exact_src. Qed.
Print Assumptions C07_store_history_exact_src.

(* Store.GC saving index.json BEFORE restoring those references ([orun true false false], i.e. without the re-rooting of dangling manifests in delete, which masks it): push 0,
   2 = manifest{0}, 3 = index{2}; tag 3; GC; reopen; delete 3; reopen: 2 is stored, references
   0, and Predecessors(0) omits it.  Without the reopen between GC and Delete the defect is
   masked ([C07_store_gc_save_early_masked]). *)
Theorem C07_store_gc_save_early_refuted :
  exists content isman fuel ops n p,
    (forall q, content q <> [] -> isman q = true) /\
    let r := orun true false false content isman fuel empty_store ops in
    snd r = true /\ In p (o_blobs (fst r)) /\ In n (content p) /\
    ~ In p (predecessors (o_graph (fst r)) n).
Proof. exact store_gc_save_early_refuted. Qed.
Print Assumptions C07_store_gc_save_early_refuted.

Example C07_store_gc_save_early_masked :
  let r := orun true false false (ctab pf_ct) pf_isman 50 empty_store pf_ops in
  snd r = true /\ predecessors (o_graph (fst r)) 0%N = [2%N].
Proof. exact store_gc_save_early_masked. Qed.

Example C07_store_history_fixed_example2 :
  let r := orun true true true (ctab pf_ct) pf_isman 50 empty_store pf_ops2 in
  snd r = true /\ o_blobs (fst r) = [2; 0]%N /\ predecessors (o_graph (fst r)) 0%N = [2%N].
Proof. exact store_history_fixed_example2. Qed.

(* [ops] may contain PForeign: the layout's index.json replaced from outside by one that lists
   only the tagged and top-level manifests (what other tools write), then reopened.  The
   theorem above covers those histories because Store.delete gives a by-digest entry to every
   manifest that loses its last predecessor ([reroot = true], re-read from the source as
   [delete_reroots]).  Without it ([orun true true false]): push 0, 2 = manifest{0},
   3 = index{2}; tag 3; foreign index listing 3 only + reopen; delete 3; reopen: 2 is stored,
   references 0, Predecessors(0) omits it (audit finding F2; fixed by repo commit
   "fix: oci Delete keeps a dangling manifest listed in the index"). *)
Theorem C07_store_foreign_noreroot_refuted :
  exists content isman fuel ops n p,
    (forall q, content q <> [] -> isman q = true) /\
    let r := orun true true false content isman fuel empty_store ops in
    snd r = true /\ In p (o_blobs (fst r)) /\ In n (content p) /\
    ~ In p (predecessors (o_graph (fst r)) n).
Proof. exact store_foreign_noreroot_refuted. Qed.
Print Assumptions C07_store_foreign_noreroot_refuted.

Example C07_store_foreign_fixed_example :
  let r := orun true true true (ctab pf_ct) pf_isman 50 empty_store pf_ops3 in
  snd r = true /\ o_blobs (fst r) = [2; 0]%N /\ predecessors (o_graph (fst r)) 0%N = [2%N].
Proof. exact store_foreign_fixed_example. Qed.

(* the hypotheses of the store theorems hold for the example universe *)
Example C07_store_hyps_example :
  (forall q, ctab pf_ct q <> [] -> pf_isman q = true) /\
  (forall p c, In c (ctab pf_ct p) -> (N.to_nat c < N.to_nat p)%nat).
Proof. exact (conj pf_content_isman pf_rank_dec). Qed.

(* The store theorems take [fst] of [orun]: a GC / reopen that ran out of fuel is a no-op in
   the model.  That never hides a real step: with fuel above the size of any finite universe
   closed under [content] that contains the entries of the resolver and of index.json, every
   step other than a refused PForeign reports success (per step; audit F8). *)
Theorem C07_store_step_terminates :
  forall content isman U fuel fixed save_late reroot s o,
    (forall u, In u U -> forall c, In c (content u) -> In c U) ->
    (1 + pot content U [] < fuel)%nat ->
    (forall x, In x (o_tagged s) \/ In x (o_dtagged s) \/ In x (o_dbydigest s) -> In x U) ->
    match o with PGC kept => forall x, In x kept -> In x U | PForeign _ => False | _ => True end ->
    snd (ostep fixed save_late reroot content isman fuel s o) = true.
Proof. exact store_step_terminates. Qed.
Print Assumptions C07_store_step_terminates.

(* ---- AutoSaveIndex = false and SaveIndex ([arun]: the store model wrapped with the flag) ----
   Whatever the flag and wherever SaveIndex is called, Predecessors is exact after every
   history in which no layout is (re)opened from an index.json that was not saved
   ([snd r = true]: also no fuel exhaustion). *)
Theorem C07_store_autosave_exact :
  forall (content : node -> list node) (isman : node -> bool) (rank : node -> nat),
    (forall p, content p <> [] -> isman p = true) ->
    (forall p c, In c (content p) -> (rank c < rank p)%nat) ->
    forall fuel ops n,
      let r := arun content isman fuel empty_astore ops in
      snd r = true ->
      NoDup (predecessors (o_graph (a_s (fst r))) n) /\
      forall p, In p (predecessors (o_graph (a_s (fst r))) n) <->
                In p (o_blobs (a_s (fst r))) /\ In n (content p).
Proof. exact autosave_history_exact. Qed.
Print Assumptions C07_store_autosave_exact.

(* [arun]'s operation language includes the Push of a manifest whose bytes do not decode
   (ABadPush: storage.Push, graph.Index fails, the blob is removed again): C07_store_autosave_exact
   and C07_store_refines_spec cover histories containing it; it leaves no trace: *)
Example C07_store_bad_push_example :
  let ops1 := [AOp (PPush 0%N); AOp (PPush 2%N); ABadPush 9%N; AOp (PPush 3%N); AOp PReopen] in
  let ops2 := [AOp (PPush 0%N); AOp (PPush 2%N); AOp (PPush 3%N); AOp PReopen] in
  arun (ctab pf_ct) pf_isman 50 empty_astore ops1 = arun (ctab pf_ct) pf_isman 50 empty_astore ops2.
Proof. exact bad_push_example. Qed.

(* the side condition is needed (and is the documented duty of the caller): AutoSaveIndex off,
   push, reopen without SaveIndex: the pushed manifest is on disk and not indexed *)
Theorem C07_store_unsaved_reopen_refuted :
  exists content isman fuel ops n p,
    (forall q, content q <> [] -> isman q = true) /\
    let r := arun content isman fuel empty_astore ops in
    snd r = false /\ In p (o_blobs (a_s (fst r))) /\ In n (content p) /\
    ~ In p (predecessors (o_graph (a_s (fst r))) n).
Proof. exact autosave_unsaved_reopen_refuted. Qed.
Print Assumptions C07_store_unsaved_reopen_refuted.

Example C07_store_saved_reopen_example :
  let r := arun (ctab pf_ct) pf_isman 50 empty_astore
             [ASetAuto false; AOp (PPush 0%N); AOp (PPush 2%N); ASaveIndex; AOp PReopen] in
  snd r = true /\ predecessors (o_graph (a_s (fst r))) 0%N = [2%N].
Proof. exact autosave_saved_reopen_example. Qed.

(* ... and whole histories: with fuel above the size of a finite universe closed under
   [content] that contains every node the operations mention, no step of any history
   (without PForeign, whose guard may refuse) runs out of fuel. *)
Theorem C07_store_history_terminates :
  forall content isman U,
    (forall u, In u U -> forall c, In c (content u) -> In c U) ->
    forall fuel ops,
      (1 + pot content U [] < fuel)%nat -> Forall (op_in U) ops ->
      snd (orun true true true content isman fuel empty_store ops) = true.
Proof. exact store_history_terminates. Qed.
Print Assumptions C07_store_history_terminates.

(* ---- refinement of the specification, with tag names ----
   [spec_preds content blobs n] computes the answer from the stored set alone (the stored
   nodes whose successors contain n).  After every history of the full operation language --
   Push, Tag / Untag BY NAME (the model keeps the reference -> node map; a name that moves is
   taken from the node that had it), Delete, GC, reopen, foreign index, AutoSaveIndex on/off,
   SaveIndex -- the store's Predecessors is a permutation of it. *)
Theorem C07_store_refines_spec :
  forall (content : node -> list node) (isman : node -> bool) (rank : node -> nat),
    (forall p, content p <> [] -> isman p = true) ->
    (forall p c, In c (content p) -> (rank c < rank p)%nat) ->
    forall fuel ops n,
      let r := nrun content isman fuel ops in
      snd r = true ->
      Permutation (predecessors (o_graph (a_s (fst r))) n)
                  (spec_preds content (o_blobs (a_s (fst r))) n).
Proof. exact names_refines_spec. Qed.
Print Assumptions C07_store_refines_spec.

Example C07_store_names_example :
  let r := nrun (ctab pf_ct) pf_isman 50
             [NOp (AOp (PPush 0%N)); NOp (AOp (PPush 2%N)); NOp (AOp (PPush 3%N));
              NTag 2%N 7%N; NTag 3%N 7%N; NOp (AOp (PGC []))] in
  snd r = true /\ o_tagged (a_s (fst r)) = [3%N] /\ predecessors (o_graph (a_s (fst r))) 0%N = [2%N].
Proof. exact names_example. Qed.

(* Scope: [ops] are operations that COMPLETE.  An operation aborted by the environment
   half-way is not covered, and the statement is false there: a Delete whose unlink fails
   after Untag / graph.Remove / saveIndex (EPERM, open handle on NTFS) leaves the blob stored
   and un-indexed.  Declared out of scope (assumptions in bin/props.d/C07.py; audit F3). *)
Theorem C07_store_delete_error_refuted :
  exists content isman ops n p,
    (forall q, content q <> [] -> isman q = true) /\
    let s := delete_unlink_fails content isman
               (fst (orun true true true content isman 50 empty_store ops)) p in
    In p (o_blobs s) /\ In n (content p) /\ ~ In p (predecessors (o_graph s) n).
Proof. exact store_delete_error_refuted. Qed.
Print Assumptions C07_store_delete_error_refuted.

(* closing the layout and opening it again (directory, fs.FS, tar: the same loadIndex)
   changes neither the stored set nor any Predecessors answer *)
Theorem C07_store_reopen_same :
  forall (content : node -> list node) (isman : node -> bool) (rank : node -> nat),
    (forall p, content p <> [] -> isman p = true) ->
    (forall p c, In c (content p) -> (rank c < rank p)%nat) ->
    forall fuel ops s',
      let s := fst (orun true true true content isman fuel empty_store ops) in
      ostep true true true content isman fuel s PReopen = (s', true) ->
      o_blobs s' = o_blobs s /\
      forall n, Permutation (predecessors (o_graph s') n) (predecessors (o_graph s) n).
Proof. exact store_reopen_same. Qed.
Print Assumptions C07_store_reopen_same.

(* The same statement is false for gcIndex as it was before the repair
   ([orun false true false], likewise without the re-rooting in delete): push 0, 2 = manifest{0}, 3 = index{2}; tag 3; GC; delete 3; reopen:
   2 is stored and references 0, Predecessors(0) omits it.  Replayed on the real store:
   corpus/C07/gc-drops-nested-manifest.json. *)
Theorem C07_store_history_exact_prefix_refuted :
  exists content isman fuel ops n p,
    (forall q, content q <> [] -> isman q = true) /\
    let r := orun false true false content isman fuel empty_store ops in
    snd r = true /\ In p (o_blobs (fst r)) /\ In n (content p) /\
    ~ In p (predecessors (o_graph (fst r)) n).
Proof. exact store_history_exact_prefix_refuted. Qed.
Print Assumptions C07_store_history_exact_prefix_refuted.

Example C07_store_history_fixed_example :
  let r := orun true true true (ctab pf_ct) pf_isman 50 empty_store pf_ops in
  snd r = true /\ o_blobs (fst r) = [2; 0]%N /\ predecessors (o_graph (fst r)) 0%N = [2%N].
Proof. exact store_history_fixed_example. Qed.

(* ---- persistence of the index under concurrency (Model/IndexLTS.v) ----
   Concurrent Push / Tag / Untag each do: storage+graph step, resolver update, saveIndex.
   With saveIndex atomic w.r.t. its snapshot of the resolver map (snapshot and write under
   indexLock, the code as it is), for EVERY interleaving that runs all operations to
   completion the index.json on disk is the final resolver map. *)
Theorem C07_save_index_atomic_quiescent :
  forall res acts trace s',
    lrun true (linit res acts) trace = Some s' -> all_done s' = true ->
    l_disk s' = l_res s'.
Proof. exact save_index_atomic_quiescent. Qed.
Print Assumptions C07_save_index_atomic_quiescent.

(* the same for the critical section of Store.saveIndex as re-read from content/oci/oci.go on
   this run ([save_index_atomic] is computed from Generated.GC07.calls_saveIndex): this is the
   statement that stops compiling when the snapshot moves out of the lock *)
Theorem C07_save_index_quiescent_src :
  forall res acts trace s',
    lrun save_index_atomic (linit res acts) trace = Some s' -> all_done s' = true ->
    l_disk s' = l_res s'.
Proof. exact save_index_quiescent_src. Qed.
Print Assumptions C07_save_index_quiescent_src.

(* hence a store reopened from that index.json answers every Predecessors query like the
   live graph *)
Theorem C07_concurrent_save_then_reload :
  forall content sok fuel res acts trace s' g g',
    lrun true (linit res acts) trace = Some s' -> all_done s' = true ->
    Inv content g ->
    (forall p, In p (g_nodes g) -> sok p = true) ->
    (forall p, sok p = true -> content p <> [] -> In p (g_nodes g)) ->
    (forall p, In p (g_nodes g) -> content p <> [] -> In p (l_res s')) ->
    load content sok fuel (l_disk s') = (g', true) ->
    forall n, Permutation (predecessors g' n) (predecessors g n).
Proof. exact concurrent_save_then_reload. Qed.
Print Assumptions C07_concurrent_save_then_reload.

(* With the critical section narrowed to the write (snapshot outside indexLock) two
   concurrent pushes can leave a resolver entry out of index.json: the older snapshot is
   written last.  (The harness's "burst" stream looks for exactly this on the real store.) *)
Theorem C07_save_index_split_refuted :
  exists res acts trace s',
    lrun false (linit res acts) trace = Some s' /\ all_done s' = true /\
    exists e, In e (l_res s') /\ ~ In e (l_disk s').
Proof. exact save_index_split_refuted. Qed.
Print Assumptions C07_save_index_split_refuted.

Example C07_save_index_atomic_example :
  exists s', lrun true (linit [] [ActAdd 1%N; ActAdd 2%N]) [0; 0; 1; 1; 1; 0]%nat = Some s' /\
             all_done s' = true /\ l_disk s' = [2; 1]%N.
Proof. exact save_index_atomic_example. Qed.

(* ---- the whole store under concurrency (Model/StoreLTS.v) ----
   Push = storage.Push, graph.Index, tag by digest, saveIndex; Tag = Exists, tag by digest, tag
   by name, saveIndex; Untag = untag, saveIndex: each an atomic step; Delete / GC / reopen /
   foreign index run exclusively (Store.sync.Lock).  For EVERY interleaving of these steps
   (any number of operations, after any earlier history [ops0]), once every operation has
   returned, Predecessors(n) is exactly the stored nodes referencing n ... *)
Theorem C07_concurrent_quiescent_exact :
  forall (content : node -> list node) (isman : node -> bool) (rank : node -> nat),
    (forall p, content p <> [] -> isman p = true) ->
    (forall p c, In c (content p) -> (rank c < rank p)%nat) ->
    forall fuel ops0 cops trace st' n,
      let s0 := fst (orun true true true content isman fuel empty_store ops0) in
      crun content isman fuel (cinit s0 cops) trace = Some st' -> call_done st' = true ->
      NoDup (predecessors (o_graph (c_s st')) n) /\
      forall p, In p (predecessors (o_graph (c_s st')) n) <->
                In p (o_blobs (c_s st')) /\ In n (content p).
Proof. exact concurrent_quiescent_exact. Qed.
Print Assumptions C07_concurrent_quiescent_exact.

(* ... and a reopen of the layout at that point changes no answer.  (This discharges, for
   Push/Tag/Untag, the hypothesis "every live manifest has its resolver entry" that
   C07_concurrent_save_then_reload assumes.) *)
Theorem C07_concurrent_quiescent_reopen :
  forall (content : node -> list node) (isman : node -> bool) (rank : node -> nat),
    (forall p, content p <> [] -> isman p = true) ->
    (forall p c, In c (content p) -> (rank c < rank p)%nat) ->
    forall fuel ops0 cops trace st' s'',
      let s0 := fst (orun true true true content isman fuel empty_store ops0) in
      crun content isman fuel (cinit s0 cops) trace = Some st' -> call_done st' = true ->
      ostep true true true content isman fuel (c_s st') PReopen = (s'', true) ->
      o_blobs s'' = o_blobs (c_s st') /\
      forall n, Permutation (predecessors (o_graph s'') n) (predecessors (o_graph (c_s st')) n).
Proof. exact concurrent_quiescent_reopen. Qed.
Print Assumptions C07_concurrent_quiescent_reopen.

(* At EVERY reachable state of every interleaving (operations still in flight): no extra and
   no duplicate answer; a stored node referencing n can be missing only while its own Push is
   between storage.Push and graph.Index ("does not necessarily correspond to any consistent
   snapshot" in the doc comment is exactly this window and nothing more). *)
Theorem C07_concurrent_anytime :
  forall (content : node -> list node) (isman : node -> bool) (rank : node -> nat),
    (forall p, content p <> [] -> isman p = true) ->
    (forall p c, In c (content p) -> (rank c < rank p)%nat) ->
    forall fuel ops0 cops trace st' n,
      let s0 := fst (orun true true true content isman fuel empty_store ops0) in
      crun content isman fuel (cinit s0 cops) trace = Some st' ->
      NoDup (predecessors (o_graph (c_s st')) n) /\
      (forall p, In p (predecessors (o_graph (c_s st')) n) ->
                 In p (o_blobs (c_s st')) /\ In n (content p)) /\
      (forall p, In p (o_blobs (c_s st')) -> In n (content p) ->
                 In p (predecessors (o_graph (c_s st')) n) \/
                 existsb (p_push1 p) (c_threads st') = true).
Proof. exact concurrent_anytime. Qed.
Print Assumptions C07_concurrent_anytime.

(* the step order of Model/StoreLTS.v is the call order of Store.Push / tag / Tag / Untag in
   content/oci/oci.go as re-read on this run *)
Theorem C07_oci_step_order_src : oci_step_order = true.
Proof. exact oci_step_order_true. Qed.
Print Assumptions C07_oci_step_order_src.

Example C07_concurrent_example :
  exists st', crun (ctab lts_ct) lts_isman 50 (cinit empty_store lts_ops) lts_trace = Some st' /\
              call_done st' = true /\ o_blobs (c_s st') = [2; 0]%N /\
              predecessors (o_graph (c_s st')) 0%N = [2%N].
Proof. exact lts_example. Qed.

(* IndexAll / loadIndex / gcIndex terminate: for every finite universe closed under
   [content] and containing the roots (any shape, cycles included) some fuel completes
   the traversal, so [ok = true] above excludes no reachable situation. *)
Theorem C07_reload_terminates :
  forall (content : node -> list node) (sok : node -> bool) (U roots : list node),
    (forall u, In u U -> forall c, In c (content u) -> In c U) ->
    (forall r, In r roots -> In r U) ->
    exists fuel g', load content sok fuel roots = (g', true).
Proof. exact load_terminates. Qed.
Print Assumptions C07_reload_terminates.

(* ---- the hypotheses are satisfiable: a concrete instance ----
   0,1 blobs; 2 = manifest{config 0, layers 1,1}; 3 = index{2}; 4 = referrer{subject 2, blob 1} *)
Definition ex_ct : amap := [(2, [0;1;1]); (3, [2]); (4, [2;1])]%N.
Definition ex_ops : list op :=
  [OSok 0 true; OSok 1 true; OSok 2 true; OSok 3 true; OSok 4 true;
   OIndex 3; OIndex 4; OIndex 2; OIndex 1; OIndex 0; ORemove 3; OQuery 2; OQuery 1]%N.

(* an order other than the model's is really taken: the danglings come out reversed *)
Example C07_map_order_example :
  snd (run_orders ex_ct 100 init_state
         [(OSok 0 true, []); (OSok 1 true, []); (OSok 2 true, []);
          (OIndex 0, []); (OIndex 1, []); (OIndex 2, []); (ORemove 2, [0; 1])]%N) =
    [RNone; RNone; RNone; ROk; ROk; ROk; RDang [0; 1]%N] /\
  snd (run ex_ct 100 init_state
         [OSok 0 true; OSok 1 true; OSok 2 true; OIndex 0; OIndex 1; OIndex 2; ORemove 2]%N) =
    [RNone; RNone; RNone; ROk; ROk; ROk; RDang [1; 0]%N].
Proof. vm_compute. split; reflexivity. Qed.

Example C07_example_history :
  snd (run ex_ct 100 init_state ex_ops) =
  [RNone; RNone; RNone; RNone; RNone; ROk; ROk; ROk; ROk; ROk; RDang [];
   RPreds [Some 4%N]; RPreds [Some 2%N; Some 4%N]].
Proof. vm_compute. reflexivity. Qed.

Example C07_example_danglings :
  snd (remove (pushes (ctab ex_ct) [0;1;2;3]%N) 3%N) = [2%N].
Proof. vm_compute. reflexivity. Qed.

Definition ex_live : graph := pushes (ctab ex_ct) [3; 0; 4; 2; 1]%N.
Definition ex_sok (x : node) : bool := N.leb x 4.

Example C07_example_reload :
  exists g', load (ctab ex_ct) ex_sok 100 [4; 2; 3]%N = (g', true) /\
             predecessors g' 2%N = [3; 4]%N /\ predecessors ex_live 2%N = [4; 3]%N.
Proof. eexists. vm_compute. repeat split. Qed.

Example C07_example_reload_hyps :
  Inv (ctab ex_ct) ex_live /\
  (forall p, In p (g_nodes ex_live) -> ex_sok p = true) /\
  (forall p, In p (g_nodes ex_live) -> ctab ex_ct p <> [] -> In p [4; 2; 3]%N).
Proof.
  split; [apply pushes_Inv, Inv_empty|]. split.
  - vm_compute. intros p H. repeat (destruct H as [<-|H]; [reflexivity|]). destruct H.
  - vm_compute. intros p H Hne.
    repeat (destruct H as [<-|H]; [first [ now (exfalso; apply Hne) | tauto ]|]). destruct H.
Qed.

(* ... and the remaining hypothesis of C07_reload_equiv: every fetchable manifest is live *)
Example C07_example_reload_hyp_storage :
  forall p, ex_sok p = true -> ctab ex_ct p <> [] -> In p (g_nodes ex_live).
Proof.
  intros p _ Hne. vm_compute.
  destruct (N.eq_dec p 2) as [->|H2]; [tauto|].
  destruct (N.eq_dec p 3) as [->|H3]; [tauto|].
  destruct (N.eq_dec p 4) as [->|H4]; [tauto|].
  exfalso. apply Hne. unfold ctab, getd, ex_ct. simpl.
  destruct (N.eqb_spec p 2); [congruence|]. destruct (N.eqb_spec p 3); [congruence|].
  destruct (N.eqb_spec p 4); [congruence|]. reflexivity.
Qed.
